(* C18: a skeleton that passes the lock-order check has no reachable deadlock configuration. *)
From Coq Require Import Arith NArith Bool Lia List.
Import ListNotations.
From PS Require Import Model.Skel Proofs.Skel.
Open Scope N_scope.

Section LockOrder.
Variable p : prog.
Variable A : fname -> list lock.
Variable rk : lock -> nat.
Hypothesis Hcheck : lock_order_check p A rk = true.

Let E : fname -> list lock := fun _ => [].

Lemma lo_wb : wb_facts p.
Proof.
  unfold lock_order_check in Hcheck. apply andb_true_iff in Hcheck. destruct Hcheck as [H _].
  apply andb_true_iff in H. destruct H as [H _]. apply wb_prog_facts. exact H.
Qed.

Lemma lo_spawn : spawn_facts p E.
Proof. intros g done h t _. reflexivity. Qed.

Lemma lo_closed : forall g o, In o (body p g) -> acq_closed_op A g o = true.
Proof.
  unfold lock_order_check in Hcheck. apply andb_true_iff in Hcheck. destruct Hcheck as [H _].
  apply andb_true_iff in H. destruct H as [_ H]. unfold acq_closed in H.
  exact (prog_ops p (acq_closed_op A) H).
Qed.

Lemma lo_rank : forall g done o rest, body p g = done ++ o :: rest -> rank_point A rk (lrun [] done) o = true.
Proof.
  unfold lock_order_check in Hcheck. apply andb_true_iff in Hcheck. destruct Hcheck as [_ H].
  unfold rank_ok in H. exact (prog_points p (fun _ => rank_point A rk) H).
Qed.

(* every lock recorded in the frames below an activation of [callee] is ranked below everything [callee] may acquire *)
Lemma stack_rank : forall st callee l l',
  linked p E callee st -> In l' (A callee) -> In l (locks_of st) -> (rk l < rk l')%nat.
Proof.
  induction st as [|fr r IH]; intros callee l l' Hlk Hl' Hl.
  - destruct Hl.
  - simpl in Hlk. destruct Hlk as [[done [Hb HL]] Hlk]. simpl in Hl. apply in_app_or in Hl.
    destruct Hl as [Hl|Hl].
    + pose proof (lo_rank _ _ _ _ Hb) as Hr. simpl in Hr. rewrite <- HL in Hr.
      rewrite forallb_forall in Hr. specialize (Hr _ Hl). rewrite forallb_forall in Hr.
      specialize (Hr _ Hl'). apply Nat.ltb_lt. exact Hr.
    + apply (IH (fr_fn fr) l l' Hlk); auto.
      assert (Hc : acq_closed_op A (fr_fn fr) (Call callee) = true).
      { apply lo_closed. rewrite Hb. apply in_or_app. right. left. reflexivity. }
      simpl in Hc. eapply subset_In; eauto.
Qed.

(* a thread that is about to acquire l' holds only locks ranked below l' *)
Lemma held_rank c i l l' :
  inv p E c -> awaited c i = Some l' -> owner c l = Some i -> (rk l < rk l')%nat.
Proof.
  intros [Hok Hown Hnd Hbd] Haw Ho. unfold awaited in Haw.
  destruct (nth_error (threads c) i) as [t|] eqn:Hi; [|discriminate].
  destruct t as [|[g L todo] st]; [discriminate|].
  destruct todo as [|o todo]; [discriminate|].
  destruct o; try discriminate. inversion Haw; subst l0. clear Haw.
  pose proof (Hok _ _ Hi) as [[done [Hb HL]] Hlk]. simpl in Hb, HL, Hlk.
  apply (Hown _ _ l Hi) in Ho. simpl in Ho. apply in_app_or in Ho. destruct Ho as [Ho|Ho].
  - pose proof (lo_rank _ _ _ _ Hb) as Hr. simpl in Hr. rewrite <- HL in Hr.
    rewrite forallb_forall in Hr. apply Nat.ltb_lt. auto.
  - apply (stack_rank st g l l' Hlk); auto.
    assert (Hc : acq_closed_op A g (Acq l') = true).
    { apply lo_closed. rewrite Hb. apply in_or_app. right. left. reflexivity. }
    simpl in Hc. apply mem_In. exact Hc.
Qed.

Lemma argmax (f : nat -> nat) (D : list nat) : D <> [] -> exists i, In i D /\ forall j, In j D -> (f j <= f i)%nat.
Proof.
  induction D as [|x r IH]; intros Hne; [congruence|].
  destruct r as [|y r'].
  - exists x. split; [left; reflexivity|]. intros j [->|[]]. lia.
  - destruct IH as [i [Hi Hmax]]; [discriminate|].
    destruct (Nat.le_gt_cases (f x) (f i)) as [Hle|Hgt].
    + exists i. split; [right; exact Hi|]. intros j [->|Hj]; auto.
    + exists x. split; [left; reflexivity|]. intros j [->|Hj]; [lia|]. specialize (Hmax _ Hj). lia.
Qed.

Lemma no_deadlock_inv c : inv p E c -> ~ deadlocked c.
Proof.
  intros Hinv [D [Hne HD]].
  set (f := fun i => match awaited c i with Some l => rk l | None => O end).
  destruct (argmax f D Hne) as [i [Hi Hmax]].
  destruct (HD _ Hi) as [l [j [Haw [Ho Hj]]]].
  destruct (HD _ Hj) as [l2 [j2 [Haw2 _]]].
  pose proof (held_rank c j l l2 Hinv Haw2 Ho) as Hlt.
  specialize (Hmax _ Hj). unfold f in Hmax. rewrite Haw, Haw2 in Hmax. lia.
Qed.

Theorem lock_order_sound_prog : forall ts c, reach p (init p ts) c -> ~ deadlocked c.
Proof.
  intros ts c Hr. apply no_deadlock_inv.
  eapply (inv_reach p E lo_wb lo_spawn ts c); eauto.
Qed.

End LockOrder.

(* for the raw skeletons produced by the extractor *)
Theorem lock_order_sound_skel : forall (sk : skeleton) (A : fname -> list lock) (rk : lock -> nat),
  lock_order_check (prog_of sk) A rk = true ->
  forall ts c, reach (prog_of sk) (init (prog_of sk) ts) c -> ~ deadlocked c.
Proof. intros sk A rk H. apply (lock_order_sound_prog (prog_of sk) A rk H). Qed.

(* ---------- the skeleton of the code as it is now ---------- *)
From PS Require Import Model.C18Corr.

Lemma c18_skeleton_ok_now : c18_skeleton_ok = true.
Proof. vm_compute. reflexivity. Qed.

Lemma c18_current_no_deadlock :
  forall ts c, reach c18_prog (init c18_prog ts) c -> ~ deadlocked c.
Proof.
  assert (H : lock_order_check c18_prog (lookupL c18_may_acquire) (rk_lookup c18_ranks) = true).
  { pose proof c18_skeleton_ok_now as H. unfold c18_skeleton_ok in H.
    apply andb_true_iff in H. destruct H as [_ H]. exact H. }
  exact (lock_order_sound_prog c18_prog _ _ H).
Qed.

Lemma c18_tables_ok_now : c18_tables_ok = true.
Proof. vm_compute. reflexivity. Qed.

(* the hypotheses of lock_order_sound are satisfiable by a skeleton with nested locks, a callback and a goroutine:
   f0: lock 0 { call f1 }; spawn f2      f1: lock 1 {}      f2: lock 1 { } (goroutine) *)
Example lock_order_example :
  exists (sk : skeleton) A rk,
    lock_order_check (prog_of sk) A rk = true /\
    exists c, reach (prog_of sk) (init (prog_of sk) [0%N; 0%N]) c /\ awaited c 0 = Some 1%N.
Proof.
  exists (mkSkeleton [(0, [(0,0); (2,0); (10,0); (7,2)]); (1, [(0,1); (1,1)]); (2, [(0,1); (2,1)])]%N [] [(0, [1])]%N [0]%N).
  exists (lookupL [(0, [0; 1]); (1, [1]); (2, [1])]%N).
  exists (rk_lookup [(0%N, 0%nat); (1%N, 1%nat)]).
  split; [vm_compute; reflexivity|].
  eexists. split.
  - eapply run_reach_init with (sched := [0; 0]%nat). vm_compute. reflexivity.
  - vm_compute. reflexivity.
Qed.
