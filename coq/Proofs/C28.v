(* Lemmas for C28 *)
From Coq Require Import String Ascii ZArith Bool Lia List.
From PS Require Import Base.Corr Gen.ConstsPeerSync Model.PeerSync Model.C28Corr.
Import ListNotations.
Open Scope Z_scope.

Lemma gen_peersync_constants :
  ps_poller_timeout = ps_cleanup_timeout /\ ps_poller_request_interval = ps_request_poll_interval /\
  ps_local_version = ps_protocol_version /\ ps_protocol_version <> 0.
Proof. repeat split; try reflexivity. discriminate. Qed.
