(* Lemmas for C28: peersync store / handler / poller / compatibility. *)
From Coq Require Import String Ascii ZArith Bool Lia List.
From PS Require Import Base.Corr Gen.ConstsPeerSync Model.PeerSync Model.C28Corr.
Import ListNotations.
Open Scope Z_scope.

(* ---------- constants ---------- *)
Lemma gen_peersync_constants :
  ps_poller_timeout = ps_cleanup_timeout /\ ps_poller_request_interval = ps_request_poll_interval /\
  ps_local_version = ps_protocol_version /\ ps_protocol_version <> 0 /\
  0 < ps_cleanup_timeout <= max_i64 /\ 0 < ps_request_poll_interval <= max_i64.
Proof. repeat split; try reflexivity; discriminate. Qed.

(* ---------- store ---------- *)
Definition keys (st : store) : list string := map fst st.
Definition has_key (k : string) (st : store) : Prop := In k (keys st).

Lemma eqb_sym_s a b : String.eqb a b = String.eqb b a.
Proof. apply String.eqb_sym. Qed.

Lemma st_get_none_iff k st : st_get k st = None <-> ~ has_key k st.
Proof.
  unfold has_key, keys. induction st as [|[k' v] r IH]; simpl.
  - tauto.
  - destruct (String.eqb_spec k k') as [->|Hne].
    + split; [discriminate|]. intros H; exfalso; apply H; auto.
    + rewrite IH. split; intros H; [intros [E|E]; [congruence|tauto]|tauto].
Qed.

Lemma st_get_some_has_key k st r : st_get k st = Some r -> has_key k st.
Proof.
  intros H. destruct (in_dec string_dec k (keys st)) as [i|n]; [exact i|].
  apply st_get_none_iff in n. congruence.
Qed.

Lemma st_get_in k st r : st_get k st = Some r -> In (k, r) st.
Proof.
  induction st as [|[k' v] rest IH]; simpl; [discriminate|].
  destruct (String.eqb_spec k k') as [->|Hne]; intros H.
  - inversion H; subst; auto.
  - auto.
Qed.

Lemma in_st_get_nodup k r st : NoDup (keys st) -> In (k, r) st -> st_get k st = Some r.
Proof.
  unfold keys. induction st as [|[k' v] rest IH]; simpl; intros Hnd Hin; [tauto|].
  inversion Hnd as [|? ? Hni Hnd']; subst.
  destruct Hin as [E|Hin].
  - inversion E; subst. rewrite String.eqb_refl. reflexivity.
  - destruct (String.eqb_spec k k') as [->|Hne].
    + exfalso. apply Hni. apply (in_map fst) in Hin. exact Hin.
    + auto.
Qed.

Lemma keys_replace k v st : keys (st_replace k v st) = keys st.
Proof.
  unfold keys. induction st as [|[k' v'] r IH]; simpl; [reflexivity|].
  destruct (String.eqb_spec k k') as [->|Hne]; simpl; [reflexivity|]. now rewrite IH.
Qed.

Lemma in_keys_insert x k v st : In x (keys (st_insert k v st)) <-> x = k \/ In x (keys st).
Proof.
  unfold keys. induction st as [|[k' v'] r IH]; simpl.
  - intuition.
  - destruct (String.ltb k k'); simpl; [intuition|]. rewrite IH. intuition.
Qed.

Lemma nodup_insert k v st : ~ In k (keys st) -> NoDup (keys st) -> NoDup (keys (st_insert k v st)).
Proof.
  unfold keys. induction st as [|[k' v'] r IH]; simpl; intros Hni Hnd.
  - constructor; [simpl; tauto|constructor].
  - destruct (String.ltb k k'); simpl.
    + constructor; [simpl; tauto|exact Hnd].
    + inversion Hnd as [|? ? Hni' Hnd']; subst. constructor.
      * intros Hin. apply (in_keys_insert k' k v r) in Hin. destruct Hin as [->|Hin]; tauto.
      * apply IH; tauto.
Qed.

Lemma has_key_put x k v st : has_key x (st_put k v st) <-> x = k \/ has_key x st.
Proof.
  unfold st_put, has_key. destruct (st_get k st) eqn:E.
  - rewrite keys_replace. apply st_get_some_has_key in E. unfold has_key in E.
    split; [auto|]. intros [->|H]; auto.
  - apply in_keys_insert.
Qed.

Lemma nodup_put k v st : NoDup (keys st) -> NoDup (keys (st_put k v st)).
Proof.
  unfold st_put. destruct (st_get k st) eqn:E; intros H.
  - now rewrite keys_replace.
  - apply nodup_insert; [|exact H]. now apply st_get_none_iff.
Qed.

Lemma st_get_replace_same k v st : has_key k st -> st_get k (st_replace k v st) = Some v.
Proof.
  unfold has_key, keys. induction st as [|[k' v'] r IH]; simpl; [tauto|].
  destruct (String.eqb_spec k k') as [->|Hne]; simpl.
  - now rewrite String.eqb_refl.
  - intros [E|H]; [congruence|]. destruct (String.eqb_spec k k'); [congruence|auto].
Qed.

Lemma st_get_replace_other k x v st : x <> k -> st_get x (st_replace k v st) = st_get x st.
Proof.
  intros Hne. induction st as [|[k' v'] r IH]; simpl; [reflexivity|].
  destruct (String.eqb_spec k k') as [->|Hne']; simpl.
  - destruct (String.eqb_spec x k'); [congruence|reflexivity].
  - now rewrite IH.
Qed.

Lemma st_get_insert_same k v st : st_get k st = None -> st_get k (st_insert k v st) = Some v.
Proof.
  induction st as [|[k' v'] r IH]; simpl.
  - now rewrite String.eqb_refl.
  - destruct (String.eqb_spec k k') as [->|Hne]; [discriminate|]. intros H.
    destruct (String.ltb k k'); simpl.
    + now rewrite String.eqb_refl.
    + destruct (String.eqb_spec k k'); [congruence|auto].
Qed.

Lemma st_get_insert_other k x v st : x <> k -> st_get x (st_insert k v st) = st_get x st.
Proof.
  intros Hne. induction st as [|[k' v'] r IH]; simpl.
  - destruct (String.eqb_spec x k); [congruence|reflexivity].
  - destruct (String.ltb k k'); simpl.
    + destruct (String.eqb_spec x k); [congruence|reflexivity].
    + now rewrite IH.
Qed.

Lemma st_get_put_same k v st : st_get k (st_put k v st) = Some v.
Proof.
  unfold st_put. destruct (st_get k st) eqn:E.
  - apply st_get_replace_same. eapply st_get_some_has_key; eauto.
  - now apply st_get_insert_same.
Qed.

Lemma st_get_put_other k x v st : x <> k -> st_get x (st_put k v st) = st_get x st.
Proof.
  intros H. unfold st_put. destruct (st_get k st).
  - now apply st_get_replace_other.
  - now apply st_get_insert_other.
Qed.

Lemma has_key_del x k st : has_key x (st_del k st) <-> x <> k /\ has_key x st.
Proof.
  unfold has_key, keys, st_del. induction st as [|[k' v'] r IH]; simpl; [tauto|].
  destruct (String.eqb_spec k k') as [->|Hne]; simpl.
  - rewrite IH. intuition congruence.
  - rewrite IH. intuition congruence.
Qed.

Lemma nodup_del k st : NoDup (keys st) -> NoDup (keys (st_del k st)).
Proof.
  unfold keys, st_del. induction st as [|[k' v'] r IH]; simpl; intros H; [constructor|].
  inversion H as [|? ? Hni Hnd]; subst.
  destruct (String.eqb_spec k k') as [->|Hne]; simpl; [auto|].
  constructor; [|auto]. intros Hin. apply Hni.
  apply (has_key_del k' k r) in Hin. apply Hin.
Qed.

Lemma st_get_del_other k x st : x <> k -> st_get x (st_del k st) = st_get x st.
Proof.
  intros Hne. unfold st_del. induction st as [|[k' v'] r IH]; simpl; [reflexivity|].
  destruct (String.eqb_spec k k') as [->|Hne']; simpl.
  - destruct (String.eqb_spec x k'); [congruence|auto].
  - now rewrite IH.
Qed.

Lemma mem_true_iff k l : mem k l = true <-> In k l.
Proof.
  unfold mem. rewrite existsb_exists. split.
  - intros (x & Hin & E). apply String.eqb_eq in E. now subst.
  - intros H. exists k. split; [exact H|apply String.eqb_refl].
Qed.

Lemma mem_false_iff k l : mem k l = false <-> ~ In k l.
Proof. rewrite <- mem_true_iff. destruct (mem k l); split; congruence. Qed.

(* ---------- saturating subtraction ---------- *)
Lemma sat_sub_gt now t x : min_i64 <= x -> x < sat_sub now t -> x < now - t.
Proof. unfold sat_sub, min_i64, max_i64. intros Hx. destruct (Z.ltb_spec (now - t) (-9223372036854775808)); [lia|].
  destruct (Z.ltb_spec 9223372036854775807 (now - t)); lia. Qed.

Lemma sat_sub_ge now t x : x <= max_i64 -> min_i64 < x -> x <= sat_sub now t -> x <= now - t.
Proof. unfold sat_sub, min_i64, max_i64. intros Hx Hx'. destruct (Z.ltb_spec (now - t) (-9223372036854775808)); [lia|].
  destruct (Z.ltb_spec 9223372036854775807 (now - t)); lia. Qed.

Lemma sat_sub_exact now t : min_i64 <= now - t <= max_i64 -> sat_sub now t = now - t.
Proof. unfold sat_sub, min_i64, max_i64. intros H. destruct (Z.ltb_spec (now - t) (-9223372036854775808)); [lia|].
  destruct (Z.ltb_spec 9223372036854775807 (now - t)); lia. Qed.

(* ---------- record <-> peer round trip ---------- *)
Lemma new_asset_asset_string a : new_asset (asset_string a) = Some a.
Proof. destruct a; reflexivity. Qed.

Lemma parse_assets_canonical l : parse_assets (map asset_string l) = Some l.
Proof. induction l as [|a r IH]; simpl; [reflexivity|]. rewrite new_asset_asset_string, IH. reflexivity. Qed.

Definition cap_wf (c : capability) : Prop :=
  rate_ok (c_bi c) = true /\ rate_ok (c_bo c) = true /\ rate_ok (c_li c) = true /\ rate_ok (c_lo c) = true.

Lemma to_capability_wf sn c : to_capability sn = Some c -> cap_wf c.
Proof.
  unfold to_capability, cap_wf. destruct (parse_assets (sn_assets sn)); [|discriminate].
  destruct (rate_ok (sn_bi sn)) eqn:E1; [|discriminate].
  destruct (rate_ok (sn_bo sn)) eqn:E2; [|discriminate].
  destruct (rate_ok (sn_li sn)) eqn:E3; [|discriminate].
  destruct (rate_ok (sn_lo sn)) eqn:E4; [|discriminate].
  intros H; inversion H; subst; simpl. auto.
Qed.

Lemma to_capability_snapshot_of_cap c : cap_wf c -> to_capability (snapshot_of_cap c) = Some c.
Proof.
  intros (H1 & H2 & H3 & H4). unfold to_capability, snapshot_of_cap; simpl.
  rewrite parse_assets_canonical, H1, H2, H3, H4. destruct c; reflexivity.
Qed.

(* has_capability_data only looks at the numbers and at emptiness of the asset list *)
Lemma has_data_snapshot_of_cap sn c :
  to_capability sn = Some c -> has_capability_data (snapshot_of_cap c) = has_capability_data sn.
Proof.
  unfold to_capability. destruct (parse_assets (sn_assets sn)) as [al|] eqn:Ea; [|discriminate].
  destruct (rate_ok (sn_bi sn)); [|discriminate]. destruct (rate_ok (sn_bo sn)); [|discriminate].
  destruct (rate_ok (sn_li sn)); [|discriminate]. destruct (rate_ok (sn_lo sn)); [|discriminate].
  intros H; inversion H; subst; clear H. unfold has_capability_data, snapshot_of_cap; simpl.
  destruct (sn_assets sn) as [|a r]; simpl in *.
  - inversion Ea; subst. reflexivity.
  - destruct (new_asset a); [|discriminate]. destruct (parse_assets r); [|discriminate].
    inversion Ea; subst. reflexivity.
Qed.

Definition status_ok (p : peer) : Prop := p_status p <> ""%string.

Definition peer_wf (p : peer) : Prop :=
  status_ok p /\ match p_cap p with Some c => cap_wf c | None => True end.

(* an all-zero capability is persisted as "no capability data" *)
Definition norm_peer (p : peer) : peer :=
  match p_cap p with
  | Some c => if has_capability_data (snapshot_of_cap c) then p
              else Peer (p_address p) None (p_status p) (p_last_poll p) (p_last_seen p)
  | None => p
  end.

Lemma status_nonempty_eqb s : s <> ""%string -> String.eqb s "" = false.
Proof. intros H. now apply String.eqb_neq. Qed.

Lemma save_reload p : peer_wf p -> to_peer (peer_to_record p) = Some (norm_peer p).
Proof.
  intros [Hs Hc]. unfold to_peer, peer_to_record, norm_peer; simpl.
  rewrite (status_nonempty_eqb _ Hs). destruct p as [a [c|] st lp ls]; simpl in *.
  - destruct (has_capability_data (snapshot_of_cap c)) eqn:E; [|reflexivity].
    rewrite to_capability_snapshot_of_cap by exact Hc. reflexivity.
  - reflexivity.
Qed.

Lemma to_peer_wf r p : to_peer r = Some p -> peer_wf p /\ norm_peer p = p.
Proof.
  unfold to_peer, peer_wf, status_ok, norm_peer.
  assert (Hst : (if String.eqb (r_status r) "" then ps_status_unknown else r_status r) <> ""%string).
  { destruct (String.eqb_spec (r_status r) ""); [discriminate|assumption]. }
  destruct (has_capability_data (r_snap r)) eqn:Hd.
  - destruct (to_capability (r_snap r)) as [c|] eqn:Hc; [|discriminate].
    intros H; inversion H; subst; simpl. split; [split; [exact Hst|eapply to_capability_wf; eauto]|].
    rewrite (has_data_snapshot_of_cap _ _ Hc), Hd. reflexivity.
  - intros H; inversion H; subst; simpl. auto.
Qed.

(* a loaded peer, saved again, reloads to itself: stored records reload unchanged *)
Lemma reload_fixpoint r p : to_peer r = Some p -> to_peer (peer_to_record p) = Some p.
Proof.
  intros H. destruct (to_peer_wf _ _ H) as [Hwf Hn]. rewrite save_reload by exact Hwf. now rewrite Hn.
Qed.

(* and the record written is itself stable under load + save *)
Lemma record_fixpoint r p : to_peer r = Some p ->
  forall p', to_peer (peer_to_record p) = Some p' -> peer_to_record p' = peer_to_record p.
Proof. intros H p' H'. rewrite (reload_fixpoint _ _ H) in H'. now inversion H'. Qed.

(* dropping an all-zero capability is invisible to every reader *)
Lemma norm_peer_observers p now timeout :
  is_expired now timeout (norm_peer p) = is_expired now timeout p /\
  should_poll now (norm_peer p) = should_poll now p /\
  capability_is_stale now timeout (norm_peer p) = capability_is_stale now timeout p /\
  is_compatible_with ps_local_version (norm_peer p) = is_compatible_with ps_local_version p.
Proof.
  unfold norm_peer. destruct p as [a [c|] st lp ls]; simpl; [|auto].
  destruct (has_capability_data (snapshot_of_cap c)) eqn:E; [auto|].
  repeat split. unfold is_compatible_with; simpl.
  unfold has_capability_data, snapshot_of_cap in E; simpl in E.
  destruct (Z.eqb_spec (c_version c) 0) as [->|]; [reflexivity|discriminate].
Qed.

(* ---------- compatibility ---------- *)
Lemma has_compatible_peer_iff s id :
  has_compatible_peer s id = true <->
  valid_peer_id id = true /\
  exists r p c, st_get id (s_store s) = Some r /\ to_peer r = Some p /\ p_cap p = Some c /\
                c_version c = ps_protocol_version.
Proof.
  unfold has_compatible_peer. destruct (valid_peer_id id); [|split; [discriminate|intros [H _]; discriminate]].
  destruct (st_get id (s_store s)) as [r|]; [|split; [discriminate|intros (_ & r & p & c & H & _); discriminate]].
  destruct (to_peer r) as [p|] eqn:Et; [|split; [discriminate|intros (_ & r' & p & c & H & H' & _); inversion H; subst; congruence]].
  unfold is_compatible_with. destruct (p_cap p) as [c|] eqn:Ec.
  - split.
    + intros H. split; [reflexivity|]. exists r, p, c. repeat split; auto. apply Z.eqb_eq in H. exact H.
    + intros (_ & r' & p' & c' & H1 & H2 & H3 & H4). inversion H1; subst.
      assert (p' = p) by congruence; subst.
      assert (c' = c) by congruence; subst. apply Z.eqb_eq. exact H4.
  - split; [discriminate|]. intros (_ & r' & p' & c' & H1 & H2 & H3 & _). inversion H1; subst.
    assert (p' = p) by congruence; subst. congruence.
Qed.

(* ---------- message handler ---------- *)
Definition state_after (x : state * list sent * Z) : state := fst (fst x).
Definition sends_of (x : state * list sent * Z) : list sent := snd (fst x).

(* findPeer: the stored peer, a fresh one when absent, None when the record cannot be read *)
Definition find_peer (s : state) (k : string) : option peer :=
  match st_get k (s_store s) with None => Some new_peer | Some r => to_peer r end.

Definition is_capability_message (ty : Z) : Prop := ty = ps_msgtype_poll \/ ty = ps_msgtype_request_poll.

Definition updated_peer (now : Z) (prev : peer) (polled : capability) : peer :=
  Peer (p_address prev) (Some (spec_capability (p_cap prev) polled)) ps_status_active (p_last_poll prev) (Some now).

Lemma store_capability_message_accepts now s from sn polled prev :
  to_capability sn = Some polled -> mem from (s_susp s) = false -> find_peer s from = Some prev ->
  store_capability_message now s from (Some sn) =
    st_put from (peer_to_record (updated_peer now prev polled)) (s_store s).
Proof.
  unfold store_capability_message, find_peer, updated_peer. intros -> -> Hf. rewrite Hf.
  destruct (p_cap prev); reflexivity.
Qed.

Lemma handle_message_store now s from ty payload :
  s_store (fst (handle_message now s from ty payload)) =
  if ((ty =? ps_msgtype_poll) || (ty =? ps_msgtype_request_poll)) && negb (mem from (s_susp s))
  then store_capability_message now s from payload else s_store s.
Proof.
  unfold handle_message. destruct (ty =? ps_msgtype_poll) eqn:E1; simpl.
  - destruct (mem from (s_susp s)) eqn:Em; simpl; [|reflexivity].
    unfold store_capability_message. destruct payload as [sn|]; [|reflexivity].
    destruct (to_capability sn); [|reflexivity]. now rewrite Em.
  - destruct (ty =? ps_msgtype_request_poll) eqn:E2; simpl; [|reflexivity].
    destruct (mem from (s_susp s)); reflexivity.
Qed.

Lemma capability_message_eqb ty : is_capability_message ty ->
  (ty =? ps_msgtype_poll) || (ty =? ps_msgtype_request_poll) = true.
Proof. intros [->| ->]; reflexivity. Qed.

Lemma handle_message_accepts now s from ty sn polled prev :
  is_capability_message ty -> to_capability sn = Some polled ->
  mem from (s_susp s) = false -> find_peer s from = Some prev ->
  let st' := s_store (fst (handle_message now s from ty (Some sn))) in
  st_get from st' = Some (peer_to_record (updated_peer now prev polled)) /\
  (forall k, k <> from -> st_get k st' = st_get k (s_store s)).
Proof.
  intros Hty Hc Hs Hf st'. subst st'. rewrite handle_message_store, (capability_message_eqb _ Hty), Hs.
  cbn [negb andb].
  rewrite (store_capability_message_accepts _ _ _ _ _ _ Hc Hs Hf). split.
  - apply st_get_put_same.
  - intros k Hk. now apply st_get_put_other.
Qed.

Lemma handle_message_rejects now s from ty payload :
  ~ is_capability_message ty \/ payload = None \/
  (exists sn, payload = Some sn /\ to_capability sn = None) \/
  mem from (s_susp s) = true \/ find_peer s from = None ->
  s_store (fst (handle_message now s from ty payload)) = s_store s.
Proof.
  rewrite handle_message_store. intros H.
  destruct (((ty =? ps_msgtype_poll) || (ty =? ps_msgtype_request_poll)) && negb (mem from (s_susp s))) eqn:E; [|reflexivity].
  apply andb_true_iff in E. destruct E as [E1 E2]. apply negb_true_iff in E2.
  unfold store_capability_message.
  destruct H as [H|[->|[(sn & -> & ->)|[H|H]]]]; try reflexivity.
  - exfalso. apply H. apply orb_true_iff in E1. destruct E1 as [E|E]; apply Z.eqb_eq in E; [left|right]; exact E.
  - congruence.
  - destruct payload as [sn|]; [|reflexivity]. destruct (to_capability sn); [|reflexivity].
    rewrite E2. unfold find_peer in H. destruct (st_get from (s_store s)); [|discriminate]. now rewrite H.
Qed.

(* a request poll from a non-suspicious peer is always answered with a poll *)
Lemma handle_message_answer now s from ty payload :
  snd (handle_message now s from ty payload) =
  if (ty =? ps_msgtype_request_poll) && negb (mem from (s_susp s)) then [do_send s from ps_msgtype_poll] else [].
Proof.
  unfold handle_message. destruct (ty =? ps_msgtype_poll) eqn:E1.
  - apply Z.eqb_eq in E1. subst. reflexivity.
  - destruct (ty =? ps_msgtype_request_poll); [|reflexivity]. destruct (mem from (s_susp s)); reflexivity.
Qed.

(* what the stored record says after an accepted poll, read back *)
Lemma updated_peer_reload now prev polled :
  peer_wf prev -> cap_wf polled ->
  to_peer (peer_to_record (updated_peer now prev polled)) = Some (norm_peer (updated_peer now prev polled)).
Proof.
  intros [Hs Hc] Hp. apply save_reload. split; [discriminate|]. simpl.
  unfold spec_capability. destruct (p_cap prev) as [old|]; [|exact Hp].
  destruct (c_version polled <? c_version old); assumption.
Qed.

(* ---------- history of polls: "most recent unless lower version" in closed form ---------- *)
Fixpoint fold_polls (prev : option capability) (cs : list capability) : option capability :=
  match cs with
  | [] => prev
  | c :: r => fold_polls (Some (spec_capability prev c)) r
  end.

Lemma fold_polls_some c cs : exists res, fold_polls (Some c) cs = Some res.
Proof. revert c. induction cs as [|x r IH]; intros c; simpl; eauto. Qed.

Lemma fold_polls_from_some c cs res :
  fold_polls (Some c) cs = Some res ->
  c_version c <= c_version res /\
  (forall x, In x cs -> c_version x <= c_version res) /\
  ((res = c /\ forall x, In x cs -> c_version x < c_version c) \/
   (exists pre post, cs = pre ++ res :: post /\ forall x, In x post -> c_version x < c_version res)).
Proof.
  revert c. induction cs as [|x r IH]; intros c H; simpl in H.
  - inversion H; subst. split; [lia|]. split; [intros x []|]. left. split; [reflexivity|intros x []].
  - unfold spec_capability in H. destruct (Z.ltb_spec (c_version x) (c_version c)) as [Hlt|Hge].
    + destruct (IH _ H) as (H1 & H2 & H3). split; [exact H1|]. split.
      * intros y [->|Hy]; [lia|auto].
      * destruct H3 as [[-> H3]|(pre & post & -> & H3)].
        -- left. split; [reflexivity|]. intros y [->|Hy]; auto.
        -- right. exists (x :: pre), post. split; [reflexivity|exact H3].
    + destruct (IH _ H) as (H1 & H2 & H3). split; [lia|]. split.
      * intros y [->|Hy]; [lia|auto].
      * right. destruct H3 as [[-> H3]|(pre & post & -> & H3)].
        -- exists [], r. split; [reflexivity|exact H3].
        -- exists (x :: pre), post. split; [reflexivity|exact H3].
Qed.

(* consecutive accepted polls from one peer: the stored capability is the fold *)
Fixpoint poll_ops (k : string) (l : list (Z * Z * snapshot)) : list (Z * op) :=
  match l with
  | [] => []
  | (now, ty, sn) :: r => (now, OMsg k ty (Some sn)) :: poll_ops k r
  end.

Fixpoint polled_caps (l : list (Z * Z * snapshot)) : list capability :=
  match l with
  | [] => []
  | (_, _, sn) :: r => match to_capability sn with Some c => c :: polled_caps r | None => polled_caps r end
  end.

(* valid poll: poll / request-poll type, payload that converts, version a uint64 *)
Definition all_valid_polls (l : list (Z * Z * snapshot)) : Prop :=
  Forall (fun x : Z * Z * snapshot =>
            is_capability_message (snd (fst x)) /\ (0 <= sn_version (snd x)) /\ 
            (exists c, to_capability (snd x) = Some c)) l.

Lemma to_capability_version sn c : to_capability sn = Some c -> c_version c = sn_version sn.
Proof.
  unfold to_capability. destruct (parse_assets (sn_assets sn)); [|discriminate].
  destruct (rate_ok (sn_bi sn)); [|discriminate]. destruct (rate_ok (sn_bo sn)); [|discriminate].
  destruct (rate_ok (sn_li sn)); [|discriminate]. destruct (rate_ok (sn_lo sn)); [|discriminate].
  intros H; inversion H; reflexivity.
Qed.

Lemma polled_caps_valid l : all_valid_polls l ->
  Forall (fun c => 0 <= c_version c) (polled_caps l) /\ (l <> [] -> polled_caps l <> []).
Proof.
  induction 1 as [|[[now ty] sn] r (Hty & Hv & c & Hc) Hall [IH1 IH2]]; simpl.
  - split; [constructor|congruence].
  - simpl in Hc, Hv. rewrite Hc. split; [|discriminate]. constructor; [|exact IH1].
    rewrite (to_capability_version _ _ Hc). exact Hv.
Qed.

Lemma fold_polls_drop_zero z cs :
  c_version z = 0 -> Forall (fun c => 0 <= c_version c) cs -> cs <> [] ->
  fold_polls (Some z) cs = fold_polls None cs.
Proof.
  intros Hz Hall Hne. destruct cs as [|c r]; [congruence|]. simpl. inversion Hall; subst.
  unfold spec_capability. rewrite Hz. destruct (Z.ltb_spec (c_version c) 0); [lia|reflexivity].
Qed.

Lemma handle_message_keeps_susp now s from ty payload :
  s_susp (fst (handle_message now s from ty payload)) = s_susp s.
Proof.
  unfold handle_message. destruct (ty =? ps_msgtype_poll); [reflexivity|].
  destruct (ty =? ps_msgtype_request_poll); [|reflexivity]. destruct (mem from (s_susp s)); reflexivity.
Qed.

Lemma poll_history k l : all_valid_polls l -> l <> [] ->
  forall s prev, mem k (s_susp s) = false -> find_peer s k = Some prev -> peer_wf prev ->
  exists res last, fold_polls (p_cap prev) (polled_caps l) = Some res /\
    st_get k (s_store (run s (poll_ops k l))) =
      Some (peer_to_record (Peer (p_address prev) (Some res) ps_status_active (p_last_poll prev) (Some last))) /\
    cap_wf res.
Proof.
  induction l as [|[[now ty] sn] r IH]; intros Hall Hne s prev Hs Hf Hwf; [congruence|].
  inversion Hall as [|? ? (Hty & Hv & c & Hc) Hall']; subst. simpl in Hty, Hc, Hv.
  simpl poll_ops. simpl polled_caps. rewrite Hc. simpl fold_polls. simpl run.
  destruct (handle_message now s k ty (Some sn)) as [s1 ms] eqn:Eh. simpl.
  pose proof (handle_message_accepts now s k ty sn c prev Hty Hc Hs Hf) as [Hget _].
  rewrite Eh in Hget. simpl in Hget.
  assert (Hs1 : mem k (s_susp s1) = false).
  { pose proof (handle_message_keeps_susp now s k ty (Some sn)) as E. rewrite Eh in E. simpl in E. now rewrite E. }
  assert (Hcw : cap_wf (spec_capability (p_cap prev) c)).
  { unfold spec_capability. destruct Hwf as [_ Hwc]. destruct (p_cap prev) as [old|]; [|eapply to_capability_wf; eauto].
    destruct (c_version c <? c_version old); [exact Hwc|eapply to_capability_wf; eauto]. }
  destruct r as [|y r'].
  - simpl. exists (spec_capability (p_cap prev) c), now. split; [reflexivity|]. split; [exact Hget|exact Hcw].
  - set (up := updated_peer now prev c) in *.
    assert (Hrel : to_peer (peer_to_record up) = Some (norm_peer up)).
    { apply updated_peer_reload; [exact Hwf|eapply to_capability_wf; eauto]. }
    assert (Hf1 : find_peer s1 k = Some (norm_peer up)).
    { unfold find_peer. rewrite Hget. exact Hrel. }
    assert (Hwf1 : peer_wf (norm_peer up)).
    { destruct (to_peer_wf _ _ Hrel) as [H _]. exact H. }
    destruct (IH Hall' ltac:(discriminate) s1 (norm_peer up) Hs1 Hf1 Hwf1) as (res & last & Hfold & Hst & Hres).
    destruct (polled_caps_valid _ Hall') as [Hnn Hnon].
    assert (Hnp : p_address (norm_peer up) = p_address prev /\ p_last_poll (norm_peer up) = p_last_poll prev /\
                  fold_polls (p_cap (norm_peer up)) (polled_caps (y :: r')) =
                  fold_polls (Some (spec_capability (p_cap prev) c)) (polled_caps (y :: r'))).
    { unfold norm_peer. unfold up, updated_peer. cbn [p_cap p_address p_last_poll p_status p_last_seen].
      destruct (has_capability_data (snapshot_of_cap (spec_capability (p_cap prev) c))) eqn:Ed;
        cbn [p_cap p_address p_last_poll]; [auto|].
      split; [reflexivity|]. split; [reflexivity|]. symmetry. apply fold_polls_drop_zero; [|exact Hnn|apply Hnon; discriminate].
      unfold has_capability_data, snapshot_of_cap in Ed. cbn [sn_version] in Ed.
      destruct (Z.eqb_spec (c_version (spec_capability (p_cap prev) c)) 0); [assumption|discriminate]. }
    destruct Hnp as (Ha & Hl & Hfold'). rewrite Ha, Hl in Hst. rewrite Hfold' in Hfold.
    exists res, last. split; [exact Hfold|]. split; [exact Hst|exact Hres].
Qed.

(* ---------- cleanup ---------- *)
Lemma is_expired_spec now timeout p :
  min_i64 <= timeout -> is_expired now timeout p = true ->
  exists t, p_last_seen p = Some t /\ timeout < now - t.
Proof.
  unfold is_expired. intros Ht. destruct (p_last_seen p) as [t|]; [|discriminate].
  intros H. apply Z.ltb_lt in H. exists t. split; [reflexivity|]. eapply sat_sub_gt; eauto.
Qed.

Lemma cleanup_loop_spec now timeout keep : forall st st' n,
  cleanup_loop now timeout keep st = Some (st', n) ->
  (forall k r', In (k, r') st' ->
     exists r, In (k, r) st /\
       ((mem k keep = true /\ r' = r) \/
        (mem k keep = false /\ exists p, to_peer r = Some p /\ is_expired now timeout p = false /\ r' = peer_to_record p))) /\
  (forall k r, In (k, r) st ->
     In k (keys st') \/ (mem k keep = false /\ exists p, to_peer r = Some p /\ is_expired now timeout p = true)) /\
  incl (keys st') (keys st) /\
  (NoDup (keys st) -> NoDup (keys st')).
Proof.
  induction st as [|[k0 r0] rest IH]; intros st' n H; simpl in H.
  - inversion H; subst. repeat split; try (intros ? ? []); [apply incl_refl|auto].
  - destruct (mem k0 keep) eqn:Ek.
    + destruct (cleanup_loop now timeout keep rest) as [[st1 n1]|] eqn:El; [|discriminate].
      inversion H; subst. destruct (IH _ _ eq_refl) as (I1 & I2 & I3 & I4). repeat split.
      * intros k r' [E|Hin].
        -- inversion E; subst. exists r'. split; [left; reflexivity|]. left. auto.
        -- destruct (I1 _ _ Hin) as (r & Hr & Hc). exists r. split; [right; exact Hr|exact Hc].
      * intros k r [E|Hin].
        -- inversion E; subst. left. left. reflexivity.
        -- destruct (I2 _ _ Hin) as [Hk|Hx]; [left; right; exact Hk|right; exact Hx].
      * unfold keys; simpl. intros x [->|Hx]; [left; reflexivity|right; apply I3; exact Hx].
      * unfold keys; simpl. intros Hnd. inversion Hnd as [|? ? Hni Hnd']; subst. constructor; [|auto].
        intros Hin. apply Hni. apply I3. exact Hin.
    + destruct (to_peer r0) as [p0|] eqn:Ep; [|discriminate].
      destruct (cleanup_loop now timeout keep rest) as [[st1 n1]|] eqn:El; [|discriminate].
      destruct (IH _ _ eq_refl) as (I1 & I2 & I3 & I4).
      destruct (is_expired now timeout p0) eqn:Ex; inversion H; subst; repeat split.
      * intros k r' Hin. destruct (I1 _ _ Hin) as (r & Hr & Hc). exists r. split; [right; exact Hr|exact Hc].
      * intros k r [E|Hin].
        -- inversion E; subst. right. split; [exact Ek|]. exists p0. auto.
        -- destruct (I2 _ _ Hin) as [Hk|Hx]; [left; exact Hk|right; exact Hx].
      * unfold keys; simpl. intros x Hx. right. apply I3. exact Hx.
      * unfold keys; simpl. intros Hnd. inversion Hnd; subst. auto.
      * intros k r' [E|Hin].
        -- inversion E; subst. exists r0. split; [left; reflexivity|]. right. split; [exact Ek|]. exists p0. auto.
        -- destruct (I1 _ _ Hin) as (r & Hr & Hc). exists r. split; [right; exact Hr|exact Hc].
      * intros k r [E|Hin].
        -- inversion E; subst. left. left. reflexivity.
        -- destruct (I2 _ _ Hin) as [Hk|Hx]; [left; right; exact Hk|right; exact Hx].
      * unfold keys; simpl. intros x [->|Hx]; [left; reflexivity|right; apply I3; exact Hx].
      * unfold keys; simpl. intros Hnd. inversion Hnd as [|? ? Hni Hnd']; subst. constructor; [|auto].
        intros Hin. apply Hni. apply I3. exact Hin.
Qed.

Definition expired_record (now timeout : Z) (st : store) (k : string) : Prop :=
  exists r p t, In (k, r) st /\ to_peer r = Some p /\ p_last_seen p = Some t /\ timeout < now - t.

Lemma has_key_in k st : has_key k st -> exists r, In (k, r) st.
Proof.
  unfold has_key, keys. intros H. apply in_map_iff in H. destruct H as ([k' r] & E & Hin). simpl in E. subst. eauto.
Qed.

Lemma cleanup_expired_except_removal now timeout keep st k :
  has_key k st -> ~ has_key k (fst (cleanup_expired_except now timeout keep st)) ->
  0 < timeout /\ ~ In k keep /\ expired_record now timeout st k.
Proof.
  unfold cleanup_expired_except. intros Hk Hnk. destruct (Z.leb_spec timeout 0) as [Hle|Hgt]; [simpl in Hnk; tauto|].
  destruct (cleanup_loop now timeout keep st) as [[st' n]|] eqn:El; simpl in Hnk; [|tauto].
  destruct (cleanup_loop_spec _ _ _ _ _ _ El) as (_ & I2 & _ & _).
  destruct (has_key_in _ _ Hk) as (r & Hr). destruct (I2 _ _ Hr) as [Hin|(Hm & p & Hp & Hx)]; [tauto|].
  split; [exact Hgt|]. split; [now apply mem_false_iff|].
  destruct (is_expired_spec now timeout p ltac:(unfold min_i64; lia) Hx) as (t & Ht & Hlt).
  exists r, p, t. auto.
Qed.

Lemma cleanup_expired_except_nodup now timeout keep st :
  NoDup (keys st) -> NoDup (keys (fst (cleanup_expired_except now timeout keep st))).
Proof.
  unfold cleanup_expired_except. intros H. destruct (timeout <=? 0); [exact H|].
  destruct (cleanup_loop now timeout keep st) as [[st' n]|] eqn:El; simpl; [|exact H].
  destruct (cleanup_loop_spec _ _ _ _ _ _ El) as (_ & _ & _ & I4). auto.
Qed.

(* ---------- poll loop over stored peers ---------- *)
Lemma load_all_keys st peers : load_all st = Some peers -> map fst peers = keys st.
Proof.
  revert peers. induction st as [|[k r] rest IH]; intros peers H; simpl in H.
  - inversion H; reflexivity.
  - destruct (to_peer r); [|discriminate]. destruct (load_all rest) as [l|]; [|discriminate].
    inversion H; subst. unfold keys; simpl. f_equal. now apply IH.
Qed.

Lemma load_all_in st peers k p : load_all st = Some peers -> In (k, p) peers ->
  exists r, In (k, r) st /\ to_peer r = Some p.
Proof.
  revert peers. induction st as [|[k0 r0] rest IH]; intros peers H Hin; simpl in H.
  - inversion H; subst. destruct Hin.
  - destruct (to_peer r0) as [p0|] eqn:Ep; [|discriminate]. destruct (load_all rest) as [l|]; [|discriminate].
    inversion H; subst. destruct Hin as [E|Hin].
    + inversion E; subst. exists r0. split; [left; reflexivity|exact Ep].
    + destruct (IH _ eq_refl Hin) as (r & Hr & Hp). exists r. split; [right; exact Hr|exact Hp].
Qed.

Definition polled_peer (now : Z) (p : peer) : peer :=
  Peer (p_address p) (p_cap p) (p_status p) (Some now) (p_last_seen p).

Lemma poll_known_spec now timeout force s : forall peers st st' ms,
  poll_known now timeout force s peers st = (st', ms) ->
  (forall k, st_get k st' = st_get k st \/
             exists p, In (k, p) peers /\ st_get k st' = Some (peer_to_record (polled_peer now p))) /\
  (forall k, has_key k st -> has_key k st') /\
  (forall k, has_key k st' -> has_key k st \/ In k (map fst peers)) /\
  (NoDup (keys st) -> NoDup (keys st')) /\
  (forall k ty ok, In (k, ty, ok) ms -> In k (map fst peers)).
Proof.
  induction peers as [|[k0 p0] rest IH]; intros st st' ms H; simpl in H.
  - inversion H; subst. repeat split; auto; intros ? ? ? [].
  - assert (Hskip : poll_known now timeout force s rest st = (st', ms) ->
      (forall k, st_get k st' = st_get k st \/
             exists p, In (k, p) ((k0, p0) :: rest) /\ st_get k st' = Some (peer_to_record (polled_peer now p))) /\
      (forall k, has_key k st -> has_key k st') /\
      (forall k, has_key k st' -> has_key k st \/ In k (map fst ((k0, p0) :: rest))) /\
      (NoDup (keys st) -> NoDup (keys st')) /\
      (forall k ty ok, In (k, ty, ok) ms -> In k (map fst ((k0, p0) :: rest)))).
    { intros H'. destruct (IH _ _ _ H') as (I1 & I2 & I3 & I4 & I5). repeat split; auto.
      - intros k. destruct (I1 k) as [E|(p & Hp & E)]; [left; exact E|right; exists p; split; [right; exact Hp|exact E]].
      - intros k Hk. destruct (I3 k Hk); [left; assumption|right; right; assumption].
      - intros k ty ok Hin. right. eapply I5; eauto. }
    revert H.
    destruct (negb force && negb (should_poll now p0)); [exact Hskip|].
    destruct (mem k0 (s_susp s)); [exact Hskip|].
    set (m := do_send s k0 (if capability_is_stale now timeout p0 then ps_msgtype_request_poll else ps_msgtype_poll)).
    destruct (negb (mem k0 (s_sendfail s))).
    + fold (polled_peer now p0).
      destruct (poll_known now timeout force s rest (st_put k0 (peer_to_record (polled_peer now p0)) st)) as [st1 ms1] eqn:E1.
      intros H. inversion H; subst. destruct (IH _ _ _ E1) as (I1 & I2 & I3 & I4 & I5). repeat split.
      * intros k. destruct (I1 k) as [E|(p & Hp & E)].
        -- destruct (string_dec k k0) as [->|Hne].
           ++ right. exists p0. split; [left; reflexivity|]. rewrite E. apply st_get_put_same.
           ++ left. rewrite E. now apply st_get_put_other.
        -- right. exists p. split; [right; exact Hp|exact E].
      * intros k Hk. apply I2. apply has_key_put. right. exact Hk.
      * intros k Hk. destruct (I3 k Hk) as [Hp|Hp].
        -- apply has_key_put in Hp. destruct Hp as [->|Hp]; [right; left; reflexivity|left; exact Hp].
        -- right. right. exact Hp.
      * intros Hnd. apply I4. now apply nodup_put.
      * intros k ty ok [E|Hin]; [unfold m, do_send in E; inversion E; subst; left; reflexivity|right; eapply I5; eauto].
    + destruct (poll_known now timeout force s rest st) as [st1 ms1] eqn:E1. intros H. inversion H; subst.
      destruct (IH _ _ _ E1) as (I1 & I2 & I3 & I4 & I5). repeat split; auto.
      * intros k. destruct (I1 k) as [E|(p & Hp & E)]; [left; exact E|right; exists p; split; [right; exact Hp|exact E]].
      * intros k Hk. destruct (I3 k Hk); [left; assumption|right; right; assumption].
      * intros k ty ok [E|Hin]; [unfold m, do_send in E; inversion E; subst; left; reflexivity|right; eapply I5; eauto].
Qed.

(* ---------- which operations can make a peer disappear ---------- *)
Definition removal_cause (now : Z) (s : state) (o : op) (k : string) : Prop :=
  (o = OCleanup /\ s_listfail s = false /\ ~ In k (s_conn s) /\
   expired_record now ps_cleanup_timeout (s_store s) k) \/
  (exists timeout keep, o = OCleanupDirect timeout keep /\ 0 < timeout /\ ~ In k keep /\
   expired_record now timeout (s_store s) k) \/
  o = ORemove k.

Lemma store_capability_message_keys now s from payload k :
  has_key k (s_store s) -> has_key k (store_capability_message now s from payload).
Proof.
  unfold store_capability_message. intros H. destruct payload as [sn|]; [|exact H].
  destruct (to_capability sn); [|exact H]. destruct (mem from (s_susp s)); [exact H|].
  destruct (match st_get from (s_store s) with None => Some new_peer | Some r => to_peer r end); [|exact H].
  apply has_key_put. right. exact H.
Qed.

Lemma poll_peers_store now force s :
  s_store (fst (poll_peers now force s)) = s_store s \/
  exists peers, load_all (s_store s) = Some peers /\
    s_store (fst (poll_peers now force s)) = fst (poll_known now ps_poller_timeout force s peers (s_store s)).
Proof.
  unfold poll_peers. destruct (load_all (s_store s)) as [peers|]; [|left; reflexivity].
  right. exists peers. split; [reflexivity|].
  destruct (poll_known now ps_poller_timeout force s peers (s_store s)) as [st' ms1]. simpl.
  destruct (s_listfail s); [reflexivity|].
  destruct (request_unknown ps_poller_request_interval now force s (map fst peers) (s_conn s) (prune_req (s_conn s) (s_req s))).
  reflexivity.
Qed.

Lemma step_removal now s o k :
  has_key k (s_store s) -> ~ has_key k (s_store (state_after (step now s o))) -> removal_cause now s o k.
Proof.
  intros Hk Hnk. unfold state_after in Hnk. destruct o; simpl in Hnk.
  - exfalso. apply Hnk. destruct (handle_message now s from ty payload) as [s' ms] eqn:E. simpl.
    pose proof (handle_message_store now s from ty payload) as Hs. rewrite E in Hs. simpl in Hs. rewrite Hs.
    destruct (_ && _); [now apply store_capability_message_keys|exact Hk].
  - exfalso. apply Hnk. destruct (poll_peers now force s) as [s' ms] eqn:E. simpl.
    destruct (poll_peers_store now force s) as [Hs|(peers & Hl & Hs)]; rewrite E in Hs; simpl in Hs; rewrite Hs; [exact Hk|].
    destruct (poll_known now ps_poller_timeout force s peers (s_store s)) as [st' ms1] eqn:Ep.
    destruct (poll_known_spec _ _ _ _ _ _ _ _ Ep) as (_ & I2 & _). simpl. auto.
  - unfold poller_cleanup in Hnk. destruct (s_listfail s) eqn:El; [simpl in Hnk; tauto|].
    destruct (cleanup_expired_except now ps_poller_timeout (s_conn s) (s_store s)) as [st' n] eqn:Ec. simpl in Hnk.
    pose proof (cleanup_expired_except_removal now ps_poller_timeout (s_conn s) (s_store s) k Hk) as Hr.
    rewrite Ec in Hr. simpl in Hr. destruct (Hr Hnk) as (_ & Hc & He). left. repeat split; auto.
  - destruct (cleanup_expired_except now timeout keep (s_store s)) as [st' n] eqn:Ec. simpl in Hnk.
    pose proof (cleanup_expired_except_removal now timeout keep (s_store s) k Hk) as Hr.
    rewrite Ec in Hr. simpl in Hr. destruct (Hr Hnk) as (Ht & Hc & He). right. left. exists timeout, keep. auto.
  - tauto.
  - tauto.
  - tauto.
  - tauto.
  - tauto.
  - destruct (has_compatible_peer s id); simpl in Hnk; tauto.
  - exfalso. apply Hnk. apply has_key_put. right. exact Hk.
  - right. right. destruct (string_dec p k) as [->|Hne]; [reflexivity|].
    exfalso. apply Hnk. apply has_key_del. split; [congruence|exact Hk].
Qed.

Lemma run_app s a b : run s (a ++ b) = run (run s a) b.
Proof. revert s. induction a as [|[now o] r IH]; intros s; simpl; [reflexivity|apply IH]. Qed.

Lemma run_removal : forall ops s k,
  has_key k (s_store s) -> ~ has_key k (s_store (run s ops)) ->
  exists pre now o post, ops = pre ++ (now, o) :: post /\
    has_key k (s_store (run s pre)) /\ removal_cause now (run s pre) o k.
Proof.
  induction ops as [|[now o] r IH]; intros s k Hk Hnk; simpl in Hnk; [tauto|].
  destruct (in_dec string_dec k (keys (s_store (state_after (step now s o))))) as [Hin|Hout].
  - destruct (IH _ _ Hin Hnk) as (pre & now' & o' & post & -> & H1 & H2).
    exists ((now, o) :: pre), now', o', post. split; [reflexivity|]. simpl. auto.
  - exists [], now, o, r. split; [reflexivity|]. simpl. split; [exact Hk|]. now apply step_removal.
Qed.

(* ---------- store well-formedness along every history ---------- *)
Lemma step_nodup now s o :
  NoDup (keys (s_store s)) -> NoDup (keys (s_store (state_after (step now s o)))).
Proof.
  intros H. unfold state_after. destruct o; simpl; try exact H.
  - destruct (handle_message now s from ty payload) as [s' ms] eqn:E. simpl.
    pose proof (handle_message_store now s from ty payload) as Hs. rewrite E in Hs. simpl in Hs. rewrite Hs.
    destruct (_ && _); [|exact H]. unfold store_capability_message.
    destruct payload as [sn|]; [|exact H]. destruct (to_capability sn); [|exact H].
    destruct (mem from (s_susp s)); [exact H|].
    destruct (match st_get from (s_store s) with None => Some new_peer | Some r => to_peer r end); [|exact H].
    now apply nodup_put.
  - destruct (poll_peers now force s) as [s' ms] eqn:E. simpl.
    destruct (poll_peers_store now force s) as [Hs|(peers & Hl & Hs)]; rewrite E in Hs; simpl in Hs; rewrite Hs; [exact H|].
    destruct (poll_known now ps_poller_timeout force s peers (s_store s)) as [st' ms1] eqn:Ep.
    destruct (poll_known_spec _ _ _ _ _ _ _ _ Ep) as (_ & _ & _ & I4 & _). simpl. auto.
  - unfold poller_cleanup. destruct (s_listfail s); [exact H|].
    pose proof (cleanup_expired_except_nodup now ps_poller_timeout (s_conn s) (s_store s) H) as Hn.
    destruct (cleanup_expired_except now ps_poller_timeout (s_conn s) (s_store s)). simpl in *. exact Hn.
  - pose proof (cleanup_expired_except_nodup now timeout keep (s_store s) H) as Hn.
    destruct (cleanup_expired_except now timeout keep (s_store s)). simpl in *. exact Hn.
  - now apply nodup_put.
  - now apply nodup_del.
Qed.

Lemma run_nodup ops : forall s, NoDup (keys (s_store s)) -> NoDup (keys (s_store (run s ops))).
Proof.
  induction ops as [|[now o] r IH]; intros s H; simpl; [exact H|]. apply IH. now apply step_nodup.
Qed.

Lemma reachable_nodup ops : NoDup (keys (s_store (run init_state ops))).
Proof. apply run_nodup. constructor. Qed.

(* ---------- request polls to unknown connected peers ---------- *)
Lemma req_get_filter_other k x rq :
  x <> k -> req_get x (filter (fun kv : string * Z => negb (String.eqb k (fst kv))) rq) = req_get x rq.
Proof.
  intros Hne. induction rq as [|[k' t] r IH]; simpl; [reflexivity|].
  destruct (String.eqb_spec k k') as [->|Hne']; simpl.
  - destruct (String.eqb_spec x k'); [congruence|exact IH].
  - now rewrite IH.
Qed.

Lemma req_get_set_same k t rq : req_get k (req_set k t rq) = Some t.
Proof. unfold req_set; simpl. now rewrite String.eqb_refl. Qed.

Lemma req_get_set_other k x t rq : x <> k -> req_get x (req_set k t rq) = req_get x rq.
Proof.
  intros Hne. unfold req_set; simpl. destruct (String.eqb_spec x k); [congruence|].
  now apply req_get_filter_other.
Qed.

Lemma req_get_prune k conn rq : mem k conn = true -> req_get k (prune_req conn rq) = req_get k rq.
Proof.
  intros Hm. unfold prune_req. induction rq as [|[k' t] r IH]; simpl; [reflexivity|].
  destruct (String.eqb_spec k k') as [->|Hne].
  - rewrite Hm. simpl. now rewrite String.eqb_refl.
  - destruct (mem k' conn); simpl; [|exact IH]. destruct (String.eqb_spec k k'); [congruence|exact IH].
Qed.

Definition request_allowed (interval now : Z) (k : string) (rq : list (string * Z)) : Prop :=
  match req_get k rq with Some last => interval <= sat_sub now last | None => True end.

Lemma sat_sub_self now : sat_sub now now = 0.
Proof. unfold sat_sub. rewrite Z.sub_diag. reflexivity. Qed.

Lemma allow_request_true interval now force k rq rq' :
  allow_request interval now force k rq = (true, rq') ->
  rq' = req_set k now rq /\ (force = true \/ request_allowed interval now k rq).
Proof.
  unfold allow_request, request_allowed. destruct (req_get k rq) as [last|].
  - destruct force; simpl.
    + intros H'; inversion H'; auto.
    + destruct (Z.ltb_spec (sat_sub now last) interval); intros H'; inversion H'. split; [reflexivity|right; lia].
  - intros H'; inversion H'; auto.
Qed.

Lemma allow_request_false interval now force k rq rq' :
  allow_request interval now force k rq = (false, rq') -> rq' = rq.
Proof.
  unfold allow_request. destruct (req_get k rq) as [last|].
  - destruct (negb force && (sat_sub now last <? interval)); intros H; inversion H; reflexivity.
  - intros H; inversion H.
Qed.

Lemma request_unknown_spec interval now force s known : forall conn rq rq' ms,
  request_unknown interval now force s known conn rq = (rq', ms) ->
  (forall k, req_get k rq' = req_get k rq \/
             (req_get k rq' = Some now /\ exists ok, In (k, ps_msgtype_request_poll, ok) ms)) /\
  (forall k ty ok, In (k, ty, ok) ms ->
     req_get k rq' = Some now /\ ty = ps_msgtype_request_poll /\ In k conn /\ mem k known = false /\
     mem k (s_susp s) = false /\
     (force = true \/ request_allowed interval now k rq \/ interval <= 0)).
Proof.
  induction conn as [|k0 rest IH]; intros rq rq' ms H; simpl in H.
  - inversion H; subst. split; [auto|intros ? ? ? []].
  - assert (Hskip : request_unknown interval now force s known rest rq = (rq', ms) ->
      (forall k, req_get k rq' = req_get k rq \/
             (req_get k rq' = Some now /\ exists ok, In (k, ps_msgtype_request_poll, ok) ms)) /\
      (forall k ty ok, In (k, ty, ok) ms ->
         req_get k rq' = Some now /\ ty = ps_msgtype_request_poll /\ In k (k0 :: rest) /\ mem k known = false /\
         mem k (s_susp s) = false /\
         (force = true \/ request_allowed interval now k rq \/ interval <= 0))).
    { intros H'. destruct (IH _ _ _ H') as [I1 I2]. split; [exact I1|].
      intros k ty ok Hin. destruct (I2 _ _ _ Hin) as (A & B & C & D & E & F). repeat split; auto. right; exact C. }
    revert H. destruct (mem k0 known) eqn:Ekn; [exact Hskip|]. destruct (mem k0 (s_susp s)) eqn:Esu; [exact Hskip|].
    destruct (allow_request interval now force k0 rq) as [ok0 rq1] eqn:Ea. destruct ok0.
    + destruct (allow_request_true _ _ _ _ _ _ Ea) as [-> Hal].
      destruct (request_unknown interval now force s known rest (req_set k0 now rq)) as [rq2 ms2] eqn:Er.
      intros H; inversion H; subst. destruct (IH _ _ _ Er) as [I1 I2].
      assert (Hk0 : req_get k0 rq' = Some now).
      { destruct (I1 k0) as [E|[E _]]; [rewrite E; apply req_get_set_same|exact E]. }
      split.
      * intros k. destruct (string_dec k k0) as [->|Hne].
        -- right. split; [exact Hk0|]. eexists. left. reflexivity.
        -- destruct (I1 k) as [E|[E (ok & Hin)]].
           ++ left. rewrite E. now apply req_get_set_other.
           ++ right. split; [exact E|]. exists ok. right. exact Hin.
      * intros k ty ok [E|Hin].
        -- unfold do_send in E. inversion E; subst. repeat split; auto. left; reflexivity.
           destruct Hal as [Hf|Hal]; auto.
        -- destruct (I2 _ _ _ Hin) as (A & B & C & D & E & F). repeat split; auto. right; exact C.
           destruct F as [F|[F|F]]; auto. destruct (string_dec k k0) as [->|Hne].
           ++ unfold request_allowed in F. rewrite req_get_set_same, sat_sub_self in F. auto.
           ++ unfold request_allowed in *. rewrite req_get_set_other in F by exact Hne. auto.
    + rewrite (allow_request_false _ _ _ _ _ _ Ea). exact Hskip.
Qed.

Definition unknown_request (now : Z) (s : state) (o : op) (k : string) : Prop :=
  exists force ok, o = OPoll force /\ In (k, ps_msgtype_request_poll, ok) (sends_of (step now s o)) /\
                   ~ has_key k (s_store s).

(* anatomy of one poll round *)
Lemma poll_peers_unknown now force s k ok :
  In (k, ps_msgtype_request_poll, ok) (snd (poll_peers now force s)) -> ~ has_key k (s_store s) ->
  In k (s_conn s) /\ mem k (s_susp s) = false /\
  (force = true \/ request_allowed ps_poller_request_interval now k (s_req s)) /\
  req_get k (s_req (fst (poll_peers now force s))) = Some now.
Proof.
  unfold poll_peers. destruct (load_all (s_store s)) as [peers|] eqn:El; [|intros []].
  destruct (poll_known now ps_poller_timeout force s peers (s_store s)) as [st' ms1] eqn:Ep.
  destruct (poll_known_spec _ _ _ _ _ _ _ _ Ep) as (_ & _ & _ & _ & I5).
  unfold has_key. rewrite <- (load_all_keys _ _ El). destruct (s_listfail s).
  - simpl. intros Hin Hnk. exfalso. apply Hnk. eapply I5; eauto.
  - destruct (request_unknown ps_poller_request_interval now force s (map fst peers) (s_conn s)
                (prune_req (s_conn s) (s_req s))) as [rq' ms2] eqn:Er.
    simpl. intros Hin Hnk. apply in_app_or in Hin. destruct Hin as [Hin|Hin]; [exfalso; apply Hnk; eapply I5; eauto|].
    destruct (request_unknown_spec _ _ _ _ _ _ _ _ _ Er) as [_ I2].
    destruct (I2 _ _ _ Hin) as (A & _ & C & _ & E & F). repeat split; auto.
    destruct F as [F|[F|F]]; [left; exact F| |].
    + right. unfold request_allowed in *. rewrite req_get_prune in F; [exact F|]. now apply mem_true_iff.
    + exfalso. revert F. unfold ps_poller_request_interval. lia.
Qed.

Lemma poll_peers_quiet now force s k :
  mem k (s_conn s) = true ->
  (forall ok, In (k, ps_msgtype_request_poll, ok) (snd (poll_peers now force s)) -> has_key k (s_store s)) ->
  req_get k (s_req (fst (poll_peers now force s))) = req_get k (s_req s).
Proof.
  unfold poll_peers. destruct (load_all (s_store s)) as [peers|] eqn:El; [|reflexivity].
  destruct (poll_known now ps_poller_timeout force s peers (s_store s)) as [st' ms1] eqn:Ep.
  destruct (s_listfail s); [reflexivity|].
  destruct (request_unknown ps_poller_request_interval now force s (map fst peers) (s_conn s)
              (prune_req (s_conn s) (s_req s))) as [rq' ms2] eqn:Er.
  simpl. intros Hc Hq. destruct (request_unknown_spec _ _ _ _ _ _ _ _ _ Er) as [I1 I2].
  destruct (I1 k) as [E|[_ (ok & Hin)]].
  - rewrite E. now apply req_get_prune.
  - exfalso. destruct (I2 _ _ _ Hin) as (_ & _ & _ & D & _). rewrite (load_all_keys _ _ El) in D.
    apply mem_false_iff in D. apply D. apply (Hq ok). apply in_or_app. right. exact Hin.
Qed.

Definition keeps_request_time (s : state) (o : op) (k : string) : Prop :=
  o <> OReload /\ (forall f, o = OPoll f -> mem k (s_conn s) = true).

Lemma step_quiet now s o k :
  keeps_request_time s o k -> ~ unknown_request now s o k ->
  req_get k (s_req (state_after (step now s o))) = req_get k (s_req s).
Proof.
  intros [Hnr Hc] Hq. unfold state_after. destruct o; simpl; try reflexivity.
  - destruct (handle_message now s from ty payload) as [s' ms] eqn:E. simpl.
    unfold handle_message in E. destruct (ty =? ps_msgtype_poll); [inversion E; reflexivity|].
    destruct (ty =? ps_msgtype_request_poll); [|inversion E; reflexivity].
    destruct (mem from (s_susp s)); inversion E; reflexivity.
  - destruct (poll_peers now force s) as [s' ms] eqn:E. simpl.
    pose proof (poll_peers_quiet now force s k (Hc _ eq_refl)) as Hpq. rewrite E in Hpq. simpl in Hpq. apply Hpq.
    intros ok Hin. destruct (in_dec string_dec k (keys (s_store s))) as [Hi|Hni]; [exact Hi|].
    exfalso. apply Hq. exists force, ok. split; [reflexivity|]. split; [|exact Hni].
    unfold sends_of. simpl. rewrite E. simpl. exact Hin.
  - unfold poller_cleanup. destruct (s_listfail s); [reflexivity|].
    destruct (cleanup_expired_except now ps_poller_timeout (s_conn s) (s_store s)); reflexivity.
  - destruct (cleanup_expired_except now timeout keep (s_store s)); reflexivity.
  - congruence.
Qed.

Fixpoint quiet_run (k : string) (s : state) (ops : list (Z * op)) : Prop :=
  match ops with
  | [] => True
  | (now, o) :: r =>
      keeps_request_time s o k /\ ~ unknown_request now s o k /\ quiet_run k (state_after (step now s o)) r
  end.

Lemma quiet_run_keeps k : forall ops s t,
  req_get k (s_req s) = Some t -> quiet_run k s ops -> req_get k (s_req (run s ops)) = Some t.
Proof.
  induction ops as [|[now o] r IH]; intros s t Ht Hq; simpl; [exact Ht|].
  destruct Hq as (Hk & Hn & Hr). apply IH; [|exact Hr]. unfold state_after in *. rewrite <- Ht. now apply step_quiet.
Qed.

Lemma step_poll_sends now s f : sends_of (step now s (OPoll f)) = snd (poll_peers now f s).
Proof. unfold sends_of. simpl. destruct (poll_peers now f s); reflexivity. Qed.
Lemma step_poll_state now s f : state_after (step now s (OPoll f)) = fst (poll_peers now f s).
Proof. unfold state_after. simpl. destruct (poll_peers now f s); reflexivity. Qed.

Lemma request_interval_respected s1 now1 o1 mid now2 k :
  unknown_request now1 s1 o1 k ->
  quiet_run k (state_after (step now1 s1 o1)) mid ->
  unknown_request now2 (run (state_after (step now1 s1 o1)) mid) (OPoll false) k ->
  ps_request_poll_interval <= now2 - now1.
Proof.
  intros (f1 & ok1 & -> & Hin1 & Hnk1) Hq (f2 & ok2 & Ef & Hin2 & Hnk2). inversion Ef; subst f2. clear Ef.
  rewrite step_poll_sends in Hin1, Hin2.
  set (s2 := state_after (step now1 s1 (OPoll f1))) in *.
  assert (Hreq : req_get k (s_req s2) = Some now1).
  { unfold s2. rewrite step_poll_state.
    destruct (poll_peers_unknown now1 f1 s1 k ok1 Hin1 Hnk1) as (_ & _ & _ & R). exact R. }
  pose proof (quiet_run_keeps k mid s2 now1 Hreq Hq) as Hreq3.
  set (s3 := run s2 mid) in *.
  destruct (poll_peers_unknown now2 false s3 k ok2 Hin2 Hnk2) as (_ & _ & [F|F] & _); [discriminate|].
  unfold request_allowed in F. rewrite Hreq3 in F.
  apply sat_sub_ge in F; [exact F| |]; unfold ps_poller_request_interval, max_i64, min_i64; lia.
Qed.

(* ---------- the capability of a stored peer changes only by a poll from that peer ---------- *)
Definition same_capability (r r' : record) : Prop :=
  exists p p', to_peer r = Some p /\ to_peer r' = Some p' /\ p_cap p' = p_cap p /\
               p_last_seen p' = p_last_seen p /\ p_address p' = p_address p.

Lemma reload_modified r p st lp ls :
  to_peer r = Some p -> st <> ""%string ->
  to_peer (peer_to_record (Peer (p_address p) (p_cap p) st lp ls)) = Some (Peer (p_address p) (p_cap p) st lp ls).
Proof.
  intros Hp Hst. destruct (to_peer_wf _ _ Hp) as [[_ Hc] Hn].
  rewrite save_reload by (split; [exact Hst|exact Hc]). f_equal.
  unfold norm_peer in *. simpl. destruct (p_cap p) as [c|] eqn:Ec; [|reflexivity].
  destruct (has_capability_data (snapshot_of_cap c)); [reflexivity|].
  exfalso. rewrite <- Hn in Ec. simpl in Ec. discriminate.
Qed.

Lemma to_peer_status_nonempty r p : to_peer r = Some p -> p_status p <> ""%string.
Proof. intros H. destruct (to_peer_wf _ _ H) as [[Hs _] _]. exact Hs. Qed.

Lemma st_get_del_same k st : st_get k (st_del k st) = None.
Proof. apply st_get_none_iff. intros H. apply has_key_del in H. destruct H as [H _]. congruence. Qed.

Lemma store_capability_message_shape now s from payload :
  store_capability_message now s from payload = s_store s \/
  exists rec, store_capability_message now s from payload = st_put from rec (s_store s).
Proof.
  unfold store_capability_message. destruct payload as [sn|]; [|left; reflexivity].
  destruct (to_capability sn); [|left; reflexivity]. destruct (mem from (s_susp s)); [left; reflexivity|].
  destruct (match st_get from (s_store s) with None => Some new_peer | Some r => to_peer r end); [|left; reflexivity].
  right. eexists. reflexivity.
Qed.

Lemma cleanup_frame now timeout keep st k r :
  NoDup (keys st) -> st_get k st = Some r ->
  let st' := fst (cleanup_expired_except now timeout keep st) in
  st_get k st' = Some r \/ (exists r', st_get k st' = Some r' /\ same_capability r r') \/ st_get k st' = None.
Proof.
  intros Hnd Hg. unfold cleanup_expired_except. destruct (timeout <=? 0); [left; exact Hg|].
  destruct (cleanup_loop now timeout keep st) as [[st' n]|] eqn:El; simpl; [|left; exact Hg].
  destruct (cleanup_loop_spec _ _ _ _ _ _ El) as (I1 & _ & _ & I4).
  destruct (st_get k st') as [r'|] eqn:Eg; [|right; right; reflexivity].
  destruct (I1 _ _ (st_get_in _ _ _ Eg)) as (r0 & Hin & Hc).
  assert (r0 = r). { pose proof (in_st_get_nodup _ _ _ Hnd Hin) as E. congruence. } subst r0.
  destruct Hc as [[_ ->]|(_ & p & Hp & _ & ->)]; [left; reflexivity|].
  right. left. eexists. split; [reflexivity|]. exists p, p. repeat split; auto. eapply reload_fixpoint; eauto.
Qed.

Lemma step_capability_frame now s o k r :
  NoDup (keys (s_store s)) -> st_get k (s_store s) = Some r ->
  (forall ty pl, o <> OMsg k ty pl) -> (forall r0, o <> OPutRaw k r0) ->
  let st' := s_store (state_after (step now s o)) in
  st_get k st' = Some r \/ (exists r', st_get k st' = Some r' /\ same_capability r r') \/ st_get k st' = None.
Proof.
  intros Hnd Hg Hm Hp. unfold state_after. destruct o; simpl; try (left; exact Hg).
  - destruct (handle_message now s from ty payload) as [s' ms] eqn:E. simpl.
    pose proof (handle_message_store now s from ty payload) as Hs. rewrite E in Hs. simpl in Hs. rewrite Hs.
    destruct (_ && _); [|left; exact Hg].
    destruct (store_capability_message_shape now s from payload) as [->|(rec & ->)]; [left; exact Hg|].
    left. rewrite st_get_put_other; [exact Hg|]. intros ->. eapply Hm; reflexivity.
  - destruct (poll_peers now force s) as [s' ms] eqn:E. simpl.
    destruct (poll_peers_store now force s) as [Hs|(peers & Hl & Hs)]; rewrite E in Hs; simpl in Hs; rewrite Hs; [left; exact Hg|].
    destruct (poll_known now ps_poller_timeout force s peers (s_store s)) as [st' ms1] eqn:Ep.
    destruct (poll_known_spec _ _ _ _ _ _ _ _ Ep) as (I1 & _). simpl.
    destruct (I1 k) as [Eq|(p & Hin & Eq)]; [left; congruence|].
    destruct (load_all_in _ _ _ _ Hl Hin) as (r1 & Hin1 & Hp1).
    assert (r1 = r). { pose proof (in_st_get_nodup _ _ _ Hnd Hin1) as E'. congruence. } subst r1.
    right. left. eexists. split; [exact Eq|].
    exists p, (polled_peer now p). split; [exact Hp1|]. split; [|auto].
    unfold polled_peer. apply (reload_modified r); [exact Hp1|]. eapply to_peer_status_nonempty; eauto.
  - unfold poller_cleanup. destruct (s_listfail s); [left; exact Hg|].
    pose proof (cleanup_frame now ps_poller_timeout (s_conn s) (s_store s) k r Hnd Hg) as Hc.
    destruct (cleanup_expired_except now ps_poller_timeout (s_conn s) (s_store s)). simpl in *. exact Hc.
  - pose proof (cleanup_frame now timeout keep (s_store s) k r Hnd Hg) as Hc.
    destruct (cleanup_expired_except now timeout keep (s_store s)). simpl in *. exact Hc.
  - left. rewrite st_get_put_other; [exact Hg|]. intros ->. eapply Hp; reflexivity.
  - destruct (string_dec k p) as [->|Hne].
    + right. right. apply st_get_del_same.
    + left. rewrite st_get_del_other; [exact Hg|exact Hne].
Qed.

(* a reload (restart) leaves the persisted records untouched *)
Lemma step_reload_store now s : s_store (state_after (step now s OReload)) = s_store s.
Proof. reflexivity. Qed.

(* ---------- non-vacuity ---------- *)
Definition ex_snap (v : Z) : snapshot := Snap v ["btc"%string] true 0 0 0 0.
Definition ex_k : string := "02aa"%string.

Example ex_poll_then_lower_then_higher :
  let s := run init_state
    [(1, OMsg ex_k ps_msgtype_poll (Some (ex_snap 7)));
     (2, OMsg ex_k ps_msgtype_request_poll (Some (ex_snap 6)));
     (3, OReload)] in
  option_map (fun r => sn_version (r_snap r)) (st_get ex_k (s_store s)) = Some 7 /\
  has_compatible_peer s ex_k = true /\
  option_map (fun r => sn_version (r_snap r))
     (st_get ex_k (s_store (run s [(4, OMsg ex_k ps_msgtype_poll (Some (ex_snap 8)))]))) = Some 8.
Proof. vm_compute. repeat split. Qed.

Example ex_cleanup_removes_only_disconnected :
  let s := run init_state
    [(0, OMsg "a"%string ps_msgtype_poll (Some (ex_snap 7)));
     (0, OMsg "b"%string ps_msgtype_poll (Some (ex_snap 7)));
     (1, OConnect "a"%string true);
     (ps_cleanup_timeout + 1, OCleanup)] in
  keys (s_store s) = ["a"%string].
Proof. vm_compute. reflexivity. Qed.

Example ex_request_interval :
  let s1 := run init_state [(0, OConnect ex_k true)] in
  unknown_request 5 s1 (OPoll false) ex_k /\
  let s2 := state_after (step 5 s1 (OPoll false)) in
  quiet_run ex_k s2 [(6, OPoll false)] /\
  ~ unknown_request (5 + ps_request_poll_interval - 1) (run s2 [(6, OPoll false)]) (OPoll false) ex_k /\
  unknown_request (5 + ps_request_poll_interval) (run s2 [(6, OPoll false)]) (OPoll false) ex_k.
Proof.
  split; [exists false, true; vm_compute; intuition|].
  split.
  - simpl. split; [split; [discriminate|intros f _; vm_compute; reflexivity]|]. split; [|exact I].
    intros (f & ok & E & Hin & _). vm_compute in Hin. exact Hin.
  - split.
    + intros (f & ok & E & Hin & _). vm_compute in Hin. exact Hin.
    + exists false, true. vm_compute. intuition.
Qed.

(* hypotheses of the history theorem are satisfiable (a lower-version poll in the middle) *)
Example ex_poll_history_hyps :
  let l := [(1, ps_msgtype_poll, ex_snap 7); (2, ps_msgtype_request_poll, ex_snap 6); (3, ps_msgtype_poll, ex_snap 7)] in
  all_valid_polls l /\ l <> [] /\ mem ex_k (s_susp init_state) = false /\
  find_peer init_state ex_k = Some new_peer /\ peer_wf new_peer /\
  option_map c_version (fold_polls None (polled_caps l)) = Some 7.
Proof.
  cbv zeta. split.
  - constructor; [split; [left; reflexivity|split; [simpl; lia|eexists; vm_compute; reflexivity]]|].
    constructor; [split; [right; reflexivity|split; [simpl; lia|eexists; vm_compute; reflexivity]]|].
    constructor; [split; [left; reflexivity|split; [simpl; lia|eexists; vm_compute; reflexivity]]|constructor].
  - repeat split; try discriminate; try reflexivity.
Qed.

(* hypotheses of the removal theorem are satisfiable: the sweep removes the disconnected expired peer *)
Example ex_removal_hyps :
  let s := run init_state
    [(0, OMsg "a"%string ps_msgtype_poll (Some (ex_snap 7)));
     (0, OMsg "b"%string ps_msgtype_poll (Some (ex_snap 7)));
     (1, OConnect "a"%string true)] in
  has_key "b"%string (s_store s) /\
  ~ has_key "b"%string (s_store (state_after (step (ps_cleanup_timeout + 1) s OCleanup))) /\
  has_key "a"%string (s_store (state_after (step (ps_cleanup_timeout + 1) s OCleanup))).
Proof.
  vm_compute. repeat split; auto. intros [H|[]]. discriminate.
Qed.

(* frame theorem hypotheses: a poll round rewrites the record (last poll time) with the same capability *)
Example ex_frame_hyps :
  let s := run init_state [(0, OMsg ex_k ps_msgtype_poll (Some (ex_snap 7)))] in
  NoDup (keys (s_store s)) /\
  exists r r', st_get ex_k (s_store s) = Some r /\
    st_get ex_k (s_store (state_after (step 20000000000 s (OPoll false)))) = Some r' /\ r <> r'.
Proof.
  split; [apply reachable_nodup|]. vm_compute. eexists. eexists. repeat split. discriminate.
Qed.

Example ex_compatible :
  has_compatible_peer (run init_state [(0, OMsg ex_k ps_msgtype_poll (Some (ex_snap ps_protocol_version)))]) ex_k = true /\
  has_compatible_peer (run init_state [(0, OMsg ex_k ps_msgtype_poll (Some (ex_snap (ps_protocol_version + 1))))]) ex_k = false.
Proof. vm_compute. split; reflexivity. Qed.
