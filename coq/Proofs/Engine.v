(* Generic proof rule for the state-machine engine (Model/Fsm.v): an invariant
   I on machines, a predicate P on effects and a provenance predicate E on
   (machine, event) pairs are carried through event_loop / send_event /
   recover.  Proved once, for ANY table; instantiated per property. *)
From Coq Require Import String ZArith Bool List Lia.
From RecordUpdate Require Import RecordSet.
From PS Require Import Base.Wrap Model.Data Model.Actions Model.Fsm Model.History Proofs.Monad.
Import ListNotations RecordSetNotations.
Open Scope Z_scope.

(* unfolding equations, stated before the loops are made opaque for conversion *)
Lemma event_loop_O tc decode t m ev :
  event_loop tc decode t O m ev = ret (m, mkResult false ErrFuel).
Proof. reflexivity. Qed.

Lemma event_loop_S tc decode t fuel m ev :
  event_loop tc decode t (S fuel) m ev =
    match next_state t (m_cur m) ev with
    | None => ret (m, mkResult false ErrRejected)
    | Some nxt =>
      match lookup_state t nxt with
      | None => ret (m, mkResult false ErrFsmConfig)
      | Some sd =>
        match st_action sd with
        | None => ret (m, mkResult false ErrFsmConfig)
        | Some act =>
          let m1 := m <| m_prev := m_cur m |> <| m_cur := nxt |> <| m_data := (m_data m) <| d_fsm_state := nxt |> |> in
          r <- exec tc decode action_fuel act (m_data m1) ;;
          let '(ev', d') := r in
          let m2 := m1 <| m_data := d' |> in
          if String.eqb ev' Ev_Panic then ret (m2, mkResult false ErrPanic) else
          ok <- persist m2 ;;
          if negb ok then ret (m2, mkResult false ErrStore) else
          if String.eqb ev' Ev_Done then ret (m2, mkResult true ErrNone)
          else if String.eqb ev' Ev_NoOp then ret (m2, mkResult false ErrNone)
          else if String.eqb ev' Ev_Retry then
            let m3 := m2 <| m_retries := m_retries m2 + 1 |> in
            if 20 <? m_retries m3 then ret (m3 <| m_retries := 0 |>, mkResult false ErrNone)
            else event_loop tc decode t fuel m3 ev'
          else event_loop tc decode t fuel m2 ev'
        end
      end
    end.
Proof. reflexivity. Qed.

(* keep the kernel from unfolding the fuelled loops at their concrete fuel when checking proof terms *)
Strategy opaque [event_loop exec loop_fuel action_fuel pay_loop].

Arguments event_loop : simpl never.
Arguments exec : simpl never.
Arguments send_event : simpl never.

(* every effect satisfies P relative to the record that was durable when it happened *)
Fixpoint trace_ok (P : swap_data -> effect -> Prop) (lp : swap_data) (es : list effect) : Prop :=
  match es with
  | [] => True
  | e :: r => P lp e /\ trace_ok P (lp_step lp e) r
  end.

Lemma trace_ok_app P lp es1 es2 :
  trace_ok P lp (es1 ++ es2) <-> trace_ok P lp es1 /\ trace_ok P (lp_end lp es1) es2.
Proof.
  revert lp. induction es1 as [|e r IH]; intros lp; simpl.
  - tauto.
  - rewrite IH. unfold lp_end. simpl. tauto.
Qed.

Lemma lp_end_app lp es1 es2 : lp_end lp (es1 ++ es2) = lp_end (lp_end lp es1) es2.
Proof. unfold lp_end. apply fold_left_app. Qed.

Definition not_persist (e : effect) : Prop := match e with EPersist _ _ _ => False | _ => True end.

Lemma lp_end_no_persist lp es : Forall not_persist es -> lp_end lp es = lp.
Proof.
  intros F. revert lp. induction F as [|e r He _ IH]; intros lp; [reflexivity|].
  unfold lp_end in *. simpl. rewrite IH. destruct e; simpl in *; tauto.
Qed.

Lemma trace_ok_no_persist (P : swap_data -> effect -> Prop) lp es :
  Forall (fun e => P lp e /\ not_persist e) es -> trace_ok P lp es.
Proof.
  intros F. induction F as [|e r [He Hn] _ IH]; simpl; auto. split; auto.
  destruct e; simpl in *; tauto.
Qed.

Lemma trace_ok_firstn P lp es k : trace_ok P lp es -> trace_ok P lp (firstn k es).
Proof.
  revert lp k. induction es as [|e r IH]; intros lp [|k]; simpl; auto. intros [H1 H2]. auto.
Qed.

Section Rule.
Variable tc : tl_consts.
Variable decode : string -> option (string * Z * Z).
Variable t : table.
Variable terminal : list string.

Variable I : machine -> Prop.            (* holds at every loop head and at rest *)
Variable P : swap_data -> effect -> Prop. (* holds of every effect, relative to the last durable record *)
Variable E : machine -> string -> Prop.  (* which event may be processed in which machine state *)

(* the machine right after the transition to [nxt], before the action runs *)
Definition enter (m : machine) (nxt : string) : machine :=
  m <| m_prev := m_cur m |> <| m_cur := nxt |> <| m_data := (m_data m) <| d_fsm_state := nxt |> |>.

Hypothesis I_retries : forall m r, I m -> I (m <| m_retries := r |>).
Hypothesis E_retries : forall m r ev, E m ev -> E (m <| m_retries := r |>) ev.
Hypothesis P_persist : forall m lp ok, I m -> P lp (EPersist (m_cur m) (m_data m) ok).

(* one transition: the action of the next state runs on the entered machine *)
Hypothesis act_rule :
  forall m ev nxt sd act, I m -> E m ev ->
    next_state t (m_cur m) ev = Some nxt -> lookup_state t nxt = Some sd -> st_action sd = Some act ->
    forall w ev' d' w' es,
      exec tc decode action_fuel act (m_data (enter m nxt)) w = ((ev', d'), w', es) ->
      Forall (fun e => P (m_data m) e /\ not_persist e) es /\
      I ((enter m nxt) <| m_data := d' |>) /\ E ((enter m nxt) <| m_data := d' |>) ev'.

Lemma persist_inv m w ok w' es :
  persist m w = (ok, w', es) -> es = [EPersist (m_cur m) (m_data m) ok].
Proof.
  unfold persist. intros H. apply bind_inv in H.
  destruct H as (ok0 & w1 & e1 & e2 & Hp & H & ->).
  apply pop_inv in Hp. subst e1.
  apply bind_inv in H. destruct H as (u & w2 & e3 & e4 & He & H & ->).
  apply emit_inv in He. destruct He as (-> & ->).
  apply ret_inv in H. destruct H as (-> & _ & ->). reflexivity.
Qed.

Lemma event_loop_rule fuel : forall m ev w m' res w' es,
  I m -> E m ev ->
  event_loop tc decode t fuel m ev w = ((m', res), w', es) ->
  trace_ok P (m_data m) es /\ I m'.
Proof.
  induction fuel as [|fuel IH]; intros m ev w m' res w' es HI HE H.
  - rewrite event_loop_O in H. apply ret_inv in H. destruct H as (H & _ & ->). inversion H; subst. simpl. auto.
  - rewrite event_loop_S in H.
    destruct (next_state t (m_cur m) ev) as [nxt|] eqn:Hn.
    2:{ apply ret_inv in H. destruct H as (H & _ & ->). inversion H; subst. simpl. auto. }
    destruct (lookup_state t nxt) as [sd|] eqn:Hl.
    2:{ apply ret_inv in H. destruct H as (H & _ & ->). inversion H; subst. simpl. auto. }
    destruct (st_action sd) as [act|] eqn:Ha.
    2:{ apply ret_inv in H. destruct H as (H & _ & ->). inversion H; subst. simpl. auto. }
    cbv zeta in H.
    apply bind_inv in H. destruct H as ([ev' d'] & w1 & e1 & e2 & Hex & H & ->).
    destruct (act_rule m ev nxt sd act HI HE Hn Hl Ha _ _ _ _ _ Hex) as (F1 & HI2 & HE2).
    assert (T1 : trace_ok P (m_data m) e1) by (apply trace_ok_no_persist; exact F1).
    assert (L1 : lp_end (m_data m) e1 = m_data m).
    { apply lp_end_no_persist. eapply Forall_impl; [|exact F1]. intros e [_ Hn']. exact Hn'. }
    set (m2 := (enter m nxt) <| m_data := d' |>) in *.
    destruct (String.eqb ev' Ev_Panic).
    { apply ret_inv in H. destruct H as (H & _ & ->). inversion H; subst.
      rewrite app_nil_r. auto. }
    apply bind_inv in H. destruct H as (ok & w2 & e3 & e4 & Hp & H & ->).
    apply persist_inv in Hp. subst e3.
    assert (T3 : trace_ok P (m_data m) [EPersist (m_cur m2) (m_data m2) ok]).
    { cbn [trace_ok]. split; [exact (P_persist m2 (m_data m) ok HI2)|exact Logic.I]. }
    destruct ok; cbn [negb] in H.
    2:{ apply ret_inv in H. destruct H as (H & _ & ->). inversion H; subst.
        rewrite app_nil_r. split; auto. apply trace_ok_app. rewrite L1. auto. }
    assert (Hfin : forall mm, I mm -> m_data mm = m_data m2 ->
              trace_ok P (m_data m) (e1 ++ [EPersist (m_cur m2) (m_data m2) true] ++ []) /\ I mm).
    { intros mm Hmm _. split; auto. rewrite app_nil_r. apply trace_ok_app. rewrite L1. auto. }
    assert (Hrec : forall mm evx wx mx rx wy ey, I mm -> E mm evx -> m_data mm = m_data m2 ->
              event_loop tc decode t fuel mm evx wx = ((mx, rx), wy, ey) ->
              trace_ok P (m_data m) (e1 ++ [EPersist (m_cur m2) (m_data m2) true] ++ ey) /\ I mx).
    { intros mm evx wx mx rx wy ey Hmm HEm Hd Hl'. apply IH in Hl'; auto. destruct Hl' as [T4 HIx].
      split; auto. apply trace_ok_app. rewrite L1. split; auto.
      cbn [trace_ok lp_step]. split; [exact (P_persist m2 (m_data m) true HI2)|]. rewrite <- Hd. exact T4. }
    destruct (String.eqb ev' Ev_Done).
    { apply ret_inv in H. destruct H as (H & _ & ->). inversion H; subst. apply Hfin; auto. }
    destruct (String.eqb ev' Ev_NoOp).
    { apply ret_inv in H. destruct H as (H & _ & ->). inversion H; subst. apply Hfin; auto. }
    destruct (String.eqb ev' Ev_Retry).
    + cbv zeta in H.
      match type of H with (if ?c then _ else _) _ = _ => destruct c end.
      * apply ret_inv in H. destruct H as (H & _ & ->). inversion H; subst.
        apply Hfin; [apply I_retries; apply I_retries; auto | reflexivity].
      * apply (Hrec (m2 <| m_retries := m_retries m2 + 1 |>) ev' w2 m' res w' e4); auto.
    + apply (Hrec m2 ev' w2 m' res w' e4); auto.
Qed.

(* what the caller has to know about the event context of a SendEvent *)
Definition ctx_ok (m : machine) (ev : string) (ctx : option wire_msg) : Prop :=
  match ctx with
  | None => E m ev
  | Some c =>
      E m Ev_Invalid /\
      (forall d', validate_ctx (m_data m) c = true -> apply_ctx (m_data m) c = Some d' ->
                  I (m <| m_data := d' |>) /\ E (m <| m_data := d' |>) ev)
  end.

Lemma persist_then_loop_rule mm evx lp wx m' res w' es :
  I mm -> E mm evx ->
  persist_then_loop tc decode t mm evx wx = ((m', res), w', es) ->
  trace_ok P lp es /\ I m'.
Proof.
  intros Hmm HEm Hk. unfold persist_then_loop in Hk.
  apply bind_inv in Hk. destruct Hk as (ok & w1 & e1 & e2 & Hp & Hk & ->).
  apply persist_inv in Hp. subst e1.
  destruct ok; cbn [negb] in Hk.
  - apply event_loop_rule in Hk; auto. destruct Hk as [T2 HI']. split; auto.
    cbn [app trace_ok lp_step]. split; [apply P_persist; assumption|exact T2].
  - apply ret_inv in Hk. destruct Hk as (Hk & _ & ->). inversion Hk; subst.
    cbn [app trace_ok]. split; [|assumption]. split; [apply P_persist; assumption|exact Logic.I].
Qed.

Arguments persist_then_loop : simpl never.

Lemma send_event_rule m ev ctx lp w m' res w' es :
  I m -> ctx_ok m ev ctx ->
  send_event tc decode t m ev ctx w = ((m', res), w', es) ->
  trace_ok P lp es /\ I m'.
Proof.
  intros HI HC H. unfold send_event in H.
  destruct (String.eqb ev Ev_Done).
  { apply ret_inv in H. destruct H as (H & _ & ->). inversion H; subst. simpl. auto. }
  destruct (next_state t (m_cur m) ev).
  2:{ apply ret_inv in H. destruct H as (H & _ & ->). inversion H; subst. simpl. auto. }
  destruct ctx as [c|]; cbn [ctx_ok] in HC.
  - destruct HC as [HEinv HC].
    destruct (validate_ctx (m_data m) c) eqn:Hv; cbn [negb] in H.
    + destruct (apply_ctx (m_data m) c) as [d'|] eqn:Hap.
      * destruct (HC d' eq_refl eq_refl) as [HI1 HE1].
        exact (persist_then_loop_rule _ _ lp _ _ _ _ _ HI1 HE1 H).
      * apply ret_inv in H. destruct H as (H & _ & ->). inversion H; subst. simpl. auto.
    + unfold accepted_then_loop in H. destruct (next_state t (m_cur m) Ev_Invalid).
      * exact (persist_then_loop_rule _ _ lp _ _ _ _ _ HI HEinv H).
      * apply ret_inv in H. destruct H as (H & _ & ->). inversion H; subst. simpl. auto.
  - exact (persist_then_loop_rule _ _ lp _ _ _ _ _ HI HC H).
Qed.

(* Recover(): the action of the CURRENT state runs on the machine as restored *)
Hypothesis recover_rule :
  forall m sd act, I m -> lookup_state t (m_cur m) = Some sd -> st_action sd = Some act ->
    (st_fail_on_recover sd = true -> E m Ev_Failed) /\
    (st_fail_on_recover sd = false ->
     forall w ev' d' w' es,
       exec tc decode action_fuel act (m_data m) w = ((ev', d'), w', es) ->
       Forall (fun e => P (m_data m) e /\ not_persist e) es /\
       I (m <| m_data := d' |>) /\ E (m <| m_data := d' |>) ev').

(* the restored machine's data IS the last durable record *)
Lemma recover_rule_holds m w m' res w' es :
  I m -> recover tc decode t m w = ((m', res), w', es) -> trace_ok P (m_data m) es /\ I m'.
Proof.
  intros HI H. unfold recover in H.
  destruct (lookup_state t (m_cur m)) as [sd|] eqn:Hl.
  2:{ apply ret_inv in H. destruct H as (H & _ & ->). inversion H; subst. simpl. auto. }
  destruct (st_action sd) as [act|] eqn:Ha.
  2:{ apply ret_inv in H. destruct H as (H & _ & ->). inversion H; subst. simpl. auto. }
  destruct (recover_rule m sd act HI Hl Ha) as [Rf Rn].
  destruct (st_fail_on_recover sd) eqn:Hf.
  - assert (Hc : ctx_ok m Ev_Failed None) by (simpl; auto).
    apply (send_event_rule m Ev_Failed None (m_data m)) in H; auto.
  - apply bind_inv in H. destruct H as ([ev' d'] & w1 & e1 & e2 & Hex & H & ->).
    destruct (Rn eq_refl _ _ _ _ _ Hex) as (F1 & HI1 & HE1).
    assert (T1 : trace_ok P (m_data m) e1) by (apply trace_ok_no_persist; exact F1).
    assert (L1 : lp_end (m_data m) e1 = m_data m).
    { apply lp_end_no_persist. eapply Forall_impl; [|exact F1]. intros e [_ Hn']. exact Hn'. }
    destruct (String.eqb ev' Ev_Panic).
    { apply ret_inv in H. destruct H as (H & _ & ->). inversion H; subst.
      rewrite app_nil_r. auto. }
    apply bind_inv in H. destruct H as (ok & w2 & e3 & e4 & Hp & H & ->).
    apply persist_inv in Hp. subst e3.
    destruct ok; cbn [negb] in H.
    2:{ apply ret_inv in H. destruct H as (H & _ & ->). inversion H; subst.
        rewrite app_nil_r. split; auto. apply trace_ok_app. rewrite L1. split; auto.
        cbn [trace_ok]. split; [exact (P_persist (m <| m_data := d' |>) (m_data m) false HI1)|exact Logic.I]. }
    destruct (String.eqb ev' Ev_NoOp).
    { apply ret_inv in H. destruct H as (H & _ & ->). inversion H; subst.
      rewrite app_nil_r. split; auto. apply trace_ok_app. rewrite L1. split; auto.
      cbn [trace_ok]. split; [exact (P_persist (m <| m_data := d' |>) (m_data m) true HI1)|exact Logic.I]. }
    assert (Hc : ctx_ok (m <| m_data := d' |>) ev' None) by (simpl; auto).
    apply (send_event_rule _ ev' None d') in H; auto.
    destruct H as [T4 HI']. split; auto. apply trace_ok_app. rewrite L1. split; auto.
    cbn [trace_ok lp_step]. split; [exact (P_persist (m <| m_data := d' |>) (m_data m) true HI1)|exact T4].
Qed.

(* admissible inputs of a step, as seen by the invariant *)
Definition input_ok (m : machine) (i : input) : Prop :=
  match i with
  | InEvent ev ctx => ctx_ok m ev ctx
  | InRequestIn rq => ctx_ok m "Event_SwapInReceiver_OnRequestReceived" (Some (MInReq rq))
  | InTxConfirmed hex err =>
      (err = true -> E m Ev_Failed) /\
      (forall m0, I m0 -> (err = false -> m0 = m) ->
         I (m0 <| m_data := (m_data m0) <| d_opening_hex := hex |> |>) /\
         E (m0 <| m_data := (m_data m0) <| d_opening_hex := hex |> |>) Ev_TxConfirmed)
  | InCsvPassed => E m "Event_OnCsvPassed"
  | InTimeout => E m Ev_Timeout
  | InRecover => True
  end.

(* [lp] is the last durable record when the entry point is called; RecoverSwaps
   works on exactly that record *)
Theorem step_rule m i lp w o w' es :
  I m -> input_ok m i -> (i = InRecover -> lp = m_data m) ->
  step tc decode t terminal m i w = (o, w', es) ->
  trace_ok P lp es /\ I (o_machine o).
Proof.
  intros HI HIn Hlp H. destruct i as [ev ctx|rq|hex err| | |]; unfold step in H; cbn [input_ok] in HIn.
  - apply bind_inv in H. destruct H as ([m1 res] & w1 & e1 & e2 & Hs & H & ->).
    apply ret_inv in H. destruct H as (-> & _ & ->). rewrite app_nil_r.
    apply (send_event_rule m ev ctx lp) in Hs; auto.
  - apply bind_inv in H. destruct H as ([m1 res] & w1 & e1 & e2 & Hs & H & ->).
    apply ret_inv in H. destruct H as (-> & _ & ->). rewrite app_nil_r.
    apply (send_event_rule m _ _ lp) in Hs; auto.
  - destruct HIn as [HEf Hhex].
    apply bind_inv in H. destruct H as ([m0 rem0] & w1 & e1 & e2 & H0 & H & ->).
    assert (Pre : trace_ok P lp e1 /\ I m0 /\ (err = false -> m0 = m)).
    { destruct err.
      - apply bind_inv in H0. destruct H0 as ([mx rx] & wx & ex & ey & Hs & H0 & ->).
        apply ret_inv in H0. destruct H0 as (H0 & _ & ->). inversion H0; subst.
        rewrite app_nil_r.
        assert (Hc : ctx_ok m Ev_Failed None) by (simpl; auto).
        apply (send_event_rule m Ev_Failed None lp) in Hs; auto.
        destruct Hs. repeat split; auto. discriminate.
      - apply ret_inv in H0. destruct H0 as (H0 & _ & ->). inversion H0; subst. simpl. auto. }
    destruct Pre as (F1 & HI0 & Hm0).
    destruct (Hhex m0 HI0 Hm0) as [HI1 HE1].
    apply bind_inv in H. destruct H as ([m1 res] & w2 & e3 & e4 & Hs & H & ->).
    apply ret_inv in H. destruct H as (-> & _ & ->). rewrite app_nil_r.
    match type of Hs with send_event _ _ _ ?mm _ _ _ = _ =>
      assert (Hc : ctx_ok mm Ev_TxConfirmed None) by (simpl; auto);
      apply (send_event_rule mm Ev_TxConfirmed None (lp_end lp e1)) in Hs; auto end.
    destruct Hs as [F3 HI']. simpl. split; auto. apply trace_ok_app; auto.
  - apply bind_inv in H. destruct H as ([m1 res] & w1 & e1 & e2 & Hs & H & ->).
    apply ret_inv in H. destruct H as (-> & _ & ->). rewrite app_nil_r.
    assert (Hc : ctx_ok m "Event_OnCsvPassed" None) by (simpl; auto).
    apply (send_event_rule m _ None lp) in Hs; auto.
  - apply bind_inv in H. destruct H as ([m1 res] & w1 & e1 & e2 & Hs & H & ->).
    apply ret_inv in H. destruct H as (-> & _ & ->). rewrite app_nil_r.
    assert (Hc : ctx_ok m Ev_Timeout None) by (simpl; auto).
    apply (send_event_rule m _ None lp) in Hs; auto.
  - destruct (is_finished terminal (m_cur m)).
    { apply ret_inv in H. destruct H as (-> & _ & ->). simpl. auto. }
    apply bind_inv in H. destruct H as ([m1 res] & w1 & e1 & e2 & Hs & H & ->).
    apply ret_inv in H. destruct H as (-> & _ & ->). rewrite app_nil_r.
    rewrite (Hlp eq_refl). apply recover_rule_holds in Hs; auto.
Qed.

End Rule.
