(* Generic proof rule for the state-machine engine (Model/Fsm.v): an invariant
   I on machines, a predicate P on effects and a provenance predicate E on
   (machine, event) pairs are carried through event_loop / send_event /
   recover.  Proved once, for ANY table; instantiated per property. *)
From Coq Require Import String ZArith Bool List Lia.
From RecordUpdate Require Import RecordSet.
From PS Require Import Base.Wrap Model.Data Model.Actions Model.Fsm Proofs.Monad.
Import ListNotations RecordSetNotations.
Open Scope Z_scope.

Arguments event_loop : simpl never.
Arguments exec : simpl never.
Arguments send_event : simpl never.

Section Rule.
Variable tc : tl_consts.
Variable decode : string -> option (string * Z * Z).
Variable t : table.
Variable terminal : list string.

Variable I : machine -> Prop.            (* holds at every loop head and at rest *)
Variable P : effect -> Prop.             (* holds of every effect *)
Variable E : machine -> string -> Prop.  (* which event may be processed in which machine state *)

(* the machine right after the transition to [nxt], before the action runs *)
Definition enter (m : machine) (nxt : string) : machine :=
  m <| m_prev := m_cur m |> <| m_cur := nxt |> <| m_data := (m_data m) <| d_fsm_state := nxt |> |>.

Hypothesis I_retries : forall m r, I m -> I (m <| m_retries := r |>).
Hypothesis E_retries : forall m r ev, E m ev -> E (m <| m_retries := r |>) ev.
Hypothesis P_persist : forall m, I m -> P (EPersist (m_cur m) (m_data m)).

(* one transition: the action of the next state runs on the entered machine *)
Hypothesis act_rule :
  forall m ev nxt sd act, I m -> E m ev ->
    next_state t (m_cur m) ev = Some nxt -> lookup_state t nxt = Some sd -> st_action sd = Some act ->
    forall w ev' d' w' es,
      exec tc decode action_fuel act (m_data (enter m nxt)) w = ((ev', d'), w', es) ->
      Forall P es /\ I ((enter m nxt) <| m_data := d' |>) /\ E ((enter m nxt) <| m_data := d' |>) ev'.

Lemma persist_spec m : I m -> emits P (persist m).
Proof.
  intros HI. unfold persist. apply emits_bind; [apply emits_pop|intros ok].
  apply emits_bind; [apply emits_emit; auto|intros _]. apply emits_ret.
Qed.

Lemma event_loop_S fuel m ev :
  event_loop tc decode t (S fuel) m ev =
    match next_state t (m_cur m) ev with
    | None => ret (m, mkResult false ErrRejected)
    | Some nxt =>
      match lookup_state t nxt with
      | None => ret (m, mkResult false ErrFsmConfig)
      | Some sd =>
        match st_action sd with
        | None => ret (m, mkResult false ErrFsmConfig)
        | Some act =>
          let m1 := enter m nxt in
          r <- exec tc decode action_fuel act (m_data m1) ;;
          let '(ev', d') := r in
          let m2 := m1 <| m_data := d' |> in
          if String.eqb ev' Ev_Panic then ret (m2, mkResult false ErrPanic) else
          ok <- persist m2 ;;
          if negb ok then ret (m2, mkResult false ErrStore) else
          if String.eqb ev' Ev_Done then ret (m2, mkResult true ErrNone)
          else if String.eqb ev' Ev_NoOp then ret (m2, mkResult false ErrNone)
          else if String.eqb ev' Ev_Retry then
            let m3 := m2 <| m_retries := m_retries m2 + 1 |> in
            if 20 <? m_retries m3 then ret (m3 <| m_retries := 0 |>, mkResult false ErrNone)
            else event_loop tc decode t fuel m3 ev'
          else event_loop tc decode t fuel m2 ev'
        end
      end
    end.
Proof. reflexivity. Qed.

Lemma event_loop_rule fuel : forall m ev w m' res w' es,
  I m -> E m ev ->
  event_loop tc decode t fuel m ev w = ((m', res), w', es) ->
  Forall P es /\ I m'.
Proof.
  induction fuel as [|fuel IH]; intros m ev w m' res w' es HI HE H.
  - unfold event_loop in H. apply ret_inv in H. destruct H as (H & _ & ->). inversion H; subst. auto.
  - rewrite event_loop_S in H.
    destruct (next_state t (m_cur m) ev) as [nxt|] eqn:Hn.
    2:{ apply ret_inv in H. destruct H as (H & _ & ->). inversion H; subst. auto. }
    destruct (lookup_state t nxt) as [sd|] eqn:Hl.
    2:{ apply ret_inv in H. destruct H as (H & _ & ->). inversion H; subst. auto. }
    destruct (st_action sd) as [act|] eqn:Ha.
    2:{ apply ret_inv in H. destruct H as (H & _ & ->). inversion H; subst. auto. }
    cbv zeta in H.
    apply bind_inv in H. destruct H as ([ev' d'] & w1 & e1 & e2 & Hex & H & ->).
    destruct (act_rule m ev nxt sd act HI HE Hn Hl Ha _ _ _ _ _ Hex) as (F1 & HI2 & HE2).
    set (m2 := (enter m nxt) <| m_data := d' |>) in *.
    destruct (String.eqb ev' Ev_Panic).
    { apply ret_inv in H. destruct H as (H & _ & ->). inversion H; subst.
      rewrite app_nil_r. auto. }
    apply bind_inv in H. destruct H as (ok & w2 & e3 & e4 & Hp & H & ->).
    assert (F3 : Forall P e3) by (eapply persist_spec; eauto).
    destruct (negb ok).
    { apply ret_inv in H. destruct H as (H & _ & ->). inversion H; subst.
      rewrite app_nil_r. split; auto. apply Forall_app; auto. }
    destruct (String.eqb ev' Ev_Done).
    { apply ret_inv in H. destruct H as (H & _ & ->). inversion H; subst.
      rewrite app_nil_r. split; auto. apply Forall_app; auto. }
    destruct (String.eqb ev' Ev_NoOp).
    { apply ret_inv in H. destruct H as (H & _ & ->). inversion H; subst.
      rewrite app_nil_r. split; auto. apply Forall_app; auto. }
    destruct (String.eqb ev' Ev_Retry).
    + destruct (20 <? m_retries (m2 <| m_retries := m_retries m2 + 1 |>)).
      * apply ret_inv in H. destruct H as (H & _ & ->). inversion H; subst.
        rewrite app_nil_r. split; [apply Forall_app; auto|]. apply I_retries. apply I_retries. auto.
      * apply IH in H; [|apply I_retries; auto|apply E_retries; auto].
        destruct H as [F4 HI']. split; auto. apply Forall_app. split; auto. apply Forall_app; auto.
    + apply IH in H; auto.
      destruct H as [F4 HI']. split; auto. apply Forall_app. split; auto. apply Forall_app; auto.
Qed.

(* what the caller has to know about the event context of a SendEvent *)
Definition ctx_ok (m : machine) (ev : string) (ctx : option wire_msg) : Prop :=
  match ctx with
  | None => E m ev
  | Some c =>
      E m Ev_Invalid /\
      (forall d', validate_ctx (m_data m) c = true -> apply_ctx (m_data m) c = Some d' ->
                  I (m <| m_data := d' |>) /\ E (m <| m_data := d' |>) ev)
  end.

Lemma send_event_rule m ev ctx w m' res w' es :
  I m -> ctx_ok m ev ctx ->
  send_event tc decode t m ev ctx w = ((m', res), w', es) ->
  Forall P es /\ I m'.
Proof.
  intros HI HC H. unfold send_event in H.
  destruct (String.eqb ev Ev_Done).
  { apply ret_inv in H. destruct H as (H & _ & ->). inversion H; subst. auto. }
  destruct ctx as [c|]; simpl in HC.
  - destruct HC as [HEinv HC].
    destruct (validate_ctx (m_data m) c) eqn:Hv; cbn [negb] in H.
    + destruct (apply_ctx (m_data m) c) as [d'|] eqn:Hap.
      * destruct (HC d' eq_refl eq_refl) as [HI1 HE1].
        apply bind_inv in H. destruct H as (ok & w1 & e1 & e2 & Hp & H & ->).
        assert (F1 : Forall P e1) by (eapply persist_spec; eauto).
        destruct (negb ok).
        { apply ret_inv in H. destruct H as (H & _ & ->). inversion H; subst.
          rewrite app_nil_r. auto. }
        apply event_loop_rule in H; auto. destruct H as [F2 HI']. split; auto.
        apply Forall_app; auto.
      * apply ret_inv in H. destruct H as (H & _ & ->). inversion H; subst. auto.
    + apply bind_inv in H. destruct H as (ok & w1 & e1 & e2 & Hp & H & ->).
      assert (F1 : Forall P e1) by (eapply persist_spec; eauto).
      destruct (negb ok).
      { apply ret_inv in H. destruct H as (H & _ & ->). inversion H; subst.
        rewrite app_nil_r. auto. }
      apply event_loop_rule in H; auto. destruct H as [F2 HI']. split; auto.
      apply Forall_app; auto.
  - apply bind_inv in H. destruct H as (ok & w1 & e1 & e2 & Hp & H & ->).
    assert (F1 : Forall P e1) by (eapply persist_spec; eauto).
    destruct (negb ok).
    { apply ret_inv in H. destruct H as (H & _ & ->). inversion H; subst.
      rewrite app_nil_r. auto. }
    apply event_loop_rule in H; auto. destruct H as [F2 HI']. split; auto.
    apply Forall_app; auto.
Qed.

(* Recover(): the action of the CURRENT state runs on the machine as restored *)
Hypothesis recover_rule :
  forall m sd act, I m -> lookup_state t (m_cur m) = Some sd -> st_action sd = Some act ->
    (st_fail_on_recover sd = true -> E m Ev_Failed) /\
    (st_fail_on_recover sd = false ->
     forall w ev' d' w' es,
       exec tc decode action_fuel act (m_data m) w = ((ev', d'), w', es) ->
       Forall P es /\ I (m <| m_data := d' |>) /\ E (m <| m_data := d' |>) ev').

Lemma recover_rule_holds m w m' res w' es :
  I m -> recover tc decode t m w = ((m', res), w', es) -> Forall P es /\ I m'.
Proof.
  intros HI H. unfold recover in H.
  destruct (lookup_state t (m_cur m)) as [sd|] eqn:Hl.
  2:{ apply ret_inv in H. destruct H as (H & _ & ->). inversion H; subst. auto. }
  destruct (st_action sd) as [act|] eqn:Ha.
  2:{ apply ret_inv in H. destruct H as (H & _ & ->). inversion H; subst. auto. }
  destruct (recover_rule m sd act HI Hl Ha) as [Rf Rn].
  destruct (st_fail_on_recover sd) eqn:Hf.
  - assert (Hc : ctx_ok m Ev_Failed None) by (simpl; auto).
    apply (send_event_rule m Ev_Failed None) in H; auto.
  - apply bind_inv in H. destruct H as ([ev' d'] & w1 & e1 & e2 & Hex & H & ->).
    destruct (Rn eq_refl _ _ _ _ _ Hex) as (F1 & HI1 & HE1).
    destruct (String.eqb ev' Ev_Panic).
    { apply ret_inv in H. destruct H as (H & _ & ->). inversion H; subst.
      rewrite app_nil_r. auto. }
    apply bind_inv in H. destruct H as (ok & w2 & e3 & e4 & Hp & H & ->).
    assert (F3 : Forall P e3) by (eapply persist_spec; eauto).
    destruct (negb ok).
    { apply ret_inv in H. destruct H as (H & _ & ->). inversion H; subst.
      rewrite app_nil_r. split; auto. apply Forall_app; auto. }
    destruct (String.eqb ev' Ev_NoOp).
    { apply ret_inv in H. destruct H as (H & _ & ->). inversion H; subst.
      rewrite app_nil_r. split; auto. apply Forall_app; auto. }
    assert (Hc : ctx_ok (m <| m_data := d' |>) ev' None) by (simpl; auto).
    apply (send_event_rule _ ev' None) in H; auto.
    destruct H as [F4 HI']. split; auto. apply Forall_app. split; auto. apply Forall_app; auto.
Qed.

(* admissible inputs of a step, as seen by the invariant *)
Definition input_ok (m : machine) (i : input) : Prop :=
  match i with
  | InEvent ev ctx => ctx_ok m ev ctx
  | InRequestIn rq => ctx_ok m "Event_SwapInReceiver_OnRequestReceived" (Some (MInReq rq))
  | InTxConfirmed hex err =>
      (err = true -> E m Ev_Failed) /\
      (forall m0, I m0 -> (err = false -> m0 = m) ->
         I (m0 <| m_data := (m_data m0) <| d_opening_hex := hex |> |>) /\
         E (m0 <| m_data := (m_data m0) <| d_opening_hex := hex |> |>) Ev_TxConfirmed)
  | InCsvPassed => E m "Event_OnCsvPassed"
  | InTimeout => E m Ev_Timeout
  | InRecover => True
  end.

Theorem step_rule m i w o w' es :
  I m -> input_ok m i ->
  step tc decode t terminal m i w = (o, w', es) ->
  Forall P es /\ I (o_machine o).
Proof.
  intros HI HIn H. destruct i as [ev ctx|rq|hex err| | |]; unfold step in H; cbn [input_ok] in HIn.
  - apply bind_inv in H. destruct H as ([m1 res] & w1 & e1 & e2 & Hs & H & ->).
    apply ret_inv in H. destruct H as (-> & _ & ->). rewrite app_nil_r.
    apply (send_event_rule m ev ctx) in Hs; auto.
  - apply bind_inv in H. destruct H as ([m1 res] & w1 & e1 & e2 & Hs & H & ->).
    apply ret_inv in H. destruct H as (-> & _ & ->). rewrite app_nil_r.
    apply (send_event_rule m _ _) in Hs; auto.
  - destruct HIn as [HEf Hhex].
    apply bind_inv in H. destruct H as ([m0 rem0] & w1 & e1 & e2 & H0 & H & ->).
    assert (Pre : Forall P e1 /\ I m0 /\ (err = false -> m0 = m)).
    { destruct err.
      - apply bind_inv in H0. destruct H0 as ([mx rx] & wx & ex & ey & Hs & H0 & ->).
        apply ret_inv in H0. destruct H0 as (H0 & _ & ->). inversion H0; subst.
        rewrite app_nil_r.
        assert (Hc : ctx_ok m Ev_Failed None) by (simpl; auto).
        apply (send_event_rule m Ev_Failed None) in Hs; auto.
        destruct Hs. repeat split; auto. discriminate.
      - apply ret_inv in H0. destruct H0 as (H0 & _ & ->). inversion H0; subst. auto. }
    destruct Pre as (F1 & HI0 & Hm0).
    destruct (Hhex m0 HI0 Hm0) as [HI1 HE1].
    apply bind_inv in H. destruct H as ([m1 res] & w2 & e3 & e4 & Hs & H & ->).
    apply ret_inv in H. destruct H as (-> & _ & ->). rewrite app_nil_r.
    match type of Hs with send_event _ _ _ ?mm _ _ _ = _ =>
      assert (Hc : ctx_ok mm Ev_TxConfirmed None) by (simpl; auto);
      apply (send_event_rule mm Ev_TxConfirmed None) in Hs; auto end.
    destruct Hs as [F3 HI']. simpl. split; auto. apply Forall_app; auto.
  - apply bind_inv in H. destruct H as ([m1 res] & w1 & e1 & e2 & Hs & H & ->).
    apply ret_inv in H. destruct H as (-> & _ & ->). rewrite app_nil_r.
    assert (Hc : ctx_ok m "Event_OnCsvPassed" None) by (simpl; auto).
    apply (send_event_rule m _ None) in Hs; auto.
  - apply bind_inv in H. destruct H as ([m1 res] & w1 & e1 & e2 & Hs & H & ->).
    apply ret_inv in H. destruct H as (-> & _ & ->). rewrite app_nil_r.
    assert (Hc : ctx_ok m Ev_Timeout None) by (simpl; auto).
    apply (send_event_rule m _ None) in Hs; auto.
  - destruct (is_finished terminal (m_cur m)).
    { apply ret_inv in H. destruct H as (-> & _ & ->). simpl. auto. }
    apply bind_inv in H. destruct H as ([m1 res] & w1 & e1 & e2 & Hs & H & ->).
    apply ret_inv in H. destruct H as (-> & _ & ->). rewrite app_nil_r.
    apply recover_rule_holds in Hs; auto.
Qed.

End Rule.
