(* C06, adapter side: the model of sendPaymentV2 reports "paid" only after SUCCEEDED and "failed" only after FAILED,
   each preceded by non-final updates only - for every stream of updates. *)
From Coq Require Import String Bool List Arith Lia.
From PS Require Import Base.Corr Model.C06PayStream.
Import ListNotations.

Definition nonfinal (u : pay_update) : Prop := u = PUnknown \/ u = PInFlight.

Lemma pay_stream_paid : forall us n k, pay_stream us n = (OPaid, k) ->
  exists pre post, us = pre ++ PSucceeded :: post /\ Forall nonfinal pre /\ k = n + length pre + 1.
Proof.
  induction us as [|u us IH]; intros n k H; cbn [pay_stream] in H.
  - discriminate H.
  - destruct u; try discriminate H.
    + apply IH in H. destruct H as (pre & post & -> & Hf & ->).
      exists (PUnknown :: pre), post. split; [reflexivity|]. split; [constructor; [left; reflexivity|exact Hf]|cbn [length]; lia].
    + apply IH in H. destruct H as (pre & post & -> & Hf & ->).
      exists (PInFlight :: pre), post. split; [reflexivity|]. split; [constructor; [right; reflexivity|exact Hf]|cbn [length]; lia].
    + inversion H; subst. exists [], us. split; [reflexivity|]. split; [constructor|cbn [length]; lia].
Qed.

Lemma pay_stream_failed : forall us n k, pay_stream us n = (OFailedByLnd, k) ->
  exists pre post, us = pre ++ PFailed :: post /\ Forall nonfinal pre /\ k = n + length pre + 1.
Proof.
  induction us as [|u us IH]; intros n k H; cbn [pay_stream] in H.
  - discriminate H.
  - destruct u; try discriminate H.
    + apply IH in H. destruct H as (pre & post & -> & Hf & ->).
      exists (PUnknown :: pre), post. split; [reflexivity|]. split; [constructor; [left; reflexivity|exact Hf]|cbn [length]; lia].
    + apply IH in H. destruct H as (pre & post & -> & Hf & ->).
      exists (PInFlight :: pre), post. split; [reflexivity|]. split; [constructor; [right; reflexivity|exact Hf]|cbn [length]; lia].
    + inversion H; subst. exists [], us. split; [reflexivity|]. split; [constructor|cbn [length]; lia].
Qed.

(* while lnd reports the payment unknown / in flight the adapter never concludes that it failed or succeeded *)
Lemma pay_stream_in_flight_no_verdict : forall us n, Forall nonfinal us -> pay_stream us n = (OConnectionLost, n + length us).
Proof.
  induction us as [|u us IH]; intros n Hf; cbn [pay_stream length].
  - f_equal. lia.
  - inversion Hf as [|u' us' Hu Hr]; subst. destruct Hu as [-> | ->]; rewrite (IH (S n) Hr); f_equal; lia.
Qed.

Example pay_stream_nonvacuous :
  pay_stream [PInFlight; PInFlight; PSucceeded] 0 = (OPaid, 3) /\ pay_stream [PUnknown; PFailed; PSucceeded] 0 = (OFailedByLnd, 2).
Proof. split; reflexivity. Qed.
