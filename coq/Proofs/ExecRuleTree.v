(* Tree-aware variant of Proofs/ExecRule.v: the relation Q also sees the action
   tree that is executed, so that facts of the form "this effect can only come
   from a tree that contains leaf L" can be proved for ANY action tree. *)
From Coq Require Import String ZArith Bool List Lia.
From RecordUpdate Require Import RecordSet.
From PS Require Import Base.Wrap Model.Data Model.Actions Proofs.Monad Proofs.ExecRule.
Import ListNotations RecordSetNotations.
Open Scope Z_scope.

Strategy opaque [exec pay_loop].

Definition is_wrapper (name : string) : bool :=
  (String.eqb name "CheckRequestWrapperAction" || String.eqb name "SetBlindingKeyActionWrapper" ||
   String.eqb name "StopSendMessageWithRetryWrapperAction" || String.eqb name "CheckPremiumAmount" ||
   String.eqb name "AddSuspiciousPeerAction")%bool.

Section ExecRuleTree.
Variable tc : tl_consts.
Variable dec : string -> option (string * Z * Z).

Variable Q : action_tree -> swap_data -> string * swap_data -> list effect -> Prop.

Hypothesis Q_leaf : forall name ch f, is_wrapper name = false -> In (name, f) (leaf_actions tc dec) ->
  forall d w r w' es, f d w = (r, w', es) -> Q (ANode name ch) d r es.
Hypothesis Q_unknown : forall a d, Q a d (Ev_Unknown, d) [].
(* a wrapper without a child (the model answers Unknown after the wrapper's own work) *)
Hypothesis Q_unknown_blind : forall a d k, Q a d (Ev_Unknown, d <| d_blinding_hex := k |>) [].
Hypothesis Q_unknown_stop : forall a d, Q a d (Ev_Unknown, d) [ERetransStop].
Hypothesis Q_unknown_susp : forall a d, Q a d (Ev_Unknown, d) [ESuspicious (d_peer d)].
Hypothesis Q_reject_logged : forall a d, Q a d (Ev_Failed, d) [ERequestedSwapLog].
Hypothesis Q_fail : forall a d, Q a d (Ev_Failed, d) [].
Hypothesis Q_panic : forall a d, Q a d (Ev_Panic, d) [].
(* a wrapper around the first child *)
Hypothesis Q_request : forall name c ch d r es,
  String.eqb name "CheckRequestWrapperAction" = true -> Q c d r es -> Q (ANode name (c :: ch)) d r es.
Hypothesis Q_blinding : forall name c ch d k r es,
  String.eqb name "SetBlindingKeyActionWrapper" = true ->
  Q c (d <| d_blinding_hex := k |>) r es -> Q (ANode name (c :: ch)) d r es.
Hypothesis Q_noblinding : forall name c ch d r es,
  String.eqb name "SetBlindingKeyActionWrapper" = true -> Q c d r es -> Q (ANode name (c :: ch)) d r es.
Hypothesis Q_stop : forall name c ch d r es,
  String.eqb name "StopSendMessageWithRetryWrapperAction" = true -> Q c d r es -> Q (ANode name (c :: ch)) d r (ERetransStop :: es).
Hypothesis Q_premium_ok : forall name c ch d r es,
  String.eqb name "CheckPremiumAmount" = true -> check_premium d = Some true -> Q c d r es -> Q (ANode name (c :: ch)) d r es.
Hypothesis Q_suspicious : forall name c ch d r es,
  String.eqb name "AddSuspiciousPeerAction" = true -> Q c d r es -> Q (ANode name (c :: ch)) d r (ESuspicious (d_peer d) :: es).

Theorem exec_rule_tree fuel : forall a d w r w' es,
  exec tc dec fuel a d w = (r, w', es) -> Q a d r es.
Proof.
  induction fuel as [|fuel IH]; intros [name ch] d w r w' es H.
  - rewrite exec_O in H. apply ret_inv in H. destruct H as (-> & _ & ->). apply Q_unknown.
  - rewrite exec_S in H. cbv zeta in H.
    assert (Next : forall (W : swap_data -> string * swap_data -> list effect -> Prop) d' w1 r1 w2 e1,
              (forall c rest, ch = c :: rest -> Q c d' r1 e1 -> W d' r1 e1) ->
              (W d' (Ev_Unknown, d') []) ->
              (match first_child ch with Some c => exec tc dec fuel c d' | None => ret (Ev_Unknown, d') end) w1
              = (r1, w2, e1) -> W d' r1 e1).
    { intros W d' w1 r1 w2 e1 Hw Hu Hn. destruct ch as [|c rest]; cbn [first_child] in Hn.
      - apply ret_inv in Hn. destruct Hn as (-> & _ & ->). exact Hu.
      - eapply Hw; [reflexivity|]. eapply IH; eauto. }
    destruct (String.eqb name "CheckRequestWrapperAction") eqn:E1.
    { apply bind_inv in H. destruct H as (cr & w1 & e1 & e2 & Hc & H & ->).
      apply check_request_no_effects in Hc. subst e1. simpl.
      destruct cr as [[|]|].
      - eapply (Next (fun d' r1 e1 => Q (ANode name ch) d' r1 e1)); [| |exact H].
        + intros c rest -> Hq. apply Q_request; auto.
        + apply Q_unknown.
      - unfold log_rejected in H. apply bind_inv in H. destruct H as (u & w2 & e3 & e4 & He & H & ->).
        apply emit_inv in He. destruct He as (-> & ->).
        apply ret_inv in H. destruct H as (-> & _ & ->). apply Q_reject_logged.
      - apply ret_inv in H. destruct H as (-> & _ & ->). apply Q_fail. }
    destruct (String.eqb name "SetBlindingKeyActionWrapper") eqn:E2.
    { destruct (String.eqb (get_chain d) lbtc_chain) eqn:El.
      - apply bind_inv in H. destruct H as (k & w1 & e1 & e2 & Hp & H & ->).
        apply pop_inv in Hp. subst e1. simpl.
        destruct ch as [|c rest]; cbn [first_child] in H.
        + apply ret_inv in H. destruct H as (-> & _ & ->).
          (* no child: the model returns Unknown on the re-keyed data *)
          apply Q_unknown_blind.
        + eapply Q_blinding; eauto.
      - eapply (Next (fun d' r1 e1 => Q (ANode name ch) d' r1 e1)); [| |exact H].
        + intros c rest -> Hq. apply Q_noblinding; auto.
        + apply Q_unknown. }
    destruct (String.eqb name "StopSendMessageWithRetryWrapperAction") eqn:E3.
    { apply bind_inv in H. destruct H as (u & w1 & e1 & e2 & He & H & ->).
      apply emit_inv in He. destruct He as (-> & ->). simpl.
      eapply (Next (fun d' r1 e1 => Q (ANode name ch) d' r1 (ERetransStop :: e1))); [| |exact H].
      + intros c rest -> Hq. apply Q_stop; auto.
      + apply Q_unknown_stop. }
    destruct (String.eqb name "CheckPremiumAmount") eqn:E4.
    { destruct (check_premium d) as [[|]|] eqn:Ep.
      - eapply (Next (fun d' r1 e1 => Q (ANode name ch) d' r1 e1)); [| |exact H].
        + intros c rest -> Hq. apply Q_premium_ok; auto.
        + apply Q_unknown.
      - apply ret_inv in H. destruct H as (-> & _ & ->). apply Q_fail.
      - apply ret_inv in H. destruct H as (-> & _ & ->). apply Q_panic. }
    destruct (String.eqb name "AddSuspiciousPeerAction") eqn:E5.
    { apply bind_inv in H. destruct H as (ok & w1 & e1 & e2 & Hp & H & ->).
      apply pop_inv in Hp. subst e1.
      apply bind_inv in H. destruct H as (u & w2 & e3 & e4 & He & H & ->).
      apply emit_inv in He. destruct He as (-> & ->). simpl.
      eapply (Next (fun d' r1 e1 => Q (ANode name ch) d' r1 (ESuspicious (d_peer d') :: e1))); [| |exact H].
      + intros c rest -> Hq. apply Q_suspicious; auto.
      + apply Q_unknown_susp. }
    destruct (assoc_str name (leaf_actions tc dec)) as [f|] eqn:Ef.
    + apply assoc_str_in in Ef. eapply Q_leaf; eauto.
      unfold is_wrapper. rewrite E1, E2, E3, E4, E5. reflexivity.
    + apply ret_inv in H. destruct H as (-> & _ & ->). apply Q_unknown.
Qed.

End ExecRuleTree.
