(* C04: claim payments of Liquid swaps happen only inside the anchored window. *)
From Coq Require Import String ZArith Bool List Lia.
From RecordUpdate Require Import RecordSet.
From PS Require Import Base.Wrap Model.Data Model.Actions Model.Fsm Model.History Model.FsmCorr Model.C04Corr
  Gen.ConstsSwap Gen.Tables
  Proofs.Monad Proofs.ExecRule Proofs.MTac Proofs.Engine Proofs.HistRule.
Import ListNotations RecordSetNotations.
Open Scope Z_scope.

Strategy opaque [event_loop exec loop_fuel action_fuel pay_loop].

(* ---- the generated constants are the numbers of the property text ---- *)
Lemma c04_constants :
  policy_lbtc_v7 = Some (mkPolicy 10080 60 29 32 true) /\
  policy_lbtc_v6 = Some (mkPolicy 60 30 29 0 false) /\
  policy_btc_v6 = policy_btc_v7 /\
  protocol_version = 7 /\ legacy_protocol_version = 6 /\
  other_versions_rejected = true /\ unknown_chain_rejected = true.
Proof. repeat split; reflexivity. Qed.

Definition G (tc : tl_consts) (lp : swap_data) (e : effect) : Prop := c04_guard tc lp e = true.

Lemma guard_fsm_state tc d s e : c04_guard tc (d <| d_fsm_state := s |>) e = c04_guard tc d e.
Proof. destruct d; reflexivity. Qed.

Lemma guard_blinding tc d k e : c04_guard tc (d <| d_blinding_hex := k |>) e = c04_guard tc d e.
Proof. destruct d; reflexivity. Qed.

Lemma guard_non_pay tc d e : (forall p s m t r, e <> EPayClaim p s m t r) -> c04_guard tc d e = true.
Proof. intros H. destruct e; try reflexivity. exfalso. eapply H; eauto. Qed.

(* the retry loop: every attempt is inside the window *)
Lemma window_from_check d now pol :
  String.eqb (get_chain d) lbtc_chain && negb (check_payment_window d now pol) = false ->
  (if String.eqb (get_chain d) lbtc_chain then check_payment_window d now pol else true) = true.
Proof.
  intros H. destruct (String.eqb (get_chain d) lbtc_chain); [|reflexivity].
  destruct (check_payment_window d now pol); [reflexivity|]. cbn in H. discriminate.
Qed.

Lemma pay_attempt_guard tc d pol payreq now res :
  timelock_policy tc d = Some pol -> p_allow_new pol = true ->
  String.eqb (get_chain d) lbtc_chain && negb (check_payment_window d now pol) = false ->
  G tc d (EPayClaim payreq (get_scid d) (p_max_total pol) now res) /\
  not_persist (EPayClaim payreq (get_scid d) (p_max_total pol) now res).
Proof.
  intros Hp Ha Hw. split; [|exact Logic.I].
  unfold G, c04_guard. rewrite Hp, Ha, Z.eqb_refl. cbn [andb].
  apply window_from_check. exact Hw.
Qed.

Lemma pay_loop_guard tc n : forall pol payreq d w r w' es,
  timelock_policy tc d = Some pol -> p_allow_new pol = true ->
  pay_loop n (csv_height tc d) pol payreq d w = (r, w', es) ->
  Forall (fun e => G tc d e /\ not_persist e) es.
Proof.
  induction n as [|n IH]; intros pol payreq d w r w' es Hp Ha H.
  - rewrite pay_loop_O in H. msym. constructor.
  - rewrite pay_loop_S in H. msym; list_simpl; try constructor.
    + apply pay_attempt_guard; auto.
    + constructor.
    + apply pay_attempt_guard; auto.
    + eapply IH; eauto.
Qed.

Section Guard.
Variable tc : tl_consts.
Variable dec : string -> option (string * Z * Z).

Lemma leaf_guard name f : In (name, f) (leaf_actions tc dec) ->
  forall d w r w' es, f d w = (r, w', es) -> Forall (fun e => G tc d e /\ not_persist e) es.
Proof.
  intros Hin d w r w' es H. leaf_cases Hin.
  all: autounfold with actions in H; msym; list_simpl.
  all: try (repeat constructor; cbn [not_persist]; auto; apply guard_non_pay; discriminate).
  all: constructor; [split; [apply guard_non_pay; discriminate|exact Logic.I]|].
  all: match goal with E : negb (p_allow_new _) = false |- _ => apply negb_false_iff in E end.
  all: eapply pay_loop_guard; eauto.
Qed.

Theorem exec_guard fuel a d w r w' es :
  exec tc dec fuel a d w = (r, w', es) -> Forall (fun e => G tc d e /\ not_persist e) es.
Proof.
  apply (exec_rule tc dec (fun d _ es => Forall (fun e => G tc d e /\ not_persist e) es)).
  - intros. eapply leaf_guard; eauto.
  - constructor.
  - intros. repeat constructor.
  - constructor.
  - intros d0 k r0 es0 _ H. eapply Forall_impl; [|exact H]. cbn. intros e [Hg Hn]. split; [|exact Hn].
    unfold G in *. rewrite guard_blinding in Hg. exact Hg.
  - intros d0 r0 es0 H. constructor; [split; [reflexivity|exact Logic.I]|exact H].
  - constructor.
  - auto.
  - intros d0 r0 es0 H. constructor; [split; [reflexivity|exact Logic.I]|exact H].
Qed.

(* every history, with crashes and restarts, any table, any environment *)
Theorem hist_guard t terminal m0 its :
  trace_ok (G tc) (m_data m0) (hs_trace (run_hist tc dec t terminal (init_hstate m0) its)).
Proof.
  apply hist_local.
  - intros d s e. unfold G. now rewrite guard_fsm_state.
  - reflexivity.
  - apply exec_guard.
Qed.

End Guard.

(* ---- in the property's words, for the constants of the code ---- *)
Lemma guard_is_spec lp e : c04_guard tl_consts_gen lp e = true -> c04_spec_guard lp e = true.
Proof.
  destruct e; try reflexivity. unfold c04_guard, c04_spec_guard.
  destruct (timelock_policy tl_consts_gen lp) as [pol|] eqn:Hp; [|discriminate].
  destruct (String.eqb (get_chain lp) lbtc_chain) eqn:Hl; [|reflexivity].
  unfold timelock_policy in Hp. rewrite Hl in Hp.
  apply String.eqb_eq in Hl. rewrite Hl in Hp.
  change (String.eqb lbtc_chain btc_chain) with false in Hp. cbv iota in Hp.
  change (tc_legacy_version tl_consts_gen) with 6 in Hp.
  change (tc_current_version tl_consts_gen) with 7 in Hp.
  destruct (get_version lp =? 6) eqn:H6.
  - inversion Hp; subst. cbn. discriminate.
  - destruct (get_version lp =? 7) eqn:H7; [|discriminate]. inversion Hp; subst.
    unfold check_payment_window. cbn [p_allow_new p_max_total p_window andb].
    intros H.
    apply andb_true_iff in H. destruct H as [Hm H].
    apply andb_true_iff in H. destruct H as [H Hhi].
    apply andb_true_iff in H. destruct H as [Hset Hlo].
    apply negb_true_iff in Hlo. apply Z.ltb_ge in Hlo. apply Z.leb_le in Hlo.
    rewrite Hset, Hlo, Hhi, Hm. reflexivity.
Qed.

Theorem hist_spec dec t terminal m0 its :
  trace_okb c04_spec_guard (m_data m0)
    (hs_trace (run_hist tl_consts_gen dec t terminal (init_hstate m0) its)) = true.
Proof.
  apply trace_okb_ok.
  pose proof (hist_guard tl_consts_gen dec t terminal m0 its) as H.
  revert H. generalize (hs_trace (run_hist tl_consts_gen dec t terminal (init_hstate m0) its)).
  generalize (m_data m0). intros lp l. revert lp.
  induction l as [|e r IH]; intros lp; cbn; auto. intros [H1 H2]. split; auto.
  apply guard_is_spec. exact H1.
Qed.

(* legacy Liquid swaps never start a claim payment *)
Theorem legacy_never_pays dec t terminal m0 its lp e :
  let tr := hs_trace (run_hist tl_consts_gen dec t terminal (init_hstate m0) its) in
  forall pre post, tr = (pre ++ e :: post)%list -> lp = lp_end (m_data m0) pre ->
  get_chain lp = lbtc_chain -> get_version lp = 6 ->
  forall p s m tip r, e <> EPayClaim p s m tip r.
Proof.
  intros tr pre post Htr Hlp Hc Hv p s m tip r He. subst e.
  pose proof (hist_spec dec t terminal m0 its) as H. fold tr in H. rewrite Htr in H.
  apply trace_okb_ok in H. apply trace_ok_app in H. destruct H as [_ H]. cbn in H. destruct H as [H _].
  rewrite <- Hlp in H. rewrite Hc in H. cbn in H. rewrite Hv in H. cbn in H. discriminate.
Qed.

(* arithmetic of the window (property text: one-minute Liquid blocks, at least 32
   Bitcoin blocks per 10021 minutes): a payment made at Liquid height tip inside the
   window, over a route of at most 32 Bitcoin blocks, expires (at the latest 10021
   minutes = Liquid blocks later) strictly before the earliest height at which a CSV
   refund of an opening transaction confirmed after the anchor can be mined *)
Theorem window_resolves_before_refund :
  forall pol, policy_lbtc_v7 = Some pol ->
  forall anchor tip conf expiry,
    anchor <= tip < anchor + p_window pol ->
    anchor < conf ->
    expiry <= tip + 10021 ->
    p_max_total pol = 32 /\ expiry < conf + p_csv pol.
Proof.
  intros pol Hp anchor tip conf expiry Ht Hc He. inversion Hp; subst. cbn in *. lia.
Qed.

(* non-vacuity: a Liquid v7 data record for which a payment at the anchor passes the guard *)
Example guard_satisfiable :
  let r := mkReq 7 "id" "" "asset" "1x2x3" 100000 "pk" 0 in
  let d := mkData None None (Some r) None None None None "peer" "me" "key" "" 0 "" 1000 true "" "" "" "" None "" in
  c04_guard tl_consts_gen d (EPayClaim "inv" "1x2x3" 32 1059 None) = true /\
  c04_guard tl_consts_gen d (EPayClaim "inv" "1x2x3" 32 1060 None) = false /\
  c04_guard tl_consts_gen d (EPayClaim "inv" "1x2x3" 32 999 None) = false.
Proof. cbn. repeat split; reflexivity. Qed.
