(* Lifting step-level facts to whole histories (with crashes and restarts). *)
From Coq Require Import String ZArith Bool List Lia.
From RecordUpdate Require Import RecordSet.
From PS Require Import Base.Wrap Model.Data Model.Actions Model.Fsm Model.History
  Proofs.Monad Proofs.ExecRule Proofs.Engine.
Import ListNotations RecordSetNotations.
Open Scope Z_scope.

Lemma trace_okb_ok (Pb : swap_data -> effect -> bool) lp es :
  trace_okb Pb lp es = true <-> trace_ok (fun l e => Pb l e = true) lp es.
Proof.
  revert lp. induction es as [|e r IH]; intros lp; simpl; [tauto|].
  rewrite andb_true_iff, IH. tauto.
Qed.

Lemma last_persist_lp_end_gen es : forall acc lp,
  (match acc with Some (_, d) => lp = d | None => True end) ->
  match fold_left (fun acc e => match e with EPersist s d true => Some (s, d) | _ => acc end) es acc with
  | Some (_, d) => fold_left lp_step es lp = d
  | None => True
  end.
Proof.
  induction es as [|e r IH]; intros acc lp H; simpl.
  - destruct acc as [[s d]|]; auto.
  - apply IH. destruct e; simpl; auto. destruct ok; simpl; auto.
Qed.

(* the record RecoverSwaps loads is the last durable record of the trace *)
Lemma restore_data m tr mr lp0 : restore m tr = Some mr -> m_data mr = lp_end lp0 tr.
Proof.
  unfold restore. destruct (last_persist tr) as [[s d]|] eqn:E; [|discriminate].
  intros H. inversion H; subst. cbn. unfold last_persist in E.
  pose proof (last_persist_lp_end_gen tr None lp0 Logic.I) as L. rewrite E in L. symmetry. exact L.
Qed.

Lemma restore_cur m tr mr : restore m tr = Some mr ->
  exists s d, last_persist tr = Some (s, d) /\ m_cur mr = s /\ m_data mr = d /\
              m_id mr = m_id m /\ m_type mr = m_type m /\ m_role mr = m_role m.
Proof.
  unfold restore. destruct (last_persist tr) as [[s d]|]; [|discriminate].
  intros H. inversion H; subst. exists s, d. cbn. repeat split; reflexivity.
Qed.

Section Local.
Variable tc : tl_consts.
Variable decode : string -> option (string * Z * Z).
Variable t : table.
Variable terminal : list string.

(* G lp e: a guard every effect must satisfy relative to the last durable record.
   It is established locally by the action that emits the effect. *)
Variable G : swap_data -> effect -> Prop.
Hypothesis G_fsm_state : forall d s e, G (d <| d_fsm_state := s |>) e -> G d e.
Hypothesis G_persist : forall lp s d ok, G lp (EPersist s d ok).
Hypothesis G_exec : forall fuel a d w r w' es,
  exec tc decode fuel a d w = (r, w', es) -> Forall (fun e => G d e /\ not_persist e) es.

Lemma local_step m i lp w o w' es :
  (i = InRecover -> lp = m_data m) ->
  step tc decode t terminal m i w = (o, w', es) -> trace_ok G lp es.
Proof.
  intros Hlp H.
  apply (step_rule tc decode t terminal (fun _ => True) G (fun _ _ => True)) with (lp := lp) in H; auto.
  - tauto.
  - intros m1 ev nxt sd act _ _ _ _ _ w1 ev' d' w2 es1 Hex. split; auto.
    apply G_exec in Hex. eapply Forall_impl; [|exact Hex]. cbn. intros e [Hg Hn]. split; auto.
    eapply G_fsm_state; eauto.
  - intros m1 sd act _ _ _. split; auto. intros _ w1 ev' d' w2 es1 Hex. split; auto.
    eapply G_exec; eauto.
  - destruct i as [ev [c|]| | | | |]; cbn; auto.
Qed.

Theorem hist_local m0 its :
  trace_ok G (m_data m0) (hs_trace (run_hist tc decode t terminal (init_hstate m0) its)).
Proof.
  unfold run_hist.
  assert (Gen : forall its h, trace_ok G (m_data m0) (hs_trace h) ->
            trace_ok G (m_data m0) (hs_trace (fold_left (hist_step tc decode t terminal) its h))).
  { clear its. induction its as [|it r IH]; intros h Hh; [exact Hh|].
    cbn [fold_left]. apply IH. unfold hist_step.
    destruct (hs_machine h) as [mh|]; [|exact Hh].
    destruct (is_recover (item_input it)) eqn:Hrec.
    - destruct (restore mh (hs_trace h)) as [mr|] eqn:Hr; [|exact Hh].
      assert (Hlp : m_data mr = lp_end (m_data m0) (hs_trace h)) by (eapply restore_data; eauto).
      destruct it as [i w|i w k]; cbn [item_input] in Hrec;
        destruct (run_step tc decode t terminal mr i w) as [[o w'] es] eqn:Hs; cbn [hs_trace];
        apply trace_ok_app; (split; [exact Hh|]); try apply trace_ok_firstn;
        (eapply local_step; [|exact Hs]); intros _; symmetry; exact Hlp.
    - destruct it as [i w|i w k]; cbn [item_input] in Hrec;
        destruct (run_step tc decode t terminal mh i w) as [[o w'] es] eqn:Hs; cbn [hs_trace];
        apply trace_ok_app; (split; [exact Hh|]); try apply trace_ok_firstn;
        (eapply local_step; [|exact Hs]); intros ->; discriminate. }
  apply Gen. cbn. exact Logic.I.
Qed.

End Local.
