(* C22, clause 3: the message handed to a retransmitter is opening_tx_broadcasted.
   Invariant [msg_inv] on machines (once an opening_tx_broadcasted message is recorded,
   NextMessage is that message; none is recorded before the request/agreement was built; one is
   recorded in the announcing state), carried through the engine for ANY table that passes
   [c22_msg_table_ok]. *)
From Coq Require Import String ZArith Bool List Lia.
From RecordUpdate Require Import RecordSet.
From PS Require Import Base.Wrap Model.Data Model.Actions Model.Fsm Model.History Model.Eqb Model.FsmCorr Model.C22Corr
  Gen.ConstsSwap Gen.Tables
  Proofs.Monad Proofs.ExecRule Proofs.MTac Proofs.Frame Proofs.Engine Proofs.HistRule Proofs.C22.
From PS Require Proofs.C04.
Import ListNotations RecordSetNotations.
Open Scope Z_scope.
Open Scope list_scope.

Strategy opaque [event_loop exec loop_fuel action_fuel pay_loop].

(* ---------- the fold behind retrans_msg_ok ---------- *)
Definition tp (es : list effect) : Prop := rm_fold (true, false) es = (true, false).

Lemma tp_app a b : tp a -> tp b -> tp (a ++ b).
Proof. unfold tp, rm_fold. intros Ha Hb. rewrite fold_left_app, Ha. exact Hb. Qed.

Lemma tp_nil : tp [].
Proof. reflexivity. Qed.

Lemma tp_ok es : tp es -> retrans_msg_ok es = true.
Proof. unfold tp, retrans_msg_ok. intros ->. reflexivity. Qed.

Lemma tp_no_start es : no_start es -> tp es.
Proof.
  unfold tp, rm_fold, no_start. induction es as [|e r IH]; intros H; [reflexivity|].
  cbn in H. apply orb_false_iff in H. destruct H as [He Hr]. cbn [fold_left rm_step].
  destruct e; cbn in He; try discriminate; apply IH; exact Hr.
Qed.

Lemma tp_persist s d ok : tp [EPersist s d ok].
Proof. reflexivity. Qed.

Lemma otb_eqb_refl o : otb_eqb o o = true.
Proof.
  unfold otb_eqb, seq. rewrite !String.eqb_refl, Z.eqb_refl. reflexivity.
Qed.

(* NextMessage is an opening_tx_broadcasted message *)
Definition next_is_otb (d : swap_data) : bool :=
  match d_next_msg d with Some (MOtb _) => true | _ => false end.

Lemma inv_next_is_otb d : otb_msg_ok d = true -> has_otb d = true -> next_is_otb d = true.
Proof.
  unfold otb_msg_ok, has_otb, next_is_otb. destruct (d_otb d); [|discriminate].
  destruct (d_next_msg d) as [[| | | | | |]|]; try discriminate. auto.
Qed.

(* ---------- leaves ---------- *)
Lemma pay_loop_data n : forall csvh pol payreq d w r w' es,
  pay_loop n csvh pol payreq d w = (r, w', es) ->
  d_otb (snd r) = d_otb d /\ d_next_msg (snd r) = d_next_msg d.
Proof.
  induction n as [|n IH]; intros csvh pol payreq d w r w' es H.
  - rewrite pay_loop_O in H. msym. auto.
  - rewrite pay_loop_S in H. msym; auto. eapply IH; eauto.
Qed.

Section Leaves.
Variable tc : tl_consts.
Variable dec : string -> option (string * Z * Z).

Lemma leaf_msg_facts name f : In (name, f) (leaf_actions tc dec) ->
  forall d w r w' es, f d w = (r, w', es) ->
  (String.eqb name opening_leaf = false -> d_otb (snd r) = d_otb d) /\
  (builds_other_msg name = false -> otb_msg_ok d = true -> otb_msg_ok (snd r) = true) /\
  (String.eqb name opening_leaf = true -> fst r = Ev_Succeeded -> has_otb (snd r) = true).
Proof.
  intros Hin d w r w' es H. leaf_cases Hin.
  all: autounfold with actions in H; msym.
  all: try match goal with X : pay_loop _ _ _ _ _ _ = _ |- _ => apply pay_loop_data in X; destruct X as [X1 X2] end.
  all: cbn [fst snd]; split; [|split]; intros; try discriminate; try reflexivity; try assumption.
  all: try (unfold otb_msg_ok in *; cbn in *; assumption).
  all: try (unfold otb_msg_ok; cbn; apply otb_eqb_refl).
  all: try (unfold has_otb; cbn; match goal with X : d_otb _ = Some _ |- _ => rewrite X end; reflexivity).
  all: try (unfold otb_msg_ok in *; rewrite X1, X2; assumption).
  all: try congruence.
Qed.

(* ---------- action trees ---------- *)
Lemma tree_any_child p name ch c : first_child ch = Some c -> tree_any p (ANode name ch) = false -> tree_any p c = false.
Proof.
  destruct ch as [|c0 r]; cbn [first_child]; intros H Ht; [discriminate|]. inversion H; subst.
  cbn [tree_any existsb] in Ht. apply orb_false_iff in Ht. destruct Ht as [_ Ht].
  apply orb_false_iff in Ht. tauto.
Qed.

Lemma tree_any_root p name ch : tree_any p (ANode name ch) = false -> p name = false.
Proof. cbn [tree_any]. intros H. apply orb_false_iff in H. tauto. Qed.

(* a relation between the data before and after holds of an execution when it holds of every
   leaf whose name the predicate [bad] does not flag, for trees without flagged names *)
Section Spine.
Variable bad : string -> bool.
Variable R : swap_data -> swap_data -> Prop.
Hypothesis R_refl : forall d, R d d.
Hypothesis R_blind : forall d k d', R (d <| d_blinding_hex := k |>) d' -> R d d'.
Hypothesis R_leaf : forall name f, In (name, f) (leaf_actions tc dec) -> bad name = false ->
  forall d w r w' es, f d w = (r, w', es) -> R d (snd r).

Lemma exec_spine fuel : forall a d w r w' es,
  tree_any bad a = false -> exec tc dec fuel a d w = (r, w', es) -> R d (snd r).
Proof.
  induction fuel as [|fuel IH]; intros [name ch] d w r w' es Hb H.
  - rewrite exec_O in H. apply ret_inv in H. destruct H as (-> & _ & _). apply R_refl.
  - rewrite exec_S in H. cbv zeta in H.
    assert (Next : forall d' w1 r1 w2 e1,
              (match first_child ch with Some c => exec tc dec fuel c d' | None => ret (Ev_Unknown, d') end) w1
              = (r1, w2, e1) -> R d' (snd r1)).
    { intros d' w1 r1 w2 e1 Hn. destruct (first_child ch) as [c|] eqn:Hc.
      - eapply IH; [|exact Hn]. eapply tree_any_child; eauto.
      - apply ret_inv in Hn. destruct Hn as (-> & _ & _). apply R_refl. }
    destruct (String.eqb name "CheckRequestWrapperAction").
    { apply bind_inv in H. destruct H as (cr & w1 & e1 & e2 & Hc & H & ->).
      destruct cr as [[|]|]; [eapply Next; eauto| |].
      - unfold log_rejected in H. apply bind_inv in H. destruct H as (u & w2 & e3 & e4 & He & H & ->).
        apply ret_inv in H. destruct H as (-> & _ & _). apply R_refl.
      - apply ret_inv in H. destruct H as (-> & _ & _). apply R_refl. }
    destruct (String.eqb name "SetBlindingKeyActionWrapper").
    { destruct (String.eqb (get_chain d) lbtc_chain); [|eapply Next; eauto].
      apply bind_inv in H. destruct H as (k & w1 & e1 & e2 & Hp & H & ->).
      eapply R_blind. eapply Next; eauto. }
    destruct (String.eqb name "StopSendMessageWithRetryWrapperAction").
    { apply bind_inv in H. destruct H as (u & w1 & e1 & e2 & He & H & ->). eapply Next; eauto. }
    destruct (String.eqb name "CheckPremiumAmount").
    { destruct (check_premium d) as [[|]|]; [eapply Next; eauto| |];
        apply ret_inv in H; destruct H as (-> & _ & _); apply R_refl. }
    destruct (String.eqb name "AddSuspiciousPeerAction").
    { apply bind_inv in H. destruct H as (ok & w1 & e1 & e2 & Hp & H & ->).
      apply bind_inv in H. destruct H as (u & w2 & e3 & e4 & He & H & ->). eapply Next; eauto. }
    destruct (assoc_str name (leaf_actions tc dec)) as [f|] eqn:Ef.
    + apply assoc_str_in in Ef. eapply R_leaf; eauto. eapply tree_any_root; eauto.
    + apply ret_inv in H. destruct H as (-> & _ & _). apply R_refl.
Qed.
End Spine.

(* T1: a tree without the opening leaf does not touch the recorded opening_tx_broadcasted *)
Lemma exec_keeps_otb fuel a d w r w' es :
  tree_any (String.eqb opening_leaf) a = false -> exec tc dec fuel a d w = (r, w', es) -> d_otb (snd r) = d_otb d.
Proof.
  apply (exec_spine (String.eqb opening_leaf) (fun d d' => d_otb d' = d_otb d)).
  - reflexivity.
  - intros d0 k d' H. exact H.
  - intros name f Hin Hb d0 w0 r0 w1 es0 H. eapply leaf_msg_facts; eauto. rewrite String.eqb_sym. exact Hb.
Qed.

(* T2: a tree that does not overwrite NextMessage keeps the data consistent *)
Lemma exec_keeps_consistent fuel a d w r w' es :
  tree_any builds_other_msg a = false -> exec tc dec fuel a d w = (r, w', es) ->
  otb_msg_ok d = true -> otb_msg_ok (snd r) = true.
Proof.
  apply (exec_spine builds_other_msg (fun d d' => otb_msg_ok d = true -> otb_msg_ok d' = true)).
  - auto.
  - intros d0 k d' H. exact H.
  - intros name f Hin Hb d0 w0 r0 w1 es0 H. eapply leaf_msg_facts; eauto.
Qed.

(* T4: success of a tree whose leaf is the opening leaf records the message *)
Lemma exec_opening_success fuel : forall a d w r w' es,
  spine_leaf fuel a = opening_leaf -> exec tc dec fuel a d w = (r, w', es) ->
  fst r = Ev_Succeeded -> has_otb (snd r) = true.
Proof.
  induction fuel as [|fuel IH]; intros [name ch] d w r w' es Hs H Hev; [discriminate Hs|].
  rewrite exec_S in H. cbv zeta in H. cbn [spine_leaf] in Hs.
  assert (Next : is_wrapper name = true -> forall d' w1 r1 w2 e1,
            (match first_child ch with Some c => exec tc dec fuel c d' | None => ret (Ev_Unknown, d') end) w1
            = (r1, w2, e1) -> fst r1 = Ev_Succeeded -> has_otb (snd r1) = true).
  { intros Hw d' w1 r1 w2 e1 Hn He. rewrite Hw in Hs. destruct (first_child ch) as [c|]; [|discriminate Hs].
    eapply IH; eauto. }
  destruct (String.eqb name "CheckRequestWrapperAction") eqn:E1.
  { apply String.eqb_eq in E1. subst name.
    apply bind_inv in H. destruct H as (cr & w1 & e1 & e2 & Hc & H & ->).
    destruct cr as [[|]|]; [eapply Next; eauto| |].
    - unfold log_rejected in H. apply bind_inv in H. destruct H as (u & w2 & e3 & e4 & He & H & ->).
      apply ret_inv in H. destruct H as (-> & _ & _). discriminate Hev.
    - apply ret_inv in H. destruct H as (-> & _ & _). discriminate Hev. }
  destruct (String.eqb name "SetBlindingKeyActionWrapper") eqn:E2.
  { apply String.eqb_eq in E2. subst name.
    destruct (String.eqb (get_chain d) lbtc_chain); [|eapply Next; eauto].
    apply bind_inv in H. destruct H as (k & w1 & e1 & e2 & Hp & H & ->). eapply Next; eauto. }
  destruct (String.eqb name "StopSendMessageWithRetryWrapperAction") eqn:E3.
  { apply String.eqb_eq in E3. subst name.
    apply bind_inv in H. destruct H as (u & w1 & e1 & e2 & He & H & ->). eapply Next; eauto. }
  destruct (String.eqb name "CheckPremiumAmount") eqn:E4.
  { apply String.eqb_eq in E4. subst name.
    destruct (check_premium d) as [[|]|]; [eapply Next; eauto| |];
      apply ret_inv in H; destruct H as (-> & _ & _); discriminate Hev. }
  destruct (String.eqb name "AddSuspiciousPeerAction") eqn:E5.
  { apply String.eqb_eq in E5. subst name.
    apply bind_inv in H. destruct H as (ok & w1 & e1 & e2 & Hp & H & ->).
    apply bind_inv in H. destruct H as (u & w2 & e3 & e4 & He & H & ->). eapply Next; eauto. }
  assert (Hw : is_wrapper name = false).
  { unfold is_wrapper, str_mem. cbn [existsb]. rewrite E1, E2, E3, E4, E5. reflexivity. }
  rewrite Hw in Hs. subst name.
  destruct (assoc_str opening_leaf (leaf_actions tc dec)) as [f|] eqn:Ef.
  - apply assoc_str_in in Ef. eapply leaf_msg_facts; eauto.
  - apply ret_inv in H. destruct H as (-> & _ & _). discriminate Hev.
Qed.

(* T5: whatever the tree, if NextMessage is opening_tx_broadcasted a new retransmitter gets it *)
Definition msg_q (d : swap_data) (r : string * swap_data) (es : list effect) : Prop :=
  exists pre post, es = pre ++ post /\ no_start pre /\
    (no_start post \/ exists p m, d_next_msg d = Some m /\ post = [ERetransStart; ESend p m]).

Lemma msg_q_cons e d r es : is_start e = false -> msg_q d r es -> msg_q d r (e :: es).
Proof.
  intros He (pre & post & -> & Hn & Hp). exists (e :: pre), post. split; [reflexivity|]. split; [|exact Hp].
  unfold no_start in *. cbn. rewrite He. exact Hn.
Qed.

Lemma exec_msg_q fuel a d w r w' es : exec tc dec fuel a d w = (r, w', es) -> msg_q d r es.
Proof.
  apply (exec_rule tc dec msg_q).
  - intros name f Hin d0 w0 r0 w1 es0 H. exists [], es0. split; [reflexivity|]. split; [reflexivity|].
    destruct (String.eqb name retry_leaf) eqn:En.
    + apply String.eqb_eq in En. subst name.
      assert (f = act_send_message_retry).
      { cbn in Hin. repeat (destruct Hin as [Hin|Hin]; [inversion Hin; try reflexivity|]); try contradiction. }
      subst f. destruct (existsb is_start es0) eqn:Es.
      * right. destruct (retry_sends_next_msg _ _ _ _ _ H Es) as (m & Hm & -> & _). eauto.
      * left. exact Es.
    + left. eapply leaf_fx_holds; eauto.
  - intros d0. exists [], []. repeat split. left. reflexivity.
  - intros d0. exists [], [ERequestedSwapLog]. repeat split. left. reflexivity.
  - intros d0. exists [], []. repeat split. left. reflexivity.
  - intros d0 k r0 es0 _ H. exact H.
  - intros d0 r0 es0 H. apply msg_q_cons; auto.
  - intros d0 _. exists [], []. repeat split. left. reflexivity.
  - intros d0 r0 es0 _ H. exact H.
  - intros d0 r0 es0 H. apply msg_q_cons; auto.
Qed.

Lemma exec_tp_otb fuel a d w r w' es :
  exec tc dec fuel a d w = (r, w', es) -> next_is_otb d = true -> tp es.
Proof.
  intros H Hn. apply exec_msg_q in H. destruct H as (pre & post & -> & Hp & [Hq|(p & m & Hm & ->)]).
  - apply tp_app; apply tp_no_start; assumption.
  - apply tp_app; [apply tp_no_start; assumption|].
    unfold next_is_otb in Hn. rewrite Hm in Hn. destruct m; try discriminate. reflexivity.
Qed.

Lemma exec_not_persist fuel a d w r w' es : exec tc dec fuel a d w = (r, w', es) -> Forall not_persist es.
Proof.
  intros H. pose proof (PS.Proofs.C04.exec_guard tc dec fuel a d w r w' es H) as G.
  eapply Forall_impl; [|exact G]. cbn. tauto.
Qed.

End Leaves.

(* ---------- the engine ---------- *)
Section Engine.
Variable tc : tl_consts.
Variable dec : string -> option (string * Z * Z).
Variable t : table.
Variable terminal : list string.
Hypothesis Hok : c22_msg_table_ok t = true.

Definition minv (m : machine) : Prop := msg_inv t (m_cur m) (m_data m) = true.
(* the event being processed: Event_ActionSucceeded of the opening state comes with the message recorded *)
Definition mev (m : machine) (ev : string) : Prop :=
  ev = Ev_Succeeded -> (match state_tree t (m_cur m) with
                        | Some a => String.eqb (spine_leaf action_fuel a) opening_leaf
                        | None => false end) = true -> has_otb (m_data m) = true.
(* every successful store write records a machine that satisfies the invariant *)
Definition persists_ok (es : list effect) : Prop :=
  Forall (fun e => match e with EPersist s d true => msg_inv t s d = true | _ => True end) es.

Definition good (es : list effect) : Prop := tp es /\ persists_ok es.

Lemma good_app a b : good a -> good b -> good (a ++ b).
Proof. intros [A1 A2] [B1 B2]. split; [apply tp_app; auto|apply Forall_app; auto]. Qed.

Lemma good_nil : good [].
Proof. split; [apply tp_nil|constructor]. Qed.

Lemma edge_checked s ev s' : next_state t s ev = Some s' -> c22_msg_edge_ok t (s, ev, s') = true.
Proof.
  intros H. unfold c22_msg_table_ok in Hok. apply andb_true_iff in Hok. destruct Hok as [H1 _].
  rewrite forallb_forall in H1. apply H1. apply edge_in. exact H.
Qed.

Lemma state_checked s sd : lookup_state t s = Some sd -> c22_msg_state_ok t s = true.
Proof.
  intros H. unfold c22_msg_table_ok in Hok. apply andb_true_iff in Hok. destruct Hok as [_ H2].
  rewrite forallb_forall in H2. unfold lookup_state in H. apply assoc_str_in in H. exact (H2 _ H).
Qed.

Lemma msg_inv_fsm_state s d x : msg_inv t s (d <| d_fsm_state := x |>) = msg_inv t s d.
Proof. reflexivity. Qed.

(* running the action of state s (just entered, or on recovery) on data that satisfies the part of
   the invariant that is known at that point *)
Lemma action_fx s sd act d w ev' d' w' es :
  lookup_state t s = Some sd -> st_action sd = Some act ->
  otb_msg_ok d = true ->
  (pre_state t s = true -> has_otb d = false) ->
  (state_may_start t s = true -> has_otb d = true) ->
  exec tc dec action_fuel act d w = ((ev', d'), w', es) ->
  tp es /\ msg_inv t s d' = true /\
  (ev' = Ev_Succeeded -> String.eqb (spine_leaf action_fuel act) opening_leaf = true -> has_otb d' = true).
Proof.
  intros Hl Ha Hc Hpre Hann Hex.
  pose proof (state_checked _ _ Hl) as Hst. unfold c22_msg_state_ok in Hst.
  apply andb_true_iff in Hst. destruct Hst as [S1 S2].
  assert (Ht : state_tree t s = Some act) by (unfold state_tree; rewrite Hl; exact Ha).
  unfold state_any, state_may_start in *. rewrite Ht in *.
  split; [|split].
  - destruct (tree_may_start act) eqn:Hm.
    + eapply exec_tp_otb; eauto. apply inv_next_is_otb; auto.
    + apply tp_no_start. eapply exec_no_start; eauto.
  - unfold msg_inv, state_may_start. rewrite Ht.
    destruct (pre_state t s) eqn:Hp.
    + (* nothing recorded before, nothing after: consistent whatever NextMessage is *)
      apply andb_true_iff in S1. destruct S1 as [S1a S1b]. apply negb_true_iff in S1a. apply negb_true_iff in S1b.
      pose proof (exec_keeps_otb tc dec _ _ _ _ _ _ _ S1a Hex) as Ho. cbn [snd] in Ho.
      specialize (Hpre eq_refl). unfold has_otb in *. rewrite S1b.
      assert (Hn : d_otb d' = None) by (rewrite Ho; destruct (d_otb d); [discriminate|reflexivity]).
      unfold otb_msg_ok. rewrite Hn. reflexivity.
    + assert (Hb : tree_any builds_other_msg act = false).
      { unfold pre_state, state_any in Hp. rewrite Ht in Hp. apply orb_false_iff in Hp. tauto. }
      pose proof (exec_keeps_consistent tc dec _ _ _ _ _ _ _ Hb Hex Hc) as Hc'. cbn [snd] in Hc'. rewrite Hc'. cbn.
      destruct (tree_may_start act) eqn:Hm; [|reflexivity].
      apply andb_true_iff in S2. destruct S2 as [S2a _]. apply negb_true_iff in S2a.
      pose proof (exec_keeps_otb tc dec _ _ _ _ _ _ _ S2a Hex) as Ho. cbn [snd] in Ho.
      unfold has_otb. rewrite Ho. apply Hann. reflexivity.
  - intros -> Hs. eapply (exec_opening_success tc dec _ _ _ _ _ _ _ (proj1 (String.eqb_eq _ _) Hs) Hex). reflexivity.
Qed.

Lemma minv_parts m : minv m ->
  otb_msg_ok (m_data m) = true /\
  (pre_state t (m_cur m) = true -> has_otb (m_data m) = false) /\
  (state_may_start t (m_cur m) = true -> has_otb (m_data m) = true).
Proof.
  unfold minv, msg_inv. intros H. apply andb_true_iff in H. destruct H as [H H3].
  apply andb_true_iff in H. destruct H as [H1 H2]. split; [exact H1|]. split.
  - intros Hp. rewrite Hp in H2. apply negb_true_iff in H2. exact H2.
  - intros Hs. rewrite Hs in H3. exact H3.
Qed.

(* one transition *)
Lemma transition_fx m ev nxt sd act w ev' d' w' es :
  minv m -> mev m ev ->
  next_state t (m_cur m) ev = Some nxt -> lookup_state t nxt = Some sd -> st_action sd = Some act ->
  exec tc dec action_fuel act ((m_data m) <| d_fsm_state := nxt |>) w = ((ev', d'), w', es) ->
  tp es /\ msg_inv t nxt d' = true /\
  (ev' = Ev_Succeeded -> String.eqb (spine_leaf action_fuel act) opening_leaf = true -> has_otb d' = true).
Proof.
  intros Hi He Hn Hl Ha Hex. destruct (minv_parts _ Hi) as (I1 & I2 & I3).
  pose proof (edge_checked _ _ _ Hn) as Hed. unfold c22_msg_edge_ok in Hed.
  apply andb_true_iff in Hed. destruct Hed as [Hed E3]. apply andb_true_iff in Hed. destruct Hed as [E1 E2].
  eapply (action_fx nxt sd act ((m_data m) <| d_fsm_state := nxt |>)); [exact Hl|exact Ha|exact I1| | |exact Hex].
  - intros Hp. rewrite Hp in E2. apply I2 in E2. exact E2.
  - intros Hs. rewrite Hs in E3. apply andb_true_iff in E3. destruct E3 as [Ea Eb].
    apply String.eqb_eq in Ea. apply (He Ea). exact Eb.
Qed.

Lemma persist_good m w ok w' es : minv m -> persist m w = (ok, w', es) -> good es.
Proof.
  intros Hi H. apply persist_inv in H. subst. split; [apply tp_persist|].
  constructor; [|constructor]. destruct ok; [exact Hi|exact Logic.I].
Qed.

Lemma exec_good fuel a d w r w' es : exec tc dec fuel a d w = (r, w', es) -> tp es -> good es.
Proof.
  intros H T. split; [exact T|]. apply exec_not_persist in H. unfold persists_ok.
  eapply Forall_impl; [|exact H]. intros e Hn. destruct e; try exact Logic.I. contradiction.
Qed.

Lemma event_loop_msg fuel : forall m ev w m' res w' es,
  minv m -> mev m ev -> event_loop tc dec t fuel m ev w = ((m', res), w', es) -> good es /\ minv m'.
Proof.
  induction fuel as [|fuel IH]; intros m ev w m' res w' es Hi He H.
  - rewrite event_loop_O in H. apply ret_inv in H. destruct H as (H & _ & ->). inversion H; subst. split; [apply good_nil|exact Hi].
  - rewrite event_loop_S in H.
    destruct (next_state t (m_cur m) ev) as [nxt|] eqn:Hn.
    2:{ apply ret_inv in H. destruct H as (H & _ & ->). inversion H; subst. split; [apply good_nil|exact Hi]. }
    destruct (lookup_state t nxt) as [sd|] eqn:Hl.
    2:{ apply ret_inv in H. destruct H as (H & _ & ->). inversion H; subst. split; [apply good_nil|exact Hi]. }
    destruct (st_action sd) as [act|] eqn:Ha.
    2:{ apply ret_inv in H. destruct H as (H & _ & ->). inversion H; subst. split; [apply good_nil|exact Hi]. }
    cbv zeta in H.
    apply bind_inv in H. destruct H as ([ev' d'] & w1 & e1 & e2 & Hex & H & ->).
    change (m_data (m <| m_prev := m_cur m |> <| m_cur := nxt |> <| m_data := m_data m <| d_fsm_state := nxt |> |>))
      with ((m_data m) <| d_fsm_state := nxt |>) in Hex.
    destruct (transition_fx _ _ _ _ _ _ _ _ _ _ Hi He Hn Hl Ha Hex) as (T1 & I1 & V1).
    pose proof (exec_good _ _ _ _ _ _ _ Hex T1) as G1.
    assert (Hm2 : forall r, minv ((m <| m_prev := m_cur m |> <| m_cur := nxt |> <| m_data := (m_data m) <| d_fsm_state := nxt |> |>) <| m_data := d' |> <| m_retries := r |>)) by (intros r; exact I1).
    assert (Hm2' : minv ((m <| m_prev := m_cur m |> <| m_cur := nxt |> <| m_data := (m_data m) <| d_fsm_state := nxt |> |>) <| m_data := d' |>)) by exact I1.
    assert (Hev2 : forall mm, m_cur mm = nxt -> m_data mm = d' -> mev mm ev').
    { intros mm Hc Hd. unfold mev. rewrite Hc, Hd. unfold state_tree. rewrite Hl, Ha. exact V1. }
    destruct (String.eqb ev' Ev_Panic).
    { apply ret_inv in H. destruct H as (H & _ & ->). inversion H; subst. rewrite app_nil_r. split; [exact G1|exact Hm2']. }
    apply bind_inv in H. destruct H as (ok & w2 & e3 & e4 & Hp & H & ->).
    pose proof (persist_good _ _ _ _ _ Hm2' Hp) as G3.
    destruct ok; cbn [negb] in H.
    2:{ apply ret_inv in H. destruct H as (H & _ & ->). inversion H; subst. rewrite app_nil_r.
        split; [apply good_app; assumption|exact Hm2']. }
    destruct (String.eqb ev' Ev_Done).
    { apply ret_inv in H. destruct H as (H & _ & ->). inversion H; subst. rewrite app_nil_r.
      split; [apply good_app; assumption|exact Hm2']. }
    destruct (String.eqb ev' Ev_NoOp).
    { apply ret_inv in H. destruct H as (H & _ & ->). inversion H; subst. rewrite app_nil_r.
      split; [apply good_app; assumption|exact Hm2']. }
    destruct (String.eqb ev' Ev_Retry).
    + cbv zeta in H.
      match type of H with (if ?c then _ else _) _ = _ => destruct c end.
      * apply ret_inv in H. destruct H as (H & _ & ->). inversion H; subst. rewrite app_nil_r.
        split; [apply good_app; assumption|apply Hm2].
      * apply IH in H; [|apply Hm2|apply Hev2; reflexivity]. destruct H as [G4 I4].
        split; [repeat apply good_app; assumption|exact I4].
    + apply IH in H; [|exact Hm2'|apply Hev2; reflexivity]. destruct H as [G4 I4].
      split; [repeat apply good_app; assumption|exact I4].
Qed.

Lemma ptl_msg m ev w m' res w' es :
  minv m -> mev m ev -> persist_then_loop tc dec t m ev w = ((m', res), w', es) -> good es /\ minv m'.
Proof.
  intros Hi He H. unfold persist_then_loop in H.
  apply bind_inv in H. destruct H as (ok & w1 & e1 & e2 & Hp & H & ->).
  pose proof (persist_good _ _ _ _ _ Hi Hp) as G1.
  destruct ok; cbn [negb] in H.
  - apply event_loop_msg in H; auto. destruct H as [G2 I2]. split; [apply good_app; assumption|exact I2].
  - apply ret_inv in H. destruct H as (H & _ & ->). inversion H; subst. rewrite app_nil_r. auto.
Qed.

(* applying an event context: only opening_tx_broadcasted touches the recorded message, and this
   role accepts no event that carries it *)
Lemma apply_ctx_msg m c d' :
  minv m -> apply_ctx (m_data m) c = Some d' -> (forall o, c <> MOtb o) -> minv (m <| m_data := d' |>).
Proof.
  unfold minv, msg_inv, otb_msg_ok, has_otb. intros Hi Hap Hno. cbn [m_cur m_data].
  destruct c; cbn in Hap;
    repeat match type of Hap with (match ?x with _ => _ end) = _ => destruct x end;
    inversion Hap; subst; try exact Hi.
  exfalso. eapply Hno. reflexivity.
Qed.

Lemma send_event_msg m ev ctx w m' res w' es :
  minv m -> ev <> Ev_Succeeded -> (forall o, ctx = Some (MOtb o) -> ev = Ev_TxOpened) ->
  send_event tc dec t m ev ctx w = ((m', res), w', es) -> good es /\ minv m'.
Proof.
  intros Hi Hne Hctx H. unfold send_event in H.
  assert (He : forall mm, mev mm ev) by (intros mm X; contradiction).
  destruct (String.eqb ev Ev_Done).
  { apply ret_inv in H. destruct H as (H & _ & ->). inversion H; subst. split; [apply good_nil|exact Hi]. }
  destruct (next_state t (m_cur m) ev) as [nx|] eqn:Hn.
  2:{ apply ret_inv in H. destruct H as (H & _ & ->). inversion H; subst. split; [apply good_nil|exact Hi]. }
  destruct ctx as [c|].
  - destruct (validate_ctx (m_data m) c); cbn [negb] in H.
    + destruct (apply_ctx (m_data m) c) as [d'|] eqn:Hap.
      * eapply ptl_msg; [| |exact H]; [|apply He].
        eapply apply_ctx_msg; eauto. intros o ->.
        pose proof (Hctx o eq_refl) as Hev. subst ev.
        pose proof (edge_checked _ _ _ Hn) as Hed. unfold c22_msg_edge_ok in Hed.
        apply andb_true_iff in Hed. destruct Hed as [Hed _]. apply andb_true_iff in Hed. destruct Hed as [E1 _].
        rewrite String.eqb_refl in E1. discriminate E1.
      * apply ret_inv in H. destruct H as (H & _ & ->). inversion H; subst. split; [apply good_nil|exact Hi].
    + unfold accepted_then_loop in H. destruct (next_state t (m_cur m) Ev_Invalid).
      * eapply ptl_msg; [exact Hi| |exact H]. intros X. discriminate X.
      * apply ret_inv in H. destruct H as (H & _ & ->). inversion H; subst. split; [apply good_nil|exact Hi].
  - eapply ptl_msg; eauto.
Qed.

(* SendEvent with an internal event and no context (Recover, callbacks) *)
Lemma send_event_none_msg m ev w m' res w' es :
  minv m -> mev m ev -> send_event tc dec t m ev None w = ((m', res), w', es) -> good es /\ minv m'.
Proof.
  intros Hi He H. unfold send_event in H.
  destruct (String.eqb ev Ev_Done).
  { apply ret_inv in H. destruct H as (H & _ & ->). inversion H; subst. split; [apply good_nil|exact Hi]. }
  destruct (next_state t (m_cur m) ev).
  2:{ apply ret_inv in H. destruct H as (H & _ & ->). inversion H; subst. split; [apply good_nil|exact Hi]. }
  eapply ptl_msg; eauto.
Qed.

Lemma recover_msg m w m' res w' es :
  minv m -> recover tc dec t m w = ((m', res), w', es) -> good es /\ minv m'.
Proof.
  intros Hi H. unfold recover in H.
  destruct (lookup_state t (m_cur m)) as [sd|] eqn:Hl.
  2:{ apply ret_inv in H. destruct H as (H & _ & ->). inversion H; subst. split; [apply good_nil|exact Hi]. }
  destruct (st_action sd) as [act|] eqn:Ha.
  2:{ apply ret_inv in H. destruct H as (H & _ & ->). inversion H; subst. split; [apply good_nil|exact Hi]. }
  destruct (st_fail_on_recover sd).
  { eapply send_event_none_msg; [exact Hi| |exact H]. intros X. discriminate X. }
  apply bind_inv in H. destruct H as ([ev' d'] & w1 & e1 & e2 & Hex & H & ->).
  destruct (minv_parts _ Hi) as (I1 & I2 & I3).
  destruct (action_fx _ _ _ _ _ _ _ _ _ Hl Ha I1 I2 I3 Hex) as (T1 & J1 & V1).
  pose proof (exec_good _ _ _ _ _ _ _ Hex T1) as G1.
  assert (Hm1 : minv (m <| m_data := d' |>)) by exact J1.
  destruct (String.eqb ev' Ev_Panic).
  { apply ret_inv in H. destruct H as (H & _ & ->). inversion H; subst. rewrite app_nil_r. auto. }
  apply bind_inv in H. destruct H as (ok & w2 & e3 & e4 & Hp & H & ->).
  pose proof (persist_good _ _ _ _ _ Hm1 Hp) as G3.
  destruct ok; cbn [negb] in H.
  2:{ apply ret_inv in H. destruct H as (H & _ & ->). inversion H; subst. rewrite app_nil_r.
      split; [apply good_app; assumption|exact Hm1]. }
  destruct (String.eqb ev' Ev_NoOp).
  { apply ret_inv in H. destruct H as (H & _ & ->). inversion H; subst. rewrite app_nil_r.
    split; [apply good_app; assumption|exact Hm1]. }
  apply send_event_none_msg in H; [|exact Hm1|].
  - destruct H as [G4 I4]. split; [repeat apply good_app; assumption|exact I4].
  - intros Hev Hs. apply V1; [exact Hev|]. revert Hs. unfold state_tree.
    change (m_cur (m <| m_data := d' |>)) with (m_cur m). rewrite Hl, Ha. auto.
Qed.

Lemma minv_opening_hex m hex : minv m -> minv (m <| m_data := (m_data m) <| d_opening_hex := hex |> |>).
Proof. intros H. exact H. Qed.

(* every entry point of the service *)
Theorem step_msg m i w o w' es :
  minv m -> msg_input_ok i = true ->
  step tc dec t terminal m i w = (o, w', es) -> good es /\ minv (o_machine o).
Proof.
  intros Hi Hin H. destruct i as [ev ctx|rq|hex err| | |]; unfold step in H.
  - apply bind_inv in H. destruct H as ([m1 res] & w1 & e1 & e2 & Hs & H & ->).
    apply ret_inv in H. destruct H as (-> & _ & ->). rewrite app_nil_r. cbn [o_machine].
    cbn [msg_input_ok] in Hin. apply andb_true_iff in Hin. destruct Hin as [H1 H2].
    eapply send_event_msg; [exact Hi| | |exact Hs].
    + intros ->. rewrite String.eqb_refl in H1. discriminate H1.
    + intros o0 ->. apply String.eqb_eq. exact H2.
  - apply bind_inv in H. destruct H as ([m1 res] & w1 & e1 & e2 & Hs & H & ->).
    apply ret_inv in H. destruct H as (-> & _ & ->). rewrite app_nil_r. cbn [o_machine].
    eapply send_event_msg; [exact Hi| | |exact Hs]; [discriminate|discriminate].
  - apply bind_inv in H. destruct H as ([m0 rem0] & w1 & e1 & e2 & H0 & H & ->).
    assert (Pre : good e1 /\ minv m0).
    { destruct err.
      - apply bind_inv in H0. destruct H0 as ([mx rx] & wx & ex & ey & Hs & H0 & ->).
        apply ret_inv in H0. destruct H0 as (H0 & _ & ->). cbn in H0. inversion H0 as [[Hm0 Hr0]]. subst m0.
        rewrite app_nil_r. eapply send_event_none_msg; [exact Hi| |exact Hs]. intros X. discriminate X.
      - apply ret_inv in H0. destruct H0 as (H0 & _ & ->). inversion H0 as [[Hm0 Hr0]]. subst m0.
        split; [apply good_nil|exact Hi]. }
    destruct Pre as [G1 I1].
    apply bind_inv in H. destruct H as ([m1 res] & w2 & e3 & e4 & Hs & H & ->).
    apply ret_inv in H. destruct H as (-> & _ & ->). rewrite app_nil_r. cbn [o_machine].
    apply send_event_none_msg in Hs; [| apply minv_opening_hex; exact I1 | intros X; discriminate X].
    destruct Hs as [G2 I2]. split; [apply good_app; assumption|exact I2].
  - apply bind_inv in H. destruct H as ([m1 res] & w1 & e1 & e2 & Hs & H & ->).
    apply ret_inv in H. destruct H as (-> & _ & ->). rewrite app_nil_r. cbn [o_machine].
    eapply send_event_none_msg; [exact Hi| |exact Hs]. intros X. discriminate X.
  - apply bind_inv in H. destruct H as ([m1 res] & w1 & e1 & e2 & Hs & H & ->).
    apply ret_inv in H. destruct H as (-> & _ & ->). rewrite app_nil_r. cbn [o_machine].
    eapply send_event_none_msg; [exact Hi| |exact Hs]. intros X. discriminate X.
  - destruct (is_finished terminal (m_cur m)).
    { apply ret_inv in H. destruct H as (-> & _ & ->). split; [apply good_nil|exact Hi]. }
    apply bind_inv in H. destruct H as ([m1 res] & w1 & e1 & e2 & Hs & H & ->).
    apply ret_inv in H. destruct H as (-> & _ & ->). rewrite app_nil_r. cbn [o_machine].
    eapply recover_msg; eauto.
Qed.

End Engine.

(* ---------- all histories ---------- *)
Lemma last_persist_in_gen tr : forall acc s d,
  fold_left (fun acc e => match e with EPersist s d true => Some (s, d) | _ => acc end) tr acc = Some (s, d) ->
  acc = Some (s, d) \/ In (EPersist s d true) tr.
Proof.
  induction tr as [|e r IH]; intros acc s d H; [left; exact H|].
  cbn [fold_left] in H. apply IH in H. destruct H as [H|H]; [|right; right; exact H].
  destruct e; try (left; exact H). destruct ok; [|left; exact H].
  inversion H; subst. right. left. reflexivity.
Qed.

Lemma service_event_msg_ok fresh ev ctx : service_event fresh ev ctx = true -> msg_input_ok (InEvent ev ctx) = true.
Proof.
  unfold service_event, msg_input_ok. intros H.
  assert (Hne : forall x, String.eqb ev x = true -> String.eqb x Ev_Succeeded = false -> String.eqb ev Ev_Succeeded = false).
  { intros x Hx Hs. apply String.eqb_eq in Hx. subst. exact Hs. }
  destruct ctx as [[r|r|a|a|o|c|c]|].
  all: repeat match type of H with
       | _ && _ = true => let h := fresh in apply andb_true_iff in H; destruct H as [h H]
       | _ || _ = true => apply orb_true_iff in H; destruct H as [H|H]
       end.
  all: try (rewrite (Hne _ H eq_refl); reflexivity).
  rewrite (Hne _ H eq_refl). cbn. exact H.
Qed.

Section Hist.
Variable tc : tl_consts.
Variable dec : string -> option (string * Z * Z).
Variable t : table.
Variable terminal : list string.
Hypothesis Hok : c22_msg_table_ok t = true.

Definition hinv (st : hstate * bool) : Prop :=
  snd st = true /\ persists_ok t (hs_trace (fst st)) /\
  (forall m, hs_machine (fst st) = Some m -> minv t m).

Lemma restore_minv m0 tr mr : persists_ok t tr -> restore m0 tr = Some mr -> minv t mr.
Proof.
  intros Hp H. unfold restore in H. destruct (last_persist tr) as [[s d]|] eqn:E; [|discriminate].
  inversion H; subst. unfold minv. cbn [m_cur m_data].
  unfold last_persist in E. apply last_persist_in_gen in E. destruct E as [E|E]; [discriminate|].
  unfold persists_ok in Hp. rewrite Forall_forall in Hp. exact (Hp _ E).
Qed.

Lemma persists_ok_firstn es k : persists_ok t es -> persists_ok t (firstn k es).
Proof.
  unfold persists_ok. revert k. induction es as [|e r IH]; intros [|k] H; cbn; try constructor.
  - inversion H; assumption.
  - apply IH. inversion H; assumption.
Qed.

Lemma input_allowed_msg_ok h m i : input_allowed h m i = true -> msg_input_ok i = true.
Proof.
  unfold input_allowed. destruct (hs_down h); [destruct i; try discriminate; reflexivity|].
  destruct i; try reflexivity. apply service_event_msg_ok.
Qed.

Lemma msg_hist_step_inv st it :
  hinv st ->
  (match hs_machine (fst st) with Some m => input_allowed (fst st) m (item_input it) | None => true end) = true ->
  hinv (msg_hist_step tc dec t terminal st it) /\
  fst (msg_hist_step tc dec t terminal st it) = hist_step tc dec t terminal (fst st) it.
Proof.
  destruct st as [h ok]. cbn [fst snd]. intros (Hk & Hp & Hm) Hin. cbn [fst snd] in *. unfold msg_hist_step, hist_step.
  destruct (hs_machine h) as [m0|] eqn:Hm0.
  2:{ cbn. split; [|reflexivity]. split; [exact Hk|]. split; [exact Hp|]. intros m X. cbn in X. try rewrite Hm0 in X. discriminate X. }
  pose proof (input_allowed_msg_ok _ _ _ Hin) as Hi.
  assert (Hm0i : minv t m0) by (apply Hm; first [reflexivity|exact Hm0]).
  destruct (is_recover (item_input it)) eqn:Hrec.
  - destruct (restore m0 (hs_trace h)) as [mr|] eqn:Hr.
    2:{ cbn. split; [|reflexivity]. split; [exact Hk|]. split; [exact Hp|]. intros m X. discriminate X. }
    pose proof (restore_minv _ _ _ Hp Hr) as Hmr.
    destruct it as [i w|i w k]; cbn [item_input] in *;
      destruct (run_step tc dec t terminal mr i w) as [[o w'] es] eqn:Hs;
      destruct (step_msg tc dec t terminal Hok mr i w o w' es Hmr Hi Hs) as [[T P] I2].
    + cbn. split; [|reflexivity]. split; [rewrite Hk, (tp_ok _ T); reflexivity|]. split.
      * apply Forall_app. split; assumption.
      * intros m X. inversion X; subst. exact I2.
    + cbn. split; [|reflexivity]. split; [rewrite Hk, (tp_ok _ T); reflexivity|].
      assert (Hp' : persists_ok t (hs_trace h ++ firstn k es)).
      { apply Forall_app. split; [exact Hp|apply persists_ok_firstn; exact P]. }
      split; [exact Hp'|]. intros m X. cbn in X. eapply restore_minv; [exact Hp'|exact X].
  - destruct it as [i w|i w k]; cbn [item_input] in *;
      destruct (run_step tc dec t terminal m0 i w) as [[o w'] es] eqn:Hs;
      destruct (step_msg tc dec t terminal Hok m0 i w o w' es Hm0i Hi Hs) as [[T P] I2].
    + cbn. split; [|reflexivity]. split; [rewrite Hk, (tp_ok _ T); reflexivity|]. split.
      * apply Forall_app. split; assumption.
      * intros m X. inversion X; subst. exact I2.
    + cbn. split; [|reflexivity]. split; [rewrite Hk, (tp_ok _ T); reflexivity|].
      assert (Hp' : persists_ok t (hs_trace h ++ firstn k es)).
      { apply Forall_app. split; [exact Hp|apply persists_ok_firstn; exact P]. }
      split; [exact Hp'|]. intros m X. cbn in X. eapply restore_minv; [exact Hp'|exact X].
Qed.

Theorem msg_hist_ok m0 its :
  minv t m0 -> hist_ok tc dec t terminal (init_hstate m0) its = true ->
  msg_hist tc dec t terminal m0 its = (run_hist tc dec t terminal (init_hstate m0) its, true).
Proof.
  intros Hm0 Hh. unfold msg_hist, run_hist.
  assert (G : forall its st, hinv st -> hist_ok tc dec t terminal (fst st) its = true ->
            hinv (fold_left (msg_hist_step tc dec t terminal) its st) /\
            fst (fold_left (msg_hist_step tc dec t terminal) its st) = fold_left (hist_step tc dec t terminal) its (fst st)).
  { clear its Hh. induction its as [|it r IH]; intros st Hst Hh; [auto|].
    cbn [fold_left]. cbn [hist_ok] in Hh.
    assert (Hin : (match hs_machine (fst st) with Some m => input_allowed (fst st) m (item_input it) | None => true end) = true).
    { destruct (hs_machine (fst st)); [|reflexivity]. apply andb_true_iff in Hh. tauto. }
    destruct (msg_hist_step_inv st it Hst Hin) as [Hst' Hf].
    assert (Hh' : hist_ok tc dec t terminal (fst (msg_hist_step tc dec t terminal st it)) r = true).
    { rewrite Hf. destruct (hs_machine (fst st)) eqn:Hm.
      - apply andb_true_iff in Hh. tauto.
      - (* no record of the swap: nothing changes any more *)
        unfold hist_step. rewrite Hm.
        clear - Hm. revert Hm. generalize (fst st). intros h Hm. destruct r as [|it2 r2]; [reflexivity|]. cbn [hist_ok]. rewrite Hm. reflexivity. }
    destruct (IH _ Hst' Hh') as [A B]. split; [exact A|]. rewrite B, Hf. reflexivity. }
  destruct (G its (init_hstate m0, true)) as [(A1 & _) A2].
  - split; [reflexivity|]. split; [constructor|]. intros m X. inversion X; subst. exact Hm0.
  - exact Hh.
  - destruct (fold_left (msg_hist_step tc dec t terminal) its (init_hstate m0, true)) as [h b]. cbn in *. subst. reflexivity.
Qed.

End Hist.

(* ---------- the makers' tables of the code ---------- *)
Lemma gen_msg_tables_ok :
  c22_msg_table_ok table_swap_out_receiver = true /\ c22_msg_table_ok table_swap_in_sender = true.
Proof. vm_compute. split; reflexivity. Qed.

Lemma fresh_minv t id ty role peer initiator privkey :
  state_may_start t "" = false -> minv t (fresh_machine id ty role peer initiator privkey).
Proof.
  intros H. unfold minv, msg_inv, fresh_machine, fresh_data. cbn [m_cur m_data]. rewrite H.
  unfold pre_state. cbn. reflexivity.
Qed.

Theorem gen_message_clause dec t id ty role peer initiator privkey its :
  t = table_swap_out_receiver \/ t = table_swap_in_sender ->
  let m0 := fresh_machine id ty role peer initiator privkey in
  hist_ok tl_consts_gen dec t terminal_states (init_hstate m0) its = true ->
  msg_hist tl_consts_gen dec t terminal_states m0 its =
    (run_hist tl_consts_gen dec t terminal_states (init_hstate m0) its, true).
Proof.
  destruct gen_msg_tables_ok as [H1 H2].
  intros [-> | ->] m0 Hh; apply msg_hist_ok; auto; apply fresh_minv; vm_compute; reflexivity.
Qed.

(* the three clauses together, for the makers' tables of the code *)
Theorem full_holds dec t id ty role peer initiator privkey its :
  t = table_swap_out_receiver \/ t = table_swap_in_sender ->
  let m0 := fresh_machine id ty role peer initiator privkey in
  hist_ok tl_consts_gen dec t terminal_states (init_hstate m0) its = true ->
  (let '(h, live, never_two) := live_hist tl_consts_gen dec t terminal_states m0 its in
   h = run_hist tl_consts_gen dec t terminal_states (init_hstate m0) its /\
   never_two = true /\
   (live = true -> exists m, hs_machine h = Some m /\ str_mem (m_cur m) (live_states t) = true)) /\
  msg_hist tl_consts_gen dec t terminal_states m0 its =
    (run_hist tl_consts_gen dec t terminal_states (init_hstate m0) its, true).
Proof.
  intros Ht m0 Hh. split.
  - apply all_histories. destruct Proofs.C22.gen_tables_ok as (_ & H2 & H3 & _). destruct Ht as [-> | ->]; assumption.
  - apply gen_message_clause; assumption.
Qed.

(* non-vacuity: a swap-in maker that gets the agreement builds the opening transaction, starts ONE
   retransmitter and hands it the opening_tx_broadcasted message *)
Definition ex_pk : string := "02aaaaaaaaaaaaaaaaaaaaaaaaaaaaaaaaaaaaaaaaaaaaaaaaaaaaaaaaaaaaaaaa".
Definition ex_rq : req := mkReq 7 "id" "regtest" "" "1x2x3" 200000 ex_pk 5000.
Definition ex_w : world :=
  mkWorld true true true 100000000 true false "" "regtest" (Some 100) ex_pk []
    [Some 1000; Some 1000] [true; true] [true; true; true; true; true; true] [] [] [] [Some "lninv"%string] [] [] [] []
    [Some (mkOpening "0200" "bb" 0)] [] [true] [] [true] [] [("aa"%string, "bb"%string)] [] false.
Definition ex_history : list hitem :=
  [HStep (InEvent "Event_SwapInSender_OnSwapInRequested" (Some (MInReq ex_rq))) ex_w;
   HStep (InEvent "Event_SwapInSender_OnAgreementReceived" (Some (MInAgr (mkInAgr 7 "id" ex_pk 100)))) ex_w].

Example ex_announce :
  let m0 := fresh_machine "id" 1 1 "peer" "me" "key" in
  hist_ok tl_consts_gen (fun _ => None) table_swap_in_sender terminal_states (init_hstate m0) ex_history = true /\
  let '(h, live, never_two) := live_hist tl_consts_gen (fun _ => None) table_swap_in_sender terminal_states m0 ex_history in
  live = true /\ never_two = true /\
  existsb is_start (hs_trace h) = true /\ retrans_msg_ok (hs_trace h) = true /\
  match hs_machine h with Some m => m_cur m | None => ""%string end = "State_SwapInSender_AwaitClaimPayment"%string.
Proof. vm_compute. repeat split; reflexivity. Qed.
