(* C12: neither side pays more than it agreed to. *)
From Coq Require Import String ZArith Bool List Lia.
From RecordUpdate Require Import RecordSet.
From PS Require Import Base.Wrap Model.Data Model.Actions Model.Fsm Model.History Model.FsmCorr
  Model.TableChecks Model.C01Corr Model.C12Corr Gen.ConstsSwap Gen.Tables
  Proofs.Monad Proofs.ExecRule Proofs.MTac Proofs.Engine Proofs.HistRule Proofs.ExecSel Proofs.GhostRule Proofs.C01.
Import ListNotations RecordSetNotations.
Open Scope Z_scope.

Strategy opaque [event_loop exec loop_fuel action_fuel pay_loop].

(* ---------- arithmetic: inside the accepted range nothing wraps ---------- *)
Lemma i64_small x : -9223372036854775808 <= x < 9223372036854775808 -> i64 x = x.
Proof.
  intros H. unfold i64, two64, two63.
  destruct (Z_lt_le_dec x 0) as [Hn|Hn].
  - replace (x mod 18446744073709551616) with (x + 18446744073709551616).
    + destruct (x + 18446744073709551616 <? 9223372036854775808) eqn:L; [apply Z.ltb_lt in L; lia|lia].
    + apply Z.mod_unique with (q := -1); lia.
  - rewrite Z.mod_small by lia. destruct (x <? 9223372036854775808) eqn:L; [reflexivity|apply Z.ltb_ge in L; lia].
Qed.

Lemma i64_big x : 9223372036854775808 <= x < 18446744073709551616 -> i64 x < 0.
Proof.
  intros H. unfold i64, two64, two63. rewrite Z.mod_small by lia.
  destruct (x <? 9223372036854775808) eqn:L; [apply Z.ltb_lt in L; lia|lia].
Qed.

(* amount is a uint64, premium an int64 (Go types) *)
Lemma in_range_exact amount premium :
  0 <= amount < 18446744073709551616 -> -9223372036854775808 <= premium < 9223372036854775808 ->
  premium_in_range amount premium = true ->
  0 <= amount + premium <= 18446744073709551 /\
  u64 (amount + premium) = amount + premium /\
  u64_mul (u64 (amount + premium)) 1000 = (amount + premium) * 1000 /\
  u64_mul amount 1000 = amount * 1000.
Proof.
  intros Ha Hp H. unfold premium_in_range in H.
  apply andb_true_iff in H. destruct H as [H H3]. apply andb_true_iff in H. destruct H as [H1 H2].
  apply negb_true_iff in H1. apply negb_true_iff in H2. apply negb_true_iff in H3.
  apply Z.ltb_ge in H1. apply Z.ltb_ge in H2. apply Z.ltb_ge in H3.
  change max_sat with 18446744073709551 in H1, H3.
  assert (E : i64 (amount + premium) = amount + premium).
  { destruct (Z_lt_le_dec (amount + premium) 9223372036854775808) as [Hs|Hb].
    - apply i64_small. lia.
    - exfalso. assert (i64 (amount + premium) < 0) by (apply i64_big; lia). lia. }
  rewrite E in H2, H3. split; [lia|].
  assert (U : u64 (amount + premium) = amount + premium) by (unfold u64, two64; apply Z.mod_small; lia).
  split; [exact U|]. rewrite U. unfold u64_mul, u64, two64. split; apply Z.mod_small; lia.
Qed.

(* ---------- CheckPremiumAmount: what "the check passed" means ---------- *)
Lemma check_premium_out d r a :
  d_in_agr d = None -> d_out_agr d = Some a -> d_out_req d = Some r ->
  check_premium d = Some true ->
  oa_premium a <= rq_limit r /\ premium_in_range (rq_amount r) (oa_premium a) = true.
Proof.
  intros H1 H2 H3. unfold check_premium. rewrite H1, H2, H3. intros H. injection H as H0.
  apply andb_true_iff in H0. destruct H0 as [Hl Hr]. split; [|exact Hr].
  apply negb_true_iff in Hl. apply Z.ltb_ge in Hl. exact Hl.
Qed.

Lemma check_premium_in d r a :
  d_in_agr d = Some a -> d_in_req d = Some r ->
  check_premium d = Some true ->
  ia_premium a <= rq_limit r /\ premium_in_range (rq_amount r) (ia_premium a) = true.
Proof.
  intros H1 H2. unfold check_premium. rewrite H1, H2. intros H. injection H as H0.
  apply andb_true_iff in H0. destruct H0 as [Hl Hr]. split; [|exact Hr].
  apply negb_true_iff in Hl. apply Z.ltb_ge in Hl. exact Hl.
Qed.

(* the wrapped action runs (anything at all happens) only when the check passed *)
Lemma check_premium_guards tc dec fuel ch d w r w' es :
  exec tc dec (S fuel) (ANode "CheckPremiumAmount" ch) d w = (r, w', es) ->
  check_premium d = Some true \/ (es = [] /\ snd r = d /\ (fst r = Ev_Failed \/ fst r = Ev_Panic)).
Proof.
  intros H. rewrite exec_S in H. cbv zeta in H.
  change (String.eqb "CheckPremiumAmount" "CheckRequestWrapperAction") with false in H.
  change (String.eqb "CheckPremiumAmount" "SetBlindingKeyActionWrapper") with false in H.
  change (String.eqb "CheckPremiumAmount" "StopSendMessageWithRetryWrapperAction") with false in H.
  change (String.eqb "CheckPremiumAmount" "CheckPremiumAmount") with true in H. cbv iota in H.
  destruct (check_premium d) as [[|]|]; [left; reflexivity| |]; right;
    apply ret_inv in H; destruct H as (-> & _ & ->); cbn; auto.
Qed.

(* ---------- (ii) swap-out initiator: the claim invoice it pays ---------- *)
(* from C01: the invoice paid has msat = GetClaimAmount()*1000 (mod 2^64); when the premium check
   holds of the durable record this is (amount+premium)*1000 as INTEGERS with premium <= limit *)
Lemma claim_exact lp r a :
  d_in_req lp = None -> d_in_agr lp = None -> d_out_req lp = Some r -> d_out_agr lp = Some a ->
  0 <= rq_amount r < 18446744073709551616 -> -9223372036854775808 <= oa_premium a < 9223372036854775808 ->
  check_premium lp = Some true ->
  exists claim, get_claim_amount lp = Some claim /\
    (claim * 1000) mod 18446744073709551616 = (rq_amount r + oa_premium a) * 1000 /\
    0 <= rq_amount r + oa_premium a /\ oa_premium a <= rq_limit r.
Proof.
  intros H1 H2 H3 H4 Ha Hp Hc.
  destruct (check_premium_out lp r a H2 H4 H3 Hc) as [Hl Hr].
  destruct (in_range_exact _ _ Ha Hp Hr) as (Hb & Hu & Hm & _).
  exists (u64 (rq_amount r + oa_premium a)). split.
  - unfold get_claim_amount. rewrite H1, H3, H4. reflexivity.
  - split; [exact Hm|]. split; [lia|exact Hl].
Qed.

(* ---------- (iv) the responder's agreement carries the configured premium ---------- *)
(* pop_premium is `ask w_premium`: the premium put into the agreement is the world's answer of
   premium.Setting.Compute (w_premium is configuration: no action changes it) *)
Lemma world_premium_const {A} (get : world -> list A) put (dflt : A)
  (Hput : forall r w, w_premium (put r w) = w_premium w) w a w' es :
  pop get put dflt w = (a, w', es) -> w_premium w' = w_premium w.
Proof.
  unfold pop. destruct (get w); intros H; inversion H; subst; [reflexivity|apply Hput].
Qed.

Lemma receiver_init_premium tc d w ev d' w' es :
  act_swap_in_receiver_init tc d w = ((ev, d'), w', es) -> ev = Ev_Succeeded ->
  exists a, d_in_agr d' = Some a /\ w_premium w = Some (ia_premium a) /\ d_next_msg d' = Some (MInAgr a).
Proof.
  intros H Hev. unfold act_swap_in_receiver_init, set_anchor in H.
  destruct (negb (is_lbtc_v7 tc d)).
  - msym; try discriminate. eexists. cbn. split; [reflexivity|]. split; [|reflexivity]. cbn. congruence.
  - apply bind_inv in H. destruct H as (a0 & w1 & e1 & e2 & Hp & H & ->).
    apply bind_inv in Hp. destruct Hp as (h & w0 & e3 & e4 & Hh & Hp & ->).
    assert (Hw0 : w_premium w0 = w_premium w).
    { unfold pop_height in Hh. eapply world_premium_const; [|exact Hh]. intros r0 w2. reflexivity. }
    assert (Hw1 : w_premium w1 = w_premium w).
    { destruct h; apply ret_inv in Hp; destruct Hp as (_ & -> & _); exact Hw0. }
    destruct a0 as [d1|]; [|msym; discriminate].
    msym; try discriminate. eexists. cbn. split; [reflexivity|]. split; [|reflexivity]. cbn. congruence.
Qed.

(* ---------- (ii) over all histories: the claim invoice a swap-out initiator pays ---------- *)
Lemma spec_pay_invoice dec t lp y payreq scid mx tip res :
  c01_spec_pb dec t lp y (EPayClaim payreq scid mx tip res) = true ->
  exists h ms cl claim, dec payreq = Some (h, ms, cl) /\ get_claim_amount lp = Some claim /\
    ms = (claim * 1000) mod 18446744073709551616.
Proof.
  cbn [c01_spec_pb]. destruct (d_otb lp) as [o|]; [|discriminate].
  intros H. repeat (apply andb_true_iff in H; destruct H as [H ?]).
  match goal with X : c01_spec_invoice _ _ _ = true |- _ => unfold c01_spec_invoice in X; rename X into Hi end.
  destruct (dec payreq) as [[[h ms] cl]|]; [|discriminate].
  destruct (get_claim_amount lp) as [claim|]; [|discriminate].
  repeat (apply andb_true_iff in Hi; destruct Hi as [Hi ?]).
  exists h, ms, cl, claim. repeat split; auto. apply Z.eqb_eq. assumption.
Qed.

(* PARTIAL: the premise `check_premium lp = Some true` (the durable record passed CheckPremiumAmount,
   which the generated swap-out table runs in State_SwapOutSender_PayFeeInvoice before any payment)
   is a hypothesis here; that this state dominates the paying state is not proved over all
   histories (checked by the monitor on every observed scenario). *)
Theorem claim_invoice_exact_partial dec t terminal m0 its :
  (forall p h m c, dec p = Some (h, m, c) -> h <> EmptyString) ->
  c01_table_ok t = true -> m_cur m0 = EmptyString ->
  hist_ok tl_consts_gen dec t terminal (init_hstate m0) its = true ->
  forall pre post payreq scid mx tip res,
    hs_trace (run_hist tl_consts_gen dec t terminal (init_hstate m0) its) = (pre ++ EPayClaim payreq scid mx tip res :: post)%list ->
    let lp := lp_end (m_data m0) pre in
    forall r a,
    d_in_req lp = None -> d_in_agr lp = None -> d_out_req lp = Some r -> d_out_agr lp = Some a ->
    0 <= rq_amount r < 18446744073709551616 -> -9223372036854775808 <= oa_premium a < 9223372036854775808 ->
    check_premium lp = Some true ->
    exists h ms cl, dec payreq = Some (h, ms, cl) /\
      ms = (rq_amount r + oa_premium a) * 1000 /\ 0 <= rq_amount r + oa_premium a /\
      oa_premium a <= rq_limit r /\ ms <= (rq_amount r + rq_limit r) * 1000.
Proof.
  intros Hh Ht H0 Hok pre post payreq scid mx tip res Htr lp r a H1 H2 H3 H4 Ha Hp Hc.
  pose proof (c01_every_payment dec t terminal m0 its Hh Ht H0 Hok pre post payreq scid mx tip res Htr) as Hs.
  destruct (spec_pay_invoice _ _ _ _ _ _ _ _ _ Hs) as (h & ms & cl & claim & Hd & Hcl & Hms).
  fold lp in Hcl.
  destruct (claim_exact lp r a H1 H2 H3 H4 Ha Hp Hc) as (claim' & Hcl' & Hex & Hnn & Hle).
  rewrite Hcl in Hcl'. inversion Hcl'; subst claim'.
  exists h, ms, cl. split; [exact Hd|]. split; [congruence|]. split; [exact Hnn|]. split; [exact Hle|].
  rewrite Hms, Hex. lia.
Qed.

(* swap-in responder: the claim invoice it pays asks for exactly the requested amount *)
Theorem responder_claim_exact dec t terminal m0 its :
  (forall p h m c, dec p = Some (h, m, c) -> h <> EmptyString) ->
  c01_table_ok t = true -> m_cur m0 = EmptyString ->
  hist_ok tl_consts_gen dec t terminal (init_hstate m0) its = true ->
  forall pre post payreq scid mx tip res,
    hs_trace (run_hist tl_consts_gen dec t terminal (init_hstate m0) its) = (pre ++ EPayClaim payreq scid mx tip res :: post)%list ->
    let lp := lp_end (m_data m0) pre in
    forall r, d_in_req lp = Some r -> 0 <= rq_amount r <= 18446744073709551 ->
    exists h ms cl, dec payreq = Some (h, ms, cl) /\ ms = rq_amount r * 1000.
Proof.
  intros Hh Ht H0 Hok pre post payreq scid mx tip res Htr lp r Hr Ha.
  pose proof (c01_every_payment dec t terminal m0 its Hh Ht H0 Hok pre post payreq scid mx tip res Htr) as Hs.
  destruct (spec_pay_invoice _ _ _ _ _ _ _ _ _ Hs) as (h & ms & cl & claim & Hd & Hcl & Hms).
  fold lp in Hcl. unfold get_claim_amount in Hcl. rewrite Hr in Hcl. inversion Hcl; subst claim.
  exists h, ms, cl. split; [exact Hd|]. rewrite Hms. apply Z.mod_small. lia.
Qed.
