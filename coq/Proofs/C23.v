(* C23: what a node sends.  Every message handed to the messenger is, relative to the last
   durable record, a bare cancel or the record's pending message, which is one of the record's
   own protocol messages or the coop_close built from the record's key; tables without
   TakerSendPrivkeyAction never send a coop_close; where the own messages' fields come from. *)
From Coq Require Import String ZArith Bool List Lia.
From RecordUpdate Require Import RecordSet.
From PS Require Import Base.Wrap Base.Corr Model.Data Model.Actions Model.Fsm Model.History Model.Eqb Model.FsmCorr
  Model.C23Corr Gen.ConstsSwap Gen.Tables
  Proofs.Monad Proofs.ExecRule Proofs.ExecRuleNamed Proofs.MTac Proofs.Frame Proofs.Engine Proofs.HistRule Proofs.EngineRel.
Import ListNotations RecordSetNotations.
Open Scope Z_scope.

Strategy opaque [event_loop exec loop_fuel action_fuel pay_loop].

(* ---------- the record's own messages ---------- *)
Definition own_msg (d : swap_data) (m : wire_msg) : Prop :=
  match m with
  | MInReq r => d_in_req d = Some r
  | MOutReq r => d_out_req d = Some r
  | MInAgr a => d_in_agr d = Some a
  | MOutAgr a => d_out_agr d = Some a
  | MOtb o => d_otb d = Some o
  | MCoop c => cc_privkey c = d_privkey d /\ cc_message c = EmptyString /\
               (get_request d <> None -> cc_id c = sid d)
  | MCancel _ => False
  end.

Definition pend_wf (d : swap_data) : Prop := forall m, d_next_msg d = Some m -> own_msg d m.

Definition bare_cancel (d : swap_data) : wire_msg := MCancel (mkCancel (sid d) EmptyString).

(* local: what one action execution on data d may hand to the messenger *)
Definition G (d : swap_data) (e : effect) : Prop :=
  match e with
  | ESend p m => p = d_peer d /\ (m = bare_cancel d \/ d_next_msg d = Some m)
  | _ => True
  end.

Definition Q (d : swap_data) (r : string * swap_data) (es : list effect) : Prop :=
  Forall (fun e => G d e /\ not_persist e) es /\ (pend_wf d -> pend_wf (snd r)).

Lemma Q_same d ev : Q d (ev, d) [].
Proof. split; [constructor|auto]. Qed.

Ltac own_unfold := unfold pend_wf, own_msg, sid, get_id, get_request in *.

Lemma pay_loop_Q n : forall csvh pol payreq d w r w' es,
  pay_loop n csvh pol payreq d w = (r, w', es) -> Q d r es.
Proof.
  induction n as [|n IH]; intros csvh pol payreq d w r w' es H.
  - rewrite pay_loop_O in H. msym. apply Q_same.
  - rewrite pay_loop_S in H. msym; list_simpl; try apply Q_same.
    + split; [repeat constructor|]. intros Hp m Hm. specialize (Hp m Hm). destruct m; exact Hp.
    + destruct (IH _ _ _ _ _ _ _ _ H) as [F Hp]. split; [|exact Hp].
      constructor; [split; exact Logic.I|exact F].
Qed.

Section C23.
Variable tc : tl_consts.
Variable dec : string -> option (string * Z * Z).

Ltac pend_step :=
  let Hp := fresh "Hp" in let m := fresh "m" in let Hm := fresh "Hm" in
  intros Hp m Hm; cbn in Hm;
  first [ inversion Hm; subst; cbn; auto; fail
        | specialize (Hp m Hm); destruct m; cbn in *; auto ].

Ltac g_tac :=
  repeat (first [ apply Forall_nil
                | apply Forall_cons;
                  [ split; [cbn; first [exact Logic.I | split; [reflexivity | first [right; assumption | left; reflexivity]]]
                           | exact Logic.I ] | ] ]).

Lemma leaf_Q name f : In (name, f) (leaf_actions tc dec) ->
  forall d w r w' es, f d w = (r, w', es) -> Q d r es.
Proof.
  intros Hin d w r w' es H. leaf_cases Hin.
  all: autounfold with actions in H; msym; list_simpl.
  all: try apply Q_same.
  all: try (eapply pay_loop_Q; eauto; fail).
  all: try (match goal with Hpl : pay_loop _ _ _ _ _ _ = _ |- _ =>
              apply pay_loop_Q in Hpl; destruct Hpl as [Fp Hpp]; split;
              [constructor; [split; exact Logic.I|exact Fp]|exact Hpp] end).
  all: split; [g_tac|].
  all: try (pend_step; fail).
Qed.

Lemma G_blinding d k e : G (d <| d_blinding_hex := k |>) e <-> G d e.
Proof. destruct e; try tauto; destruct d; cbn; tauto. Qed.

Lemma own_msg_blinding d k m : own_msg (d <| d_blinding_hex := k |>) m <-> own_msg d m.
Proof. destruct m; destruct d; cbn; tauto. Qed.

Lemma pend_wf_blinding d k : pend_wf (d <| d_blinding_hex := k |>) <-> pend_wf d.
Proof.
  unfold pend_wf. split; intros H m Hm.
  - apply (own_msg_blinding d k). apply H. destruct d; exact Hm.
  - apply own_msg_blinding. apply H. destruct d; exact Hm.
Qed.

Theorem exec_Q fuel a d w r w' es : exec tc dec fuel a d w = (r, w', es) -> Q d r es.
Proof.
  apply (exec_rule tc dec Q).
  - intros. eapply leaf_Q; eauto.
  - intros. apply Q_same.
  - intros. split; [repeat constructor|auto].
  - intros. apply Q_same.
  - intros d0 k r0 es0 _ [F Hp]. split.
    + eapply Forall_impl; [|exact F]. cbn. intros e [He Hn]. split; [|exact Hn]. apply (G_blinding d0 k). exact He.
    + intros H0. apply Hp. apply pend_wf_blinding. exact H0.
  - intros d0 r0 es0 [F Hp]. split; [constructor; [split; exact Logic.I|exact F]|exact Hp].
  - intros. apply Q_same.
  - auto.
  - intros d0 r0 es0 [F Hp]. split; [constructor; [split; exact Logic.I|exact F]|exact Hp].
Qed.

(* ---------- invariant and effect predicate over the engine ---------- *)
Definition rec_inv (s : string) (d : swap_data) : Prop :=
  (s = EmptyString -> d_next_msg d = None) /\ pend_wf d.

Definition Inv (m : machine) : Prop := rec_inv (m_cur m) (m_data m).

(* relative to the last durable record lp *)
Definition Pg (lp : swap_data) (e : effect) : Prop :=
  match e with
  | ESend p m => p = d_peer lp /\ (m = bare_cancel lp \/ (d_next_msg lp = Some m /\ own_msg lp m))
  | EPersist s d _ => rec_inv s d
  | _ => True
  end.

Lemma own_msg_fsm_state d s m : own_msg (d <| d_fsm_state := s |>) m <-> own_msg d m.
Proof. destruct m; destruct d; cbn; tauto. Qed.

Lemma pend_wf_fsm_state d s : pend_wf (d <| d_fsm_state := s |>) <-> pend_wf d.
Proof.
  unfold pend_wf. split; intros H m Hm.
  - apply (own_msg_fsm_state d s). apply H. destruct d; exact Hm.
  - apply own_msg_fsm_state. apply H. destruct d; exact Hm.
Qed.

Lemma exec_Pg fuel a d0 w ev' d' w' es :
  pend_wf d0 -> exec tc dec fuel a d0 w = ((ev', d'), w', es) ->
  Forall (fun e => Pg d0 e /\ not_persist e) es /\ pend_wf d'.
Proof.
  intros Hp H. destruct (exec_Q _ _ _ _ _ _ _ H) as [F Hp']. split; [|auto].
  eapply Forall_impl; [|exact F]. cbn. intros e [He Hn]. split; [|exact Hn].
  destruct e; try exact Logic.I; try contradiction.
  cbn in He. destruct He as [A [B|B]]; cbn; auto.
Qed.

Section Table.
Variable t : table.
Variable terminal : list string.
(* the default state is never a transition target and has no action *)
Definition tbl_default_ok : bool :=
  match lookup_state t "" with
  | Some sd => match st_action sd with None => true | Some _ => false end
  | None => true
  end &&
  forallb (fun x : string * state_def =>
     forallb (fun y : string * string => negb (String.eqb (snd y) "")) (st_events (snd x))) t.
Hypothesis Htbl : tbl_default_ok = true.

Lemma default_next cur ev nxt : next_state t cur ev = Some nxt -> nxt <> EmptyString.
Proof.
  intros Hn. unfold tbl_default_ok in Htbl. apply andb_true_iff in Htbl. destruct Htbl as [_ Hall].
  unfold next_state in Hn. destruct (lookup_state t cur) as [sdc|] eqn:Hc; [|discriminate].
  apply assoc_str_in in Hc. apply assoc_str_in in Hn.
  rewrite forallb_forall in Hall. specialize (Hall _ Hc). cbn [snd] in Hall.
  rewrite forallb_forall in Hall. specialize (Hall _ Hn). cbn [snd] in Hall.
  intros ->. discriminate.
Qed.

Lemma default_recover cur sd act : lookup_state t cur = Some sd -> st_action sd = Some act -> cur <> EmptyString.
Proof.
  intros Hl Ha ->. unfold tbl_default_ok in Htbl. apply andb_true_iff in Htbl. destruct Htbl as [Hd _].
  rewrite Hl, Ha in Hd. discriminate.
Qed.

Definition Tr (_ _ : swap_data) : Prop := True.
Definition Te (_ : machine) (_ : string) : Prop := True.

Lemma c23_act_rule :
  forall m1 ev nxt sd act, Inv m1 -> Te m1 ev ->
    next_state t (m_cur m1) ev = Some nxt -> lookup_state t nxt = Some sd -> st_action sd = Some act ->
    forall w1 ev' d' w2 es1,
      exec tc dec action_fuel act (m_data (enter m1 nxt)) w1 = ((ev', d'), w2, es1) ->
      Forall (fun e => Pg (m_data m1) e /\ not_persist e) es1 /\
      Inv ((enter m1 nxt) <| m_data := d' |>) /\ Te ((enter m1 nxt) <| m_data := d' |>) ev' /\ Tr (m_data m1) d'.
Proof.
  intros m1 ev nxt sd act HI _ Hn Hl Ha w1 ev' d' w2 es1 Hex.
  assert (Hp0 : pend_wf (m_data (enter m1 nxt))) by (cbn; apply pend_wf_fsm_state; exact (proj2 HI)).
  destruct (exec_Pg _ _ _ _ _ _ _ _ Hp0 Hex) as [F Hp'].
  split; [|split; [|split; exact Logic.I]].
  - eapply Forall_impl; [|exact F]. cbn. intros e [He Hnp]. split; [|exact Hnp].
    destruct e; try exact Logic.I; try contradiction.
    cbn in He. destruct He as [A [B|[B C]]]; cbn.
    + split; [destruct (m_data m1); exact A|left; destruct (m_data m1); exact B].
    + split; [destruct (m_data m1); exact A|right]. split; [destruct (m_data m1); exact B|].
      apply (own_msg_fsm_state (m_data m1) nxt). exact C.
  - split; [|exact Hp']. cbn. intros Hx. exfalso. eapply default_next; eauto.
Qed.

Lemma c23_recover_rule :
  forall m1 sd act, Inv m1 -> lookup_state t (m_cur m1) = Some sd -> st_action sd = Some act ->
    (st_fail_on_recover sd = true -> Te m1 Ev_Failed) /\
    (st_fail_on_recover sd = false ->
     forall w1 ev' d' w2 es1,
       exec tc dec action_fuel act (m_data m1) w1 = ((ev', d'), w2, es1) ->
       Forall (fun e => Pg (m_data m1) e /\ not_persist e) es1 /\
       Inv (m1 <| m_data := d' |>) /\ Te (m1 <| m_data := d' |>) ev' /\ Tr (m_data m1) d').
Proof.
  intros m1 sd act HI Hl Ha. split; [intros; exact Logic.I|]. intros Hf w1 ev' d' w2 es1 Hex.
  destruct (exec_Pg _ _ _ _ _ _ _ _ (proj2 HI) Hex) as [F Hp'].
  split; [exact F|split; [|split; exact Logic.I]].
  split; [|exact Hp']. cbn. intros Hx. exfalso. eapply default_recover; eauto.
Qed.

Lemma c23_persist (m1 : machine) lp1 ok : Inv m1 -> Tr lp1 (m_data m1) -> Pg lp1 (EPersist (m_cur m1) (m_data m1) ok).
Proof. intros HI _. exact HI. Qed.

Lemma next_msg_in_req (d : swap_data) x : d_next_msg (d <| d_in_req := x |>) = d_next_msg d.
Proof. destruct d; reflexivity. Qed.
Lemma next_msg_out_req (d : swap_data) x : d_next_msg (d <| d_out_req := x |>) = d_next_msg d.
Proof. destruct d; reflexivity. Qed.
Lemma next_msg_in_agr (d : swap_data) x : d_next_msg (d <| d_in_agr := x |>) = d_next_msg d.
Proof. destruct d; reflexivity. Qed.
Lemma next_msg_out_agr (d : swap_data) x : d_next_msg (d <| d_out_agr := x |>) = d_next_msg d.
Proof. destruct d; reflexivity. Qed.
Lemma next_msg_otb (d : swap_data) x : d_next_msg (d <| d_otb := x |>) = d_next_msg d.
Proof. destruct d; reflexivity. Qed.
Lemma next_msg_coop (d : swap_data) x : d_next_msg (d <| d_coop := x |>) = d_next_msg d.
Proof. destruct d; reflexivity. Qed.
Lemma next_msg_cancel (d : swap_data) x : d_next_msg (d <| d_cancel := x |>) = d_next_msg d.
Proof. destruct d; reflexivity. Qed.
Lemma next_msg_opening_hex (d : swap_data) x : d_next_msg (d <| d_opening_hex := x |>) = d_next_msg d.
Proof. destruct d; reflexivity. Qed.

(* a peer's message is stored only into an empty slot: the record's own messages stay its own *)
Lemma own_msg_in_agr d a m : d_in_agr d = None -> own_msg d m -> own_msg (d <| d_in_agr := Some a |>) m.
Proof.
  intros Hn H. destruct m; destruct d; cbn in *; try congruence; auto.
  destruct H as (A1 & A2 & A3). repeat split; auto.
  unfold sid, get_id, get_request in *. cbn in *.
  destruct d_in_req; [exact A3|]. destruct d_out_req; [exact A3|]. intros Hx. exfalso. apply Hx. reflexivity.
Qed.
Lemma own_msg_out_agr d a m : d_out_agr d = None -> own_msg d m -> own_msg (d <| d_out_agr := Some a |>) m.
Proof.
  intros Hn H. destruct m; destruct d; cbn in *; try congruence; auto.
  destruct H as (A1 & A2 & A3). repeat split; auto.
  unfold sid, get_id, get_request in *. cbn in *.
  destruct d_in_req; [exact A3|]. destruct d_out_req; [exact A3|]. intros Hx. exfalso. apply Hx. reflexivity.
Qed.
Lemma own_msg_otb d o m : d_otb d = None -> own_msg d m -> own_msg (d <| d_otb := Some o |>) m.
Proof. intros Hn H. destruct m; destruct d; cbn in *; try congruence; auto. Qed.
Lemma own_msg_coop d c m : own_msg d m -> own_msg (d <| d_coop := c |>) m.
Proof. intros H. destruct m; destruct d; cbn in *; auto. Qed.
Lemma own_msg_cancel d c m : own_msg d m -> own_msg (d <| d_cancel := c |>) m.
Proof. intros H. destruct m; destruct d; cbn in *; auto. Qed.
Lemma own_msg_opening_hex d x m : own_msg d m -> own_msg (d <| d_opening_hex := x |>) m.
Proof. intros H. destruct m; destruct d; cbn in *; auto. Qed.

Lemma c23_allowed_ok h m i : Inv m -> input_allowed h m i = true -> input_ok_rel Inv Tr Te m i.
Proof.
  intros [Hfresh Hp] Hal. unfold input_allowed in Hal.
  destruct (hs_down h).
  { destruct i; try discriminate. exact Logic.I. }
  assert (Hreq : String.eqb (m_cur m) EmptyString = true ->
            forall d', d_next_msg d' = d_next_msg (m_data m) ->
            Inv (m <| m_data := d' |>) /\ Te (m <| m_data := d' |>) EmptyString /\ Tr (m_data m) d').
  { intros Hc d' Hm. apply String.eqb_eq in Hc. pose proof (Hfresh Hc) as Hn.
    split; [split|split; exact Logic.I].
    - cbn. intros _. congruence.
    - cbn. intros msg Hx. rewrite Hm, Hn in Hx. discriminate. }
  assert (Hupd : forall (m1 : machine) d', Inv m1 -> d_next_msg d' = d_next_msg (m_data m1) ->
            (forall msg, own_msg (m_data m1) msg -> own_msg d' msg) ->
            Inv (m1 <| m_data := d' |>) /\ Te (m1 <| m_data := d' |>) EmptyString /\ Tr (m_data m1) d').
  { intros m1 d' [Hf1 Hp1] Hm Ho. split; [split|split; exact Logic.I]; cbn.
    - intros Hc. rewrite Hm. auto.
    - intros msg Hx. rewrite Hm in Hx. apply Ho. apply Hp1. exact Hx. }
  assert (HI : Inv m) by (split; assumption).
  destruct i as [ev ctx|rq|hex err| | |]; cbn [input_ok_rel]; try exact Logic.I.
  - destruct ctx as [c|]; cbn [ctx_ok_rel]; [|exact Logic.I]. split; [exact Logic.I|].
    intros d' _ Hap. unfold service_event in Hal.
    destruct c; cbn [apply_ctx] in Hap.
    + destruct (d_in_req (m_data m)) eqn:Ex; [discriminate|]. inversion Hap; subst d'.
      apply andb_true_iff in Hal. destruct Hal as [Hc _].
      destruct (Hreq Hc _ (next_msg_in_req (m_data m) (Some r))) as (A & _ & _). split; [exact A|split; exact Logic.I].
    + destruct (d_out_req (m_data m)) eqn:Ex; [discriminate|]. inversion Hap; subst d'.
      apply andb_true_iff in Hal. destruct Hal as [Hc _].
      destruct (Hreq Hc _ (next_msg_out_req (m_data m) (Some r))) as (A & _ & _). split; [exact A|split; exact Logic.I].
    + destruct (d_in_agr (m_data m)) eqn:Ex; [discriminate|]. inversion Hap; subst d'.
      destruct (Hupd m _ HI (next_msg_in_agr (m_data m) (Some a))) as (A & _ & _);
        [intros msg; apply own_msg_in_agr; exact Ex|]. split; [exact A|split; exact Logic.I].
    + destruct (d_out_agr (m_data m)) eqn:Ex; [discriminate|]. inversion Hap; subst d'.
      destruct (Hupd m _ HI (next_msg_out_agr (m_data m) (Some a))) as (A & _ & _);
        [intros msg; apply own_msg_out_agr; exact Ex|]. split; [exact A|split; exact Logic.I].
    + destruct (d_otb (m_data m)) eqn:Ex; [discriminate|]. inversion Hap; subst d'.
      destruct (Hupd m _ HI (next_msg_otb (m_data m) (Some o))) as (A & _ & _);
        [intros msg; apply own_msg_otb; exact Ex|]. split; [exact A|split; exact Logic.I].
    + destruct (d_coop (m_data m)) eqn:Ex; [discriminate|]. inversion Hap; subst d'.
      destruct (Hupd m _ HI (next_msg_coop (m_data m) (Some c))) as (A & _ & _);
        [intros msg; apply own_msg_coop|]. split; [exact A|split; exact Logic.I].
    + inversion Hap; subst d'.
      destruct (Hupd m _ HI (next_msg_cancel (m_data m) (Some c))) as (A & _ & _);
        [intros msg; apply own_msg_cancel|]. split; [exact A|split; exact Logic.I].
  - cbn [ctx_ok_rel]. split; [exact Logic.I|]. intros d' _ Hap. cbn [apply_ctx] in Hap.
    destruct (d_in_req (m_data m)); [discriminate|]. inversion Hap; subst d'.
    destruct (Hreq Hal _ (next_msg_in_req (m_data m) (Some rq))) as (A & _ & _).
    split; [exact A|split; exact Logic.I].
  - split; [intros; exact Logic.I|]. intros m0 HI0 _.
    destruct (Hupd m0 _ HI0 (next_msg_opening_hex (m_data m0) hex)) as (A & _ & _);
      [intros msg; apply own_msg_opening_hex|]. split; [exact A|split; exact Logic.I].
Qed.

Lemma c23_restore_ok (m : machine) s d lp : Pg lp (EPersist s d true) ->
  Inv (m <| m_cur := s |> <| m_prev := EmptyString |> <| m_data := d |> <| m_retries := 0 |>).
Proof. intros H. exact H. Qed.

Theorem hist_c23 m0 its :
  Inv m0 -> hist_ok tc dec t terminal (init_hstate m0) its = true ->
  trace_ok Pg (m_data m0) (hs_trace (run_hist tc dec t terminal (init_hstate m0) its)).
Proof.
  intros HI Hok.
  refine (hist_rel tc dec t terminal Inv Tr Pg Te _ _ _ _ c23_persist c23_act_rule c23_recover_rule
            c23_allowed_ok c23_restore_ok m0 its HI Hok).
  - intros; exact Logic.I.
  - intros; exact Logic.I.
  - intros m r H; exact H.
  - intros; exact Logic.I.
Qed.

End Table.
End C23.

(* ---------- the boolean form used by the monitors ---------- *)
Lemma req_eqb_refl r : req_eqb r r = true.
Proof. unfold req_eqb, seq. rewrite !Z.eqb_refl, !String.eqb_refl. reflexivity. Qed.
Lemma in_agr_eqb_refl a : in_agr_eqb a a = true.
Proof. unfold in_agr_eqb, seq. rewrite !Z.eqb_refl, !String.eqb_refl. reflexivity. Qed.
Lemma out_agr_eqb_refl a : out_agr_eqb a a = true.
Proof. unfold out_agr_eqb, seq. rewrite !Z.eqb_refl, !String.eqb_refl. reflexivity. Qed.
Lemma otb_eqb_refl a : otb_eqb a a = true.
Proof. unfold otb_eqb, seq. rewrite !Z.eqb_refl, !String.eqb_refl. reflexivity. Qed.
Lemma coop_eqb_refl a : coop_eqb a a = true.
Proof. unfold coop_eqb, seq. rewrite !String.eqb_refl. reflexivity. Qed.
Lemma cancel_eqb_refl a : cancel_eqb a a = true.
Proof. unfold cancel_eqb, seq. rewrite !String.eqb_refl. reflexivity. Qed.
Lemma wire_eqb_refl m : wire_eqb m m = true.
Proof.
  destruct m; cbn; auto using req_eqb_refl, in_agr_eqb_refl, out_agr_eqb_refl, otb_eqb_refl, coop_eqb_refl, cancel_eqb_refl.
Qed.

Lemma own_msg_b d m : own_msg d m -> own_msgb d m = true.
Proof.
  destruct m; cbn; intros H; try (rewrite H; cbn;
    auto using req_eqb_refl, in_agr_eqb_refl, out_agr_eqb_refl, otb_eqb_refl; fail); try contradiction.
  destruct H as (A & B & C). rewrite A, B, !String.eqb_refl. cbn.
  destruct (get_request d) eqn:Hr; [|reflexivity]. rewrite C by discriminate. apply String.eqb_refl.
Qed.

Lemma Pg_guard lp e : Pg lp e -> c23_guard lp e = true.
Proof.
  destruct e; try reflexivity. cbn. intros [A [B|[B C]]]; subst.
  - rewrite String.eqb_refl. unfold bare_cancel. rewrite wire_eqb_refl. reflexivity.
  - rewrite String.eqb_refl, B. cbn. rewrite wire_eqb_refl, (own_msg_b _ _ C), orb_true_r. reflexivity.
Qed.

Theorem hist_c23_b tc dec t terminal m0 its :
  tbl_default_ok t = true -> Inv m0 -> hist_ok tc dec t terminal (init_hstate m0) its = true ->
  trace_okb c23_guard (m_data m0) (hs_trace (run_hist tc dec t terminal (init_hstate m0) its)) = true.
Proof.
  intros Ht HI Hok. apply trace_okb_ok.
  pose proof (hist_c23 tc dec t terminal Ht m0 its HI Hok) as H. revert H.
  generalize (hs_trace (run_hist tc dec t terminal (init_hstate m0) its)). generalize (m_data m0).
  intros lp l. revert lp. induction l as [|e r IH]; intros lp; cbn; auto.
  intros [A B]. split; [apply Pg_guard; exact A|auto].
Qed.

Lemma all_tables_default_ok :
  tbl_default_ok table_swap_out_sender = true /\ tbl_default_ok table_swap_in_receiver = true /\
  tbl_default_ok table_swap_in_sender = true /\ tbl_default_ok table_swap_out_receiver = true.
Proof. repeat split; vm_compute; reflexivity. Qed.

Definition gen_table (t : table) : Prop :=
  t = table_swap_out_sender \/ t = table_swap_in_receiver \/ t = table_swap_in_sender \/ t = table_swap_out_receiver.

Lemma fresh_inv id ty role peer init priv : Inv (fresh_machine id ty role peer init priv).
Proof. split; cbn; [auto|]. intros m H. discriminate. Qed.

Theorem hist_c23_gen dec t terminal id ty role peer init priv its :
  gen_table t ->
  let m0 := fresh_machine id ty role peer init priv in
  hist_ok tl_consts_gen dec t terminal (init_hstate m0) its = true ->
  trace_okb c23_guard (m_data m0) (hs_trace (run_hist tl_consts_gen dec t terminal (init_hstate m0) its)) = true.
Proof.
  intros Ht m0 Hok. apply hist_c23_b; auto; [|apply fresh_inv].
  destruct all_tables_default_ok as (A & B & C & D). destruct Ht as [-> | [-> | [-> | ->]]]; assumption.
Qed.

(* ---------- coop_close (the only message that carries the key) is built by one action ---------- *)
Definition not_privkey_action (name : string) : bool := negb (String.eqb name "TakerSendPrivkeyAction").
Definition no_coop (d : swap_data) : Prop := forall c, d_next_msg d <> Some (MCoop c).
Definition Qnc (d : swap_data) (r : string * swap_data) (es : list effect) : Prop := no_coop d -> no_coop (snd r).

Lemma pay_loop_nc n : forall csvh pol payreq d w r w' es,
  pay_loop n csvh pol payreq d w = (r, w', es) -> Qnc d r es.
Proof.
  induction n as [|n IH]; intros csvh pol payreq d w r w' es H.
  - rewrite pay_loop_O in H. msym. intros Hn; exact Hn.
  - rewrite pay_loop_S in H. msym; try (intros Hn; exact Hn); try (exact (IH _ _ _ _ _ _ _ _ H)).
Qed.

Lemma leaf_nc tc dec name f : In (name, f) (leaf_actions tc dec) -> not_privkey_action name = true ->
  forall d w r w' es, f d w = (r, w', es) -> Qnc d r es.
Proof.
  intros Hin Hok d w r w' es H. leaf_cases Hin; try discriminate Hok.
  all: autounfold with actions in H; msym.
  all: try (intros Hn; exact Hn).
  all: try (match goal with Hpl : pay_loop _ _ _ _ _ _ = _ |- _ => exact (pay_loop_nc _ _ _ _ _ _ _ _ _ Hpl) end).
  all: intros Hn c; cbn; try apply Hn; discriminate.
Qed.

Lemma exec_nc tc dec fuel a d w r w' es :
  tree_ok not_privkey_action a = true -> exec tc dec fuel a d w = (r, w', es) -> Qnc d r es.
Proof.
  apply (exec_rule_named not_privkey_action tc dec Qnc).
  - intros. eapply leaf_nc; eauto.
  - intros d0 Hn; exact Hn.
  - intros d0 Hn; exact Hn.
  - intros d0 Hn; exact Hn.
  - intros d0 k r0 es0 _ H Hn. apply H. intros c. destruct d0; apply Hn.
  - auto.
  - intros d0 _ Hn; exact Hn.
  - auto.
Qed.

Lemma next_msg_fsm_state (d : swap_data) x : d_next_msg (d <| d_fsm_state := x |>) = d_next_msg d.
Proof. destruct d; reflexivity. Qed.

Definition tbl_no_privkey (t : table) : bool :=
  forallb (fun x : string * state_def =>
    match st_action (snd x) with Some a => tree_ok not_privkey_action a | None => true end) t.

Definition P2 (lp : swap_data) (e : effect) : Prop :=
  match e with
  | ESend _ (MCoop _) => False
  | EPersist _ d _ => no_coop d
  | _ => True
  end.

Section NoKey.
Variable tc : tl_consts.
Variable dec : string -> option (string * Z * Z).
Variable t : table.
Variable terminal : list string.
Hypothesis Hnk : tbl_no_privkey t = true.

Lemma nk_lookup s sd act : lookup_state t s = Some sd -> st_action sd = Some act -> tree_ok not_privkey_action act = true.
Proof.
  intros Hl Ha. apply assoc_str_in in Hl. unfold tbl_no_privkey in Hnk. rewrite forallb_forall in Hnk.
  specialize (Hnk _ Hl). cbn [snd] in Hnk. rewrite Ha in Hnk. exact Hnk.
Qed.

Lemma nk_exec act d0 w ev' d' w' es :
  tree_ok not_privkey_action act = true -> no_coop d0 ->
  exec tc dec action_fuel act d0 w = ((ev', d'), w', es) ->
  Forall (fun e => P2 d0 e /\ not_persist e) es /\ no_coop d'.
Proof.
  intros Hok Hn H. split; [|exact (exec_nc _ _ _ _ _ _ _ _ _ Hok H Hn)].
  destruct (exec_Q tc dec _ _ _ _ _ _ _ H) as [F _].
  eapply Forall_impl; [|exact F]. cbn. intros e [He Hp]. split; [|exact Hp].
  destruct e; try exact Logic.I; try contradiction.
  destruct m; try exact Logic.I. cbn in He. destruct He as [_ [B|B]]; [discriminate|]. exact (Hn _ B).
Qed.

Definition Inc (m : machine) : Prop := no_coop (m_data m).

Theorem hist_no_key m0 its :
  Inc m0 -> hist_ok tc dec t terminal (init_hstate m0) its = true ->
  trace_ok P2 (m_data m0) (hs_trace (run_hist tc dec t terminal (init_hstate m0) its)).
Proof.
  intros HI Hok.
  refine (hist_rel tc dec t terminal Inc Tr P2 Te _ _ _ _ _ _ _ _ _ m0 its HI Hok).
  - intros; exact Logic.I.
  - intros; exact Logic.I.
  - intros m r H; exact H.
  - intros; exact Logic.I.
  - intros m lp ok H _. exact H.
  - intros m ev nxt sd act HIm _ Hn Hl Ha w ev' d' w' es Hex.
    assert (Hn0 : no_coop (m_data (enter m nxt))) by (intros c; change (m_data (enter m nxt)) with ((m_data m) <| d_fsm_state := nxt |>); rewrite next_msg_fsm_state; apply HIm).
    destruct (nk_exec _ _ _ _ _ _ _ (nk_lookup _ _ _ Hl Ha) Hn0 Hex) as [F Hn'].
    split; [|split; [exact Hn'|split; exact Logic.I]].
    eapply Forall_impl; [|exact F]. cbn. intros e [A B]. split; [|exact B]. destruct e; exact A.
  - intros m sd act HIm Hl Ha. split; [intros; exact Logic.I|]. intros _ w ev' d' w' es Hex.
    destruct (nk_exec _ _ _ _ _ _ _ (nk_lookup _ _ _ Hl Ha) HIm Hex) as [F Hn'].
    split; [exact F|split; [exact Hn'|split; exact Logic.I]].
  - (* event contexts never touch the pending message *)
    intros h m i HIm _.
    assert (Hupd : forall (m1 : machine) d', Inc m1 -> d_next_msg d' = d_next_msg (m_data m1) ->
              Inc (m1 <| m_data := d' |>) /\ Te (m1 <| m_data := d' |>) EmptyString /\ Tr (m_data m1) d').
    { intros m1 d' H1 Hm. split; [|split; exact Logic.I]. intros c. cbn. rewrite Hm. apply H1. }
    destruct i as [ev ctx|rq|hex err| | |]; cbn [input_ok_rel]; try exact Logic.I.
    + destruct ctx as [c|]; cbn [ctx_ok_rel]; [|exact Logic.I]. split; [exact Logic.I|].
      intros d' _ Hap.
      destruct c; cbn [apply_ctx] in Hap;
        match type of Hap with
        | match ?x with Some _ => None | None => _ end = _ => destruct x; [discriminate|]
        | _ => idtac
        end; inversion Hap; subst d'; apply Hupd; auto;
        auto using next_msg_in_req, next_msg_out_req, next_msg_in_agr, next_msg_out_agr, next_msg_otb, next_msg_coop, next_msg_cancel.
    + cbn [ctx_ok_rel]. split; [exact Logic.I|]. intros d' _ Hap. cbn [apply_ctx] in Hap.
      destruct (d_in_req (m_data m)); [discriminate|]. inversion Hap; subst d'. apply Hupd; auto using next_msg_in_req.
    + split; [intros; exact Logic.I|]. intros m1 H1 _. apply Hupd; auto using next_msg_opening_hex.
  - intros m s d lp H. exact H.
Qed.

End NoKey.

Lemma maker_tables_no_privkey :
  tbl_no_privkey table_swap_in_sender = true /\ tbl_no_privkey table_swap_out_receiver = true.
Proof. split; vm_compute; reflexivity. Qed.

(* not vacuous: the taker tables do contain the action *)
Lemma taker_tables_have_privkey :
  tbl_no_privkey table_swap_out_sender = false /\ tbl_no_privkey table_swap_in_receiver = false.
Proof. split; vm_compute; reflexivity. Qed.

Definition no_coop_sent (es : list effect) : bool :=
  forallb (fun e => match e with ESend _ (MCoop _) => false | _ => true end) es.

Theorem maker_never_sends_key dec t terminal id ty role peer init priv its :
  t = table_swap_in_sender \/ t = table_swap_out_receiver ->
  let m0 := fresh_machine id ty role peer init priv in
  hist_ok tl_consts_gen dec t terminal (init_hstate m0) its = true ->
  no_coop_sent (hs_trace (run_hist tl_consts_gen dec t terminal (init_hstate m0) its)) = true.
Proof.
  intros Ht m0 Hok.
  assert (Hnk : tbl_no_privkey t = true) by (destruct Ht as [-> | ->]; apply maker_tables_no_privkey).
  assert (HI : Inc m0) by (intros c; cbn; discriminate).
  pose proof (hist_no_key tl_consts_gen dec t terminal Hnk m0 its HI Hok) as H. revert H.
  generalize (hs_trace (run_hist tl_consts_gen dec t terminal (init_hstate m0) its)). generalize (m_data m0).
  intros lp l. revert lp. induction l as [|e r IH]; intros lp; cbn; auto.
  intros [A B]. apply andb_true_iff. split; [|exact (IH _ B)].
  destruct e; try reflexivity. destruct m; try reflexivity. contradiction.
Qed.
