(* Lemmas for C14: encode/decode round trip for every value of a supported type description,
   what a reload erases, and the store as a refinement of a map id -> last written machine. *)
From Coq Require Import String Ascii ZArith NArith Bool Lia List.
From PS Require Import Base.Corr Model.Json Model.GoJson Model.SwapStore Gen.SwapSchema Model.C14Corr
  Proofs.C14Codec.
Import ListNotations.
Open Scope string_scope.
Open Scope list_scope.

(* ---------- induction over type descriptions (nested through the field list) ---------- *)
Section GtyInd.
  Variable P : gty -> Prop.
  Hypothesis HB : P TBool.
  Hypothesis HI : forall s b, P (TInt s b).
  Hypothesis HS : P TStr.
  Hypothesis HBy : P TBytes.
  Hypothesis HP : forall t, P t -> P (TPtr t).
  Hypothesis HSt : forall n fs, Forall (fun p => P (snd p)) fs -> P (TStruct n fs).
  Hypothesis HIf : forall n, P (TIface n).
  Hypothesis HId : P TSwapId.
  Hypothesis HO : forall d, P (TOpaque d).
  Fixpoint gty_ind' (t : gty) : P t :=
    match t with
    | TBool => HB
    | TInt s b => HI s b
    | TStr => HS
    | TBytes => HBy
    | TPtr t' => HP t' (gty_ind' t')
    | TStruct n fs =>
        HSt n fs ((fix go (l : list (fmeta * gty)) : Forall (fun p => P (snd p)) l :=
                     match l with
                     | [] => Forall_nil _
                     | (m, t') :: r => Forall_cons (m, t') (gty_ind' t') (go r)
                     end) fs)
    | TIface n => HIf n
    | TSwapId => HId
    | TOpaque d => HO d
    end.
End GtyInd.

(* ---------- unfolding equations of the nested loops ---------- *)
Lemma zero_struct n fs : zero (TStruct n fs) = VStruct (zero_fields fs).
Proof. reflexivity. Qed.
Lemma enc_struct n fs vs : enc (TStruct n fs) (VStruct vs) = JObj (enc_fields fs vs).
Proof. reflexivity. Qed.
Lemma dec_struct n fs vs kvs : dec (TStruct n fs) (VStruct vs) (JObj kvs) =
  match steps fs kvs vs with Some ws => Some (VStruct ws) | None => None end.
Proof. reflexivity. Qed.
Lemma view_struct n fs vs : view (TStruct n fs) (VStruct vs) = VStruct (view_fields fs vs).
Proof. reflexivity. Qed.
Lemma wf_struct n fs vs : wf (TStruct n fs) (VStruct vs) = wf_fields fs vs.
Proof. reflexivity. Qed.
Lemma supported_struct b n fs :
  supported b (TStruct n fs) = nodupb (names_of fs) && supported_fields fs.
Proof. reflexivity. Qed.

(* ---------- key lookup ---------- *)
Lemma names_of_app a b : names_of (a ++ b) = names_of a ++ names_of b.
Proof.
  induction a as [|[m t] r IH]; [reflexivity|]. simpl. destruct (active m); simpl; now rewrite IH.
Qed.

Lemma nodupb_app_mid A k B :
  nodupb (A ++ k :: B) = true -> forall a, In a A -> String.eqb a k = false.
Proof.
  induction A as [|x A IH]; intros H a Ha; [contradiction|].
  simpl in H. apply andb_true_iff in H. destruct H as [H1 H2].
  destruct Ha as [->|Ha]; [|now apply IH].
  apply negb_true_iff in H1.
  destruct (String.eqb a k) eqn:E; [|reflexivity].
  rewrite existsb_app in H1. apply orb_false_iff in H1. destruct H1 as [_ H1].
  simpl in H1. rewrite E in H1. discriminate.
Qed.

Lemma key_match_in pre m t k :
  In (m, t) pre -> key_match true m k = true -> In k (names_of pre).
Proof.
  induction pre as [|[m' t'] r IH]; intros Hin Hk; [contradiction|].
  unfold key_match in Hk. apply andb_true_iff in Hk. destruct Hk as [Ha He].
  apply String.eqb_eq in He. simpl. destruct Hin as [E|Hin].
  - inversion E; subst. rewrite Ha. now left.
  - assert (In k (names_of r)) by (apply IH; [assumption|unfold key_match; rewrite Ha; simpl; now apply String.eqb_eq]).
    destruct (active m'); [now right|assumption].
Qed.

Lemma no_match_before pre m t r :
  nodupb (names_of (pre ++ (m, t) :: r)) = true -> active m = true ->
  forall p, In p pre -> key_match true (fst p) (f_json m) = false.
Proof.
  intros Hn Ha [m' t'] Hin. simpl.
  destruct (key_match true m' (f_json m)) eqn:E; [|reflexivity].
  pose proof (key_match_in _ _ _ _ Hin E) as Hk.
  rewrite names_of_app in Hn. simpl in Hn. rewrite Ha in Hn.
  pose proof (nodupb_app_mid _ _ _ Hn _ Hk) as Hne.
  rewrite String.eqb_refl in Hne. discriminate.
Qed.

Lemma has_exact_mid pre m t r : active m = true -> has_exact (f_json m) (pre ++ (m, t) :: r) = true.
Proof.
  intros Ha. induction pre as [|[m' t'] pre IH]; simpl.
  - unfold key_match. now rewrite Ha, String.eqb_refl.
  - rewrite IH. apply orb_true_r.
Qed.

Lemma set_field_skip e k jv pre done l ws :
  (forall p, In p pre -> key_match e (fst p) k = false) -> List.length done = List.length pre ->
  set_field e k jv (pre ++ l) (done ++ ws) =
  match set_field e k jv l ws with Some x => Some (done ++ x) | None => None end.
Proof.
  revert done. induction pre as [|[m t] pre IH]; intros done Hno Hlen.
  - destruct done; [|discriminate]. simpl. now destruct (set_field e k jv l ws).
  - destruct done as [|d done]; [discriminate|]. simpl.
    pose proof (Hno (m, t) (or_introl eq_refl)) as Hm. simpl in Hm. rewrite Hm.
    rewrite IH; [|intros p Hp; apply Hno; now right|simpl in Hlen; lia].
    now destruct (set_field e k jv l ws).
Qed.

(* ---------- round trip ---------- *)
Definition RT (t : gty) : Prop :=
  forall b, supported b t = true -> forall v, wf t v = true -> dec t (zero t) (enc t v) = Some (view t v).

Lemma app_cons_assoc {A} (l : list A) x r : l ++ x :: r = (l ++ [x]) ++ r.
Proof. now rewrite <- app_assoc. Qed.

Lemma struct_fields_rt fs0 :
  nodupb (names_of fs0) = true ->
  forall fs pre done vs,
    fs0 = pre ++ fs -> List.length done = List.length pre ->
    Forall (fun p => RT (snd p)) fs -> supported_fields fs = true -> wf_fields fs vs = true ->
    steps fs0 (enc_fields fs vs) (done ++ zero_fields fs) = Some (done ++ view_fields fs vs).
Proof.
  intros Hnd. induction fs as [|[m t] r IH]; intros pre done vs Hfs Hlen HRT Hsup Hwf.
  - destruct vs; [|discriminate]. reflexivity.
  - destruct vs as [|w wr]; [discriminate|].
    simpl in Hsup, Hwf. apply andb_true_iff in Hwf. destruct Hwf as [Hw Hwr].
    apply andb_true_iff in Hsup. destruct Hsup as [Hsup Hsr].
    apply andb_true_iff in Hsup. destruct Hsup as [_ Hsm].
    inversion HRT as [|? ? HRTm HRTr]; subst.
    assert (Hnext : forall x, steps (pre ++ (m, t) :: r) (enc_fields r wr) ((done ++ [x]) ++ zero_fields r)
                      = Some ((done ++ [x]) ++ view_fields r wr)).
    { intros x. apply (IH (pre ++ [(m, t)])); auto.
      - now rewrite <- app_assoc.
      - rewrite !app_length. simpl. lia. }
    cbn [enc_fields view_fields zero_fields].
    destruct (active m && negb (f_omit m && is_empty w)) eqn:Eem.
    + apply andb_true_iff in Eem. destruct Eem as [Ha _]. rewrite Ha in Hw, Hsm.
      apply andb_true_iff in Hsm. destruct Hsm as [_ Hst].
      cbn [steps].
      rewrite has_exact_mid by assumption.
      rewrite set_field_skip; [|eapply no_match_before; eassumption|assumption].
      cbn [set_field]. unfold key_match at 1. rewrite Ha, String.eqb_refl. cbn [andb].
      simpl snd in HRTm. rewrite (HRTm false Hst w Hw).
      rewrite (app_cons_assoc done (view t w)). rewrite Hnext.
      now rewrite <- app_assoc.
    + rewrite (app_cons_assoc done (zero t)). rewrite Hnext. now rewrite <- app_assoc.
Qed.

Lemma dec_ptr_nonnull t' cur j : j <> JNull ->
  dec (TPtr t') cur j =
  match dec t' (match cur with VPtr (Some c) => c | _ => zero t' end) j with
  | Some v => Some (VPtr (Some v)) | None => None end.
Proof. destruct j; try reflexivity. congruence. Qed.

Lemma roundtrip_all : forall t, RT t.
Proof.
  induction t as [|sg bits| | |t' IH|n fs IH|nm| |d] using gty_ind'; intros b Hs v Hw.
  - destruct v; try discriminate. reflexivity.
  - destruct v; try discriminate. simpl in *. now rewrite Hw.
  - destruct v; try discriminate. simpl in *. now rewrite (utf8_ok_sanitize _ Hw).
  - destruct v as [| | |[s|]| | | | |]; try discriminate; simpl; [|reflexivity].
    now rewrite b64_roundtrip.
  - destruct v as [| | | |[v'|]| | | |]; try discriminate; [|reflexivity].
    cbn [wf] in Hw. cbn [enc view].
    assert (Hs' : supported true t' = true /\ enc t' v' <> JNull).
    { destruct t'; try discriminate; (split; [exact Hs|]);
        destruct v'; try discriminate; simpl; discriminate. }
    destruct Hs' as [Hs' Hnn].
    rewrite dec_ptr_nonnull by assumption. cbn [zero].
    now rewrite (IH true Hs' v' Hw).
  - destruct v; try discriminate.
    rewrite supported_struct in Hs. apply andb_true_iff in Hs. destruct Hs as [Hnd Hsf].
    rewrite wf_struct in Hw. rewrite zero_struct, enc_struct, dec_struct, view_struct.
    pose proof (struct_fields_rt fs Hnd fs [] [] vs eq_refl eq_refl IH Hsf Hw) as H.
    simpl in H. now rewrite H.
  - destruct v as [| | | | | |[j|]| |]; try discriminate. reflexivity.
  - destruct v; try discriminate. simpl in *.
    rewrite hex_roundtrip. now rewrite Hw.
  - discriminate.
Qed.

(* ---------- what the reload erases = exactly the declared in-memory fields ---------- *)

Fixpoint same_list (l1 l2 : list gval) : bool :=
  match l1, l2 with
  | [], [] => true
  | p :: r, q :: s => same_data p q && same_list r s
  | _, _ => false
  end.
Lemma same_struct x y : same_data (VStruct x) (VStruct y) = same_list x y.
Proof. reflexivity. Qed.

Section ExpectedFields.
  Variable sname : string.
  Fixpoint expected_fields (l : list (fmeta * gty)) (ws : list gval) : list gval :=
    match l, ws with
    | (m, t') :: r, w :: wr =>
        (if f_exported m && negb (is_memory_only sname (f_go m))
         then expected_reload t' w else zero t') :: expected_fields r wr
    | _, _ => []
    end.
  Fixpoint erasure_fields (l : list (fmeta * gty)) : bool :=
    match l with
    | [] => true
    | (m, t') :: r =>
        (if f_exported m
         then Bool.eqb (f_skip m) (is_memory_only sname (f_go m))
              && (if f_skip m then true else erasure_ok t')
         else true) && erasure_fields r
    end.
End ExpectedFields.
Lemma expected_struct n fs vs :
  expected_reload (TStruct n fs) (VStruct vs) = VStruct (expected_fields n fs vs).
Proof. reflexivity. Qed.

Lemma erasure_struct n fs : erasure_ok (TStruct n fs) = erasure_fields n fs.
Proof. reflexivity. Qed.

Lemma same_zero : forall t, same_data (zero t) (zero t) = true.
Proof.
  induction t as [|sg bits| | |t' IH|n fs IH|nm| |d] using gty_ind'; try reflexivity.
  rewrite zero_struct, same_struct.
  induction IH as [|[m t'] r Hh Ht IHr]; [reflexivity|].
  simpl in *. now rewrite Hh, IHr.
Qed.

Lemma empty_same t w :
  wf t w = true -> is_empty w = true -> same_data (zero t) (expected_reload t w) = true.
Proof.
  intros Hw He.
  destruct t; destruct w; try discriminate; simpl in *.
  - destruct b; [discriminate|reflexivity].
  - apply Z.eqb_eq in He. now subst.
  - apply String.eqb_eq in He. now subst.
  - destruct o as [s|]; [|reflexivity]. apply String.eqb_eq in He. now subst.
  - destruct o; [discriminate|reflexivity].
  - destruct o; [discriminate|reflexivity].
Qed.

Lemma view_is_declared_erasure :
  forall t v, erasure_ok t = true -> wf t v = true ->
    same_data (view t v) (expected_reload t v) = true.
Proof.
  induction t as [|sg bits| | |t' IH|n fs IH|nm| |d] using gty_ind'; intros v He Hw.
  - destruct v; try discriminate. simpl. apply eqb_reflx.
  - destruct v; try discriminate. simpl. apply Z.eqb_refl.
  - destruct v; try discriminate. simpl. apply String.eqb_refl.
  - destruct v; try discriminate. simpl. apply String.eqb_refl.
  - destruct v as [| | | |[v'|]| | | |]; try discriminate; [|reflexivity].
    simpl. apply IH; assumption.
  - destruct v; try discriminate.
    rewrite view_struct, expected_struct, same_struct.
    rewrite erasure_struct in He. rewrite wf_struct in Hw.
    revert vs He Hw.
    induction IH as [|[m t'] r Hh Ht IHr]; intros vs He Hw.
    + destruct vs; [reflexivity|discriminate].
    + destruct vs as [|w wr]; [discriminate|].
      simpl in He, Hw. apply andb_true_iff in He. destruct He as [He Her].
      apply andb_true_iff in Hw. destruct Hw as [Hw Hwr].
      cbn [view_fields expected_fields same_list].
      rewrite (IHr wr Her Hwr), andb_true_r.
      unfold active in *. simpl snd in Hh.
      destruct (f_exported m); cbn [andb]; [|apply same_zero].
      apply andb_true_iff in He. destruct He as [He1 He2].
      apply eqb_prop in He1. rewrite <- He1.
      destruct (f_skip m); cbn [negb andb]; [apply same_zero|].
      cbn [negb andb] in Hw.
      destruct (f_omit m && is_empty w) eqn:Eo; cbn [negb].
      * apply andb_true_iff in Eo. destruct Eo as [_ Eo]. now apply empty_same.
      * now apply Hh.
  - destruct v as [| | | | | |[j|]| |]; try discriminate. reflexivity.
  - destruct v; try discriminate. simpl. apply String.eqb_refl.
  - destruct v; try discriminate; reflexivity.
Qed.

(* the generated description of swap.SwapStateMachine passes the three checks *)
Lemma gen_schema_supported : supported false swap_machine_ty = true.
Proof. vm_compute. reflexivity. Qed.
Lemma gen_schema_erasure : erasure_ok swap_machine_ty = true.
Proof. vm_compute. reflexivity. Qed.
Lemma gen_schema_id_field : id_field_ok swap_machine_ty = true.
Proof. vm_compute. reflexivity. Qed.

Lemma record_roundtrip m :
  wf T m = true -> decode T (enc T m) = Some (view T m).
Proof. intros Hw. exact (roundtrip_all T false gen_schema_supported m Hw). Qed.

Lemma record_reload_identical m :
  wf T m = true ->
  exists r, decode T (enc T m) = Some r /\ same_data r (expected_reload T m) = true.
Proof.
  intros Hw. exists (view T m). split; [now apply record_roundtrip|].
  apply view_is_declared_erasure; [exact gen_schema_erasure|assumption].
Qed.

(* ---------- the bucket is a map ---------- *)
Lemma string_compare_refl s : String.compare s s = Eq.
Proof.
  induction s as [|c r IH]; [reflexivity|]. simpl.
  unfold Ascii.compare. now rewrite N.compare_refl.
Qed.

Lemma lookup_insert_same {A} k (v : A) st : lookup k (insert k v st) = Some v.
Proof.
  induction st as [|[k0 v0] r IH]; simpl.
  - now rewrite String.eqb_refl.
  - destruct (String.compare k k0) eqn:E; simpl.
    + now rewrite String.eqb_refl.
    + now rewrite String.eqb_refl.
    + assert (String.eqb k k0 = false) as ->.
      { apply String.eqb_neq. intros ->.
        pose proof (string_compare_refl k0). congruence. }
      exact IH.
Qed.

Lemma lookup_insert_other {A} k k' (v : A) st : k' <> k -> lookup k' (insert k v st) = lookup k' st.
Proof.
  intros Hne. induction st as [|[k0 v0] r IH]; simpl.
  - apply String.eqb_neq in Hne. now rewrite Hne.
  - destruct (String.compare k k0) eqn:E; simpl.
    + apply String.compare_eq_iff in E. subst k0.
      apply String.eqb_neq in Hne. now rewrite Hne.
    + apply String.eqb_neq in Hne. now rewrite Hne.
    + now rewrite IH.
Qed.

Definition encp (T : gty) (p : string * gval) : string * json := (fst p, enc T (snd p)).

Lemma lookup_map T k a : lookup k (map (encp T) a) = option_map (enc T) (lookup k a).
Proof.
  induction a as [|[k0 m0] r IH]; [reflexivity|]. simpl.
  destruct (String.eqb k k0); [reflexivity|exact IH].
Qed.

Lemma insert_map T k m a : insert k (enc T m) (map (encp T) a) = map (encp T) (insert k m a).
Proof.
  induction a as [|[k0 m0] r IH]; [reflexivity|]. simpl.
  destruct (String.compare k k0); simpl; try reflexivity. now rewrite IH.
Qed.

Lemma insert_Forall {A} (P : string * A -> Prop) k v st :
  Forall P st -> P (k, v) -> Forall P (insert k v st).
Proof.
  intros H Hp. induction H as [|[k0 v0] r Hh Hr IH]; simpl.
  - now constructor.
  - destruct (String.compare k k0); repeat constructor; auto.
Qed.

(* ---------- ids ---------- *)
Lemma h2b_hex s : h2b (hex_encode s) = s.
Proof.
  induction s as [|c r IH]; [reflexivity|].
  cbn [hex_encode h2b].
  pose proof (N_of_ascii_lt c) as Hc.
  rewrite !hex_val_digit, IH.
  - f_equal.
    replace (N_of_ascii c / 16 * 16 + N_of_ascii c mod 16)%N with (N_of_ascii c).
    + apply ascii_N_embedding.
    + rewrite (N.div_mod (N_of_ascii c) 16) at 1; lia.
  - apply N.mod_lt; lia.
  - apply N.div_lt_upper_bound; lia.
Qed.

Lemma field_of_find name fs vs m t v :
  field_of name fs vs = Some (m, t, v) ->
  find (fun p => String.eqb (f_go (fst p)) name) fs = Some (m, t) /\
  (wf_fields fs vs = true -> active m = true -> wf t v = true).
Proof.
  revert vs. induction fs as [|[m0 t0] r IH]; intros vs H; [discriminate|].
  destruct vs as [|w wr]; [discriminate|]. simpl in *.
  destruct (String.eqb (f_go m0) name).
  - inversion H; subst. split; [reflexivity|].
    intros Hw Ha. apply andb_true_iff in Hw. destruct Hw as [Hw _]. now rewrite Ha in Hw.
  - destruct (IH _ H) as [Hf Hw]. split; [assumption|].
    intros Hw' Ha. apply andb_true_iff in Hw'. destruct Hw' as [_ Hw']. auto.
Qed.

Lemma machine_id_len Ty m s :
  id_field_ok Ty = true -> wf Ty m = true -> machine_id Ty m = Some s -> String.length s = 32%nat.
Proof.
  intros Hid Hw Hm. destruct Ty; try discriminate. destruct m; try discriminate.
  simpl in Hid, Hm. rewrite wf_struct in Hw.
  destruct (field_of "SwapId" fs vs) as [[[fm ft] fv]|] eqn:Ef; [|discriminate].
  destruct (field_of_find _ _ _ _ _ _ Ef) as [Hfind Hwf]. rewrite Hfind in Hid.
  destruct ft; try discriminate. destruct ft; try discriminate.
  destruct fv as [| | | |[[| | | | | | |s'|]|]| | | |]; try discriminate.
  inversion Hm; subst s'.
  specialize (Hwf Hw Hid). simpl in Hwf. now apply Nat.eqb_eq in Hwf.
Qed.

(* ---------- refinement ---------- *)
Section Refinement.
  Variable Ty : gty.
  Hypothesis Hsup : supported false Ty = true.
  Hypothesis Hid : id_field_ok Ty = true.

  Definition dom_op (op : sop) : Prop :=
    match op with
    | SUpdate m => wf Ty m = true /\ machine_id Ty m <> None
    | _ => True
    end.

  Definition wf_amap (a : amap) : Prop := Forall (fun p => wf Ty (snd p) = true) a.

  Lemma get_refines a id : wf_amap a ->
    store_get Ty (map (encp Ty) a) id =
    match lookup (h2b id) a with Some m => GOk (view Ty m) | None => GNotFound end.
  Proof.
    intros Ha. unfold store_get. rewrite lookup_map.
    destruct (lookup (h2b id) a) as [m|] eqn:El; [|reflexivity]. simpl.
    assert (Hw : wf Ty m = true).
    { clear - Ha El. induction Ha as [|[k0 m0] r Hh Hr IH]; [discriminate|].
      simpl in El. destruct (String.eqb (h2b id) k0); [now inversion El; subst|auto]. }
    unfold decode. now rewrite (roundtrip_all Ty false Hsup m Hw).
  Qed.

  Lemma list_refines a : wf_amap a ->
    store_list Ty (map (encp Ty) a) = Some (map (fun p => view Ty (snd p)) a).
  Proof.
    intros Ha. induction Ha as [|[k0 m0] r Hh Hr IH]; [reflexivity|].
    simpl in *. unfold decode. rewrite (roundtrip_all Ty false Hsup m0 Hh). now rewrite IH.
  Qed.

  Lemma update_refines a m : wf_amap a -> wf Ty m = true -> machine_id Ty m <> None ->
    store_update Ty (map (encp Ty) a) m = Some (map (encp Ty) (insert (key_of Ty m) m a)).
  Proof.
    intros Ha Hw Hm. unfold store_update, key_of.
    destruct (machine_id Ty m) as [s|] eqn:Em; [|congruence].
    pose proof (machine_id_len _ _ _ Hid Hw Em) as Hlen.
    cbn [id_string]. rewrite get_refines by assumption. rewrite h2b_hex.
    assert (String.eqb s EmptyString = false) as ->.
    { apply String.eqb_neq. intros ->. discriminate. }
    rewrite insert_map. now destruct (lookup s a).
  Qed.

  Lemma store_refines_map ops : Forall dom_op ops ->
    forall a, wf_amap a -> run_store Ty (map (encp Ty) a) ops = run_spec Ty a ops.
  Proof.
    induction 1 as [|op r Hop Hr IH]; intros a Ha; [reflexivity|].
    destruct op as [m|id|]; simpl.
    - destruct Hop as [Hw Hm]. rewrite update_refines by assumption.
      f_equal. apply IH. apply insert_Forall; assumption.
    - rewrite get_refines by assumption. f_equal. now apply IH.
    - rewrite list_refines by assumption. f_equal. now apply IH.
  Qed.
End Refinement.

Lemma swap_store_refines_map ops :
  Forall (dom_op T) ops -> run_store T [] ops = run_spec T [] ops.
Proof.
  intros H. exact (store_refines_map T gen_schema_supported gen_schema_id_field ops H [] (Forall_nil _)).
Qed.

(* ---------- the limits of the domain are real (not artefacts of the model) ---------- *)
Lemma iface_nonnull_not_decodable nm cur j : j <> JNull -> dec (TIface nm) cur j = None.
Proof. destruct j; try reflexivity. congruence. Qed.

Lemma invalid_utf8_not_identical :
  exists s, utf8_ok s = false /\ dec TStr (zero TStr) (enc TStr (VStr s)) <> Some (VStr s).
Proof. exists (bs [255%N]). split; [reflexivity|]. vm_compute. discriminate. Qed.

(* ---------- every datum the property names is a persisted key of the record ---------- *)
Fixpoint struct_keys (t : gty) {struct t} : list (string * list string) :=
  match t with
  | TPtr t' => struct_keys t'
  | TStruct n fs =>
      (n, names_of fs) ::
      (fix go (l : list (fmeta * gty)) : list (string * list string) :=
         match l with
         | [] => []
         | (m, t') :: r => (if active m then struct_keys t' else []) ++ go r
         end) fs
  | _ => []
  end.

(* messages, keys, preimages, heights, anchor flag, transaction ids, cancel reasons, role, type, state *)
Definition property_keys : list (string * list string) :=
  [ ("SwapStateMachine", ["swap_id"; "data"; "type"; "role"; "previous"; "current"]);
    ("SwapData", ["swap_in_request"; "swap_in_agreement"; "swap_out_request"; "swap_out_agreement";
                  "opening_tx_broadcasted"; "coop_close_message"; "cancel_message_obj"; "cancel_message";
                  "peer_node_id"; "initiator_node_id"; "created_at"; "role"; "fsm_state";
                  "private_key"; "fee_preimage"; "opening_tx_fee"; "opening_tx_hex";
                  "opening_block_height"; "opening_block_height_set"; "claim_tx_id";
                  "claim_payment_hash"; "claim_preimage"; "blinding_key";
                  "next_message"; "next_message_type"; "last_err"]);
    ("SwapInRequestMessage", ["protocol_version"; "swap_id"; "network"; "asset"; "scid"; "amount"; "pubkey"; "acceptable_premium"]);
    ("SwapOutRequestMessage", ["protocol_version"; "swap_id"; "network"; "asset"; "scid"; "amount"; "pubkey"; "acceptable_premium"]);
    ("SwapInAgreementMessage", ["protocol_version"; "swap_id"; "pubkey"; "premium"]);
    ("SwapOutAgreementMessage", ["protocol_version"; "swap_id"; "pubkey"; "Payreq"; "premium"]);
    ("OpeningTxBroadcastedMessage", ["swap_id"; "payreq"; "tx_id"; "script_out"; "blinding_key"]);
    ("CoopCloseMessage", ["swap_id"; "message"; "privkey"]);
    ("CancelMessage", ["swap_id"; "message"]) ].

Definition keys_persisted (t : gty) : bool :=
  forallb (fun p =>
    match lookup (fst p) (struct_keys t) with
    | Some names => forallb (fun k => existsb (String.eqb k) names) (snd p)
    | None => false
    end) property_keys.

Lemma gen_property_keys_persisted : keys_persisted swap_machine_ty = true.
Proof. vm_compute. reflexivity. Qed.

(* the fields a reload loses are exactly these (Go names), nothing else in the generated type *)
Fixpoint erased_fields (t : gty) {struct t} : list (string * string) :=
  match t with
  | TPtr t' => erased_fields t'
  | TStruct n fs =>
      (fix go (l : list (fmeta * gty)) : list (string * string) :=
         match l with
         | [] => []
         | (m, t') :: r => (if active m then erased_fields t' else [(n, f_go m)]) ++ go r
         end) fs
  | _ => []
  end.

Lemma gen_erased_fields :
  erased_fields swap_machine_ty =
  [("SwapData", "LastErr"); ("SwapData", "toCancel"); ("SwapStateMachine", "States");
   ("SwapStateMachine", "mutex"); ("SwapStateMachine", "swapServices"); ("SwapStateMachine", "retries");
   ("SwapStateMachine", "failures"); ("SwapStateMachine", "stateMutex"); ("SwapStateMachine", "stateChange")].
Proof. vm_compute. reflexivity. Qed.

(* ---------- concrete witnesses ---------- *)
Fixpoint put_field (name : string) (x : gval) (fs : list (fmeta * gty)) (vs : list gval) : list gval :=
  match fs, vs with
  | (m, _) :: r, v :: vr => if String.eqb (f_go m) name then x :: vr else v :: put_field name x r vr
  | _, _ => vs
  end.
Definition put (t : gty) (name : string) (x : gval) (v : gval) : gval :=
  match t, v with TStruct _ fs, VStruct vs => VStruct (put_field name x fs vs) | _, _ => v end.
Definition field_ty (t : gty) (name : string) : gty :=
  match t with
  | TStruct _ fs =>
      match find (fun p => String.eqb (f_go (fst p)) name) fs with
      | Some (_, TPtr t') => t' | Some (_, t') => t' | None => TOpaque "missing"
      end
  | _ => TOpaque "missing"
  end.

Definition data_ty : gty := field_ty T "Data".
Definition ex_id (b : N) : gval := VPtr (Some (VSwapId (string_of_bytes (repeat b 32)))).
Definition ex_agreement : gval :=
  put (field_ty data_ty "SwapInAgreement") "Premium" (VInt (-9223372036854775808))
    (zero (field_ty data_ty "SwapInAgreement")).
Definition ex_data : gval :=
  put data_ty "ClaimTxId" (VStr "ab01")
   (put data_ty "SwapInAgreement" (VPtr (Some ex_agreement))
   (put data_ty "OpeningTxHex" (VStr "")
    (put data_ty "StartingBlockHeight" (VInt 4294967295)
      (put data_ty "PrivkeyBytes" (VBytes (Some "key"))
        (put data_ty "LastErr" (VIface (Some (JObj [])))
          (put data_ty "Cancel"
             (VPtr (Some (put (field_ty data_ty "Cancel") "Message" (VStr "no") (zero (field_ty data_ty "Cancel")))))
             (zero data_ty))))))).
Definition ex_machine (b : N) : gval :=
  put T "SwapId" (ex_id b) (put T "Data" (VPtr (Some ex_data)) (put T "Current" (VStr "State_SwapCanceled") (zero T))).
Definition ex_poisoned : gval :=
  put T "Data" (VPtr (Some (put data_ty "LastMessage" (VIface (Some (JObj [("message", JStr "x")]))) ex_data)))
    (ex_machine 7).

Lemma ex_machine_in_domain : in_domain (ex_machine 7) = true.
Proof. vm_compute. reflexivity. Qed.

(* a record in the domain reloads; its in-memory LastErr is the only thing lost *)
Lemma ex_machine_reload :
  decode T (enc T (ex_machine 7)) =
  Some (put T "Data" (VPtr (Some (put data_ty "LastErr" (VIface None) ex_data))) (ex_machine 7)).
Proof. vm_compute. reflexivity. Qed.

Lemma ex_history_in_domain :
  Forall (dom_op T) [SUpdate (ex_machine 7); SUpdate (ex_machine 9); SGet (id_string (machine_id T (ex_machine 7))); SList].
Proof.
  repeat constructor; try (vm_compute; reflexivity); vm_compute; discriminate.
Qed.

(* a record with a non-nil last_message is written but can never be read again, blocks its key
   and makes ListAll (hence RecoverSwaps) fail: this is why the domain excludes it *)
Lemma ex_poisoned_blocks_store :
  run_store T [] [SUpdate ex_poisoned; SGet (id_string (machine_id T ex_poisoned)); SUpdate (ex_machine 7); SList]
  = [RUpdate true; RGet GErr; RUpdate false; RList None].
Proof. vm_compute. reflexivity. Qed.

(* ---------- last_message is never assigned anywhere in the non-test sources ---------- *)
Lemma gen_last_message_never_written : last_message_writes = [].
Proof. reflexivity. Qed.

(* ---------- what RecoverSwaps / Recover dispatch on comes back unchanged ---------- *)
Definition top_field (name : string) (v : gval) : option gval :=
  match T, v with
  | TStruct _ fs, VStruct vs =>
      match field_of name fs vs with Some (_, _, x) => Some x | None => None end
  | _, _ => None
  end.

Lemma wf_fields_length fs vs : wf_fields fs vs = true -> List.length vs = List.length fs.
Proof.
  revert vs. induction fs as [|[m t] r IH]; intros [|w wr] H; try discriminate; [reflexivity|].
  simpl in *. apply andb_true_iff in H. destruct H as [_ H]. f_equal. now apply IH.
Qed.

Lemma recover_inputs_kept m : wf T m = true ->
  exists r, decode T (enc T m) = Some r /\
    machine_id T r = machine_id T m /\
    top_field "Type" r = top_field "Type" m /\ top_field "Role" r = top_field "Role" m /\
    top_field "Current" r = top_field "Current" m /\ top_field "Previous" r = top_field "Previous" m.
Proof.
  intros Hw. exists (view T m). split; [now apply record_roundtrip|].
  destruct m as [| | | | |vs| | |]; try discriminate.
  unfold T in *. unfold swap_machine_ty in *.
  rewrite wf_struct in Hw. rewrite view_struct.
  pose proof (wf_fields_length _ _ Hw) as Hlen. cbn [List.length] in Hlen.
  do 13 (destruct vs as [|? vs]; [discriminate Hlen|]).
  destruct vs; [|discriminate Hlen]. clear Hlen.
  clear Hw.
  unfold machine_id, top_field, T, swap_machine_ty.
  cbn [view_fields field_of f_go String.eqb Ascii.eqb Bool.eqb active f_exported f_skip f_omit andb negb].
  repeat split.
  destruct g as [| | | |[[]|]| | | |]; reflexivity.
Qed.
