(* C09 / C10: service-layer routing and the one-swap-per-channel lock. *)
From Coq Require Import String Ascii ZArith Bool List Lia.
From RecordUpdate Require Import RecordSet.
From PS Require Import Base.Wrap Model.Data Model.Actions Model.Fsm Model.History Model.Service
  Proofs.Monad Proofs.ExecRule Proofs.MTac Proofs.Frame Proofs.Engine.
Import ListNotations RecordSetNotations.
Open Scope Z_scope.

Strategy opaque [event_loop exec loop_fuel action_fuel pay_loop].

Section Svc.
Variable tc : tl_consts.
Variable decode : string -> option (string * Z * Z).
Variable t_os t_or t_is t_ir : table.
Variable terminal : list string.

Notation on_message := (on_message tc decode t_os t_or t_is t_ir terminal).
Notation rpc_start := (rpc_start tc decode t_os t_or t_is t_ir terminal).

(* ---------- C09 (a): messages from anyone but the counterparty, or about unknown swaps ---------- *)
Theorem foreign_message_changes_nothing n sender m sw :
  is_request_msg m = false ->
  (assoc_str (msg_id m) (n_active n) = None \/
   exists mach, assoc_str (msg_id m) (n_active n) = Some mach /\ d_peer (m_data mach) <> sender) ->
  exists err, on_message n sender m sw = (n, [], err) /\ err <> SOk.
Proof.
  intros Hreq H. unfold Service.on_message.
  destruct m; try discriminate; cbn [msg_id] in *;
  (destruct H as [H|(mach & H & Hp)]; rewrite H;
   [eexists; split; [reflexivity|discriminate]|
    destruct (String.eqb (d_peer (m_data mach)) sender) eqn:E;
    [apply String.eqb_eq in E; contradiction|cbn; eexists; split; [reflexivity|discriminate]]]).
Qed.

(* ---------- C09 (b): a request that re-uses a known swap id is refused, nothing changes ---------- *)
Theorem known_id_request_refused n sender m sw :
  is_request_msg m = true -> id_known n (msg_id m) = true ->
  on_message n sender m sw = (n, [cancel_to sender (msg_id m)], SErrRefused).
Proof.
  intros Hreq Hk. destruct m; try discriminate; cbn [msg_id] in *;
  unfold Service.on_message, on_in_request, on_out_request; rewrite Hk; reflexivity.
Qed.

(* ---------- C09 (c): a message the swap's current state does not accept changes nothing ---------- *)
Lemma send_event_unaccepted t m ev ctx w :
  String.eqb ev Ev_Done = false -> next_state t (m_cur m) ev = None ->
  send_event tc decode t m ev ctx w = ((m, mkResult false ErrRejected), w, []).
Proof. intros Hd Hn. unfold send_event. rewrite Hd, Hn. reflexivity. Qed.

Lemma put_same {A} k (v : A) l : assoc_str k l = Some v -> put k v l = l.
Proof.
  induction l as [|[k' v'] l IH]; cbn [assoc_str put]; [discriminate|].
  destruct (String.eqb k k') eqn:E.
  - intros H. inversion H; subst. apply String.eqb_eq in E. subst. reflexivity.
  - intros H. rewrite IH; auto.
Qed.

Lemma event_of_msg_not_done m : String.eqb (event_of_msg m) Ev_Done = false.
Proof. destruct m; reflexivity. Qed.

Theorem unaccepted_message_changes_nothing n sender m sw mach :
  is_request_msg m = false ->
  assoc_str (msg_id m) (n_active n) = Some mach ->
  next_state (table_of t_os t_or t_is t_ir mach) (m_cur mach) (event_of_msg m) = None ->
  exists err, on_message n sender m sw = (n, [], err) /\ err <> SOk.
Proof.
  intros Hreq Ha Hn.
  destruct (String.eqb (d_peer (m_data mach)) sender) eqn:Ep.
  2:{ apply foreign_message_changes_nothing; auto. right. exists mach. split; auto.
      intros Hx. subst. rewrite String.eqb_refl in Ep. discriminate. }
  assert (G : on_message n sender m sw =
              (let id := msg_id m in
               let '(n2, es, o) := deliver tc decode t_os t_or t_is t_ir terminal n id mach
                                     (InEvent (event_of_msg m) (Some m)) (sw_inner sw) in
               (n2, es, match r_err (o_result o) with ErrNone => SOk | e => SErrMachine e end))).
  { unfold Service.on_message. destruct m; try discriminate; cbn [msg_id] in *; rewrite Ha, Ep; reflexivity. }
  rewrite G. cbv zeta. unfold deliver, run_step, step.
  unfold bind. rewrite (send_event_unaccepted _ _ _ _ _ (event_of_msg_not_done m) Hn).
  cbn. rewrite (put_same _ _ _ Ha). destruct n. eexists. split; [reflexivity|discriminate].
Qed.

End Svc.

(* ---------- C10: the lock ---------- *)

Lemma norm_scid_idem s : norm_scid (norm_scid s) = norm_scid s.
Proof.
  induction s as [|c s IH]; cbn; [reflexivity|]. rewrite IH.
  destruct (Ascii.eqb c ":") eqn:E; cbn; [reflexivity|]. rewrite E. reflexivity.
Qed.

(* the two spellings of a channel id are the same channel *)
Lemma norm_scid_spellings : norm_scid "539268:845:1" = norm_scid "539268x845x1".
Proof. reflexivity. Qed.

Definition chan_of (m : machine) : string := norm_scid (get_scid (m_data m)).

(* lockSwap refuses exactly when some active swap is on the channel, whatever the spelling *)
Theorem lock_refuses_busy_channel n id scid m :
  lock_swap n id scid m = None <->
  exists p, In p (n_active n) /\ chan_of (snd p) = norm_scid scid.
Proof.
  unfold lock_swap.
  destruct (existsb (fun p => String.eqb (norm_scid (get_scid (m_data (snd p)))) (norm_scid scid)) (n_active n)) eqn:E.
  - split; [intros _|reflexivity]. apply existsb_exists in E. destruct E as (p & Hin & Heq).
    exists p. split; auto. apply String.eqb_eq in Heq. exact Heq.
  - split; [discriminate|]. intros (p & Hin & Heq). exfalso.
    assert (existsb (fun p => String.eqb (norm_scid (get_scid (m_data (snd p)))) (norm_scid scid)) (n_active n) = true).
    { apply existsb_exists. exists p. split; auto. apply String.eqb_eq. exact Heq. }
    congruence.
Qed.

(* ---------- the channel of a swap never changes once its request is attached ---------- *)
Definition reqs (d : swap_data) : option req * option req := (d_in_req d, d_out_req d).

Definition input_ctx (i : input) : option wire_msg :=
  match i with
  | InEvent _ c => c
  | InRequestIn r => Some (MInReq r)
  | _ => None
  end.

Lemma reqs_fsm_state d s : reqs (d <| d_fsm_state := s |>) = reqs d.
Proof. destruct d; reflexivity. Qed.

Lemma reqs_hex d s : reqs (d <| d_opening_hex := s |>) = reqs d.
Proof. destruct d; reflexivity. Qed.

Section StepReqs.
Variable tc : tl_consts.
Variable decode : string -> option (string * Z * Z).
Variable t : table.
Variable terminal : list string.

(* after a step the request fields are the old ones, or the ones obtained by applying the step's context *)
Lemma np_forall (lp : swap_data) es :
  Forall not_persist_eff es -> Forall (fun e => (fun (_ : swap_data) (_ : effect) => True) lp e /\ not_persist e) es.
Proof. intros F. eapply Forall_impl; [|exact F]. intros e He. split; [exact Logic.I|]. destruct e; exact He. Qed.

Theorem step_reqs m i w o w' es :
  step tc decode t terminal m i w = (o, w', es) ->
  reqs (m_data (o_machine o)) = reqs (m_data m) \/
  (exists c d', input_ctx i = Some c /\ apply_ctx (m_data m) c = Some d' /\
                reqs (m_data (o_machine o)) = reqs d').
Proof.
  intros H.
  set (Inv := fun m' : machine =>
    reqs (m_data m') = reqs (m_data m) \/
    (exists c d', input_ctx i = Some c /\ apply_ctx (m_data m) c = Some d' /\ reqs (m_data m') = reqs d')).
  assert (Hcore : forall m1 d', same_core (m_data m1) d' -> Inv m1 -> forall m2, m_data m2 = d' -> Inv m2).
  { intros m1 d' (Hi & Ho & _) Hm m2 Hd. unfold Inv, reqs in *. rewrite Hd, Hi, Ho. exact Hm. }
  assert (H1 : forall m1 (r : Z), Inv m1 -> Inv (m1 <| m_retries := r |>)) by (intros m1 r Hm; exact Hm).
  assert (H2 : forall (m1 : machine) (r : Z) (ev : string), True -> True) by auto.
  assert (H3 : forall (m1 : machine) (lp : swap_data) (ok : bool), Inv m1 -> True) by auto.
  assert (H4 : forall m1 ev nxt sd act, Inv m1 -> True ->
            next_state t (m_cur m1) ev = Some nxt -> lookup_state t nxt = Some sd -> st_action sd = Some act ->
            forall w1 ev' d' w2 es1,
              exec tc decode action_fuel act (m_data (enter m1 nxt)) w1 = ((ev', d'), w2, es1) ->
              Forall (fun e => True /\ not_persist e) es1 /\
              Inv ((enter m1 nxt) <| m_data := d' |>) /\ True).
  { intros m1 ev nxt sd act Hm _ _ _ _ w1 ev' d' w2 es1 Hex. split; [|split; auto].
    - apply (np_forall (m_data m1)). eapply exec_not_persist; eauto.
    - apply exec_core in Hex. cbn [snd] in Hex.
      assert (Hent : Inv (enter m1 nxt)).
      { unfold Inv in *. unfold enter. cbn. rewrite !reqs_fsm_state. exact Hm. }
      eapply (Hcore (enter m1 nxt)); eauto. }
  assert (H5 : forall m1 sd act, Inv m1 -> lookup_state t (m_cur m1) = Some sd -> st_action sd = Some act ->
            (st_fail_on_recover sd = true -> True) /\
            (st_fail_on_recover sd = false ->
             forall w1 ev' d' w2 es1,
               exec tc decode action_fuel act (m_data m1) w1 = ((ev', d'), w2, es1) ->
               Forall (fun e => True /\ not_persist e) es1 /\ Inv (m1 <| m_data := d' |>) /\ True)).
  { intros m1 sd act Hm _ _. split; auto. intros _ w1 ev' d' w2 es1 Hex. split; [|split; auto].
    - apply (np_forall (m_data m1)). eapply exec_not_persist; eauto.
    - apply exec_core in Hex. cbn [snd] in Hex. eapply (Hcore m1); eauto. }
  assert (Hin : input_ok Inv (fun _ _ => True) m i).
  { destruct i as [ev [c|]|rq|hex err| | |]; cbn; auto.
    - split; auto. intros d' _ Hap. split; auto. right. exists c, d'. cbn. auto.
    - split; auto. intros d' _ Hap. split; auto. right. exists (MInReq rq), d'. cbn. auto.
  }
  assert (H0 : Inv m) by (left; reflexivity).
  pose proof (step_rule tc decode t terminal Inv (fun _ _ => True) (fun _ _ => True) H1 H2 H3 H4 H5
                m i (m_data m) w o w' es H0 Hin (fun _ => eq_refl) H) as R.
  exact (proj2 R).
Qed.

End StepReqs.
