(* C15: restarts never duplicate an opening transaction, payment or refund. *)
From Coq Require Import String ZArith Bool List Lia.
From RecordUpdate Require Import RecordSet.
From PS Require Import Base.Wrap Base.Corr Model.Data Model.Actions Model.Fsm Model.History Model.Eqb Model.FsmCorr
  Model.CrashCorr Model.C15Corr
  Proofs.Monad Proofs.ExecRule Proofs.MTac Proofs.Engine Proofs.HistRule.
Import ListNotations RecordSetNotations.
Open Scope Z_scope.

Strategy opaque [event_loop exec loop_fuel action_fuel pay_loop].

(* ================= the local guards ================= *)
(* in Prop form: what every effect satisfies relative to the data the action started from *)
Definition guard (d : swap_data) (e : effect) : Prop :=
  match e with
  | EBroadcastOpening _ _ _ _ _ _ _ => d_otb d = None
  | EBroadcastSpend _ _ => d_claim_txid d = EmptyString
  | ESend _ (MCancel _) => True
  | ESend p m => p = d_peer d /\ d_next_msg d = Some m
  | EPayClaim p _ _ _ _ => exists o, d_otb d = Some o /\ p = ob_payreq o
  | ERecoverPay p _ => exists o, d_otb d = Some o /\ p = ob_payreq o
  | _ => True
  end.

Lemma guard_fsm_state d s e : guard (d <| d_fsm_state := s |>) e -> guard d e.
Proof. destruct d; destruct e; cbn; auto. Qed.

Lemma guard_blinding d k e : guard (d <| d_blinding_hex := k |>) e -> guard d e.
Proof. destruct d; destruct e; cbn; auto. Qed.

Lemma guard_persist lp s d ok : guard lp (EPersist s d ok).
Proof. exact Logic.I. Qed.

Lemma str_nonempty_false s : str_nonempty s = false -> s = EmptyString.
Proof. unfold str_nonempty. intros H. apply negb_false_iff in H. apply String.eqb_eq in H. exact H. Qed.

Definition GN (d : swap_data) (e : effect) : Prop := guard d e /\ not_persist e.

Lemma pay_loop_guard n : forall csvh pol o d w r w' es,
  d_otb d = Some o ->
  pay_loop n csvh pol (ob_payreq o) d w = (r, w', es) -> Forall (GN d) es.
Proof.
  induction n as [|n IH]; intros csvh pol o d w r w' es Ho H.
  - rewrite pay_loop_O in H. msym. constructor.
  - rewrite pay_loop_S in H. msym; list_simpl; try constructor.
    + split; [cbn; eauto|exact Logic.I].
    + constructor.
    + split; [cbn; eauto|exact Logic.I].
    + eapply IH; eauto.
Qed.

Section Guard.
Variable tc : tl_consts.
Variable dec : string -> option (string * Z * Z).

Lemma leaf_guard name f : In (name, f) (leaf_actions tc dec) ->
  forall d w r w' es, f d w = (r, w', es) -> Forall (GN d) es.
Proof.
  intros Hin d w r w' es H. leaf_cases Hin.
  all: autounfold with actions in H; msym; list_simpl.
  all: try match goal with E : str_nonempty (d_claim_txid _) = false |- _ => apply str_nonempty_false in E end.
  all: try (repeat constructor; cbn; eauto; fail).
  all: try (repeat constructor; cbn; try match goal with |- context [match ?m with MInReq _ => _ | _ => _ end] => destruct m end; cbn; eauto; fail).
  all: try (constructor; [split; [cbn; eauto|exact Logic.I]|]; eapply pay_loop_guard; eauto; fail).
Qed.

Theorem exec_guard fuel a d w r w' es :
  exec tc dec fuel a d w = (r, w', es) -> Forall (GN d) es.
Proof.
  apply (exec_rule tc dec (fun d _ es => Forall (GN d) es)).
  - intros. eapply leaf_guard; eauto.
  - constructor.
  - intros. repeat constructor.
  - constructor.
  - intros d0 k r0 es0 _ H. eapply Forall_impl; [|exact H]. cbn. intros e [Hg Hn]. split; [|exact Hn].
    eapply guard_blinding; eauto.
  - intros d0 r0 es0 H. constructor; [split; exact Logic.I|exact H].
  - constructor.
  - auto.
  - intros d0 r0 es0 H. constructor; [split; exact Logic.I|exact H].
Qed.

(* every history, with crashes and restarts, any table, any environment *)
Theorem hist_guard t terminal m0 its :
  trace_ok guard (m_data m0) (hs_trace (run_hist tc dec t terminal (init_hstate m0) its)).
Proof.
  apply hist_local.
  - intros d s e. apply guard_fsm_state.
  - intros. exact Logic.I.
  - intros fuel a d w r w' es H. apply exec_guard in H. exact H.
Qed.

End Guard.

(* ---- the boolean guards of Model/C15Corr.v follow ---- *)
Lemma req_eqb_refl x : req_eqb x x = true.
Proof. unfold req_eqb, seq. rewrite !Z.eqb_refl, !String.eqb_refl. reflexivity. Qed.
Lemma wire_eqb_refl m : wire_eqb m m = true.
Proof.
  destruct m; cbn; unfold in_agr_eqb, out_agr_eqb, otb_eqb, coop_eqb, cancel_eqb, seq;
    rewrite ?req_eqb_refl, ?Z.eqb_refl, ?String.eqb_refl; reflexivity.
Qed.

Lemma guard_bools lp e : guard lp e ->
  c15_broadcast_guard lp e = true /\ c15_resend_guard lp e = true /\ c15_invoice_guard lp e = true.
Proof.
  destruct e; cbn; intros H; repeat split; auto.
  - destruct m; auto; destruct H as [-> H]; rewrite H, String.eqb_refl; cbn;
      rewrite ?req_eqb_refl; try apply wire_eqb_refl;
      unfold in_agr_eqb, out_agr_eqb, otb_eqb, coop_eqb, seq; rewrite ?Z.eqb_refl, ?String.eqb_refl; reflexivity.
  - destruct H as (o & -> & ->). apply String.eqb_refl.
  - destruct H as (o & -> & ->). apply String.eqb_refl.
  - unfold has_otb. rewrite H. reflexivity.
  - rewrite H. reflexivity.
Qed.

Lemma trace_ok_impl (P Q : swap_data -> effect -> Prop) lp es :
  (forall l e, P l e -> Q l e) -> trace_ok P lp es -> trace_ok Q lp es.
Proof.
  intros H. revert lp. induction es as [|e r IH]; intros lp; cbn; auto. intros [H1 H2]. split; auto.
Qed.

Theorem hist_guards_bool tc dec t terminal m0 its :
  let tr := hs_trace (run_hist tc dec t terminal (init_hstate m0) its) in
  trace_okb c15_broadcast_guard (m_data m0) tr = true /\
  trace_okb c15_resend_guard (m_data m0) tr = true /\
  trace_okb c15_invoice_guard (m_data m0) tr = true.
Proof.
  intros tr. pose proof (hist_guard tc dec t terminal m0 its) as H. fold tr in H.
  repeat split; apply trace_okb_ok; eapply trace_ok_impl; [|exact H| |exact H| |exact H];
    intros l e G; destruct (guard_bools l e G) as (A & B & C); assumption.
Qed.

(* ================= no payment after a durable cancel ================= *)
From PS Require Import Proofs.HistInv.

Lemma pay_loop_fsm_state n : forall csvh pol payreq d w r w' es,
  pay_loop n csvh pol payreq d w = (r, w', es) -> d_fsm_state (snd r) = d_fsm_state d.
Proof.
  induction n as [|n IH]; intros csvh pol payreq d w r w' es H.
  - rewrite pay_loop_O in H. msym. reflexivity.
  - rewrite pay_loop_S in H. msym; try reflexivity. eapply IH; eauto.
Qed.

Lemma in_list_in s l : in_list s l = true <-> In s l.
Proof.
  unfold in_list. rewrite existsb_exists. split.
  - intros (x & Hx & He). apply String.eqb_eq in He. subst. exact Hx.
  - intros H. exists s. split; [exact H|apply String.eqb_refl].
Qed.

Section Cancel.
Variable tc : tl_consts.
Variable dec : string -> option (string * Z * Z).
Variable t : table.
Variable terminal : list string.
Variable Zc : list string.
Hypothesis Hzc : cancel_zone_ok t Zc = true.

Lemma leaf_fsm_state name f : In (name, f) (leaf_actions tc dec) ->
  forall d w r w' es, f d w = (r, w', es) -> d_fsm_state (snd r) = d_fsm_state d.
Proof.
  intros Hin d w r w' es H. leaf_cases Hin.
  all: autounfold with actions in H; msym.
  all: try reflexivity.
  all: eapply pay_loop_fsm_state; eauto.
Qed.

Lemma exec_fsm_state fuel a d w r w' es :
  exec tc dec fuel a d w = (r, w', es) -> d_fsm_state (snd r) = d_fsm_state d.
Proof.
  apply (exec_rule tc dec (fun d r _ => d_fsm_state (snd r) = d_fsm_state d)).
  - intros. eapply leaf_fsm_state; eauto.
  - reflexivity.
  - reflexivity.
  - reflexivity.
  - intros d0 k r0 es0 _ H. exact H.
  - auto.
  - reflexivity.
  - auto.
  - auto.
Qed.

(* the cancel actions pay nothing *)
Lemma exec_cancel_action n ch d w r w' es :
  in_list n cancel_actions = true ->
  exec tc dec action_fuel (ANode n ch) d w = (r, w', es) -> forallb (fun e => negb (is_pay e)) es = true.
Proof.
  intros Hs H. with_strategy transparent [action_fuel] unfold action_fuel in H. rewrite exec_S in H. cbv zeta in H.
  unfold in_list, cancel_actions in Hs. cbn [existsb] in Hs. rewrite orb_false_r in Hs. apply orb_true_iff in Hs.
  destruct Hs as [Hs|Hs]; apply String.eqb_eq in Hs; subst n;
    cbn [String.eqb Ascii.eqb Bool.eqb andb] in H; cbn [assoc_str leaf_actions String.eqb Ascii.eqb Bool.eqb andb] in H.
  - autounfold with actions in H. msym; list_simpl; reflexivity.
  - msym. reflexivity.
Qed.

Definition IC (m : machine) : Prop := d_fsm_state (m_data m) = m_cur m.
Definition PC (lp : swap_data) (e : effect) : Prop := c15_cancel_guard Zc lp e = true.

Lemma cancel_zone_state s : in_list s Zc = true ->
  exists sd n ch, lookup_state t s = Some sd /\ st_action sd = Some (ANode n ch) /\ in_list n cancel_actions = true /\
    forall ev nx, assoc_str ev (st_events sd) = Some nx -> in_list nx Zc = true.
Proof.
  intros Hs. apply in_list_in in Hs. unfold cancel_zone_ok in Hzc. rewrite forallb_forall in Hzc. specialize (Hzc s Hs).
  destruct (lookup_state t s) as [sd|]; [|discriminate].
  destruct (st_action sd) as [[n ch]|] eqn:Ea; [|discriminate].
  apply andb_true_iff in Hzc. destruct Hzc as [Ha He]. exists sd, n, ch. repeat split; auto.
  intros ev nx Hev. apply assoc_str_in in Hev. rewrite forallb_forall in He. exact (He (ev, nx) Hev).
Qed.

(* effects of an action that runs in state [st] (data d) relative to a record whose state is [lpst] *)
Lemma cancel_effects st sd act d w r w' es lpst :
  lookup_state t st = Some sd -> st_action sd = Some act ->
  (in_list lpst Zc = true -> in_list st Zc = true) ->
  exec tc dec action_fuel act d w = (r, w', es) ->
  forall lp, d_fsm_state lp = lpst -> Forall (fun e => PC lp e /\ not_persist e) es.
Proof.
  intros Hl Ha Hz Hex lp Hlp.
  pose proof (exec_guard tc dec _ _ _ _ _ _ _ Hex) as G.
  destruct (in_list lpst Zc) eqn:Ez.
  - destruct (cancel_zone_state st (Hz eq_refl)) as (sd' & n & ch & Hl' & Ha' & Hn & _).
    rewrite Hl in Hl'. inversion Hl'; subst sd'. rewrite Ha in Ha'. inversion Ha'; subst act.
    pose proof (exec_cancel_action _ _ _ _ _ _ _ Hn Hex) as Hp. rewrite forallb_forall in Hp.
    apply Forall_forall. intros e He. rewrite Forall_forall in G. destruct (G e He) as [_ Hnp]. split; [|exact Hnp].
    unfold PC, c15_cancel_guard. destruct e; try (cbn in Hnp; contradiction);
      try (specialize (Hp _ He); cbn in Hp; cbn; try reflexivity; try discriminate).
  - eapply Forall_impl; [|exact G]. intros e [_ Hnp]. split; [|exact Hnp].
    unfold PC, c15_cancel_guard. destruct e; try (cbn in Hnp; contradiction); rewrite Hlp, Ez, andb_false_r; reflexivity.
Qed.

Theorem hist_cancel m0 its : d_fsm_state (m_data m0) = m_cur m0 ->
  trace_ok PC (m_data m0) (hs_trace (run_hist tc dec t terminal (init_hstate m0) its)).
Proof.
  intros H0.
  refine (proj1 (hist_inv tc dec t terminal IC PC _ _ _ _ _ _ _ m0 its H0)).
  - intros m r H. exact H.
  - intros m lp ok H. unfold PC, c15_cancel_guard. rewrite H. apply String.eqb_refl.
  - intros m ev nxt sd act HI Hn Hl Ha w ev' d' w' es Hex. split.
    + eapply (cancel_effects nxt sd act _ _ _ _ _ (m_cur m)); eauto.
      intros Hin. destruct (cancel_zone_state _ Hin) as (sd0 & n & ch & Hl0 & _ & _ & He).
      unfold next_state in Hn. rewrite Hl0 in Hn. eauto.
    + unfold IC. pose proof (exec_fsm_state _ _ _ _ _ _ _ Hex) as Hf. cbn in Hf. cbn. exact Hf.
  - intros m sd act HI Hl Ha _ w ev' d' w' es Hex. split.
    + eapply (cancel_effects (m_cur m) sd act _ _ _ _ _ (m_cur m)); eauto.
    + unfold IC in *. pose proof (exec_fsm_state _ _ _ _ _ _ _ Hex) as Hf. cbn in Hf. cbn. rewrite Hf. exact HI.
  - intros m c d' HI Hap. unfold IC in *. cbn. rewrite <- HI.
    destruct c; cbn in Hap;
      repeat match type of Hap with (match ?x with Some _ => _ | None => _ end) = _ => destruct x end;
      inversion Hap; subst; destruct (m_data m); reflexivity.
  - intros m hex HI. unfold IC in *. cbn. rewrite <- HI. destruct (m_data m); reflexivity.
  - intros lp m s d Hp. unfold PC, c15_cancel_guard in Hp. apply String.eqb_eq in Hp. unfold IC. cbn. exact Hp.
Qed.

End Cancel.

(* ================= the durable OpeningTxBroadcasted is never lost ================= *)
(* [dur_mono b es]: b says whether the last durable record has OpeningTxBroadcasted; if so, every record written
   (durable or not) has it too *)
Fixpoint dur_mono (b : bool) (es : list effect) : bool :=
  match es with
  | [] => true
  | EPersist _ d ok :: r => (negb b || has_otb d) && dur_mono (if ok then has_otb d else b) r
  | _ :: r => dur_mono b r
  end.
Fixpoint flag_end (b : bool) (es : list effect) : bool :=
  match es with
  | [] => b
  | EPersist _ d true :: r => flag_end (has_otb d) r
  | _ :: r => flag_end b r
  end.

Lemma dur_mono_app b a c : dur_mono b (a ++ c) = dur_mono b a && dur_mono (flag_end b a) c.
Proof.
  revert b. induction a as [|e r IH]; intros b; cbn [app dur_mono flag_end]; [reflexivity|].
  destruct e; try apply IH. destruct ok; rewrite IH, andb_assoc; reflexivity.
Qed.
Lemma flag_end_app b a c : flag_end b (a ++ c) = flag_end (flag_end b a) c.
Proof.
  revert b. induction a as [|e r IH]; intros b; cbn [app flag_end]; [reflexivity|].
  destruct e; try apply IH. destruct ok; apply IH.
Qed.
Lemma dur_mono_np b es : Forall not_persist es -> dur_mono b es = true /\ flag_end b es = b.
Proof.
  intros F. induction F as [|e r He _ IH]; [split; reflexivity|].
  destruct e; cbn in *; try exact IH. contradiction.
Qed.
Lemma flag_end_lp lp es : flag_end (has_otb lp) es = has_otb (lp_end lp es).
Proof.
  revert lp. induction es as [|e r IH]; intros lp; [reflexivity|].
  unfold lp_end. cbn [flag_end fold_left]. fold (lp_end (lp_step lp e) r).
  destruct e; try apply IH. destruct ok; apply IH.
Qed.
Lemma dur_mono_firstn b es k : dur_mono b es = true -> dur_mono b (firstn k es) = true.
Proof.
  revert b k. induction es as [|e r IH]; intros b [|k] H; try reflexivity.
  cbn [firstn dur_mono] in *. destruct e; auto.
  apply andb_true_iff in H. destruct H as [H1 H2]. rewrite H1. cbn. auto.
Qed.

Lemma pay_loop_otb n : forall csvh pol payreq d w r w' es,
  pay_loop n csvh pol payreq d w = (r, w', es) -> has_otb d = true -> has_otb (snd r) = true.
Proof.
  induction n as [|n IH]; intros csvh pol payreq d w r w' es H Ho.
  - rewrite pay_loop_O in H. msym. exact Ho.
  - rewrite pay_loop_S in H. msym; try exact Ho; try (destruct d; exact Ho). eapply IH; eauto.
Qed.

Section Otb.
Variable tc : tl_consts.
Variable dec : string -> option (string * Z * Z).
Variable t : table.
Variable terminal : list string.

Lemma leaf_otb name f : In (name, f) (leaf_actions tc dec) ->
  forall d w r w' es, f d w = (r, w', es) -> has_otb d = true -> has_otb (snd r) = true.
Proof.
  intros Hin d w r w' es H Ho. leaf_cases Hin.
  all: autounfold with actions in H; msym.
  all: try exact Ho.
  all: try reflexivity.
  all: try (destruct d; exact Ho).
  all: try (eapply pay_loop_otb; eauto).
Qed.

Lemma exec_otb fuel a d w r w' es :
  exec tc dec fuel a d w = (r, w', es) -> has_otb d = true -> has_otb (snd r) = true.
Proof.
  apply (exec_rule tc dec (fun d r _ => has_otb d = true -> has_otb (snd r) = true)).
  - intros. eapply leaf_otb; eauto.
  - auto.
  - auto.
  - auto.
  - intros d0 k r0 es0 _ H Ho. apply H. destruct d0; exact Ho.
  - auto.
  - auto.
  - auto.
  - auto.
Qed.

Lemma has_otb_fsm d s : has_otb (d <| d_fsm_state := s |>) = has_otb d.
Proof. destruct d; reflexivity. Qed.

(* the loop: b = the durable record has the announcement; then so has the machine *)
Lemma loop_otb fuel : forall m ev w m' res w' es b,
  (b = true -> has_otb (m_data m) = true) ->
  event_loop tc dec t fuel m ev w = ((m', res), w', es) ->
  dur_mono b es = true /\ (flag_end b es = true -> has_otb (m_data m') = true).
Proof.
  induction fuel as [|fuel IH]; intros m ev w m' res w' es b Hb H.
  - rewrite event_loop_O in H. apply ret_inv in H. destruct H as (H & _ & ->). inversion H; subst. cbn. auto.
  - rewrite event_loop_S in H.
    destruct (next_state t (m_cur m) ev) as [nxt|].
    2:{ apply ret_inv in H. destruct H as (H & _ & ->). inversion H; subst. cbn. auto. }
    destruct (lookup_state t nxt) as [sd|].
    2:{ apply ret_inv in H. destruct H as (H & _ & ->). inversion H; subst. cbn. auto. }
    destruct (st_action sd) as [act|].
    2:{ apply ret_inv in H. destruct H as (H & _ & ->). inversion H; subst. cbn. auto. }
    cbv zeta in H.
    apply bind_inv in H. destruct H as ([ev' d'] & w1 & e1 & e2 & Hex & H & ->).
    pose proof (exec_guard tc dec _ _ _ _ _ _ _ Hex) as G.
    assert (Np : Forall not_persist e1) by (eapply Forall_impl; [|exact G]; intros e [_ X]; exact X).
    destruct (dur_mono_np b e1 Np) as [D1 F1].
    assert (Hd' : b = true -> has_otb d' = true).
    { intros Hbt. apply (exec_otb _ _ _ _ _ _ _ Hex). cbn [m_data]. cbn. rewrite has_otb_fsm. auto. }
    rewrite dur_mono_app, flag_end_app, D1, F1. cbn [andb].
    destruct (String.eqb ev' Ev_Panic).
    { apply ret_inv in H. destruct H as (H & _ & ->). inversion H; subst. cbn. auto. }
    apply bind_inv in H. destruct H as (ok & w2 & e3 & e4 & Hp & H & ->).
    apply persist_inv in Hp. subst e3. cbn -[has_otb].
    assert (Hfirst : negb b || has_otb d' = true).
    { destruct b; [cbn; auto|reflexivity]. }
    rewrite Hfirst. cbn [andb].
    destruct ok; cbn [negb] in H.
    2:{ apply ret_inv in H. destruct H as (H & _ & ->). inversion H; subst. cbn. split; [reflexivity|]. exact Hd'. }
    assert (Hrec : forall mm evx mx rx wy ey, m_data mm = d' ->
              event_loop tc dec t fuel mm evx w2 = ((mx, rx), wy, ey) ->
              dur_mono (has_otb d') ey = true /\ (flag_end (has_otb d') ey = true -> has_otb (m_data mx) = true)).
    { intros mm evx mx rx wy ey Hd Hl. eapply IH; [|exact Hl]. rewrite Hd. auto. }
    destruct (String.eqb ev' Ev_Done).
    { apply ret_inv in H. destruct H as (H & _ & ->). inversion H; subst. cbn. auto. }
    destruct (String.eqb ev' Ev_NoOp).
    { apply ret_inv in H. destruct H as (H & _ & ->). inversion H; subst. cbn. auto. }
    destruct (String.eqb ev' Ev_Retry).
    + cbv zeta in H.
      match type of H with (if ?c then _ else _) _ = _ => destruct c end.
      * apply ret_inv in H. destruct H as (H & _ & ->). inversion H; subst. cbn. auto.
      * eapply Hrec; [|exact H]. reflexivity.
    + eapply Hrec; [|exact H]. reflexivity.
Qed.

Definition otb_spec {A} (get : A -> machine) (b : bool) (a : A) (es : list effect) : Prop :=
  dur_mono b es = true /\ (flag_end b es = true -> has_otb (m_data (get a)) = true).

Lemma ptl_otb mm ev w m' res w' es b :
  (b = true -> has_otb (m_data mm) = true) ->
  persist_then_loop tc dec t mm ev w = ((m', res), w', es) ->
  dur_mono b es = true /\ (flag_end b es = true -> has_otb (m_data m') = true).
Proof.
  intros Hb H. unfold persist_then_loop in H.
  apply bind_inv in H. destruct H as (ok & w1 & e1 & e2 & Hp & H & ->).
  apply persist_inv in Hp. subst e1. cbn -[has_otb].
  assert (Hfirst : negb b || has_otb (m_data mm) = true) by (destruct b; [cbn; auto|reflexivity]).
  rewrite Hfirst. cbn [andb].
  destruct ok; cbn [negb] in H.
  - eapply loop_otb; [|exact H]. auto.
  - apply ret_inv in H. destruct H as (H & _ & ->). inversion H; subst. cbn. auto.
Qed.

Lemma apply_ctx_otb d c d' : apply_ctx d c = Some d' -> has_otb d = true -> has_otb d' = true.
Proof.
  intros H Ho. destruct c; cbn in H;
    repeat match type of H with (match ?x with Some _ => _ | None => _ end) = _ => destruct x eqn:? end;
    inversion H; subst; try (destruct d; exact Ho); try reflexivity.
Qed.

Lemma send_otb m ev ctx w m' res w' es b :
  (b = true -> has_otb (m_data m) = true) ->
  send_event tc dec t m ev ctx w = ((m', res), w', es) ->
  dur_mono b es = true /\ (flag_end b es = true -> has_otb (m_data m') = true).
Proof.
  intros Hb H. unfold send_event in H.
  destruct (String.eqb ev Ev_Done).
  { apply ret_inv in H. destruct H as (H & _ & ->). inversion H; subst. cbn. auto. }
  destruct (next_state t (m_cur m) ev).
  2:{ apply ret_inv in H. destruct H as (H & _ & ->). inversion H; subst. cbn. auto. }
  destruct ctx as [c|].
  - destruct (validate_ctx (m_data m) c); cbn [negb] in H.
    + destruct (apply_ctx (m_data m) c) as [d'|] eqn:Hap.
      * eapply ptl_otb; [|exact H]. cbn. intros Hbt. eapply apply_ctx_otb; eauto.
      * apply ret_inv in H. destruct H as (H & _ & ->). inversion H; subst. cbn. auto.
    + unfold accepted_then_loop in H. destruct (next_state t (m_cur m) Ev_Invalid).
      * eapply ptl_otb; eauto.
      * apply ret_inv in H. destruct H as (H & _ & ->). inversion H; subst. cbn. auto.
  - eapply ptl_otb; eauto.
Qed.

Lemma recover_otb m w m' res w' es b :
  (b = true -> has_otb (m_data m) = true) ->
  recover tc dec t m w = ((m', res), w', es) ->
  dur_mono b es = true /\ (flag_end b es = true -> has_otb (m_data m') = true).
Proof.
  intros Hb H. unfold recover in H.
  destruct (lookup_state t (m_cur m)) as [sd|].
  2:{ apply ret_inv in H. destruct H as (H & _ & ->). inversion H; subst. cbn. auto. }
  destruct (st_action sd) as [act|].
  2:{ apply ret_inv in H. destruct H as (H & _ & ->). inversion H; subst. cbn. auto. }
  destruct (st_fail_on_recover sd).
  { eapply send_otb; eauto. }
  apply bind_inv in H. destruct H as ([ev' d'] & w1 & e1 & e2 & Hex & H & ->).
  pose proof (exec_guard tc dec _ _ _ _ _ _ _ Hex) as G.
  assert (Np : Forall not_persist e1) by (eapply Forall_impl; [|exact G]; intros e [_ X]; exact X).
  destruct (dur_mono_np b e1 Np) as [D1 F1].
  assert (Hd' : b = true -> has_otb d' = true).
  { intros Hbt. apply (exec_otb _ _ _ _ _ _ _ Hex). auto. }
  rewrite dur_mono_app, flag_end_app, D1, F1. cbn [andb].
  destruct (String.eqb ev' Ev_Panic).
  { apply ret_inv in H. destruct H as (H & _ & ->). inversion H; subst. cbn. auto. }
  apply bind_inv in H. destruct H as (ok & w2 & e3 & e4 & Hp & H & ->).
  apply persist_inv in Hp. subst e3. cbn -[has_otb].
  assert (Hfirst : negb b || has_otb d' = true) by (destruct b; [cbn; auto|reflexivity]).
  rewrite Hfirst. cbn [andb].
  destruct ok; cbn [negb] in H.
  2:{ apply ret_inv in H. destruct H as (H & _ & ->). inversion H; subst. cbn. auto. }
  destruct (String.eqb ev' Ev_NoOp).
  { apply ret_inv in H. destruct H as (H & _ & ->). inversion H; subst. cbn. auto. }
  eapply send_otb; [|exact H]. cbn. auto.
Qed.

Lemma has_otb_hex d h : has_otb (d <| d_opening_hex := h |>) = has_otb d.
Proof. destruct d; reflexivity. Qed.

Lemma step_otb m i w o w' es b :
  (b = true -> has_otb (m_data m) = true) ->
  step tc dec t terminal m i w = (o, w', es) ->
  dur_mono b es = true /\ (flag_end b es = true -> has_otb (m_data (o_machine o)) = true).
Proof.
  intros Hb H. destruct i as [ev ctx|rq|hex err| | |]; unfold step in H.
  - apply bind_inv in H. destruct H as ([m1 res] & w1 & e1 & e2 & Hs & H & ->).
    apply ret_inv in H. destruct H as (-> & _ & ->). rewrite app_nil_r. eapply send_otb; eauto.
  - apply bind_inv in H. destruct H as ([m1 res] & w1 & e1 & e2 & Hs & H & ->).
    apply ret_inv in H. destruct H as (-> & _ & ->). rewrite app_nil_r. eapply send_otb; eauto.
  - apply bind_inv in H. destruct H as ([m0 rem0] & w1 & e1 & e2 & H0 & H & ->).
    apply bind_inv in H. destruct H as ([m1 res] & w2 & e3 & e4 & Hs & H & ->).
    apply ret_inv in H. destruct H as (-> & _ & ->). rewrite app_nil_r. cbn [o_machine].
    assert (Pre : dur_mono b e1 = true /\ (flag_end b e1 = true -> has_otb (m_data m0) = true)).
    { destruct err.
      - apply bind_inv in H0. destruct H0 as ([mx rx] & wx & ex & ey & Hs0 & H0 & ->).
        apply ret_inv in H0. destruct H0 as (H0 & _ & ->). inversion H0; subst. rewrite app_nil_r.
        eapply send_otb; eauto.
      - apply ret_inv in H0. destruct H0 as (H0 & _ & ->). inversion H0; subst. cbn. auto. }
    destruct Pre as [D1 F1]. rewrite dur_mono_app, flag_end_app, D1. cbn [andb].
    eapply send_otb; [|exact Hs]. cbn. rewrite has_otb_hex. exact F1.
  - apply bind_inv in H. destruct H as ([m1 res] & w1 & e1 & e2 & Hs & H & ->).
    apply ret_inv in H. destruct H as (-> & _ & ->). rewrite app_nil_r. eapply send_otb; eauto.
  - apply bind_inv in H. destruct H as ([m1 res] & w1 & e1 & e2 & Hs & H & ->).
    apply ret_inv in H. destruct H as (-> & _ & ->). rewrite app_nil_r. eapply send_otb; eauto.
  - destruct (is_finished terminal (m_cur m)).
    { apply ret_inv in H. destruct H as (-> & _ & ->). cbn. auto. }
    apply bind_inv in H. destruct H as ([m1 res] & w1 & e1 & e2 & Hs & H & ->).
    apply ret_inv in H. destruct H as (-> & _ & ->). rewrite app_nil_r. eapply recover_otb; eauto.
Qed.

(* whole histories *)
Theorem hist_otb m0 its :
  dur_mono (has_otb (m_data m0)) (hs_trace (run_hist tc dec t terminal (init_hstate m0) its)) = true.
Proof.
  unfold run_hist. set (b0 := has_otb (m_data m0)).
  assert (Gen : forall its h,
            (dur_mono b0 (hs_trace h) = true /\
             (flag_end b0 (hs_trace h) = true -> forall m, hs_machine h = Some m -> has_otb (m_data m) = true)) ->
            let h' := fold_left (hist_step tc dec t terminal) its h in
            dur_mono b0 (hs_trace h') = true /\
            (flag_end b0 (hs_trace h') = true -> forall m, hs_machine h' = Some m -> has_otb (m_data m) = true)).
  { clear its. induction its as [|it r IH]; intros h Hh; [exact Hh|].
    cbn [fold_left]. apply IH. destruct Hh as [Hd Hm]. unfold hist_step.
    destruct (hs_machine h) as [mh|] eqn:Hmh; [|split; [exact Hd|intros _ m E; rewrite Hmh in E; discriminate]].
    assert (Rest : forall m tr mr, restore m tr = Some mr -> has_otb (m_data mr) = flag_end b0 tr).
    { intros m tr mr Hr. rewrite (restore_data m tr mr (m_data m0) Hr). unfold b0. symmetry. apply flag_end_lp. }
    assert (Pick : forall m, (if is_recover (item_input it) then restore mh (hs_trace h) else Some mh) = Some m ->
                     flag_end b0 (hs_trace h) = true -> has_otb (m_data m) = true).
    { intros m Hm' Hf. destruct (is_recover (item_input it)).
      - rewrite (Rest _ _ _ Hm'). exact Hf.
      - inversion Hm'; subst. apply Hm; auto. }
    destruct (if is_recover (item_input it) then restore mh (hs_trace h) else Some mh) as [m|] eqn:Hsel.
    2:{ cbn. split; [exact Hd|]. intros _ m E. discriminate. }
    destruct it as [i w|i w k];
      destruct (run_step tc dec t terminal m i w) as [[o w'] es] eqn:Hs; cbn [hs_trace hs_machine];
      destruct (step_otb m i w o w' es (flag_end b0 (hs_trace h)) (Pick m eq_refl) Hs) as [De Fe].
    + rewrite dur_mono_app, flag_end_app, Hd, De. split; [reflexivity|].
      intros Hf m2 E. inversion E; subst. auto.
    + rewrite dur_mono_app, Hd, (dur_mono_firstn _ _ k De). split; [reflexivity|].
      intros Hf m2 E. rewrite (Rest _ _ _ E). exact Hf. }
  apply Gen. cbn. split; [reflexivity|]. intros Hf m E. inversion E; subst. exact Hf.
Qed.

End Otb.

(* ================= at most one opening transaction ================= *)
Definition open_guard (lp : swap_data) (e : effect) : Prop := is_opening e = true -> has_otb lp = false.

Lemma count_cons {A} (f : A -> bool) x l : count f (x :: l) = ((if f x then 1 else 0) + count f l)%nat.
Proof. unfold count. cbn [filter]. destruct (f x); reflexivity. Qed.

Lemma no_opening_once_recorded es : forall lp,
  has_otb lp = true -> trace_ok open_guard lp es -> dur_mono true es = true -> count opening_ok es = O.
Proof.
  induction es as [|e r IH]; intros lp Hl T D; [reflexivity|].
  cbn [trace_ok] in T. destruct T as [T1 T2]. rewrite count_cons.
  assert (Hno : opening_ok e = false).
  { destruct (opening_ok e) eqn:E; [|reflexivity].
    assert (is_opening e = true) by (destruct e; try discriminate; reflexivity).
    rewrite (T1 H) in Hl. discriminate. }
  rewrite Hno. cbn [plus].
  assert (Hstep : has_otb (lp_step lp e) = true /\ dur_mono true r = true).
  { destruct e; cbn [dur_mono lp_step] in D |- *; try (split; assumption).
    apply andb_true_iff in D. destruct D as [D1 D2]. cbn [negb orb] in D1.
    destruct ok.
    - rewrite D1 in D2. split; assumption.
    - split; assumption. }
  destruct Hstep as [H1 H2]. eapply IH; eauto.
Qed.

Lemma single_opening es : forall lp,
  trace_ok open_guard lp es -> dur_mono (has_otb lp) es = true -> opening_recorded es = true ->
  (count opening_ok es <= 1)%nat.
Proof.
  induction es as [|e r IH]; intros lp T D R; [cbn; lia|].
  cbn [trace_ok] in T. destruct T as [T1 T2]. rewrite count_cons.
  cbn [opening_recorded] in R. apply andb_true_iff in R. destruct R as [R1 R2].
  destruct (opening_ok e) eqn:Eo.
  - (* the first opening transaction: what follows records it, and then there is no further one *)
    assert (Hlp : lp_step lp e = lp) by (destruct e; try discriminate; reflexivity).
    rewrite Hlp in T2.
    assert (De : dur_mono (has_otb lp) r = true) by (destruct e; try discriminate; exact D).
    destruct r as [|e2 r2]; [cbn; lia|].
    destruct e2; try discriminate. destruct ok; try discriminate.
    rewrite count_cons. cbn [opening_ok plus].
    cbn [trace_ok lp_step] in T2. destruct T2 as [_ T3].
    cbn [dur_mono] in De. apply andb_true_iff in De. destruct De as [_ De]. rewrite R1 in De.
    rewrite (no_opening_once_recorded r2 d R1 T3 De). lia.
  - cbn [plus].
    assert (D' : dur_mono (has_otb (lp_step lp e)) r = true).
    { destruct e; cbn [dur_mono lp_step] in *; try exact D.
      apply andb_true_iff in D. destruct D as [_ D]. destruct ok; exact D. }
    eapply IH; eauto.
Qed.

Theorem hist_single_opening tc dec t terminal m0 its :
  let tr := hs_trace (run_hist tc dec t terminal (init_hstate m0) its) in
  opening_recorded tr = true -> (count opening_ok tr <= 1)%nat.
Proof.
  intros tr R. apply (single_opening tr (m_data m0)); auto.
  - eapply trace_ok_impl; [|apply (hist_guard tc dec t terminal m0 its)].
    intros l e G Ho. destruct e; try discriminate. cbn in G. unfold has_otb. rewrite G. reflexivity.
  - apply hist_otb.
Qed.

(* ================= the generated tables ================= *)
From PS Require Import Gen.Tables Gen.ConstsSwap.

Definition all_tables : list table :=
  [table_swap_out_sender; table_swap_out_receiver; table_swap_in_sender; table_swap_in_receiver].

Lemma tables_cancel_zone : forallb (fun t => cancel_zone_ok t cancel_states) all_tables = true.
Proof. vm_compute. reflexivity. Qed.

Theorem no_pay_after_cancel_generated : forall t, In t all_tables -> forall tc dec terminal id ty role peer ini key its,
  trace_okb (c15_cancel_guard cancel_states) (m_data (fresh_machine id ty role peer ini key))
    (hs_trace (run_hist tc dec t terminal (init_hstate (fresh_machine id ty role peer ini key)) its)) = true.
Proof.
  intros t Hin tc dec terminal id ty role peer ini key its.
  pose proof tables_cancel_zone as H. rewrite forallb_forall in H. specialize (H t Hin).
  apply trace_okb_ok. apply (hist_cancel tc dec t terminal cancel_states H). reflexivity.
Qed.

(* non-vacuity of the guards *)
Example guards_discriminate :
  let o := mkOtb "id" "lnclaim1" "tx" 0 "" in
  let d0 := fresh_data "peer" "me" "key" in
  let d1 := mkData None None None None (Some o) None None "peer" "me" "key" "" 0 "" 0 false "" "" "" ""
                   (Some (MOtb o)) "State_SendCancel" in
  c15_broadcast_guard d0 (EBroadcastOpening "t" "m" "h" 1 2 false None) = true /\
  c15_broadcast_guard d1 (EBroadcastOpening "t" "m" "h" 1 2 false None) = false /\
  c15_resend_guard d1 (ESend "peer" (MOtb o)) = true /\
  c15_resend_guard d1 (ESend "peer" (MOtb (mkOtb "id" "lnclaim1" "tx2" 0 ""))) = false /\
  c15_resend_guard d1 (ESend "other" (MOtb o)) = false /\
  c15_invoice_guard d1 (EPayClaim "lnclaim1" "1x2x3" 32 100 None) = true /\
  c15_invoice_guard d1 (EPayClaim "lnclaim2" "1x2x3" 32 100 None) = false /\
  c15_cancel_guard cancel_states d1 (EPayClaim "lnclaim1" "1x2x3" 32 100 None) = false /\
  c15_cancel_guard cancel_states d0 (EPayClaim "lnclaim1" "1x2x3" 32 100 None) = true.
Proof. vm_compute. repeat split; reflexivity. Qed.
