(* C24 — lemmas about the payment route / request builders (Model/PayRoute.v). *)
From Coq Require Import String Ascii ZArith Bool Lia ZifyBool DecimalString List.
From PS Require Import Base.Strs Base.Corr Model.PayRoute Model.C24Corr Gen.ConstsC24.
Import ListNotations.
Open Scope Z_scope.

Ltac Zify.zify_post_hook ::= Z.to_euclidean_division_equations.

(* ---------- Go conversions are the identity in range *)
Lemma to_i64_small z : -2^63 <= z < 2^63 -> to_i64 z = z.
Proof. intros H. unfold to_i64. cbv zeta. destruct (Z.ltb_spec (z mod 2^64) (2^63)); lia. Qed.

Lemma to_u64_small z : 0 <= z < 2^64 -> to_u64 z = z.
Proof. intros H. unfold to_u64. apply Z.mod_small; lia. Qed.

Lemma to_u32_small z : 0 <= z < 2^32 -> to_u32 z = z.
Proof. intros H. unfold to_u32. apply Z.mod_small; lia. Qed.

Lemma to_i32_small z : -2^31 <= z < 2^31 -> to_i32 z = z.
Proof. intros H. unfold to_i32. cbv zeta. destruct (Z.ltb_spec (z mod 2^32) (2^31)); lia. Qed.

Lemma to_u32_range z : 0 <= to_u32 z < 2^32.
Proof. unfold to_u32. apply Z.mod_pos_bound. lia. Qed.

(* ---------- Scid spellings *)
Lemma replace_byte_app o n a b :
  replace_byte o n (a ++ b) = (replace_byte o n a ++ replace_byte o n b)%string.
Proof. induction a as [|c a IH]; simpl; [reflexivity | now rewrite IH]. Qed.

Lemma replace_byte_absent o n s : has_byte o s = false -> replace_byte o n s = s.
Proof.
  induction s as [|c s IH]; simpl; intros H; [reflexivity|].
  apply orb_false_iff in H. destruct H as [H1 H2]. rewrite H1, IH; auto.
Qed.

Lemma has_byte_app b s t : has_byte b (s ++ t) = has_byte b s || has_byte b t.
Proof. induction s as [|c s IH]; simpl; [reflexivity | now rewrite IH, orb_assoc]. Qed.

Lemma cln_of_lnd_style s : cln_style (lnd_style s) = cln_style s.
Proof.
  unfold cln_style, lnd_style. induction s as [|c s IH]; simpl; [reflexivity|].
  rewrite IH. f_equal.
  destruct (Ascii.eqb_spec c "x"%char) as [->|Hx]; simpl; [reflexivity|].
  reflexivity.
Qed.

Lemma cln_style_idem s : cln_style (cln_style s) = cln_style s.
Proof.
  unfold cln_style. induction s as [|c s IH]; simpl; [reflexivity|].
  rewrite IH. f_equal.
  destruct (Ascii.eqb_spec c ":"%char) as [->|Hc]; simpl; [reflexivity|].
  destruct (Ascii.eqb_spec c ":"%char); [contradiction | reflexivity].
Qed.

Lemma cln_style_no_colon s : has_byte ":"%char (cln_style s) = false.
Proof.
  unfold cln_style. induction s as [|c s IH]; simpl; [reflexivity|].
  rewrite IH, orb_false_r.
  destruct (Ascii.eqb_spec c ":"%char) as [->|Hc]; simpl; [reflexivity|].
  now apply Ascii.eqb_neq.
Qed.

Lemma cln_style_length s : String.length (cln_style s) = String.length s.
Proof. unfold cln_style. induction s as [|c s IH]; simpl; [reflexivity | now rewrite IH]. Qed.

(* every byte of the result is the input byte, except that ':' became 'x' *)
Lemma cln_style_same_scid s : same_scid (cln_style s) s = true.
Proof.
  unfold cln_style. induction s as [|c s IH]; simpl; [reflexivity|].
  rewrite IH, andb_true_r.
  destruct (Ascii.eqb_spec c ":"%char) as [->|Hc]; simpl; [reflexivity|].
  now rewrite Ascii.eqb_refl.
Qed.

(* ---------- CLN *)
Lemma cln_route_single_hop inv scid limit r :
  cln_route inv scid limit = Some r ->
  exists delay, 0 <= delay < 2^32 /\
    r = [mk_cln_hop (ci_payee inv) (cln_style scid) (ci_msat inv) delay 0].
Proof.
  unfold cln_route. cbv zeta. intros H.
  destruct (limit =? 0).
  - inversion H; subst. eexists; split; [apply to_u32_range | reflexivity].
  - destruct ((ci_min_final inv <? 0) || (max_uint32 <=? to_u64 (ci_min_final inv))); [discriminate|].
    destruct (cltv_delta_rejected _ limit); [discriminate|].
    inversion H; subst. eexists; split; [apply to_u32_range | reflexivity].
Qed.

Lemma cln_pay_spec dec payreq scid limit sp :
  cln_pay dec payreq scid limit = Some sp ->
  exists inv delay, dec = Some inv /\ 0 <= delay < 2^32 /\
    sp_route sp = [mk_cln_hop (ci_payee inv) (cln_style scid) (ci_msat inv) delay 0] /\
    sp_msat sp = ci_msat inv /\ sp_hash sp = ci_hash inv /\ sp_bolt11 sp = payreq.
Proof.
  unfold cln_pay. intros H. destruct dec as [inv|]; [|discriminate].
  destruct (cln_route inv scid limit) as [r|] eqn:E; [|discriminate].
  apply cln_route_single_hop in E. destruct E as [d [Hd ->]].
  inversion H; subst; simpl. exists inv, d. repeat split; auto; lia.
Qed.

Lemma cln_route_spelling inv s limit :
  cln_route inv (lnd_style s) limit = cln_route inv s limit /\
  cln_route inv (cln_style s) limit = cln_route inv s limit.
Proof. unfold cln_route. now rewrite cln_of_lnd_style, cln_style_idem. Qed.

Lemma cln_pay_spelling dec payreq s limit :
  cln_pay dec payreq (lnd_style s) limit = cln_pay dec payreq s limit /\
  cln_pay dec payreq (cln_style s) limit = cln_pay dec payreq s limit.
Proof.
  unfold cln_pay. destruct dec as [inv|]; [|split; reflexivity].
  destruct (cln_route_spelling inv s limit) as [-> ->]. split; reflexivity.
Qed.

(* the monitor used on observed routes accepts every route the model builds *)
Lemma cln_route_monitor inv scid limit r :
  cln_route inv scid limit = Some r -> mon_cln_route (ci_payee inv) (ci_msat inv) scid r = true.
Proof.
  intros H. apply cln_route_single_hop in H. destruct H as [d [_ ->]]. simpl.
  rewrite String.eqb_refl, Z.eqb_refl, cln_style_same_scid, cln_style_no_colon. reflexivity.
Qed.

(* with a CLTV limit (claim payment): no wrap-around, delay = final delta + 1 <= limit *)
Lemma cln_route_cltv_limited inv scid limit r :
  limit <> 0 -> -2^63 <= ci_min_final inv < 2^63 ->
  cln_route inv scid limit = Some r ->
  0 <= ci_min_final inv /\ ci_min_final inv + 1 <= limit /\
  r = [mk_cln_hop (ci_payee inv) (cln_style scid) (ci_msat inv) (ci_min_final inv + 1) 0].
Proof.
  intros Hl Hr. unfold cln_route. cbv zeta.
  destruct (Z.eqb_spec limit 0) as [|_]; [contradiction|].
  destruct (Z.ltb_spec (ci_min_final inv) 0) as [|H0]; simpl; [discriminate|].
  rewrite to_u64_small by lia.
  unfold max_uint32. destruct (Z.leb_spec 4294967295 (ci_min_final inv)) as [|H1]; [discriminate|].
  rewrite to_i64_small by lia. rewrite to_u32_small by lia.
  unfold cltv_delta_rejected.
  destruct (Z.eqb_spec limit 0) as [|_]; [contradiction|]. simpl.
  destruct (Z.ltb_spec limit (ci_min_final inv + 1)) as [|H2]; [discriminate|].
  intros H; inversion H; subst. repeat split; auto.
Qed.

(* without a limit (fee invoice): delay = final delta + 1 whenever that fits a uint32 *)
Lemma cln_route_cltv_legacy inv scid r :
  0 <= ci_min_final inv + 1 < 2^32 ->
  cln_route inv scid 0 = Some r ->
  r = [mk_cln_hop (ci_payee inv) (cln_style scid) (ci_msat inv) (ci_min_final inv + 1) 0].
Proof.
  intros Hr. unfold cln_route. cbv zeta. simpl (0 =? 0).
  cbv iota. rewrite to_i64_small by lia. rewrite to_u32_small by lia.
  intros H; inversion H; reflexivity.
Qed.

(* ---------- LND *)
Lemma chan_matches_iff scid c :
  chan_matches scid c = true <-> scid = scid_lnd (lc_id c) \/ scid = scid_cln (lc_id c).
Proof.
  unfold chan_matches. rewrite orb_true_iff, !String.eqb_eq. intuition congruence.
Qed.

Lemma find_chan_spec scid cs c :
  find_chan scid cs = Some c ->
  exists pre post, cs = pre ++ c :: post /\ chan_matches scid c = true /\
    forall c', In c' pre -> chan_matches scid c' = false.
Proof.
  induction cs as [|x cs IH]; simpl; [discriminate|].
  destruct (chan_matches scid x) eqn:E.
  - intros H; inversion H; subst. exists [], cs. simpl. repeat split; auto. intros ? [].
  - intros H. destruct (IH H) as [pre [post [-> [Hm Hp]]]].
    exists (x :: pre), post. repeat split; auto.
    intros c' [<-|Hin]; auto.
Qed.

Lemma find_chan_in scid cs c : find_chan scid cs = Some c -> In c cs.
Proof.
  intros H. destruct (find_chan_spec _ _ _ H) as [pre [post [-> _]]].
  apply in_or_app. right. left. reflexivity.
Qed.

Lemma lnd_build_spec pad payreq inv c limit q :
  lnd_build pad payreq inv c limit = Some q ->
  li_dest inv = lc_remote c /\ rq_payreq q = payreq /\ rq_chans q = [lc_id c] /\
  rq_max_parts q = 1 /\ rq_amt q = 0 /\ rq_amt_msat q = 0 /\ rq_dest_len q = 0.
Proof.
  unfold lnd_build. cbv zeta.
  destruct (String.eqb_spec (li_dest inv) (lc_remote c)) as [He|]; simpl; [|discriminate].
  intros H.
  assert (exists l, q = mk_lnd_req payreq l [lc_id c] 1 0 0 0) as [l ->].
  { destruct (limit =? 0); [inversion H; eauto|].
    destruct (li_cltv inv <? 0); [discriminate|].
    destruct (max_uint32 <? _); [discriminate|].
    destruct (cltv_delta_rejected _ _); [discriminate|].
    destruct (max_int32 <=? limit); [discriminate|]. inversion H; eauto. }
  simpl. repeat split; auto.
Qed.

Lemma lnd_build_refuses pad payreq inv c limit :
  li_dest inv <> lc_remote c -> lnd_build pad payreq inv c limit = None.
Proof.
  intros H. unfold lnd_build.
  destruct (String.eqb_spec (li_dest inv) (lc_remote c)); [contradiction | reflexivity].
Qed.

Lemma lnd_pay_spec pad dec chans payreq scid limit q :
  lnd_pay pad dec chans payreq scid limit = Some q ->
  exists inv cs c, dec = Some inv /\ chans = Some cs /\
    find_chan scid cs = Some c /\ In c cs /\
    (scid = scid_lnd (lc_id c) \/ scid = scid_cln (lc_id c)) /\
    li_dest inv = lc_remote c /\ rq_payreq q = payreq /\ rq_chans q = [lc_id c] /\
    rq_max_parts q = 1 /\ rq_amt q = 0 /\ rq_amt_msat q = 0 /\ rq_dest_len q = 0.
Proof.
  unfold lnd_pay. destruct dec as [inv|]; [|discriminate].
  destruct chans as [cs|]; [|discriminate].
  unfold check_channel. destruct (find_chan scid cs) as [c|] eqn:F; [|discriminate].
  destruct (lc_local c <? _); [discriminate|].
  intros H. apply lnd_build_spec in H.
  exists inv, cs, c. repeat split; try tauto.
  - eapply find_chan_in; eauto.
  - apply chan_matches_iff. destruct (find_chan_spec _ _ _ F) as [? [? [_ [Hm _]]]]. exact Hm.
Qed.

Lemma lnd_pay_refuses pad inv cs c payreq scid limit :
  find_chan scid cs = Some c -> li_dest inv <> lc_remote c ->
  lnd_pay pad (Some inv) (Some cs) payreq scid limit = None.
Proof.
  intros F Hd. unfold lnd_pay, check_channel. rewrite F.
  destruct (lc_local c <? _); [reflexivity|]. now apply lnd_build_refuses.
Qed.

Lemma lnd_pay_no_channel pad dec cs payreq scid limit :
  find_chan scid cs = None -> lnd_pay pad dec (Some cs) payreq scid limit = None.
Proof.
  intros F. unfold lnd_pay, check_channel. rewrite F. destruct dec; reflexivity.
Qed.

(* the monitor used on observed requests accepts every request the model sends *)
Lemma lnd_pay_monitor pad inv cs payreq scid limit q :
  lnd_pay pad (Some inv) (Some cs) payreq scid limit = Some q ->
  mon_lnd_req (li_dest inv) payreq scid cs q = true.
Proof.
  intros H. apply lnd_pay_spec in H.
  destruct H as [inv' [cs' [c [E1 [E2 [F [Hin [Hs [Hd [Hp [Hc [Hm [Ha [Ham Hl]]]]]]]]]]]]]].
  inversion E1; inversion E2; subst inv' cs'.
  unfold mon_lnd_req. rewrite Hp, Hm, Ha, Ham, Hl, Hc, String.eqb_refl. simpl.
  apply existsb_exists. exists c. split; [exact Hin|].
  rewrite Z.eqb_refl, Hd, String.eqb_refl, andb_true_r. simpl.
  unfold spelled. apply orb_true_iff. rewrite !String.eqb_eq. exact Hs.
Qed.

(* with a CLTV limit: no wrap-around; invoice delta + padding <= limit < 2^31-1; cltv_limit = limit+1 *)
Lemma lnd_build_cltv_limited pad payreq inv c limit q :
  limit <> 0 -> 0 <= limit < 2^32 -> 0 <= pad < 2^16 -> -2^63 <= li_cltv inv < 2^63 ->
  lnd_build pad payreq inv c limit = Some q ->
  0 <= li_cltv inv /\ li_cltv inv + pad <= limit /\ limit < max_int32 /\ rq_cltv_limit q = limit + 1.
Proof.
  intros Hl Hlr Hp Hc. unfold lnd_build. cbv zeta.
  destruct (String.eqb (li_dest inv) (lc_remote c)); simpl; [|discriminate].
  destruct (Z.eqb_spec limit 0) as [|_]; [contradiction|].
  destruct (Z.ltb_spec (li_cltv inv) 0) as [|H0]; [discriminate|].
  rewrite (to_u64_small (li_cltv inv)) by lia.
  rewrite to_u64_small by lia.
  unfold max_uint32, max_int32.
  destruct (Z.ltb_spec 4294967295 (li_cltv inv + pad)) as [|H1]; [discriminate|].
  rewrite (to_u32_small (li_cltv inv + pad)) by lia.
  unfold cltv_delta_rejected.
  destruct (Z.eqb_spec limit 0) as [|_]; [contradiction|]. simpl.
  destruct (Z.ltb_spec limit (li_cltv inv + pad)) as [|H2]; [discriminate|].
  destruct (Z.leb_spec 2147483647 limit) as [|H3]; [discriminate|].
  rewrite to_u32_small by lia. rewrite to_i32_small by lia.
  intros H; inversion H; subst; simpl. lia.
Qed.

(* without a limit (fee invoice): cltv_limit = invoice delta + padding + 1 whenever that fits an int32 *)
Lemma lnd_build_cltv_legacy pad payreq inv c q :
  -2^31 <= li_cltv inv + pad + 1 < 2^31 -> 0 <= pad < 2^16 ->
  lnd_build pad payreq inv c 0 = Some q ->
  rq_cltv_limit q = li_cltv inv + pad + 1.
Proof.
  intros Hr Hp. unfold lnd_build. cbv zeta.
  destruct (String.eqb (li_dest inv) (lc_remote c)); simpl; [|discriminate].
  rewrite (to_i64_small (li_cltv inv + pad)) by lia.
  rewrite to_i64_small by lia. rewrite to_i32_small by lia.
  intros H; inversion H; reflexivity.
Qed.

(* ---------- the two spellings of one lnd channel id *)
Definition no_sep (s : string) : bool := negb (has_byte ":"%char s) && negb (has_byte "x"%char s).

Lemma string_of_uint_no_sep u : no_sep (NilEmpty.string_of_uint u) = true.
Proof. induction u; simpl; auto. Qed.

Lemma dec_of_Z_no_sep z : 0 <= z -> no_sep (dec_of_Z z) = true.
Proof.
  intros H. unfold dec_of_Z. destruct z as [|p|p]; [reflexivity| |lia].
  simpl. unfold NilZero.string_of_uint.
  destruct (Pos.to_uint p) eqn:E; try apply string_of_uint_no_sep. reflexivity.
Qed.

Lemma no_sep_colon s : no_sep s = true -> has_byte ":"%char s = false.
Proof. unfold no_sep. rewrite andb_true_iff, !negb_true_iff. tauto. Qed.
Lemma no_sep_x s : no_sep s = true -> has_byte "x"%char s = false.
Proof. unfold no_sep. rewrite andb_true_iff, !negb_true_iff. tauto. Qed.

Lemma scid_parts_nonneg id :
  0 <= scid_height id /\ 0 <= scid_txindex id /\ 0 <= scid_txpos id.
Proof. unfold scid_height, scid_txindex, scid_txpos. lia. Qed.

Lemma cln_style_scid_lnd id : cln_style (scid_lnd id) = scid_cln id.
Proof.
  destruct (scid_parts_nonneg id) as [H1 [H2 H3]].
  unfold scid_lnd, scid_cln, scid_with, cln_style.
  rewrite !replace_byte_app.
  rewrite !(replace_byte_absent ":"%char "x"%char (dec_of_Z _)) by (apply no_sep_colon, dec_of_Z_no_sep; assumption).
  reflexivity.
Qed.

Lemma lnd_style_scid_cln id : lnd_style (scid_cln id) = scid_lnd id.
Proof.
  destruct (scid_parts_nonneg id) as [H1 [H2 H3]].
  unfold scid_lnd, scid_cln, scid_with, lnd_style.
  rewrite !replace_byte_app.
  rewrite !(replace_byte_absent "x"%char ":"%char (dec_of_Z _)) by (apply no_sep_x, dec_of_Z_no_sep; assumption).
  reflexivity.
Qed.

Lemma scid_lnd_has_colon id : has_byte ":"%char (scid_lnd id) = true.
Proof.
  unfold scid_lnd, scid_with. rewrite !has_byte_app. simpl. now rewrite !orb_true_r.
Qed.

Lemma scid_cln_no_colon id : has_byte ":"%char (scid_cln id) = false.
Proof. rewrite <- cln_style_scid_lnd. apply cln_style_no_colon. Qed.

Lemma scid_spellings_differ a b : scid_lnd a <> scid_cln b.
Proof.
  intros E. pose proof (scid_lnd_has_colon a) as H. rewrite E, scid_cln_no_colon in H. discriminate.
Qed.

Lemma scid_spelling_equiv a b : scid_lnd a = scid_lnd b <-> scid_cln a = scid_cln b.
Proof.
  split; intros E.
  - rewrite <- !cln_style_scid_lnd. now rewrite E.
  - rewrite <- !lnd_style_scid_cln. now rewrite E.
Qed.

Lemma chan_matches_spelling id c :
  chan_matches (scid_lnd id) c = chan_matches (scid_cln id) c.
Proof.
  apply eq_true_iff_eq. rewrite !chan_matches_iff.
  pose proof (scid_spellings_differ id (lc_id c)).
  pose proof (scid_spellings_differ (lc_id c) id).
  pose proof (scid_spelling_equiv id (lc_id c)).
  intuition congruence.
Qed.

Lemma find_chan_spelling id cs : find_chan (scid_lnd id) cs = find_chan (scid_cln id) cs.
Proof.
  induction cs as [|c cs IH]; simpl; [reflexivity|].
  now rewrite chan_matches_spelling, IH.
Qed.

Lemma lnd_pay_spelling pad dec chans payreq id limit :
  lnd_pay pad dec chans payreq (scid_lnd id) limit = lnd_pay pad dec chans payreq (scid_cln id) limit.
Proof.
  unfold lnd_pay, check_channel. destruct dec; [|reflexivity]. destruct chans; [|reflexivity].
  now rewrite find_chan_spelling.
Qed.

(* ---------- constants regenerated from the code *)
Lemma gen_c24_constants :
  lnd_block_padding = 3 /\ scid_marker_cln = cln_style "1:2:3" /\ scid_marker_lnd = lnd_style "1x2x3".
Proof. vm_compute. repeat split. Qed.

Lemma lnd_build_cltv_limited_gen payreq inv c limit q :
  limit <> 0 -> 0 <= limit < 2^32 -> -2^63 <= li_cltv inv < 2^63 ->
  lnd_build lnd_block_padding payreq inv c limit = Some q ->
  0 <= li_cltv inv /\ li_cltv inv + 3 <= limit /\ limit < 2^31 - 1 /\ rq_cltv_limit q = limit + 1.
Proof.
  intros Hl Hr Hc H.
  destruct gen_c24_constants as [Hp _]. rewrite Hp in H.
  apply lnd_build_cltv_limited in H; try lia. unfold max_int32 in H. lia.
Qed.

Lemma lnd_build_cltv_legacy_gen payreq inv c q :
  -2^31 <= li_cltv inv + 3 + 1 < 2^31 ->
  lnd_build lnd_block_padding payreq inv c 0 = Some q ->
  rq_cltv_limit q = li_cltv inv + 3 + 1.
Proof.
  intros Hr H. destruct gen_c24_constants as [Hp _]. rewrite Hp in H.
  apply lnd_build_cltv_legacy in H; lia.
Qed.

(* ---------- the hypotheses are satisfiable (non-vacuity) *)
Definition ex_peer : string := "02aa".
Definition ex_chan := mk_lnd_chan 592931436542885889 ex_peer 1000000.   (* 539268:845:1 *)

Example ex_lnd_pay_x :
  lnd_pay 3 (Some (mk_lnd_invoice ex_peer 1000 29)) (Some [mk_lnd_chan 7 "03bb" 5; ex_chan]) "lnbc1" "539268x845x1" 32
  = Some (mk_lnd_req "lnbc1" 33 [592931436542885889] 1 0 0 0).
Proof. vm_compute. reflexivity. Qed.

Example ex_lnd_pay_colon :
  lnd_pay 3 (Some (mk_lnd_invoice ex_peer 1000 29)) (Some [ex_chan]) "lnbc1" "539268:845:1" 0
  = Some (mk_lnd_req "lnbc1" 33 [592931436542885889] 1 0 0 0).
Proof. vm_compute. reflexivity. Qed.

Example ex_lnd_refuse_dest :
  lnd_pay 3 (Some (mk_lnd_invoice "03bb" 1000 29)) (Some [ex_chan]) "lnbc1" "539268x845x1" 32 = None.
Proof. vm_compute. reflexivity. Qed.

Example ex_lnd_cltv_boundary :
  lnd_pay 3 (Some (mk_lnd_invoice ex_peer 1000 30)) (Some [ex_chan]) "lnbc1" "539268x845x1" 32 = None.
Proof. vm_compute. reflexivity. Qed.

Example ex_cln_pay :
  cln_pay (Some (mk_cln_invoice ex_peer 5000000 18 "hh")) "lnbc1" "539268:845:1" 144
  = Some (mk_cln_sendpay [mk_cln_hop ex_peer "539268x845x1" 5000000 19 0] "hh" 5000000 "lnbc1").
Proof. vm_compute. reflexivity. Qed.

Example ex_cln_cltv_boundary :
  cln_route (mk_cln_invoice ex_peer 1 144 "hh") "1x2x3" 144 = None /\
  cln_route (mk_cln_invoice ex_peer 1 143 "hh") "1x2x3" 144 <> None.
Proof. vm_compute. split; [reflexivity | discriminate]. Qed.

(* without a limit the Go conversion wraps: documented legacy behaviour of the fee-invoice path *)
Example ex_cln_legacy_wrap :
  cln_route (mk_cln_invoice ex_peer 1 4294967295 "hh") "1x2x3" 0
  = Some [mk_cln_hop ex_peer "1x2x3" 1 0 0].
Proof. vm_compute. reflexivity. Qed.
