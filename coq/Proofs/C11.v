(* C11: requests are admitted only when every policy condition holds. *)
From Coq Require Import String Ascii ZArith Bool List Lia.
From RecordUpdate Require Import RecordSet.
From PS Require Import Base.Wrap Model.Data Model.Actions Model.Fsm Model.History Model.Service
  Gen.Tables Gen.ConstsSwap
  Proofs.Monad Proofs.ExecRule Proofs.MTac Proofs.Frame Proofs.Engine Proofs.C09.
Import ListNotations RecordSetNotations.
Open Scope Z_scope.

Strategy opaque [event_loop exec loop_fuel action_fuel pay_loop].

(* the conditions CheckRequestWrapperAction tests, spelled out *)
Definition wrapper_conditions (tc : tl_consts) (w : world) (d : swap_data) : Prop :=
  w_swaps_allowed w = true /\
  (get_chain d = lbtc_chain -> w_liquid_enabled w = true) /\
  (get_chain d = btc_chain -> w_bitcoin_enabled w = true) /\
  get_version d = tc_current_version tc /\
  w_min_amount_msat w <= u64_mul (get_amount d) 1000 /\
  (get_chain d = btc_chain \/ get_chain d = lbtc_chain) /\
  (get_asset d <> EmptyString -> get_asset d = w_wallet_asset w) /\
  (get_network d <> EmptyString -> get_network d = w_wallet_network w) /\
  w_peer_allowed w = true /\ w_peer_suspicious w = false.

Lemma str_nonempty_false s : str_nonempty s = false -> s = EmptyString.
Proof. unfold str_nonempty. intros H. apply negb_false_iff in H. apply String.eqb_eq in H. exact H. Qed.

Lemma check_request_true tc d w r w' es :
  check_request tc d w = (r, w', es) -> r = Some true -> wrapper_conditions tc w d.
Proof.
  unfold check_request. intros H Hr. apply bind_inv in H.
  destruct H as (w0 & w1 & e1 & e2 & Ha & H & ->). apply ask_inv in Ha. destruct Ha as (-> & -> & ->).
  repeat match type of H with
  | (if ?c then _ else _) _ = _ => let E := fresh "E" in destruct c eqn:E;
      [apply ret_inv in H; destruct H as (H & _); subst r; discriminate|]
  end.
  clear H Hr. unfold wrapper_conditions.
  apply negb_false_iff in E. apply negb_false_iff in E2. apply Z.ltb_ge in E3.
  apply negb_false_iff in E4. apply negb_false_iff in E7.
  repeat split; auto.
  - intros Hc. rewrite Hc in E0. cbn in E0. apply negb_false_iff in E0. exact E0.
  - intros Hc. rewrite Hc in E1. cbn in E1. apply negb_false_iff in E1. exact E1.
  - apply Z.eqb_eq. exact E2.
  - unfold chain_known in E4. apply orb_true_iff in E4. destruct E4 as [E4|E4]; apply String.eqb_eq in E4; auto.
  - intros Hn. destruct (str_nonempty (get_asset d)) eqn:Es; [|apply str_nonempty_false in Es; contradiction].
    cbn in E5. apply negb_false_iff in E5. apply String.eqb_eq in E5. exact E5.
  - intros Hn. destruct (str_nonempty (get_network d)) eqn:Es; [|apply str_nonempty_false in Es; contradiction].
    cbn in E6. apply negb_false_iff in E6. apply String.eqb_eq in E6. exact E6.
Qed.

(* an action tree guarded by CheckRequestWrapperAction succeeds only under the conditions *)
Theorem wrapper_success_needs_conditions tc dec fuel ch d w ev d' w' es :
  exec tc dec (S fuel) (ANode "CheckRequestWrapperAction" ch) d w = ((ev, d'), w', es) ->
  ev = Ev_Succeeded -> wrapper_conditions tc w d.
Proof.
  intros H Hev. rewrite exec_S in H. cbv zeta in H.
  change (String.eqb "CheckRequestWrapperAction" "CheckRequestWrapperAction") with true in H. cbv iota in H.
  apply bind_inv in H. destruct H as (r & w1 & e1 & e2 & Hc & H & ->).
  destruct r as [[|]|].
  - eapply check_request_true; eauto.
  - unfold log_rejected in H. msym; try discriminate.
  - unfold fail in H. msym; try discriminate.
Qed.

(* swap-out responder: the opening can be funded *)
Theorem swap_out_needs_balance tc d w ev d' w' es :
  act_create_swap_out_from_request tc d w = ((ev, d'), w', es) -> ev = Ev_Succeeded ->
  exists fee bal, bal >= u64_add (get_amount d) fee /\ d_out_agr d' <> None.
Proof.
  intros H Hev. unfold act_create_swap_out_from_request in H. msym; try discriminate.
  match goal with E : (?bal <? u64_add (get_amount d) ?fee) = false |- _ =>
    exists fee, bal; apply Z.ltb_ge in E; split; [lia|] end.
  cbn. discriminate.
Qed.

(* ---- the service-level pre-checks ---- *)
Section Svc.
Variable tc : tl_consts.
Variable decode : string -> option (string * Z * Z).
Variable t_os t_or t_is t_ir : table.
Variable terminal : list string.

Definition in_prechecks (n : node) (r : req) (sw : svc_world) : Prop :=
  id_known n (rq_id r) = false /\
  (exists prem, sw_premium sw = Some prem /\ prem <= rq_limit r) /\
  sw_can_spend sw = true /\
  (exists sp, sw_spendable sw = Some sp /\ u64_mul (rq_amount r) 1000 <= sp) /\
  sw_probe sw = Some true /\
  (forall p, In p (n_active n) -> chan_of (snd p) <> norm_scid (rq_scid r)).

Definition out_prechecks (n : node) (r : req) (sw : svc_world) : Prop :=
  id_known n (rq_id r) = false /\
  (exists prem, sw_premium sw = Some prem /\ prem <= rq_limit r) /\
  (exists rs, sw_receivable sw = Some rs /\ u64_mul (rq_amount r) 1000 <= rs) /\
  (forall p, In p (n_active n) -> chan_of (snd p) <> norm_scid (rq_scid r)).

Lemma lock_some_free n id scid m n1 :
  lock_swap n id scid m = Some n1 -> forall p, In p (n_active n) -> chan_of (snd p) <> norm_scid scid.
Proof.
  intros H p Hin Heq.
  assert (lock_swap n id scid m = None) by (apply lock_refuses_busy_channel; exists p; auto). congruence.
Qed.

(* a swap-in request reaches a state machine (and so can be answered with an agreement) only if the pre-checks passed *)
Theorem in_request_reaches_machine_only_if n sender r sw n' es res :
  on_in_request tc decode t_os t_or t_is t_ir terminal n sender r sw = (n', es, res) ->
  (exists p a, In (ESend p (MInAgr a)) es) -> in_prechecks n r sw.
Proof.
  intros H (p & a & Hin). unfold on_in_request in H.
  repeat match type of H with
  | (if ?c then _ else _) = _ => let E := fresh "E" in destruct c eqn:E;
      [injection H as <- <- <-; cbn in Hin; destruct Hin as [Hin|[]]; discriminate|]
  | (match ?x with _ => _ end) = _ => let E := fresh "M" in destruct x eqn:E;
      try (injection H as <- <- <-; cbn in Hin; try destruct Hin as [Hin|[]]; try discriminate; contradiction)
  end.
  unfold in_prechecks. apply Z.ltb_ge in E0. apply negb_false_iff in E1. apply Z.ltb_ge in E2.
  repeat split; eauto. eapply lock_some_free; eauto.
Qed.

Theorem out_request_reaches_machine_only_if n sender r sw n' es res :
  on_out_request tc decode t_os t_or t_is t_ir terminal n sender r sw = (n', es, res) ->
  (exists p a, In (ESend p (MOutAgr a)) es) -> out_prechecks n r sw.
Proof.
  intros H (p & a & Hin). unfold on_out_request in H.
  repeat match type of H with
  | (if ?c then _ else _) = _ => let E := fresh "E" in destruct c eqn:E;
      [injection H as <- <- <-; cbn in Hin; destruct Hin as [Hin|[]]; discriminate|]
  | (match ?x with _ => _ end) = _ => let E := fresh "M" in destruct x eqn:E;
      try (injection H as <- <- <-; cbn in Hin; try destruct Hin as [Hin|[]]; try discriminate; contradiction)
  end.
  unfold out_prechecks. apply Z.ltb_ge in E0. apply Z.ltb_ge in E1.
  repeat split; eauto. eapply lock_some_free; eauto.
Qed.

End Svc.

(* ---- the generated responder tables: agreements are created only under the wrapper ---- *)
Fixpoint tree_names (fuel : nat) (a : action_tree) : list string :=
  match fuel with
  | O => []
  | S f => let '(ANode n ch) := a in n :: flat_map (tree_names f) ch
  end.

Definition root_name (a : action_tree) : string := let '(ANode n _) := a in n.

(* every state whose action tree mentions an agreement-creating action has CheckRequestWrapperAction at its root *)
Definition agreements_guarded (t : table) : bool :=
  forallb (fun p =>
    match st_action (snd p) with
    | None => true
    | Some a =>
        if existsb (fun n => String.eqb n "SwapInReceiverInitAction" || String.eqb n "CreateSwapOutFromRequestAction")
                   (tree_names 8 a)
        then String.eqb (root_name a) "CheckRequestWrapperAction" else true
    end) t.

Lemma responder_tables_guarded :
  agreements_guarded table_swap_in_receiver = true /\ agreements_guarded table_swap_out_receiver = true /\
  agreements_guarded table_swap_in_sender = true /\ agreements_guarded table_swap_out_sender = true.
Proof. vm_compute. repeat split; reflexivity. Qed.

(* the capacity comparison is done on amount*1000 mod 2^64: it coincides with the integer
   comparison exactly for amounts below 2^64/1000 *)
Lemma capacity_no_wrap amount cap :
  0 <= amount < 18446744073709552 -> (u64_mul amount 1000 <= cap <-> amount * 1000 <= cap).
Proof. intros H. unfold u64_mul, u64, two64. rewrite Z.mod_small; [tauto|lia]. Qed.

Example capacity_wraps_above :
  let amount := 18446744073709552 in u64_mul amount 1000 <= 1000 /\ ~ (amount * 1000 <= 1000).
Proof. cbn. split; [vm_compute; discriminate|lia]. Qed.
