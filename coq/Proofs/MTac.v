(* Symbolic execution of monadic action code inside proofs. *)
From Coq Require Import String ZArith Bool List Lia.
From RecordUpdate Require Import RecordSet.
From PS Require Import Base.Wrap Model.Data Model.Actions Proofs.Monad Proofs.ExecRule.
Import ListNotations RecordSetNotations.

Ltac munfold_in H :=
  unfold fail, succeed, panic, log_rejected,
    pop_height, pop_send, pop_store, pop_recover_pay, pop_payfee, pop_mkinvoice, pop_fee_est,
    pop_balance, pop_spendable, pop_probe, pop_create_opening, pop_spend, pop_script, pop_validate,
    pop_premium, pop_addsender, pop_addsusp, pop_preimage, pop_blind in H.

(* decompose every hypothesis "m w = (r, w', es)" along binds, ifs and matches *)
Ltac msym :=
  repeat match goal with
  | H : ret _ _ = (_, _, _) |- _ =>
      apply ret_inv in H; let h1 := fresh "Hr" in destruct H as (h1 & ? & ?); try (inversion h1; clear h1); subst
  | H : emit _ _ = (_, _, _) |- _ => apply emit_inv in H; destruct H as (? & ?); subst
  | H : ask _ _ = (_, _, _) |- _ => apply ask_inv in H; destruct H as (? & ? & ?); subst
  | H : pop _ _ _ _ = (_, _, _) |- _ => apply pop_inv in H; subst
  | H : bind _ _ _ = (_, _, _) |- _ =>
      let h1 := fresh "Hb" in
      apply bind_inv in H; destruct H as (? & ? & ? & ? & h1 & H & ?); subst
  | H : (if ?c then _ else _) _ = (_, _, _) |- _ => let E := fresh "Eif" in destruct c eqn:E
  | H : (match ?x with _ => _ end) _ = (_, _, _) |- _ => let E := fresh "Ematch" in destruct x eqn:E
  | H : (let '(_, _) := ?x in _) _ = (_, _, _) |- _ => destruct x
  | H : ?f _ = (_, _, _) |- _ => progress munfold_in H
  end.

Create HintDb actions.
#[export] Hint Unfold act_create_swap_request set_anchor act_send_message act_send_message_retry act_send_cancel
    act_taker_send_privkey act_swap_in_receiver_init act_create_swap_out_from_request
    act_create_and_broadcast_opening act_await_payment_or_csv act_await_fee_invoice_payment watch_csv
    act_claim_preimage act_claim_csv act_claim_coop spend act_pay_fee_invoice act_await_tx_confirmation
    act_validate_and_pay act_set_starting_height : actions.

(* split membership in the leaf-action table into one goal per action *)
Ltac leaf_cases Hin :=
  simpl in Hin;
  repeat (destruct Hin as [Hin|Hin]; [inversion Hin; subst; clear Hin|]); try contradiction.

Ltac list_simpl := repeat rewrite ?app_nil_r, ?app_nil_l, <- ?app_assoc; cbn [app].
