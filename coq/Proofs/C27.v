(* Lemmas for C27: premium arithmetic, rate store as a map, advertised = charged. *)
From Coq Require Import String Ascii ZArith Bool Lia ZifyBool DecimalString DecimalZ List.
From PS Require Import Base.Corr Model.Premium Gen.ConstsPremium Model.C27Corr.
Import ListNotations.
Open Scope Z_scope.

(* ---------- constants named by the property are the ones in the code ---------- *)
Lemma gen_premium_constants :
  premium_rate_parts = 1000000 /\
  peersync_max_premium_rate_ppm = 1000000 /\ peersync_min_premium_rate_ppm = -1000000 /\
  premium_asset_btc = 1 /\ premium_asset_lbtc = 2 /\ premium_op_swap_in = 1 /\ premium_op_swap_out = 2 /\
  premium_default_peer_id = "default"%string.
Proof. repeat split; reflexivity. Qed.

(* every advertised (asset, operation) pair has a built-in default and nothing else has *)
Lemma gen_table_domain :
  map fst premium_default_table =
  [(premium_asset_btc, premium_op_swap_in); (premium_asset_btc, premium_op_swap_out);
   (premium_asset_lbtc, premium_op_swap_in); (premium_asset_lbtc, premium_op_swap_out)].
Proof. reflexivity. Qed.

(* ---------- arithmetic ---------- *)
Definition in_i64 (z : Z) : Prop := - 2 ^ 63 <= z < 2 ^ 63.

Lemma i64_wrap_small z : in_i64 z -> i64_wrap z = z.
Proof. unfold in_i64, i64_wrap. intros H. rewrite Z.mod_small; lia. Qed.

Lemma i64_wrap_range z : in_i64 (i64_wrap z).
Proof.
  unfold in_i64, i64_wrap.
  pose proof (Z.mod_pos_bound (z + 2 ^ 63) (2 ^ 64) ltac:(lia)). lia.
Qed.

(* the finding's pattern: the product (or the amount itself) does not fit an int64 *)
Definition overflow_pattern (rate amt : Z) : Prop := 2 ^ 63 <= amt \/ ~ in_i64 (amt * rate).

Lemma ppm_compute_exact rate amt :
  0 <= amt -> ~ overflow_pattern rate amt ->
  code_ppm_compute rate amt = Z.quot (amt * rate) 1000000.
Proof.
  intros Hamt Hno. unfold code_ppm_compute, ppm_compute.
  destruct gen_premium_constants as (-> & _).
  assert (Ha : amt < 2 ^ 63) by (unfold overflow_pattern in Hno; lia).
  assert (Hp : in_i64 (amt * rate)).
  { unfold overflow_pattern in Hno. destruct (Z_lt_dec (amt * rate) (2 ^ 63)), (Z_le_dec (- 2 ^ 63) (amt * rate));
      unfold in_i64 in *; try lia; exfalso; apply Hno; right; lia. }
  rewrite (i64_wrap_small amt) by (unfold in_i64; lia).
  rewrite (i64_wrap_small _ Hp). reflexivity.
Qed.

(* the stated domain: rates within +-10^6 ppm and amounts up to 9 223 372 036 854 sat (92 233 BTC) *)
Lemma stated_domain_no_overflow rate amt :
  -1000000 <= rate <= 1000000 -> 0 <= amt <= 9223372036854 -> ~ overflow_pattern rate amt.
Proof.
  intros Hr Ha [H | H]; [lia|]. apply H. unfold in_i64. nia.
Qed.

Lemma ppm_compute_exact_stated rate amt :
  -1000000 <= rate <= 1000000 -> 0 <= amt <= 9223372036854 ->
  code_ppm_compute rate amt = Z.quot (amt * rate) 1000000.
Proof.
  intros Hr Ha. apply ppm_compute_exact; [lia|]. now apply stated_domain_no_overflow.
Qed.

(* truncation toward zero, stated without Z.quot: |p*10^6| <= |amt*rate| < |p*10^6| + 10^6, same sign *)
Lemma quot_trunc_spec x : let p := Z.quot x 1000000 in
  Z.abs (p * 1000000) <= Z.abs x < Z.abs (p * 1000000) + 1000000 /\ 0 <= p * x.
Proof.
  intros p. subst p.
  destruct (Z_le_dec 0 x) as [Hx | Hx].
  - pose proof (Z.quot_rem' x 1000000) as E.
    remember (Z.quot x 1000000) as q. remember (Z.rem x 1000000) as r.
    assert (0 <= r < 1000000) by (subst r; apply Z.rem_bound_pos; lia).
    assert (0 <= q) by (subst q; apply Z.quot_pos; lia).
    split; [lia | nia].
  - pose proof (Z.quot_rem' (-x) 1000000) as E.
    assert (Hq : Z.quot x 1000000 = - Z.quot (-x) 1000000).
    { rewrite Z.quot_opp_l by lia. lia. }
    rewrite Hq.
    remember (Z.quot (-x) 1000000) as q. remember (Z.rem (-x) 1000000) as r.
    assert (0 <= r < 1000000) by (subst r; apply Z.rem_bound_pos; lia).
    assert (0 <= q) by (subst q; apply Z.quot_pos; lia).
    split; [lia | nia].
Qed.

Lemma compute_uses_rate st peer a o amt r :
  code_get_rate st peer a o = ROk r -> code_compute st peer a o amt = Some (code_ppm_compute r amt).
Proof. unfold code_compute, compute, code_get_rate. intros ->. reflexivity. Qed.

Lemma compute_fails_iff st peer a o amt :
  code_compute st peer a o amt = None <-> forall r, code_get_rate st peer a o <> ROk r.
Proof.
  unfold code_compute, compute, code_get_rate.
  destruct (get_rate _ _ st peer a o) as [r| |]; split; intros H.
  - discriminate.
  - exfalso. now apply (H r).
  - intros r; discriminate.
  - reflexivity.
  - intros r; discriminate.
  - reflexivity.
Qed.

(* ---------- the key format is injective ---------- *)
Definition dotfree (s : string) : Prop := forall a b, s <> (a ++ "." ++ b)%string.

Fixpoint no_dot (s : string) : bool :=
  match s with
  | EmptyString => true
  | String c r => negb (Ascii.eqb c ".") && no_dot r
  end.

Lemma no_dot_dotfree s : no_dot s = true -> dotfree s.
Proof.
  induction s as [|c r IH]; intros H a b E.
  - destruct a; discriminate.
  - simpl in H. apply andb_true_iff in H. destruct H as [Hc Hr].
    destruct a as [|c' a'].
    + simpl in E. inversion E; subst. rewrite Ascii.eqb_refl in Hc. discriminate.
    + simpl in E. inversion E; subst. exact (IH Hr a' b eq_refl).
Qed.

Lemma uint_no_dot d : no_dot (NilEmpty.string_of_uint d) = true.
Proof. induction d; simpl; auto. Qed.

Lemma int_str_no_dot z : no_dot (int_str z) = true.
Proof.
  unfold int_str. destruct (Z.to_int z); simpl; apply uint_no_dot.
Qed.

Lemma int_str_inj z z' : int_str z = int_str z' -> z = z'.
Proof.
  unfold int_str. intros H. apply DecimalZ.to_int_inj.
  assert (E : Some (Z.to_int z) = Some (Z.to_int z')).
  { rewrite <- !NilEmpty.isi. now rewrite H. }
  now inversion E.
Qed.

(* splitting at the LAST dot is unique *)
Lemma split_last_dot a b a' b' :
  dotfree b -> dotfree b' -> (a ++ "." ++ b)%string = (a' ++ "." ++ b')%string -> a = a' /\ b = b'.
Proof.
  revert a'. induction a as [|c a IH]; intros a' Hb Hb' E.
  - destruct a' as [|c' a'']; simpl in E.
    + inversion E. auto.
    + inversion E; subst. exfalso. exact (Hb a'' b' eq_refl).
  - destruct a' as [|c' a'']; simpl in E.
    + inversion E; subst. exfalso. exact (Hb' a b eq_refl).
    + inversion E; subst. destruct (IH a'' Hb Hb' H1) as [-> ->]. auto.
Qed.

Lemma append_assoc' (a b c : string) : ((a ++ b) ++ c = a ++ (b ++ c))%string.
Proof. induction a; simpl; congruence. Qed.

Lemma rate_key_inj p a o p' a' o' :
  rate_key p a o = rate_key p' a' o' -> p = p' /\ a = a' /\ o = o'.
Proof.
  unfold rate_key. intros E.
  (* peer ++ "." ++ A ++ "." ++ O  =  (peer ++ "." ++ A) ++ "." ++ O *)
  assert (E' : ((p ++ "." ++ int_str a) ++ "." ++ int_str o =
                (p' ++ "." ++ int_str a') ++ "." ++ int_str o')%string).
  { rewrite !append_assoc'. simpl. simpl in E. exact E. }
  apply split_last_dot in E'; try (apply no_dot_dotfree, int_str_no_dot).
  destruct E' as [E1 E2].
  apply split_last_dot in E1; try (apply no_dot_dotfree, int_str_no_dot).
  destruct E1 as [-> E3].
  repeat split; now apply int_str_inj.
Qed.

Lemma rate_key_eqb p a o p' a' o' :
  String.eqb (rate_key p a o) (rate_key p' a' o') = String.eqb p p' && (a =? a') && (o =? o').
Proof.
  destruct (String.eqb_spec (rate_key p a o) (rate_key p' a' o')) as [E | NE].
  - apply rate_key_inj in E. destruct E as (-> & -> & ->).
    now rewrite String.eqb_refl, !Z.eqb_refl.
  - symmetry. apply not_true_iff_false. intros H.
    apply andb_true_iff in H. destruct H as [H Ho]. apply andb_true_iff in H. destruct H as [Hp Ha].
    apply String.eqb_eq in Hp. apply Z.eqb_eq in Ha, Ho. subst. now apply NE.
Qed.

(* ---------- the bucket is a map ---------- *)
Lemma st_get_del_same st k : st_get (st_del st k) k = None.
Proof.
  induction st as [|[k' v] r IH]; simpl; auto.
  destruct (String.eqb k' k) eqn:E; simpl; [auto | now rewrite E].
Qed.

Lemma st_get_del_other st k k' : k <> k' -> st_get (st_del st k) k' = st_get st k'.
Proof.
  intros NE. induction st as [|[k0 v] r IH]; simpl; auto.
  destruct (String.eqb_spec k0 k) as [-> | N0]; simpl.
  - destruct (String.eqb_spec k k'); [contradiction | exact IH].
  - destruct (String.eqb k0 k'); auto.
Qed.

Lemma st_get_put_same st k v : st_get (st_put st k v) k = Some v.
Proof. unfold st_put. simpl. now rewrite String.eqb_refl. Qed.

Lemma st_get_put_other st k v k' : k <> k' -> st_get (st_put st k v) k' = st_get st k'.
Proof.
  intros NE. unfold st_put. simpl.
  destruct (String.eqb_spec k k'); [contradiction | now apply st_get_del_other].
Qed.

(* ---------- abstract map (the monitor's) ---------- *)
Lemma skey_eqb_eq x y : skey_eqb x y = true <-> x = y.
Proof.
  destruct x as [[s a] o], y as [[s' a'] o']. unfold skey_eqb.
  rewrite !andb_true_iff, !Z.eqb_eq.
  split.
  - intros [[Hs ->] ->]. destruct s, s'; simpl in Hs; try discriminate; auto.
    apply String.eqb_eq in Hs. now subst.
  - intros E. inversion E; subst. repeat split; auto.
    destruct s'; simpl; auto. apply String.eqb_refl.
Qed.

Lemma skey_eqb_refl x : skey_eqb x x = true.
Proof. now apply skey_eqb_eq. Qed.

Lemma skey_eqb_neq x y : x <> y -> skey_eqb x y = false.
Proof. intros H. apply not_true_iff_false. intros E. now apply skey_eqb_eq in E. Qed.

Lemma sm_get_del_same m k : sm_get (sm_del m k) k = None.
Proof.
  induction m as [|[k' v] r IH]; simpl; auto.
  destruct (skey_eqb k' k) eqn:E; simpl; [auto | now rewrite E].
Qed.

Lemma sm_get_del_other m k k' : k <> k' -> sm_get (sm_del m k) k' = sm_get m k'.
Proof.
  intros NE. induction m as [|[k0 v] r IH]; simpl; auto.
  destruct (skey_eqb k0 k) eqn:E0; simpl.
  - apply skey_eqb_eq in E0. subst. now rewrite (skey_eqb_neq _ _ NE).
  - destruct (skey_eqb k0 k'); auto.
Qed.

Lemma sm_get_put_same m k v : sm_get (sm_put m k v) k = Some v.
Proof. unfold sm_put. simpl. now rewrite skey_eqb_refl. Qed.

Lemma sm_get_put_other m k v k' : k <> k' -> sm_get (sm_put m k v) k' = sm_get m k'.
Proof.
  intros NE. unfold sm_put. simpl. rewrite (skey_eqb_neq _ _ NE). now apply sm_get_del_other.
Qed.

(* ---------- refinement: bucket with string keys  ~  map keyed by (scope, asset, operation) ---------- *)

(* the row a peer id denotes: the reserved id "default" IS the global row *)
Definition scope_of (p : string) : option string :=
  if String.eqb p premium_default_peer_id then None else Some p.

Lemma scope_of_inj p p' : scope_of p = scope_of p' -> p = p'.
Proof.
  unfold scope_of.
  destruct (String.eqb_spec p premium_default_peer_id), (String.eqb_spec p' premium_default_peer_id);
    intros H; try discriminate; try congruence.
Qed.

Lemma scope_of_default : scope_of premium_default_peer_id = None.
Proof. unfold scope_of. now rewrite String.eqb_refl. Qed.

Definition refines (st : store) (m : smap) : Prop :=
  forall p a o, st_get st (rate_key p a o) = sm_get m (scope_of p, a, o).

(* abstract effect of an update, with the alias built in *)
Definition spec_apply_alias (m : smap) (u : upd) : smap :=
  match u with
  | USet p a o r => sm_put m (scope_of p, a, o) r
  | USetDefault a o r => sm_put m (None, a, o) r
  | UDelete p a o => sm_del m (scope_of p, a, o)
  | UReopen => m
  end.

(* abstract effect of an update as the property states it: peers and the global row are distinct *)
Definition spec_apply (m : smap) (u : upd) : smap :=
  match u with
  | USet p a o r => sm_put m (Some p, a, o) r
  | USetDefault a o r => sm_put m (None, a, o) r
  | UDelete p a o => sm_del m (Some p, a, o)
  | UReopen => m
  end.

Definition spec_run (m : smap) (us : list upd) : smap := fold_left spec_apply us m.
Definition spec_run_alias (m : smap) (us : list upd) : smap := fold_left spec_apply_alias us m.

(* bbolt accepts the key *)
Definition key_fits (p : string) (a o : Z) : Prop := strlen (rate_key p a o) <= bbolt_max_key_size.

Definition upd_fits (u : upd) : Prop :=
  match u with
  | USet p a o _ => key_fits p a o
  | USetDefault a o _ => key_fits premium_default_peer_id a o
  | _ => True
  end.

Definition upd_no_reserved (u : upd) : Prop :=
  match u with
  | USet p _ _ _ | UDelete p _ _ => p <> premium_default_peer_id
  | _ => True
  end.

Lemma skey_of_neq p a o p' a' o' :
  rate_key p a o <> rate_key p' a' o' -> (scope_of p, a, o) <> (scope_of p', a', o').
Proof.
  intros NE E. inversion E as [[Hs Ha Ho]]. apply scope_of_inj in Hs. subst. now apply NE.
Qed.

Lemma refines_put st m p a o r :
  refines st m -> refines (st_put st (rate_key p a o) r) (sm_put m (scope_of p, a, o) r).
Proof.
  intros R p' a' o'.
  destruct (string_dec (rate_key p a o) (rate_key p' a' o')) as [E | NE].
  - rewrite <- E, st_get_put_same. apply rate_key_inj in E. destruct E as (-> & -> & ->).
    now rewrite sm_get_put_same.
  - rewrite st_get_put_other by assumption.
    rewrite sm_get_put_other by (now apply skey_of_neq). apply R.
Qed.

Lemma refines_del st m p a o :
  refines st m -> refines (st_del st (rate_key p a o)) (sm_del m (scope_of p, a, o)).
Proof.
  intros R p' a' o'.
  destruct (string_dec (rate_key p a o) (rate_key p' a' o')) as [E | NE].
  - rewrite <- E, st_get_del_same. apply rate_key_inj in E. destruct E as (-> & -> & ->).
    now rewrite sm_get_del_same.
  - rewrite st_get_del_other by assumption.
    rewrite sm_get_del_other by (now apply skey_of_neq). apply R.
Qed.

Lemma refines_apply st m u :
  upd_fits u -> refines st m -> refines (code_apply_upd st u) (spec_apply_alias m u).
Proof.
  intros F R. destruct u as [p a o r | a o r | p a o |]; simpl in *.
  - unfold set_rate, store_set_rate. unfold key_fits in F.
    destruct (Z.ltb_spec bbolt_max_key_size (strlen (rate_key p a o))); [lia|]. simpl.
    now apply refines_put.
  - unfold set_default_rate, store_set_rate. unfold key_fits in F.
    destruct (Z.ltb_spec bbolt_max_key_size (strlen (rate_key premium_default_peer_id a o))); [lia|]. simpl.
    rewrite <- scope_of_default. now apply refines_put.
  - now apply refines_del.
  - exact R.
Qed.

Lemma refines_run us : forall st m,
  Forall upd_fits us -> refines st m -> refines (code_run_upds st us) (spec_run_alias m us).
Proof.
  induction us as [|u us IH]; intros st m F R; simpl; auto.
  inversion F; subst. apply IH; auto. now apply refines_apply.
Qed.

Lemma refines_empty : refines [] [].
Proof. intros p a o. reflexivity. Qed.

Lemma spec_apply_alias_eq m u : upd_no_reserved u -> spec_apply_alias m u = spec_apply m u.
Proof.
  destruct u as [p a o r | a o r | p a o |]; simpl; auto; intros H; unfold scope_of;
    destruct (String.eqb_spec p premium_default_peer_id); congruence.
Qed.

Lemma spec_run_alias_eq us : forall m, Forall upd_no_reserved us -> spec_run_alias m us = spec_run m us.
Proof.
  induction us as [|u us IH]; intros m F; simpl; auto.
  inversion F; subst. rewrite spec_apply_alias_eq by assumption. now apply IH.
Qed.

(* reading through the refinement *)
Definition opt_res (o : option Z) : rate_result := match o with Some r => ROk r | None => RErr end.

Lemma get_rate_refines st m p a o :
  refines st m -> code_get_rate st p a o = opt_res (spec_rate m (scope_of p) a o).
Proof.
  intros R. unfold code_get_rate, get_rate, get_default_rate, store_get_rate, spec_rate, spec_valid.
  rewrite (R p a o), (R premium_default_peer_id a o), scope_of_default.
  unfold new_premium_rate_ok.
  destruct (negb (a =? 0) && negb (o =? 0)) eqn:V.
  - destruct (sm_get m (scope_of p, a, o)); [reflexivity|].
    destruct (sm_get m (None, a, o)); [reflexivity|].
    destruct (table_get premium_default_table a o); reflexivity.
  - destruct (sm_get m (scope_of p, a, o)); [reflexivity|].
    destruct (sm_get m (None, a, o)); [reflexivity|].
    destruct (table_get premium_default_table a o); reflexivity.
Qed.

Lemma get_default_rate_refines st m a o :
  refines st m -> code_get_default_rate st a o = opt_res (spec_rate m None a o).
Proof.
  intros R. unfold code_get_default_rate, get_default_rate, store_get_rate, spec_rate, spec_valid.
  rewrite (R premium_default_peer_id a o), scope_of_default. unfold new_premium_rate_ok.
  destruct (negb (a =? 0) && negb (o =? 0)) eqn:V;
    destruct (sm_get m (None, a, o)); try reflexivity;
    destruct (table_get premium_default_table a o); reflexivity.
Qed.

(* main sequence theorem, alias included: for EVERY update sequence on a fresh database *)
Lemma rates_follow_map_alias us p a o :
  Forall upd_fits us ->
  code_get_rate (code_run_upds [] us) p a o = opt_res (spec_rate (spec_run_alias [] us) (scope_of p) a o).
Proof. intros F. apply get_rate_refines. apply refines_run; [assumption | apply refines_empty]. Qed.

(* the property as stated: peers are not the reserved word *)
Lemma rates_follow_map us p a o :
  Forall upd_fits us -> Forall upd_no_reserved us -> p <> premium_default_peer_id ->
  code_get_rate (code_run_upds [] us) p a o = opt_res (spec_rate (spec_run [] us) (Some p) a o).
Proof.
  intros F N Hp. rewrite rates_follow_map_alias by assumption.
  rewrite spec_run_alias_eq by assumption. unfold scope_of.
  destruct (String.eqb_spec p premium_default_peer_id); [contradiction | reflexivity].
Qed.

Lemma default_rates_follow_map us a o :
  Forall upd_fits us -> Forall upd_no_reserved us ->
  code_get_default_rate (code_run_upds [] us) a o = opt_res (spec_rate (spec_run [] us) None a o).
Proof.
  intros F N. rewrite (get_default_rate_refines _ (spec_run_alias [] us)).
  - now rewrite spec_run_alias_eq.
  - apply refines_run; [assumption | apply refines_empty].
Qed.

Lemma premiums_follow_map us p a o amt :
  Forall upd_fits us -> Forall upd_no_reserved us -> p <> premium_default_peer_id ->
  code_compute (code_run_upds [] us) p a o amt =
  option_map (fun r => code_ppm_compute r amt) (spec_rate (spec_run [] us) (Some p) a o).
Proof.
  intros F N Hp. unfold code_compute, compute.
  fold (code_get_rate (code_run_upds [] us) p a o).
  rewrite rates_follow_map by assumption.
  destruct (spec_rate (spec_run [] us) (Some p) a o); reflexivity.
Qed.

(* persistence: closing and reopening the file anywhere in the sequence changes nothing *)
Lemma reopen_is_identity us1 us2 :
  code_run_upds [] (us1 ++ UReopen :: us2) = code_run_upds [] (us1 ++ us2).
Proof. unfold code_run_upds, run_upds. rewrite !fold_left_app. reflexivity. Qed.

(* map laws on the code's functions directly *)
Lemma set_then_get st p a o r :
  key_fits p a o -> a <> 0 -> o <> 0 ->
  snd (code_set_rate st p a o r) = false /\
  code_get_rate (fst (code_set_rate st p a o r)) p a o = ROk r.
Proof.
  intros F Ha Ho. unfold code_set_rate, set_rate, store_set_rate. unfold key_fits in F.
  destruct (Z.ltb_spec bbolt_max_key_size (strlen (rate_key p a o))); [lia|]. simpl. split; [reflexivity|].
  unfold code_get_rate, get_rate, store_get_rate. rewrite st_get_put_same.
  unfold new_premium_rate_ok.
  destruct (Z.eqb_spec a 0), (Z.eqb_spec o 0); try contradiction. reflexivity.
Qed.

Lemma set_too_long_rejected st p a o r :
  ~ key_fits p a o -> code_set_rate st p a o r = (st, true).
Proof.
  intros F. unfold code_set_rate, set_rate, store_set_rate. unfold key_fits in F.
  destruct (Z.ltb_spec bbolt_max_key_size (strlen (rate_key p a o))); [reflexivity | lia].
Qed.

Lemma set_other_unchanged st p a o r p' a' o' :
  p <> premium_default_peer_id -> (p, a, o) <> (p', a', o') ->
  code_get_rate (fst (code_set_rate st p a o r)) p' a' o' = code_get_rate st p' a' o'.
Proof.
  intros Hp NE. unfold code_set_rate, set_rate, store_set_rate.
  destruct (bbolt_max_key_size <? strlen (rate_key p a o)); [reflexivity|]. simpl.
  unfold code_get_rate, get_rate, get_default_rate, store_get_rate.
  rewrite !st_get_put_other; auto.
  - intros E. apply rate_key_inj in E. destruct E as (E & _ & _). contradiction.
  - intros E. apply rate_key_inj in E. destruct E as (-> & -> & ->). now apply NE.
Qed.

Lemma delete_then_get st p a o :
  p <> premium_default_peer_id ->
  snd (code_delete_rate st p a o) = false /\
  code_get_rate (fst (code_delete_rate st p a o)) p a o = code_get_default_rate st a o.
Proof.
  intros Hp. split; [reflexivity|]. unfold code_delete_rate, delete_rate, store_delete_rate. simpl.
  unfold code_get_rate, code_get_default_rate, get_rate, get_default_rate, store_get_rate.
  rewrite st_get_del_same. rewrite st_get_del_other; auto.
  intros E. apply rate_key_inj in E. destruct E as (E & _ & _). contradiction.
Qed.

(* ---------- advertised = charged ---------- *)
Definition four_pairs : list (Z * Z) :=
  [(premium_asset_btc, premium_op_swap_in); (premium_asset_btc, premium_op_swap_out);
   (premium_asset_lbtc, premium_op_swap_in); (premium_asset_lbtc, premium_op_swap_out)].

Definition adv_rate (t : Z * Z * Z * Z) (a o : Z) : Z :=
  let '(bi, bo, li, lo) := t in
  if a =? premium_asset_btc then (if o =? premium_op_swap_in then bi else bo)
  else (if o =? premium_op_swap_in then li else lo).

Lemma get_rate_total_on_pairs st p a o :
  In (a, o) four_pairs -> exists r, code_get_rate st p a o = ROk r.
Proof.
  intros H. unfold code_get_rate, get_rate, get_default_rate, store_get_rate.
  assert (V : new_premium_rate_ok a o = true /\ exists v, table_get premium_default_table a o = Some v).
  { simpl in H. repeat (destruct H as [H | H]; [inversion H; subst; split; [reflexivity | eexists; reflexivity]|]).
    contradiction. }
  destruct V as [V [v T]]. rewrite V, T.
  destruct (st_get st (rate_key p a o)); [eexists; reflexivity|].
  destruct (st_get st (rate_key premium_default_peer_id a o)); eexists; reflexivity.
Qed.

Lemma advertised_is_get_rate st p a o :
  In (a, o) four_pairs ->
  code_get_rate st p a o = ROk (adv_rate (code_local_capability_rates st p) a o).
Proof.
  intros H. destruct (get_rate_total_on_pairs st p a o H) as [r E].
  rewrite E. f_equal.
  unfold code_local_capability_rates, local_capability_rates, guard_premium_rate, adv_rate.
  fold (code_get_rate st p premium_asset_btc premium_op_swap_in).
  fold (code_get_rate st p premium_asset_btc premium_op_swap_out).
  fold (code_get_rate st p premium_asset_lbtc premium_op_swap_in).
  fold (code_get_rate st p premium_asset_lbtc premium_op_swap_out).
  simpl in H.
  destruct H as [H | [H | [H | [H | []]]]]; inversion H; subst; rewrite E; reflexivity.
Qed.

Lemma advertised_is_charged st p a o amt :
  In (a, o) four_pairs ->
  code_compute st p a o amt = Some (code_ppm_compute (adv_rate (code_local_capability_rates st p) a o) amt).
Proof. intros H. apply compute_uses_rate. now apply advertised_is_get_rate. Qed.

(* ---------- examples: hypotheses are satisfiable, statements are not vacuous ---------- *)
Example ex_compute_2000ppm : code_ppm_compute 2000 100000 = 200.
Proof. reflexivity. Qed.
Example ex_compute_negative_truncates : code_ppm_compute (-1) 1999999 = -1.
Proof. reflexivity. Qed.
Example ex_compute_max_stated : code_ppm_compute 1000000 9223372036854 = 9223372036854.
Proof. reflexivity. Qed.

Definition ex_peer : string := "02c0ffee".
Definition ex_upds : list upd :=
  [USet ex_peer 1 2 5000; USetDefault 1 2 300; UReopen; UDelete ex_peer 1 2; USet ex_peer 2 1 (-40)].
Example ex_upds_ok : Forall upd_fits ex_upds /\ Forall upd_no_reserved ex_upds /\ ex_peer <> premium_default_peer_id.
Proof.
  repeat split; try discriminate; repeat constructor; unfold key_fits; try (vm_compute; discriminate); discriminate.
Qed.
Example ex_upds_rates :
  code_get_rate (code_run_upds [] ex_upds) ex_peer 1 2 = ROk 300 /\
  code_get_rate (code_run_upds [] ex_upds) ex_peer 2 1 = ROk (-40) /\
  code_get_rate (code_run_upds [] ex_upds) ex_peer 2 2 = ROk 1000 /\
  code_compute (code_run_upds [] ex_upds) ex_peer 1 2 1000000 = Some 300.
Proof. repeat split; reflexivity. Qed.
Example ex_advertised :
  code_local_capability_rates (code_run_upds [] ex_upds) ex_peer = (0, 300, -40, 1000).
Proof. reflexivity. Qed.

(* sequence theorem and arithmetic together: the premium charged after ANY update sequence *)
Lemma premiums_follow_map_exact us p a o amt :
  Forall upd_fits us -> Forall upd_no_reserved us -> p <> premium_default_peer_id -> 0 <= amt ->
  (forall r, spec_rate (spec_run [] us) (Some p) a o = Some r -> ~ overflow_pattern r amt) ->
  code_compute (code_run_upds [] us) p a o amt =
  option_map (fun r => Z.quot (amt * r) 1000000) (spec_rate (spec_run [] us) (Some p) a o).
Proof.
  intros F N Hp Ha Hov. rewrite premiums_follow_map by assumption.
  destruct (spec_rate (spec_run [] us) (Some p) a o) as [r|]; [simpl | reflexivity].
  f_equal. apply ppm_compute_exact; auto.
Qed.

(* everything that holds, in one statement (the full statement minus the two known patterns) *)
Lemma c27_all_except_known :
  (forall rate amt, 0 <= amt -> ~ overflow_pattern rate amt ->
     code_ppm_compute rate amt = Z.quot (amt * rate) 1000000) /\
  (forall us p a o, Forall upd_fits us -> Forall upd_no_reserved us -> p <> premium_default_peer_id ->
     code_get_rate (code_run_upds [] us) p a o = opt_res (spec_rate (spec_run [] us) (Some p) a o)) /\
  (forall st p a o amt, In (a, o) four_pairs ->
     code_compute st p a o amt = Some (code_ppm_compute (adv_rate (code_local_capability_rates st p) a o) amt)).
Proof.
  split; [|split].
  - intros; now apply ppm_compute_exact.
  - intros; now apply rates_follow_map.
  - intros; now apply advertised_is_charged.
Qed.
