(* C26: peers that forced a CSV refund are quarantined. *)
From Coq Require Import String ZArith Bool List Lia.
From RecordUpdate Require Import RecordSet.
From PS Require Import Base.Wrap Model.Data Model.Actions Model.Fsm Model.History Model.FsmCorr Model.C17Corr Model.C26Corr
  Model.PeerSync Gen.ConstsSwap Gen.Tables Gen.ConstsPeerSync
  Proofs.Monad Proofs.ExecRule Proofs.MTac Proofs.WorldSym Proofs.Frame Proofs.Engine Proofs.HistRule Proofs.C17.
Import ListNotations RecordSetNotations.
Open Scope Z_scope.

Strategy opaque [event_loop exec loop_fuel action_fuel pay_loop].

Section Marks.
Variable tc : tl_consts.
Variable dec : string -> option (string * Z * Z).
Variable t : table.
Variable terminal : list string.

(* ---------- (1) entering the CSV-claimed state records the peer ---------- *)
Lemma exec_susp fuel : forall a d w r w' es,
  spine_susp fuel a = true -> exec tc dec fuel a d w = (r, w', es) -> In (ESuspicious (d_peer d)) es.
Proof.
  induction fuel as [|fuel IH]; intros [name ch] d w r w' es Hs H; [discriminate Hs|].
  rewrite exec_S in H. cbv zeta in H. cbn [spine_susp] in Hs.
  destruct (String.eqb name "CheckRequestWrapperAction") eqn:E1.
  { apply String.eqb_eq in E1. subst name. discriminate Hs. }
  destruct (String.eqb name "SetBlindingKeyActionWrapper") eqn:E2.
  { apply String.eqb_eq in E2. subst name. cbn in Hs.
    destruct (first_child ch) as [c|]; [|discriminate Hs].
    destruct (String.eqb (get_chain d) lbtc_chain).
    - apply bind_inv in H. destruct H as (k & w1 & e1 & e2 & Hp & H & ->). apply pop_inv in Hp. subst e1.
      cbn [app]. apply (IH _ _ _ _ _ _ Hs) in H. exact H.
    - eapply IH; eauto. }
  destruct (String.eqb name "StopSendMessageWithRetryWrapperAction") eqn:E3.
  { apply String.eqb_eq in E3. subst name. cbn in Hs.
    destruct (first_child ch) as [c|]; [|discriminate Hs].
    apply bind_inv in H. destruct H as (u & w1 & e1 & e2 & He & H & ->). apply emit_inv in He. destruct He as (-> & ->).
    right. eapply IH; eauto. }
  destruct (String.eqb name "CheckPremiumAmount") eqn:E4.
  { apply String.eqb_eq in E4. subst name. discriminate Hs. }
  destruct (String.eqb name "AddSuspiciousPeerAction") eqn:E5.
  { apply bind_inv in H. destruct H as (ok & w1 & e1 & e2 & Hp & H & ->). apply pop_inv in Hp. subst e1.
    apply bind_inv in H. destruct H as (u & w2 & e3 & e4 & He & H & ->). apply emit_inv in He. destruct He as (-> & ->).
    left. reflexivity. }
  cbn in Hs. discriminate Hs.
Qed.

Variable X : string.
Variable a : action_tree.
Hypothesis HX : state_tree26 t X = Some a.
Hypothesis Ha : spine_susp action_fuel a = true.

Lemma exec_peer fuel act d w r w' es : exec tc dec fuel act d w = (r, w', es) -> d_peer (snd r) = d_peer d.
Proof. intros H. apply exec_core in H. destruct H as (_ & _ & Hp & _). exact Hp. Qed.

Lemma apply_ctx_peer d c d' : apply_ctx d c = Some d' -> d_peer d' = d_peer d.
Proof.
  destruct c; cbn; intros H;
    repeat match type of H with (match ?x with _ => _ end) = _ => destruct x end; inversion H; reflexivity.
Qed.

Lemma event_loop_peer fuel : forall m ev w m' res w' es,
  event_loop tc dec t fuel m ev w = ((m', res), w', es) -> d_peer (m_data m') = d_peer (m_data m).
Proof.
  induction fuel as [|fuel IH]; intros m ev w m' res w' es H.
  - rewrite event_loop_O in H. apply ret_inv in H. destruct H as (H & _ & _). inversion H; subst. reflexivity.
  - rewrite event_loop_S in H.
    destruct (next_state t (m_cur m) ev) as [nxt|].
    2:{ apply ret_inv in H. destruct H as (H & _ & _). inversion H; subst. reflexivity. }
    destruct (lookup_state t nxt) as [sd|].
    2:{ apply ret_inv in H. destruct H as (H & _ & _). inversion H; subst. reflexivity. }
    destruct (st_action sd) as [act|].
    2:{ apply ret_inv in H. destruct H as (H & _ & _). inversion H; subst. reflexivity. }
    cbv zeta in H.
    apply bind_inv in H. destruct H as ([ev' d'] & w1 & e1 & e2 & Hex & H & ->).
    apply exec_peer in Hex. cbn in Hex.
    destruct (String.eqb ev' Ev_Panic).
    { apply ret_inv in H. destruct H as (H & _ & _). inversion H; subst. cbn. exact Hex. }
    apply bind_inv in H. destruct H as (ok & w2 & e3 & e4 & Hps & H & ->).
    destruct ok; cbn [negb] in H.
    2:{ apply ret_inv in H. destruct H as (H & _ & _). inversion H; subst. cbn. exact Hex. }
    destruct (String.eqb ev' Ev_Done).
    { apply ret_inv in H. destruct H as (H & _ & _). inversion H; subst. cbn. exact Hex. }
    destruct (String.eqb ev' Ev_NoOp).
    { apply ret_inv in H. destruct H as (H & _ & _). inversion H; subst. cbn. exact Hex. }
    destruct (String.eqb ev' Ev_Retry).
    + cbv zeta in H.
      match type of H with (if ?c then _ else _) _ = _ => destruct c end.
      * apply ret_inv in H. destruct H as (H & _ & _). inversion H; subst. cbn. exact Hex.
      * apply IH in H. cbn in H. rewrite H. exact Hex.
    + apply IH in H. cbn in H. rewrite H. exact Hex.
Qed.

Lemma ptl_peer mm ev w m' res w' es :
  persist_then_loop tc dec t mm ev w = ((m', res), w', es) -> d_peer (m_data m') = d_peer (m_data mm).
Proof.
  intros Hk. unfold persist_then_loop in Hk.
  apply bind_inv in Hk. destruct Hk as (ok & w1 & e1 & e2 & Hp & Hk & _).
  destruct ok; cbn [negb] in Hk; [eapply event_loop_peer; eauto|].
  apply ret_inv in Hk. destruct Hk as (Hk & _ & _). inversion Hk; subst. reflexivity.
Qed.

Lemma send_event_peer m ev ctx w m' res w' es :
  send_event tc dec t m ev ctx w = ((m', res), w', es) -> d_peer (m_data m') = d_peer (m_data m).
Proof.
  intros H. unfold send_event in H.
  destruct (String.eqb ev Ev_Done).
  { apply ret_inv in H. destruct H as (H & _ & _). inversion H; subst. reflexivity. }
  destruct (next_state t (m_cur m) ev).
  2:{ apply ret_inv in H. destruct H as (H & _ & _). inversion H; subst. reflexivity. }
  destruct ctx as [c|].
  - destruct (validate_ctx (m_data m) c); cbn [negb] in H.
    + destruct (apply_ctx (m_data m) c) as [d'|] eqn:Hap.
      * rewrite (ptl_peer _ _ _ _ _ _ _ H). cbn. eapply apply_ctx_peer; eauto.
      * apply ret_inv in H. destruct H as (H & _ & _). inversion H; subst. reflexivity.
    + unfold accepted_then_loop in H. destruct (next_state t (m_cur m) Ev_Invalid).
      * eapply ptl_peer; eauto.
      * apply ret_inv in H. destruct H as (H & _ & _). inversion H; subst. reflexivity.
  - eapply ptl_peer; eauto.
Qed.

Lemma event_loop_marks fuel : forall m ev w m' res w' es,
  event_loop tc dec t fuel m ev w = ((m', res), w', es) ->
  m_cur m' = X -> m_cur m <> X -> In (ESuspicious (d_peer (m_data m))) es.
Proof.
  induction fuel as [|fuel IH]; intros m ev w m' res w' es H Hc Hn.
  - rewrite event_loop_O in H. apply ret_inv in H. destruct H as (H & _ & _). inversion H; subst. contradiction.
  - rewrite event_loop_S in H.
    destruct (next_state t (m_cur m) ev) as [nxt|] eqn:Hnx.
    2:{ apply ret_inv in H. destruct H as (H & _ & _). inversion H; subst. contradiction. }
    destruct (lookup_state t nxt) as [sd|] eqn:Hl.
    2:{ apply ret_inv in H. destruct H as (H & _ & _). inversion H; subst. contradiction. }
    destruct (st_action sd) as [act|] eqn:Hact.
    2:{ apply ret_inv in H. destruct H as (H & _ & _). inversion H; subst. contradiction. }
    cbv zeta in H.
    apply bind_inv in H. destruct H as ([ev' d'] & w1 & e1 & e2 & Hex & H & ->).
    change (m_data (m <| m_prev := m_cur m |> <| m_cur := nxt |> <| m_data := m_data m <| d_fsm_state := nxt |> |>))
      with ((m_data m) <| d_fsm_state := nxt |>) in Hex.
    destruct (String.eqb nxt X) eqn:Enx.
    + apply String.eqb_eq in Enx. subst nxt. apply in_or_app. left.
      unfold state_tree26 in HX. rewrite Hl, Hact in HX. inversion HX; subst act.
      apply (exec_susp _ _ _ _ _ _ _ Ha) in Hex. exact Hex.
    + apply String.eqb_neq in Enx. apply in_or_app. right.
      pose proof (exec_peer _ _ _ _ _ _ _ Hex) as Hp. cbn [snd] in Hp.
      destruct (String.eqb ev' Ev_Panic).
      { apply ret_inv in H. destruct H as (H & _ & _). inversion H as [[Hm Hres]]. exfalso. subst m'. cbn in Hc. congruence. }
      apply bind_inv in H. destruct H as (ok & w2 & e3 & e4 & Hps & H & ->).
      apply in_or_app. right.
      assert (Hrec : forall mm evx wx, m_cur mm = nxt -> m_data mm = d' ->
                event_loop tc dec t fuel mm evx wx = ((m', res), w', e4) -> In (ESuspicious (d_peer (m_data m))) e4).
      { intros mm evx wx Hmm Hd Hl'.
        assert (Hne : m_cur mm <> X) by (rewrite Hmm; exact Enx).
        pose proof (IH _ _ _ _ _ _ _ Hl' Hc Hne) as Hin. rewrite Hd, Hp in Hin. exact Hin. }
      destruct ok; cbn [negb] in H.
      2:{ apply ret_inv in H. destruct H as (H & _ & _). inversion H as [[Hm Hres]]. exfalso. subst m'. cbn in Hc. congruence. }
      destruct (String.eqb ev' Ev_Done).
      { apply ret_inv in H. destruct H as (H & _ & _). inversion H as [[Hm Hres]]. exfalso. subst m'. cbn in Hc. congruence. }
      destruct (String.eqb ev' Ev_NoOp).
      { apply ret_inv in H. destruct H as (H & _ & _). inversion H as [[Hm Hres]]. exfalso. subst m'. cbn in Hc. congruence. }
      destruct (String.eqb ev' Ev_Retry).
      * cbv zeta in H.
        match type of H with (if ?c then _ else _) _ = _ => destruct c end.
        -- apply ret_inv in H. destruct H as (H & _ & _). inversion H as [[Hm Hres]]. exfalso. subst m'. cbn in Hc. congruence.
        -- eapply Hrec; [| |exact H]; reflexivity.
      * eapply Hrec; [| |exact H]; reflexivity.
Qed.

Lemma ptl_marks m ev w m' res w' es :
  persist_then_loop tc dec t m ev w = ((m', res), w', es) ->
  m_cur m' = X -> m_cur m <> X -> In (ESuspicious (d_peer (m_data m))) es.
Proof.
  intros H Hc Hn. unfold persist_then_loop in H.
  apply bind_inv in H. destruct H as (ok & w1 & e1 & e2 & Hp & H & ->). apply in_or_app. right.
  destruct ok; cbn [negb] in H.
  - eapply event_loop_marks; eauto.
  - apply ret_inv in H. destruct H as (H & _ & _). inversion H; subst. contradiction.
Qed.


Lemma send_event_marks m ev ctx w m' res w' es :
  send_event tc dec t m ev ctx w = ((m', res), w', es) ->
  m_cur m' = X -> m_cur m <> X -> In (ESuspicious (d_peer (m_data m))) es.
Proof.
  intros H Hc Hn. unfold send_event in H.
  destruct (String.eqb ev Ev_Done).
  { apply ret_inv in H. destruct H as (H & _ & _). inversion H; subst. contradiction. }
  destruct (next_state t (m_cur m) ev).
  2:{ apply ret_inv in H. destruct H as (H & _ & _). inversion H; subst. contradiction. }
  destruct ctx as [c|].
  - destruct (validate_ctx (m_data m) c); cbn [negb] in H.
    + destruct (apply_ctx (m_data m) c) as [d'|] eqn:Hap.
      * apply ptl_marks in H; auto. cbn in H. rewrite (apply_ctx_peer _ _ _ Hap) in H. exact H.
      * apply ret_inv in H. destruct H as (H & _ & _). inversion H; subst. contradiction.
    + unfold accepted_then_loop in H. destruct (next_state t (m_cur m) Ev_Invalid).
      * eapply ptl_marks; eauto.
      * apply ret_inv in H. destruct H as (H & _ & _). inversion H; subst. contradiction.
  - eapply ptl_marks; eauto.
Qed.

Lemma recover_marks m w m' res w' es :
  recover tc dec t m w = ((m', res), w', es) ->
  m_cur m' = X -> m_cur m <> X -> In (ESuspicious (d_peer (m_data m))) es.
Proof.
  intros H Hc Hn. unfold recover in H.
  destruct (lookup_state t (m_cur m)) as [sd|].
  2:{ apply ret_inv in H. destruct H as (H & _ & _). inversion H; subst. contradiction. }
  destruct (st_action sd) as [act|].
  2:{ apply ret_inv in H. destruct H as (H & _ & _). inversion H; subst. contradiction. }
  destruct (st_fail_on_recover sd).
  { eapply send_event_marks; eauto. }
  apply bind_inv in H. destruct H as ([ev' d'] & w1 & e1 & e2 & Hex & H & ->).
  pose proof (exec_peer _ _ _ _ _ _ _ Hex) as Hp. cbn [snd] in Hp. apply in_or_app. right.
  destruct (String.eqb ev' Ev_Panic).
  { apply ret_inv in H. destruct H as (H & _ & _). inversion H; subst. contradiction. }
  apply bind_inv in H. destruct H as (ok & w2 & e3 & e4 & Hps & H & ->). apply in_or_app. right.
  destruct ok; cbn [negb] in H.
  2:{ apply ret_inv in H. destruct H as (H & _ & _). inversion H; subst. contradiction. }
  destruct (String.eqb ev' Ev_NoOp).
  { apply ret_inv in H. destruct H as (H & _ & _). inversion H; subst. contradiction. }
  apply send_event_marks in H; auto. cbn in H. rewrite Hp in H. exact H.
Qed.

(* every entry point of the service: a step that brings the swap into the CSV-claimed state
   calls AddToSuspiciousPeerList for the swap's peer *)
Theorem step_marks m i w o w' es :
  Fsm.step tc dec t terminal m i w = (o, w', es) ->
  m_cur (o_machine o) = X -> m_cur m <> X -> In (ESuspicious (d_peer (m_data m))) es.
Proof.
  intros H Hc Hn. destruct i as [ev ctx|rq|hex err| | |]; unfold Fsm.step in H.
  - apply bind_inv in H. destruct H as ([m1 res] & w1 & e1 & e2 & Hs & H & ->).
    apply ret_inv in H. destruct H as (-> & _ & ->). rewrite app_nil_r. eapply send_event_marks; eauto.
  - apply bind_inv in H. destruct H as ([m1 res] & w1 & e1 & e2 & Hs & H & ->).
    apply ret_inv in H. destruct H as (-> & _ & ->). rewrite app_nil_r. eapply send_event_marks; eauto.
  - apply bind_inv in H. destruct H as ([m0 rem0] & w1 & e1 & e2 & H0 & H & ->).
    apply bind_inv in H. destruct H as ([m1 res] & w2 & e3 & e4 & Hs & H & ->).
    apply ret_inv in H. destruct H as (-> & _ & ->). rewrite app_nil_r. cbn [o_machine] in Hc.
    assert (Pre : (m_cur m0 = X -> In (ESuspicious (d_peer (m_data m))) e1) /\ d_peer (m_data m0) = d_peer (m_data m)).
    { destruct err.
      - apply bind_inv in H0. destruct H0 as ([mx rx] & wx & ex & ey & Hs0 & H0 & ->).
        apply ret_inv in H0. destruct H0 as (H0 & _ & ->). cbn in H0. inversion H0 as [[Hm0 Hr0]]. subst m0.
        rewrite app_nil_r. split; [intros Hx; eapply send_event_marks; eauto | eapply send_event_peer; eauto].
      - apply ret_inv in H0. destruct H0 as (H0 & _ & ->). inversion H0 as [[Hm0 Hr0]]. subst m0.
        split; [intros Hx; contradiction | reflexivity]. }
    destruct Pre as [Pm Pp].
    destruct (String.eqb (m_cur m0) X) eqn:E0.
    + apply String.eqb_eq in E0. apply in_or_app. left. exact (Pm E0).
    + apply String.eqb_neq in E0. apply in_or_app. right.
      apply send_event_marks in Hs; auto. cbn in Hs. rewrite Pp in Hs. exact Hs.
  - apply bind_inv in H. destruct H as ([m1 res] & w1 & e1 & e2 & Hs & H & ->).
    apply ret_inv in H. destruct H as (-> & _ & ->). rewrite app_nil_r. eapply send_event_marks; eauto.
  - apply bind_inv in H. destruct H as ([m1 res] & w1 & e1 & e2 & Hs & H & ->).
    apply ret_inv in H. destruct H as (-> & _ & ->). rewrite app_nil_r. eapply send_event_marks; eauto.
  - destruct (is_finished terminal (m_cur m)).
    { apply ret_inv in H. destruct H as (-> & _ & _). cbn in Hc. contradiction. }
    apply bind_inv in H. destruct H as ([m1 res] & w1 & e1 & e2 & Hs & H & ->).
    apply ret_inv in H. destruct H as (-> & _ & ->). rewrite app_nil_r. eapply recover_marks; eauto.
Qed.

End Marks.

(* ---------- (2) later requests of a quarantined peer ---------- *)
Section Admission.
Variable tc : tl_consts.
Variable dec : string -> option (string * Z * Z).
Variable t : table.
Variable terminal : list string.

Lemma check_request_quarantined d w r w' es :
  w_peer_suspicious w = true -> check_request tc d w = (r, w', es) ->
  r <> Some true /\ w' = w /\ es = [].
Proof.
  intros Hs H. unfold check_request in H.
  apply bind_inv in H. destruct H as (w0 & w1 & e1 & e2 & Hask & H & ->).
  apply ask_inv in Hask. destruct Hask as (-> & -> & ->).
  rewrite Hs in H.
  repeat match type of H with
  | (if ?c then _ else _) _ = _ => destruct c
  end; apply ret_inv in H; destruct H as (-> & -> & ->); repeat split; discriminate.
Qed.

(* the guarded action is not run: no timer, no invoice, no agreement; the request is logged as rejected *)
Lemma exec_guarded_quarantined f ch d w r w' es :
  w_peer_suspicious w = true ->
  exec tc dec (S f) (ANode "CheckRequestWrapperAction" ch) d w = (r, w', es) ->
  r = (Ev_Failed, d) /\ w' = w /\ (es = [ERequestedSwapLog] \/ es = []).
Proof.
  intros Hs H. rewrite exec_S in H. cbv zeta in H. cbn [String.eqb Ascii.eqb Bool.eqb] in H.
  change (String.eqb "CheckRequestWrapperAction" "CheckRequestWrapperAction") with true in H. cbv iota in H.
  apply bind_inv in H. destruct H as (cr & w1 & e1 & e2 & Hc & H & ->).
  destruct (check_request_quarantined _ _ _ _ _ Hs Hc) as (Hne & -> & ->).
  destruct cr as [[|]|]; [contradiction| |].
  - unfold log_rejected in H. msym. auto.
  - msym. auto.
Qed.

Lemma root_is_inv s name : root_is t s name = true ->
  exists sd ch, lookup_state t s = Some sd /\ st_action sd = Some (ANode name ch).
Proof.
  unfold root_is, state_tree26. destruct (lookup_state t s) as [sd|]; [|discriminate].
  destruct (st_action sd) as [[n ch]|] eqn:Ea; [|discriminate].
  intros H. apply String.eqb_eq in H. subst. eauto.
Qed.

Lemma susp_pop_other {A} get put (dflt : A) w x w' :
  Popped get put dflt w x w' -> (forall r w0, w_peer_suspicious (put r w0) = w_peer_suspicious w0) ->
  w_peer_suspicious w' = w_peer_suspicious w.
Proof.
  intros [(r & _ & ->)|(_ & _ & ->)] Hput; [apply Hput|]. destruct w; reflexivity.
Qed.

Lemma persist_susp m w ok w' es : persist m w = (ok, w', es) -> w_peer_suspicious w' = w_peer_suspicious w.
Proof.
  unfold persist. intros H. wsym.
  match goal with P : Popped _ _ _ _ _ _ |- _ => eapply susp_pop_other; [exact P|] end.
  intros r w0. destruct w0; reflexivity.
Qed.

(* a request (swap-in or swap-out) of a quarantined peer: the swap is created, the admission
   check fails, the swap is cancelled, removed, and the peer is told; nothing else happens *)
Theorem quarantined_request_cancelled ev m c d' w m' res w' es :
  c26_admission_ok t terminal ev = true -> String.eqb ev Ev_Done = false ->
  m_cur m = ""%string -> validate_ctx (m_data m) c = true -> apply_ctx (m_data m) c = Some d' ->
  w_peer_suspicious w = true -> stores_ok w = true ->
  send_event tc dec t m ev (Some c) w = ((m', res), w', es) ->
  res = mkResult true ErrNone /\ is_finished terminal (m_cur m') = true /\
  existsb (is_cancel_to (d_peer (m_data m))) es = true /\ forallb harmless es = true.
Proof.
  unfold c26_admission_ok. intros Hok Hev Hcur Hv Hap Hs S H.
  destruct (next_state t "" ev) as [cs|] eqn:Hn; [|discriminate].
  apply andb_true_iff in Hok. destruct Hok as [Hroot Hpath].
  apply root_is_inv in Hroot. destruct Hroot as (sd & ch & Hl & Hact).
  unfold send_event in H. rewrite Hev, Hcur, Hn, Hv, Hap in H. cbn [negb] in H.
  unfold persist_then_loop in H.
  apply bind_inv in H. destruct H as (ok & w1 & e1 & e2 & Hp & H & ->).
  pose proof (persist_susp _ _ _ _ _ Hp) as Hs1. rewrite Hs in Hs1.
  destruct (persist_stores _ _ _ _ _ S Hp) as (-> & -> & S1). cbn [negb] in H.
  rewrite loop_fuel_eq in H. rewrite event_loop_S in H.
  change (m_cur (m <| m_data := d' |>)) with (m_cur m) in H. rewrite Hcur in H.
  rewrite Hn, Hl, Hact in H. cbv zeta in H. rewrite action_fuel_eq in H.
  apply bind_inv in H. destruct H as ([ev1 d1] & w2 & e3 & e4 & Hex & H & ->).
  destruct (exec_guarded_quarantined _ _ _ _ _ _ _ Hs1 Hex) as (Hr & -> & He3). inversion Hr; subst ev1 d1; clear Hr.
  change (String.eqb Ev_Failed Ev_Panic) with false in H. cbv iota in H.
  apply bind_inv in H. destruct H as (ok1 & w3 & e5 & e6 & Hp1 & H & ->).
  destruct (persist_stores _ _ _ _ _ S1 Hp1) as (-> & -> & S2). cbn [negb] in H.
  change (String.eqb Ev_Failed Ev_Done) with false in H.
  change (String.eqb Ev_Failed Ev_NoOp) with false in H.
  change (String.eqb Ev_Failed Ev_Retry) with false in H. cbv iota in H.
  apply (cancel_path_run tc dec t terminal) in H; [|exact Hpath|exact S2].
  destruct H as (A & B & C & D & E).
  split; [exact A|]. split; [exact B|]. split.
  - rewrite !existsb_app. cbn in C. rewrite (apply_ctx_peer _ _ _ Hap) in C. rewrite C. rewrite !orb_true_r. reflexivity.
  - rewrite !forallb_app. cbn [forallb harmless andb].
    assert (H3 : forallb harmless e3 = true) by (destruct He3 as [-> | ->]; reflexivity).
    rewrite H3. cbn. apply forallb_forall. intros e Hin. rewrite forallb_forall in E. specialize (E e Hin).
    destruct e; try discriminate; try reflexivity. destruct m0; try discriminate; reflexivity.
Qed.

End Admission.

(* ---------- (3) peer-sync: a quarantined peer is neither answered nor remembered ---------- *)
Lemma ps_handle_quarantined now s from ty payload :
  mem from (s_susp s) = true ->
  let '(s', ms) := handle_message now s from ty payload in s_store s' = s_store s /\ ms = [].
Proof.
  intros Hm. unfold handle_message.
  assert (Hst : store_capability_message now s from payload = s_store s).
  { unfold store_capability_message. destruct payload as [sn|]; [|reflexivity].
    destruct (to_capability sn); [|reflexivity]. rewrite Hm. reflexivity. }
  destruct (ty =? ps_msgtype_poll).
  - cbn. rewrite Hst. auto.
  - destruct (ty =? ps_msgtype_request_poll); [rewrite Hm|]; cbn; auto.
Qed.

Definition not_to (p : string) (ms : list sent) : Prop := Forall (fun m => fst (fst m) <> p) ms.

Lemma mem_neq k p l : mem p l = true -> mem k l = false -> k <> p.
Proof. intros H1 H2 ->. congruence. Qed.

Lemma poll_known_quarantined now timeout force s p : mem p (s_susp s) = true ->
  forall peers st, not_to p (snd (poll_known now timeout force s peers st)).
Proof.
  intros Hm. induction peers as [|[k pr] rest IH]; intros st; cbn [poll_known]; [constructor|].
  destruct (negb force && negb (should_poll now pr)); [apply IH|].
  destruct (mem k (s_susp s)) eqn:Hk; [apply IH|].
  destruct (send_ok (do_send s k (if capability_is_stale now timeout pr then ps_msgtype_request_poll else ps_msgtype_poll))).
  - match goal with |- context [poll_known now timeout force s rest ?st2] =>
      specialize (IH st2); destruct (poll_known now timeout force s rest st2) as [st' ms] end.
    cbn in *. constructor; [|exact IH]. cbn. eapply mem_neq; eauto.
  - specialize (IH st). destruct (poll_known now timeout force s rest st) as [st' ms].
    cbn in *. constructor; [|exact IH]. cbn. eapply mem_neq; eauto.
Qed.

Lemma request_unknown_quarantined interval now force s known p : mem p (s_susp s) = true ->
  forall conn rq, not_to p (snd (request_unknown interval now force s known conn rq)).
Proof.
  intros Hm. induction conn as [|k rest IH]; intros rq; cbn [request_unknown]; [constructor|].
  destruct (mem k known); [apply IH|].
  destruct (mem k (s_susp s)) eqn:Hk; [apply IH|].
  destruct (allow_request interval now force k rq) as [ok rq'].
  destruct ok; [|apply IH].
  specialize (IH rq'). destruct (request_unknown interval now force s known rest rq') as [rq'' ms].
  cbn in *. constructor; [|exact IH]. cbn. eapply mem_neq; eauto.
Qed.

Theorem ps_poller_quarantined now force s p :
  mem p (s_susp s) = true -> not_to p (snd (poll_peers now force s)).
Proof.
  intros Hm. unfold poll_peers.
  destruct (load_all (s_store s)) as [peers|]; [|constructor].
  pose proof (poll_known_quarantined now ps_poller_timeout force s p Hm peers (s_store s)) as H1.
  destruct (poll_known now ps_poller_timeout force s peers (s_store s)) as [st' ms1]. cbn in H1.
  destruct (s_listfail s); [exact H1|].
  match goal with |- context [request_unknown ?i now force s ?kn ?cn ?rq] =>
    pose proof (request_unknown_quarantined i now force s kn p Hm cn rq) as H2;
    destruct (request_unknown i now force s kn cn rq) as [rq' ms2] end.
  cbn in *. apply Forall_app. split; assumption.
Qed.

(* ---------- the generated tables ---------- *)
Lemma gen_tables_ok :
  c26_marks table_swap_out_receiver = true /\ c26_marks table_swap_in_sender = true /\
  c26_marks table_swap_out_sender = true /\ c26_marks table_swap_in_receiver = true /\
  c26_entered_by_csv_spend table_swap_out_receiver = true /\ c26_entered_by_csv_spend table_swap_in_sender = true /\
  c26_entered_by_csv_spend table_swap_out_sender = true /\ c26_entered_by_csv_spend table_swap_in_receiver = true /\
  c26_admission_ok table_swap_out_receiver terminal_states "Event_OnSwapOutRequestReceived" = true /\
  c26_admission_ok table_swap_in_receiver terminal_states "Event_SwapInReceiver_OnRequestReceived" = true.
Proof. vm_compute. repeat split; reflexivity. Qed.

Lemma gen_csv_state_trees :
  state_tree26 table_swap_out_receiver c26_csv_state = Some (ANode "AddSuspiciousPeerAction" [ANode "NoOpDoneAction" []]) /\
  state_tree26 table_swap_in_sender c26_csv_state = Some (ANode "AddSuspiciousPeerAction" [ANode "NoOpDoneAction" []]) /\
  state_tree26 table_swap_out_sender c26_csv_state = None /\ state_tree26 table_swap_in_receiver c26_csv_state = None.
Proof. vm_compute. repeat split; reflexivity. Qed.

(* ---------- the makers' tables of the code ---------- *)
Theorem gen_csv_refund_marks_peer dec t :
  t = table_swap_out_receiver \/ t = table_swap_in_sender ->
  forall m i w o w' es,
    Fsm.step tl_consts_gen dec t terminal_states m i w = (o, w', es) ->
    m_cur (o_machine o) = c26_csv_state -> m_cur m <> c26_csv_state ->
    In (ESuspicious (d_peer (m_data m))) es.
Proof.
  destruct gen_csv_state_trees as (T1 & T2 & _).
  intros [-> | ->] m i w o w' es; eapply step_marks; eauto; vm_compute; reflexivity.
Qed.

Theorem gen_quarantined_request_cancelled dec t ev :
  (t = table_swap_out_receiver /\ ev = "Event_OnSwapOutRequestReceived"%string) \/
  (t = table_swap_in_receiver /\ ev = "Event_SwapInReceiver_OnRequestReceived"%string) ->
  forall m c d' w m' res w' es,
    m_cur m = ""%string -> validate_ctx (m_data m) c = true -> apply_ctx (m_data m) c = Some d' ->
    w_peer_suspicious w = true -> stores_ok w = true ->
    send_event tl_consts_gen dec t m ev (Some c) w = ((m', res), w', es) ->
    res = mkResult true ErrNone /\ is_finished terminal_states (m_cur m') = true /\
    existsb (is_cancel_to (d_peer (m_data m))) es = true /\ forallb harmless es = true.
Proof.
  destruct gen_tables_ok as (_ & _ & _ & _ & _ & _ & _ & _ & A1 & A2).
  intros [[-> ->] | [-> ->]] m c d' w m' res w' es; eapply quarantined_request_cancelled; eauto.
Qed.

(* non-vacuity: a quarantined peer's swap-out request, computed *)
Example ex_quarantined_request :
  let pk := "02aaaaaaaaaaaaaaaaaaaaaaaaaaaaaaaaaaaaaaaaaaaaaaaaaaaaaaaaaaaaaaaa"%string in
  let rq := mkReq 7 "id" "regtest" "" "1x2x3" 200000 pk 1000 in
  let m := fresh_machine "id" 2 2 "peer" "peer" "key" in
  let w := mkWorld true true true 100000000 true true "" "regtest" (Some 0) pk [] [] [true] [true; true; true; true] [] [] [] [] [] [] [] [] [] [] [] [] [] [] [] [] false in
  let '(o, _, es) := run_step tl_consts_gen (fun _ => None) table_swap_out_receiver terminal_states m
                       (InEvent "Event_OnSwapOutRequestReceived" (Some (MOutReq rq))) w in
  m_cur (o_machine o) = "State_SwapCanceled"%string /\ o_removed o = true /\ forallb harmless es = true /\
  existsb (is_cancel_to "peer") es = true.
Proof. vm_compute. auto. Qed.
