(* A proof rule for [exec] over ANY action tree: a relation Q between the input
   data, the result and the emitted effects holds if it holds of every leaf
   action and is closed under what the five wrapper actions add. *)
From Coq Require Import String ZArith Bool List Lia.
From RecordUpdate Require Import RecordSet.
From PS Require Import Base.Wrap Model.Data Model.Actions Proofs.Monad.
Import ListNotations RecordSetNotations.
Open Scope Z_scope.

(* unfolding equations (stated before exec is made opaque for conversion) *)
Lemma exec_O tc dec a d : exec tc dec O a d = ret (Ev_Unknown, d).
Proof. reflexivity. Qed.

Lemma exec_S tc dec fuel name ch d :
  exec tc dec (S fuel) (ANode name ch) d =
    let next (d' : swap_data) : M (string * swap_data) :=
      match first_child ch with Some c => exec tc dec fuel c d' | None => ret (Ev_Unknown, d') end in
    if String.eqb name "CheckRequestWrapperAction" then
      r <- check_request tc d ;;
      match r with
      | Some true => next d
      | Some false => log_rejected d
      | None => fail d
      end
    else if String.eqb name "SetBlindingKeyActionWrapper" then
      if String.eqb (get_chain d) lbtc_chain
      then k <- pop_blind ;; next (d <| d_blinding_hex := k |>)
      else next d
    else if String.eqb name "StopSendMessageWithRetryWrapperAction" then
      emit ERetransStop ;;; next d
    else if String.eqb name "CheckPremiumAmount" then
      match check_premium d with
      | None => panic d
      | Some true => next d
      | Some false => fail d
      end
    else if String.eqb name "AddSuspiciousPeerAction" then
      _ok <- pop_addsusp ;; emit (ESuspicious (d_peer d)) ;;; next d
    else
      match assoc_str name (leaf_actions tc dec) with
      | Some f => f d
      | None => ret (Ev_Unknown, d)
      end.
Proof. reflexivity. Qed.

Lemma pay_loop_O csvh pol payreq d : pay_loop O csvh pol payreq d = fail d.
Proof. reflexivity. Qed.

Lemma pay_loop_S n csvh pol payreq d :
  pay_loop (S n) csvh pol payreq d =
    (more <- ask (fun w => match q_height w with [] => false | _ => true end) ;;
     if negb more then fail d else
     h <- pop_height ;;
     match h with
     | None => fail d
     | Some now =>
       if String.eqb (get_chain d) btc_chain && (csvh / 2 <? u32_sub now (d_start_height d)) then fail d
       else if String.eqb (get_chain d) lbtc_chain && negb (check_payment_window d now pol) then fail d
       else
         r <- pop q_pay (fun r w => w <| q_pay := r |>) None ;;
         emit (EPayClaim payreq (get_scid d) (p_max_total pol) now r) ;;;
         match r with
         | None => pay_loop n csvh pol payreq d
         | Some pre => succeed (d <| d_claim_preimage := pre |>)
         end
     end).
Proof. reflexivity. Qed.

Strategy opaque [exec pay_loop].
Arguments exec : simpl never.

Lemma assoc_str_in {A} k (l : list (string * A)) v : assoc_str k l = Some v -> In (k, v) l.
Proof.
  induction l as [|[k' v'] r IH]; simpl; [discriminate|].
  destruct (String.eqb k k') eqn:E.
  - intros H. inversion H; subst. apply String.eqb_eq in E. subst. auto.
  - auto.
Qed.

Lemma check_request_no_effects tc d w r w' es : check_request tc d w = (r, w', es) -> es = [].
Proof.
  unfold check_request. intros H. apply bind_inv in H.
  destruct H as (w0 & w1 & e1 & e2 & Ha & H & ->). apply ask_inv in Ha. destruct Ha as (-> & -> & ->).
  repeat match type of H with
  | (if ?c then _ else _) _ = _ => destruct c
  end; apply ret_inv in H; destruct H as (_ & _ & ->); reflexivity.
Qed.

Section ExecRule.
Variable tc : tl_consts.
Variable dec : string -> option (string * Z * Z).

(* Q d r es: running an action on data d may return r having emitted es *)
Variable Q : swap_data -> string * swap_data -> list effect -> Prop.

Hypothesis Q_leaf : forall name f, In (name, f) (leaf_actions tc dec) ->
  forall d w r w' es, f d w = (r, w', es) -> Q d r es.
Hypothesis Q_unknown : forall d, Q d (Ev_Unknown, d) [].
(* CheckRequestWrapperAction *)
Hypothesis Q_reject_logged : forall d, Q d (Ev_Failed, d) [ERequestedSwapLog].
Hypothesis Q_fail : forall d, Q d (Ev_Failed, d) [].
(* SetBlindingKeyActionWrapper *)
Hypothesis Q_blinding : forall d k r es,
  String.eqb (get_chain d) lbtc_chain = true -> Q (d <| d_blinding_hex := k |>) r es -> Q d r es.
(* StopSendMessageWithRetryWrapperAction *)
Hypothesis Q_stop : forall d r es, Q d r es -> Q d r (ERetransStop :: es).
(* CheckPremiumAmount *)
Hypothesis Q_panic : forall d, check_premium d = None -> Q d (Ev_Panic, d) [].
Hypothesis Q_premium_ok : forall d r es, check_premium d = Some true -> Q d r es -> Q d r es.
(* AddSuspiciousPeerAction *)
Hypothesis Q_suspicious : forall d r es, Q d r es -> Q d r (ESuspicious (d_peer d) :: es).

Theorem exec_rule fuel : forall a d w r w' es,
  exec tc dec fuel a d w = (r, w', es) -> Q d r es.
Proof.
  induction fuel as [|fuel IH]; intros [name ch] d w r w' es H.
  - rewrite exec_O in H. apply ret_inv in H. destruct H as (-> & _ & ->). apply Q_unknown.
  - rewrite exec_S in H. cbv zeta in H.
    assert (Next : forall d' w1 r1 w2 e1,
              (match first_child ch with Some c => exec tc dec fuel c d' | None => ret (Ev_Unknown, d') end) w1
              = (r1, w2, e1) -> Q d' r1 e1).
    { intros d' w1 r1 w2 e1 Hn. destruct (first_child ch) as [c|].
      - eapply IH; eauto.
      - apply ret_inv in Hn. destruct Hn as (-> & _ & ->). apply Q_unknown. }
    destruct (String.eqb name "CheckRequestWrapperAction").
    { apply bind_inv in H. destruct H as (cr & w1 & e1 & e2 & Hc & H & ->).
      apply check_request_no_effects in Hc. subst e1. simpl.
      destruct cr as [[|]|].
      - eapply Next; eauto.
      - unfold log_rejected in H. apply bind_inv in H. destruct H as (u & w2 & e3 & e4 & He & H & ->).
        apply emit_inv in He. destruct He as (-> & ->).
        apply ret_inv in H. destruct H as (-> & _ & ->). apply Q_reject_logged.
      - apply ret_inv in H. destruct H as (-> & _ & ->). apply Q_fail. }
    destruct (String.eqb name "SetBlindingKeyActionWrapper").
    { destruct (String.eqb (get_chain d) lbtc_chain) eqn:El.
      - apply bind_inv in H. destruct H as (k & w1 & e1 & e2 & Hp & H & ->).
        apply pop_inv in Hp. subst e1. simpl. eapply Q_blinding; eauto.
      - eapply Next; eauto. }
    destruct (String.eqb name "StopSendMessageWithRetryWrapperAction").
    { apply bind_inv in H. destruct H as (u & w1 & e1 & e2 & He & H & ->).
      apply emit_inv in He. destruct He as (-> & ->). simpl. apply Q_stop. eapply Next; eauto. }
    destruct (String.eqb name "CheckPremiumAmount").
    { destruct (check_premium d) as [[|]|] eqn:Ep.
      - eapply Q_premium_ok; eauto.
      - apply ret_inv in H. destruct H as (-> & _ & ->). apply Q_fail.
      - apply ret_inv in H. destruct H as (-> & _ & ->). apply Q_panic; auto. }
    destruct (String.eqb name "AddSuspiciousPeerAction").
    { apply bind_inv in H. destruct H as (ok & w1 & e1 & e2 & Hp & H & ->).
      apply pop_inv in Hp. subst e1.
      apply bind_inv in H. destruct H as (u & w2 & e3 & e4 & He & H & ->).
      apply emit_inv in He. destruct He as (-> & ->). simpl. apply Q_suspicious. eapply Next; eauto. }
    destruct (assoc_str name (leaf_actions tc dec)) as [f|] eqn:Ef.
    + apply assoc_str_in in Ef. eapply Q_leaf; eauto.
    + apply ret_inv in H. destruct H as (-> & _ & ->). apply Q_unknown.
Qed.

End ExecRule.
