(* C10: at most one active swap per channel, over all sequences of service operations. *)
From Coq Require Import String Ascii ZArith Bool List Lia.
From RecordUpdate Require Import RecordSet.
From PS Require Import Base.Wrap Model.Data Model.Actions Model.Fsm Model.History Model.Service
  Proofs.Monad Proofs.ExecRule Proofs.MTac Proofs.Frame Proofs.Engine Proofs.C09.
Import ListNotations RecordSetNotations.
Open Scope Z_scope.

Strategy opaque [event_loop exec loop_fuel action_fuel pay_loop].

(* ---- the association-list map ---- *)
Lemma assoc_put_same {A} k (v : A) l : assoc_str k (put k v l) = Some v.
Proof.
  induction l as [|[k' v'] r IH]; cbn.
  - now rewrite String.eqb_refl.
  - destruct (String.eqb k k') eqn:E; cbn; rewrite ?E; [now rewrite String.eqb_refl|exact IH].
Qed.

Lemma assoc_put_other {A} k k' (v : A) l : k' <> k -> assoc_str k' (put k v l) = assoc_str k' l.
Proof.
  intros Hne. induction l as [|[k0 v0] r IH]; cbn.
  - destruct (String.eqb k' k) eqn:E; [apply String.eqb_eq in E; contradiction|reflexivity].
  - destruct (String.eqb k k0) eqn:E; cbn.
    + apply String.eqb_eq in E. subst k0.
      destruct (String.eqb k' k) eqn:E2; [apply String.eqb_eq in E2; contradiction|reflexivity].
    + destruct (String.eqb k' k0); [reflexivity|exact IH].
Qed.

Lemma assoc_del_same {A} k (l : list (string * A)) : assoc_str k (del k l) = None.
Proof.
  induction l as [|[k' v'] r IH]; cbn; [reflexivity|].
  destruct (String.eqb k k') eqn:E; [exact IH|cbn; rewrite E; exact IH].
Qed.

Lemma assoc_del_other {A} k k' (l : list (string * A)) : k' <> k -> assoc_str k' (del k l) = assoc_str k' l.
Proof.
  intros Hne. induction l as [|[k0 v0] r IH]; cbn; [reflexivity|].
  destruct (String.eqb k k0) eqn:E.
  - apply String.eqb_eq in E. subst k0.
    destruct (String.eqb k' k) eqn:E2; [apply String.eqb_eq in E2; contradiction|exact IH].
  - cbn. destruct (String.eqb k' k0); [reflexivity|exact IH].
Qed.

(* ---- the invariant ---- *)
Definition has_chan (m : machine) : Prop := get_scid (m_data m) <> EmptyString.

(* two different active swaps with a channel attached are on different channels,
   whichever separator their channel ids are written with *)
Definition chan_inv (n : node) : Prop :=
  forall id1 m1 id2 m2,
    assoc_str id1 (n_active n) = Some m1 -> assoc_str id2 (n_active n) = Some m2 ->
    has_chan m1 -> has_chan m2 -> chan_of m1 = chan_of m2 -> id1 = id2.

Lemma chan_inv_empty st : chan_inv (mkNode [] st).
Proof. intros id1 m1 id2 m2 H. discriminate. Qed.

Lemma get_scid_reqs d d' : reqs d = reqs d' -> get_scid d = get_scid d'.
Proof. unfold reqs, get_scid, get_request. intros H. inversion H. rewrite H1, H2. reflexivity. Qed.

Lemma lock_ok_no_same_channel n id scid m n1 :
  lock_swap n id scid m = Some n1 ->
  n1 = n <| n_active := put id m (n_active n) |> /\
  forall id' m', assoc_str id' (n_active n) = Some m' -> chan_of m' <> norm_scid scid.
Proof.
  unfold lock_swap.
  destruct (existsb _ (n_active n)) eqn:E; [discriminate|].
  intros H. inversion H; subst. split; [reflexivity|].
  intros id' m' Ha Heq.
  assert (existsb (fun p => String.eqb (norm_scid (get_scid (m_data (snd p)))) (norm_scid scid)) (n_active n) = true).
  { apply existsb_exists. exists (id', m'). split; [apply assoc_str_in; exact Ha|].
    cbn. apply String.eqb_eq. exact Heq. }
  congruence.
Qed.

Section Inv.
Variable tc : tl_consts.
Variable decode : string -> option (string * Z * Z).
Variable t_os t_or t_is t_ir : table.
Variable terminal : list string.

Notation deliver := (deliver tc decode t_os t_or t_is t_ir terminal).

(* delivering to the swap bound to [id]: every other binding is untouched, the swap itself is
   removed or keeps its request fields, or gets those of the context it was handed *)
Lemma deliver_active n id m i w n' es o :
  deliver n id m i w = (n', es, o) ->
  (forall id', id' <> id -> assoc_str id' (n_active n') = assoc_str id' (n_active n)) /\
  (assoc_str id (n_active n') = None \/
   exists m', assoc_str id (n_active n') = Some m' /\
     (reqs (m_data m') = reqs (m_data m) \/
      exists c d', input_ctx i = Some c /\ apply_ctx (m_data m) c = Some d' /\ reqs (m_data m') = reqs d')).
Proof.
  unfold Service.deliver.
  destruct (run_step tc decode (table_of t_os t_or t_is t_ir m) terminal m i w) as [[o1 w1] es1] eqn:Hs.
  intros H. inversion H; subst; clear H. cbn [n_active].
  split.
  - intros id' Hne. destruct (o_removed o); [apply assoc_del_other|apply assoc_put_other]; auto.
  - destruct (o_removed o).
    + left. apply assoc_del_same.
    + right. exists (o_machine o). split; [apply assoc_put_same|].
      unfold run_step in Hs. eapply step_reqs; eauto.
Qed.

(* a context that is not a request never changes the request fields *)
Lemma apply_non_request d c d' :
  is_request_msg c = false -> apply_ctx d c = Some d' -> reqs d' = reqs d.
Proof.
  intros Hr H. destruct c; try discriminate; cbn in H;
  repeat match type of H with (match ?x with _ => _ end) = _ => destruct x; try discriminate end;
  inversion H; subst; destruct d; reflexivity.
Qed.

Lemma chan_of_reqs m m' : reqs (m_data m') = reqs (m_data m) -> chan_of m' = chan_of m /\ (has_chan m' <-> has_chan m).
Proof. intros H. unfold chan_of, has_chan. rewrite (get_scid_reqs _ _ H). tauto. Qed.

(* an existing swap handles an input that carries no request *)
Lemma deliver_existing_inv n id m i w n' es o :
  chan_inv n -> assoc_str id (n_active n) = Some m ->
  (forall c, input_ctx i = Some c -> is_request_msg c = false) ->
  deliver n id m i w = (n', es, o) -> chan_inv n'.
Proof.
  intros Hinv Hm Hnr H. apply deliver_active in H. destruct H as [Hoth Hid].
  assert (Hsame : forall m', assoc_str id (n_active n') = Some m' -> reqs (m_data m') = reqs (m_data m)).
  { intros m' Hm'. destruct Hid as [Hn|(m2 & Hm2 & Hr)]; [congruence|].
    rewrite Hm2 in Hm'. inversion Hm'; subst.
    destruct Hr as [Hr|(c & d' & Hc & Hap & Hr)]; [exact Hr|].
    rewrite Hr. eapply apply_non_request; eauto. }
  intros id1 m1 id2 m2 H1 H2 Hc1 Hc2 Heq.
  destruct (String.eqb id1 id) eqn:E1; destruct (String.eqb id2 id) eqn:E2.
  - apply String.eqb_eq in E1, E2. congruence.
  - apply String.eqb_eq in E1. apply String.eqb_neq in E2. subst id1.
    rewrite (Hoth id2 E2) in H2.
    destruct (chan_of_reqs _ _ (Hsame _ H1)) as [Hch Hh].
    eapply (Hinv id m id2 m2); eauto; [apply Hh; exact Hc1|congruence].
  - apply String.eqb_neq in E1. apply String.eqb_eq in E2. subst id2.
    rewrite (Hoth id1 E1) in H1.
    destruct (chan_of_reqs _ _ (Hsame _ H2)) as [Hch Hh].
    eapply (Hinv id1 m1 id m); eauto; [apply Hh; exact Hc2|congruence].
  - apply String.eqb_neq in E1, E2. rewrite (Hoth id1 E1) in H1. rewrite (Hoth id2 E2) in H2.
    eapply Hinv; eauto.
Qed.

Lemma apply_request_scid d c r d' :
  (c = MInReq r \/ c = MOutReq r) -> get_scid d = EmptyString -> apply_ctx d c = Some d' ->
  get_scid d' = EmptyString \/ get_scid d' = rq_scid r.
Proof.
  intros [-> | ->] Hf H; cbn in H.
  - destruct (d_in_req d) eqn:E; [discriminate|]. inversion H; subst. right.
    unfold get_scid, get_request. destruct d; reflexivity.
  - destruct (d_out_req d) eqn:E; [discriminate|]. inversion H; subst.
    unfold get_scid, get_request in *. destruct d; cbn in *.
    destruct d_in_req; [left; exact Hf|right; reflexivity].
Qed.

(* a new swap is locked on channel [scid] and handed the request that names that channel *)
Lemma deliver_new_inv n id scid m0 i w n1 n' es o :
  chan_inv n -> get_scid (m_data m0) = EmptyString ->
  lock_swap n id scid m0 = Some n1 ->
  (exists r, (input_ctx i = Some (MInReq r) \/ input_ctx i = Some (MOutReq r)) /\ rq_scid r = scid) ->
  deliver n1 id m0 i w = (n', es, o) -> chan_inv n'.
Proof.
  intros Hinv Hfresh Hlock (r & Hctx & Hscid) H.
  apply lock_ok_no_same_channel in Hlock. destruct Hlock as [-> Hfree].
  apply deliver_active in H. destruct H as [Hoth Hid]. cbn [n_active] in *.
  assert (Hold : forall id', id' <> id -> assoc_str id' (n_active n') = assoc_str id' (n_active n)).
  { intros id' Hne. rewrite (Hoth id' Hne). apply assoc_put_other. exact Hne. }
  assert (Hnew : forall m', assoc_str id (n_active n') = Some m' -> has_chan m' -> chan_of m' = norm_scid scid).
  { intros m' Hm' Hc. destruct Hid as [Hn|(m2 & Hm2 & Hr)]; [congruence|].
    rewrite Hm2 in Hm'. inversion Hm'; subst m2.
    destruct Hr as [Hr|(c & d' & Hc' & Hap & Hr)].
    - exfalso. apply Hc. rewrite (get_scid_reqs _ _ Hr). exact Hfresh.
    - unfold chan_of, has_chan in *. rewrite (get_scid_reqs _ _ Hr) in *.
      assert (Hcr : c = MInReq r \/ c = MOutReq r).
      { destruct Hctx as [Hctx|Hctx]; rewrite Hctx in Hc'; inversion Hc'; auto. }
      destruct (apply_request_scid _ _ _ _ Hcr Hfresh Hap) as [He|He]; [contradiction|].
      rewrite He, Hscid. reflexivity. }
  intros id1 m1 id2 m2 H1 H2 Hc1 Hc2 Heq.
  destruct (String.eqb id1 id) eqn:E1; destruct (String.eqb id2 id) eqn:E2.
  - apply String.eqb_eq in E1, E2. congruence.
  - apply String.eqb_eq in E1. apply String.eqb_neq in E2. subst id1.
    rewrite (Hold id2 E2) in H2. exfalso. eapply (Hfree id2 m2); eauto. rewrite <- Heq. apply Hnew; auto.
  - apply String.eqb_neq in E1. apply String.eqb_eq in E2. subst id2.
    rewrite (Hold id1 E1) in H1. exfalso. eapply (Hfree id1 m1); eauto. rewrite Heq. apply Hnew; auto.
  - apply String.eqb_neq in E1, E2. rewrite (Hold id1 E1) in H1. rewrite (Hold id2 E2) in H2.
    eapply Hinv; eauto.
Qed.

End Inv.

Ltac split_deliver H :=
  match type of H with
  | context [Service.deliver ?tc ?dc ?a ?b ?c ?d ?tm ?n ?id ?m ?i ?w] =>
      let n2 := fresh "n2" in let es2 := fresh "es2" in let o2 := fresh "o2" in
      destruct (Service.deliver tc dc a b c d tm n id m i w) as [[n2 es2] o2] eqn:Hd
  end.

Section Ops.
Variable tc : tl_consts.
Variable decode : string -> option (string * Z * Z).
Variable t_os t_or t_is t_ir : table.
Variable terminal : list string.

Notation on_message := (on_message tc decode t_os t_or t_is t_ir terminal).
Notation rpc_start := (rpc_start tc decode t_os t_or t_is t_ir terminal).

Lemma fresh_no_chan id ty role peer ini priv : get_scid (m_data (fresh id ty role peer ini priv)) = EmptyString.
Proof. reflexivity. Qed.

Theorem on_message_inv n sender m sw n' es r :
  chan_inv n -> on_message n sender m sw = (n', es, r) -> chan_inv n'.
Proof.
  intros Hinv H. unfold Service.on_message in H.
  destruct m as [rq|rq|a|a|o|c|c].
  - (* swap_in_request *)
    unfold on_in_request in H.
    repeat match type of H with
    | (if ?c then _ else _) = _ => destruct c; [inversion H; subst; exact Hinv|]
    | (match ?x with _ => _ end) = _ => destruct x eqn:?; try (inversion H; subst; exact Hinv)
    end.
    try split_deliver H.
    inversion H; subst. eapply deliver_new_inv; eauto; [apply fresh_no_chan|eexists; split; [left; reflexivity|reflexivity]].
  - (* swap_out_request *)
    unfold on_out_request in H.
    repeat match type of H with
    | (if ?c then _ else _) = _ => destruct c; [inversion H; subst; exact Hinv|]
    | (match ?x with _ => _ end) = _ => destruct x eqn:?; try (inversion H; subst; exact Hinv)
    end.
    try split_deliver H.
    inversion H; subst. eapply deliver_new_inv; eauto; [apply fresh_no_chan|eexists; split; [right; reflexivity|reflexivity]].
  - cbn [msg_id] in H. destruct (assoc_str (ia_id a) (n_active n)) as [mach|] eqn:Ha; [|inversion H; subst; exact Hinv].
    destruct (negb (String.eqb (d_peer (m_data mach)) sender)); [inversion H; subst; exact Hinv|].
    try split_deliver H.
    inversion H; subst. eapply deliver_existing_inv; eauto. intros c Hc. inversion Hc; reflexivity.
  - cbn [msg_id] in H. destruct (assoc_str (oa_id a) (n_active n)) as [mach|] eqn:Ha; [|inversion H; subst; exact Hinv].
    destruct (negb (String.eqb (d_peer (m_data mach)) sender)); [inversion H; subst; exact Hinv|].
    try split_deliver H.
    inversion H; subst. eapply deliver_existing_inv; eauto. intros c Hc. inversion Hc; reflexivity.
  - cbn [msg_id] in H. destruct (assoc_str (ob_id o) (n_active n)) as [mach|] eqn:Ha; [|inversion H; subst; exact Hinv].
    destruct (negb (String.eqb (d_peer (m_data mach)) sender)); [inversion H; subst; exact Hinv|].
    try split_deliver H.
    inversion H; subst. eapply deliver_existing_inv; eauto. intros c0 Hc. inversion Hc; reflexivity.
  - cbn [msg_id] in H. destruct (assoc_str (cc_id c) (n_active n)) as [mach|] eqn:Ha; [|inversion H; subst; exact Hinv].
    destruct (negb (String.eqb (d_peer (m_data mach)) sender)); [inversion H; subst; exact Hinv|].
    try split_deliver H.
    inversion H; subst. eapply deliver_existing_inv; eauto. intros c0 Hc. inversion Hc; reflexivity.
  - cbn [msg_id] in H. destruct (assoc_str (cn_id c) (n_active n)) as [mach|] eqn:Ha; [|inversion H; subst; exact Hinv].
    destruct (negb (String.eqb (d_peer (m_data mach)) sender)); [inversion H; subst; exact Hinv|].
    try split_deliver H.
    inversion H; subst. eapply deliver_existing_inv; eauto. intros c0 Hc. inversion Hc; reflexivity.
Qed.

Theorem rpc_start_inv n p sw n' es r :
  chan_inv n -> rpc_start n p sw = (n', es, r) -> chan_inv n'.
Proof.
  intros Hinv H. unfold Service.rpc_start in H.
  destruct (rp_out p) eqn:Eo; cbv zeta in H;
  repeat match type of H with
  | (if ?c then _ else _) = _ => destruct c; [inversion H; subst; exact Hinv|]
  | (match ?x with _ => _ end) = _ => destruct x eqn:?; try (inversion H; subst; exact Hinv)
  end;
  inversion H; subst;
  (eapply deliver_new_inv; eauto; [apply fresh_no_chan|]);
  eexists; (split; [first [right; reflexivity | left; reflexivity]|reflexivity]).
Qed.

(* all sequences of service operations *)
Inductive svc_item :=
| IMsg (sender : string) (m : wire_msg) (sw : svc_world)
| IRpc (p : rpc_params) (sw : svc_world).

Definition svc_apply (n : node) (it : svc_item) : node :=
  match it with
  | IMsg sender m sw => fst (fst (on_message n sender m sw))
  | IRpc p sw => fst (fst (rpc_start n p sw))
  end.

Theorem chan_inv_all_histories st its : chan_inv (fold_left svc_apply its (mkNode [] st)).
Proof.
  assert (Gen : forall its n, chan_inv n -> chan_inv (fold_left svc_apply its n)).
  { clear its. induction its as [|it r IH]; intros n Hn; [exact Hn|]. cbn [fold_left]. apply IH.
    destruct it as [sender m sw|p sw]; cbn [svc_apply].
    - destruct (on_message n sender m sw) as [[n' es] res] eqn:E. cbn. eapply on_message_inv; eauto.
    - destruct (rpc_start n p sw) as [[n' es] res] eqn:E. cbn. eapply rpc_start_inv; eauto. }
  apply Gen. apply chan_inv_empty.
Qed.

(* a request for a channel that already has an active swap creates nothing and is answered with cancel
   (or dropped when the premium cannot be computed) *)
Theorem busy_channel_request_cancelled n sender m sw n' es res r :
  (m = MInReq r \/ m = MOutReq r) ->
  (exists p, In p (n_active n) /\ chan_of (snd p) = norm_scid (rq_scid r)) ->
  on_message n sender m sw = (n', es, res) ->
  n' = n /\ (es = [cancel_to sender (rq_id r)] \/ (es = [] /\ sw_premium sw = None)).
Proof.
  intros Hm Hbusy H.
  assert (Hlock : forall id mm, lock_swap n id (rq_scid r) mm = None).
  { intros id mm. apply lock_refuses_busy_channel. exact Hbusy. }
  assert (Fin : forall n0 es0 res0 (pr : option Z), (n, es0, res0) = (n0, es, res) ->
            (es0 = [cancel_to sender (rq_id r)] \/ (es0 = [] /\ sw_premium sw = None)) ->
            n0 = n /\ (es = [cancel_to sender (rq_id r)] \/ (es = [] /\ sw_premium sw = None))).
  { intros n0 es0 res0 _ Heq Hc. injection Heq as <- <- <-. auto. }
  destruct Hm as [-> | ->]; unfold Service.on_message, on_in_request, on_out_request in H; rewrite ?Hlock in H;
  repeat match type of H with
  | (if ?c then _ else _) = _ => destruct c; [eapply (Fin _ _ _ None); [exact H|auto]|]
  | (match ?x with _ => _ end) = _ => destruct x eqn:?; try (eapply (Fin _ _ _ None); [exact H|auto; fail])
  end; try (eapply (Fin _ _ _ None); [exact H|auto]).
Qed.

End Ops.
