(* Lifting a machine invariant I together with a trace predicate P (relative to the last durable record) to whole
   histories with crashes and restarts.  Generalises HistRule.hist_local (which has no invariant): the machine that
   RecoverSwaps rebuilds satisfies I because P says so of every durable store write. *)
From Coq Require Import String ZArith Bool List Lia.
From RecordUpdate Require Import RecordSet.
From PS Require Import Base.Wrap Model.Data Model.Actions Model.Fsm Model.History
  Proofs.Monad Proofs.ExecRule Proofs.Engine Proofs.HistRule.
Import ListNotations RecordSetNotations.
Open Scope Z_scope.

Strategy opaque [event_loop exec loop_fuel action_fuel pay_loop].

Lemma trace_ok_last_persist (P : swap_data -> effect -> Prop) es : forall lp s d,
  trace_ok P lp es -> last_persist es = Some (s, d) -> exists lp', P lp' (EPersist s d true).
Proof.
  induction es as [|e r IH] using rev_ind; intros lp s d H Hl; [discriminate|].
  apply trace_ok_app in H. destruct H as [H1 H2]. cbn in H2. destruct H2 as [H2 _].
  unfold last_persist in Hl. rewrite fold_left_app in Hl. cbn [fold_left] in Hl.
  destruct e; try (eapply IH; eauto; fail).
  destruct ok.
  - inversion Hl; subst. eauto.
  - eapply IH; eauto.
Qed.

Section HistInv.
Variable tc : tl_consts.
Variable decode : string -> option (string * Z * Z).
Variable t : table.
Variable terminal : list string.
Variable I : machine -> Prop.
Variable P : swap_data -> effect -> Prop.

Hypothesis I_retries : forall m r, I m -> I (m <| m_retries := r |>).
Hypothesis P_persist : forall m lp ok, I m -> P lp (EPersist (m_cur m) (m_data m) ok).
Hypothesis act_rule :
  forall m ev nxt sd act, I m ->
    next_state t (m_cur m) ev = Some nxt -> lookup_state t nxt = Some sd -> st_action sd = Some act ->
    forall w ev' d' w' es,
      exec tc decode action_fuel act (m_data (enter m nxt)) w = ((ev', d'), w', es) ->
      Forall (fun e => P (m_data m) e /\ not_persist e) es /\ I ((enter m nxt) <| m_data := d' |>).
Hypothesis recover_rule :
  forall m sd act, I m -> lookup_state t (m_cur m) = Some sd -> st_action sd = Some act ->
    st_fail_on_recover sd = false ->
    forall w ev' d' w' es,
      exec tc decode action_fuel act (m_data m) w = ((ev', d'), w', es) ->
      Forall (fun e => P (m_data m) e /\ not_persist e) es /\ I (m <| m_data := d' |>).
Hypothesis I_ctx : forall m c d', I m -> apply_ctx (m_data m) c = Some d' -> I (m <| m_data := d' |>).
Hypothesis I_hex : forall m hex, I m -> I (m <| m_data := (m_data m) <| d_opening_hex := hex |> |>).
Hypothesis I_restore : forall lp (m : machine) s d, P lp (EPersist s d true) ->
  I (m <| m_cur := s |> <| m_prev := EmptyString |> <| m_data := d |> <| m_retries := 0 |>).

Definition ET (m : machine) (ev : string) : Prop := True.

Lemma inv_step m i lp w o w' es :
  I m -> (i = InRecover -> lp = m_data m) ->
  step tc decode t terminal m i w = (o, w', es) -> trace_ok P lp es /\ I (o_machine o).
Proof.
  intros HI Hlp H.
  assert (A1 : forall m r ev, ET m ev -> ET (m <| m_retries := r |>) ev) by (intros; exact Logic.I).
  assert (A2 : forall m ev nxt sd act, I m -> ET m ev ->
            next_state t (m_cur m) ev = Some nxt -> lookup_state t nxt = Some sd -> st_action sd = Some act ->
            forall w ev' d' w' es,
              exec tc decode action_fuel act (m_data (enter m nxt)) w = ((ev', d'), w', es) ->
              Forall (fun e => P (m_data m) e /\ not_persist e) es /\
              I ((enter m nxt) <| m_data := d' |>) /\ ET ((enter m nxt) <| m_data := d' |>) ev').
  { intros m1 ev nxt sd act HI1 _ Hn Hl Ha w1 ev' d' w2 es1 Hex.
    destruct (act_rule m1 ev nxt sd act HI1 Hn Hl Ha _ _ _ _ _ Hex) as [F HI2]. repeat split; auto. }
  assert (A3 : forall m sd act, I m -> lookup_state t (m_cur m) = Some sd -> st_action sd = Some act ->
            (st_fail_on_recover sd = true -> ET m Ev_Failed) /\
            (st_fail_on_recover sd = false ->
             forall w ev' d' w' es,
               exec tc decode action_fuel act (m_data m) w = ((ev', d'), w', es) ->
               Forall (fun e => P (m_data m) e /\ not_persist e) es /\
               I (m <| m_data := d' |>) /\ ET (m <| m_data := d' |>) ev')).
  { intros m1 sd act HI1 Hl Ha. split; [intros; exact Logic.I|].
    intros Hf w1 ev' d' w2 es1 Hex.
    destruct (recover_rule m1 sd act HI1 Hl Ha Hf _ _ _ _ _ Hex) as [F HI2]. repeat split; auto. }
  assert (A4 : input_ok I ET m i).
  { destruct i as [ev [c|]| | | | |]; cbn [input_ok ctx_ok]; unfold ET; try exact Logic.I.
    - split; [exact Logic.I|]. intros d' _ Hap. split; [exact (I_ctx m c d' HI Hap)|exact Logic.I].
    - split; [exact Logic.I|]. intros d' _ Hap. split; [exact (I_ctx m _ d' HI Hap)|exact Logic.I].
    - split; [intros; exact Logic.I|]. intros m1 HI1 _. split; [apply I_hex; exact HI1|exact Logic.I]. }
  exact (step_rule tc decode t terminal I P ET I_retries A1 P_persist A2 A3 m i lp w o w' es HI A4 Hlp H).
Qed.

Lemma restore_inv lp0 m tr mr : trace_ok P lp0 tr -> restore m tr = Some mr -> I mr.
Proof.
  intros T Hr. unfold restore in Hr. destruct (last_persist tr) as [[s d]|] eqn:Hl; [|discriminate].
  inversion Hr; subst. destruct (trace_ok_last_persist P tr lp0 s d T Hl) as (lp' & Hp).
  eapply I_restore; eauto.
Qed.

Theorem hist_inv m0 its : I m0 ->
  trace_ok P (m_data m0) (hs_trace (run_hist tc decode t terminal (init_hstate m0) its)) /\
  (forall m, hs_machine (run_hist tc decode t terminal (init_hstate m0) its) = Some m -> I m).
Proof.
  intros HI0. unfold run_hist.
  assert (Gen : forall its h,
            (trace_ok P (m_data m0) (hs_trace h) /\ (forall m, hs_machine h = Some m -> I m)) ->
            let h' := fold_left (hist_step tc decode t terminal) its h in
            trace_ok P (m_data m0) (hs_trace h') /\ (forall m, hs_machine h' = Some m -> I m)).
  { clear its. induction its as [|it r IH]; intros h Hh; [exact Hh|].
    cbn [fold_left]. apply IH. destruct Hh as [Ht Hm]. unfold hist_step.
    destruct (hs_machine h) as [mh|] eqn:Hmh; [|split; [exact Ht|intros m E; rewrite Hmh in E; discriminate]].
    destruct (is_recover (item_input it)) eqn:Hrec.
    - destruct (restore mh (hs_trace h)) as [mr|] eqn:Hr.
      2:{ cbn. split; [exact Ht|discriminate]. }
      assert (HIr : I mr) by (eapply restore_inv; eauto).
      assert (Hlp : m_data mr = lp_end (m_data m0) (hs_trace h)) by (eapply restore_data; eauto).
      destruct it as [i w|i w k]; cbn [item_input] in Hrec;
        destruct (run_step tc decode t terminal mr i w) as [[o w'] es] eqn:Hs; cbn [hs_trace hs_machine];
        destruct (inv_step mr i (lp_end (m_data m0) (hs_trace h)) w o w' es HIr (fun _ => eq_sym Hlp) Hs) as [Te HIo].
      + split; [apply trace_ok_app; split; auto|]. intros m E. inversion E; subst. exact HIo.
      + assert (Tk : trace_ok P (m_data m0) (hs_trace h ++ firstn k es))
          by (apply trace_ok_app; split; [exact Ht|apply trace_ok_firstn; exact Te]).
        split; [exact Tk|]. intros m E. eapply restore_inv; eauto.
    - assert (HIh : I mh) by (apply Hm; reflexivity).
      destruct it as [i w|i w k]; cbn [item_input] in Hrec;
        destruct (run_step tc decode t terminal mh i w) as [[o w'] es] eqn:Hs; cbn [hs_trace hs_machine];
        destruct (inv_step mh i (lp_end (m_data m0) (hs_trace h)) w o w' es HIh
                    ltac:(intros ->; discriminate) Hs) as [Te HIo].
      + split; [apply trace_ok_app; split; auto|]. intros m E. inversion E; subst. exact HIo.
      + assert (Tk : trace_ok P (m_data m0) (hs_trace h ++ firstn k es))
          by (apply trace_ok_app; split; [exact Ht|apply trace_ok_firstn; exact Te]).
        split; [exact Tk|]. intros m E. eapply restore_inv; eauto. }
  apply Gen. cbn. split; [exact Logic.I|]. intros m E. inversion E; subst. exact HI0.
Qed.

End HistInv.
