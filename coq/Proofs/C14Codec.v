(* Leaf codec lemmas for C14: hex, base64, UTF-8 coercion. *)
From Coq Require Import String Ascii ZArith NArith Bool Lia List.
From PS Require Import Model.Json.
Import ListNotations.
Open Scope N_scope.

Lemma N_of_ascii_lt c : N_of_ascii c < 256.
Proof. destruct c as [[] [] [] [] [] [] [] []]; vm_compute; reflexivity. Qed.

(* ---------- hex ---------- *)
Definition all_below (n : nat) (P : N -> bool) : bool :=
  forallb P (map N.of_nat (seq 0 n)).

Lemma all_below_spec n P : all_below n P = true -> forall x, x < N.of_nat n -> P x = true.
Proof.
  unfold all_below. rewrite forallb_forall. intros H x Hx.
  apply H. apply in_map_iff. exists (N.to_nat x). split; [lia|].
  apply in_seq. lia.
Qed.

Lemma hex_val_digit x : x < 16 -> hex_val (hex_digit x) = Some x.
Proof.
  intros Hx.
  assert (H : all_below 16 (fun x => match hex_val (hex_digit x) with Some y => N.eqb y x | None => false end) = true)
    by (vm_compute; reflexivity).
  pose proof (all_below_spec _ _ H x Hx) as E. simpl in E.
  destruct (hex_val (hex_digit x)); [|discriminate]. apply N.eqb_eq in E. now subst.
Qed.

Lemma hex_roundtrip s : hex_decode (hex_encode s) = Some s.
Proof.
  induction s as [|c r IH]; [reflexivity|].
  cbn [hex_encode hex_decode].
  pose proof (N_of_ascii_lt c) as Hc.
  rewrite !hex_val_digit, IH.
  - f_equal. f_equal.
    replace (N_of_ascii c / 16 * 16 + N_of_ascii c mod 16) with (N_of_ascii c).
    + apply ascii_N_embedding.
    + rewrite (N.div_mod (N_of_ascii c) 16) at 1; lia.
  - apply N.mod_lt; lia.
  - apply N.div_lt_upper_bound; lia.
Qed.

Lemma hex_encode_not_empty c r : hex_encode (String c r) <> EmptyString.
Proof. discriminate. Qed.

(* ---------- base64 ---------- *)
Lemma b64_val_char x : x < 64 -> b64_val (b64_char x) = Some x.
Proof.
  intros Hx.
  assert (H : all_below 64 (fun x => match b64_val (b64_char x) with Some y => N.eqb y x | None => false end) = true)
    by (vm_compute; reflexivity).
  pose proof (all_below_spec _ _ H x Hx) as E. simpl in E.
  destruct (b64_val (b64_char x)); [|discriminate]. apply N.eqb_eq in E. now subst.
Qed.

Lemma b64_char_props x : x < 64 ->
  is_crlf (b64_char x) = false /\ Ascii.eqb (b64_char x) pad = false.
Proof.
  intros Hx.
  assert (H : all_below 64 (fun x => negb (is_crlf (b64_char x)) && negb (Ascii.eqb (b64_char x) pad)) = true)
    by (vm_compute; reflexivity).
  pose proof (all_below_spec _ _ H x Hx) as E. simpl in E.
  apply andb_true_iff in E. destruct E as [E1 E2].
  apply negb_true_iff in E1, E2. auto.
Qed.

Lemma pad_props : is_crlf pad = false /\ Ascii.eqb pad pad = true /\ b64_val pad = None.
Proof. repeat split. Qed.

Ltac b64_bounds :=
  repeat match goal with
  | c : ascii |- _ => lazymatch goal with
      | H : N_of_ascii c < 256 |- _ => fail
      | _ => pose proof (N_of_ascii_lt c) end
  end.

Lemma sextets_lt x y z : x < 256 -> y < 256 -> z < 256 ->
  x / 4 < 64 /\ (x mod 4) * 16 + y / 16 < 64 /\ (y mod 16) * 4 + z / 64 < 64 /\ z mod 64 < 64
  /\ (x mod 4) * 16 < 64 /\ (y mod 16) * 4 < 64.
Proof.
  intros. 
  pose proof (N.mod_lt x 4). pose proof (N.mod_lt y 16). pose proof (N.mod_lt z 64).
  assert (x / 4 < 64) by (apply N.div_lt_upper_bound; lia).
  assert (y / 16 < 16) by (apply N.div_lt_upper_bound; lia).
  assert (z / 64 < 4) by (apply N.div_lt_upper_bound; lia).
  lia.
Qed.

Lemma b64_bytes x y z : x < 256 -> y < 256 -> z < 256 ->
  let a := x / 4 in let b := (x mod 4) * 16 + y / 16 in
  let c := (y mod 16) * 4 + z / 64 in let d := z mod 64 in
  a * 4 + b / 16 = x /\ (b mod 16) * 16 + c / 4 = y /\ (c mod 4) * 64 + d = z.
Proof.
  intros Hx Hy Hz. cbv zeta.
  pose proof (N.div_mod x 4). pose proof (N.div_mod y 16). pose proof (N.div_mod z 64).
  pose proof (N.mod_lt x 4). pose proof (N.mod_lt y 16). pose proof (N.mod_lt z 64).
  assert (y / 16 < 16) by (apply N.div_lt_upper_bound; lia).
  assert (z / 64 < 4) by (apply N.div_lt_upper_bound; lia).
  assert (E1 : ((x mod 4) * 16 + y / 16) / 16 = x mod 4).
  { rewrite N.add_comm, N.div_add by lia. rewrite N.div_small; lia. }
  assert (E2 : ((x mod 4) * 16 + y / 16) mod 16 = y / 16).
  { rewrite N.add_comm, N.mod_add by lia. apply N.mod_small; lia. }
  assert (E3 : ((y mod 16) * 4 + z / 64) / 4 = y mod 16).
  { rewrite N.add_comm, N.div_add by lia. rewrite N.div_small; lia. }
  assert (E4 : ((y mod 16) * 4 + z / 64) mod 4 = z / 64).
  { rewrite N.add_comm, N.mod_add by lia. apply N.mod_small; lia. }
  rewrite E1, E2, E3, E4. lia.
Qed.

Lemma byte_id c : byte (N_of_ascii c) = c.
Proof.
  unfold byte. rewrite N.mod_small by apply N_of_ascii_lt. apply ascii_N_embedding.
Qed.

Lemma string_ind3 (P : string -> Prop) :
  P EmptyString ->
  (forall a, P (String a EmptyString)) ->
  (forall a b, P (String a (String b EmptyString))) ->
  (forall a b c r, P r -> P (String a (String b (String c r)))) ->
  forall s, P s.
Proof.
  intros H0 H1 H2 H3.
  assert (H : forall s, P s /\ (forall a, P (String a s)) /\ (forall a b, P (String a (String b s)))).
  { induction s as [|c r [IH0 [IH1 IH2]]].
    - repeat split; auto.
    - repeat split; auto. }
  intros s. apply H.
Qed.

Lemma b64_encode_clean s : strip_crlf (b64_encode s) = b64_encode s.
Proof.
  induction s as [|a|a b|a b c r IH] using string_ind3; [reflexivity| | |].
  - pose proof (N_of_ascii_lt a) as Ha.
    destruct (sextets_lt (N_of_ascii a) 0 0 Ha) as (S1 & _ & _ & _ & S5 & _); try lia.
    cbn [b64_encode strip_crlf].
    destruct (b64_char_props _ S1) as [-> _]. destruct (b64_char_props _ S5) as [-> _].
    reflexivity.
  - pose proof (N_of_ascii_lt a) as Ha. pose proof (N_of_ascii_lt b) as Hb.
    destruct (sextets_lt (N_of_ascii a) (N_of_ascii b) 0 Ha Hb) as (S1 & S2 & _ & _ & _ & S6); try lia.
    cbn [b64_encode strip_crlf].
    destruct (b64_char_props _ S1) as [-> _]. destruct (b64_char_props _ S2) as [-> _].
    destruct (b64_char_props _ S6) as [-> _]. reflexivity.
  - pose proof (N_of_ascii_lt a) as Ha. pose proof (N_of_ascii_lt b) as Hb. pose proof (N_of_ascii_lt c) as Hc.
    destruct (sextets_lt _ _ _ Ha Hb Hc) as (S1 & S2 & S3 & S4 & _ & _).
    cbn [b64_encode strip_crlf].
    destruct (b64_char_props _ S1) as [-> _]. destruct (b64_char_props _ S2) as [-> _].
    destruct (b64_char_props _ S3) as [-> _]. destruct (b64_char_props _ S4) as [-> _].
    now rewrite IH.
Qed.

Lemma b64_clean_roundtrip s : b64_decode_clean (b64_encode s) = Some s.
Proof.
  induction s as [|a|a b|a b c r IH] using string_ind3; [reflexivity| | |].
  - pose proof (N_of_ascii_lt a) as Ha. set (x := N_of_ascii a) in *.
    destruct (sextets_lt x 0 0 Ha) as (S1 & _ & _ & _ & S5 & _); try lia.
    cbn [b64_encode b64_decode_clean]. fold x.
    change (Ascii.eqb pad pad) with true. cbv iota.
    rewrite (b64_val_char _ S1), (b64_val_char _ S5).
    do 2 f_equal.
    replace (x / 4 * 4 + x mod 4 * 16 / 16) with x.
    + apply byte_id.
    + rewrite N.div_mul by lia. pose proof (N.div_mod x 4). lia.
  - pose proof (N_of_ascii_lt a) as Ha. pose proof (N_of_ascii_lt b) as Hb.
    set (x := N_of_ascii a) in *. set (y := N_of_ascii b) in *.
    destruct (sextets_lt x y 0 Ha Hb) as (S1 & S2 & _ & _ & _ & S6); try lia.
    cbn [b64_encode b64_decode_clean]. fold x y.
    change (Ascii.eqb pad pad) with true. cbv iota.
    destruct (b64_char_props _ S6) as [_ ->].
    rewrite (b64_val_char _ S1), (b64_val_char _ S2), (b64_val_char _ S6).
    destruct (b64_bytes x y 0 Ha Hb) as (E1 & E2 & _); try lia. cbv zeta in E1, E2.
    change (0 / 64) with 0 in E2. rewrite N.add_0_r in E2.
    rewrite E1, E2. subst x y. now rewrite !byte_id.
  - pose proof (N_of_ascii_lt a) as Ha. pose proof (N_of_ascii_lt b) as Hb. pose proof (N_of_ascii_lt c) as Hc.
    set (x := N_of_ascii a) in *. set (y := N_of_ascii b) in *. set (z := N_of_ascii c) in *.
    destruct (sextets_lt x y z Ha Hb Hc) as (S1 & S2 & S3 & S4 & _ & _).
    cbn [b64_encode b64_decode_clean]. fold x y z.
    destruct (b64_char_props _ S4) as [_ ->].
    rewrite (b64_val_char _ S1), (b64_val_char _ S2), (b64_val_char _ S3), (b64_val_char _ S4), IH.
    destruct (b64_bytes x y z Ha Hb Hc) as (E1 & E2 & E3). cbv zeta in E1, E2, E3.
    rewrite E1, E2, E3. subst x y z. now rewrite !byte_id.
Qed.

Lemma b64_roundtrip s : b64_decode (b64_encode s) = Some s.
Proof. unfold b64_decode. rewrite b64_encode_clean. apply b64_clean_roundtrip. Qed.

(* ---------- strings ---------- *)
Lemma utf8_ok_sanitize s : utf8_ok s = true -> sanitize s = s.
Proof. unfold utf8_ok. apply String.eqb_eq. Qed.
