(* Lemmas for C30: fee floor gate, rate selection, version order. *)
From Coq Require Import String Ascii ZArith Bool Lia List.
From PS Require Import Base.Strs Base.Corr Model.FeeFloor Model.VersionCmp
  Gen.ConstsOnchainFee Model.C30Corr.
Import ListNotations.
Open Scope Z_scope.

(* ---------- constants the property names are the ones in the code ---------- *)
Lemma gen_fee_constants :
  modern_fee_floor_major = 29 /\ modern_fee_floor_minor = 2 /\
  legacy_fee_floor_sat_per_kw = 253 /\ modern_fee_floor_sat_per_kw = 25 /\
  witness_scale_factor_gen = witness_scale_factor.
Proof. repeat split; reflexivity. Qed.

Definition code_fee_floor (s : string) : Z * string :=
  determine_fee_floor modern_fee_floor_major modern_fee_floor_minor
    legacy_fee_floor_sat_per_kw modern_fee_floor_sat_per_kw s.

Lemma code_floor_is_spec s : fst (code_fee_floor s) = spec_floor s.
Proof.
  unfold code_fee_floor, determine_fee_floor, spec_floor.
  destruct gen_fee_constants as (-> & -> & -> & -> & _).
  destruct (normalize_version s) as [[[a b] c]|]; [|reflexivity].
  destruct ((29 <? a) || ((a =? 29) && (2 <=? b))); reflexivity.
Qed.

Lemma floor_modern_iff s :
  fst (code_fee_floor s) = 25 <->
  exists major minor patch, normalize_version s = Some (major, minor, patch) /\
     (29 < major \/ (major = 29 /\ 2 <= minor)).
Proof.
  rewrite code_floor_is_spec. unfold spec_floor.
  destruct (normalize_version s) as [[[a b] c]|].
  - destruct ((29 <? a) || ((a =? 29) && (2 <=? b))) eqn:E.
    + split; [intros _|reflexivity]. exists a, b, c. split; [reflexivity|].
      apply orb_true_iff in E. destruct E as [E|E]; [left; lia|].
      apply andb_true_iff in E. right; lia.
    + split; [discriminate|]. intros (a' & b' & c' & H & Hc). inversion H; subst.
      apply orb_false_iff in E. destruct E as [E1 E2].
      apply andb_false_iff in E2. destruct Hc as [Hc|[Hc1 Hc2]]; [lia|].
      destruct E2; lia.
  - split; [discriminate|]. intros (a & b & c & H & _). discriminate.
Qed.

Lemma floor_two_values s : fst (code_fee_floor s) = 25 \/ fst (code_fee_floor s) = 253.
Proof.
  rewrite code_floor_is_spec. unfold spec_floor.
  destruct (normalize_version s) as [[[a b] c]|]; [|right; reflexivity].
  destruct ((29 <? a) || ((a =? 29) && (2 <=? b))); [left|right]; reflexivity.
Qed.

(* ---------- rate selection ---------- *)
Lemma effective_rate_is_spec e est fb fl : effective_rate e est fb fl = spec_rate e est fb fl.
Proof.
  unfold effective_rate, spec_rate.
  destruct (e || (est =? 0)); destruct (Z.ltb_spec fb fl); destruct (Z.ltb_spec est fl); lia.
Qed.

Lemma effective_rate_ge_floor e est fb fl : fl <= effective_rate e est fb fl.
Proof. rewrite effective_rate_is_spec. unfold spec_rate. lia. Qed.

Lemma effective_rate_fallback est fb fl :
  effective_rate true est fb fl = Z.max fl fb /\ effective_rate false 0 fb fl = Z.max fl fb.
Proof. rewrite !effective_rate_is_spec. unfold spec_rate. simpl. split; reflexivity. Qed.

Lemma effective_rate_estimate est fb fl :
  est <> 0 -> effective_rate false est fb fl = Z.max fl est.
Proof.
  intros H. rewrite effective_rate_is_spec. unfold spec_rate. simpl.
  destruct (Z.eqb_spec est 0); [contradiction|reflexivity].
Qed.

Lemma get_fee_uses_effective_rate e est fb fl sz :
  get_fee e est fb fl sz = fee_of_rate (spec_rate e est fb fl) sz.
Proof. unfold get_fee. now rewrite effective_rate_is_spec. Qed.

(* ---------- version order ---------- *)

(* lex_ge on equal-length lists is a total preorder whose symmetric part is equality *)
Lemma lex_ge_refl l : lex_ge l l = true.
Proof. induction l as [|x l IH]; simpl; auto. rewrite Z.ltb_irrefl. exact IH. Qed.

Lemma lex_ge_total a b : lex_ge a b = true \/ lex_ge b a = true.
Proof.
  revert b; induction a as [|x a IH]; intros [|y b]; simpl; auto.
  destruct (Z.ltb_spec x y), (Z.ltb_spec y x); auto; lia.
Qed.

Lemma lex_ge_trans a : forall b c,
  length a = length b -> length b = length c ->
  lex_ge a b = true -> lex_ge b c = true -> lex_ge a c = true.
Proof.
  induction a as [|x a IH]; intros [|y b] [|z c] L1 L2; simpl in *; try discriminate; auto.
  destruct (Z.ltb_spec x y); [discriminate|].
  destruct (Z.ltb_spec y z); [intros _; discriminate|].
  destruct (Z.ltb_spec y x), (Z.ltb_spec z y), (Z.ltb_spec x z), (Z.ltb_spec z x);
    intros Hab Hbc; auto; try lia.
  apply (IH b c); auto; lia.
Qed.

Lemma lex_ge_antisym a : forall b,
  length a = length b -> lex_ge a b = true -> lex_ge b a = true -> a = b.
Proof.
  induction a as [|x a IH]; intros [|y b] L; simpl in *; try discriminate; auto.
  destruct (Z.ltb_spec x y); [discriminate|].
  destruct (Z.ltb_spec y x); [intros _; discriminate|].
  intros H1 H2. assert (x = y) by lia. subst. f_equal. apply IH; auto.
Qed.

Lemma lex_ge_app a : forall b z, length a = length b ->
  lex_ge (a ++ z) (b ++ z) = lex_ge a b.
Proof.
  induction a as [|x a IH]; intros [|y b] z L; simpl in *; try discriminate.
  - apply lex_ge_refl.
  - destruct (x <? y); auto. destruct (y <? x); auto.
Qed.

Lemma padz_length n l : (length l <= n)%nat -> length (padz n l) = n.
Proof. intros H. unfold padz. rewrite app_length, repeat_length. lia. Qed.

Lemma padz_more n m l : (length l <= n)%nat -> (n <= m)%nat ->
  padz m l = padz n l ++ repeat 0 (m - n).
Proof.
  intros H1 H2. unfold padz. rewrite <- app_assoc. f_equal.
  rewrite <- repeat_app. f_equal. lia.
Qed.

(* the verdict does not depend on how far both sides are zero-padded *)
Lemma spec_ge_padded n xs ys :
  (length xs <= n)%nat -> (length ys <= n)%nat ->
  lex_ge (padz n xs) (padz n ys) = spec_ge xs ys.
Proof.
  intros Hx Hy. unfold spec_ge.
  set (k := Nat.max (length xs) (length ys)).
  assert (Hk : (k <= n)%nat) by (unfold k; lia).
  rewrite (padz_more k n xs), (padz_more k n ys) by (unfold k; lia).
  apply lex_ge_app. rewrite !padz_length; unfold k; lia.
Qed.

Lemma spec_ge_refl xs : spec_ge xs xs = true.
Proof. unfold spec_ge. apply lex_ge_refl. Qed.

Lemma spec_ge_total xs ys : spec_ge xs ys = true \/ spec_ge ys xs = true.
Proof. unfold spec_ge. rewrite (Nat.max_comm (length ys)). apply lex_ge_total. Qed.

Lemma spec_ge_trans xs ys zs :
  spec_ge xs ys = true -> spec_ge ys zs = true -> spec_ge xs zs = true.
Proof.
  set (n := Nat.max (length xs) (Nat.max (length ys) (length zs))).
  rewrite <- (spec_ge_padded n xs ys), <- (spec_ge_padded n ys zs), <- (spec_ge_padded n xs zs)
    by (unfold n; lia).
  apply lex_ge_trans; rewrite !padz_length; unfold n; lia.
Qed.

(* both directions hold exactly when the zero-extended components coincide *)
Lemma spec_ge_antisym xs ys :
  spec_ge xs ys = true /\ spec_ge ys xs = true <->
  (let n := Nat.max (length xs) (length ys) in padz n xs = padz n ys).
Proof.
  cbv zeta. split.
  - intros [H1 H2]. unfold spec_ge in *. rewrite (Nat.max_comm (length ys)) in H2.
    apply lex_ge_antisym; auto. rewrite !padz_length; lia.
  - intros H. unfold spec_ge. rewrite (Nat.max_comm (length ys)), H. split; apply lex_ge_refl.
Qed.

(* --- tie compare_versions (the code's algorithm) to spec_ge on components --- *)

Lemma atoi_zero_run : atoi_digits zero_run = Some 0.
Proof. reflexivity. Qed.

Lemma components_of_app a b :
  components_of (a ++ b) =
  match components_of a, components_of b with
  | Some x, Some y => Some (x ++ y) | _, _ => None end.
Proof.
  induction a as [|d a IH]; simpl.
  - destruct (components_of b); reflexivity.
  - destruct (atoi_digits d); [|reflexivity]. rewrite IH.
    destruct (components_of a), (components_of b); reflexivity.
Qed.

Lemma components_of_zeros k : components_of (repeat zero_run k) = Some (repeat 0 k).
Proof. induction k as [|k IH]; simpl; [reflexivity|]. rewrite IH. reflexivity. Qed.

Lemma components_of_length l xs : components_of l = Some xs -> length xs = length l.
Proof.
  revert xs; induction l as [|d l IH]; simpl; intros xs H.
  - inversion H; reflexivity.
  - destruct (atoi_digits d); [|discriminate]. destruct (components_of l); [|discriminate].
    inversion H; subst. simpl. f_equal. auto.
Qed.

Lemma components_of_pad n l :
  components_of (pad_to n l) =
  match components_of l with Some xs => Some (padz n xs) | None => None end.
Proof.
  unfold pad_to. rewrite components_of_app, components_of_zeros.
  destruct (components_of l) as [xs|] eqn:E; [|reflexivity].
  unfold padz. now rewrite (components_of_length _ _ E).
Qed.

Lemma convert_spec la : forall lb, length la = length lb ->
  convert la lb =
  match components_of la, components_of lb with
  | Some xs, Some ys => Some (xs, ys) | _, _ => None end.
Proof.
  induction la as [|a la IH]; intros [|b lb] L; simpl in *; try discriminate; [reflexivity|].
  destruct (atoi_digits a); [|reflexivity].
  destruct (atoi_digits b).
  - rewrite IH by lia. destruct (components_of la), (components_of lb); reflexivity.
  - destruct (components_of la); reflexivity.
Qed.

Lemma pad_to_length n l : (length l <= n)%nat -> length (pad_to n l) = n.
Proof. intros H. unfold pad_to. rewrite app_length, repeat_length. lia. Qed.

Theorem compare_versions_spec a b :
  compare_versions a b =
  match components a, components b with
  | Some xs, Some ys => Some (spec_ge xs ys)
  | _, _ => None
  end.
Proof.
  unfold compare_versions, components.
  set (pa := digit_runs a). set (pb := digit_runs b).
  rewrite convert_spec by (rewrite !pad_to_length; lia).
  rewrite !components_of_pad.
  destruct (components_of pa) as [xs|] eqn:Ea; [|reflexivity].
  destruct (components_of pb) as [ys|] eqn:Eb; [|reflexivity].
  f_equal. unfold spec_ge.
  now rewrite (components_of_length _ _ Ea), (components_of_length _ _ Eb).
Qed.

(* order laws at the level of version strings (error = a component above 2^63-1) *)
Theorem version_ge_refl a xs : components a = Some xs -> compare_versions a a = Some true.
Proof. intros H. rewrite compare_versions_spec, H. now rewrite spec_ge_refl. Qed.

Theorem version_ge_total a b xs ys :
  components a = Some xs -> components b = Some ys ->
  compare_versions a b = Some true \/ compare_versions b a = Some true.
Proof.
  intros Ha Hb. rewrite !compare_versions_spec, Ha, Hb.
  destruct (spec_ge_total xs ys) as [->| ->]; auto.
Qed.

Theorem version_ge_trans a b c :
  compare_versions a b = Some true -> compare_versions b c = Some true ->
  compare_versions a c = Some true.
Proof.
  rewrite !compare_versions_spec.
  destruct (components a) as [xs|]; [|discriminate].
  destruct (components b) as [ys|]; [|discriminate].
  destruct (components c) as [zs|]; [|discriminate].
  intros Hab Hbc. injection Hab as Hab. injection Hbc as Hbc. f_equal.
  eapply spec_ge_trans; eauto.
Qed.

Theorem version_ge_antisym a b xs ys :
  components a = Some xs -> components b = Some ys ->
  (compare_versions a b = Some true /\ compare_versions b a = Some true <->
   let n := Nat.max (length xs) (length ys) in padz n xs = padz n ys).
Proof.
  intros Ha Hb. rewrite !compare_versions_spec, Ha, Hb.
  rewrite <- spec_ge_antisym. split; intros [Hab Hba].
  - injection Hab as Hab. injection Hba as Hba. auto.
  - rewrite Hab, Hba. auto.
Qed.

Theorem version_error_iff a b :
  compare_versions a b = None <-> components a = None \/ components b = None.
Proof.
  rewrite compare_versions_spec.
  destruct (components a), (components b); split; intros H; auto; try discriminate;
    destruct H; discriminate.
Qed.

(* non-vacuity examples *)
Example ex_floor_modern : code_fee_floor "/Satoshi:29.2.0/" = (25, "29.2.0"%string).
Proof. vm_compute. reflexivity. Qed.
Example ex_floor_legacy : code_fee_floor "/Satoshi:29.1.99/" = (253, "29.1.99"%string).
Proof. vm_compute. reflexivity. Qed.
Example ex_cmp : compare_versions "v22.11rc1" "22.11.0.0" = Some true /\
                 compare_versions "0.1.2" "0.1.10" = Some false.
Proof. vm_compute. split; reflexivity. Qed.
