(* C10: a spelling the adapters resolve to the channel of an active swap is refused by lockSwap. *)
From Coq Require Import String ZArith Bool List.
From PS Require Import Model.Data Model.Actions Model.Fsm Model.History Model.Service Model.C10ScidRes Proofs.C09 Proofs.C10.
Import ListNotations.

Lemma adapter_resolves_spec : forall id ch, adapter_resolves id ch = true <-> norm_scid id = ch.
Proof. intros id ch. unfold adapter_resolves. apply String.eqb_eq. Qed.

Lemma resolved_busy_channel_refused : forall n id scid m p,
  In p (n_active n) -> adapter_resolves scid (chan_of (snd p)) = true -> lock_swap n id scid m = None.
Proof.
  intros n id scid m p Hin Hres.
  apply lock_refuses_busy_channel. exists p. split; [exact Hin|].
  symmetry. apply adapter_resolves_spec. exact Hres.
Qed.

(* two spellings resolved to one channel are the same channel for lockSwap *)
Lemma resolved_same_channel : forall id1 id2 ch,
  adapter_resolves id1 ch = true -> adapter_resolves id2 ch = true -> norm_scid id1 = norm_scid id2.
Proof.
  intros id1 id2 ch H1 H2. apply adapter_resolves_spec in H1. apply adapter_resolves_spec in H2. congruence.
Qed.

Example resolved_nonvacuous : adapter_resolves "539268:845:1" "539268x845x1" = true /\ adapter_resolves "0539268x845x1" "539268x845x1" = false.
Proof. split; vm_compute; reflexivity. Qed.
