(* C07: a maker's locked funds are never abandoned.  Invariant over ALL crash
   histories of any state table that passes the reflective check maker_table_ok. *)
From Coq Require Import String ZArith Bool List Lia.
From RecordUpdate Require Import RecordSet.
From PS Require Import Base.Wrap Model.Data Model.Actions Model.Fsm Model.History Model.FsmCorr Model.C07Corr Model.C07Table
  Gen.ConstsSwap Gen.Tables
  Proofs.Monad Proofs.ExecRule Proofs.MTac Proofs.Frame Proofs.Engine Proofs.HistRule Proofs.EngineAcc
  Proofs.ExecRuleTree Proofs.C07Exec.
Import ListNotations RecordSetNotations.
Open Scope Z_scope.

Strategy opaque [event_loop exec loop_fuel action_fuel pay_loop].

(* ---------- what has happened so far, folded over the effects ---------- *)
Record acc := mkAcc {
  a_bc : option opening_result;   (* the opening transaction the wallet has broadcast *)
  a_pend : bool;                  (* ... and no durable write has happened since *)
  a_spent : bool }.               (* a transaction spending the output has been broadcast *)

Definition upd (a : acc) (e : effect) : acc :=
  match e with
  | EBroadcastOpening _ _ _ _ _ _ (Some o) => mkAcc (Some o) true (a_spent a)
  | EPersist _ _ true => mkAcc (a_bc a) false (a_spent a)
  | EBroadcastSpend _ (Some _) => mkAcc (a_bc a) (a_pend a) true
  | _ => a
  end.

Definition acc0 : acc := mkAcc None false false.

(* ---------- small facts about tables ---------- *)
Lemma mem_In s l : mem s l = true <-> In s l.
Proof.
  unfold mem. rewrite existsb_exists. split.
  - intros (x & Hin & He). apply String.eqb_eq in He. subst. exact Hin.
  - intros H. exists s. split; auto. apply String.eqb_refl.
Qed.

Lemma lookup_in (t : table) s sd : lookup_state t s = Some sd -> In s (map fst t).
Proof. unfold lookup_state. intros H. apply assoc_str_in in H. apply (in_map fst) in H. exact H. Qed.

Lemma next_state_in t s ev n :
  next_state t s ev = Some n -> In (ev, n) (state_events t s) /\ In n (succs t s).
Proof.
  unfold next_state, state_events, succs, state_events. destruct (lookup_state t s) as [sd|]; [|discriminate].
  intros H. apply assoc_str_in in H. split; auto. apply (in_map snd) in H. exact H.
Qed.

Lemma bc_state_mem t s sd : lookup_state t s = Some sd -> is_bc_state t s = true -> mem s (bc_states t) = true.
Proof. intros Hl Hb. apply mem_In. unfold bc_states. apply filter_In. split; auto. eapply lookup_in; eauto. Qed.

Lemma mem_bc_state t s : mem s (bc_states t) = true -> is_bc_state t s = true.
Proof. intros H. apply mem_In in H. unfold bc_states in H. apply filter_In in H. tauto. Qed.

Lemma tree_has_wrap a W L : tree_eqb_wrap a W L = true -> tree_has L a = true.
Proof. intros H. apply tree_eqb_wrap_eq in H. subst. cbn. rewrite String.eqb_refl. cbn. apply orb_true_r. Qed.

Lemma tree_has_leaf a L : tree_eqb_leaf a L = true -> tree_has L a = true.
Proof. intros H. apply tree_eqb_leaf_eq in H. subst. apply tree_has_self. Qed.

Lemma bc_prem_is_bc t s : bc_prem t s = true -> is_bc_state t s = true.
Proof. unfold bc_prem, is_bc_state. destruct (state_tree t s); [|discriminate]. apply tree_has_wrap. Qed.

(* ---------- the content of the reflective check, as propositions ---------- *)
Record table_facts (t : table) (terminal : list string) : Prop := {
  tf_bc_shape : forall s, mem s (bc_states t) = true -> bc_bare t s = true \/ bc_prem t s = true;
  tf_bc_events : forall s ev n, mem s (bc_states t) = true -> In (ev, n) (state_events t s) -> ev = Ev_Succeeded \/ ev = Ev_Failed;
  tf_bc_norecfail : forall s sd, mem s (bc_states t) = true -> lookup_state t s = Some sd -> st_fail_on_recover sd = false;
  tf_bc_notfin : forall s, mem s (bc_states t) = true -> is_fin terminal s = false;
  tf_seed : forall s n, mem s (bc_states t) = true -> next_state t s Ev_Succeeded = Some n -> mem n (post_states t) = true;
  tf_closed : forall s n, mem s (post_states t) = true -> In n (succs t s) -> mem n (post_states t) = true;
  tf_disjoint : forall s, mem s (post_states t) = true -> mem s (bc_states t) = false;
  tf_nonfresh : forall s, mem s (post_states t) = true \/ mem s (bc_states t) = true -> s <> EmptyString;
  tf_fin_entry : forall s ev n, mem s (post_states t) = true \/ mem s (bc_states t) = true ->
      In (ev, n) (state_events t s) -> is_fin terminal n = true ->
      ev = Ev_Paid \/ (ev = Ev_Succeeded /\ spend_state t s = true);
  tf_prem_entry : forall s ev n sd, lookup_state t s = Some sd -> In (ev, n) (state_events t s) -> bc_prem t n = true -> ev = Ev_Agreement;
  tf_noconf : forall s sd a, lookup_state t s = Some sd -> st_action sd = Some a -> tree_has L_await_conf a = false }.

Lemma forallb_In {A} (f : A -> bool) l x : forallb f l = true -> In x l -> f x = true.
Proof. intros H Hin. rewrite forallb_forall in H. auto. Qed.

Lemma table_facts_of_check t terminal : maker_table_ok t terminal = true -> table_facts t terminal.
Proof.
  unfold maker_table_ok. intros H.
  repeat (apply andb_true_iff in H; destruct H as [H ?]).
  rename H into C1, H0 into C8, H1 into C7, H2 into C6, H3 into C5, H4 into C4, H5 into C3, H6 into C2.
  constructor.
  - intros s Hs. apply mem_In in Hs. apply (forallb_In _ _ _ C1) in Hs.
    repeat (apply andb_true_iff in Hs; destruct Hs as [Hs ?]). apply orb_true_iff in Hs. exact Hs.
  - intros s ev n Hs Hin. apply mem_In in Hs. apply (forallb_In _ _ _ C1) in Hs.
    repeat (apply andb_true_iff in Hs; destruct Hs as [Hs ?]).
    apply (forallb_In _ _ _ H1) in Hin. cbn in Hin. apply orb_true_iff in Hin.
    destruct Hin as [Hx|Hx]; apply String.eqb_eq in Hx; auto.
  - intros s sd Hs Hl. apply mem_In in Hs. apply (forallb_In _ _ _ C1) in Hs.
    repeat (apply andb_true_iff in Hs; destruct Hs as [Hs ?]). rewrite Hl in H0. apply negb_true_iff in H0. exact H0.
  - intros s Hs. apply mem_In in Hs. apply (forallb_In _ _ _ C1) in Hs.
    repeat (apply andb_true_iff in Hs; destruct Hs as [Hs ?]). apply negb_true_iff in H. exact H.
  - intros s n Hs Hn. apply (forallb_In _ _ n C2). unfold post_seed. apply in_flat_map.
    exists s. split; [apply mem_In; exact Hs|]. rewrite Hn. left. reflexivity.
  - intros s n Hs Hn. apply mem_In in Hs. apply (forallb_In _ _ _ C3) in Hs. apply (forallb_In _ _ _ Hs Hn).
  - intros s Hs. apply mem_In in Hs. apply (forallb_In _ _ _ C4) in Hs. apply negb_true_iff in Hs. exact Hs.
  - intros s Hs Heq. subst s. apply negb_true_iff in C5.
    assert (mem EmptyString (post_states t ++ bc_states t) = true).
    { apply mem_In. apply in_or_app. destruct Hs as [Hs|Hs]; apply mem_In in Hs; auto. }
    congruence.
  - intros s ev n Hs Hin Hf.
    assert (Hs' : In s (post_states t ++ bc_states t)).
    { apply in_or_app. destruct Hs as [Hs|Hs]; apply mem_In in Hs; auto. }
    apply (forallb_In _ _ _ C6) in Hs'. apply (forallb_In _ _ _ Hs') in Hin. cbn [fst snd] in Hin.
    rewrite Hf in Hin. cbn [negb orb] in Hin. apply orb_true_iff in Hin. destruct Hin as [Hx|Hx].
    + left. apply String.eqb_eq in Hx. exact Hx.
    + right. apply andb_true_iff in Hx. destruct Hx as [Hx Hy]. apply String.eqb_eq in Hx. auto.
  - intros s ev n sd Hl Hin Hp. apply lookup_in in Hl. apply (forallb_In _ _ _ C7) in Hl.
    apply (forallb_In _ _ _ Hl) in Hin. cbn [fst snd] in Hin. rewrite Hp in Hin. cbn in Hin.
    apply String.eqb_eq in Hin. exact Hin.
  - intros s sd a Hl Ha. pose proof Hl as Hl2. apply lookup_in in Hl. apply (forallb_In _ _ _ C8) in Hl.
    unfold state_tree in Hl. rewrite Hl2, Ha in Hl. apply negb_true_iff in Hl. exact Hl.
Qed.

(* ---------- accumulator facts for the effects of one action ---------- *)
Lemma aend_np es : forall a, Forall not_persist es ->
  a_spent (acc_end upd a es) = a_spent a || spent_in es /\
  (bcs es = [] -> a_bc (acc_end upd a es) = a_bc a) /\
  (forall o, bcs es = [o] -> a_bc (acc_end upd a es) = Some o).
Proof.
  induction es as [|e r IH]; intros a F.
  - cbn. rewrite orb_false_r. repeat split; auto. discriminate.
  - inversion F as [|? ? He Fr]; subst. specialize (IH (upd a e) Fr). destruct IH as (I1 & I2 & I3).
    unfold acc_end in *. cbn [fold_left]. unfold spent_in in *. cbn [existsb bcs].
    destruct e; cbn [not_persist] in He; try contradiction;
      cbn [upd bc_of spend_ok a_spent a_bc] in *; try (rewrite I1; cbn [orb]; repeat split; auto; fail).
    + destruct res as [o|]; cbn [upd bc_of a_spent a_bc] in *.
      * rewrite I1. cbn. split; [reflexivity|]. split; [discriminate|].
        intros o' Ho. inversion Ho; subst. rewrite I2; auto.
      * rewrite I1. cbn. repeat split; auto.
    + destruct res as [x|]; cbn [upd spend_ok a_spent a_bc] in *.
      * rewrite I1. cbn. rewrite orb_true_r. repeat split; auto.
      * rewrite I1. cbn. repeat split; auto.
Qed.

Lemma a_spent_trace es : forall a, a_spent (acc_end upd a es) = true -> a_spent a = true \/ spent_in es = true.
Proof.
  induction es as [|e r IH]; intros a H; [left; exact H|].
  unfold acc_end in *. cbn [fold_left] in H. apply IH in H. unfold spent_in in *. cbn [existsb].
  destruct H as [H|H]; [|right; rewrite H; apply orb_true_r].
  destruct e; cbn [upd a_spent] in H; auto;
    try (destruct ok; cbn in H; auto; fail);
    try (destruct res; cbn in H; auto; fail).
Qed.

Section Inv.
Variable tc : tl_consts.
Variable dec : string -> option (string * Z * Z).
Variable t : table.
Variable terminal : list string.
Hypothesis TF : table_facts t terminal.
Variable paid : bool.

Definition Jbc (a : acc) (o : opening_result) (s : string) (d : swap_data) : Prop :=
  otb_matches d o = true /\ chain_known d = true /\
  (mem s (post_states t) = true \/ mem s (bc_states t) = true) /\
  (bc_prem t s = true -> check_premium d = Some true) /\
  (is_fin terminal s = true -> paid = true \/ a_spent a = true).

Definition J (a : acc) (s : string) (d : swap_data) : Prop :=
  (str_nonempty (d_claim_txid d) = true -> a_spent a = true) /\
  (bc_prem t s = true -> d_in_agr d <> None) /\
  (forall o, a_bc a = Some o -> Jbc a o s d).

Definition Inv (a : acc) (m : machine) : Prop := J a (m_cur m) (m_data m).

Definition P (a : acc) (e : effect) : Prop :=
  match e with
  | EPersist s d _ => J a s d
  | EBroadcastOpening _ _ _ _ _ _ (Some _) => a_bc a = None
  | EWatchConf _ _ _ _ => False
  | _ => True
  end.

Definition Esd (a : acc) (s : string) (d : swap_data) (ev : string) : Prop :=
  (ev = Ev_Paid -> paid = true) /\
  (ev = Ev_Succeeded -> spend_state t s = true -> a_spent a = true) /\
  (a_bc a <> None -> is_bc_state t s = true -> ev <> Ev_Failed) /\
  (ev = Ev_Agreement -> d_in_agr d <> None).

Definition E (a : acc) (m : machine) (ev : string) : Prop := Esd a (m_cur m) (m_data m) ev.

Lemma trok_exec es : forall a, Forall not_persist es -> existsb is_watch_conf es = false ->
  (bcs es = [] \/ ((exists o, bcs es = [o]) /\ a_bc a = None)) -> tr_ok upd P a es.
Proof.
  induction es as [|e r IH]; intros a F Hw Hb; [exact Logic.I|].
  inversion F as [|? ? He Fr]; subst. cbn [existsb] in Hw. apply orb_false_iff in Hw. destruct Hw as [Hw1 Hw2].
  cbn [tr_ok]. cbn [bcs] in Hb.
  destruct e; cbn [not_persist is_watch_conf bc_of] in *; try contradiction; try discriminate;
    try (split; [exact Logic.I|apply IH; auto; fail]).
  2:{ split; [exact Logic.I|]. apply IH; auto.
      destruct Hb as [Hb|[Hb Hn]]; [left; exact Hb|right; split; auto]. destruct res; exact Hn. }
  destruct res as [o|]; cbn [bc_of] in Hb.
  - destruct Hb as [Hb|[[o' Hb] Hn]]; [discriminate|]. inversion Hb; subst.
    split; [exact Hn|]. apply IH; auto.
  - split; [exact Logic.I|]. apply IH; auto.
Qed.

Lemma otb_matches_otb d o : otb_matches d o = true -> d_otb d <> None.
Proof. unfold otb_matches. destruct (d_otb d); [discriminate|]. cbn. discriminate. Qed.

Lemma chain_known_core d d' : same_core d d' -> chain_known d' = chain_known d.
Proof.
  intros (A & B & _). unfold chain_known, get_chain, get_asset, get_network, get_request. rewrite A, B. reflexivity.
Qed.

Lemma internal_not_paid ev : internal_ev ev = true -> ev <> Ev_Paid /\ ev <> Ev_Agreement.
Proof.
  intros H. split; intros ->; vm_compute in H; discriminate.
Qed.

Lemma state_tree_of s sd act : lookup_state t s = Some sd -> st_action sd = Some act -> state_tree t s = Some act.
Proof. intros Hl Ha. unfold state_tree. rewrite Hl. exact Ha. Qed.

(* one action, run in state s on data d for which J holds *)
Lemma exec_J a s sd act d w ev' d' w' es :
  lookup_state t s = Some sd -> st_action sd = Some act ->
  J a s d ->
  exec tc dec action_fuel act d w = ((ev', d'), w', es) ->
  tr_ok upd P a es /\ J (acc_end upd a es) s d' /\ Esd (acc_end upd a es) s d' ev'.
Proof.
  intros Hl Ha (J1 & J2 & J3) H.
  pose proof (state_tree_of _ _ _ Hl Ha) as Hst.
  pose proof (exec_QT tc dec _ _ _ _ _ _ _ H) as ((F & Hi & Hc & Ho & Hb) & Hbt & Hwt). cbn [fst snd] in *.
  pose proof (exec_core tc dec _ _ _ _ _ _ _ H) as Hcore. cbn [snd] in Hcore.
  destruct (aend_np es a F) as (A1 & A2 & A3).
  assert (Hw : existsb is_watch_conf es = false).
  { destruct (existsb is_watch_conf es) eqn:Ew; [|reflexivity]. rewrite (tf_noconf _ _ TF _ _ _ Hl Ha) in Hwt.
    specialize (Hwt eq_refl). discriminate. }
  assert (Hbc : is_bc_state t s = true -> bc_tree act = true).
  { intros Hb'. pose proof (bc_state_mem _ _ _ Hl Hb') as Hm. destruct (tf_bc_shape _ _ TF _ Hm) as [Hx|Hx];
      unfold bc_bare, bc_prem in Hx; rewrite Hst in Hx; unfold bc_tree; rewrite Hx; auto using orb_true_r. }
  assert (Hprem : bc_prem t s = true -> tree_eqb_wrap act L_premium L_broadcast = true).
  { unfold bc_prem. rewrite Hst. auto. }
  assert (Hcase : (bcs es = [] /\ a_bc (acc_end upd a es) = a_bc a) \/
                  (exists o, bcs es = [o] /\ a_bc a = None /\ a_bc (acc_end upd a es) = Some o /\
                             ev' = Ev_Succeeded /\ otb_matches d' o = true /\ chain_known d = true)).
  { destruct Hb as [Hb|(o & Hb & He & Hm & Hck & Hnone)].
    - left. auto.
    - right. exists o. repeat split; auto.
      destruct (a_bc a) as [o'|] eqn:Eo; [|reflexivity].
      destruct (J3 o' eq_refl) as (Hm' & _). apply otb_matches_otb in Hm'. congruence. }
  split; [|split].
  - (* effects *)
    apply trok_exec; auto. destruct Hcase as [[Hb' _]|(o & Hb' & Hn & _)]; [left; exact Hb'|right; split; eauto].
  - (* the invariant afterwards *)
    split; [|split].
    + intros Hx. rewrite A1. destruct (Hc Hx) as [Hl'|Hr]; [rewrite (J1 Hl'); reflexivity|rewrite Hr; apply orb_true_r].
    + intros Hp. pose proof (Hbc (bc_prem_is_bc _ _ Hp)) as Hbt'.
      destruct (bc_tree_facts tc dec _ _ _ _ _ _ _ Hbt' H) as (B1 & _). rewrite B1. auto.
    + intros o Hao. destruct Hcase as [[Hb' Hsame]|(o1 & Hb' & Hn & Hnew & Hev & Hm & Hck)].
      * rewrite Hsame in Hao. destruct (J3 o Hao) as (K1 & K2 & K3 & K4 & K5).
        destruct (Ho (otb_matches_otb _ _ K1)) as (O1 & O2 & _).
        split; [unfold otb_matches in *; rewrite O1, O2; exact K1|].
        split; [rewrite (chain_known_core _ _ Hcore); exact K2|].
        split; [exact K3|]. split.
        { intros Hp. pose proof (Hbc (bc_prem_is_bc _ _ Hp)) as Hbt'.
          destruct (bc_tree_facts tc dec _ _ _ _ _ _ _ Hbt' H) as (_ & B2 & _). rewrite B2. auto. }
        { intros Hf. destruct (K5 Hf) as [Hp|Hs]; [left; exact Hp|right; rewrite A1, Hs; reflexivity]. }
      * rewrite Hnew in Hao. inversion Hao; subst o1.
        assert (Hne : bcs es <> []) by (rewrite Hb'; discriminate).
        assert (Hisbc : is_bc_state t s = true) by (unfold is_bc_state; rewrite Hst; auto).
        pose proof (bc_state_mem _ _ _ Hl Hisbc) as Hmem.
        split; [exact Hm|]. split; [rewrite (chain_known_core _ _ Hcore); exact Hck|].
        split; [right; exact Hmem|]. split.
        { intros Hp. destruct (bc_tree_facts tc dec _ _ _ _ _ _ _ (Hbc Hisbc) H) as (_ & B2 & B3 & _).
          rewrite B2. apply B3; auto. }
        { intros Hf. rewrite (tf_bc_notfin _ _ TF _ Hmem) in Hf. discriminate. }
  - (* the event handed back to the loop *)
    destruct (internal_not_paid _ Hi) as [Hnp Hna].
    split; [intros Hx; contradiction|]. split; [|split; [|intros Hx; contradiction]].
    + intros Hev Hsp. rewrite A1. unfold spend_state in Hsp. rewrite Hst in Hsp.
      destruct (spend_tree_success tc dec _ _ _ _ _ _ _ Hsp H Hev) as [Hx|Hx];
        [rewrite (J1 Hx); reflexivity|rewrite Hx; apply orb_true_r].
    + intros Hbcn Hisbc. destruct Hcase as [[Hb' Hsame]|(o1 & _ & _ & _ & Hev & _)].
      * rewrite Hsame in Hbcn. destruct (a_bc a) as [o|] eqn:Eo; [|congruence].
        destruct (J3 o eq_refl) as (K1 & K2 & _ & K4 & _).
        destruct (bc_tree_facts tc dec _ _ _ _ _ _ _ (Hbc Hisbc) H) as (_ & _ & _ & B4).
        rewrite B4; auto.
        { discriminate. }
        { apply otb_matches_otb in K1. exact K1. }
        { intros Hw'. apply K4. unfold bc_prem. rewrite Hst. exact Hw'. }
      * rewrite Hev. discriminate.
Qed.


(* ---------- frame facts for J ---------- *)
Lemma J_acc a a' s d : a_bc a' = a_bc a -> a_spent a' = a_spent a -> J a s d -> J a' s d.
Proof. intros Hb Hs (J1 & J2 & J3). unfold J, Jbc in *. rewrite Hb, Hs. auto. Qed.

Lemma chain_known_reqs d d' : d_in_req d' = d_in_req d -> d_out_req d' = d_out_req d -> chain_known d' = chain_known d.
Proof. intros A B. unfold chain_known, get_chain, get_asset, get_network, get_request. rewrite A, B. reflexivity. Qed.

Lemma J_frame a s d d' :
  d_claim_txid d' = d_claim_txid d -> d_otb d' = d_otb d -> d_opening_hex d' = d_opening_hex d ->
  d_in_req d' = d_in_req d -> d_out_req d' = d_out_req d -> d_in_agr d' = d_in_agr d ->
  (bc_prem t s = true -> d_out_agr d' = d_out_agr d \/ d_in_agr d <> None) ->
  J a s d -> J a s d'.
Proof.
  intros A B C D F G Hh (J1 & J2 & J3). unfold J, Jbc, otb_matches in *. rewrite A, B, C, G.
  split; [exact J1|]. split; [exact J2|]. intros o Ho. destruct (J3 o Ho) as (K1 & K2 & K3 & K4 & K5).
  split; [exact K1|]. split; [rewrite (chain_known_reqs _ _ D F); exact K2|]. split; [exact K3|]. split; [|exact K5].
  intros Hp. rewrite <- (K4 Hp). unfold check_premium. rewrite D, F, G.
  destruct (Hh Hp) as [Hh'|Hh']; [rewrite Hh'; reflexivity|]. destruct (d_in_agr d); [reflexivity|congruence].
Qed.

Lemma J_fsm_state a s d x : J a s d -> J a s (d <| d_fsm_state := x |>).
Proof. apply J_frame; destruct d; try reflexivity. intros _. left. reflexivity. Qed.

Lemma enter_cur m nxt d' : m_cur ((enter m nxt) <| m_data := d' |>) = nxt.
Proof. destruct m. reflexivity. Qed.
Lemma enter_data m nxt d' : m_data ((enter m nxt) <| m_data := d' |>) = d'.
Proof. destruct m. reflexivity. Qed.
Lemma enter_data0 m nxt : m_data (enter m nxt) = (m_data m) <| d_fsm_state := nxt |>.
Proof. destruct m. reflexivity. Qed.

Lemma next_state_lookup s ev n : next_state t s ev = Some n -> exists sd, lookup_state t s = Some sd.
Proof. unfold next_state. destruct (lookup_state t s) as [sd|]; [eauto|discriminate]. Qed.

Lemma act_rule_holds : forall a m ev nxt sd act, Inv a m -> E a m ev ->
    next_state t (m_cur m) ev = Some nxt -> lookup_state t nxt = Some sd -> st_action sd = Some act ->
    forall w ev' d' w' es,
      exec tc dec action_fuel act (m_data (enter m nxt)) w = ((ev', d'), w', es) ->
      tr_ok upd P a es /\ Inv (acc_end upd a es) ((enter m nxt) <| m_data := d' |>) /\
      E (acc_end upd a es) ((enter m nxt) <| m_data := d' |>) ev'.
Proof.
  intros a m ev nxt sd act (J1 & J2 & J3) (E1 & E2 & E3 & E4) Hn Hl Ha w ev' d' w' es H.
  destruct (next_state_in _ _ _ _ Hn) as [Hin Hsucc].
  destruct (next_state_lookup _ _ _ Hn) as [sd0 Hl0].
  assert (HJ : J a nxt (m_data (enter m nxt))).
  { rewrite enter_data0. apply J_fsm_state. split; [exact J1|]. split.
    - intros Hp. apply E4. eapply tf_prem_entry; eauto.
    - intros o Ho. destruct (J3 o Ho) as (K1 & K2 & K3 & K4 & K5).
      assert (HS : mem nxt (post_states t) = true).
      { destruct K3 as [K3|K3].
        - eapply tf_closed; eauto.
        - destruct (tf_bc_events _ _ TF _ _ _ K3 Hin) as [Hev|Hev].
          + subst ev. eapply tf_seed; eauto.
          + exfalso. apply (E3 (ltac:(congruence)) (mem_bc_state _ _ K3)). exact Hev. }
      split; [exact K1|]. split; [exact K2|]. split; [left; exact HS|]. split.
      + intros Hp. pose proof (bc_state_mem _ _ _ Hl (bc_prem_is_bc _ _ Hp)) as Hm.
        rewrite (tf_disjoint _ _ TF _ HS) in Hm. discriminate.
      + intros Hf. destruct (tf_fin_entry _ _ TF _ _ _ K3 Hin Hf) as [Hev|[Hev Hsp]].
        * left. auto.
        * right. auto. }
  destruct (exec_J a nxt sd act _ _ _ _ _ _ Hl Ha HJ H) as (T & HJ' & HE').
  split; [exact T|]. unfold Inv, E. rewrite enter_cur, enter_data. auto.
Qed.

Lemma recover_rule_holds :
  forall a m sd act, Inv a m -> lookup_state t (m_cur m) = Some sd -> st_action sd = Some act ->
    (st_fail_on_recover sd = true -> E a m Ev_Failed) /\
    (st_fail_on_recover sd = false ->
     forall w ev' d' w' es,
       exec tc dec action_fuel act (m_data m) w = ((ev', d'), w', es) ->
       tr_ok upd P a es /\ Inv (acc_end upd a es) (m <| m_data := d' |>) /\ E (acc_end upd a es) (m <| m_data := d' |>) ev').
Proof.
  intros a m sd act HI Hl Ha. split.
  - intros Hf. split; [discriminate|]. split; [discriminate|]. split; [|discriminate].
    intros _ Hb _. pose proof (bc_state_mem _ _ _ Hl Hb) as Hm.
    rewrite (tf_bc_norecfail _ _ TF _ _ Hm Hl) in Hf. discriminate.
  - intros _ w ev' d' w' es H.
    destruct (exec_J a (m_cur m) sd act _ _ _ _ _ _ Hl Ha HI H) as (T & HJ' & HE').
    split; [exact T|]. unfold Inv, E. destruct m. cbn. auto.
Qed.

Lemma persist_rule_holds : forall a m ok, Inv a m ->
  P a (EPersist (m_cur m) (m_data m) ok) /\ Inv (upd a (EPersist (m_cur m) (m_data m) ok)) m.
Proof.
  intros a m ok HI. split; [exact HI|]. unfold Inv. destruct ok; cbn [upd]; [|exact HI].
  eapply J_acc; [| |exact HI]; reflexivity.
Qed.

Lemma E_persist_holds : forall a m ev s d ok, E a m ev -> E (upd a (EPersist s d ok)) m ev.
Proof. intros a m ev s d ok H. destruct ok; cbn [upd]; exact H. Qed.

Lemma Inv_retries : forall a m r, Inv a m -> Inv a (m <| m_retries := r |>).
Proof. intros a m r H. destruct m. exact H. Qed.
Lemma E_retries_holds : forall a m r ev, E a m ev -> E a (m <| m_retries := r |>) ev.
Proof. intros a m r ev H. destruct m. exact H. Qed.

(* one service entry point *)
Theorem step_inv a m i w o w' es :
  Inv a m -> input_ok_acc acc Inv E a m i ->
  step tc dec t terminal m i w = (o, w', es) ->
  tr_ok upd P a es /\ Inv (acc_end upd a es) (o_machine o).
Proof.
  intros HI Hin H.
  exact (step_acc tc dec t terminal acc upd Inv P E Inv_retries E_retries_holds E_persist_holds
           persist_rule_holds act_rule_holds recover_rule_holds a m i w o w' es HI Hin H).
Qed.


(* ---------- the inputs the environment may produce keep the invariant's preconditions ---------- *)
Lemma fresh_not_prem : bc_prem t EmptyString = false.
Proof.
  destruct (bc_prem t EmptyString) eqn:Hp; [|reflexivity]. exfalso.
  pose proof (bc_prem_is_bc _ _ Hp) as Hb. unfold bc_prem, state_tree in Hp.
  destruct (lookup_state t EmptyString) as [sd|] eqn:Hl; [|discriminate].
  pose proof (bc_state_mem _ _ _ Hl Hb) as Hm. apply (tf_nonfresh _ _ TF EmptyString); auto.
Qed.

Lemma J_fresh a d d' : J a EmptyString d -> d_claim_txid d' = d_claim_txid d -> J a EmptyString d'.
Proof.
  intros (J1 & J2 & J3) Hc. split; [rewrite Hc; exact J1|]. split; [rewrite fresh_not_prem; discriminate|].
  intros o Ho. destruct (J3 o Ho) as (_ & _ & K3 & _). exfalso. apply (tf_nonfresh _ _ TF EmptyString); auto.
Qed.

Lemma apply_ctx_J a s d c d' :
  J a s d -> (match c with MInReq _ | MOutReq _ => s = EmptyString | _ => True end) ->
  apply_ctx d c = Some d' -> J a s d'.
Proof.
  intros HJ Hc H. pose proof HJ as (J1 & J2 & J3). destruct c as [rq|rq|ag|ag|ob|cp|cn]; cbn [apply_ctx] in H.
  - subst s. destruct (d_in_req d); [discriminate|]. inversion H; subst. eapply J_fresh; [exact HJ|]. destruct d; reflexivity.
  - subst s. destruct (d_out_req d); [discriminate|]. inversion H; subst. eapply J_fresh; [exact HJ|]. destruct d; reflexivity.
  - destruct (d_in_agr d) eqn:Ea; [discriminate|]. inversion H; subst.
    assert (Hp : bc_prem t s = false).
    { destruct (bc_prem t s) eqn:Hp; [|reflexivity]. exfalso. apply (J2 eq_refl). reflexivity. }
    split; [destruct d; exact J1|]. split; [destruct d; cbn; discriminate|].
    intros o Ho. destruct (J3 o Ho) as (K1 & K2 & K3 & K4 & K5).
    split; [destruct d; exact K1|]. split; [destruct d; exact K2|]. split; [exact K3|]. split; [rewrite Hp; discriminate|exact K5].
  - destruct (d_out_agr d) eqn:Ea; [discriminate|]. inversion H; subst.
    eapply J_frame; [..|exact HJ]; try (destruct d; reflexivity). intros Hp. right. auto.
  - destruct (d_otb d) eqn:Eo; [discriminate|]. inversion H; subst.
    assert (Hn : a_bc a = None).
    { destruct (a_bc a) as [o|] eqn:Eb; [|reflexivity]. destruct (J3 o eq_refl) as (K1 & _).
      apply otb_matches_otb in K1. congruence. }
    split; [destruct d; exact J1|]. split; [destruct d; exact J2|]. intros o Ho. congruence.
  - destruct (d_coop d); [discriminate|]. inversion H; subst.
    eapply J_frame; [..|exact HJ]; try (destruct d; reflexivity). intros _. left. destruct d; reflexivity.
  - inversion H; subst.
    eapply J_frame; [..|exact HJ]; try (destruct d; reflexivity). intros _. left. destruct d; reflexivity.
Qed.

Ltac ev_ne := let Hx := fresh "Hx" in intros Hx; discriminate Hx.

Lemma allowed_input_ok a m i (h : hstate) :
  Inv a m -> hs_conf_watch h = false ->
  input_allowed h m i = true -> (is_paid_input i = true -> paid = true) ->
  input_ok_acc acc Inv E a m i.
Proof.
  intros HI Hcw Hal Hpaid. unfold input_allowed in Hal.
  destruct (hs_down h).
  { destruct i; try discriminate. exact Logic.I. }
  destruct i as [ev ctx|rq|hex err| | |]; cbn [input_ok_acc].
  - (* SendEvent handlers *)
    unfold service_event in Hal.
    assert (Hinv : E a m Ev_Invalid).
    { split; [ev_ne|]. split; [ev_ne|]. split; [intros _ _; ev_ne|ev_ne]. }
    destruct ctx as [c|]; cbn [ctx_ok_acc].
    + split; [exact Hinv|]. intros d' _ Hap.
      assert (HJ' : J a (m_cur m) d').
      { eapply apply_ctx_J; [exact HI| |exact Hap].
        destruct c; try exact Logic.I; apply andb_true_iff in Hal; destruct Hal as [Hf _];
          apply String.eqb_eq in Hf; exact Hf. }
      split; [destruct m; exact HJ'|].
      unfold E, Esd. destruct m as [mid mty mro mcur mprev md mret]. cbn [m_cur m_data] in *.
      change (m_cur ({| m_id := mid; m_type := mty; m_role := mro; m_cur := mcur; m_prev := mprev; m_data := md; m_retries := mret |} <| m_data := d' |>)) with mcur.
      change (m_data ({| m_id := mid; m_type := mty; m_role := mro; m_cur := mcur; m_prev := mprev; m_data := md; m_retries := mret |} <| m_data := d' |>)) with d'.
      destruct c; apply andb_true_iff in Hal; destruct Hal as [_ Hev];
        try (apply orb_true_iff in Hev; destruct Hev as [Hev|Hev]);
        apply String.eqb_eq in Hev; subst ev.
      all: split; [ev_ne|]; split; [ev_ne|]; split; [intros _ _; ev_ne|]; try ev_ne.
      (* the agreement message leaves the agreement in the data *)
      intros _. cbn [apply_ctx] in Hap. destruct (d_in_agr md); [discriminate|]. inversion Hap; subst.
      destruct md; cbn. discriminate.
    + apply andb_true_iff in Hal. destruct Hal as [_ Hev].
      apply orb_true_iff in Hev; destruct Hev as [Hev|Hev]; apply String.eqb_eq in Hev; subst ev.
      * split; [ev_ne|]. split; [ev_ne|]. split; [intros _ _; ev_ne|ev_ne].
      * split; [intros _; apply Hpaid; reflexivity|]. split; [ev_ne|]. split; [intros _ _; ev_ne|ev_ne].
  - (* swap-in request *)
    apply String.eqb_eq in Hal.
    split.
    { split; [ev_ne|]. split; [ev_ne|]. split; [intros _ _; ev_ne|ev_ne]. }
    intros d' _ Hap.
    assert (HJ' : J a (m_cur m) d') by (apply (apply_ctx_J a (m_cur m) (m_data m) (MInReq rq) d' HI Hal Hap)).
    split; [destruct m; exact HJ'|].
    split; [ev_ne|]. split; [ev_ne|]. split; [intros _ _; ev_ne|ev_ne].
  - apply andb_true_iff in Hal. destruct Hal as [_ Hx]. congruence.
  - split; [ev_ne|]. split; [ev_ne|]. split; [intros _ _; ev_ne|ev_ne].
  - split; [ev_ne|]. split; [ev_ne|]. split; [intros _ _; ev_ne|ev_ne].
  - exact Logic.I.
Qed.

End Inv.

(* ---------- whole histories, with crashes and restarts ---------- *)
Definition paid_of (its : list hitem) : bool := existsb (fun it => is_paid_input (item_input it)) its.

Definition dur_step (acc : option (string * swap_data)) (e : effect) : option (string * swap_data) :=
  match e with EPersist s d true => Some (s, d) | _ => acc end.

Lemma last_persist_fold es : last_persist es = fold_left dur_step es None.
Proof. reflexivity. Qed.

Section Hist.
Variable tc : tl_consts.
Variable dec : string -> option (string * Z * Z).
Variable t : table.
Variable terminal : list string.
Hypothesis TF : table_facts t terminal.

Notation Jp := (J t terminal).
Notation Pp := (P t terminal).
Notation Invp := (Inv t terminal).

Lemma J_mono p p' a a' s d :
  a_bc a' = a_bc a -> (a_spent a = true -> a_spent a' = true) -> (p = true -> p' = true) ->
  Jp p a s d -> Jp p' a' s d.
Proof.
  intros Hb Hs Hp (J1 & J2 & J3). split; [auto|]. split; [exact J2|].
  intros o Ho. rewrite Hb in Ho. destruct (J3 o Ho) as (K1 & K2 & K3 & K4 & K5).
  split; [exact K1|]. split; [exact K2|]. split; [exact K3|]. split; [exact K4|].
  intros Hf. destruct (K5 Hf); auto.
Qed.

Lemma trok_mono p p' es : (p = true -> p' = true) -> forall a, tr_ok upd (Pp p) a es -> tr_ok upd (Pp p') a es.
Proof.
  intros Hp. induction es as [|e r IH]; intros a H; [exact Logic.I|]. destruct H as [H1 H2]. split; [|auto].
  destruct e; cbn [P] in *; auto. eapply J_mono; [reflexivity| |exact Hp|exact H1]. auto.
Qed.

Lemma trok_noconf p es : forall a, tr_ok upd (Pp p) a es -> existsb is_watch_conf es = false.
Proof.
  induction es as [|e r IH]; intros a H; [reflexivity|]. destruct H as [H1 H2]. cbn [existsb].
  rewrite (IH _ H2). destruct e; cbn [P is_watch_conf] in *; try reflexivity. contradiction.
Qed.

Lemma bc_stays p es : forall a o, a_bc a = Some o -> tr_ok upd (Pp p) a es -> a_bc (acc_end upd a es) = Some o.
Proof.
  induction es as [|e r IH]; intros a o Ha H; [exact Ha|]. destruct H as [H1 H2].
  unfold acc_end. cbn [fold_left]. apply IH; [|exact H2].
  destruct e; cbn [upd P a_bc] in *; auto.
  - destruct ok; exact Ha.
  - destruct res; [congruence|exact Ha].
  - destruct res; exact Ha.
Qed.

(* the last durable record satisfies J whenever no broadcast is pending *)
Definition K (p : bool) (a : acc) (dur : option (string * swap_data)) : Prop :=
  a_pend a = false -> match dur with Some (s, d) => Jp p a s d | None => a_bc a = None end.

Lemma K_trace p es : forall a dur, K p a dur -> tr_ok upd (Pp p) a es ->
  K p (acc_end upd a es) (fold_left dur_step es dur).
Proof.
  induction es as [|e r IH]; intros a dur HK H; [exact HK|]. destruct H as [H1 H2].
  unfold acc_end. cbn [fold_left]. apply IH; [|exact H2]. clear IH H2.
  destruct e; cbn [upd dur_step P] in *; try exact HK.
  - destruct ok; [|exact HK]. intros _. eapply J_mono; [| | |exact H1]; auto.
  - destruct res; [|exact HK]. intros Hx. discriminate Hx.
  - destruct res; [|exact HK]. intros Hx. specialize (HK Hx). destruct dur as [[s0 d0]|]; [|exact HK].
    eapply J_mono; [| | |exact HK]; auto.
Qed.

Definition HInv (p : bool) (h : hstate) : Prop :=
  tr_ok upd (Pp p) acc0 (hs_trace h) /\
  hs_conf_watch h = false /\
  a_pend (acc_end upd acc0 (hs_trace h)) = false /\
  match hs_machine h with Some m => Invp p (acc_end upd acc0 (hs_trace h)) m | None => True end.

Lemma HInv_mono p p' h : (p = true -> p' = true) -> HInv p h -> HInv p' h.
Proof.
  intros Hp (H1 & H2 & H3 & H4). split; [eapply trok_mono; eauto|]. split; [exact H2|]. split; [exact H3|].
  destruct (hs_machine h); [|exact Logic.I]. eapply J_mono; [| | |exact H4]; auto.
Qed.

Lemma restored_inv p tr m mr :
  tr_ok upd (Pp p) acc0 tr -> a_pend (acc_end upd acc0 tr) = false ->
  restore m tr = Some mr -> Invp p (acc_end upd acc0 tr) mr.
Proof.
  intros Ht Hp Hr. destruct (restore_cur _ _ _ Hr) as (s & d & Hlp & Hc & Hd & _).
  assert (HK : K p (acc_end upd acc0 tr) (last_persist tr)).
  { rewrite last_persist_fold. apply K_trace; [|exact Ht]. intros _. reflexivity. }
  specialize (HK Hp). rewrite Hlp in HK. unfold Inv. rewrite Hc, Hd. exact HK.
Qed.

(* a history never leaves a broadcast without a durable write at an item boundary *)
Fixpoint no_orphan (h : hstate) (its : list hitem) : bool :=
  match its with
  | [] => true
  | it :: r =>
      let h' := hist_step tc dec t terminal h it in
      negb (a_pend (acc_end upd acc0 (hs_trace h'))) && no_orphan h' r
  end.

Lemma hist_step_inv p h it :
  HInv p h -> (is_paid_input (item_input it) = true -> p = true) ->
  (match hs_machine h with Some m => input_allowed h m (item_input it) = true | None => True end) ->
  a_pend (acc_end upd acc0 (hs_trace (hist_step tc dec t terminal h it))) = false ->
  HInv p (hist_step tc dec t terminal h it).
Proof.
  intros (Ht & Hcw & Hpend & Hm) Hpaid Hal Hnp. unfold HInv. unfold hist_step in *.
  destruct (hs_machine h) as [m0|] eqn:Hm0; [|repeat split; auto; rewrite Hm0; exact Logic.I].
  set (a := acc_end upd acc0 (hs_trace h)) in *.
  assert (Hstart : forall m, (if is_recover (item_input it) then restore m0 (hs_trace h) else Some m0) = Some m ->
            Invp p a m /\ input_ok_acc acc (Invp p) (E t p) a m (item_input it)).
  { intros m Hsel. destruct (is_recover (item_input it)) eqn:Hrec.
    - split; [eapply restored_inv; eauto|]. destruct (item_input it); try discriminate. exact Logic.I.
    - inversion Hsel; subst m. split; [exact Hm|]. eapply allowed_input_ok; eauto. }
  destruct (if is_recover (item_input it) then restore m0 (hs_trace h) else Some m0) as [m|] eqn:Hsel.
  2:{ cbn [hs_trace hs_conf_watch hs_machine] in *. repeat split; auto. }
  destruct (Hstart m eq_refl) as [HI Hin]. clear Hstart.
  destruct it as [i w|i w k]; cbn [item_input] in *.
  - destruct (run_step tc dec t terminal m i w) as [[o w'] es] eqn:Hs. cbv beta iota zeta in *. cbn [hs_trace hs_conf_watch hs_machine] in *.
    unfold run_step in Hs. destruct (step_inv tc dec t terminal TF p a m i w o w' es HI Hin Hs) as [T HI'].
    split; [apply tr_ok_app; split; [exact Ht|exact T]|].
    split; [rewrite (trok_noconf _ _ _ T); destruct (is_recover i); [reflexivity|rewrite Hcw; reflexivity]|].
    split; [exact Hnp|]. rewrite acc_end_app. exact HI'.
  - destruct (run_step tc dec t terminal m i w) as [[o w'] es] eqn:Hs. cbv beta iota zeta in *. cbn [hs_trace hs_conf_watch hs_machine] in *.
    unfold run_step in Hs. destruct (step_inv tc dec t terminal TF p a m i w o w' es HI Hin Hs) as [T HI'].
    assert (T' : tr_ok upd (Pp p) acc0 (hs_trace h ++ firstn k es)).
    { apply tr_ok_app. split; [exact Ht|]. apply tr_ok_firstn. exact T. }
    split; [exact T'|]. split; [reflexivity|]. split; [exact Hnp|].
    destruct (restore m (hs_trace h ++ firstn k es)) as [mr|] eqn:Hr; [|exact Logic.I].
    eapply restored_inv; eauto.
Qed.

Lemma run_hist_none h its : hs_machine h = None -> run_hist tc dec t terminal h its = h.
Proof.
  intros Hn. unfold run_hist. induction its as [|it r IH]; [reflexivity|]. cbn [fold_left].
  assert (Hs : hist_step tc dec t terminal h it = h) by (unfold hist_step; rewrite Hn; reflexivity).
  rewrite Hs. exact IH.
Qed.

Theorem run_hist_inv : forall its h p,
  HInv p h -> hist_ok tc dec t terminal h its = true -> no_orphan h its = true ->
  HInv (p || paid_of its) (run_hist tc dec t terminal h its).
Proof.
  induction its as [|it r IH]; intros h p HI Hok Hno.
  - cbn. rewrite orb_false_r. exact HI.
  - destruct (hs_machine h) as [m|] eqn:Hm.
    2:{ rewrite run_hist_none by exact Hm. eapply HInv_mono; [|exact HI]. intros ->. reflexivity. }
    cbn [hist_ok] in Hok. rewrite Hm in Hok. apply andb_true_iff in Hok. destruct Hok as [Hal Hok].
    cbn [no_orphan] in Hno. apply andb_true_iff in Hno. destruct Hno as [Hnp Hno]. apply negb_true_iff in Hnp.
    set (p1 := p || is_paid_input (item_input it)).
    assert (HI1 : HInv p1 h) by (eapply HInv_mono; [|exact HI]; unfold p1; intros ->; reflexivity).
    assert (HI2 : HInv p1 (hist_step tc dec t terminal h it)).
    { apply hist_step_inv; auto.
      - unfold p1. intros ->. apply orb_true_r.
      - rewrite Hm. exact Hal. }
    specialize (IH _ _ HI2 Hok Hno).
    unfold run_hist in *. cbn [fold_left]. cbn [paid_of existsb]. unfold p1 in IH.
    rewrite <- orb_assoc in IH. exact IH.
Qed.

End Hist.

(* ---------- (a) + (b): the record of the opening transaction, finished only when paid or spent ---------- *)
Lemma persist_after t terminal p o es : forall a, a_bc a = Some o -> tr_ok upd (P t terminal p) a es ->
  forall s d ok, In (EPersist s d ok) es -> otb_matches d o = true.
Proof.
  induction es as [|e r IH]; intros a Ha H s d ok Hin; [contradiction|]. destruct H as [H1 H2].
  destruct Hin as [->|Hin].
  - cbn [P] in H1. destruct H1 as (_ & _ & J3). destruct (J3 o Ha) as (K1 & _). exact K1.
  - eapply (IH (upd a e)); eauto.
    destruct e; cbn [upd P a_bc] in *; auto.
    + destruct ok0; exact Ha.
    + destruct res; [congruence|exact Ha].
    + destruct res; exact Ha.
Qed.

Lemma fresh_inv t terminal (TF : table_facts t terminal) id ty role peer initiator privkey :
  HInv t terminal false (init_hstate (fresh_machine id ty role peer initiator privkey)).
Proof.
  split; [exact Logic.I|]. split; [reflexivity|]. split; [reflexivity|].
  change (J t terminal false acc0 EmptyString (fresh_data peer initiator privkey)).
  split; [intros Hx; discriminate Hx|]. split; [rewrite (fresh_not_prem t terminal TF); intros Hx; discriminate Hx|].
  intros o Ho. discriminate Ho.
Qed.

Theorem c07_record tc dec t terminal :
  maker_table_ok t terminal = true ->
  forall id ty role peer initiator privkey its,
  let h0 := init_hstate (fresh_machine id ty role peer initiator privkey) in
  let h := run_hist tc dec t terminal h0 its in
  hist_ok tc dec t terminal h0 its = true -> no_orphan tc dec t terminal h0 its = true ->
  forall pre e o post, hs_trace h = (pre ++ e :: post)%list -> bc_of e = Some o ->
    (exists s d, last_persist (hs_trace h) = Some (s, d) /\ otb_matches d o = true /\
                 (is_finished terminal s = true -> paid_of its = true \/ spent_in (hs_trace h) = true)) /\
    (forall s d ok, In (EPersist s d ok) post -> otb_matches d o = true).
Proof.
  intros Hck id ty role peer initiator privkey its h0 h Hok Hno pre e o post Htr He.
  pose proof (table_facts_of_check _ _ Hck) as TF.
  pose proof (run_hist_inv tc dec t terminal TF its h0 false (fresh_inv t terminal TF _ _ _ _ _ _) Hok Hno) as HI.
  cbn [orb] in HI. fold h in HI. destruct HI as (Ht & _ & Hpend & _).
  rewrite Htr in Ht. apply tr_ok_app in Ht. destruct Ht as [T1 T2]. cbn [tr_ok] in T2. destruct T2 as [Pe T3].
  set (a1 := upd (acc_end upd acc0 pre) e) in *.
  assert (Ha1 : a_bc a1 = Some o).
  { unfold a1. destruct e; cbn [bc_of] in He; try discriminate. destruct res; [|discriminate]. inversion He; subst. reflexivity. }
  assert (Hend : acc_end upd acc0 (hs_trace h) = acc_end upd a1 post).
  { rewrite Htr. rewrite acc_end_app. reflexivity. }
  split.
  - assert (Hfin : a_bc (acc_end upd acc0 (hs_trace h)) = Some o).
    { rewrite Hend. eapply bc_stays; eauto. }
    assert (HK : K t terminal (paid_of its) (acc_end upd acc0 (hs_trace h)) (last_persist (hs_trace h))).
    { rewrite last_persist_fold. apply K_trace.
      - intros _. reflexivity.
      - rewrite Htr. apply tr_ok_app. split; [exact T1|]. split; [exact Pe|exact T3]. }
    specialize (HK Hpend). destruct (last_persist (hs_trace h)) as [[s d]|]; [|congruence].
    exists s, d. split; [reflexivity|]. destruct HK as (_ & _ & J3). destruct (J3 o Hfin) as (K1 & _ & _ & _ & K5).
    split; [exact K1|]. intros Hf. destruct (K5 Hf) as [Hp|Hs]; [left; exact Hp|right].
    apply a_spent_trace in Hs. destruct Hs as [Hs|Hs]; [discriminate Hs|exact Hs].
  - intros s d ok Hin. eapply persist_after; eauto.
Qed.

(* ---------- the tables generated from the code ---------- *)
Definition maker_tables : list table := [table_swap_in_sender; table_swap_out_receiver].

Lemma maker_tables_checked :
  forallb (fun t => maker_table_ok t terminal_states && csv_table_ok t terminal_states) maker_tables = true.
Proof. vm_compute. reflexivity. Qed.

Lemma maker_tables_ok t : In t maker_tables -> maker_table_ok t terminal_states = true /\ csv_table_ok t terminal_states = true.
Proof.
  intros Hin. pose proof maker_tables_checked as H. rewrite forallb_forall in H. specialize (H t Hin).
  apply andb_true_iff in H. exact H.
Qed.

(* the conclusion of (a)+(b) for one broadcast opening transaction o found in the trace of a history *)
Definition record_kept (terminal : list string) (its : list hitem) (tr : list effect) (o : opening_result) (post : list effect) : Prop :=
  (exists s d, last_persist tr = Some (s, d) /\ otb_matches d o = true /\
               (is_finished terminal s = true -> paid_of its = true \/ spent_in tr = true)) /\
  (forall s d ok, In (EPersist s d ok) post -> otb_matches d o = true).

Theorem c07_gen : forall t, In t maker_tables ->
  forall dec id ty role peer initiator privkey its,
  let h0 := init_hstate (fresh_machine id ty role peer initiator privkey) in
  let h := run_hist tl_consts_gen dec t terminal_states h0 its in
  hist_ok tl_consts_gen dec t terminal_states h0 its = true ->
  no_orphan tl_consts_gen dec t terminal_states h0 its = true ->
  forall pre e o post, hs_trace h = (pre ++ e :: post)%list -> bc_of e = Some o ->
  record_kept terminal_states its (hs_trace h) o post.
Proof.
  intros t Hin dec id ty role peer initiator privkey its h0 h Hok Hno pre e o post Htr He.
  destruct (maker_tables_ok t Hin) as [Hck _].
  exact (c07_record tl_consts_gen dec t terminal_states Hck id ty role peer initiator privkey its Hok Hno pre e o post Htr He).
Qed.
