(* Engine rule with a GHOST threaded through the effects (generalises Proofs/Engine.v,
   whose ghost is only the last durable record), and its lifting to histories with
   crashes and restarts under an invariant on machines.

   ghost  y : Y, updated by every effect (gy); reset by a process restart (yrestart)
   I y m    : holds of the machine at every loop head and at rest
   P lp y e : holds of every effect, lp = last durable record, y = ghost before e
   E y m ev : which events may be processed in which machine state (provenance)

   New file; nothing in Engine.v / HistRule.v is changed. *)
From Coq Require Import String ZArith Bool List Lia.
From RecordUpdate Require Import RecordSet.
From PS Require Import Base.Wrap Model.Data Model.Actions Model.Fsm Model.History
  Proofs.Monad Proofs.ExecRule Proofs.Engine Proofs.HistRule.
Import ListNotations RecordSetNotations.
Open Scope Z_scope.

Strategy opaque [event_loop exec loop_fuel action_fuel pay_loop].

Section Ghost.
Variable tc : tl_consts.
Variable decode : string -> option (string * Z * Z).
Variable t : table.
Variable terminal : list string.

Variable Y : Type.
Variable gy : Y -> effect -> Y.
Definition yend (y : Y) (es : list effect) : Y := fold_left gy es y.

Variable I : Y -> machine -> Prop.
Variable P : swap_data -> Y -> effect -> Prop.
Variable E : Y -> machine -> string -> Prop.

Fixpoint trace_okg (lp : swap_data) (y : Y) (es : list effect) : Prop :=
  match es with
  | [] => True
  | e :: r => P lp y e /\ trace_okg (lp_step lp e) (gy y e) r
  end.

Lemma yend_nil y : yend y [] = y.
Proof. reflexivity. Qed.

Lemma yend_app y a b : yend y (a ++ b) = yend (yend y a) b.
Proof. unfold yend. apply fold_left_app. Qed.

Lemma yend_cons y e r : yend y (e :: r) = yend (gy y e) r.
Proof. reflexivity. Qed.

Lemma trace_okg_app lp y es1 es2 :
  trace_okg lp y (es1 ++ es2) <-> trace_okg lp y es1 /\ trace_okg (lp_end lp es1) (yend y es1) es2.
Proof.
  revert lp y. induction es1 as [|e r IH]; intros lp y; simpl.
  - unfold lp_end, yend. simpl. tauto.
  - rewrite IH. unfold lp_end, yend. simpl. tauto.
Qed.

Lemma trace_okg_firstn lp y es k : trace_okg lp y es -> trace_okg lp y (firstn k es).
Proof.
  revert lp y k. induction es as [|e r IH]; intros lp y [|k]; simpl; auto. intros [H1 H2]. auto.
Qed.

Hypothesis I_retries : forall y m r, I y m -> I y (m <| m_retries := r |>).
Hypothesis E_retries : forall y m r ev, E y m ev -> E y (m <| m_retries := r |>) ev.
Hypothesis H_persist : forall y m lp ok, I y m ->
  P lp y (EPersist (m_cur m) (m_data m) ok) /\
  I (gy y (EPersist (m_cur m) (m_data m) ok)) m /\
  (forall ev, E y m ev -> E (gy y (EPersist (m_cur m) (m_data m) ok)) m ev).

(* one transition: the action of the next state runs on the entered machine *)
Hypothesis act_rule :
  forall y m ev nxt sd act, I y m -> E y m ev ->
    next_state t (m_cur m) ev = Some nxt -> lookup_state t nxt = Some sd -> st_action sd = Some act ->
    forall w ev' d' w' es,
      exec tc decode action_fuel act (m_data (enter m nxt)) w = ((ev', d'), w', es) ->
      trace_okg (m_data m) y es /\ Forall not_persist es /\
      I (yend y es) ((enter m nxt) <| m_data := d' |>) /\
      E (yend y es) ((enter m nxt) <| m_data := d' |>) ev'.

Lemma event_loop_grule fuel : forall y m ev w m' res w' es,
  I y m -> E y m ev ->
  event_loop tc decode t fuel m ev w = ((m', res), w', es) ->
  trace_okg (m_data m) y es /\ I (yend y es) m'.
Proof.
  induction fuel as [|fuel IH]; intros y m ev w m' res w' es HI HE H.
  - rewrite event_loop_O in H. apply ret_inv in H. destruct H as (H & _ & ->). inversion H; subst. simpl. auto.
  - rewrite event_loop_S in H.
    destruct (next_state t (m_cur m) ev) as [nxt|] eqn:Hn.
    2:{ apply ret_inv in H. destruct H as (H & _ & ->). inversion H; subst. simpl. auto. }
    destruct (lookup_state t nxt) as [sd|] eqn:Hl.
    2:{ apply ret_inv in H. destruct H as (H & _ & ->). inversion H; subst. simpl. auto. }
    destruct (st_action sd) as [act|] eqn:Ha.
    2:{ apply ret_inv in H. destruct H as (H & _ & ->). inversion H; subst. simpl. auto. }
    cbv zeta in H.
    apply bind_inv in H. destruct H as ([ev' d'] & w1 & e1 & e2 & Hex & H & ->).
    destruct (act_rule y m ev nxt sd act HI HE Hn Hl Ha _ _ _ _ _ Hex) as (T1 & F1 & HI2 & HE2).
    assert (L1 : lp_end (m_data m) e1 = m_data m) by (apply lp_end_no_persist; exact F1).
    set (m2 := (enter m nxt) <| m_data := d' |>) in *.
    set (y1 := yend y e1) in *.
    destruct (String.eqb ev' Ev_Panic).
    { apply ret_inv in H. destruct H as (H & _ & ->). inversion H; subst.
      rewrite app_nil_r. auto. }
    apply bind_inv in H. destruct H as (ok & w2 & e3 & e4 & Hp & H & ->).
    apply persist_inv in Hp. subst e3.
    destruct (H_persist y1 m2 (m_data m) ok HI2) as (Pp & HI3 & HE3).
    set (y2 := gy y1 (EPersist (m_cur m2) (m_data m2) ok)) in *.
    assert (Y2 : forall e4, yend y (e1 ++ [EPersist (m_cur m2) (m_data m2) ok] ++ e4) = yend y2 e4).
    { intros e. rewrite yend_app. reflexivity. }
    assert (T12 : forall e4, trace_okg (lp_step (m_data m) (EPersist (m_cur m2) (m_data m2) ok)) y2 e4 ->
              trace_okg (m_data m) y (e1 ++ [EPersist (m_cur m2) (m_data m2) ok] ++ e4)).
    { intros e T4. apply trace_okg_app. split; [exact T1|]. rewrite L1. fold y1.
      cbn [app trace_okg]. split; [exact Pp|exact T4]. }
    destruct ok; cbn [negb] in H.
    2:{ apply ret_inv in H. destruct H as (H & _ & ->). inversion H; subst.
        split; [apply (T12 []); exact Logic.I|].
        change (I (yend y (e1 ++ [EPersist (m_cur m2) (m_data m2) false] ++ [])) m2).
        rewrite (Y2 []). exact HI3. }
    assert (Hfin : forall mm, I y2 mm ->
              trace_okg (m_data m) y (e1 ++ [EPersist (m_cur m2) (m_data m2) true] ++ []) /\
              I (yend y (e1 ++ [EPersist (m_cur m2) (m_data m2) true] ++ [])) mm).
    { intros mm Hmm. rewrite (Y2 []). split; [apply (T12 []); exact Logic.I|exact Hmm]. }
    assert (Hrec : forall mm evx wx mx rx wy ey, I y2 mm -> E y2 mm evx -> m_data mm = m_data m2 ->
              event_loop tc decode t fuel mm evx wx = ((mx, rx), wy, ey) ->
              trace_okg (m_data m) y (e1 ++ [EPersist (m_cur m2) (m_data m2) true] ++ ey) /\
              I (yend y (e1 ++ [EPersist (m_cur m2) (m_data m2) true] ++ ey)) mx).
    { intros mm evx wx mx rx wy ey Hmm HEm Hd Hl'. apply (IH y2) in Hl'; auto. destruct Hl' as [T4 HIx].
      rewrite (Y2 ey). split; [|exact HIx]. apply (T12 ey). cbn [lp_step]. rewrite <- Hd. exact T4. }
    destruct (String.eqb ev' Ev_Done).
    { apply ret_inv in H. destruct H as (H & _ & ->). inversion H; subst. apply Hfin; auto. }
    destruct (String.eqb ev' Ev_NoOp).
    { apply ret_inv in H. destruct H as (H & _ & ->). inversion H; subst. apply Hfin; auto. }
    destruct (String.eqb ev' Ev_Retry).
    + cbv zeta in H.
      match type of H with (if ?c then _ else _) _ = _ => destruct c end.
      * apply ret_inv in H. destruct H as (H & _ & ->). inversion H; subst.
        apply Hfin. apply I_retries. apply I_retries. exact HI3.
      * apply (Hrec (m2 <| m_retries := m_retries m2 + 1 |>) ev' w2 m' res w' e4); auto.
    + apply (Hrec m2 ev' w2 m' res w' e4); auto.
Qed.

(* what the caller has to know about the event context of a SendEvent *)
Definition gctx_ok (y : Y) (m : machine) (ev : string) (ctx : option wire_msg) : Prop :=
  match ctx with
  | None => E y m ev
  | Some c =>
      E y m Ev_Invalid /\
      (forall d', validate_ctx (m_data m) c = true -> apply_ctx (m_data m) c = Some d' ->
                  I y (m <| m_data := d' |>) /\ E y (m <| m_data := d' |>) ev)
  end.

Lemma persist_then_loop_grule y mm evx lp wx m' res w' es :
  I y mm -> E y mm evx ->
  persist_then_loop tc decode t mm evx wx = ((m', res), w', es) ->
  trace_okg lp y es /\ I (yend y es) m'.
Proof.
  intros Hmm HEm Hk. unfold persist_then_loop in Hk.
  apply bind_inv in Hk. destruct Hk as (ok & w1 & e1 & e2 & Hp & Hk & ->).
  apply persist_inv in Hp. subst e1.
  destruct (H_persist y mm lp ok Hmm) as (Pp & HI3 & HE3).
  destruct ok; cbn [negb] in Hk.
  - apply (event_loop_grule _ (gy y (EPersist (m_cur mm) (m_data mm) true))) in Hk; auto. destruct Hk as [T2 HI']. split.
    + cbn [app trace_okg lp_step]. split; [exact Pp|exact T2].
    + cbn [app]. rewrite yend_cons. exact HI'.
  - apply ret_inv in Hk. destruct Hk as (Hk & _ & ->). inversion Hk; subst.
    cbn [app trace_okg]. split; [split; [exact Pp|exact Logic.I]|]. rewrite yend_cons, yend_nil. exact HI3.
Qed.

Arguments persist_then_loop : simpl never.

Lemma send_event_grule y m ev ctx lp w m' res w' es :
  I y m -> gctx_ok y m ev ctx ->
  send_event tc decode t m ev ctx w = ((m', res), w', es) ->
  trace_okg lp y es /\ I (yend y es) m'.
Proof.
  intros HI HC H. unfold send_event in H.
  destruct (String.eqb ev Ev_Done).
  { apply ret_inv in H. destruct H as (H & _ & ->). inversion H; subst. simpl. auto. }
  destruct (next_state t (m_cur m) ev).
  2:{ apply ret_inv in H. destruct H as (H & _ & ->). inversion H; subst. simpl. auto. }
  destruct ctx as [c|]; cbn [gctx_ok] in HC.
  - destruct HC as [HEinv HC].
    destruct (validate_ctx (m_data m) c) eqn:Hv; cbn [negb] in H.
    + destruct (apply_ctx (m_data m) c) as [d'|] eqn:Hap.
      * destruct (HC d' eq_refl eq_refl) as [HI1 HE1].
        exact (persist_then_loop_grule _ _ _ lp _ _ _ _ _ HI1 HE1 H).
      * apply ret_inv in H. destruct H as (H & _ & ->). inversion H; subst. simpl. auto.
    + unfold accepted_then_loop in H. destruct (next_state t (m_cur m) Ev_Invalid).
      * exact (persist_then_loop_grule _ _ _ lp _ _ _ _ _ HI HEinv H).
      * apply ret_inv in H. destruct H as (H & _ & ->). inversion H; subst. simpl. auto.
  - exact (persist_then_loop_grule _ _ _ lp _ _ _ _ _ HI HC H).
Qed.

(* Recover(): the action of the CURRENT state runs on the machine as restored *)
Hypothesis recover_rule :
  forall y m sd act, I y m -> lookup_state t (m_cur m) = Some sd -> st_action sd = Some act ->
    (st_fail_on_recover sd = true -> E y m Ev_Failed) /\
    (st_fail_on_recover sd = false ->
     forall w ev' d' w' es,
       exec tc decode action_fuel act (m_data m) w = ((ev', d'), w', es) ->
       trace_okg (m_data m) y es /\ Forall not_persist es /\
       I (yend y es) (m <| m_data := d' |>) /\ E (yend y es) (m <| m_data := d' |>) ev').

Lemma recover_grule y m w m' res w' es :
  I y m -> recover tc decode t m w = ((m', res), w', es) ->
  trace_okg (m_data m) y es /\ I (yend y es) m'.
Proof.
  intros HI H. unfold recover in H.
  destruct (lookup_state t (m_cur m)) as [sd|] eqn:Hl.
  2:{ apply ret_inv in H. destruct H as (H & _ & ->). inversion H; subst. simpl. auto. }
  destruct (st_action sd) as [act|] eqn:Ha.
  2:{ apply ret_inv in H. destruct H as (H & _ & ->). inversion H; subst. simpl. auto. }
  destruct (recover_rule y m sd act HI Hl Ha) as [Rf Rn].
  destruct (st_fail_on_recover sd) eqn:Hf.
  - assert (Hc : gctx_ok y m Ev_Failed None) by (simpl; auto).
    apply (send_event_grule y m Ev_Failed None (m_data m)) in H; auto.
  - apply bind_inv in H. destruct H as ([ev' d'] & w1 & e1 & e2 & Hex & H & ->).
    destruct (Rn eq_refl _ _ _ _ _ Hex) as (T1 & F1 & HI1 & HE1).
    assert (L1 : lp_end (m_data m) e1 = m_data m) by (apply lp_end_no_persist; exact F1).
    set (m1 := m <| m_data := d' |>) in *.
    set (y1 := yend y e1) in *.
    destruct (String.eqb ev' Ev_Panic).
    { apply ret_inv in H. destruct H as (H & _ & ->). inversion H; subst.
      rewrite app_nil_r. auto. }
    apply bind_inv in H. destruct H as (ok & w2 & e3 & e4 & Hp & H & ->).
    apply persist_inv in Hp. subst e3.
    destruct (H_persist y1 m1 (m_data m) ok HI1) as (Pp & HI3 & HE3).
    set (y2 := gy y1 (EPersist (m_cur m1) (m_data m1) ok)) in *.
    assert (Y2 : forall e4, yend y (e1 ++ [EPersist (m_cur m1) (m_data m1) ok] ++ e4) = yend y2 e4).
    { intros e. rewrite yend_app. reflexivity. }
    assert (T12 : forall e4, trace_okg (lp_step (m_data m) (EPersist (m_cur m1) (m_data m1) ok)) y2 e4 ->
              trace_okg (m_data m) y (e1 ++ [EPersist (m_cur m1) (m_data m1) ok] ++ e4)).
    { intros e T4. apply trace_okg_app. split; [exact T1|]. rewrite L1. fold y1.
      cbn [app trace_okg]. split; [exact Pp|exact T4]. }
    destruct ok; cbn [negb] in H.
    2:{ apply ret_inv in H. destruct H as (H & _ & ->). inversion H; subst.
        rewrite (Y2 []). split; [apply (T12 []); exact Logic.I|exact HI3]. }
    destruct (String.eqb ev' Ev_NoOp).
    { apply ret_inv in H. destruct H as (H & _ & ->). inversion H; subst.
      rewrite (Y2 []). split; [apply (T12 []); exact Logic.I|exact HI3]. }
    assert (Hc : gctx_ok y2 m1 ev' None) by (simpl; auto).
    apply (send_event_grule y2 m1 ev' None (m_data m1)) in H; auto.
    destruct H as [T4 HI']. rewrite Y2. split; [|exact HI']. apply T12. exact T4.
Qed.

(* admissible inputs of a step, as seen by the invariant *)
Definition ginput_ok (y : Y) (m : machine) (i : input) : Prop :=
  match i with
  | InEvent ev ctx => gctx_ok y m ev ctx
  | InRequestIn rq => gctx_ok y m "Event_SwapInReceiver_OnRequestReceived" (Some (MInReq rq))
  | InTxConfirmed hex err =>
      (err = true -> E y m Ev_Failed) /\
      (forall es0 m0, I (yend y es0) m0 -> (err = false -> m0 = m /\ es0 = []) ->
         I (yend y es0) (m0 <| m_data := (m_data m0) <| d_opening_hex := hex |> |>) /\
         E (yend y es0) (m0 <| m_data := (m_data m0) <| d_opening_hex := hex |> |>) Ev_TxConfirmed)
  | InCsvPassed => E y m "Event_OnCsvPassed"
  | InTimeout => E y m Ev_Timeout
  | InRecover => True
  end.

(* [lp] is the last durable record when the entry point is called; RecoverSwaps
   works on exactly that record *)
Theorem step_grule y m i lp w o w' es :
  I y m -> ginput_ok y m i -> (i = InRecover -> lp = m_data m) ->
  step tc decode t terminal m i w = (o, w', es) ->
  trace_okg lp y es /\ I (yend y es) (o_machine o).
Proof.
  intros HI HIn Hlp H. destruct i as [ev ctx|rq|hex err| | |]; unfold step in H; cbn [ginput_ok] in HIn.
  - apply bind_inv in H. destruct H as ([m1 res] & w1 & e1 & e2 & Hs & H & ->).
    apply ret_inv in H. destruct H as (-> & _ & ->). rewrite app_nil_r.
    apply (send_event_grule y m ev ctx lp) in Hs; auto.
  - apply bind_inv in H. destruct H as ([m1 res] & w1 & e1 & e2 & Hs & H & ->).
    apply ret_inv in H. destruct H as (-> & _ & ->). rewrite app_nil_r.
    apply (send_event_grule y m _ _ lp) in Hs; auto.
  - destruct HIn as [HEf Hhex].
    apply bind_inv in H. destruct H as ([m0 rem0] & w1 & e1 & e2 & H0 & H & ->).
    assert (Pre : trace_okg lp y e1 /\ I (yend y e1) m0 /\ (err = false -> m0 = m /\ e1 = [])).
    { destruct err.
      - apply bind_inv in H0. destruct H0 as ([mx rx] & wx & ex & ey & Hs & H0 & ->).
        apply ret_inv in H0. destruct H0 as (H0 & _ & ->). inversion H0; subst.
        rewrite app_nil_r.
        assert (Hc : gctx_ok y m Ev_Failed None) by (simpl; auto).
        apply (send_event_grule y m Ev_Failed None lp) in Hs; auto.
        destruct Hs. repeat split; auto; discriminate.
      - apply ret_inv in H0. destruct H0 as (H0 & _ & ->). inversion H0; subst. simpl. auto. }
    destruct Pre as (F1 & HI0 & Hm0).
    destruct (Hhex e1 m0 HI0 Hm0) as [HI1 HE1].
    apply bind_inv in H. destruct H as ([m1 res] & w2 & e3 & e4 & Hs & H & ->).
    apply ret_inv in H. destruct H as (-> & _ & ->). rewrite app_nil_r.
    match type of Hs with send_event _ _ _ ?mm _ _ _ = _ =>
      assert (Hc : gctx_ok (yend y e1) mm Ev_TxConfirmed None) by (simpl; auto);
      apply (send_event_grule (yend y e1) mm Ev_TxConfirmed None (lp_end lp e1)) in Hs; auto end.
    destruct Hs as [F3 HI']. simpl. rewrite yend_app. split; auto. apply trace_okg_app; auto.
  - apply bind_inv in H. destruct H as ([m1 res] & w1 & e1 & e2 & Hs & H & ->).
    apply ret_inv in H. destruct H as (-> & _ & ->). rewrite app_nil_r.
    assert (Hc : gctx_ok y m "Event_OnCsvPassed" None) by (simpl; auto).
    apply (send_event_grule y m _ None lp) in Hs; auto.
  - apply bind_inv in H. destruct H as ([m1 res] & w1 & e1 & e2 & Hs & H & ->).
    apply ret_inv in H. destruct H as (-> & _ & ->). rewrite app_nil_r.
    assert (Hc : gctx_ok y m Ev_Timeout None) by (simpl; auto).
    apply (send_event_grule y m _ None lp) in Hs; auto.
  - destruct (is_finished terminal (m_cur m)).
    { apply ret_inv in H. destruct H as (-> & _ & ->). simpl. auto. }
    apply bind_inv in H. destruct H as ([m1 res] & w1 & e1 & e2 & Hs & H & ->).
    apply ret_inv in H. destruct H as (-> & _ & ->). rewrite app_nil_r.
    rewrite (Hlp eq_refl). apply (recover_grule y) in Hs; auto.
Qed.

(* ---------------- histories ---------------- *)

(* the ghost of the proof may know more than the trace shows (what was registered in the
   CURRENT process); a restart resets that part.  R relates the proof ghost to the ghost
   obtained by folding gy over the whole trace. *)
Variable yrestart : Y -> Y.
Variable R : Y -> Y -> Prop.     (* R y yt: y agrees with the trace ghost yt on everything P looks at *)
Hypothesis R_refl : forall y, R y y.
Hypothesis R_gy : forall y yt e, R y yt -> R (gy y e) (gy yt e).
Hypothesis R_P : forall lp y yt e, R y yt -> P lp y e -> P lp yt e.
Hypothesis R_restart : forall y yt, R y yt -> R (yrestart y) yt.

(* L cw sw tm y: what the flags of the history state (watches / timer registered in the
   current process) say about the ghost *)
Variable L : bool -> bool -> bool -> Y -> Prop.
Hypothesis L_step : forall cw sw tm y es, L cw sw tm y ->
  L (cw || existsb is_watch_conf es) (sw || existsb is_watch_csv es) (tm || existsb is_arm_timer es) (yend y es).
Hypothesis L_restart : forall y, L false false false (yrestart y).

(* a machine restored from a durable record about which P held satisfies I after the restart *)
Hypothesis I_restore : forall lp y y' s d mr,
  P lp y (EPersist s d true) -> m_cur mr = s -> m_data mr = d -> I (yrestart y') mr.

(* inputs the environment may produce are inputs the invariant can digest *)
Hypothesis input_ok_allowed : forall h m y i,
  hs_machine h = Some m -> hs_down h = false -> I y m -> L (hs_conf_watch h) (hs_csv_watch h) (hs_timer h) y ->
  input_allowed h m i = true -> i <> InRecover -> ginput_ok y m i.

Lemma R_yend y yt es : R y yt -> R (yend y es) (yend yt es).
Proof. revert y yt. induction es as [|e r IH]; intros y yt H; [exact H|]. rewrite !yend_cons. apply IH. apply R_gy. exact H. Qed.

Lemma trace_okg_R lp y yt es : R y yt -> trace_okg lp y es -> trace_okg lp yt es.
Proof.
  revert lp y yt. induction es as [|e r IH]; intros lp y yt H; cbn [trace_okg]; auto.
  intros [H1 H2]. split; [eapply R_P; eauto|]. eapply IH; [|exact H2]. apply R_gy. exact H.
Qed.

Lemma last_persist_P_gen es : forall lp y acc,
  trace_okg lp y es ->
  (match acc with Some (s, d) => exists lp' y', P lp' y' (EPersist s d true) | None => True end) ->
  match fold_left (fun acc e => match e with EPersist s d true => Some (s, d) | _ => acc end) es acc with
  | Some (s, d) => exists lp' y', P lp' y' (EPersist s d true)
  | None => True
  end.
Proof.
  induction es as [|e r IH]; intros lp y acc T Hacc; cbn [fold_left].
  - destruct acc as [[s d]|]; auto.
  - cbn [trace_okg] in T. destruct T as [Pe T]. eapply IH; [exact T|].
    destruct e; auto. destruct ok; auto. eauto.
Qed.

Lemma last_persist_P lp y es s d :
  trace_okg lp y es -> last_persist es = Some (s, d) -> exists lp' y', P lp' y' (EPersist s d true).
Proof.
  intros T H. pose proof (last_persist_P_gen es lp y None T Logic.I) as G.
  unfold last_persist in H. rewrite H in G. exact G.
Qed.

Definition hinv (lp0 : swap_data) (y0 : Y) (h : hstate) : Prop :=
  trace_okg lp0 y0 (hs_trace h) /\
  match hs_machine h with
  | None => True
  | Some m =>
      hs_down h = true \/
      exists y, R y (yend y0 (hs_trace h)) /\ I y m /\ L (hs_conf_watch h) (hs_csv_watch h) (hs_timer h) y
  end.

Lemma hist_step_ginv lp0 y0 h it :
  hinv lp0 y0 h ->
  match hs_machine h with Some m => input_allowed h m (item_input it) = true | None => True end ->
  hinv lp0 y0 (hist_step tc decode t terminal h it).
Proof.
  intros [HT HM] Hal. unfold hist_step.
  destruct (hs_machine h) as [mh|] eqn:Hmh; [|split; [exact HT|rewrite Hmh; exact Logic.I]].
  destruct (is_recover (item_input it)) eqn:Hrec.
  - (* restart: the machine is rebuilt from the last durable record *)
    destruct (restore mh (hs_trace h)) as [mr|] eqn:Hr.
    2:{ split; [exact HT|exact Logic.I]. }
    assert (Hlp : m_data mr = lp_end lp0 (hs_trace h)) by (eapply restore_data; eauto).
    destruct (restore_cur _ _ _ Hr) as (s & d & Hlast & Hcur & Hdat & _).
    destruct (last_persist_P _ _ _ _ _ HT Hlast) as (lp' & y' & HP).
    set (yt := yend y0 (hs_trace h)).
    assert (HIr : I (yrestart yt) mr) by (eapply I_restore; eauto).
    assert (HRr : R (yrestart yt) yt) by (apply R_restart, R_refl).
    destruct it as [i w|i w k]; cbn [item_input] in Hrec; destruct i; try discriminate;
      destruct (run_step tc decode t terminal mr InRecover w) as [[o w'] es] eqn:Hs;
      unfold run_step in Hs;
      (apply (step_grule (yrestart yt) mr InRecover (lp_end lp0 (hs_trace h))) in Hs;
        [|exact HIr|exact Logic.I|intros _; symmetry; exact Hlp]);
      destruct Hs as [T2 HI2].
    + split.
      * cbn [hs_trace]. apply trace_okg_app. split; [exact HT|]. fold yt. eapply trace_okg_R; eauto.
      * cbn [hs_machine hs_down hs_trace hs_conf_watch hs_csv_watch hs_timer]. right.
        exists (yend (yrestart yt) es). split; [|split].
        -- rewrite yend_app. apply R_yend. exact HRr.
        -- exact HI2.
        -- apply (L_step false false false). apply L_restart.
    + split.
      * cbn [hs_trace]. apply trace_okg_app. split; [exact HT|]. fold yt.
        apply trace_okg_firstn. eapply trace_okg_R; eauto.
      * cbn [hs_machine hs_down]. destruct (restore mr _); auto.
  - (* an ordinary entry point in the running process *)
    assert (Hup : hs_down h = false).
    { unfold input_allowed in Hal. destruct (hs_down h); [|reflexivity].
      destruct (item_input it); try discriminate. }
    destruct HM as [Hd|(y & HR & HI & HL)]; [congruence|].
    assert (Hni : item_input it <> InRecover) by (intros Hx; rewrite Hx in Hrec; discriminate).
    pose proof (input_ok_allowed h mh y (item_input it) Hmh Hup HI HL Hal Hni) as Hin.
    destruct it as [i w|i w k]; cbn [item_input] in *;
      destruct (run_step tc decode t terminal mh i w) as [[o w'] es] eqn:Hs;
      unfold run_step in Hs;
      (apply (step_grule y mh i (lp_end lp0 (hs_trace h))) in Hs;
        [|exact HI|exact Hin|intros Hx; contradiction]);
      destruct Hs as [T2 HI2].
    + split.
      * cbn [hs_trace]. apply trace_okg_app. split; [exact HT|]. eapply trace_okg_R; eauto.
      * cbn [hs_machine hs_down hs_trace hs_conf_watch hs_csv_watch hs_timer]. right.
        exists (yend y es). split; [|split].
        -- rewrite yend_app. apply R_yend. exact HR.
        -- exact HI2.
        -- apply L_step. exact HL.
    + split.
      * cbn [hs_trace]. apply trace_okg_app. split; [exact HT|].
        apply trace_okg_firstn. eapply trace_okg_R; eauto.
      * cbn [hs_machine hs_down]. destruct (restore mh _); auto.
Qed.

(* every allowed history: the whole trace satisfies P (ghost folded over the trace) *)
Theorem hist_ghost m0 y0 its :
  I y0 m0 -> L false false false y0 ->
  hist_ok tc decode t terminal (init_hstate m0) its = true ->
  trace_okg (m_data m0) y0 (hs_trace (run_hist tc decode t terminal (init_hstate m0) its)).
Proof.
  intros HI0 HL0 Hok.
  assert (Gen : forall its h, hinv (m_data m0) y0 h -> hist_ok tc decode t terminal h its = true ->
            hinv (m_data m0) y0 (fold_left (hist_step tc decode t terminal) its h)).
  { clear its Hok. induction its as [|it r IH]; intros h Hh Hok; [exact Hh|].
    cbn [fold_left]. cbn [hist_ok] in Hok.
    destruct (hs_machine h) as [mh|] eqn:Hmh.
    - apply andb_true_iff in Hok. destruct Hok as [Ha Hr]. apply IH; [|exact Hr].
      apply hist_step_ginv; [exact Hh|]. rewrite Hmh. exact Ha.
    - assert (Hstep : hist_step tc decode t terminal h it = h) by (unfold hist_step; rewrite Hmh; reflexivity).
      rewrite Hstep. apply IH; [exact Hh|].
      destruct r; cbn [hist_ok]; [reflexivity|rewrite Hmh; reflexivity]. }
  apply (Gen its (init_hstate m0)); [|exact Hok].
  split; [exact Logic.I|]. cbn. right. exists y0. split; [apply R_refl|]. split; assumption.
Qed.

End Ghost.
