(* Lemmas for C03: the claim, coop and CSV-refund transactions the node builds
   spend the validated swap output, satisfy the opening script, pay a single
   output to the wallet's address and deduct only the fee. *)
From Coq Require Import String ZArith NArith Bool List Lia ZifyBool ZifyNat ZifyN.
From PS Require Import Base.Corr Base.Wrap Base.ScriptOps Model.ScriptInterp Model.OpeningScript
  Gen.ConstsC03 Model.Tx Proofs.C02 Proofs.C02Bytes.
Import ListNotations.
Open Scope Z_scope.

(* ---------- generated constants ---------- *)
Lemma gen_c03_constants :
  gen_btc_spend_margin = 200 /\ gen_btc_witness_allowance = 74 /\ gen_btc_refund_fee_vsize = 250 /\
  gen_onchain_bitcoin_csv_c03 = 1008 /\ gen_btc_csv_sequence = 1008 /\ gen_btc_claim_sequence = 0 /\
  gen_btc_spend_version = 2 /\ gen_lbtc_fee_placeholder = 500 /\
  gen_lbtc_csv_sequence_is_params_csv = true /\ gen_lbtc_spend_version = 2 /\ gen_lbtc_claim_sequence = 0.
Proof. repeat split; reflexivity. Qed.

(* ---------- integer casts ---------- *)
Lemma i64_small x : - two63 <= x < two63 -> i64 x = x.
Proof.
  intros H. unfold i64, two64, two63 in *.
  destruct (Z_lt_le_dec x 0) as [Hn|Hp].
  - replace (x mod 18446744073709551616) with (x + 18446744073709551616).
    + destruct (Z.ltb_spec (x + 18446744073709551616) 9223372036854775808); lia.
    + symmetry. rewrite <- (Z.mod_add x 1 18446744073709551616) by lia.
      rewrite Z.mul_1_l. apply Z.mod_small. lia.
  - rewrite Z.mod_small by lia.
    destruct (Z.ltb_spec x 9223372036854775808); lia.
Qed.

Lemma u32_small x : 0 <= x < two32 -> u32 x = x.
Proof. intros H. unfold u32. apply Z.mod_small. exact H. Qed.

Lemma u64_small x : 0 <= x < two64 -> u64 x = x.
Proof. intros H. unfold u64. apply Z.mod_small. exact H. Qed.

(* ---------- output lookup ---------- *)
Lemma nth_z_cons {A} (x : A) r i : 0 < i -> nth_z (x :: r) i = nth_z r (i - 1).
Proof.
  intros H. simpl. destruct (Z.eqb_spec i 0); [lia|]. destruct (Z.ltb_spec i 0); [lia|]. reflexivity.
Qed.

Lemma find_amount_spec amt outs : forall k i o,
  find_amount amt k outs = Some (i, o) ->
  k <= i /\ nth_z outs (i - k) = Some o /\ o_value o = amt /\
  (forall j o', 0 <= j < i - k -> nth_z outs j = Some o' -> o_value o' <> amt).
Proof.
  induction outs as [|x r IH]; intros k i o H; simpl in H; [discriminate|].
  destruct (Z.eqb_spec (o_value x) amt) as [E|E].
  - inversion H; subst. replace (i - i) with 0 by lia. simpl. repeat split; try lia; auto.
  - apply IH in H as (Hk & Hn & Hv & Hf). repeat split; try lia.
    + rewrite nth_z_cons by lia. replace (i - k - 1) with (i - (k + 1)) by lia. exact Hn.
    + intros j o' Hj Hj'. destruct (Z.eq_dec j 0) as [->|Hne].
      * simpl in Hj'. inversion Hj'; subst. exact E.
      * rewrite nth_z_cons in Hj' by lia. apply (Hf (j - 1) o'); [lia|exact Hj'].
Qed.

(* what "the validator accepts the opening transaction" gives: the validated
   output is the FIRST output carrying the swap amount, its script is the P2WSH
   script, and GetVoutAndVerify returns its index with ok = true *)
Lemma find_swap_out_of_amount amt want outs : forall k i o,
  find_amount amt k outs = Some (i, o) -> o_script o = want ->
  find_swap_out amt want k outs = Some (i, o).
Proof.
  induction outs as [|x r IH]; intros k i o H Hs; simpl in *; [discriminate|].
  destruct (Z.eqb_spec (o_value x) amt) as [E|E].
  - inversion H; subst. cbn [andb]. replace (bytes_eqb (o_script o) (o_script o)) with true; [reflexivity|].
    symmetry. apply bytes_eqb_eq. reflexivity.
  - cbn [andb]. apply IH; assumption.
Qed.

Lemma btc_validate_inv p want outs :
  btc_validate p want outs = true ->
  exists i o redeem,
    btc_get_vout p want outs = ROk (true, i) /\
    btc_validated_index p want outs = Some i /\
    nth_z outs i = Some o /\ o_value o = i64 (sp_amount p) /\ o_script o = want /\
    redeem_script p gen_onchain_bitcoin_csv_c03 = Some redeem /\
    0 <= i /\
    (forall j o', 0 <= j < i -> nth_z outs j = Some o' -> o_value o' <> i64 (sp_amount p)).
Proof.
  unfold btc_validate, btc_validated_index, btc_get_vout. intros H.
  destruct (find_amount (i64 (sp_amount p)) 0 outs) as [[i o]|] eqn:Ef; [|discriminate].
  destruct (redeem_script p gen_onchain_bitcoin_csv_c03) as [redeem|] eqn:Er; [|discriminate].
  apply bytes_eqb_eq in H. symmetry in H.
  rewrite (find_swap_out_of_amount _ _ _ _ _ _ Ef H).
  apply find_amount_spec in Ef as (Hk & Hn & Hv & Hf). rewrite Z.sub_0_r in *.
  exists i, o, redeem. repeat split; auto; try lia.
Qed.

(* ---------- the output script the builder makes for a segwit-v0 address ---------- *)
Lemma push_bytes_mid (d : bytes) : (2 <= length d <= 75)%nat ->
  push_bytes d = N.of_nat (length d) :: d.
Proof.
  intros H. unfold push_bytes. destruct d as [|a [|b r]]; simpl in H; try lia.
  cbn [small_int_data]. unfold len.
  destruct (N.ltb_spec (N.of_nat (length (a :: b :: r))) 76) as [_|Hc]; [reflexivity|].
  simpl length in *. lia.
Qed.

Lemma witness_v0_script_ok prog : (2 <= length prog <= 75)%nat ->
  witness_v0_script prog = mk_sb (0%N :: N.of_nat (length prog) :: prog) false.
Proof.
  intros H. unfold witness_v0_script, sb_new.
  rewrite add_data_ok by (unfold len; simpl; lia).
  rewrite add_data_ok by (unfold len; simpl; lia).
  rewrite (push_bytes_mid prog) by exact H. reflexivity.
Qed.

(* ---------- BIP 68 ---------- *)
Lemma bip68_csv_refund : bip68_blocks 2 1008 = Some 1008.
Proof. reflexivity. Qed.
Lemma bip68_claim : bip68_blocks 2 0 = Some 0.
Proof. reflexivity. Qed.

Lemma includable_iff txver sq conf h l :
  bip68_blocks txver sq = Some l -> (includable txver sq conf h = true <-> conf + l <= h).
Proof. intros H. unfold includable. rewrite H. apply Z.leb_le. Qed.

(* whoever spends through the maker-alone path commits to at least csv blocks *)
Lemma csv_ok_bip68 csv sq txver : csv_ok csv sq txver ->
  exists l, bip68_blocks txver sq = Some l /\ csv <= l.
Proof.
  intros (Hv & H31 & H22 & Hc). unfold bip68_blocks.
  destruct (Z.ltb_spec (txver mod 4294967296) 2); [lia|].
  rewrite H31, H22. eexists; split; [reflexivity|exact Hc].
Qed.

Lemma csv_ok_not_before csv sq txver conf h : csv_ok csv sq txver ->
  includable txver sq conf h = true -> conf + csv <= h.
Proof.
  intros H Hi. destruct (csv_ok_bip68 _ _ _ H) as (l & Hl & Hle).
  apply (includable_iff _ _ conf h _ Hl) in Hi. lia.
Qed.

(* ---------- witnesses over abstract signatures ---------- *)
Section Spend.
  Variable checksig : bytes -> bytes -> sigres.
  Variable sha256 : bytes -> bytes.
  Variable fl : flags.
  (* the DER bytes the i-th Signer call returned *)
  Variable sigbytes : nat -> bytes.

  Definition concrete (it : witem) : bytes :=
    match it with
    | WSigCall i ht => sigbytes i ++ [ht]
    | WData b => b
    end.

  (* ECDSA correctness + BIP 143: a signature a Signer made over the digest that
     consensus verification computes verifies under that signer's public key *)
  Definition sigs_verify (key : N -> bytes) (calls : list sigcall) : Prop :=
    forall i c, nth_error calls i = Some c -> sc_consensus c = true ->
      checksig (key (sc_who c)) (sigbytes i ++ [1%N]) = SigOk.

  Definition sig_sizes_ok : Prop := forall i, (length (sigbytes i) < 520)%nat.

  Lemma sig_result_nonempty pk i ht : sig_result checksig pk (sigbytes i ++ [ht]) = checksig pk (sigbytes i ++ [ht]).
  Proof. unfold sig_result. destruct (sigbytes i ++ [ht]) eqn:E; [|reflexivity]. destruct (sigbytes i); discriminate. Qed.

  Lemma sig_item_size i ht : sig_sizes_ok -> (length (sigbytes i ++ [ht]) <= 520)%nat.
  Proof. intros H. rewrite app_length. simpl. specialize (H i). lia. Qed.

  (* the three witnesses the builders make are the three shapes of C02 *)
  Lemma preimage_witness_allowed taker maker h csv pre sq txver :
    sig_sizes_ok -> length pre = 32%nat -> sha256 pre = h ->
    checksig taker (sigbytes 0 ++ [1%N]) = SigOk ->
    allowed_spend checksig sha256 taker maker h csv
      (map concrete [WSigCall 0 1; WData pre; WData []; WData []]) sq txver.
  Proof.
    intros Hs Hl Hh Hc. split.
    - unfold item_sizes_ok. cbn [map concrete].
      repeat (apply Forall_cons; [first [apply sig_item_size; exact Hs | simpl; lia]|]). apply Forall_nil.
    - left. exists (sigbytes 0 ++ [1%N]), pre, [], []. cbn [map concrete].
      rewrite sig_result_nonempty. repeat split; auto.
  Qed.

  Lemma coop_witness_allowed taker maker h csv sq txver :
    sig_sizes_ok ->
    checksig taker (sigbytes 0 ++ [1%N]) = SigOk -> checksig maker (sigbytes 1 ++ [1%N]) = SigOk ->
    allowed_spend checksig sha256 taker maker h csv
      (map concrete [WSigCall 0 1; WSigCall 1 1; WData []]) sq txver.
  Proof.
    intros Hs Ht Hm. split.
    - unfold item_sizes_ok. cbn [map concrete].
      repeat (apply Forall_cons; [first [apply sig_item_size; exact Hs | simpl; lia]|]). apply Forall_nil.
    - right; left. exists (sigbytes 0 ++ [1%N]), (sigbytes 1 ++ [1%N]), []. cbn [map concrete].
      rewrite !sig_result_nonempty. repeat split; auto.
  Qed.

  Lemma csv_witness_allowed taker maker h csv sq txver :
    sig_sizes_ok -> checksig maker (sigbytes 0 ++ [1%N]) = SigOk -> csv_ok csv sq txver ->
    allowed_spend checksig sha256 taker maker h csv (map concrete [WSigCall 0 1]) sq txver.
  Proof.
    intros Hs Hm Hc. split.
    - unfold item_sizes_ok. cbn [map concrete].
      repeat (apply Forall_cons; [first [apply sig_item_size; exact Hs | simpl; lia]|]). apply Forall_nil.
    - right; right. exists (sigbytes 0 ++ [1%N]). cbn [map concrete].
      rewrite sig_result_nonempty. repeat split; auto; apply Hc.
  Qed.
End Spend.

Lemma csv_ok_1008 : csv_ok 1008 1008 2.
Proof. unfold csv_ok. repeat split; try reflexivity; vm_compute; discriminate. Qed.
Lemma csv_ok_10080 : csv_ok 10080 10080 2.
Proof. unfold csv_ok. repeat split; try reflexivity; vm_compute; discriminate. Qed.
Lemma csv_ok_60 : csv_ok 60 60 2.
Proof. unfold csv_ok. repeat split; try reflexivity; vm_compute; discriminate. Qed.

(* ---------- roles ---------- *)
Definition signers_right (kind claim_who taker_who : N) : Prop :=
  match kind with
  | 0%N => claim_who = 0%N
  | 1%N => claim_who = 1%N
  | _ => claim_who = 1%N /\ taker_who = 0%N
  end.

Definition seq_of_kind (kind : N) (csv : Z) : Z := match kind with 1%N => csv | _ => 0 end.

(* witness shape per kind (below the witness script) *)
Definition items_of_kind (kind : N) (pre : bytes) : list witem :=
  match kind with
  | 0%N => [WSigCall 0 1; WData pre; WData []; WData []]
  | 1%N => [WSigCall 0 1]
  | _ => [WSigCall 0 1; WSigCall 1 1; WData []]
  end.

Definition key_of (taker maker : bytes) (who : N) : bytes :=
  match who with 0%N => taker | 1%N => maker | _ => [] end.

(* the script is satisfied by the witness of each kind, for csv one of the node's values *)
Lemma items_satisfy checksig sha256 fl sigbytes kind csv taker maker h pre calls claim_who taker_who :
  csv = 1008 \/ csv = 10080 \/ csv = 60 ->
  (length taker <= 520)%nat -> (length maker <= 520)%nat -> (length h <= 520)%nat ->
  sig_sizes_ok sigbytes ->
  signers_right kind claim_who taker_who ->
  (kind = 0%N -> length pre = 32%nat /\ sha256 pre = pushed h) ->
  calls = match kind with
          | 0%N | 1%N => [mk_call claim_who true true]
          | _ => [mk_call taker_who true true; mk_call claim_who true true]
          end ->
  sigs_verify checksig sigbytes (key_of (pushed taker) (pushed maker)) calls ->
  forall ops, disassemble (sb_script (get_opening_tx_script taker maker h csv)) = Some ops ->
  eval_witness checksig sha256 fl 2 (seq_of_kind kind csv) ops
    (map (concrete sigbytes) (items_of_kind kind pre)) = true.
Proof.
  intros Hcsv Lt Lm Lh Hs Hr Hp Hcalls Hv ops Hd.
  destruct (bytes_iff csv Hcsv taker maker h Lt Lm Lh) as (ops' & _ & Hd' & Hiff).
  rewrite Hd in Hd'. inversion Hd'; subst ops'. apply Hiff.
  destruct kind as [|[k|k|]]; cbn [signers_right items_of_kind seq_of_kind] in *.
  - (* preimage *)
    destruct (Hp eq_refl) as [Hl Hh]. subst claim_who.
    apply preimage_witness_allowed; auto.
    apply (Hv 0%nat (mk_call 0 true true)); [rewrite Hcalls; reflexivity|reflexivity].
  - destruct Hr as [-> ->].
    apply coop_witness_allowed; auto.
    + apply (Hv 0%nat (mk_call 0 true true)); [rewrite Hcalls; reflexivity|reflexivity].
    + apply (Hv 1%nat (mk_call 1 true true)); [rewrite Hcalls; reflexivity|reflexivity].
  - destruct Hr as [-> ->].
    apply coop_witness_allowed; auto.
    + apply (Hv 0%nat (mk_call 0 true true)); [rewrite Hcalls; reflexivity|reflexivity].
    + apply (Hv 1%nat (mk_call 1 true true)); [rewrite Hcalls; reflexivity|reflexivity].
  - subst claim_who.
    apply csv_witness_allowed; auto.
    + apply (Hv 0%nat (mk_call 1 true true)); [rewrite Hcalls; reflexivity|reflexivity].
    + destruct Hcsv as [ -> | [ -> | -> ] ]; [apply csv_ok_1008|apply csv_ok_10080|apply csv_ok_60].
Qed.

Lemma value_no_wrap a f : 0 <= a < two63 -> 0 <= f -> f + 200 <= a ->
  i64 (i64 (a - 200) - i64 f) = a - 200 - f.
Proof.
  intros Ha Hf Hl. unfold two63 in *.
  rewrite (i64_small (a - 200)) by (unfold two63; lia).
  rewrite (i64_small f) by (unfold two63; lia).
  apply i64_small. unfold two63; lia.
Qed.

(* ---------- Bitcoin: what the wallet adapters build ---------- *)
Definition btc_fee (getfee : Z -> Z) (kind : N) (prog : bytes) : Z :=
  let by_size := getfee (stripped_size (0%N :: N.of_nat (length prog) :: prog) + gen_btc_witness_allowance) in
  match kind with
  | 0%N | 1%N => by_size
  | _ => let rf := getfee gen_btc_refund_fee_vsize in if rf =? 0 then by_size else rf
  end.

Definition calls_of_kind (kind claim_who taker_who : N) : list sigcall :=
  match kind with
  | 0%N | 1%N => [mk_call claim_who true true]
  | _ => [mk_call taker_who true true; mk_call claim_who true true]
  end.

Definition ret_addr_of (backend kind : N) : bool :=
  match kind with 0%N => true | _ => N.eqb backend 1 end.

Lemma redeem_script_decoded p csv taker maker h :
  hex_decode (sp_taker p) = Some taker -> hex_decode (sp_maker p) = Some maker ->
  hex_decode (sp_hash p) = Some h ->
  (length taker <= 520)%nat -> (length maker <= 520)%nat -> (length h <= 520)%nat ->
  0 <= csv < 4294967296 ->
  redeem_script p csv = Some (sb_script (get_opening_tx_script taker maker h csv)) /\
  disassemble (sb_script (get_opening_tx_script taker maker h csv)) =
    Some (opening_ops (pushed taker) (pushed maker) (pushed h) (int_push csv)).
Proof.
  intros Ht Hm Hh Lt Lm Lh Hc. unfold redeem_script, params_to_tx_script. rewrite Ht, Hm, Hh.
  destruct (script_bytes_parse taker maker h csv Lt Lm Lh Hc) as [He Hd]. rewrite He. split; [reflexivity|exact Hd].
Qed.

Lemma btc_spend_shape (getfee : Z -> Z) backend kind p want txid outs preimage prog claim_who taker_who pre :
  0 <= sp_amount p < two63 ->
  btc_validate p want outs = true ->
  (length prog = 20 \/ length prog = 32)%nat ->
  (kind = 0%N -> parse_preimage preimage = Some pre) ->
  0 <= btc_fee getfee kind prog ->
  btc_fee getfee kind prog + gen_btc_spend_margin <= sp_amount p ->
  exists vi redeem,
    btc_validated_index p want outs = Some vi /\
    nth_z outs vi = Some (mk_out (sp_amount p) want) /\
    (forall j o', 0 <= j < vi -> nth_z outs j = Some o' -> o_value o' <> sp_amount p) /\
    redeem_script p 1008 = Some redeem /\
    btc_spend backend kind p want (Some (txid, outs)) preimage (mk_bw getfee (Some prog) false claim_who taker_who)
    = mk_so 0 [mk_tx 2 [mk_in txid vi (seq_of_kind kind 1008) (items_of_kind kind pre ++ [WData redeem])]
                       [mk_out (sp_amount p - gen_btc_spend_margin - btc_fee getfee kind prog)
                               (0%N :: N.of_nat (length prog) :: prog)] 0]
            (calls_of_kind kind claim_who taker_who) (ret_addr_of backend kind).
Proof.
  intros Ha Hval Hlen Hpre Hf0 Hf1.
  destruct (btc_validate_inv _ _ _ Hval) as (i & o & redeem & Hgv & Hvi & Hn & Hov & Hos & Hr & Hi0 & Hfirst).
  rewrite i64_small in Hov by (unfold two63 in *; lia).
  rewrite i64_small in Hfirst by (unfold two63 in *; lia).
  change gen_onchain_bitcoin_csv_c03 with 1008 in *.
  exists i, redeem. split; [exact Hvi|]. split; [destruct o; simpl in *; subst; exact Hn|].
  split; [exact Hfirst|]. split; [exact Hr|].
  assert (Hw : witness_v0_script prog = mk_sb (0%N :: N.of_nat (length prog) :: prog) false)
    by (apply witness_v0_script_ok; lia).
  assert (Hprep : forall csv pf,
    btc_prepare getfee p (Some (txid, outs)) prog i csv pf =
    ROk (mk_tx 2 [mk_in txid i (u32 csv) []]
           [mk_out (i64 (i64 (sp_amount p - gen_btc_spend_margin) -
                         i64 (if pf =? 0 then getfee (stripped_size (0%N :: N.of_nat (length prog) :: prog) + gen_btc_witness_allowance) else pf)))
                   (0%N :: N.of_nat (length prog) :: prog)] 0, redeem, sp_amount p)).
  { intros csv pf. unfold btc_prepare. rewrite Hw. cbn [sb_err sb_script]. rewrite Hn.
    change gen_onchain_bitcoin_csv_c03 with 1008. rewrite Hr, Hov.
    rewrite (i64_small (sp_amount p)) by (unfold two63 in *; lia). reflexivity. }
  assert (Hcons : match nth_z outs i with Some o0 => o_value o0 =? sp_amount p | None => false end = true)
    by (rewrite Hn, Hov; apply Z.eqb_refl).
  unfold gen_btc_spend_margin in *.
  destruct kind as [|[k|k|]]; unfold btc_spend; cbn [bw_addr bw_getfee bw_bcast_fail bw_claim_who bw_taker_who];
    rewrite Hgv; cbn [rbind snd]; rewrite Hprep; rewrite Hcons;
    cbn [btc_fee seq_of_kind items_of_kind calls_of_kind ret_addr_of] in *.
  - rewrite (Hpre eq_refl). cbn [set_witness t_ins t_version t_outs t_lock i_txid i_vout i_seq preimage_witness app].
    cbn [Z.eqb]. rewrite value_no_wrap by assumption. reflexivity.
  - cbn [set_witness t_ins t_version t_outs t_lock i_txid i_vout i_seq coop_witness app].
    rewrite value_no_wrap by assumption. reflexivity.
  - cbn [set_witness t_ins t_version t_outs t_lock i_txid i_vout i_seq coop_witness app].
    rewrite value_no_wrap by assumption. reflexivity.
  - cbn [set_witness t_ins t_version t_outs t_lock i_txid i_vout i_seq csv_witness app].
    cbn [Z.eqb]. rewrite value_no_wrap by assumption. reflexivity.
Qed.

Lemma calls_of_kind_ok kind claim_who taker_who :
  Forall (fun c => sc_swap_amount c = true /\ sc_consensus c = true) (calls_of_kind kind claim_who taker_who).
Proof. destruct kind as [|[k|k|]]; cbn [calls_of_kind]; repeat constructor. Qed.

Lemma bip68_of_kind kind csv : csv = 1008 \/ csv = 10080 \/ csv = 60 ->
  bip68_blocks 2 (seq_of_kind kind csv) = Some (match kind with 1%N => csv | _ => 0 end).
Proof. intros [ -> | [ -> | -> ] ]; destruct kind as [|[k|k|]]; reflexivity. Qed.

Theorem btc_spend_correct :
  forall checksig sha256 fl sigbytes (getfee : Z -> Z) backend kind p want txid outs preimage prog
         claim_who taker_who taker maker h pre,
  hex_decode (sp_taker p) = Some taker -> hex_decode (sp_maker p) = Some maker ->
  hex_decode (sp_hash p) = Some h ->
  (length taker <= 520)%nat -> (length maker <= 520)%nat -> (length h <= 520)%nat ->
  0 <= sp_amount p < two63 ->
  btc_validate p want outs = true ->
  (length prog = 20 \/ length prog = 32)%nat ->
  signers_right kind claim_who taker_who ->
  (kind = 0%N -> parse_preimage preimage = Some pre /\ length pre = 32%nat /\ sha256 pre = pushed h) ->
  0 <= btc_fee getfee kind prog -> btc_fee getfee kind prog + 200 <= sp_amount p ->
  sig_sizes_ok sigbytes ->
  exists vi redeem ops t calls,
    btc_spend backend kind p want (Some (txid, outs)) preimage (mk_bw getfee (Some prog) false claim_who taker_who)
      = mk_so 0 [t] calls (ret_addr_of backend kind) /\
    btc_validated_index p want outs = Some vi /\
    nth_z outs vi = Some (mk_out (sp_amount p) want) /\
    (forall j o', 0 <= j < vi -> nth_z outs j = Some o' -> o_value o' <> sp_amount p) /\
    t_version t = 2 /\ t_lock t = 0 /\
    t_ins t = [mk_in txid vi (seq_of_kind kind 1008) (items_of_kind kind pre ++ [WData redeem])] /\
    redeem_script p 1008 = Some redeem /\ disassemble redeem = Some ops /\
    Forall (fun c => sc_swap_amount c = true /\ sc_consensus c = true) calls /\
    (sigs_verify checksig sigbytes (key_of (pushed taker) (pushed maker)) calls ->
       eval_witness checksig sha256 fl 2 (seq_of_kind kind 1008) ops
         (map (concrete sigbytes) (items_of_kind kind pre)) = true) /\
    t_outs t = [mk_out (sp_amount p - (btc_fee getfee kind prog + 200)) (0%N :: N.of_nat (length prog) :: prog)] /\
    bip68_blocks 2 (seq_of_kind kind 1008) = Some (match kind with 1%N => 1008 | _ => 0 end).
Proof.
  intros checksig sha256 fl sigbytes getfee backend kind p want txid outs preimage prog claim_who taker_who
    taker maker h pre Ht Hm Hh Lt Lm Lh Ha Hval Hlen Hr Hpre Hf0 Hf1 Hs.
  destruct (btc_spend_shape getfee backend kind p want txid outs preimage prog claim_who taker_who pre
              Ha Hval Hlen (fun e => proj1 (Hpre e)) Hf0 Hf1) as (vi & redeem & Hvi & Hn & Hfirst & Hrs & Hsp).
  destruct (redeem_script_decoded p 1008 taker maker h Ht Hm Hh Lt Lm Lh ltac:(lia)) as [Hrs' Hd].
  rewrite Hrs in Hrs'. inversion Hrs'; subst redeem.
  eexists vi, _, _, _, _. split; [exact Hsp|].
  cbn [t_version t_lock t_ins t_outs].
  repeat (split; [first [assumption | reflexivity | exact Hd | apply calls_of_kind_ok]|]).
  split; [|split].
  - intros Hv.
    apply (items_satisfy checksig sha256 fl sigbytes kind 1008 taker maker h pre
             (calls_of_kind kind claim_who taker_who) claim_who taker_who); auto.
    all: try (intros e; split; apply (Hpre e)).
    all: try (destruct kind as [|[k|k|]]; reflexivity).
  - f_equal. f_equal. unfold gen_btc_spend_margin. lia.
  - apply bip68_of_kind. auto.
Qed.

(* ---------- Liquid ---------- *)
Lemma lbtc_find_vout_spec want outs : forall k i o,
  lbtc_find_vout want k outs = Some (i, o) ->
  k <= i /\ nth_z outs (i - k) = Some o /\ lo_script o = want /\
  (forall j o', 0 <= j < i - k -> nth_z outs j = Some o' -> lo_script o' <> want).
Proof.
  induction outs as [|x r IH]; intros k i o H; simpl in H; [discriminate|].
  destruct (bytes_eqb (lo_script x) want) eqn:E.
  - apply bytes_eqb_eq in E. inversion H; subst. replace (i - i) with 0 by lia. simpl.
    repeat split; try lia; auto.
  - apply IH in H as (Hk & Hn & Hv & Hf). repeat split; try lia; auto.
    + rewrite nth_z_cons by lia. replace (i - k - 1) with (i - (k + 1)) by lia. exact Hn.
    + intros j o' Hj Hj'. destruct (Z.eq_dec j 0) as [->|Hne].
      * simpl in Hj'. inversion Hj'; subst. intros Hc. apply bytes_eqb_eq in Hc. congruence.
      * rewrite nth_z_cons in Hj' by lia. apply (Hf (j - 1) o'); [lia|exact Hj'].
Qed.

Lemma lbtc_validate_output_value o amount v :
  lbtc_validate_output o amount = Some v ->
  v = amount /\ exists u, lo_unblind o = Some u /\ ub_value u = amount /\ ub_asset_policy u = true /\
    (if lo_conf o then ub_commit_ok u else lo_explicit_policy o) = true.
Proof.
  unfold lbtc_validate_output. destruct (lo_unblind o) as [u|]; [|discriminate].
  destruct (ub_asset_policy u) eqn:Ea; [|discriminate]. cbn [negb].
  destruct (if lo_conf o then ub_commit_ok u else lo_explicit_policy o) eqn:Ec; [|discriminate]. cbn [negb].
  destruct (Z.eqb_spec (ub_value u) amount) as [E|E]; [|discriminate]. cbn [negb].
  intros H; inversion H; subst. split; [reflexivity|]. exists u. repeat split; auto.
Qed.

Lemma lbtc_validate_inv p csv want outs :
  lbtc_validate p csv want outs = true ->
  exists vi o redeem,
    redeem_script p csv = Some redeem /\
    lbtc_find_vout want 0 outs = Some (vi, o) /\
    lbtc_validate_output o (sp_amount p) = Some (sp_amount p) /\
    lbtc_validated_index p csv want outs = Some vi /\
    nth_z outs vi = Some o /\ lo_script o = want /\ 0 <= vi /\
    (forall j o', 0 <= j < vi -> nth_z outs j = Some o' -> lo_script o' <> want).
Proof.
  intros H. unfold lbtc_validated_index. rewrite H. unfold lbtc_validate in H.
  destruct (redeem_script p csv) as [redeem|]; [|discriminate].
  destruct (lbtc_find_vout want 0 outs) as [[vi o]|] eqn:Ef; [|discriminate].
  destruct (lbtc_validate_output o (sp_amount p)) as [v|] eqn:Ev; [|discriminate].
  destruct (lbtc_validate_output_value _ _ _ Ev) as [-> _].
  apply lbtc_find_vout_spec in Ef as Hs. destruct Hs as (Hk & Hn & Hsc & Hf). rewrite Z.sub_0_r in *.
  exists vi, o, redeem. repeat split; auto; try lia.
Qed.

Definition lbtc_fee_of (fee : option Z) : Z := match fee with Some f => f | None => gen_lbtc_fee_placeholder end.

Lemma lbtc_spend_shape kind p csv want txid outs preimage ascript feeopt claim_who taker_who pre :
  csv = 10080 \/ csv = 60 ->
  0 <= sp_amount p < two63 ->
  lbtc_validate p csv want outs = true ->
  (kind = 0%N -> parse_preimage preimage = Some pre) ->
  0 < lbtc_fee_of feeopt < sp_amount p ->
  exists vi redeem,
    lbtc_validated_index p csv want outs = Some vi /\
    (exists o, nth_z outs vi = Some o /\ lo_script o = want /\ lbtc_validate_output o (sp_amount p) = Some (sp_amount p)) /\
    (forall j o', 0 <= j < vi -> nth_z outs j = Some o' -> lo_script o' <> want) /\
    redeem_script p csv = Some redeem /\
    lbtc_spend kind p csv want txid outs preimage (mk_lw (Some (ascript, true)) feeopt false claim_who taker_who)
    = mk_ls 0 [mk_ltxm 2 [mk_in txid vi (seq_of_kind kind csv) (items_of_kind kind pre ++ [WData redeem])]
                         [LReceiver ascript (sp_amount p - lbtc_fee_of feeopt); LFee (lbtc_fee_of feeopt)] 0]
            (calls_of_kind kind claim_who taker_who) true.
Proof.
  intros Hcsv Ha Hval Hpre Hfee.
  destruct (lbtc_validate_inv _ _ _ _ Hval) as (vi & o & redeem & Hr & Hfv & Hvo & Hvi & Hn & Hsc & Hv0 & Hfirst).
  exists vi, redeem. split; [exact Hvi|]. split; [exists o; auto|]. split; [exact Hfirst|]. split; [exact Hr|].
  assert (Hcs : forall sq, 0 <= sq < two32 ->
    lbtc_create_spending want txid outs (sp_amount p) sq (ascript, true) (lbtc_fee_of feeopt) =
    ROk (mk_ltxm 2 [mk_in txid vi sq []]
           [LReceiver ascript (sp_amount p - lbtc_fee_of feeopt); LFee (lbtc_fee_of feeopt)] 0, true)).
  { intros sq Hsq. unfold lbtc_create_spending.
    destruct (Z.eqb_spec (lbtc_fee_of feeopt) 0); [lia|].
    rewrite Hfv, Hvo. cbn [snd fst negb].
    rewrite u64_small by (unfold two64, two63 in *; lia).
    destruct (Z.leb_spec two63 (sp_amount p - lbtc_fee_of feeopt)); [unfold two63 in *; lia|].
    destruct (Z.eqb_spec (sp_amount p - lbtc_fee_of feeopt) 0); [lia|]. cbn [andb].
    rewrite u32_small by exact Hsq. reflexivity. }
  assert (Hsq : forall k, 0 <= seq_of_kind k csv < two32)
    by (intros k; destruct Hcsv as [ -> | -> ]; destruct k as [|[?|?|]]; cbn; unfold two32; lia).
  unfold lbtc_spend. cbn [lw_addr lw_fee lw_bcast_fail lw_claim_who lw_taker_who]. rewrite Hr.
  fold (lbtc_fee_of feeopt).
  destruct kind as [|[k|k|]].
  - rewrite (Hcs 0) by (unfold two32; lia). rewrite (Hpre eq_refl). reflexivity.
  - rewrite (Hcs 0) by (unfold two32; lia). reflexivity.
  - rewrite (Hcs 0) by (unfold two32; lia). reflexivity.
  - rewrite (Hcs csv) by (apply (Hsq 1%N)). reflexivity.
Qed.

Theorem lbtc_spend_correct :
  forall checksig sha256 fl sigbytes kind p csv want txid outs preimage ascript feeopt
         claim_who taker_who taker maker h pre,
  csv = 10080 \/ csv = 60 ->
  hex_decode (sp_taker p) = Some taker -> hex_decode (sp_maker p) = Some maker ->
  hex_decode (sp_hash p) = Some h ->
  (length taker <= 520)%nat -> (length maker <= 520)%nat -> (length h <= 520)%nat ->
  0 <= sp_amount p < two63 ->
  lbtc_validate p csv want outs = true ->
  signers_right kind claim_who taker_who ->
  (kind = 0%N -> parse_preimage preimage = Some pre /\ length pre = 32%nat /\ sha256 pre = pushed h) ->
  0 < lbtc_fee_of feeopt < sp_amount p ->
  sig_sizes_ok sigbytes ->
  exists vi redeem ops t calls,
    lbtc_spend kind p csv want txid outs preimage (mk_lw (Some (ascript, true)) feeopt false claim_who taker_who)
      = mk_ls 0 [t] calls true /\
    lbtc_validated_index p csv want outs = Some vi /\
    (exists o, nth_z outs vi = Some o /\ lo_script o = want /\
               lbtc_validate_output o (sp_amount p) = Some (sp_amount p)) /\
    (forall j o', 0 <= j < vi -> nth_z outs j = Some o' -> lo_script o' <> want) /\
    lm_version t = 2 /\ lm_lock t = 0 /\
    lm_ins t = [mk_in txid vi (seq_of_kind kind csv) (items_of_kind kind pre ++ [WData redeem])] /\
    redeem_script p csv = Some redeem /\ disassemble redeem = Some ops /\
    Forall (fun c => sc_swap_amount c = true /\ sc_consensus c = true) calls /\
    (sigs_verify checksig sigbytes (key_of (pushed taker) (pushed maker)) calls ->
       eval_witness checksig sha256 fl 2 (seq_of_kind kind csv) ops
         (map (concrete sigbytes) (items_of_kind kind pre)) = true) /\
    lm_outs t = [LReceiver ascript (sp_amount p - lbtc_fee_of feeopt); LFee (lbtc_fee_of feeopt)] /\
    bip68_blocks 2 (seq_of_kind kind csv) = Some (match kind with 1%N => csv | _ => 0 end).
Proof.
  intros checksig sha256 fl sigbytes kind p csv want txid outs preimage ascript feeopt claim_who taker_who
    taker maker h pre Hcsv Ht Hm Hh Lt Lm Lh Ha Hval Hr Hpre Hfee Hs.
  destruct (lbtc_spend_shape kind p csv want txid outs preimage ascript feeopt claim_who taker_who pre
              Hcsv Ha Hval (fun e => proj1 (Hpre e)) Hfee) as (vi & redeem & Hvi & Hn & Hfirst & Hrs & Hsp).
  assert (Hc32 : 0 <= csv < 4294967296) by (destruct Hcsv as [ -> | -> ]; lia).
  destruct (redeem_script_decoded p csv taker maker h Ht Hm Hh Lt Lm Lh Hc32) as [Hrs' Hd].
  rewrite Hrs in Hrs'. inversion Hrs'; subst redeem.
  eexists vi, _, _, _, _. split; [exact Hsp|].
  cbn [lm_version lm_lock lm_ins lm_outs].
  repeat (split; [first [assumption | reflexivity | exact Hd | apply calls_of_kind_ok]|]).
  split; [|split].
  - intros Hv.
    apply (items_satisfy checksig sha256 fl sigbytes kind csv taker maker h pre
             (calls_of_kind kind claim_who taker_who) claim_who taker_who); auto.
    all: try (destruct Hcsv; auto; fail).
    all: try (intros e; split; apply (Hpre e)).
    all: try (destruct kind as [|[k|k|]]; reflexivity).
  - reflexivity.
  - apply bip68_of_kind. destruct Hcsv; auto.
Qed.

(* ---------- maturity of the CSV refund ---------- *)
Lemma csv_refund_matures csv conf h : csv = 1008 \/ csv = 10080 \/ csv = 60 ->
  (includable 2 csv conf h = true <-> conf + csv <= h).
Proof.
  intros Hc. apply includable_iff. destruct Hc as [ -> | [ -> | -> ] ]; reflexivity.
Qed.

Lemma claims_immediate conf h : includable 2 0 conf h = true <-> conf <= h.
Proof.
  pose proof (includable_iff 2 0 conf h 0 eq_refl) as H. rewrite Z.add_0_r in H. exact H.
Qed.

(* nobody holding only the maker key can spend earlier, whatever transaction is built *)
Lemma maker_alone_not_before sc csv : In (sc, csv) node_scripts ->
  forall checksig sha256 fl taker maker h w sq txver conf ht,
  eval_witness checksig sha256 fl txver sq (sc taker maker h) w = true ->
  (forall s, In s w -> ~ sig_valid checksig taker s) ->
  includable txver sq conf ht = true -> conf + csv <= ht.
Proof.
  intros Hin checksig sha256 fl taker maker h w sq txver conf ht He Hno Hi.
  destruct (maker_alone_needs_csv sc csv Hin checksig sha256 fl taker maker h w sq txver He Hno) as [Hc _].
  exact (csv_ok_not_before _ _ _ _ _ Hc Hi).
Qed.

(* ---------- the complement of the fee hypothesis (Bitcoin): the value formula with its wrap-around ---------- *)
Lemma btc_prepare_value getfee p txid outs prog vout csv pf t r a :
  btc_prepare getfee p (Some (txid, outs)) prog vout csv pf = ROk (t, r, a) ->
  exists o script,
    nth_z outs vout = Some o /\
    t_outs t = [mk_out (i64 (i64 (o_value o - 200) -
                             i64 (if pf =? 0 then getfee (stripped_size script + 74) else pf))) script].
Proof.
  unfold btc_prepare. destruct (sb_err (witness_v0_script prog)); [discriminate|].
  destruct (nth_z outs vout) as [o|]; [|discriminate].
  destruct (redeem_script p gen_onchain_bitcoin_csv_c03); [|discriminate].
  intros H; inversion H; subst. exists o, (sb_script (witness_v0_script prog)). split; reflexivity.
Qed.

Lemma fee_exceeds_amount_pays_nothing v f : 0 <= v < two63 -> 0 <= f < two63 - 200 -> v < f + 200 ->
  i64 (i64 (v - 200) - i64 f) < 0.
Proof.
  intros Hv Hf Hl. unfold two63 in *.
  rewrite (i64_small (v - 200)) by (unfold two63; lia).
  rewrite (i64_small f) by (unfold two63; lia).
  rewrite i64_small by (unfold two63; lia). lia.
Qed.

(* ---------- the hypotheses of the main theorems are satisfiable ---------- *)
Definition ex_taker_hex : string := "02aaaaaaaaaaaaaaaaaaaaaaaaaaaaaaaaaaaaaaaaaaaaaaaaaaaaaaaaaaaaaaaaaa".
Definition ex_maker_hex : string := "03bbbbbbbbbbbbbbbbbbbbbbbbbbbbbbbbbbbbbbbbbbbbbbbbbbbbbbbbbbbbbbbbbb".
Definition ex_hash_hex : string := "cccccccccccccccccccccccccccccccccccccccccccccccccccccccccccccccc".
Definition ex_params : sparams := mk_sp ex_taker_hex ex_maker_hex ex_hash_hex 100000.
Definition ex_want : bytes := 0%N :: 32%N :: repeat 7%N 32.
Definition ex_outs : list txout := [mk_out 5000 [0%N; 20%N]; mk_out 100000 ex_want].

Lemma ex_btc_hypotheses :
  btc_validate ex_params ex_want ex_outs = true /\
  btc_validated_index ex_params ex_want ex_outs = Some 1 /\
  0 <= btc_fee (fun sz => sz * 2) 1 (repeat 9%N 20) /\
  btc_fee (fun sz => sz * 2) 1 (repeat 9%N 20) + 200 <= sp_amount ex_params /\
  so_result (btc_spend 1 1 ex_params ex_want (Some ("txid"%string, ex_outs)) ""
               (mk_bw (fun sz => sz * 2) (Some (repeat 9%N 20)) false 1 0)) = 0%N.
Proof. vm_compute. repeat split; congruence. Qed.

Definition ex_louts : list lout :=
  [mk_lout [0%N; 20%N] true false None; mk_lout ex_want true false (Some (mk_unb 100000 true true))].

Lemma ex_lbtc_hypotheses :
  lbtc_validate ex_params 10080 ex_want ex_louts = true /\
  lbtc_validated_index ex_params 10080 ex_want ex_louts = Some 1 /\
  ls_result (lbtc_spend 1 ex_params 10080 ex_want "txid" ex_louts ""
               (mk_lw (Some ([0%N; 20%N], true)) (Some 300) false 1 0)) = 0%N.
Proof. vm_compute. repeat split; congruence. Qed.
