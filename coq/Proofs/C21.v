(* C21 — lemmas about the wire layer model (Model/Wire.v) and the generated tables (Gen/WireC21.v). *)
From Coq Require Import String Ascii ZArith Bool Lia ZifyBool DecimalString DecimalZ DecimalPos List.
From PS Require Import Base.Strs Base.Corr Base.Json Model.Wire Gen.WireC21 Model.C21Corr.
Import ListNotations.
Open Scope Z_scope.

(* ================= type numbers ================= *)

(* the generated table is the protocol numbering: nine types 42069 + 2k, all odd *)
Lemma gen_message_types :
  message_types =
  [("swap_in_request"%string, 42069); ("swap_out_request"%string, 42071); ("swap_in_agreement"%string, 42073);
   ("swap_out_agreement"%string, 42075); ("opening_tx_broadcasted"%string, 42077); ("canceled"%string, 42079);
   ("coop_close"%string, 42081); ("poll"%string, 42083); ("request_poll"%string, 42085)]
  /\ base_message_type = 42069 /\ max_payload_len = 100 * 1024.
Proof. vm_compute. repeat split. Qed.

Lemma type_numbers_spec :
  map snd message_types = map (fun k => 42069 + 2 * Z.of_nat k) (seq 0 9) /\
  forall n t, In (n, t) message_types -> 42069 <= t <= 42085 /\ Z.odd t = true.
Proof.
  destruct gen_message_types as [-> _]. split; [reflexivity|].
  intros n t H. simpl in H.
  repeat (destruct H as [H|H]; [inversion H; subst; split; [lia | reflexivity] |]). contradiction.
Qed.

Lemma custom_type_in_table s t :
  custom_type message_types s = TOk t ->
  In t (map snd message_types) /\ parse_int16 s = Some t /\ is_peerswap_type t = true.
Proof.
  unfold custom_type. destruct (parse_int16 s) as [v|]; [|discriminate].
  destruct (existsb (Z.eqb v) (map snd message_types)) eqn:E; [|discriminate].
  intros H; inversion H; subst t.
  apply existsb_exists in E. destruct E as [x [Hin Hx]]. apply Z.eqb_eq in Hx. subst x.
  split; [exact Hin|]. split; [reflexivity|].
  apply in_map_iff in Hin. destruct Hin as [[n t'] [Ht Hin]]. simpl in Ht. subst t'.
  destruct type_numbers_spec as [_ Hs]. destruct (Hs n v Hin) as [Hr Ho].
  unfold is_peerswap_type. rewrite Ho. lia.
Qed.

(* the code's own hex rendering of every table entry parses back to that entry (finite table) *)
Lemma type_hex_roundtrip :
  forallb (fun '(n, t) =>
             type_result_eqb (custom_type message_types (hex_of_Z t)) (TOk t) &&
             existsb (fun '(t', h) => (t' =? t) && String.eqb h (hex_of_Z t)) message_type_hex)
          message_types = true.
Proof. vm_compute. reflexivity. Qed.

Lemma type_hex_roundtrip_in n t :
  In (n, t) message_types -> custom_type message_types (hex_of_Z t) = TOk t.
Proof.
  intros H. pose proof type_hex_roundtrip as F. rewrite forallb_forall in F.
  specialize (F _ H). simpl in F. apply andb_true_iff in F. destruct F as [F _].
  destruct (custom_type message_types (hex_of_Z t)); simpl in F; try discriminate.
  apply Z.eqb_eq in F. now subst.
Qed.

(* each message struct is sent with its protocol number (finite table) *)
Lemma struct_type_numbers :
  forallb (fun '(name, (t, sch)) => opt_eqb Z.eqb (protocol_type_of name) (Some t) && is_peerswap_type t && schema_ok sch)
          wire_schemas = true /\ List.length wire_schemas = 7%nat.
Proof. vm_compute. split; reflexivity. Qed.

Lemma struct_schema_in name t sch :
  struct_schema name wire_schemas = Some (t, sch) -> In (name, (t, sch)) wire_schemas.
Proof.
  generalize wire_schemas. induction l as [|[n ts] l IH]; simpl; [discriminate|].
  destruct (String.eqb_spec n name) as [->|]; intros H.
  - inversion H; subst. now left.
  - right. now apply IH.
Qed.

Lemma lookup_schema_in t sch :
  lookup_schema t wire_schemas = Some sch -> exists name, In (name, (t, sch)) wire_schemas.
Proof.
  generalize wire_schemas. induction l as [|[n [t' s']] l IH]; simpl; [discriminate|].
  destruct (Z.eqb_spec t t') as [->|]; intros H.
  - inversion H; subst. exists n. now left.
  - destruct (IH H) as [nm Hn]. exists nm. now right.
Qed.

Lemma wire_schema_facts name t sch :
  In (name, (t, sch)) wire_schemas ->
  protocol_type_of name = Some t /\ is_peerswap_type t = true /\ schema_ok sch = true.
Proof.
  intros H. destruct struct_type_numbers as [F _]. rewrite forallb_forall in F.
  specialize (F _ H). simpl in F. apply andb_true_iff in F. destruct F as [F Hs].
  apply andb_true_iff in F. destruct F as [Hp Ht]. repeat split; auto.
  destruct (protocol_type_of name) as [x|]; simpl in Hp; [|discriminate].
  apply Z.eqb_eq in Hp. now subst.
Qed.

(* ================= decimal literals ================= *)
Lemma parse_uint_dec z : 0 <= z -> parse_uint_lit (dec_of_Z z) = Some z.
Proof.
  intros H. unfold parse_uint_lit, dec_of_Z. destruct z as [|p|p]; [reflexivity| |lia].
  simpl. rewrite NilZero.usu by apply Unsigned.to_uint_nonnil.
  unfold Z.of_uint. now rewrite DecimalPos.Unsigned.of_to.
Qed.

Lemma parse_int_dec z : parse_int_lit (dec_of_Z z) = Some z.
Proof.
  unfold parse_int_lit, dec_of_Z. rewrite NilZero.isi.
  - now rewrite DecimalZ.of_to.
  - destruct z; simpl; try discriminate. intros E; inversion E. now apply Unsigned.to_uint_nonnil in H0.
  - destruct z; simpl; try discriminate. intros E; inversion E. now apply Unsigned.to_uint_nonnil in H0.
Qed.

(* ================= hex ids ================= *)
Lemma lower_hex_char c : is_lower_hex c = true -> is_hex c = true /\ lower_hex c = c.
Proof.
  destruct c as [[] [] [] [] [] [] [] []]; vm_compute; intros H; try discriminate; split; reflexivity.
Qed.

Lemma lower_hex_str h :
  str_forall is_lower_hex h = true -> str_forall is_hex h = true /\ str_map lower_hex h = h.
Proof.
  induction h as [|c h IH]; simpl; [split; reflexivity|].
  intros H. apply andb_true_iff in H. destruct H as [Hc Hh].
  destruct (lower_hex_char c Hc) as [H1 H2]. destruct (IH Hh) as [H3 H4].
  rewrite H1, H2, H3, H4. split; reflexivity.
Qed.

(* ================= one value ================= *)
Lemma dec_enc_val k cur v :
  kind_supported k = true -> well_typed_val k v = true -> dec_val k cur (enc_val v) = Some v.
Proof.
  intros Hk Hv. destruct k as [b|b| | |d]; simpl in Hk; try discriminate.
  - destruct v as [z|s|o]; try discriminate. unfold well_typed_val in Hv. unfold enc_val, dec_val.
    assert (0 <= z) by lia. rewrite parse_uint_dec by assumption.
    assert (2 ^ b <= 2 ^ 64) by (apply Z.pow_le_mono_r; lia).
    assert (z < 2 ^ b) by lia.
    replace (z <? 2 ^ 64) with true by (symmetry; apply Z.ltb_lt; lia).
    replace (z <? 2 ^ b) with true by (symmetry; apply Z.ltb_lt; lia). reflexivity.
  - destruct v as [z|s|o]; try discriminate. unfold well_typed_val in Hv. unfold enc_val, dec_val.
    rewrite parse_int_dec.
    assert (2 ^ (b - 1) <= 2 ^ 63) by (apply Z.pow_le_mono_r; lia).
    assert (- 2 ^ (b - 1) <= z < 2 ^ (b - 1)) by lia.
    replace (- 2 ^ 63 <=? z) with true by (symmetry; apply Z.leb_le; lia).
    replace (z <? 2 ^ 63) with true by (symmetry; apply Z.ltb_lt; lia).
    replace (- 2 ^ (b - 1) <=? z) with true by (symmetry; apply Z.leb_le; lia).
    replace (z <? 2 ^ (b - 1)) with true by (symmetry; apply Z.ltb_lt; lia). reflexivity.
  - destruct v as [z|s|o]; try discriminate. reflexivity.
  - destruct v as [z|s|[h|]]; try discriminate; [|reflexivity].
    unfold well_typed_val in Hv. apply andb_true_iff in Hv. destruct Hv as [Hl Hh].
    unfold enc_val, dec_val.
    destruct (lower_hex_str h Hh) as [H1 H2]. rewrite Hl, H1, H2. reflexivity.
Qed.

(* ================= members ================= *)
Lemma nodup_str_app_mid l1 x l2 :
  nodup_str (l1 ++ x :: l2) = true -> forall y, In y l1 -> String.eqb y x = false.
Proof.
  induction l1 as [|a l1 IH]; simpl; intros H y Hy; [contradiction|].
  apply andb_true_iff in H. destruct H as [Ha Hr].
  destruct Hy as [<-|Hy]; [|now apply IH].
  apply negb_true_iff in Ha.
  destruct (String.eqb a x) eqn:E; [|reflexivity].
  assert (existsb (String.eqb a) (l1 ++ x :: l2) = true) as C.
  { apply existsb_exists. exists x. split; [apply in_or_app; right; now left | exact E]. }
  congruence.
Qed.

Lemma apply_key_hit pre : forall mpre f v0 rest strest k j,
  List.length pre = List.length mpre ->
  (forall g, In g pre -> String.eqb (fold_key (f_name g)) (fold_key k) = false) ->
  String.eqb (fold_key (f_name f)) (fold_key k) = true ->
  apply_key (pre ++ f :: rest) (mpre ++ v0 :: strest) k j =
  match dec_val (f_kind f) v0 j with Some v' => Some (mpre ++ v' :: strest) | None => None end.
Proof.
  induction pre as [|g pre IH]; intros mpre f v0 rest strest k j Hl Hp Hf.
  - destruct mpre; [|discriminate]. simpl. now rewrite Hf.
  - destruct mpre as [|w mpre]; [discriminate|]. simpl.
    rewrite (Hp g) by now left.
    rewrite IH; auto.
    + destruct (dec_val (f_kind f) v0 j); reflexivity.
    + intros g' Hg'. apply Hp. now right.
Qed.

Definition fnames (sch : schema) : list string := map (fun f => fold_key (f_name f)) sch.
Definition zeros (sch : schema) : msg := map (fun f => zero_val (f_kind f)) sch.

Lemma apply_members_encode sch : forall m pre mpre,
  List.length pre = List.length mpre ->
  nodup_str (fnames (pre ++ sch)) = true ->
  forallb (fun f => kind_supported (f_kind f)) sch = true ->
  well_typed sch m = true ->
  apply_members (pre ++ sch) (mpre ++ zeros sch) (encode_fields sch m) = Some (mpre ++ m).
Proof.
  induction sch as [|f sch IH]; intros m pre mpre Hl Hn Hk Hw.
  - destruct m; [|discriminate]. reflexivity.
  - destruct m as [|v m]; [discriminate|]. simpl in Hw, Hk.
    apply andb_true_iff in Hw. destruct Hw as [Hv Hw].
    apply andb_true_iff in Hk. destruct Hk as [Hkf Hk].
    change (encode_fields (f :: sch) (v :: m)) with ((f_name f, enc_val v) :: encode_fields sch m).
    change (zeros (f :: sch)) with (zero_val (f_kind f) :: zeros sch).
    cbn [apply_members].
    rewrite apply_key_hit; auto.
    + rewrite dec_enc_val by assumption.
      assert (pre ++ f :: sch = (pre ++ [f]) ++ sch) as E1 by (rewrite <- app_assoc; reflexivity).
      assert (mpre ++ v :: zeros sch = (mpre ++ [v]) ++ zeros sch) as E2 by (rewrite <- app_assoc; reflexivity).
      rewrite E1, E2.
      rewrite IH; auto.
      * rewrite <- app_assoc. reflexivity.
      * rewrite !app_length. simpl. lia.
      * rewrite <- E1. exact Hn.
    + intros g Hg. unfold fnames in Hn. rewrite map_app in Hn. simpl in Hn.
      eapply nodup_str_app_mid; [exact Hn|]. apply in_map_iff. exists g. split; auto.
    + apply String.eqb_refl.
Qed.

Lemma roundtrip sch m :
  schema_ok sch = true -> well_typed sch m = true -> decode sch (encode sch m) = DMsg m.
Proof.
  intros Hs Hw. unfold schema_ok in Hs. apply andb_true_iff in Hs. destruct Hs as [Hk Hn].
  unfold decode, encode.
  pose proof (apply_members_encode sch m [] [] eq_refl Hn) as H. simpl in H.
  unfold zeros in H. rewrite H; auto.
  rewrite forallb_forall in Hk. apply forallb_forall. intros f Hf.
  specialize (Hk f Hf). apply andb_true_iff in Hk. tauto.
Qed.

Lemma roundtrip_generated name t sch m :
  In (name, (t, sch)) wire_schemas -> well_typed sch m = true ->
  decode sch (encode sch m) = DMsg m.
Proof.
  intros Hin Hw. apply roundtrip; auto. now destruct (wire_schema_facts _ _ _ Hin) as [_ [_ ?]].
Qed.

(* a well-typed message with its id set passes the receive guards: it is dispatched unchanged *)
Lemma well_typed_length sch : forall m, well_typed sch m = true -> List.length m = List.length sch.
Proof.
  induction sch as [|f sch IH]; intros [|v m] H; simpl in *; try discriminate; auto.
  apply andb_true_iff in H. destruct H as [_ H]. now rewrite (IH m H).
Qed.

(* ================= receive guards ================= *)
Definition well_formed_for (t : Z) (payload : option jv) (m : msg) : Prop :=
  exists sch j, lookup_schema t wire_schemas = Some sch /\ payload = Some j /\
    decode sch j = DMsg m /\ ids_present sch m = true.

Lemma dispatch_only_wellformed ty len payload t m :
  code_on_message ty len payload = ODispatch t m ->
  len <= 100 * 1024 /\ custom_type message_types ty = TOk t /\ 42069 <= t <= 42081 /\ Z.odd t = true /\
  well_formed_for t payload m.
Proof.
  unfold code_on_message, on_message.
  destruct gen_message_types as [_ [_ Hmax]]. rewrite Hmax.
  destruct (Z.ltb_spec (100 * 1024) len) as [|Hlen]; [discriminate|].
  destruct (custom_type message_types ty) as [| |t0] eqn:Et; try discriminate.
  destruct (lookup_schema t0 wire_schemas) as [sch|] eqn:El; [|discriminate].
  destruct payload as [j|]; [|discriminate].
  unfold code_guard. cbn [andb].
  destruct (decode sch j) as [| |m0] eqn:Ed; try discriminate.
  destruct (ids_present sch m0) eqn:Ei; cbn [negb]; [|discriminate].
  intros H; inversion H; subst t0 m0.
  destruct (lookup_schema_in _ _ El) as [name Hin].
  destruct (wire_schema_facts _ _ _ Hin) as [Hp [Hpt _]].
  split; [lia|]. split; [reflexivity|].
  assert (42069 <= t <= 42081 /\ Z.odd t = true) as [Hr Ho].
  { unfold protocol_type_of in Hp.
    repeat (match type of Hp with
            | (if ?c then _ else _) = _ => destruct c; [inversion Hp; subst; split; [lia|reflexivity]|]
            end). discriminate. }
  repeat split; try lia; auto.
  exists sch, j. repeat split; auto.
Qed.

Lemma never_panics ty len payload : code_on_message ty len payload <> OPanic.
Proof.
  unfold code_on_message, on_message, code_guard.
  destruct (max_payload_len <? len); [discriminate|].
  destruct (custom_type message_types ty); try discriminate.
  destruct (lookup_schema t wire_schemas); [|discriminate].
  destruct payload; [|discriminate].
  destruct (decode s j); simpl; try discriminate.
  destruct (ids_present s m); simpl; discriminate.
Qed.

Lemma junk_changes_nothing (S : Type) (handle : S -> Z -> msg -> S) st ty len payload :
  ~ (len <= 100 * 1024 /\ exists t m, custom_type message_types ty = TOk t /\ 42069 <= t <= 42081 /\
       well_formed_for t payload m) ->
  step handle st (code_on_message ty len payload) = st /\ code_on_message ty len payload <> OPanic.
Proof.
  intros Hj. split; [|apply never_panics].
  destruct (code_on_message ty len payload) as [| |t m|] eqn:E; simpl; try reflexivity.
  exfalso. apply Hj. apply dispatch_only_wellformed in E.
  destruct E as [Hl [Ht [Hr [_ Hw]]]]. split; [exact Hl|]. exists t, m. auto.
Qed.

(* the cases the property names, each implied by the general statement *)
Lemma oversize_ignored (S : Type) (handle : S -> Z -> msg -> S) st ty len payload :
  100 * 1024 < len -> step handle st (code_on_message ty len payload) = st.
Proof. intros H. apply junk_changes_nothing. intros [Hl _]. lia. Qed.

Lemma foreign_type_ignored (S : Type) (handle : S -> Z -> msg -> S) st ty len payload :
  (forall t, custom_type message_types ty = TOk t -> ~ (42069 <= t <= 42081)) ->
  step handle st (code_on_message ty len payload) = st.
Proof.
  intros H. apply junk_changes_nothing. intros [_ [t [m [Ht [Hr _]]]]]. exact (H t Ht Hr).
Qed.

Lemma malformed_payload_ignored (S : Type) (handle : S -> Z -> msg -> S) st ty len payload :
  (payload = None \/ payload = Some JNull \/ (exists s, payload = Some (JStr s)) \/ (exists s, payload = Some (JNum s)) \/
   (exists b, payload = Some (JBool b)) \/ (exists l, payload = Some (JArr l))) ->
  step handle st (code_on_message ty len payload) = st.
Proof.
  intros H. apply junk_changes_nothing. intros [_ [t [m [_ [_ [sch [j [_ [Hp [Hd _]]]]]]]]]].
  destruct H as [H|[H|[[s H]|[[s H]|[[b H]|[l H]]]]]]; rewrite H in Hp; inversion Hp; subst j; simpl in Hd; discriminate.
Qed.

(* non-vacuity: a real message is dispatched, junk is not *)
Definition ex_id : string := "5a5a5a5a5a5a5a5a5a5a5a5a5a5a5a5a5a5a5a5a5a5a5a5a5a5a5a5a5a5a5a5a".
Definition ex_cancel : msg := [VId (Some ex_id); VStr "no"].

Example ex_cancel_dispatched :
  code_on_message "a45f" 90 (Some (encode [mk_fspec "swap_id" KHex32Ptr false; mk_fspec "message" KString false] ex_cancel))
  = ODispatch 42079 ex_cancel.
Proof. vm_compute. reflexivity. Qed.

Example ex_null_dropped : code_on_message "a45f" 4 (Some JNull) = ODropErr.
Proof. vm_compute. reflexivity. Qed.

Example ex_no_id_dropped : code_on_message "a457" 2 (Some (JObj [])) = ODropErr.
Proof. vm_compute. reflexivity. Qed.

Example ex_oversize_dropped : code_on_message "a45f" 102401 (Some (JObj [])) = ODropErr.
Proof. vm_compute. reflexivity. Qed.

Example ex_poll_not_handled : code_on_message "a463" 2 (Some (JObj [])) = ODropNil.
Proof. vm_compute. reflexivity. Qed.

Example ex_even_type_dropped : code_on_message "a456" 2 (Some (JObj [])) = ODropNil.
Proof. vm_compute. reflexivity. Qed.

Example ex_roundtrip_extreme :
  let sch := [mk_fspec "protocol_version" (KUint 8) false; mk_fspec "swap_id" KHex32Ptr false;
              mk_fspec "amount" (KUint 64) false; mk_fspec "acceptable_premium" (KInt 64) false; mk_fspec "scid" KString false] in
  let m := [VNum 255; VId None; VNum 18446744073709551615; VNum (-9223372036854775808); VStr ""] in
  well_typed sch m = true /\ decode sch (encode sch m) = DMsg m.
Proof. vm_compute. split; reflexivity. Qed.
