(* C05, lnd back-end: what a "confirmed" verdict of the lnd watcher implies. *)
From Coq Require Import ZArith NArith Bool Lia.
From PS Require Import Model.C05LndWatch Gen.ConstsLndWatch.
Open Scope Z_scope.

(* for heights below 2^31 (block heights are far below): "confirmed" is reported only when the transaction has at least one and fewer
   than [limit] confirmations at the node's height, for any limit up to 2^32 *)
Lemma lnd_confirmed_bound limit h t :
  0 < h < 2147483648 -> 0 <= t < 2147483648 -> 0 < limit <= 2147483648 ->
  lnd_conf_verdict limit h t false = 0%N ->
  (h <= t /\ t - h + 1 < limit) \/ (t < h /\ t + 1 = h).
Proof.
  intros Hh Ht Hl. unfold lnd_conf_verdict, u32. change (2 ^ 32) with 4294967296.
  cbv beta iota.
  destruct (limit <=? (t - h + 1) mod 4294967296) eqn:E; [intros X; discriminate X|]. intros _.
  apply Z.leb_gt in E.
  destruct (Z_le_gt_dec h t) as [Hle|Hgt].
  - left. split; [assumption|]. rewrite Z.mod_small in E by lia. exact E.
  - right. split; [lia|].
    destruct (Z.eq_dec (t - h + 1) 0) as [H0|Hn]; [lia|].
    assert (Hm : (t - h + 1) mod 4294967296 = t - h + 1 + 4294967296).
    { symmetry. apply Z.mod_unique_pos with (q := -1); lia. }
    rewrite Hm in E. lia.
Qed.

(* with the generated limit (half of the Bitcoin CSV) and t >= h - 1 excluded only in the degenerate case t + 1 = h
   (zero confirmations computed): a confirmed verdict means 1 <= confirmations < limit; in particular the opening
   transaction was mined at height h >= t - (limit - 2) *)
Lemma lnd_confirmed_generated h t :
  0 < h < 2147483648 -> 0 <= t < 2147483648 -> h <= t ->
  lnd_conf_verdict gen_lndwatch_safety_limit h t false = 0%N ->
  t - h + 1 < gen_lndwatch_safety_limit.
Proof.
  intros Hh Ht Hle H.
  destruct (lnd_confirmed_bound gen_lndwatch_safety_limit h t Hh Ht) as [[_ X]|[X _]]; auto.
  - unfold gen_lndwatch_safety_limit. lia.
  - lia.
Qed.

Lemma lnd_limit_is_half_csv : gen_lndwatch_safety_limit = gen_lndwatch_bitcoin_csv / 2 /\ gen_lndwatch_safety_limit = 504.
Proof. split; reflexivity. Qed.

Example lnd_verdict_boundary :
  lnd_conf_verdict gen_lndwatch_safety_limit 800000 800502 false = 0%N /\
  lnd_conf_verdict gen_lndwatch_safety_limit 800000 800503 false = 1%N /\
  lnd_conf_verdict gen_lndwatch_safety_limit 800000 799999 false = 0%N /\
  lnd_conf_verdict gen_lndwatch_safety_limit 800000 799998 false = 1%N.
Proof. vm_compute. repeat split; reflexivity. Qed.
