(* Lemmas for C02, byte level: for ALL keys / hashes / csv values the byte-level
   builder model (GetOpeningTxScript) succeeds and its output tokenizes to the
   opcode list the theorems of Proofs/C02.v are about. *)
From Coq Require Import ZArith NArith Bool List Lia.
From PS Require Import Base.Corr Base.ScriptOps Model.ScriptInterp Model.OpeningScript Proofs.C02.
Import ListNotations.
Open Scope Z_scope.

(* what a canonical push of [d] leaves on the stack: OP_0 stands for both [] and [0] *)
Definition pushed (d : bytes) : bytes :=
  match d with
  | [b] => if N.eqb b 0 then [] else d
  | _ => d
  end.

Lemma take_n_app d rest : take_n (length d) (d ++ rest) = Some (d, rest).
Proof. induction d as [|x d IH]; simpl; [reflexivity|]. rewrite IH. reflexivity. Qed.

Lemma disasm_eq f o r :
  disasm (S f) (o :: r) =
  let data (len : N) (rest : bytes) :=
    match take_n (N.to_nat len) rest with
    | Some (d, rest') => ocons (OP_PUSH d) (disasm f rest')
    | None => None
    end in
  if N.eqb o 0 then ocons (OP_PUSH []) (disasm f r)
  else if N.leb o 75 then data o r
  else if N.eqb o 76 then match r with l0 :: r1 => data l0 r1 | _ => None end
  else if N.eqb o 77 then match r with l0 :: l1 :: r1 => data (l0 + 256 * l1)%N r1 | _ => None end
  else if N.eqb o 78 then
    match r with
    | l0 :: l1 :: l2 :: l3 :: r1 => data (l0 + 256 * l1 + 65536 * l2 + 16777216 * l3)%N r1
    | _ => None
    end
  else if N.eqb o 79 then ocons (OP_PUSH [129%N]) (disasm f r)
  else if (N.leb 81 o && N.leb o 96)%bool then ocons (OP_PUSH [(o - 80)%N]) (disasm f r)
  else ocons (op_of_code o) (disasm f r).
Proof. reflexivity. Qed.

Lemma small_cases (b : N) : (b <= 16)%N ->
  b = 0%N \/ b = 1%N \/ b = 2%N \/ b = 3%N \/ b = 4%N \/ b = 5%N \/ b = 6%N \/ b = 7%N \/ b = 8%N \/
  b = 9%N \/ b = 10%N \/ b = 11%N \/ b = 12%N \/ b = 13%N \/ b = 14%N \/ b = 15%N \/ b = 16%N.
Proof. lia. Qed.

Lemma disasm_push f d rest : (length d <= 520)%nat ->
  disasm (S f) (push_bytes d ++ rest) = ocons (OP_PUSH (pushed d)) (disasm f rest).
Proof.
  intros Hl. unfold push_bytes.
  destruct d as [|b [|b2 d']].
  - reflexivity.
  - (* one byte *)
    unfold small_int_data.
    destruct (N.leb b 16) eqn:E16.
    + apply N.leb_le in E16. apply small_cases in E16.
      repeat (destruct E16 as [->|E16]; [reflexivity|]). subst; reflexivity.
    + apply N.leb_gt in E16. destruct (N.eqb b 129) eqn:E129.
      * apply N.eqb_eq in E129. subst. reflexivity.
      * assert (E0 : N.eqb b 0 = false) by (apply N.eqb_neq; lia).
        simpl. rewrite E0. reflexivity.
  - (* at least two bytes *)
    set (d := b :: b2 :: d') in *.
    assert (H2 : (2 <= length d)%nat) by (simpl; lia).
    change (small_int_data d) with (@None N). cbv iota.
    unfold len. set (ln := N.of_nat (length d)).
    assert (Hln : (2 <= ln <= 520)%N) by (unfold ln; lia).
    assert (Hto : N.to_nat ln = length d) by (unfold ln; lia).
    change (pushed d) with d.
    clearbody ln. clearbody d.
    destruct (N.ltb ln 76) eqn:E76.
    + apply N.ltb_lt in E76. rewrite <- app_comm_cons, disasm_eq. cbv zeta.
      replace (N.eqb ln 0) with false by (symmetry; apply N.eqb_neq; lia).
      replace (N.leb ln 75) with true by (symmetry; apply N.leb_le; lia).
      rewrite Hto, take_n_app. reflexivity.
    + apply N.ltb_ge in E76. destruct (N.leb ln 255) eqn:E255.
      * rewrite <- !app_comm_cons, disasm_eq. cbv zeta.
        change (N.eqb 76 0) with false. change (N.leb 76 75) with false.
        change (N.eqb 76 76) with true. cbv beta iota.
        rewrite Hto, take_n_app. reflexivity.
      * apply N.leb_gt in E255.
        replace (N.leb ln 65535) with true by (symmetry; apply N.leb_le; lia).
        rewrite <- !app_comm_cons, disasm_eq. cbv zeta.
        change (N.eqb 77 0) with false. change (N.leb 77 75) with false.
        change (N.eqb 77 76) with false. change (N.eqb 77 77) with true. cbv beta iota.
        replace (ln mod 256 + 256 * (ln / 256))%N with ln
          by (rewrite N.add_comm; apply N.div_mod; lia).
        rewrite Hto, take_n_app. reflexivity.
Qed.

(* ---------- the builder never errs on data of at most 520 bytes ---------- *)
Lemma push_bytes_length d : (length (push_bytes d) <= length d + 5)%nat.
Proof.
  unfold push_bytes. destruct d as [|b d']; [simpl; lia|].
  destruct (small_int_data (b :: d')) as [x|].
  - destruct (N.eqb x 0); [simpl; lia|]. destruct (N.eqb x 129); simpl; lia.
  - destruct (N.ltb (len (b :: d')) 76); [simpl; lia|].
    destruct (N.leb (len (b :: d')) 255); [simpl; lia|].
    destruct (N.leb (len (b :: d')) 65535); simpl; lia.
Qed.

Lemma canonical_size_bound d : (canonical_data_size d <= len d + 5)%N.
Proof.
  unfold canonical_data_size. destruct d as [|b d']; [unfold len; simpl; lia|].
  destruct (small_int_data (b :: d')); [unfold len; simpl length; lia|].
  destruct (N.ltb (len (b :: d')) 76); [lia|].
  destruct (N.leb (len (b :: d')) 255); [lia|].
  destruct (N.leb (len (b :: d')) 65535); lia.
Qed.

Lemma add_op_ok s o : (len s <= 9000)%N ->
  add_op (mk_sb s false) o = mk_sb (s ++ [o]) false.
Proof.
  intros H. unfold add_op. cbn [sb_err sb_script].
  replace (N.ltb max_script_size (len s + 1)) with false; [reflexivity|].
  symmetry. apply N.ltb_ge. unfold max_script_size, len in *. lia.
Qed.

Lemma add_data_ok s d : (length d <= 520)%nat -> (len s <= 9000)%N ->
  add_data (mk_sb s false) d = mk_sb (s ++ push_bytes d) false.
Proof.
  intros Hd H. unfold add_data. cbn [sb_err sb_script].
  pose proof (canonical_size_bound d) as Hc.
  replace (N.ltb max_script_size (len s + canonical_data_size d)) with false.
  2:{ symmetry. apply N.ltb_ge. unfold max_script_size, len in *. lia. }
  replace (Nat.ltb max_element_size (length d)) with false; [reflexivity|].
  symmetry. apply Nat.ltb_ge. unfold max_element_size. lia.
Qed.

Lemma le_bytes_length f n : (length (le_bytes f n) <= f)%nat.
Proof.
  revert n; induction f as [|f IH]; intros n; simpl; [lia|].
  destruct (n <=? 0); simpl; [lia|]. specialize (IH (n / 256)). lia.
Qed.

Lemma scriptnum_encode_length v : 0 < v -> (length (scriptnum_encode v) <= 10)%nat.
Proof.
  intros Hv. unfold scriptnum_encode.
  replace (v =? 0) with false by (symmetry; apply Z.eqb_neq; lia).
  replace (v <? 0) with false by (symmetry; apply Z.ltb_ge; lia).
  pose proof (le_bytes_length 9 (Z.abs v)).
  destruct (N.leb 128 (last (le_bytes 9 (Z.abs v)) 0%N)); [rewrite app_length; cbn [length]; lia|lia].
Qed.

(* for v >= 17 the minimal encoding is never the single byte 0, so the push is literal *)
Lemma pushed_scriptnum v : 17 <= v -> pushed (scriptnum_encode v) = scriptnum_encode v.
Proof.
  intros Hv. unfold scriptnum_encode.
  replace (v =? 0) with false by (symmetry; apply Z.eqb_neq; lia).
  replace (v <? 0) with false by (symmetry; apply Z.ltb_ge; lia).
  rewrite Z.abs_eq by lia.
  change (le_bytes 9 v) with (if v <=? 0 then [] else Z.to_N (v mod 256) :: le_bytes 8 (v / 256)).
  replace (v <=? 0) with false by (symmetry; apply Z.leb_gt; lia).
  destruct (le_bytes 8 (v / 256)) as [|b r] eqn:E.
  - (* one byte: v < 256 *)
    assert (Hd : v / 256 <= 0).
    { destruct (Z_lt_le_dec 0 (v / 256)) as [Hp|]; [|lia].
      exfalso. change (le_bytes 8 (v / 256)) with
        (if v / 256 <=? 0 then [] else Z.to_N ((v / 256) mod 256) :: le_bytes 7 (v / 256 / 256)) in E.
      replace (v / 256 <=? 0) with false in E by (symmetry; apply Z.leb_gt; lia). discriminate. }
    assert (Hz : v / 256 = 0) by (pose proof (Z.div_pos v 256); lia).
    assert (Hm : v mod 256 = v) by (apply Z.mod_small; apply Z.div_small_iff in Hz; lia).
    rewrite Hm. simpl last.
    destruct (N.leb 128 (Z.to_N v)); simpl.
    + reflexivity.
    + replace (N.eqb (Z.to_N v) 0) with false by (symmetry; apply N.eqb_neq; lia). reflexivity.
  - destruct (N.leb 128 (last (Z.to_N (v mod 256) :: b :: r) 0%N)); reflexivity.
Qed.

Definition intpush_bytes (v : Z) : bytes :=
  if v =? 0 then [0%N]
  else if (1 <=? v) && (v <=? 16) then [Z.to_N (80 + v)]
  else push_bytes (scriptnum_encode v).

Lemma add_int64_ok s v : 0 <= v -> (len s <= 9000)%N ->
  add_int64 (mk_sb s false) v = mk_sb (s ++ intpush_bytes v) false.
Proof.
  intros Hv H. unfold add_int64, intpush_bytes. cbn [sb_err sb_script].
  replace (N.ltb max_script_size (len s + 1)) with false.
  2:{ symmetry. apply N.ltb_ge. unfold max_script_size, len in *. lia. }
  destruct (v =? 0) eqn:E0; [reflexivity|].
  replace (v =? -1) with false by (symmetry; apply Z.eqb_neq; lia). cbn [orb].
  destruct ((1 <=? v) && (v <=? 16)) eqn:E; [reflexivity|].
  apply add_data_ok; [|exact H].
  apply Z.eqb_neq in E0. pose proof (scriptnum_encode_length v). lia.
Qed.

Lemma small_cases_z (v : Z) : 1 <= v <= 16 ->
  v = 1 \/ v = 2 \/ v = 3 \/ v = 4 \/ v = 5 \/ v = 6 \/ v = 7 \/ v = 8 \/
  v = 9 \/ v = 10 \/ v = 11 \/ v = 12 \/ v = 13 \/ v = 14 \/ v = 15 \/ v = 16.
Proof. lia. Qed.

Lemma disasm_intpush f v rest : 0 <= v ->
  disasm (S f) (intpush_bytes v ++ rest) = ocons (OP_PUSH (int_push v)) (disasm f rest).
Proof.
  intros Hv. unfold intpush_bytes, int_push.
  destruct (v =? 0) eqn:E0; [reflexivity|]. apply Z.eqb_neq in E0.
  replace (v =? -1) with false by (symmetry; apply Z.eqb_neq; lia).
  destruct ((1 <=? v) && (v <=? 16)) eqn:E.
  - apply andb_prop in E as [E1 E2]. apply Z.leb_le in E1, E2.
    assert (Hc : 1 <= v <= 16) by lia. apply small_cases_z in Hc.
    repeat (destruct Hc as [->|Hc]; [reflexivity|]). subst; reflexivity.
  - assert (H17 : 17 <= v).
    { apply andb_false_iff in E as [E|E]; [apply Z.leb_gt in E|apply Z.leb_gt in E]; lia. }
    rewrite disasm_push, pushed_scriptnum; [reflexivity|exact H17|].
    pose proof (scriptnum_encode_length v). lia.
Qed.

Lemma disasm_op f o r :
  In o [opc_if; opc_notif; opc_else; opc_endif; opc_size; opc_equalverify; opc_sha256; opc_checksig; opc_csv] ->
  disasm (S f) (o :: r) = ocons (op_of_code o) (disasm f r).
Proof.
  intros H. simpl in H.
  repeat (destruct H as [<-|H]; [reflexivity|]). destruct H.
Qed.

(* For every taker/maker key and payment hash of at most 520 bytes and every uint32
   csv, the builder model succeeds and its bytes tokenize to the model opcode list. *)
Theorem script_bytes_parse taker maker h csv :
  (length taker <= 520)%nat -> (length maker <= 520)%nat -> (length h <= 520)%nat ->
  0 <= csv < 4294967296 ->
  sb_err (get_opening_tx_script taker maker h csv) = false /\
  disassemble (sb_script (get_opening_tx_script taker maker h csv)) =
    Some (opening_ops (pushed taker) (pushed maker) (pushed h) (int_push csv)).
Proof.
  intros Lt Lm Lh Hc.
  pose proof (push_bytes_length taker) as Bt. pose proof (push_bytes_length maker) as Bm.
  pose proof (push_bytes_length h) as Bh.
  assert (Bc : (length (intpush_bytes csv) <= 20)%nat).
  { unfold intpush_bytes. destruct (csv =? 0) eqn:E0; [simpl; lia|].
    destruct ((1 <=? csv) && (csv <=? 16)); [simpl; lia|].
    apply Z.eqb_neq in E0.
    pose proof (push_bytes_length (scriptnum_encode csv)). pose proof (scriptnum_encode_length csv). lia. }
  assert (B32 : (length (push_bytes [32%N]) = 2)%nat) by reflexivity.
  unfold get_opening_tx_script, sb_new.
  repeat first
    [ rewrite add_op_ok by (unfold len; rewrite ?app_length; simpl length; lia)
    | rewrite add_data_ok by (unfold len; rewrite ?app_length; simpl length; lia)
    | rewrite add_int64_ok by (unfold len; rewrite ?app_length; simpl length; lia) ].
  cbn [sb_err sb_script]. split; [reflexivity|].
  unfold disassemble.
  match goal with |- disasm (length ?s) _ = _ => remember (length s) as fuel eqn:Hf end.
  assert (Hfuel : (19 <= fuel)%nat).
  { subst fuel. rewrite !app_length. simpl length.
    assert (1 <= length (push_bytes taker))%nat by (unfold push_bytes; destruct taker as [|? ?]; [simpl; lia|]; destruct (small_int_data _); [destruct (N.eqb _ 0); [simpl; lia|destruct (N.eqb _ 129); simpl; lia]|]; destruct (N.ltb _ 76); [simpl; lia|]; destruct (N.leb _ 255); [simpl; lia|]; destruct (N.leb _ 65535); simpl; lia).
    assert (1 <= length (push_bytes maker))%nat by (unfold push_bytes; destruct maker as [|? ?]; [simpl; lia|]; destruct (small_int_data _); [destruct (N.eqb _ 0); [simpl; lia|destruct (N.eqb _ 129); simpl; lia]|]; destruct (N.ltb _ 76); [simpl; lia|]; destruct (N.leb _ 255); [simpl; lia|]; destruct (N.leb _ 65535); simpl; lia).
    assert (1 <= length (push_bytes h))%nat by (unfold push_bytes; destruct h as [|? ?]; [simpl; lia|]; destruct (small_int_data _); [destruct (N.eqb _ 0); [simpl; lia|destruct (N.eqb _ 129); simpl; lia]|]; destruct (N.ltb _ 76); [simpl; lia|]; destruct (N.leb _ 255); [simpl; lia|]; destruct (N.leb _ 65535); simpl; lia).
    assert (1 <= length (intpush_bytes csv))%nat.
    { unfold intpush_bytes. destruct (csv =? 0); [simpl; lia|]. destruct ((1 <=? csv) && (csv <=? 16)); [simpl; lia|].
      unfold push_bytes; destruct (scriptnum_encode csv) as [|? ?]; [simpl; lia|]; destruct (small_int_data _); [destruct (N.eqb _ 0); [simpl; lia|destruct (N.eqb _ 129); simpl; lia]|]; destruct (N.ltb _ 76); [simpl; lia|]; destruct (N.leb _ 255); [simpl; lia|]; destruct (N.leb _ 65535); simpl; lia. }
    lia. }
  clear Hf.
  do 19 (destruct fuel as [|fuel]; [lia|]).
  rewrite <- !app_assoc. cbn [app].
  repeat first
    [ rewrite disasm_push by assumption
    | rewrite disasm_push by (simpl; lia)
    | rewrite disasm_intpush by lia
    | rewrite disasm_op by (simpl; tauto) ].
  destruct fuel; reflexivity.
Qed.

Lemma pushed_length d : (length (pushed d) <= length d)%nat.
Proof. destruct d as [|b [|? ?]]; simpl; try lia. destruct (N.eqb b 0); simpl; lia. Qed.

(* end to end on bytes: what the builder model serializes, read back by the
   tokenizer and executed, accepts exactly the three shapes *)
Lemma bytes_iff csv : csv = 1008 \/ csv = 10080 \/ csv = 60 ->
  forall taker maker h,
  (length taker <= 520)%nat -> (length maker <= 520)%nat -> (length h <= 520)%nat ->
  exists ops,
    sb_err (get_opening_tx_script taker maker h csv) = false /\
    disassemble (sb_script (get_opening_tx_script taker maker h csv)) = Some ops /\
    forall checksig sha256 fl w sq txver,
      eval_witness checksig sha256 fl txver sq ops w = true <->
      allowed_spend checksig sha256 (pushed taker) (pushed maker) (pushed h) csv w sq txver.
Proof.
  intros Hcsv taker maker h Lt Lm Lh.
  assert (Hr : 0 <= csv < 4294967296) by lia.
  destruct (script_bytes_parse taker maker h csv Lt Lm Lh Hr) as [He Hd].
  eexists. split; [exact He|]. split; [exact Hd|].
  intros. pose proof (pushed_length taker). pose proof (pushed_length maker). pose proof (pushed_length h).
  destruct Hcsv as [ -> | [ -> | -> ] ]; apply opening_ops_iff; try lia; try reflexivity;
    try (simpl; lia); destruct (f_minimaldata fl); reflexivity.
Qed.
