(* C07 (c): a CSV watch that fires leads to the refund broadcast; every state in which the
   maker waits registers the CSV watch on the recorded outpoint, on entry and on recovery. *)
From Coq Require Import String ZArith Bool List Lia.
From RecordUpdate Require Import RecordSet.
From PS Require Import Base.Wrap Model.Data Model.Actions Model.Fsm Model.History Model.FsmCorr Model.C07Corr Model.C07Table
  Gen.ConstsSwap Gen.Tables
  Proofs.Monad Proofs.ExecRule Proofs.MTac Proofs.Engine Proofs.ExecRuleTree Proofs.C07Exec Proofs.C07.
Import ListNotations RecordSetNotations.
Open Scope Z_scope.

Strategy opaque [event_loop exec loop_fuel action_fuel pay_loop].

Lemma loop_fuel_S : loop_fuel = S 63.
Proof. reflexivity. Qed.

Lemma persist_world m w ok w1 es :
  persist m w = (ok, w1, es) ->
  ok = hd true (q_store w) /\ q_spend w1 = q_spend w /\ es = [EPersist (m_cur m) (m_data m) ok].
Proof.
  unfold persist, bind, pop_store, pop, emit, ret. destruct w. cbn. destruct q_store as [|x rest]; cbn;
    intros H; inversion H; subst; cbn; auto.
Qed.

Lemma spend_first k d on_err w r w' es :
  spend k d on_err w = (r, w', es) -> str_nonempty (d_claim_txid d) = false ->
  In (EBroadcastSpend k (hd None (q_spend w))) es.
Proof.
  unfold spend. intros H Hc. rewrite Hc in H. unfold bind, pop_spend, pop, emit, succeed, ret in H.
  destruct (q_spend w) as [|x rest]; cbn in H.
  - inversion H; subst. cbn. auto.
  - destruct x; inversion H; subst; cbn; auto.
Qed.

Section Csv.
Variable tc : tl_consts.
Variable dec : string -> option (string * Z * Z).

Lemma csv_tree_spend a d w r w' es :
  tree_eqb_leaf a L_claim_csv || tree_eqb_wrap a L_stop L_claim_csv = true ->
  chain_known d = true -> str_nonempty (d_claim_txid d) = false ->
  exec tc dec action_fuel a d w = (r, w', es) ->
  In (EBroadcastSpend SKCsv (hd None (q_spend w))) es.
Proof.
  rewrite action_fuel_S. intros Hs Hc Hn H. apply orb_true_iff in Hs. destruct Hs as [Hs|Hs].
  - apply tree_eqb_leaf_eq in Hs. subst a. rewrite exec_leaf_claim_csv in H.
    unfold act_claim_csv in H. rewrite Hc in H. cbn [negb] in H. eapply spend_first; eauto.
  - apply tree_eqb_wrap_eq in Hs. subst a. rewrite exec_stop, exec_leaf_claim_csv in H.
    unfold act_claim_csv in H. rewrite Hc in H. cbn [negb] in H.
    unfold bind at 1, emit in H. destruct (spend SKCsv d Ev_Retry w) as [[b w2] e2] eqn:Hsp.
    inversion H; subst. right. eapply spend_first; eauto.
Qed.

Lemma watch_csv_registers d w r w' es x pol :
  watch_csv tc d w = (r, w', es) ->
  d_otb d = Some x -> chain_known d = true -> timelock_policy tc d = Some pol -> hd false (q_script w) = true ->
  fst r = Ev_NoOp /\ es = [EWatchCsv (ob_txid x) (ob_vout x) (d_start_height d) (p_csv pol)].
Proof.
  unfold watch_csv. intros H Ho Hc Hp Hs. rewrite Hc, Hp, Ho in H. cbn [negb] in H.
  unfold bind, pop_script, pop, emit, ret, fail in H. destruct (q_script w) as [|b rest]; cbn in Hs; [discriminate|].
  subst b. cbn in H. inversion H; subst. auto.
Qed.

Lemma watch_tree_registers a d w r w' es x pol :
  tree_eqb_leaf a L_await_pay_or_csv || tree_eqb_leaf a L_await_csv || tree_eqb_wrap a L_stop L_await_csv = true ->
  d_otb d = Some x -> chain_known d = true -> timelock_policy tc d = Some pol -> hd false (q_script w) = true ->
  exec tc dec action_fuel a d w = (r, w', es) ->
  fst r = Ev_NoOp /\ In (EWatchCsv (ob_txid x) (ob_vout x) (d_start_height d) (p_csv pol)) es.
Proof.
  rewrite action_fuel_S. intros Hs Ho Hc Hp Hq H.
  repeat (apply orb_true_iff in Hs; destruct Hs as [Hs|Hs]).
  - apply tree_eqb_leaf_eq in Hs. subst a. rewrite exec_leaf_await_pay_or_csv in H.
    unfold act_await_payment_or_csv in H. rewrite Hc, Ho in H. cbn [negb] in H.
    unfold bind at 1, emit in H. destruct (watch_csv tc d w) as [[b w2] e2] eqn:Hw.
    inversion H; subst. destruct (watch_csv_registers _ _ _ _ _ _ _ Hw Ho Hc Hp Hq) as [A B]. subst e2.
    split; [exact A|]. right. left. reflexivity.
  - apply tree_eqb_leaf_eq in Hs. subst a. rewrite exec_leaf_await_csv in H.
    destruct (watch_csv_registers _ _ _ _ _ _ _ H Ho Hc Hp Hq) as [A B]. subst es. split; [exact A|left; reflexivity].
  - apply tree_eqb_wrap_eq in Hs. subst a. rewrite exec_stop, exec_leaf_await_csv in H.
    unfold bind at 1, emit in H. destruct (watch_csv tc d w) as [[b w2] e2] eqn:Hw.
    inversion H; subst. destruct (watch_csv_registers _ _ _ _ _ _ _ Hw Ho Hc Hp Hq) as [A B]. subst e2.
    split; [exact A|]. right. left. reflexivity.
Qed.

Variable t : table.
Variable terminal : list string.
Hypothesis CK : csv_table_ok t terminal = true.

Lemma csv_facts s : mem s (post_states t) = true -> waiting_state t s = true ->
  watch_state t s = true /\ exists n, next_state t s Ev_Csv = Some n /\ csv_spend_state t n = true.
Proof.
  intros Hs Hw. unfold csv_table_ok in CK. apply andb_true_iff in CK. destruct CK as [C1 _].
  apply andb_true_iff in C1. destruct C1 as [C1 _].
  apply mem_In in Hs. apply (forallb_In _ _ _ C1) in Hs. rewrite Hw in Hs.
  apply andb_true_iff in Hs. destruct Hs as [Hws Hn]. split; [exact Hws|].
  destruct (next_state t s Ev_Csv) as [n|]; [|discriminate]. exists n. split; [reflexivity|].
  apply andb_true_iff in Hn. destruct Hn as [Hn _]. apply andb_true_iff in Hn. destruct Hn as [Hn _]. exact Hn.
Qed.

(* (c1) the CSV event in a waiting state: the refund is broadcast with the wallet's first answer *)
Theorem csv_refund m w o w' es :
  mem (m_cur m) (post_states t) = true -> waiting_state t (m_cur m) = true ->
  chain_known (m_data m) = true -> str_nonempty (d_claim_txid (m_data m)) = false ->
  hd true (q_store w) = true ->
  step tc dec t terminal m InCsvPassed w = (o, w', es) ->
  In (EBroadcastSpend SKCsv (hd None (q_spend w))) es.
Proof.
  intros Hs Hw Hc Hn Hst H.
  destruct (csv_facts _ Hs Hw) as (_ & n & Hnext & Hsp).
  unfold csv_spend_state, state_tree in Hsp.
  destruct (lookup_state t n) as [sd|] eqn:Hl; [|discriminate].
  destruct (st_action sd) as [act|] eqn:Ha; [|discriminate].
  unfold step in H. apply bind_inv in H. destruct H as ([m1 res] & w1 & e1 & e2 & Hse & H & ->).
  apply ret_inv in H. destruct H as (_ & _ & ->). rewrite app_nil_r.
  unfold send_event in Hse. replace (String.eqb "Event_OnCsvPassed" Ev_Done) with false in Hse by reflexivity.
  change "Event_OnCsvPassed"%string with Ev_Csv in Hse. rewrite Hnext in Hse.
  unfold persist_then_loop in Hse. apply bind_inv in Hse. destruct Hse as (ok & w2 & e3 & e4 & Hp & Hse & ->).
  apply persist_world in Hp. destruct Hp as (Hok & Hq & ->). rewrite Hst in Hok. subst ok. cbn [negb] in Hse.
  rewrite loop_fuel_S, event_loop_S in Hse. change "Event_OnCsvPassed"%string with Ev_Csv in Hse.
  rewrite Hnext, Hl, Ha in Hse. cbv zeta in Hse.
  apply bind_inv in Hse. destruct Hse as ([ev' d'] & w3 & e5 & e6 & Hex & _ & ->).
  apply in_or_app. right. apply in_or_app. left. rewrite <- Hq.
  eapply csv_tree_spend; [exact Hsp| | |exact Hex]; destruct m as [? ? ? ? ? md ?]; destruct md; cbn in *; assumption.
Qed.

(* (c2) the action of a waiting state registers the CSV watch on the recorded outpoint *)
Theorem waiting_state_watches s sd act d w r w' es x pol :
  mem s (post_states t) = true -> waiting_state t s = true ->
  lookup_state t s = Some sd -> st_action sd = Some act ->
  d_otb d = Some x -> chain_known d = true -> timelock_policy tc d = Some pol -> hd false (q_script w) = true ->
  exec tc dec action_fuel act d w = (r, w', es) ->
  fst r = Ev_NoOp /\ In (EWatchCsv (ob_txid x) (ob_vout x) (d_start_height d) (p_csv pol)) es.
Proof.
  intros Hs Hw Hl Ha Ho Hc Hp Hq H.
  destruct (csv_facts _ Hs Hw) as (Hws & _). unfold watch_state, state_tree in Hws. rewrite Hl, Ha in Hws.
  eapply watch_tree_registers; eauto.
Qed.

(* every state after the broadcast: the maker waits (CSV event accepted, watch registered by the state's own
   action), or it is finished, or it attempts a spend, or it (re)sends the announcement and continues into a
   waiting state whatever the outcome; a failed coop spend falls back to a waiting state *)
Theorem post_states_classified s : mem s (post_states t) = true ->
  (waiting_state t s = true /\ watch_state t s = true) \/
  is_fin terminal s = true \/ spend_state t s = true \/
  (exists a b, next_state t s Ev_Succeeded = Some a /\ next_state t s Ev_Failed = Some b /\
               waiting_state t a = true /\ waiting_state t b = true).
Proof.
  intros Hs. pose proof CK as C. unfold csv_table_ok in C. apply andb_true_iff in C. destruct C as [C1 _].
  apply andb_true_iff in C1. destruct C1 as [C1 _].
  pose proof Hs as Hs'. apply mem_In in Hs'. apply (forallb_In _ _ _ C1) in Hs'.
  destruct (waiting_state t s) eqn:Hw.
  - left. apply andb_true_iff in Hs'. destruct Hs' as [A _]. auto.
  - right. apply orb_true_iff in Hs'. destruct Hs' as [Hx|Hx].
    + apply orb_true_iff in Hx. destruct Hx as [Hx|Hx]; auto.
    + right. right. apply andb_true_iff in Hx. destruct Hx as [_ Hx].
      destruct (next_state t s Ev_Succeeded) as [a|]; [|discriminate].
      destruct (next_state t s Ev_Failed) as [b|]; [|discriminate].
      apply andb_true_iff in Hx. destruct Hx as [A B]. exists a, b. auto.
Qed.

(* (c2, recovery) after a restart, RecoverSwaps on a swap stored in a waiting state registers the watch again *)
Theorem recover_watches m w r w' es x pol :
  mem (m_cur m) (post_states t) = true -> waiting_state t (m_cur m) = true -> is_fin terminal (m_cur m) = false ->
  d_otb (m_data m) = Some x -> chain_known (m_data m) = true -> timelock_policy tc (m_data m) = Some pol ->
  hd false (q_script w) = true ->
  recover tc dec t m w = (r, w', es) ->
  In (EWatchCsv (ob_txid x) (ob_vout x) (d_start_height (m_data m)) (p_csv pol)) es.
Proof.
  intros Hs Hw Hnf Ho Hc Hp Hq H.
  destruct (csv_facts _ Hs Hw) as (Hws & _).
  pose proof CK as C. unfold csv_table_ok in C. apply andb_true_iff in C. destruct C as [_ C3].
  pose proof Hs as Hs'. apply mem_In in Hs'. apply (forallb_In _ _ _ C3) in Hs'. rewrite Hnf in Hs'. cbn [orb] in Hs'.
  unfold watch_state, state_tree in Hws.
  unfold recover in H. destruct (lookup_state t (m_cur m)) as [sd|] eqn:Hl; [|discriminate].
  destruct (st_action sd) as [act|] eqn:Ha; [|discriminate].
  apply negb_true_iff in Hs'. rewrite Hs' in H.
  apply bind_inv in H. destruct H as ([ev' d'] & w1 & e1 & e2 & Hex & _ & ->).
  apply in_or_app. left.
  destruct (watch_tree_registers _ _ _ _ _ _ _ _ Hws Ho Hc Hp Hq Hex) as [_ Hin]. exact Hin.
Qed.

End Csv.

(* ---------- (c) for the tables generated from the code ---------- *)
Theorem csv_refund_gen : forall t, In t maker_tables ->
  forall dec m w o w' es,
  mem (m_cur m) (post_states t) = true -> waiting_state t (m_cur m) = true ->
  chain_known (m_data m) = true -> str_nonempty (d_claim_txid (m_data m)) = false ->
  hd true (q_store w) = true ->
  step tl_consts_gen dec t terminal_states m InCsvPassed w = (o, w', es) ->
  In (EBroadcastSpend SKCsv (hd None (q_spend w))) es.
Proof.
  intros t Hin dec m w o w' es. destruct (maker_tables_ok t Hin) as [_ Hck].
  exact (csv_refund tl_consts_gen dec t terminal_states Hck m w o w' es).
Qed.

Theorem waiting_state_watches_gen : forall t, In t maker_tables ->
  forall dec s sd act d w r w' es x pol,
  mem s (post_states t) = true -> waiting_state t s = true ->
  lookup_state t s = Some sd -> st_action sd = Some act ->
  d_otb d = Some x -> chain_known d = true -> timelock_policy tl_consts_gen d = Some pol -> hd false (q_script w) = true ->
  exec tl_consts_gen dec action_fuel act d w = (r, w', es) ->
  fst r = Ev_NoOp /\ In (EWatchCsv (ob_txid x) (ob_vout x) (d_start_height d) (p_csv pol)) es.
Proof.
  intros t Hin dec s sd act d w r w' es x pol. destruct (maker_tables_ok t Hin) as [_ Hck].
  exact (waiting_state_watches tl_consts_gen dec t terminal_states Hck s sd act d w r w' es x pol).
Qed.

Theorem post_states_classified_gen : forall t, In t maker_tables -> forall s, mem s (post_states t) = true ->
  (waiting_state t s = true /\ watch_state t s = true) \/
  is_fin terminal_states s = true \/ spend_state t s = true \/
  (exists a b, next_state t s Ev_Succeeded = Some a /\ next_state t s Ev_Failed = Some b /\
               waiting_state t a = true /\ waiting_state t b = true).
Proof.
  intros t Hin s. destruct (maker_tables_ok t Hin) as [_ Hck].
  exact (post_states_classified t terminal_states Hck s).
Qed.

Theorem recover_watches_gen : forall t, In t maker_tables ->
  forall dec m w r w' es x pol,
  mem (m_cur m) (post_states t) = true -> waiting_state t (m_cur m) = true -> is_fin terminal_states (m_cur m) = false ->
  d_otb (m_data m) = Some x -> chain_known (m_data m) = true -> timelock_policy tl_consts_gen (m_data m) = Some pol ->
  hd false (q_script w) = true ->
  recover tl_consts_gen dec t m w = (r, w', es) ->
  In (EWatchCsv (ob_txid x) (ob_vout x) (d_start_height (m_data m)) (p_csv pol)) es.
Proof.
  intros t Hin dec m w r w' es x pol. destruct (maker_tables_ok t Hin) as [_ Hck].
  exact (recover_watches tl_consts_gen dec t terminal_states Hck m w r w' es x pol).
Qed.

(* the CSV depths the watch is registered with are the policy constants of the code *)
Lemma csv_constants :
  option_map p_csv policy_btc_v7 = Some 1008 /\ option_map p_csv policy_lbtc_v7 = Some 10080 /\
  option_map p_csv policy_lbtc_v6 = Some 60.
Proof. repeat split; reflexivity. Qed.
