(* Frame facts: which fields of the swap data no action ever changes. *)
From Coq Require Import String ZArith Bool List Lia.
From RecordUpdate Require Import RecordSet.
From PS Require Import Base.Wrap Model.Data Model.Actions Proofs.Monad Proofs.ExecRule Proofs.MTac.
Import ListNotations RecordSetNotations.
Open Scope Z_scope.

(* the request messages, the counterparty and the swap key are never written by an action *)
Definition same_core (d d' : swap_data) : Prop :=
  d_in_req d' = d_in_req d /\ d_out_req d' = d_out_req d /\ d_peer d' = d_peer d /\
  d_initiator d' = d_initiator d /\ d_privkey d' = d_privkey d /\ d_coop d' = d_coop d /\
  d_cancel d' = d_cancel d.

Lemma same_core_refl d : same_core d d.
Proof. unfold same_core. tauto. Qed.

Ltac core_tac := unfold same_core; cbn; repeat split; reflexivity.

Lemma pay_loop_core n : forall csvh pol payreq d w r w' es,
  pay_loop n csvh pol payreq d w = (r, w', es) -> same_core d (snd r).
Proof.
  induction n as [|n IH]; intros csvh pol payreq d w r w' es H.
  - rewrite pay_loop_O in H. msym. apply same_core_refl.
  - rewrite pay_loop_S in H. msym; try apply same_core_refl; try core_tac.
    eapply IH; eauto.
Qed.

Section Frame.
Variable tc : tl_consts.
Variable dec : string -> option (string * Z * Z).

Lemma leaf_core name f : In (name, f) (leaf_actions tc dec) ->
  forall d w r w' es, f d w = (r, w', es) -> same_core d (snd r).
Proof.
  intros Hin d w r w' es H. leaf_cases Hin.
  all: autounfold with actions in H; msym.
  all: try apply same_core_refl.
  all: try core_tac.
  all: eapply pay_loop_core; eauto.
Qed.

Theorem exec_core fuel a d w r w' es :
  exec tc dec fuel a d w = (r, w', es) -> same_core d (snd r).
Proof.
  apply (exec_rule tc dec (fun d r _ => same_core d (snd r))).
  - intros. eapply leaf_core; eauto.
  - intros. apply same_core_refl.
  - intros. apply same_core_refl.
  - intros. apply same_core_refl.
  - intros d0 k r0 es0 _ H. unfold same_core in *. cbn in H. exact H.
  - auto.
  - intros. apply same_core_refl.
  - auto.
  - auto.
Qed.

(* actions never write to the store themselves: only the engine persists *)
Definition not_persist_eff (e : effect) : Prop := match e with EPersist _ _ _ => False | _ => True end.

Lemma pay_loop_not_persist n : forall csvh pol payreq d w r w' es,
  pay_loop n csvh pol payreq d w = (r, w', es) -> Forall not_persist_eff es.
Proof.
  induction n as [|n IH]; intros csvh pol payreq d w r w' es H.
  - rewrite pay_loop_O in H. msym. constructor.
  - rewrite pay_loop_S in H. msym; list_simpl; repeat constructor.
    eapply IH; eauto.
Qed.

Lemma leaf_not_persist name f : In (name, f) (leaf_actions tc dec) ->
  forall d w r w' es, f d w = (r, w', es) -> Forall not_persist_eff es.
Proof.
  intros Hin d w r w' es H. leaf_cases Hin.
  all: autounfold with actions in H; msym; list_simpl.
  all: try (repeat constructor; fail).
  all: constructor; [exact Logic.I|]; eapply pay_loop_not_persist; eauto.
Qed.

Theorem exec_not_persist fuel a d w r w' es :
  exec tc dec fuel a d w = (r, w', es) -> Forall not_persist_eff es.
Proof.
  apply (exec_rule tc dec (fun _ _ es => Forall not_persist_eff es)).
  - intros. eapply leaf_not_persist; eauto.
  - constructor.
  - intros. repeat constructor.
  - constructor.
  - auto.
  - intros d0 r0 es0 H. constructor; [exact Logic.I|exact H].
  - constructor.
  - auto.
  - intros d0 r0 es0 H. constructor; [exact Logic.I|exact H].
Qed.

End Frame.
