(* Invariant of the skeleton semantics shared by C18 (lock order) and C19 (lockset):
   in every reachable configuration each thread owns exactly the locks recorded in its frames,
   frames are at program points of their functions and are linked by the call they are executing. *)
From Coq Require Import Arith NArith Bool Lia List.
Import ListNotations.
From PS Require Import Model.Skel.
Open Scope N_scope.

(* ---------- list helpers ---------- *)

Lemma mem_In x xs : mem x xs = true <-> In x xs.
Proof.
  unfold mem. rewrite existsb_exists. split.
  - intros [y [Hy He]]. apply N.eqb_eq in He. subst; auto.
  - intros H. exists x. split; auto. apply N.eqb_refl.
Qed.

Lemma removeN_In x y xs : In y (removeN x xs) <-> y <> x /\ In y xs.
Proof.
  unfold removeN. rewrite filter_In. rewrite negb_true_iff, N.eqb_neq. intuition congruence.
Qed.

Lemma removeN_notin x xs : ~ In x xs -> removeN x xs = xs.
Proof.
  induction xs as [|y r IH]; simpl; intros H; auto.
  destruct (N.eqb x y) eqn:He.
  - apply N.eqb_eq in He. subst. exfalso. apply H. auto.
  - simpl. f_equal. apply IH. intros Hin. apply H. auto.
Qed.

Lemma removeN_app x xs ys : removeN x (xs ++ ys) = removeN x xs ++ removeN x ys.
Proof. unfold removeN. apply filter_app. Qed.

Lemma NoDup_removeN x xs : NoDup xs -> NoDup (removeN x xs).
Proof. unfold removeN. apply NoDup_filter. Qed.

Lemma subset_In xs ys : subset xs ys = true -> forall x, In x xs -> In x ys.
Proof.
  unfold subset. rewrite forallb_forall. intros H x Hx. apply mem_In. auto.
Qed.

Lemma share_In xs ys : share xs ys = true -> exists x, In x xs /\ In x ys.
Proof.
  unfold share. rewrite existsb_exists. intros [x [Hx Hm]]. exists x. split; auto. apply mem_In; auto.
Qed.

Lemma NoDup_app_disj (xs ys : list N) x : NoDup (xs ++ ys) -> In x xs -> ~ In x ys.
Proof.
  induction xs as [|y r IH]; simpl; intros Hnd Hin Hy; [destruct Hin|].
  inversion Hnd; subst. destruct Hin as [->|Hin].
  - apply H1. apply in_or_app. right. exact Hy.
  - apply IH; auto.
Qed.

Lemma is_nil_true {A} (xs : list A) : is_nil xs = true -> xs = [].
Proof. destruct xs; simpl; congruence. Qed.

Lemma nth_upd_same {A} (xs : list A) i x y : nth_error xs i = Some y -> nth_error (upd i x xs) i = Some x.
Proof.
  revert i. induction xs as [|z r IH]; intros [|i]; simpl; intros H; try discriminate; auto.
Qed.

Lemma nth_upd_other {A} (xs : list A) i j x : i <> j -> nth_error (upd i x xs) j = nth_error xs j.
Proof.
  revert i j. induction xs as [|z r IH]; intros [|i] [|j] H; simpl; auto; try congruence.
Qed.

Lemma length_upd {A} (xs : list A) i x : length (upd i x xs) = length xs.
Proof. revert i. induction xs as [|z r IH]; intros [|i]; simpl; auto. Qed.

Lemma lrun_snoc L done o : lrun L (done ++ [o]) = lstep (lrun L done) o.
Proof. unfold lrun. rewrite fold_left_app. reflexivity. Qed.

Lemma body_spec p g : body p g = [] \/ In (g, body p g) p.
Proof.
  induction p as [|[h b] r IH]; simpl; auto.
  destruct (N.eqb g h) eqn:He.
  - apply N.eqb_eq in He. subst. auto.
  - destruct IH; auto.
Qed.

Lemma forall_points_spec P b : forall L, forall_points P L b = true ->
  forall done o rest, b = done ++ o :: rest -> P (lrun L done) o = true.
Proof.
  induction b as [|x r IH]; intros L H done o rest Hb.
  - destruct done; discriminate.
  - simpl in H. apply andb_true_iff in H. destruct H as [H1 H2].
    destruct done as [|d done']; simpl in Hb; inversion Hb; subst.
    + exact H1.
    + unfold lrun. simpl. apply (IH _ H2 done' o rest eq_refl).
Qed.

(* per-function facts out of a check over the whole table *)
Lemma prog_points p (Q : fname -> list lock -> op -> bool) :
  forallb (fun e => forall_points (Q (fst e)) [] (snd e)) p = true ->
  forall g done o rest, body p g = done ++ o :: rest -> Q g (lrun [] done) o = true.
Proof.
  intros H g done o rest Hb.
  destruct (body_spec p g) as [He | Hin].
  - rewrite He in Hb. destruct done; discriminate.
  - rewrite forallb_forall in H. specialize (H _ Hin). simpl in H.
    eapply forall_points_spec; eauto.
Qed.

Lemma prog_ops p (Q : fname -> op -> bool) :
  forallb (fun e => forallb (Q (fst e)) (snd e)) p = true ->
  forall g o, In o (body p g) -> Q g o = true.
Proof.
  intros H g o Ho.
  destruct (body_spec p g) as [He | Hin].
  - rewrite He in Ho. destruct Ho.
  - rewrite forallb_forall in H. specialize (H _ Hin). simpl in H.
    rewrite forallb_forall in H. auto.
Qed.

(* ---------- the invariant ---------- *)

Section Invariant.
Variable p : prog.
Variable E : fname -> list lock.

Definition at_point (g : fname) (L : list lock) (t : list op) : Prop :=
  exists done, body p g = done ++ t /\ L = lrun [] done.

(* [st] are the frames below an activation of [callee]: each is stopped right after the call of the one above;
   the function at the bottom is an entry point or goroutine body (nothing held at entry) *)
Fixpoint linked (callee : fname) (st : list frame) : Prop :=
  match st with
  | [] => E callee = []
  | fr :: r => at_point (fr_fn fr) (fr_locks fr) (Call callee :: fr_todo fr) /\ linked (fr_fn fr) r
  end.

Definition thread_ok (t : thread) : Prop :=
  match t with
  | [] => True
  | fr :: st => at_point (fr_fn fr) (fr_locks fr) (fr_todo fr) /\ linked (fr_fn fr) st
  end.

Definition locks_of (t : thread) : list lock := flat_map fr_locks t.

Record inv (c : config) : Prop := mkInv {
  inv_ok : forall i t, nth_error (threads c) i = Some t -> thread_ok t;
  inv_own : forall i t l, nth_error (threads c) i = Some t -> (owner c l = Some i <-> In l (locks_of t));
  inv_nodup : forall i t, nth_error (threads c) i = Some t -> NoDup (locks_of t);
  inv_bound : forall l j, owner c l = Some j -> (j < length (threads c))%nat
}.

(* static facts the checks provide *)
Definition wb_facts : Prop :=
  (forall g done l t, body p g = done ++ Rel l :: t -> In l (lrun [] done)) /\
  (forall g, lrun [] (body p g) = []).
Definition spawn_facts : Prop :=
  forall g done h t, body p g = done ++ Spawn h :: t -> E h = [].

Hypothesis Hwb : wb_facts.
Hypothesis Hspawn : spawn_facts.

Lemma at_point_next g L o t : at_point g L (o :: t) -> at_point g (lstep L o) t.
Proof.
  intros [done [Hb HL]]. exists (done ++ [o]). split.
  - rewrite <- app_assoc. exact Hb.
  - rewrite lrun_snoc. subst. reflexivity.
Qed.

Lemma set_owner_eq ow l v : set_owner ow l v l = v.
Proof. unfold set_owner. rewrite N.eqb_refl. reflexivity. Qed.
Lemma set_owner_neq ow l v x : x <> l -> set_owner ow l v x = ow x.
Proof. unfold set_owner. intros H. apply N.eqb_neq in H. rewrite H. reflexivity. Qed.

(* a move of thread i that replaces its stack by t' without touching ownership and with the same locks *)
Lemma inv_replace c i t t' :
  inv c -> nth_error (threads c) i = Some t -> thread_ok t' -> locks_of t' = locks_of t ->
  inv (mkConfig (upd i t' (threads c)) (owner c)).
Proof.
  intros [Hok Hown Hnd Hbd] Hi Hok' Hl.
  constructor; simpl.
  - intros j tj Hj. destruct (Nat.eq_dec i j) as [->|Hne].
    + rewrite (nth_upd_same _ _ _ _ Hi) in Hj. inversion Hj; subst. exact Hok'.
    + rewrite nth_upd_other in Hj by exact Hne. eauto.
  - intros j tj l Hj. destruct (Nat.eq_dec i j) as [->|Hne].
    + rewrite (nth_upd_same _ _ _ _ Hi) in Hj. inversion Hj; subst. rewrite Hl. apply Hown. exact Hi.
    + rewrite nth_upd_other in Hj by exact Hne. apply Hown. exact Hj.
  - intros j tj Hj. destruct (Nat.eq_dec i j) as [->|Hne].
    + rewrite (nth_upd_same _ _ _ _ Hi) in Hj. inversion Hj; subst. rewrite Hl. eapply Hnd. exact Hi.
    + rewrite nth_upd_other in Hj by exact Hne. eauto.
  - intros l j Hj. rewrite length_upd. eauto.
Qed.

Lemma inv_step c i c' : inv c -> step p c i c' -> inv c'.
Proof.
  intros Hinv Hs. pose proof Hinv as [Hok Hown Hnd Hbd].
  inversion Hs; subst; clear Hs.
  - (* acquire *)
    rename H into Hi. rename H0 into Hfree.
    pose proof (Hok _ _ Hi) as [Hat Hlk]. simpl in Hat, Hlk.
    constructor; simpl.
    + intros j tj Hj. destruct (Nat.eq_dec i j) as [->|Hne].
      * rewrite (nth_upd_same _ _ _ _ Hi) in Hj. inversion Hj; subst. simpl. split; auto.
        apply (at_point_next _ _ _ _ Hat).
      * rewrite nth_upd_other in Hj by exact Hne. eauto.
    + intros j tj x Hj. destruct (Nat.eq_dec i j) as [->|Hne].
      * rewrite (nth_upd_same _ _ _ _ Hi) in Hj. inversion Hj; subst. simpl.
        destruct (N.eq_dec x l) as [->|Hx].
        -- rewrite set_owner_eq. split; auto.
        -- rewrite set_owner_neq by exact Hx. rewrite (Hown _ _ x Hi). simpl. intuition congruence.
      * rewrite nth_upd_other in Hj by exact Hne.
        destruct (N.eq_dec x l) as [->|Hx].
        -- rewrite set_owner_eq. split.
           ++ intros Heq. inversion Heq. congruence.
           ++ intros Hin. apply (Hown _ _ l Hj) in Hin. congruence.
        -- rewrite set_owner_neq by exact Hx. apply Hown. exact Hj.
    + intros j tj Hj. destruct (Nat.eq_dec i j) as [->|Hne].
      * rewrite (nth_upd_same _ _ _ _ Hi) in Hj. inversion Hj; subst. simpl.
        constructor.
        -- intros Hin. assert (Ho : owner c l = Some j) by (apply (Hown _ _ l Hi); simpl; exact Hin). congruence.
        -- apply (Hnd _ _ Hi).
      * rewrite nth_upd_other in Hj by exact Hne. eauto.
    + intros x j. rewrite length_upd. destruct (N.eq_dec x l) as [->|Hx].
      * rewrite set_owner_eq. intros Heq. inversion Heq; subst.
        apply nth_error_Some. congruence.
      * rewrite set_owner_neq by exact Hx. eauto.
  - (* release *)
    rename H into Hi. rename H0 into Hmine.
    pose proof (Hok _ _ Hi) as [Hat Hlk]. simpl in Hat, Hlk.
    assert (HinL : In l L).
    { destruct Hat as [done [Hb HL]]. subst L. eapply (proj1 Hwb); eauto. }
    pose proof (Hnd _ _ Hi) as Hnd_i. simpl in Hnd_i.
    assert (Hnot : ~ In l (locks_of st)) by (eapply NoDup_app_disj; eauto).
    constructor; simpl.
    + intros j tj Hj. destruct (Nat.eq_dec i j) as [->|Hne].
      * rewrite (nth_upd_same _ _ _ _ Hi) in Hj. inversion Hj; subst. simpl. split; auto.
        apply (at_point_next _ _ _ _ Hat).
      * rewrite nth_upd_other in Hj by exact Hne. eauto.
    + intros j tj x Hj. destruct (Nat.eq_dec i j) as [->|Hne].
      * rewrite (nth_upd_same _ _ _ _ Hi) in Hj. inversion Hj; subst. simpl.
        destruct (N.eq_dec x l) as [->|Hx].
        -- rewrite set_owner_eq. split; [discriminate|].
           intros Hin. apply in_app_or in Hin. destruct Hin as [Hin|Hin].
           ++ apply removeN_In in Hin. destruct Hin. congruence.
           ++ contradiction.
        -- rewrite set_owner_neq by exact Hx. rewrite (Hown _ _ x Hi). simpl.
           rewrite !in_app_iff. rewrite removeN_In. intuition.
      * rewrite nth_upd_other in Hj by exact Hne.
        destruct (N.eq_dec x l) as [->|Hx].
        -- rewrite set_owner_eq. split; [discriminate|].
           intros Hin. apply (Hown _ _ l Hj) in Hin. congruence.
        -- rewrite set_owner_neq by exact Hx. apply Hown. exact Hj.
    + intros j tj Hj. destruct (Nat.eq_dec i j) as [->|Hne].
      * rewrite (nth_upd_same _ _ _ _ Hi) in Hj. inversion Hj; subst. simpl.
        rewrite <- (removeN_notin l (locks_of st)) by exact Hnot.
        rewrite <- removeN_app. apply NoDup_removeN. exact Hnd_i.
      * rewrite nth_upd_other in Hj by exact Hne. eauto.
    + intros x j. rewrite length_upd. destruct (N.eq_dec x l) as [->|Hx].
      * rewrite set_owner_eq. discriminate.
      * rewrite set_owner_neq by exact Hx. eauto.
  - (* read *)
    rename H into Hi. pose proof (Hok _ _ Hi) as [Hat Hlk]. simpl in Hat, Hlk.
    eapply inv_replace; eauto.
    simpl. split; auto. apply (at_point_next _ _ _ _ Hat).
  - (* write *)
    rename H into Hi. pose proof (Hok _ _ Hi) as [Hat Hlk]. simpl in Hat, Hlk.
    eapply inv_replace; eauto.
    simpl. split; auto. apply (at_point_next _ _ _ _ Hat).
  - (* call *)
    rename H into Hi. pose proof (Hok _ _ Hi) as [Hat Hlk]. simpl in Hat, Hlk.
    eapply inv_replace; eauto.
    simpl. split.
    + exists []. split; reflexivity.
    + split; auto.
  - (* spawn *)
    rename H into Hi. pose proof (Hok _ _ Hi) as [Hat Hlk]. simpl in Hat, Hlk.
    assert (Hinv1 : inv (mkConfig (upd i (mkFrame g L t :: st) (threads c)) (owner c))).
    { eapply inv_replace; eauto. simpl. split; auto. apply (at_point_next _ _ _ _ Hat). }
    destruct Hinv1 as [Hok1 Hown1 Hnd1 Hbd1]. simpl in *.
    assert (HE : E h = []).
    { destruct Hat as [done [Hb _]]. eapply Hspawn; eauto. }
    set (ts := upd i (mkFrame g L t :: st) (threads c)) in *.
    assert (Hnth : forall j tj, nth_error (ts ++ [[mkFrame h [] (body p h)]]) j = Some tj ->
              nth_error ts j = Some tj \/ (j = length ts /\ tj = [mkFrame h [] (body p h)])).
    { intros j tj Hj. destruct (Nat.lt_ge_cases j (length ts)) as [Hlt|Hge].
      - rewrite nth_error_app1 in Hj by exact Hlt. auto.
      - rewrite nth_error_app2 in Hj by exact Hge.
        destruct (j - length ts)%nat as [|k] eqn:Hk; simpl in Hj.
        + inversion Hj; subst. right. split; auto. lia.
        + destruct k; discriminate. }
    constructor; simpl.
    + intros j tj Hj. destruct (Hnth _ _ Hj) as [Hj'|[-> ->]]; eauto.
      simpl. split; auto. exists []. split; reflexivity.
    + intros j tj x Hj. destruct (Hnth _ _ Hj) as [Hj'|[-> ->]]; eauto.
      simpl. split; [|intros []].
      intros Ho. apply Hbd1 in Ho. exact (Nat.lt_irrefl _ Ho).
    + intros j tj Hj. destruct (Hnth _ _ Hj) as [Hj'|[-> ->]]; eauto.
      simpl. constructor.
    + intros x j Ho. rewrite app_length. simpl. apply Hbd1 in Ho.
      eapply Nat.lt_le_trans; [exact Ho | apply Nat.le_add_r].
  - (* return *)
    rename H into Hi. pose proof (Hok _ _ Hi) as [Hat Hlk]. simpl in Hat, Hlk.
    assert (HL : L = []).
    { destruct Hat as [done [Hb HLd]]. rewrite app_nil_r in Hb. subst done. rewrite HLd. apply (proj2 Hwb). }
    subst L.
    eapply inv_replace; eauto.
    destruct st as [|fr r]; simpl; auto.
    simpl in Hlk. destruct Hlk as [Hat2 Hlk2]. split; auto.
    apply (at_point_next _ _ _ _ Hat2).
Qed.

Lemma inv_init ts : (forall g, In g ts -> E g = []) -> inv (init p ts).
Proof.
  intros HE. unfold init. constructor; simpl.
  - intros i t Hi. apply nth_error_In in Hi. apply in_map_iff in Hi. destruct Hi as [g [<- Hg]].
    simpl. split; auto. exists []. split; reflexivity.
  - intros i t l Hi. apply nth_error_In in Hi. apply in_map_iff in Hi. destruct Hi as [g [<- Hg]].
    simpl. split; [discriminate | intros []].
  - intros i t Hi. apply nth_error_In in Hi. apply in_map_iff in Hi. destruct Hi as [g [<- Hg]].
    simpl. constructor.
  - intros l j H. discriminate.
Qed.

Lemma inv_reach ts c : (forall g, In g ts -> E g = []) -> reach p (init p ts) c -> inv c.
Proof.
  intros HE Hr. induction Hr.
  - apply inv_init. exact HE.
  - eapply inv_step; eauto.
Qed.

End Invariant.

(* the boolean well-bracketedness check gives the facts *)
Lemma wb_prog_facts p : wb_prog p = true -> wb_facts p.
Proof.
  intros H. unfold wb_prog in H. split.
  - intros g done l t Hb.
    assert (H1 : forallb (fun e => forall_points ((fun _ => wb_point) (fst e)) [] (snd e)) p = true).
    { rewrite forallb_forall in *. intros e He. specialize (H e He). unfold wb_body in H.
      apply andb_true_iff in H. tauto. }
    pose proof (prog_points p (fun _ => wb_point) H1 g done (Rel l) t Hb) as Hp. simpl in Hp.
    apply mem_In. exact Hp.
  - intros g. destruct (body_spec p g) as [He|Hin].
    + rewrite He. reflexivity.
    + rewrite forallb_forall in H. specialize (H _ Hin). unfold wb_body in H. simpl in H.
      apply andb_true_iff in H. destruct H as [_ H]. apply is_nil_true. exact H.
Qed.

(* ---------- the executable semantics agrees with the relation ---------- *)

Lemma exec_step_sound p c i c' : exec_step p c i = Some c' -> step p c i c'.
Proof.
  unfold exec_step. intros H.
  destruct (nth_error (threads c) i) as [t|] eqn:Hi; [|discriminate].
  destruct t as [|[g L todo] st]; [discriminate|].
  destruct todo as [|o t].
  - inversion H; subst. eapply step_ret; eauto.
  - destruct o.
    + destruct (owner c l) eqn:Ho; [discriminate|]. inversion H; subst. eapply step_acq; eauto.
    + destruct (owner c l) as [j|] eqn:Ho; [|discriminate].
      destruct (Nat.eqb j i) eqn:Hj; [|discriminate]. apply Nat.eqb_eq in Hj. subst j.
      inversion H; subst. eapply step_rel; eauto.
    + inversion H; subst. eapply step_rd; eauto.
    + inversion H; subst. eapply step_wr; eauto.
    + inversion H; subst. eapply step_call; eauto.
    + inversion H; subst. eapply step_spawn; eauto.
Qed.

Lemma run_reach p c0 : forall sched c c', reach p c0 c -> run p c sched = Some c' -> reach p c0 c'.
Proof.
  induction sched as [|i r IH]; intros c c' Hr H; simpl in H.
  - inversion H; subst. exact Hr.
  - destruct (exec_step p c i) as [c1|] eqn:He; [|discriminate].
    eapply IH; [|exact H]. eapply reach_step; [exact Hr|]. apply exec_step_sound. exact He.
Qed.

Lemma run_reach_init p ts sched c' : run p (init p ts) sched = Some c' -> reach p (init p ts) c'.
Proof. apply run_reach. apply reach_refl. Qed.
