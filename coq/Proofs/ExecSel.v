(* exec_rule restricted to action trees whose action names (along the chain exec follows)
   satisfy a boolean predicate: the leaf obligation is only needed for the selected names.
   Used for reflective table checks ("no state of this table runs action X"). *)
From Coq Require Import String ZArith Bool List Lia.
From RecordUpdate Require Import RecordSet.
From PS Require Import Base.Wrap Model.Data Model.Actions Model.Fsm Model.TableChecks Proofs.Monad Proofs.ExecRule.
Import ListNotations RecordSetNotations.
Open Scope Z_scope.

Strategy opaque [exec pay_loop].

Section ExecSel.
Variable tc : tl_consts.
Variable dec : string -> option (string * Z * Z).
Variable ok : string -> bool.
Variable Q : swap_data -> string * swap_data -> list effect -> Prop.

Hypothesis Q_leaf : forall name f, ok name = true -> In (name, f) (leaf_actions tc dec) ->
  forall d w r w' es, f d w = (r, w', es) -> Q d r es.
Hypothesis Q_unknown : forall d, Q d (Ev_Unknown, d) [].
Hypothesis Q_reject_logged : ok "CheckRequestWrapperAction" = true -> forall d, Q d (Ev_Failed, d) [ERequestedSwapLog].
Hypothesis Q_fail : forall d, Q d (Ev_Failed, d) [].
Hypothesis Q_blinding : ok "SetBlindingKeyActionWrapper" = true -> forall d k r es,
  String.eqb (get_chain d) lbtc_chain = true -> Q (d <| d_blinding_hex := k |>) r es -> Q d r es.
Hypothesis Q_stop : ok "StopSendMessageWithRetryWrapperAction" = true -> forall d r es, Q d r es -> Q d r (ERetransStop :: es).
Hypothesis Q_panic : ok "CheckPremiumAmount" = true -> forall d, check_premium d = None -> Q d (Ev_Panic, d) [].
Hypothesis Q_premium_ok : ok "CheckPremiumAmount" = true -> forall d r es, check_premium d = Some true -> Q d r es -> Q d r es.
Hypothesis Q_suspicious : ok "AddSuspiciousPeerAction" = true -> forall d r es, Q d r es -> Q d r (ESuspicious (d_peer d) :: es).

Theorem exec_rule_sel fuel : forall a d w r w' es,
  chain_ok ok fuel a = true ->
  exec tc dec fuel a d w = (r, w', es) -> Q d r es.
Proof.
  induction fuel as [|fuel IH]; intros [name ch] d w r w' es Hok H.
  - rewrite exec_O in H. apply ret_inv in H. destruct H as (-> & _ & ->). apply Q_unknown.
  - rewrite exec_S in H. cbv zeta in H.
    cbn [chain_ok] in Hok. apply andb_true_iff in Hok. destruct Hok as [Hname Hch].
    assert (Next : forall d' w1 r1 w2 e1,
              (match first_child ch with Some c => exec tc dec fuel c d' | None => ret (Ev_Unknown, d') end) w1
              = (r1, w2, e1) -> Q d' r1 e1).
    { intros d' w1 r1 w2 e1 Hn. destruct (first_child ch) as [c|].
      - eapply IH; eauto.
      - apply ret_inv in Hn. destruct Hn as (-> & _ & ->). apply Q_unknown. }
    destruct (String.eqb name "CheckRequestWrapperAction") eqn:EnCheck.
    { apply String.eqb_eq in EnCheck; subst name. apply bind_inv in H. destruct H as (cr & w1 & e1 & e2 & Hc & H & ->).
      apply check_request_no_effects in Hc. subst e1. simpl.
      destruct cr as [[|]|].
      - eapply Next; eauto.
      - unfold log_rejected in H. apply bind_inv in H. destruct H as (u & w2 & e3 & e4 & He & H & ->).
        apply emit_inv in He. destruct He as (-> & ->).
        apply ret_inv in H. destruct H as (-> & _ & ->). apply Q_reject_logged; auto.
      - apply ret_inv in H. destruct H as (-> & _ & ->). apply Q_fail. }
    destruct (String.eqb name "SetBlindingKeyActionWrapper") eqn:EnSetBl.
    { apply String.eqb_eq in EnSetBl; subst name. destruct (String.eqb (get_chain d) lbtc_chain) eqn:El.
      - apply bind_inv in H. destruct H as (k & w1 & e1 & e2 & Hp & H & ->).
        apply pop_inv in Hp. subst e1. simpl. eapply Q_blinding; eauto.
      - eapply Next; eauto. }
    destruct (String.eqb name "StopSendMessageWithRetryWrapperAction") eqn:EnStopS.
    { apply String.eqb_eq in EnStopS; subst name. apply bind_inv in H. destruct H as (u & w1 & e1 & e2 & He & H & ->).
      apply emit_inv in He. destruct He as (-> & ->). simpl. apply Q_stop; auto. eapply Next; eauto. }
    destruct (String.eqb name "CheckPremiumAmount") eqn:EnPrem.
    { apply String.eqb_eq in EnPrem; subst name. destruct (check_premium d) as [[|]|] eqn:Ep.
      - eapply Q_premium_ok; eauto.
      - apply ret_inv in H. destruct H as (-> & _ & ->). apply Q_fail.
      - apply ret_inv in H. destruct H as (-> & _ & ->). apply Q_panic; auto. }
    destruct (String.eqb name "AddSuspiciousPeerAction") eqn:EnAddSu.
    { apply String.eqb_eq in EnAddSu; subst name. apply bind_inv in H. destruct H as (ok0 & w1 & e1 & e2 & Hp & H & ->).
      apply pop_inv in Hp. subst e1.
      apply bind_inv in H. destruct H as (u & w2 & e3 & e4 & He & H & ->).
      apply emit_inv in He. destruct He as (-> & ->). simpl. apply Q_suspicious; auto. eapply Next; eauto. }
    destruct (assoc_str name (leaf_actions tc dec)) as [f|] eqn:Ef.
    + apply assoc_str_in in Ef. eapply Q_leaf; eauto.
    + apply ret_inv in H. destruct H as (-> & _ & ->). apply Q_unknown.
Qed.

End ExecSel.

(* ---- soundness of the table-level checks of Model/TableChecks.v ---- *)

Lemma lookup_state_in t s sd : lookup_state t s = Some sd -> In (s, sd) t.
Proof. unfold lookup_state. apply assoc_str_in. Qed.

Lemma table_avoids_sound t n s sd a :
  table_avoids t n = true -> lookup_state t s = Some sd -> st_action sd = Some a ->
  chain_ok (name_isnt n) action_fuel a = true.
Proof.
  intros Ht Hl Ha. apply lookup_state_in in Hl. unfold table_avoids in Ht.
  rewrite forallb_forall in Ht. specialize (Ht _ Hl). cbn in Ht. rewrite Ha in Ht. exact Ht.
Qed.

Lemma table_avoids_state t n s : table_avoids t n = true -> state_avoids t n s = true.
Proof.
  intros Ht. unfold state_avoids. destruct (lookup_state t s) as [sd|] eqn:Hl; [|reflexivity].
  destruct (st_action sd) as [a|] eqn:Ha; [|reflexivity]. eapply table_avoids_sound; eauto.
Qed.

Lemma state_avoids_sound t n s sd a :
  state_avoids t n s = true -> lookup_state t s = Some sd -> st_action sd = Some a ->
  chain_ok (name_isnt n) action_fuel a = true.
Proof. unfold state_avoids. intros H Hl Ha. rewrite Hl, Ha in H. exact H. Qed.

Lemma entries_by_sound t n ev cur e nxt :
  entries_by t n ev = true -> next_state t cur e = Some nxt ->
  state_avoids t n nxt = true \/ e = ev.
Proof.
  intros Ht Hn. unfold next_state in Hn.
  destruct (lookup_state t cur) as [sd|] eqn:Hl; [|discriminate].
  apply lookup_state_in in Hl. apply assoc_str_in in Hn.
  unfold entries_by in Ht. rewrite forallb_forall in Ht. specialize (Ht _ Hl). cbn in Ht.
  rewrite forallb_forall in Ht. specialize (Ht _ Hn). cbn in Ht.
  apply orb_true_iff in Ht. destruct Ht as [Ht|Ht]; [left; exact Ht|right].
  apply String.eqb_eq in Ht. exact Ht.
Qed.

Lemma chain_ok_and ok1 ok2 fuel : forall a,
  chain_ok ok1 fuel a = true -> chain_ok ok2 fuel a = true ->
  chain_ok (fun n => ok1 n && ok2 n) fuel a = true.
Proof.
  induction fuel as [|f IH]; intros [name ch]; cbn [chain_ok]; auto.
  intros H1 H2. apply andb_true_iff in H1. apply andb_true_iff in H2.
  destruct H1 as [A1 B1]. destruct H2 as [A2 B2]. rewrite A1, A2. cbn [andb].
  destruct (first_child ch); auto.
Qed.
