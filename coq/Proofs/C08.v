(* Lemmas for C08: the opening_tx_broadcasted message describes the broadcast
   transaction exactly. *)
From Coq Require Import String ZArith NArith Bool List Lia ZifyBool ZifyNat ZifyN.
From RecordUpdate Require Import RecordSet.
From PS Require Import Base.Corr Base.Wrap Base.ScriptOps Model.ScriptInterp Model.OpeningScript
  Gen.ConstsC03 Gen.ConstsC08 Gen.ConstsSwap Model.Tx Model.OpeningTx Proofs.C02 Proofs.C03
  Model.Data Model.Actions Proofs.Monad Proofs.MTac.
Import ListNotations RecordSetNotations.
Open Scope Z_scope.

(* ---------- generated constants ---------- *)
Lemma gen_c08_constants :
  gen_invoice_expiry_btc_v6 = 86400 /\ gen_invoice_cltv_btc_v6 = 503 /\
  gen_invoice_expiry_btc_v7 = 86400 /\ gen_invoice_cltv_btc_v7 = 503 /\
  gen_invoice_expiry_lbtc_v6 = 3600 /\ gen_invoice_cltv_lbtc_v6 = 29 /\
  gen_invoice_expiry_lbtc_v7 = 3600 /\ gen_invoice_cltv_lbtc_v7 = 29.
Proof. repeat split; reflexivity. Qed.

(* ---------- Bitcoin: the index GetVoutAndVerify reports ---------- *)
Lemma find_swap_out_spec amt want outs : forall k i o,
  find_swap_out amt want k outs = Some (i, o) ->
  k <= i /\ nth_z outs (i - k) = Some o /\ o_value o = amt /\ o_script o = want.
Proof.
  induction outs as [|x r IH]; intros k i o H; simpl in H; [discriminate|].
  destruct ((o_value x =? amt) && bytes_eqb want (o_script x)) eqn:E.
  - apply andb_prop in E as [E1 E2]. apply Z.eqb_eq in E1. apply bytes_eqb_eq in E2.
    inversion H; subst. replace (i - i) with 0 by lia. simpl. repeat split; auto; lia.
  - apply IH in H as (Hk & Hn & Hv & Hs). repeat split; auto; try lia.
    rewrite nth_z_cons by lia. replace (i - k - 1) with (i - (k + 1)) by lia. exact Hn.
Qed.

Lemma nth_z_nonneg {A} (l : list A) j x : nth_z l j = Some x -> 0 <= j.
Proof.
  revert j; induction l as [|y r IH]; intros j H; simpl in H; [discriminate|].
  destruct (Z.eqb_spec j 0); [lia|]. destruct (Z.ltb_spec j 0); [discriminate|]. lia.
Qed.

Lemma find_swap_out_complete amt want outs : forall k j o,
  nth_z outs j = Some o -> o_value o = amt -> o_script o = want ->
  exists i o', find_swap_out amt want k outs = Some (i, o').
Proof.
  induction outs as [|x r IH]; intros k j o H Hv Hs; simpl in H; [discriminate|].
  simpl. destruct ((o_value x =? amt) && bytes_eqb want (o_script x)) eqn:E; [eauto|].
  destruct (Z.eqb_spec j 0) as [->|Hne].
  - simpl in H. inversion H; subst x. rewrite Hv, Hs, Z.eqb_refl in E. cbn [andb] in E.
    assert (bytes_eqb want want = true) by (apply bytes_eqb_eq; reflexivity). congruence.
  - destruct (Z.ltb_spec j 0); [discriminate|]. eapply IH; eauto.
Qed.

(* the wallet funded the requested output somewhere: amount to the P2WSH script *)
Definition funds_request (amount : Z) (want : bytes) (outs : list txout) : Prop :=
  exists j o, nth_z outs j = Some o /\ o_value o = amount /\ o_script o = want.

Lemma btc_create_opening_ok backend p want txid outs in_sum redeem :
  redeem_script p gen_onchain_bitcoin_csv_c03 = Some redeem ->
  0 <= sp_amount p < two63 ->
  funds_request (sp_amount p) want outs ->
  exists vout o,
    btc_create_opening backend p want (Some (txid, outs)) in_sum false
      = mk_or 0 txid vout (u64 (i64 (in_sum - i64 (sum_values outs)))) [(txid, outs)] /\
    nth_z outs vout = Some o /\ o_value o = sp_amount p /\ o_script o = want.
Proof.
  intros Hr Ha (j & o & Hn & Hv & Hs).
  unfold btc_create_opening, btc_get_vout. rewrite Hr.
  rewrite (i64_small (sp_amount p)) by (unfold two63 in *; lia).
  destruct (find_swap_out_complete (sp_amount p) want outs 0 j o Hn Hv Hs) as (i & o' & Hf).
  rewrite Hf. apply find_swap_out_spec in Hf as (Hk & Hn' & Hv' & Hs'). rewrite Z.sub_0_r in Hn'.
  exists i, o'. auto.
Qed.

(* whenever the adapter reports nothing it has told the wallet to broadcast nothing *)
Lemma btc_create_opening_fail_silent backend p want funded in_sum bf :
  op_result (btc_create_opening backend p want funded in_sum bf) <> 0%N ->
  op_bcast (btc_create_opening backend p want funded in_sum bf) = [].
Proof.
  unfold btc_create_opening.
  destruct (redeem_script p gen_onchain_bitcoin_csv_c03); [|reflexivity].
  destruct funded as [[txid outs]|]; [|reflexivity].
  destruct (btc_get_vout p want outs) as [[ok v]| |]; try reflexivity.
  destruct bf; [reflexivity|]. cbn. congruence.
Qed.

(* ---------- Liquid ---------- *)
Definition lfunds_request (want : bytes) (outs : list lout) : Prop :=
  exists j o, nth_z outs j = Some o /\ lo_script o = want.

Lemma lbtc_find_vout_complete want outs : forall k j o,
  nth_z outs j = Some o -> lo_script o = want ->
  exists i o', lbtc_find_vout want k outs = Some (i, o').
Proof.
  induction outs as [|x r IH]; intros k j o H Hs; simpl in H; [discriminate|].
  simpl. destruct (bytes_eqb (lo_script x) want) eqn:E; [eauto|].
  destruct (Z.eqb_spec j 0) as [->|Hne].
  - simpl in H. inversion H; subst x. assert (bytes_eqb (lo_script o) want = true) by (apply bytes_eqb_eq; exact Hs). congruence.
  - destruct (Z.ltb_spec j 0); [discriminate|]. eapply IH; eauto.
Qed.

Lemma lbtc_create_opening_ok p csv want txid outs fee redeem :
  redeem_script p csv = Some redeem ->
  lfunds_request want outs ->
  exists vout o,
    lbtc_create_opening p csv want (Some (txid, outs, fee)) = mk_lor 0 txid vout fee /\
    nth_z outs vout = Some o /\ lo_script o = want /\
    (forall j o', 0 <= j < vout -> nth_z outs j = Some o' -> lo_script o' <> want).
Proof.
  intros Hr (j & o & Hn & Hs). unfold lbtc_create_opening. rewrite Hr.
  destruct (lbtc_find_vout_complete want outs 0 j o Hn Hs) as (i & o' & Hf). rewrite Hf.
  apply lbtc_find_vout_spec in Hf as (Hk & Hn' & Hs' & Hfirst). rewrite Z.sub_0_r in *.
  exists i, o'. repeat split; auto.
Qed.

(* the output reported is the one the swap's blinding key unblinds to the swap amount, provided the
   wallet blinded the requested output for the address it was given (and pays the script once) *)
Lemma lbtc_reported_output_unblinds p csv want txid outs fee redeem :
  redeem_script p csv = Some redeem ->
  lbtc_validate p csv want outs = true ->
  exists vout o,
    lbtc_create_opening p csv want (Some (txid, outs, fee)) = mk_lor 0 txid vout fee /\
    nth_z outs vout = Some o /\ lo_script o = want /\
    lbtc_validate_output o (sp_amount p) = Some (sp_amount p).
Proof.
  intros Hr Hv.
  destruct (lbtc_validate_inv _ _ _ _ Hv) as (vi & o & rd & _ & Hfv & Hvo & _ & Hn & Hsc & _ & _).
  unfold lbtc_create_opening. rewrite Hr, Hfv. exists vi, o. auto.
Qed.

(* ---------- the message (shared model of swap/actions.go) ---------- *)
Lemma otb_message_describes_results tc d w ev d' w' es :
  act_create_and_broadcast_opening tc d w = ((ev, d'), w', es) ->
  d_otb d = None ->
  forall msg, d_otb d' = Some msg ->
  exists pre hash payreq claim amt pol o,
    let d1 := d <| d_claim_preimage := pre |> in
    let lb := String.eqb (get_chain d1) lbtc_chain in
    timelock_policy tc d1 = Some pol /\
    get_claim_amount d1 = Some claim /\ get_opening_amount d1 = Some amt /\
    es = [EMkInvoice PKClaim (u64_mul claim 1000) pre (invoice_expiry d1) (invoice_cltv tc d1);
          EBroadcastOpening (get_taker_pubkey d1) (get_maker_pubkey d1) hash amt (p_csv pol) lb (Some o)] /\
    msg = mkOtb (match get_id d1 with Some i => i | None => EmptyString end) payreq
                (or_txid o) (or_vout o) (if lb then blinding_of d1 else EmptyString) /\
    d_next_msg d' = Some (MOtb msg) /\ ev = Ev_Succeeded.
Proof.
  intros H Hnone msg Hmsg.
  unfold act_create_and_broadcast_opening in H. rewrite Hnone in H.
  msym; cbn in Hmsg; try congruence.
  all: try (rewrite Hnone in Hmsg; discriminate).
  inversion Hmsg; subst msg.
  match goal with
  | p : (string * string)%type |- _ => exists (fst p), (snd p)
  end.
  do 5 eexists. cbn zeta.
  repeat split; eauto.
Qed.

(* expiry and final CLTV of that invoice, for the generated timelock constants *)
Lemma invoice_constants d pol :
  timelock_policy tl_consts_gen d = Some pol ->
  (String.eqb (get_chain d) btc_chain = true ->
     invoice_expiry d = 86400 /\ invoice_cltv tl_consts_gen d = 503) /\
  (String.eqb (get_chain d) lbtc_chain = true ->
     invoice_expiry d = 3600 /\ invoice_cltv tl_consts_gen d = 29).
Proof.
  intros Hp. unfold invoice_cltv, invoice_expiry. rewrite Hp.
  unfold timelock_policy in Hp.
  destruct (String.eqb (get_chain d) btc_chain) eqn:Eb.
  - split; [intros _|intros Hl].
    + destruct ((get_version d =? tc_legacy_version tl_consts_gen) || (get_version d =? tc_current_version tl_consts_gen));
        [|discriminate]. inversion Hp; subst. split; reflexivity.
    + apply String.eqb_eq in Eb. apply String.eqb_eq in Hl. rewrite Eb in Hl. discriminate.
  - split; [discriminate|intros Hl]. rewrite Hl in *.
    destruct (get_version d =? tc_legacy_version tl_consts_gen).
    + inversion Hp; subst. split; reflexivity.
    + destruct (get_version d =? tc_current_version tl_consts_gen); [|discriminate].
      inversion Hp; subst. split; reflexivity.
Qed.

(* the invoice amount is exactly claim * 1000 msat below the uint64 wrap *)
Lemma invoice_amount_exact claim : 0 <= claim -> claim * 1000 < two64 -> u64_mul claim 1000 = claim * 1000.
Proof. intros H0 H1. unfold u64_mul. apply u64_small. lia. Qed.

(* ---------- satisfiability ---------- *)
Lemma ex_btc_open :
  funds_request 100000 ex_want ex_outs /\
  op_result (btc_create_opening 0 ex_params ex_want (Some ("txid"%string, ex_outs)) 106000 false) = 0%N /\
  op_vout (btc_create_opening 0 ex_params ex_want (Some ("txid"%string, ex_outs)) 106000 false) = 1.
Proof.
  split; [exists 1, (mk_out 100000 ex_want); repeat split; reflexivity|]. split; vm_compute; reflexivity.
Qed.

Lemma ex_lbtc_open :
  lfunds_request ex_want ex_louts /\
  lop_vout (lbtc_create_opening ex_params 10080 ex_want (Some ("txid"%string, ex_louts, 300))) = 1.
Proof.
  split; [exists 1, (mk_lout ex_want true false (Some (mk_unb 100000 true true))); split; reflexivity|].
  vm_compute. reflexivity.
Qed.

(* ---------- the full statements, parameterised by the implementation (used for the findings) ---------- *)
Definition C08_bitcoin_full (getvout : sparams -> bytes -> list txout -> res (bool * Z)) : Prop :=
  forall p want outs redeem,
  redeem_script p gen_onchain_bitcoin_csv_c03 = Some redeem ->
  0 <= sp_amount p < two63 ->
  funds_request (sp_amount p) want outs ->
  exists i o, getvout p want outs = ROk (true, i) /\
              nth_z outs i = Some o /\ o_value o = sp_amount p /\ o_script o = want.

Definition C08_liquid_full
  (create : sparams -> Z -> bytes -> option (string * list lout * Z) -> lopen_res) : Prop :=
  forall p csv want txid outs fee redeem,
  redeem_script p csv = Some redeem ->
  lfunds_request want outs ->
  exists vout o, create p csv want (Some (txid, outs, fee)) = mk_lor 0 txid vout fee /\
                 nth_z outs vout = Some o /\ lo_script o = want.

Lemma bitcoin_full_holds : C08_bitcoin_full btc_get_vout.
Proof.
  intros p want outs redeem Hr Ha (j & o & Hn & Hv & Hs).
  unfold btc_get_vout. rewrite Hr. rewrite (i64_small (sp_amount p)) by (unfold two63 in *; lia).
  destruct (find_swap_out_complete (sp_amount p) want outs 0 j o Hn Hv Hs) as (i & o' & Hf).
  rewrite Hf. apply find_swap_out_spec in Hf as (Hk & Hn' & Hv' & Hs'). rewrite Z.sub_0_r in Hn'.
  exists i, o'. auto.
Qed.

Lemma liquid_full_holds : C08_liquid_full lbtc_create_opening.
Proof.
  intros p csv want txid outs fee redeem Hr Hf.
  destruct (lbtc_create_opening_ok p csv want txid outs fee redeem Hr Hf) as (v & o & H1 & H2 & H3 & _).
  exists v, o. auto.
Qed.
