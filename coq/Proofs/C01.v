(* C01: the taker pays the claim invoice only for a validated, confirmed opening output. *)
From Coq Require Import String ZArith Bool List Lia.
From RecordUpdate Require Import RecordSet.
From PS Require Import Base.Wrap Model.Data Model.Actions Model.Fsm Model.History Model.FsmCorr
  Model.TableChecks Model.C01Corr Gen.ConstsSwap Gen.Tables
  Proofs.Monad Proofs.ExecRule Proofs.MTac Proofs.Engine Proofs.HistRule Proofs.ExecSel Proofs.GhostRule Proofs.C04.
Import ListNotations RecordSetNotations.
Open Scope Z_scope.

Strategy opaque [event_loop exec loop_fuel action_fuel pay_loop].

(* ---- the generated constants are the numbers of the property text ---- *)
Lemma c01_constants :
  policy_btc_v7 = Some (mkPolicy 1008 504 503 0 true) /\
  policy_lbtc_v7 = Some (mkPolicy 10080 60 29 32 true) /\
  policy_lbtc_v6 = Some (mkPolicy 60 30 29 0 false) /\
  bitcoin_csv = 1008 /\ bitcoin_min_confs = 3 /\ liquid_confs = 2 /\
  protocol_version = 7 /\ legacy_protocol_version = 6.
Proof. repeat split; reflexivity. Qed.

(* ---- the reflective check holds of the four generated tables ---- *)
Lemma c01_tables_ok :
  c01_table_ok table_swap_out_sender = true /\ c01_table_ok table_swap_in_receiver = true /\
  c01_table_ok table_swap_out_receiver = true /\ c01_table_ok table_swap_in_sender = true /\
  table_avoids table_swap_out_sender pay_action = false /\ table_avoids table_swap_in_receiver pay_action = false.
Proof. repeat split; vm_compute; reflexivity. Qed.

(* ---------- the invoice facts depend on set-once fields only ---------- *)
Definition key (d : swap_data) :=
  (d_in_req d, d_out_req d, d_out_agr d, d_otb d, d_claim_hash d).

Lemma policy_key tc d d' :
  d_in_req d' = d_in_req d -> d_out_req d' = d_out_req d -> timelock_policy tc d' = timelock_policy tc d.
Proof.
  intros H1 H2. destruct d, d'. cbn in H1, H2. subst.
  unfold timelock_policy, get_version, get_chain, get_asset, get_network, get_request. cbn.
  destruct d_in_req; [reflexivity|]. destruct d_out_req; reflexivity.
Qed.

Lemma invoice_okb_key tc dec d d' : key d' = key d -> invoice_okb tc dec d' = invoice_okb tc dec d.
Proof.
  intros H. unfold key in H. inversion H as [[H1 H2 H3 H4 H5]].
  unfold invoice_okb. rewrite H4, H5, (policy_key tc d d' H1 H2).
  unfold get_claim_amount, csv_height, get_chain, get_asset, get_network, get_request.
  rewrite H1, H2, H3. reflexivity.
Qed.

Lemma legacyb_key tc d d' : key d' = key d -> legacyb tc d' = legacyb tc d.
Proof.
  intros H. unfold key in H. inversion H as [[H1 H2 H3 H4 H5]].
  unfold legacyb. rewrite (policy_key tc d d' H1 H2). reflexivity.
Qed.

Lemma colb_key tc dec d d' : key d' = key d -> colb tc dec d' = colb tc dec d.
Proof. intros H. unfold colb. rewrite (invoice_okb_key tc dec d d' H), (legacyb_key tc d d' H). reflexivity. Qed.

(* ---------- exec-level facts: what an action does to the invoice facts ---------- *)
Lemma pay_loop_bcd n : forall csvh pol payreq d w r w' es,
  pay_loop n csvh pol payreq d w = (r, w', es) ->
  key (snd r) = key d /\ fst r <> Ev_TxConfirmed /\ existsb is_watch_conf es = false.
Proof.
  induction n as [|n IH]; intros csvh pol payreq d w r w' es H.
  - rewrite pay_loop_O in H. msym. cbn. repeat split; try reflexivity. discriminate.
  - rewrite pay_loop_S in H. msym; list_simpl; cbn [fst snd existsb is_watch_conf orb];
      try (repeat split; try reflexivity; discriminate).
    apply IH in H. exact H.
Qed.

Section Facts.
Variable tc : tl_consts.
Variable dec : string -> option (string * Z * Z).

Notation col := (colb tc dec).

Definition Qbcd (d : swap_data) (r : string * swap_data) (es : list effect) : Prop :=
  (fst r = Ev_TxConfirmed -> col (snd r) = true) /\
  (col d = true -> col (snd r) = true) /\
  (existsb is_watch_conf es = true -> col (snd r) = true).

Definition ok_taker (n : string) : bool := name_isnt create_out_action n && name_isnt blind_wrapper n.

Lemma colb_legacy_upd d d' :
  legacyb tc d = true -> d_in_req d' = d_in_req d -> d_out_req d' = d_out_req d -> col d' = true.
Proof.
  intros H H1 H2. unfold colb, legacyb in *. rewrite (policy_key tc d d' H1 H2).
  rewrite H. apply orb_true_r.
Qed.

Lemma colb_no_otb d : col d = true -> d_otb d = None -> legacyb tc d = true.
Proof.
  unfold colb, invoice_okb. intros H Ho. rewrite Ho in H. cbn in H. exact H.
Qed.

Lemma legacyb_policy d t : timelock_policy tc d = Some t -> legacyb tc d = negb (p_allow_new t).
Proof. intros H. unfold legacyb. rewrite H. reflexivity. Qed.

(* AwaitTxConfirmationAction accepted the invoice: the record with the bound hash is checked *)
Lemma await_accept d t o s msat cltv claim :
  timelock_policy tc d = Some t -> p_allow_new t = true -> d_otb d = Some o ->
  dec (ob_payreq o) = Some (s, msat, cltv) -> get_claim_amount d = Some claim ->
  (if String.eqb (get_chain d) btc_chain
   then negb (csv_height tc d / 2 <? cltv) && (msat =? u64_mul claim 1000)
   else validate_claim_invoice msat cltv claim t) = true ->
  invoice_okb tc dec (d <| d_claim_hash := s |>) = true.
Proof.
  intros Hp Ha Ho Hd Hc Hi. unfold invoice_okb.
  change (timelock_policy tc (d <| d_claim_hash := s |>)) with (timelock_policy tc d). rewrite Hp.
  change (d_otb (d <| d_claim_hash := s |>)) with (d_otb d). rewrite Ho.
  change (get_claim_amount (d <| d_claim_hash := s |>)) with (get_claim_amount d). rewrite Hc, Hd.
  change (get_chain (d <| d_claim_hash := s |>)) with (get_chain d).
  change (csv_height tc (d <| d_claim_hash := s |>)) with (csv_height tc d).
  change (d_claim_hash (d <| d_claim_hash := s |>)) with s.
  rewrite Ha, String.eqb_refl. cbn [andb]. rewrite andb_true_r.
  destruct (String.eqb (get_chain d) btc_chain).
  - apply andb_true_iff in Hi. destruct Hi as [H1 H2]. rewrite H2. cbn [andb].
    rewrite Z.leb_antisym. exact H1.
  - unfold validate_claim_invoice in Hi.
    apply andb_true_iff in Hi. destruct Hi as [Hi H3]. apply andb_true_iff in Hi. destruct Hi as [H1 H2].
    rewrite H3. cbn [andb]. rewrite !Z.leb_antisym, H1, H2. reflexivity.
Qed.

(* a record that was already checked has exactly the invoice's hash bound *)
Lemma await_hash_same d t o s msat cltv :
  timelock_policy tc d = Some t -> p_allow_new t = true -> d_otb d = Some o ->
  dec (ob_payreq o) = Some (s, msat, cltv) -> col d = true -> col (d <| d_claim_hash := s |>) = true.
Proof.
  intros Hp Ha Ho Hd Hc. unfold colb in Hc. rewrite (legacyb_policy d t Hp), Ha in Hc. cbn in Hc.
  rewrite orb_false_r in Hc. pose proof Hc as Hc2. unfold invoice_okb in Hc. rewrite Ho, Hp in Hc.
  destruct (get_claim_amount d); [|discriminate]. rewrite Hd in Hc.
  apply andb_true_iff in Hc. destruct Hc as [_ He]. apply String.eqb_eq in He. subst s.
  rewrite (colb_key tc dec d); [|reflexivity]. unfold colb. rewrite Hc2. reflexivity.
Qed.

Ltac bcd_trivial :=
  unfold Qbcd; cbn [fst snd existsb is_watch_conf orb app];
  split; [intros Hx; try discriminate Hx; try (cbv in Hx; discriminate Hx)|
  split; [intros Hc; try exact Hc; try (match type of Hc with colb _ _ ?d0 = true => rewrite (colb_key tc dec d0); [exact Hc|reflexivity] end)|
          intros Hx; try discriminate Hx]].

Lemma leaf_bcd name f : ok_taker name = true -> In (name, f) (leaf_actions tc dec) ->
  forall d w r w' es, f d w = (r, w', es) -> Qbcd d r es.
Proof.
  intros Hok Hin d w r w' es H. leaf_cases Hin.
  all: try (cbv in Hok; discriminate Hok).
  all: autounfold with actions in H; msym; list_simpl.
  all: try (bcd_trivial; fail).
  all: repeat match goal with E : negb _ = false |- _ => apply negb_false_iff in E end.
  - (* CreateAndBroadcastOpeningTransaction created the message: only legacy records are "checked" without one *)
    bcd_trivial. eapply colb_legacy_upd; [eapply colb_no_otb; eauto|reflexivity|reflexivity].
  - (* AwaitTxConfirmationAction, legacy branch *)
    assert (Hl : legacyb tc d = true).
    { match goal with Hp : timelock_policy tc d = Some ?t, E : negb (p_allow_new ?t) = true |- _ =>
        rewrite (legacyb_policy d t Hp); exact E end. }
    unfold Qbcd. cbn [fst snd existsb is_watch_conf orb].
    repeat split; intros; try discriminate; try (eapply colb_legacy_upd; eauto; fail).
  - bcd_trivial. eapply await_hash_same; eauto.
  - bcd_trivial. eapply await_hash_same; eauto.
  - assert (Hacc : col (d <| d_claim_hash := s |>) = true).
    { unfold colb. erewrite await_accept; eauto. }
    unfold Qbcd. cbn [fst snd]. repeat split; intros; exact Hacc.
  - bcd_trivial. eapply await_hash_same; eauto.
  - apply pay_loop_bcd in H. destruct H as (Hk & Hev & Hw).
    unfold Qbcd. cbn [existsb is_watch_conf orb]. rewrite Hw.
    split; [intros Hx; contradiction|]. split; [|discriminate].
    intros Hc. rewrite (colb_key tc dec d); assumption.
Qed.


Lemma ok_taker_wrappers :
  ok_taker "CheckRequestWrapperAction" = true /\ ok_taker "SetBlindingKeyActionWrapper" = false /\
  ok_taker "StopSendMessageWithRetryWrapperAction" = true /\ ok_taker "CheckPremiumAmount" = true /\
  ok_taker "AddSuspiciousPeerAction" = true.
Proof. repeat split; reflexivity. Qed.

Theorem exec_bcd fuel a d w r w' es :
  chain_ok ok_taker fuel a = true -> exec tc dec fuel a d w = (r, w', es) -> Qbcd d r es.
Proof.
  apply (exec_rule_sel tc dec ok_taker Qbcd).
  - intros. eapply leaf_bcd; eauto.
  - intros d0. unfold Qbcd. cbn. repeat split; auto; discriminate.
  - intros _ d0. unfold Qbcd. cbn. repeat split; auto; discriminate.
  - intros d0. unfold Qbcd. cbn. repeat split; auto; discriminate.
  - intros Hf. discriminate Hf.
  - intros _ d0 r0 es0 H. exact H.
  - intros _ d0 _. unfold Qbcd. cbn. repeat split; auto; discriminate.
  - auto.
  - intros _ d0 r0 es0 H. exact H.
Qed.

(* ---------- the per-effect predicate of the theorem ---------- *)
Variable t : table.
Definition P01 (lp : swap_data) (y : c01_ghost) (e : effect) : Prop := c01_pb tc dec t lp y e = true.
Notation tok := (trace_okg c01_ghost c01_gy P01).

(* BOLT-11: a decoded invoice has a payment hash *)
Hypothesis dec_hash : forall p h m c, dec p = Some (h, m, c) -> h <> EmptyString.

Lemma pay_loop_e n : forall csvh pol payreq d w r w' es y,
  c01_pay_guard tc dec d y payreq = true ->
  pay_loop n csvh pol payreq d w = (r, w', es) -> tok d y es.
Proof.
  induction n as [|n IH]; intros csvh pol payreq d w r w' es y Hg H.
  - rewrite pay_loop_O in H. msym. exact Logic.I.
  - rewrite pay_loop_S in H. msym; list_simpl; cbn [trace_okg lp_step c01_gy]; auto.
    split; [exact Hg|]. eapply IH; eauto.
Qed.

Lemma invoice_hash_nonempty d : invoice_okb tc dec d = true -> str_nonempty (d_claim_hash d) = true.
Proof.
  unfold invoice_okb. destruct (d_otb d) as [o|]; [|discriminate].
  destruct (timelock_policy tc d); [|discriminate]. destruct (get_claim_amount d); [|discriminate].
  destruct (dec (ob_payreq o)) as [[[h m] c]|] eqn:Hd; [|discriminate].
  intros H. apply andb_true_iff in H. destruct H as [_ H]. apply String.eqb_eq in H.
  apply dec_hash in Hd. unfold str_nonempty. rewrite H.
  destruct (String.eqb h "") eqn:E; [apply String.eqb_eq in E; contradiction|reflexivity].
Qed.

Definition Qe (d : swap_data) (r : string * swap_data) (es : list effect) : Prop :=
  col d = true -> forall y, tok d y es.

Ltac e_trivial :=
  unfold Qe; intros Hc y; cbn [trace_okg lp_step c01_gy]; unfold P01; cbn [c01_pb]; repeat split.

Lemma leaf_e name f : In (name, f) (leaf_actions tc dec) ->
  forall d w r w' es, f d w = (r, w', es) -> Qe d r es.
Proof.
  intros Hin d w r w' es H. leaf_cases Hin.
  all: autounfold with actions in H; msym; list_simpl.
  all: try (e_trivial; fail).
  all: repeat match goal with E : negb _ = false |- _ => apply negb_false_iff in E end.
  - (* AwaitTxConfirmationAction registers the watch on the announced outpoint *)
    e_trivial. rewrite Ematch0, String.eqb_refl, Z.eqb_refl. reflexivity.
  - (* ValidateTxAndPayClaimInvoiceAction: ValidateTx answered true, then the pay loop *)
    unfold Qe. intros Hc y. cbn [trace_okg lp_step c01_gy]. split; [reflexivity|].
    eapply pay_loop_e; [|exact H].
    assert (Hinv : invoice_okb tc dec d = true).
    { unfold colb in Hc. rewrite (legacyb_policy d t0 Ematch), Eif1 in Hc. cbn in Hc.
      rewrite orb_false_r in Hc. exact Hc. }
    pose proof (invoice_hash_nonempty d Hinv) as Hne.
    unfold get_opening_params in Ematch0.
    destruct (get_opening_amount d) as [amt|] eqn:Hamt; [|discriminate].
    inversion Ematch0; subst o. clear Ematch0.
    unfold c01_pay_guard. rewrite Ematch2, Ematch, Hamt, Hinv, String.eqb_refl.
    cbn [g_val v_taker v_maker v_hash v_amount v_csv v_blind v_hex v_res
         op_taker op_maker op_hash op_amount op_csv op_blinding andb].
    unfold payment_hash. rewrite Hne, !String.eqb_refl, !Z.eqb_refl. reflexivity.
Qed.

Theorem exec_e fuel a d w r w' es :
  chain_ok ok_taker fuel a = true -> exec tc dec fuel a d w = (r, w', es) -> Qe d r es.
Proof.
  apply (exec_rule_sel tc dec ok_taker Qe).
  - intros. eapply leaf_e; eauto.
  - intros d0 _ y. exact Logic.I.
  - intros _ d0 _ y. cbn. unfold P01. cbn. auto.
  - intros d0 _ y. exact Logic.I.
  - intros Hf. discriminate Hf.
  - intros _ d0 r0 es0 H Hc y. cbn [trace_okg]. split; [reflexivity|]. apply H. exact Hc.
  - intros _ d0 _ _ y. exact Logic.I.
  - auto.
  - intros _ d0 r0 es0 H Hc y. cbn [trace_okg]. split; [reflexivity|]. apply H. exact Hc.
Qed.

(* ---------- actions other than the paying action: no RebalancePayment at all ---------- *)
Definition np (d : swap_data) (e : effect) : Prop :=
  match e with EPayClaim _ _ _ _ _ => False | EPersist _ _ _ => False | _ => True end /\ forall y, P01 d y e.

Lemma np_trace d es : Forall (np d) es -> forall y, tok d y es.
Proof.
  induction 1 as [|e r [Hs He] _ IH]; intros y; cbn [trace_okg]; [exact Logic.I|].
  split; [apply He|]. replace (lp_step d e) with d by (destruct e; cbn in *; tauto). apply IH.
Qed.

Lemma np_not_persist d es : Forall (np d) es -> Forall not_persist es.
Proof. apply Forall_impl. intros e [H _]. destruct e; cbn in *; tauto. Qed.

Lemma np_blinding d k e : np (d <| d_blinding_hex := k |>) e -> np d e.
Proof. intros [H1 H2]. split; [exact H1|]. intros y. specialize (H2 y). destruct e; try exact H2; contradiction. Qed.

Definition ok_nopay (n : string) : bool := name_isnt pay_action n.

Ltac np_one := split; [exact Logic.I|intros ?; unfold P01; cbn [c01_pb]; try reflexivity].

Lemma leaf_np name f : ok_nopay name = true -> In (name, f) (leaf_actions tc dec) ->
  forall d w r w' es, f d w = (r, w', es) -> Forall (np d) es.
Proof.
  intros Hok Hin d w r w' es H. leaf_cases Hin.
  all: try (cbv in Hok; discriminate Hok).
  all: autounfold with actions in H; msym; list_simpl.
  all: try (repeat (constructor; [np_one|]); constructor; fail).
  constructor; [|constructor]. np_one.
  match goal with E : d_otb d = Some _ |- _ => rewrite E end.
  rewrite String.eqb_refl, Z.eqb_refl. reflexivity.
Qed.

Theorem exec_np fuel a d w r w' es :
  chain_ok ok_nopay fuel a = true -> exec tc dec fuel a d w = (r, w', es) -> Forall (np d) es.
Proof.
  apply (exec_rule_sel tc dec ok_nopay (fun d _ es => Forall (np d) es)).
  - intros. eapply leaf_np; eauto.
  - constructor.
  - intros _ d0. constructor; [np_one|constructor].
  - constructor.
  - intros _ d0 k r0 es0 _ H. eapply Forall_impl; [|exact H]. intros e. apply np_blinding.
  - intros _ d0 r0 es0 H. constructor; [np_one|exact H].
  - constructor.
  - auto.
  - intros _ d0 r0 es0 H. constructor; [np_one|exact H].
Qed.

(* ================= taker tables: the invariant through all histories ================= *)
Section Taker.
Variable terminal : list string.
Hypothesis T_noagr : table_avoids t create_out_action = true.
Hypothesis T_noblind : table_avoids t blind_wrapper = true.
Hypothesis T_entries : entries_by t pay_action Ev_TxConfirmed = true.
Hypothesis T_default : default_inert t = true.

Definition I01 (y : c01_ghost) (m : machine) : Prop :=
  (g_watch y = true -> col (m_data m) = true) /\
  (state_avoids t pay_action (m_cur m) = false -> col (m_data m) = true) /\
  (m_cur m = EmptyString -> g_watch y = false).
Definition E01 (y : c01_ghost) (m : machine) (ev : string) : Prop :=
  ev = Ev_TxConfirmed -> col (m_data m) = true.

Notation yend01 := (yend c01_ghost c01_gy).

Lemma gwatch_yend es : forall y, g_watch (yend01 y es) = g_watch y || existsb is_watch_conf es.
Proof.
  induction es as [|e r IH]; intros y; [cbn; rewrite orb_false_r; reflexivity|].
  rewrite yend_cons, IH. destruct e; cbn; try reflexivity. rewrite orb_true_r. reflexivity.
Qed.

Lemma col_fsm_state d s : col (d <| d_fsm_state := s |>) = col d.
Proof. apply colb_key. reflexivity. Qed.

Lemma pb_fsm_state d s y e : c01_pb tc dec t (d <| d_fsm_state := s |>) y e = c01_pb tc dec t d y e.
Proof. destruct d; reflexivity. Qed.

Lemma tok_fsm_state es : forall d s y, tok (d <| d_fsm_state := s |>) y es -> tok d y es.
Proof.
  induction es as [|e r IH]; intros d s y; cbn [trace_okg]; [auto|].
  intros [H1 H2]. split; [unfold P01 in *; rewrite pb_fsm_state in H1; exact H1|].
  destruct e; cbn [lp_step] in *; try (eapply IH; exact H2).
  destruct ok; [exact H2|eapply IH; exact H2].
Qed.

Lemma default_no_action sd act : lookup_state t EmptyString = Some sd -> st_action sd = Some act -> False.
Proof. unfold default_inert in T_default. intros Hl Ha. rewrite Hl, Ha in T_default. discriminate. Qed.

Lemma default_avoids : state_avoids t pay_action EmptyString = true.
Proof.
  unfold state_avoids. destruct (lookup_state t EmptyString) as [sd|] eqn:Hl; [|reflexivity].
  destruct (st_action sd) as [a|] eqn:Ha; [|reflexivity]. exfalso. eapply default_no_action; eauto.
Qed.

Lemma chain_taker s sd act : lookup_state t s = Some sd -> st_action sd = Some act ->
  chain_ok ok_taker action_fuel act = true.
Proof.
  intros Hl Ha. apply (chain_ok_and (name_isnt create_out_action) (name_isnt blind_wrapper)).
  - eapply table_avoids_sound; eauto.
  - eapply table_avoids_sound; eauto.
Qed.

(* one action run on data d0 from a state whose action is [act] *)
Lemma action_step s sd act d0 w ev' d' w' es y :
  lookup_state t s = Some sd -> st_action sd = Some act ->
  (state_avoids t pay_action s = false -> col d0 = true) ->
  exec tc dec action_fuel act d0 w = ((ev', d'), w', es) ->
  tok d0 y es /\ Forall not_persist es /\ Qbcd d0 (ev', d') es.
Proof.
  intros Hl Ha Hcol Hex.
  pose proof (chain_taker s sd act Hl Ha) as Hch.
  split; [|split].
  - destruct (state_avoids t pay_action s) eqn:Hs.
    + apply np_trace. eapply exec_np; [|exact Hex]. eapply state_avoids_sound; eauto.
    + eapply exec_e; eauto.
  - pose proof (exec_guard tc dec _ _ _ _ _ _ _ Hex) as F. eapply Forall_impl; [|exact F]. intros e [_ Hn]. exact Hn.
  - eapply exec_bcd; eauto.
Qed.

Lemma I01_retries y m r : I01 y m -> I01 y (m <| m_retries := r |>).
Proof. intros H. exact H. Qed.

Lemma E01_retries y m r ev : E01 y m ev -> E01 y (m <| m_retries := r |>) ev.
Proof. intros H. exact H. Qed.

Lemma H01_persist y m lp ok : I01 y m ->
  P01 lp y (EPersist (m_cur m) (m_data m) ok) /\
  I01 (c01_gy y (EPersist (m_cur m) (m_data m) ok)) m /\
  (forall ev, E01 y m ev -> E01 (c01_gy y (EPersist (m_cur m) (m_data m) ok)) m ev).
Proof.
  intros (H1 & H2 & H3). split; [|split].
  - unfold P01. cbn [c01_pb]. destruct (state_avoids t pay_action (m_cur m)) eqn:Hs; [reflexivity|].
    rewrite H2; reflexivity.
  - split; [|split]; cbn; auto.
  - intros ev H. exact H.
Qed.

Lemma act01 y m ev nxt sd act : I01 y m -> E01 y m ev ->
  next_state t (m_cur m) ev = Some nxt -> lookup_state t nxt = Some sd -> st_action sd = Some act ->
  forall w ev' d' w' es,
    exec tc dec action_fuel act (m_data (enter m nxt)) w = ((ev', d'), w', es) ->
    tok (m_data m) y es /\ Forall not_persist es /\
    I01 (yend01 y es) ((enter m nxt) <| m_data := d' |>) /\
    E01 (yend01 y es) ((enter m nxt) <| m_data := d' |>) ev'.
Proof.
  intros (H1 & H2 & H3) HE Hn Hl Ha w ev' d' w' es Hex.
  assert (Hnx : nxt <> EmptyString).
  { intros ->. eapply default_no_action; eauto. }
  assert (Hcol : state_avoids t pay_action nxt = false -> col (m_data m) = true).
  { intros Hs. destruct (entries_by_sound _ _ _ _ _ _ T_entries Hn) as [Hx|Hx]; [congruence|]. apply HE. exact Hx. }
  change (m_data (enter m nxt)) with ((m_data m) <| d_fsm_state := nxt |>) in Hex.
  assert (Hcol2 : state_avoids t pay_action nxt = false -> col ((m_data m) <| d_fsm_state := nxt |>) = true).
  { intros Hs. rewrite col_fsm_state. auto. }
  destruct (action_step nxt sd act _ w ev' d' w' es y Hl Ha Hcol2 Hex) as (T & F & (B1 & B2 & B3)).
  cbn [fst snd] in B1, B2, B3. rewrite col_fsm_state in B2.
  split; [eapply tok_fsm_state; exact T|]. split; [exact F|]. split.
  - split; [|split]; cbn [m_data m_cur enter]; cbn.
    + rewrite gwatch_yend. intros Hw. apply orb_true_iff in Hw. destruct Hw as [Hw|Hw]; auto.
    + intros Hs. auto.
    + intros Hx. contradiction.
  - intros Hx. cbn. auto.
Qed.

Lemma ev_failed_not_conf : Ev_Failed <> Ev_TxConfirmed.
Proof. cbv. discriminate. Qed.

Lemma recover01 y m sd act : I01 y m -> lookup_state t (m_cur m) = Some sd -> st_action sd = Some act ->
  (st_fail_on_recover sd = true -> E01 y m Ev_Failed) /\
  (st_fail_on_recover sd = false ->
   forall w ev' d' w' es,
     exec tc dec action_fuel act (m_data m) w = ((ev', d'), w', es) ->
     tok (m_data m) y es /\ Forall not_persist es /\
     I01 (yend01 y es) (m <| m_data := d' |>) /\ E01 (yend01 y es) (m <| m_data := d' |>) ev').
Proof.
  intros (H1 & H2 & H3) Hl Ha. split.
  - intros _ Hx. exfalso. exact (ev_failed_not_conf Hx).
  - intros _ w ev' d' w' es Hex.
    assert (Hnx : m_cur m <> EmptyString).
    { intros Hx. rewrite Hx in Hl. eapply default_no_action; eauto. }
    destruct (action_step (m_cur m) sd act _ w ev' d' w' es y Hl Ha H2 Hex) as (T & F & (B1 & B2 & B3)).
    cbn [fst snd] in B1, B2, B3.
    split; [exact T|]. split; [exact F|]. split.
    + split; [|split]; cbn.
      * rewrite gwatch_yend. intros Hw. apply orb_true_iff in Hw. destruct Hw as [Hw|Hw]; auto.
      * intros Hs. auto.
      * intros Hx. contradiction.
    + intros Hx. cbn. auto.
Qed.

(* ---- ghost relation between the proof ghost and the trace ghost ---- *)
Definition yrestart01 (y : c01_ghost) : c01_ghost := mkG false (g_val y).
Definition R01 (y yt : c01_ghost) : Prop := g_val y = g_val yt.
Definition L01 (cw sw tm : bool) (y : c01_ghost) : Prop := cw = true -> g_watch y = true.

Lemma R01_gy y yt e : R01 y yt -> R01 (c01_gy y e) (c01_gy yt e).
Proof. unfold R01. intros H. destruct e; cbn; auto. Qed.

Lemma R01_P lp y yt e : R01 y yt -> P01 lp y e -> P01 lp yt e.
Proof.
  unfold R01, P01. intros H. destruct e; cbn [c01_pb]; auto.
  unfold c01_pay_guard. rewrite H. auto.
Qed.

Lemma L01_step cw sw tm y es : L01 cw sw tm y ->
  L01 (cw || existsb is_watch_conf es) (sw || existsb is_watch_csv es) (tm || existsb is_arm_timer es) (yend01 y es).
Proof.
  unfold L01. intros H Hc. rewrite gwatch_yend. apply orb_true_iff in Hc. destruct Hc as [Hc|Hc].
  - rewrite H; auto.
  - rewrite Hc. apply orb_true_r.
Qed.

Lemma I01_restore lp y y' s d mr :
  P01 lp y (EPersist s d true) -> m_cur mr = s -> m_data mr = d -> I01 (yrestart01 y') mr.
Proof.
  unfold P01. cbn [c01_pb]. intros HP Hc Hd. subst. split; [|split]; cbn; try discriminate; auto.
  intros Hs. rewrite Hs in HP. exact HP.
Qed.

(* ---- messages applied by the service layer keep a checked record checked ---- *)
Lemma no_request_no_policy d : d_in_req d = None -> d_out_req d = None -> timelock_policy tc d = None.
Proof.
  intros H1 H2. unfold timelock_policy, get_chain, get_asset, get_network, get_request. rewrite H1, H2. reflexivity.
Qed.

Lemma invoice_okb_in_req d d' r :
  d_in_req d = Some r -> d_in_req d' = d_in_req d -> d_out_req d' = d_out_req d ->
  d_otb d' = d_otb d -> d_claim_hash d' = d_claim_hash d -> invoice_okb tc dec d' = invoice_okb tc dec d.
Proof.
  intros Hr H1 H2 H4 H5. unfold invoice_okb. rewrite H4, H5, (policy_key tc d d' H1 H2).
  unfold get_claim_amount, csv_height, get_chain, get_asset, get_network, get_request.
  rewrite H1, H2, Hr. reflexivity.
Qed.

Lemma legacyb_req d d' : d_in_req d' = d_in_req d -> d_out_req d' = d_out_req d -> legacyb tc d' = legacyb tc d.
Proof. intros H1 H2. unfold legacyb. rewrite (policy_key tc d d' H1 H2). reflexivity. Qed.

Lemma out_agr_col d a : d_out_agr d = None -> col d = true -> col (d <| d_out_agr := Some a |>) = true.
Proof.
  intros Hag Hcol.
  unfold colb in *. apply orb_true_iff in Hcol. destruct Hcol as [Hi|Hl].
  - destruct (d_in_req d) as [r|] eqn:Hr.
    + rewrite (invoice_okb_in_req d (d <| d_out_agr := Some a |>) r Hr); try reflexivity. rewrite Hi. reflexivity.
    + exfalso. unfold invoice_okb, get_claim_amount in Hi. rewrite Hr, Hag in Hi.
      destruct (d_otb d); [|discriminate].
      destruct (d_out_req d) eqn:Ho.
      * destruct (timelock_policy tc d); discriminate.
      * rewrite (no_request_no_policy d Hr Ho) in Hi. discriminate.
  - rewrite (legacyb_req d (d <| d_out_agr := Some a |>)); try reflexivity. rewrite Hl. apply orb_true_r.
Qed.

Lemma apply_ctx_col d c d' :
  (match c with MInReq _ | MOutReq _ => False | _ => True end) ->
  apply_ctx d c = Some d' -> col d = true -> col d' = true.
Proof.
  intros Hc Ha Hcol. destruct c; try contradiction; cbn [apply_ctx] in Ha.
  - destruct (d_in_agr d); [discriminate|]. inversion Ha; subst. rewrite (colb_key tc dec d); [exact Hcol|reflexivity].
  - destruct (d_out_agr d) eqn:Hag; [discriminate|]. inversion Ha; subst. apply out_agr_col; assumption.
  - destruct (d_otb d) eqn:Ho; [discriminate|]. inversion Ha; subst.
    eapply colb_legacy_upd; [eapply colb_no_otb; eauto|reflexivity|reflexivity].
  - destruct (d_coop d); [discriminate|]. inversion Ha; subst. rewrite (colb_key tc dec d); [exact Hcol|reflexivity].
  - inversion Ha; subst. rewrite (colb_key tc dec d); [exact Hcol|reflexivity].
Qed.

Lemma service_event_not_conf fresh ev ctx : service_event fresh ev ctx = true -> ev <> Ev_TxConfirmed.
Proof.
  intros H ->. destruct ctx as [[]|]; destruct fresh; cbn in H; discriminate.
Qed.

Lemma service_event_request fresh ev c :
  service_event fresh ev (Some c) = true ->
  match c with MInReq _ | MOutReq _ => fresh = true | _ => True end.
Proof. destruct c; cbn; auto; destruct fresh; auto. Qed.

Lemma gctx01 y m ev c :
  I01 y m -> ev <> Ev_TxConfirmed ->
  (match c with MInReq _ | MOutReq _ => m_cur m = EmptyString | _ => True end) ->
  gctx_ok c01_ghost I01 E01 y m ev (Some c).
Proof.
  intros (H1 & H2 & H3) Hev Hc. cbn [gctx_ok]. split.
  - intros Hx. cbv in Hx. discriminate.
  - intros d' _ Hap. split; [|intros Hx; contradiction].
    destruct c; cbn [m_data m_cur].
    1,2: split; [|split]; cbn; [intros Hw; rewrite (H3 Hc) in Hw; discriminate
                               |intros Hs; rewrite Hc, default_avoids in Hs; discriminate|exact H3].
    all: split; [|split]; cbn; [intros Hw|intros Hs|exact H3];
         (eapply apply_ctx_col; [|exact Hap|]; [exact Logic.I|auto]).
Qed.

Lemma input01 h m y i :
  hs_machine h = Some m -> hs_down h = false -> I01 y m ->
  L01 (hs_conf_watch h) (hs_csv_watch h) (hs_timer h) y ->
  input_allowed h m i = true -> i <> InRecover -> ginput_ok c01_ghost c01_gy I01 E01 y m i.
Proof.
  intros Hm Hd HI HL Hal Hni. unfold input_allowed in Hal. rewrite Hd in Hal.
  destruct i as [ev ctx|rq|hex err| | |]; cbn [ginput_ok].
  - pose proof (service_event_not_conf _ _ _ Hal) as Hev. destruct ctx as [c|].
    + apply gctx01; auto. pose proof (service_event_request _ _ _ Hal) as Hr.
      destruct c; auto; apply String.eqb_eq; exact Hr.
    + cbn [gctx_ok]. intros Hx. contradiction.
  - apply gctx01; auto.
    + cbv. discriminate.
    + apply String.eqb_eq. exact Hal.
  - apply andb_true_iff in Hal. destruct Hal as [_ Hw]. pose proof (HL Hw) as Hgw. split.
    + intros _ Hx. exfalso. exact (ev_failed_not_conf Hx).
    + intros es0 m0 (H1 & H2 & H3) _.
      assert (Hc : col (m_data m0) = true).
      { apply H1. rewrite gwatch_yend, Hgw. reflexivity. }
      assert (Hc2 : col ((m_data m0) <| d_opening_hex := hex |>) = true).
      { rewrite (colb_key tc dec (m_data m0)); [exact Hc|reflexivity]. }
      split; [split; [|split]; cbn; auto|intros _; exact Hc2].
  - intros Hx. cbv in Hx. discriminate.
  - intros Hx. cbv in Hx. discriminate.
  - contradiction.
Qed.

(* every allowed history of a swap that starts in the Default state *)
Theorem taker_hist m0 its :
  m_cur m0 = EmptyString ->
  hist_ok tc dec t terminal (init_hstate m0) its = true ->
  tok (m_data m0) c01_y0 (hs_trace (run_hist tc dec t terminal (init_hstate m0) its)).
Proof.
  intros H0 Hok.
  apply (hist_ghost tc dec t terminal c01_ghost c01_gy I01 P01 E01
           I01_retries E01_retries H01_persist act01 recover01
           yrestart01 R01 (fun y => eq_refl) R01_gy R01_P (fun y yt H => H)
           L01 L01_step (fun y H => match Bool.diff_false_true H with end)
           I01_restore input01); auto.
  - split; [|split]; cbn; auto; try discriminate.
    intros Hs. rewrite H0, default_avoids in Hs. discriminate.
  - intros H. discriminate.
Qed.

End Taker.



(* ================= maker tables: the paying action is never run ================= *)
Section Maker.
Variable terminal : list string.
Hypothesis T_nopay : table_avoids t pay_action = true.

Definition IT (y : c01_ghost) (m : machine) : Prop := True.
Definition ET (y : c01_ghost) (m : machine) (ev : string) : Prop := True.

Lemma np_step s sd act d0 w r w' es y :
  lookup_state t s = Some sd -> st_action sd = Some act ->
  exec tc dec action_fuel act d0 w = (r, w', es) -> tok d0 y es /\ Forall not_persist es.
Proof.
  intros Hl Ha Hex.
  assert (F : Forall (np d0) es).
  { eapply exec_np; [|exact Hex]. eapply table_avoids_sound; eauto. }
  split; [apply np_trace; exact F|eapply np_not_persist; exact F].
Qed.

Lemma tok_fsm_state' es : forall d s y, tok (d <| d_fsm_state := s |>) y es -> tok d y es.
Proof.
  induction es as [|e r IH]; intros d s y; cbn [trace_okg]; [auto|].
  intros [H1 H2]. split.
  - unfold P01 in *. replace (c01_pb tc dec t d y e) with (c01_pb tc dec t (d <| d_fsm_state := s |>) y e); [exact H1|].
    destruct d; reflexivity.
  - destruct e; cbn [lp_step] in *; try (eapply IH; exact H2).
    destruct ok; [exact H2|eapply IH; exact H2].
Qed.

Theorem maker_hist m0 its :
  hist_ok tc dec t terminal (init_hstate m0) its = true ->
  tok (m_data m0) c01_y0 (hs_trace (run_hist tc dec t terminal (init_hstate m0) its)).
Proof.
  intros Hok.
  apply (hist_ghost tc dec t terminal c01_ghost c01_gy IT P01 ET) with
    (yrestart := fun y => y) (R := fun y yt => g_val y = g_val yt) (L := fun _ _ _ _ => True); auto.
  - intros y m lp ok _. split; [|split; [exact Logic.I|auto]].
    unfold P01. cbn [c01_pb]. rewrite (table_avoids_state t pay_action (m_cur m) T_nopay). reflexivity.
  - intros y m ev nxt sd act _ _ Hn Hl Ha w ev' d' w' es Hex.
    change (m_data (enter m nxt)) with ((m_data m) <| d_fsm_state := nxt |>) in Hex.
    destruct (np_step nxt sd act _ w _ w' es y Hl Ha Hex) as [T F].
    split; [eapply tok_fsm_state'; exact T|]. split; [exact F|]. split; exact Logic.I.
  - intros y m sd act _ Hl Ha. split; [intros; exact Logic.I|].
    intros _ w ev' d' w' es Hex. destruct (np_step (m_cur m) sd act _ w _ w' es y Hl Ha Hex) as [T F].
    split; [exact T|]. split; [exact F|]. split; exact Logic.I.
  - intros y yt e H. destruct e; cbn; auto.
  - intros lp y yt e H. unfold P01. destruct e; cbn [c01_pb]; auto. unfold c01_pay_guard. rewrite H. auto.
  - intros; exact Logic.I.
  - intros h m y i _ _ _ _ _ _. destruct i as [ev [c|]|rq|hex err| | |]; cbn; unfold IT, ET; auto.
  - exact Logic.I.
Qed.
End Maker.

End Facts.

(* ================= the theorems in boolean form ================= *)
Lemma trace_okgb_ok {Y} (gy : Y -> effect -> Y) (Pb : swap_data -> Y -> effect -> bool) lp y es :
  trace_okgb gy Pb lp y es = true <-> trace_okg Y gy (fun l y e => Pb l y e = true) lp y es.
Proof.
  revert lp y. induction es as [|e r IH]; intros lp y; cbn [trace_okgb trace_okg]; [tauto|].
  rewrite andb_true_iff, IH. tauto.
Qed.

Lemma trace_okgb_mono {Y} (gy : Y -> effect -> Y) (Pb Pb' : swap_data -> Y -> effect -> bool) :
  (forall lp y e, Pb lp y e = true -> Pb' lp y e = true) ->
  forall es lp y, trace_okgb gy Pb lp y es = true -> trace_okgb gy Pb' lp y es = true.
Proof.
  intros H. induction es as [|e r IH]; intros lp y; cbn [trace_okgb]; auto.
  intros Hx. apply andb_true_iff in Hx. destruct Hx as [H1 H2]. rewrite (H _ _ _ H1), (IH _ _ H2). reflexivity.
Qed.

(* every allowed history of a fresh swap, any table that passes the reflective check *)
Theorem c01_hist tc dec t terminal m0 its :
  (forall p h m c, dec p = Some (h, m, c) -> h <> EmptyString) ->
  c01_table_ok t = true -> m_cur m0 = EmptyString ->
  hist_ok tc dec t terminal (init_hstate m0) its = true ->
  trace_okgb c01_gy (c01_pb tc dec t) (m_data m0) c01_y0
    (hs_trace (run_hist tc dec t terminal (init_hstate m0) its)) = true.
Proof.
  intros Hdec Ht H0 Hok. apply trace_okgb_ok.
  unfold c01_table_ok in Ht. apply orb_true_iff in Ht. destruct Ht as [Ht|Ht].
  - exact (maker_hist tc dec t terminal Ht m0 its Hok).
  - apply andb_true_iff in Ht. destruct Ht as [Ht T4]. apply andb_true_iff in Ht. destruct Ht as [Ht T3].
    apply andb_true_iff in Ht. destruct Ht as [T1 T2].
    exact (taker_hist tc dec t Hdec terminal T1 T2 T3 T4 m0 its H0 Hok).
Qed.

(* ---- in the property's words, for the constants of the code ---- *)
Lemma policy_cases lp pol :
  timelock_policy tl_consts_gen lp = Some pol -> p_allow_new pol = true ->
  (String.eqb (get_chain lp) btc_chain = true /\ pol = mkPolicy 1008 504 503 0 true) \/
  (String.eqb (get_chain lp) btc_chain = false /\ String.eqb (get_chain lp) lbtc_chain = true /\
   (get_version lp =? 7) = true /\ pol = mkPolicy 10080 60 29 32 true).
Proof.
  unfold timelock_policy. intros Hp Ha.
  change (tc_legacy_version tl_consts_gen) with 6 in Hp.
  change (tc_current_version tl_consts_gen) with 7 in Hp.
  destruct (String.eqb (get_chain lp) btc_chain) eqn:Hb.
  - left. split; [reflexivity|]. destruct ((get_version lp =? 6) || (get_version lp =? 7)); [|discriminate].
    inversion Hp; subst. reflexivity.
  - right. destruct (String.eqb (get_chain lp) lbtc_chain) eqn:Hl; [|discriminate].
    destruct (get_version lp =? 6).
    + inversion Hp; subst. cbn in Ha. discriminate.
    + destruct (get_version lp =? 7) eqn:H7; [|discriminate]. inversion Hp; subst. auto.
Qed.

Lemma pb_is_spec dec t lp y e :
  c01_pb tl_consts_gen dec t lp y e = true -> c01_spec_pb dec t lp y e = true.
Proof.
  destruct e; try reflexivity; cbn [c01_pb c01_spec_pb]; auto.
  unfold c01_pay_guard.
  destruct (d_otb lp) as [o|] eqn:Ho; [|discriminate].
  destruct (timelock_policy tl_consts_gen lp) as [pol|] eqn:Hp; [|discriminate].
  destruct (get_opening_amount lp) as [amt|] eqn:Hamt; [|discriminate].
  intros H. apply andb_true_iff in H. destruct H as [H Hv]. apply andb_true_iff in H. destruct H as [Hpr Hinv].
  rewrite Hpr. cbn [andb].
  apply String.eqb_eq in Hpr. subst payreq.
  unfold invoice_okb in Hinv. rewrite Ho, Hp in Hinv.
  destruct (get_claim_amount lp) as [claim|] eqn:Hcl; [|discriminate].
  destruct (dec (ob_payreq o)) as [[[h ms] cl]|] eqn:Hd; [|discriminate].
  apply andb_true_iff in Hinv. destruct Hinv as [Hinv Hh]. apply andb_true_iff in Hinv. destruct Hinv as [Hinv Hc].
  apply andb_true_iff in Hinv. destruct Hinv as [Ha Hm].
  unfold c01_spec_invoice, c01_spec_validated. rewrite Hd, Hcl, Hamt, Hh.
  change (u64_mul claim 1000) with ((claim * 1000) mod 18446744073709551616) in Hm. rewrite Hm.
  destruct (g_val y) as [v|]; [|discriminate].
  destruct (policy_cases lp pol Hp Ha) as [[Hb ->]|(Hb & Hl & H7 & ->)].
  - unfold csv_height in Hc. rewrite Hb in *. change (tc_csv_btc tl_consts_gen / 2) with 504 in Hc.
    rewrite Hc. cbn [orb andb p_csv] in *. exact Hv.
  - rewrite Hb in *. rewrite Hl, H7. cbn [p_final_cltv p_csv orb andb] in *. rewrite Hc. cbn [andb]. exact Hv.
Qed.

Theorem c01_hist_spec dec t terminal m0 its :
  (forall p h m c, dec p = Some (h, m, c) -> h <> EmptyString) ->
  c01_table_ok t = true -> m_cur m0 = EmptyString ->
  hist_ok tl_consts_gen dec t terminal (init_hstate m0) its = true ->
  trace_okgb c01_gy (c01_spec_pb dec t) (m_data m0) c01_y0
    (hs_trace (run_hist tl_consts_gen dec t terminal (init_hstate m0) its)) = true.
Proof.
  intros Hdec Ht H0 Hok. eapply trace_okgb_mono; [apply pb_is_spec|].
  apply c01_hist; assumption.
Qed.

(* a payment anywhere in the trace: the predicate holds of it, relative to the record that was
   durable at that point and the ValidateTx call of the same action *)
Lemma trace_okgb_at {Y} (gy : Y -> effect -> Y) (Pb : swap_data -> Y -> effect -> bool) pre e post : forall lp y,
  trace_okgb gy Pb lp y (pre ++ e :: post) = true ->
  Pb (lp_end lp pre) (fold_left gy pre y) e = true.
Proof.
  induction pre as [|x r IH]; intros lp y H; cbn [app trace_okgb] in H.
  - apply andb_true_iff in H. destruct H as [H _]. exact H.
  - apply andb_true_iff in H. destruct H as [_ H]. apply IH in H. exact H.
Qed.

Theorem c01_every_payment dec t terminal m0 its :
  (forall p h m c, dec p = Some (h, m, c) -> h <> EmptyString) ->
  c01_table_ok t = true -> m_cur m0 = EmptyString ->
  hist_ok tl_consts_gen dec t terminal (init_hstate m0) its = true ->
  forall pre post payreq scid mx tip res,
    hs_trace (run_hist tl_consts_gen dec t terminal (init_hstate m0) its) = (pre ++ EPayClaim payreq scid mx tip res :: post)%list ->
    c01_spec_pb dec t (lp_end (m_data m0) pre) (fold_left c01_gy pre c01_y0) (EPayClaim payreq scid mx tip res) = true.
Proof.
  intros Hdec Ht H0 Hok pre post payreq scid mx tip res Htr.
  pose proof (c01_hist_spec dec t terminal m0 its Hdec Ht H0 Hok) as H. rewrite Htr in H.
  exact (trace_okgb_at c01_gy (c01_spec_pb dec t) pre _ post _ _ H).
Qed.

(* the four generated tables *)
Lemma c01_tables_ok_all :
  forall t, In t [table_swap_out_sender; table_swap_in_receiver; table_swap_out_receiver; table_swap_in_sender] ->
  c01_table_ok t = true.
Proof.
  intros t Hin. cbn [In] in Hin.
  destruct Hin as [<-|[<-|[<-|[<-|[]]]]]; vm_compute; reflexivity.
Qed.
