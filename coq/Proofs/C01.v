(* C01: the taker pays the claim invoice only for a validated, confirmed opening output. *)
From Coq Require Import String ZArith Bool List Lia.
From RecordUpdate Require Import RecordSet.
From PS Require Import Base.Wrap Model.Data Model.Actions Model.Fsm Model.History Model.FsmCorr
  Model.TableChecks Model.C01Corr Gen.ConstsSwap Gen.Tables
  Proofs.Monad Proofs.ExecRule Proofs.MTac Proofs.Engine Proofs.HistRule Proofs.ExecSel Proofs.GhostRule.
Import ListNotations RecordSetNotations.
Open Scope Z_scope.

Strategy opaque [event_loop exec loop_fuel action_fuel pay_loop].

(* ---- the generated constants are the numbers of the property text ---- *)
Lemma c01_constants :
  policy_btc_v7 = Some (mkPolicy 1008 504 503 0 true) /\
  policy_lbtc_v7 = Some (mkPolicy 10080 60 29 32 true) /\
  policy_lbtc_v6 = Some (mkPolicy 60 30 29 0 false) /\
  bitcoin_csv = 1008 /\ bitcoin_min_confs = 3 /\ liquid_confs = 2 /\
  protocol_version = 7 /\ legacy_protocol_version = 6.
Proof. repeat split; reflexivity. Qed.

(* ---- the reflective check holds of the four generated tables ---- *)
Lemma c01_tables_ok :
  c01_table_ok table_swap_out_sender = true /\ c01_table_ok table_swap_in_receiver = true /\
  c01_table_ok table_swap_out_receiver = true /\ c01_table_ok table_swap_in_sender = true /\
  table_avoids table_swap_out_sender pay_action = false /\ table_avoids table_swap_in_receiver pay_action = false.
Proof. repeat split; vm_compute; reflexivity. Qed.
