(* C05: the Bitcoin claim HTLC and the maker's CSV refund. *)
From Coq Require Import String ZArith Bool List Lia.
From RecordUpdate Require Import RecordSet.
From PS Require Import Base.Wrap Model.Data Model.Actions Model.Fsm Model.History Model.FsmCorr
  Model.TableChecks Model.C01Corr Model.C05Corr Model.PayRoute Gen.ConstsSwap Gen.ConstsC24 Gen.Tables
  Proofs.Monad Proofs.ExecRule Proofs.MTac Proofs.Engine Proofs.HistRule Proofs.C01.
Import ListNotations RecordSetNotations.
Open Scope Z_scope.

Strategy opaque [event_loop exec loop_fuel action_fuel pay_loop].

(* ---- the generated constants are the numbers of the property text ---- *)
Lemma c05_constants :
  policy_btc_v7 = Some (mkPolicy 1008 504 503 0 true) /\ policy_btc_v6 = policy_btc_v7 /\
  bitcoin_csv = 1008 /\ bitcoin_csv_safety_limit = 504 /\ lnd_block_padding = 3.
Proof. repeat split; reflexivity. Qed.

(* ---- the local guard of the pay loop, lifted to all histories ---- *)
Definition G05 (tc : tl_consts) (lp : swap_data) (e : effect) : Prop := c05_guard tc lp e = true.

Lemma g05_fsm_state tc d s e : c05_guard tc (d <| d_fsm_state := s |>) e = c05_guard tc d e.
Proof. destruct d; reflexivity. Qed.

Lemma g05_blinding tc d k e : c05_guard tc (d <| d_blinding_hex := k |>) e = c05_guard tc d e.
Proof. destruct d; reflexivity. Qed.

Lemma g05_non_pay tc d e : (forall p s m t r, e <> EPayClaim p s m t r) -> c05_guard tc d e = true.
Proof. intros H. destruct e; try reflexivity. exfalso. eapply H; eauto. Qed.

Lemma pay_attempt_g05 tc d payreq mx now res :
  String.eqb (get_chain d) btc_chain && (csv_height tc d / 2 <? u32_sub now (d_start_height d)) = false ->
  G05 tc d (EPayClaim payreq (get_scid d) mx now res) /\ not_persist (EPayClaim payreq (get_scid d) mx now res).
Proof.
  intros H. split; [|exact Logic.I]. unfold G05, c05_guard.
  destruct (String.eqb (get_chain d) btc_chain); [|reflexivity]. cbn [andb] in H. rewrite H. reflexivity.
Qed.

Lemma pay_loop_g05 tc n : forall pol payreq d w r w' es,
  pay_loop n (csv_height tc d) pol payreq d w = (r, w', es) ->
  Forall (fun e => G05 tc d e /\ not_persist e) es.
Proof.
  induction n as [|n IH]; intros pol payreq d w r w' es H.
  - rewrite pay_loop_O in H. msym. constructor.
  - rewrite pay_loop_S in H. msym; list_simpl; try constructor.
    + apply pay_attempt_g05; auto.
    + constructor.
    + apply pay_attempt_g05; auto.
    + eapply IH; eauto.
Qed.

Section Guard.
Variable tc : tl_consts.
Variable dec : string -> option (string * Z * Z).

Lemma leaf_g05 name f : In (name, f) (leaf_actions tc dec) ->
  forall d w r w' es, f d w = (r, w', es) -> Forall (fun e => G05 tc d e /\ not_persist e) es.
Proof.
  intros Hin d w r w' es H. leaf_cases Hin.
  all: autounfold with actions in H; msym; list_simpl.
  all: try (repeat constructor; cbn [not_persist]; auto; apply g05_non_pay; discriminate).
  all: constructor; [split; [apply g05_non_pay; discriminate|exact Logic.I]|].
  all: eapply pay_loop_g05; eauto.
Qed.

Theorem exec_g05 fuel a d w r w' es :
  exec tc dec fuel a d w = (r, w', es) -> Forall (fun e => G05 tc d e /\ not_persist e) es.
Proof.
  apply (exec_rule tc dec (fun d _ es => Forall (fun e => G05 tc d e /\ not_persist e) es)).
  - intros. eapply leaf_g05; eauto.
  - constructor.
  - intros. repeat constructor.
  - constructor.
  - intros d0 k r0 es0 _ H. eapply Forall_impl; [|exact H]. cbn. intros e [Hg Hn]. split; [|exact Hn].
    unfold G05 in *. rewrite g05_blinding in Hg. exact Hg.
  - intros d0 r0 es0 H. constructor; [split; [reflexivity|exact Logic.I]|exact H].
  - constructor.
  - auto.
  - intros d0 r0 es0 H. constructor; [split; [reflexivity|exact Logic.I]|exact H].
Qed.

(* every history, with crashes and restarts, any table, any environment *)
Theorem hist_g05 t terminal m0 its :
  trace_ok (G05 tc) (m_data m0) (hs_trace (run_hist tc dec t terminal (init_hstate m0) its)).
Proof.
  apply hist_local.
  - intros d s e. unfold G05. now rewrite g05_fsm_state.
  - reflexivity.
  - apply exec_g05.
Qed.
End Guard.

(* ---- in the property's numbers ---- *)
Lemma g05_is_spec lp e : c05_guard tl_consts_gen lp e = true -> c05_spec_guard lp e = true.
Proof.
  destruct e; try reflexivity. unfold c05_guard, c05_spec_guard, csv_height.
  destruct (String.eqb (get_chain lp) btc_chain); [|reflexivity].
  change (tc_csv_btc tl_consts_gen / 2) with 504. rewrite Z.leb_antisym. auto.
Qed.

Theorem hist_spec05 dec t terminal m0 its :
  trace_okb c05_spec_guard (m_data m0)
    (hs_trace (run_hist tl_consts_gen dec t terminal (init_hstate m0) its)) = true.
Proof.
  apply trace_okb_ok.
  pose proof (hist_g05 tl_consts_gen dec t terminal m0 its) as H.
  revert H. generalize (hs_trace (run_hist tl_consts_gen dec t terminal (init_hstate m0) its)).
  generalize (m_data m0). intros lp l. revert lp.
  induction l as [|e r IH]; intros lp; cbn; auto. intros [H1 H2]. split; auto.
  apply g05_is_spec. exact H1.
Qed.

(* ---- the route CLTV of both back-ends for an accepted invoice ---- *)
Lemma cln_delta_val f : 0 <= f <= 504 -> cln_delta f = Some (f + 1).
Proof.
  intros H. unfold cln_delta, cln_route. cbn [ci_min_final ci_payee ci_msat Z.eqb].
  unfold to_u32, to_i64. cbn [h_delay].
  assert (E : (f + 1) mod 2 ^ 64 = f + 1) by (apply Z.mod_small; lia). rewrite E.
  destruct (f + 1 <? 2 ^ 63) eqn:L; [|apply Z.ltb_ge in L; lia].
  rewrite Z.mod_small by lia. reflexivity.
Qed.

Lemma lnd_delta_val f : 0 <= f <= 504 -> lnd_delta f = Some (f + 4).
Proof.
  intros H. unfold lnd_delta, lnd_build. cbn [li_dest lc_remote li_cltv String.eqb Ascii.eqb Bool.eqb negb Z.eqb rq_cltv_limit].
  change lnd_block_padding with 3.
  unfold to_i32, to_i64.
  assert (E1 : (f + 3) mod 2 ^ 64 = f + 3) by (apply Z.mod_small; lia). rewrite E1.
  destruct (f + 3 <? 2 ^ 63) eqn:L1; [|apply Z.ltb_ge in L1; lia].
  assert (E2 : (f + 3 + 1) mod 2 ^ 64 = f + 4) by (rewrite Z.mod_small; lia). rewrite E2.
  destruct (f + 4 <? 2 ^ 63) eqn:L2; [|apply Z.ltb_ge in L2; lia].
  assert (E3 : (f + 4) mod 2 ^ 32 = f + 4) by (apply Z.mod_small; lia). rewrite E3.
  destruct (f + 4 <? 2 ^ 31) eqn:L3; [|apply Z.ltb_ge in L3; lia].
  reflexivity.
Qed.

(* ---- arithmetic of the window ---- *)
(* what the guard gives, for uint32 heights far from 2^32 *)
Lemma enforced_from_guard S P f :
  0 <= S -> S + 504 < 2 ^ 32 -> 0 <= P < 2 ^ 32 -> u32_sub P S <= 504 -> 0 <= f <= 504 ->
  c05_enforced_at S P f = true.
Proof.
  intros HS HS2 HP Hsub Hf. unfold c05_enforced_at. rewrite (cln_delta_val f Hf), (lnd_delta_val f Hf).
  unfold u32_sub, u32, two32 in Hsub.
  assert (S <= P <= S + 504).
  { destruct (Z_lt_le_dec P S) as [Hlt|Hge].
    - exfalso. assert (E : (P - S) mod 4294967296 = P - S + 4294967296).
      { symmetry. apply Z.mod_unique with (q := -1); lia. }
      rewrite E in Hsub. lia.
    - rewrite Z.mod_small in Hsub by lia. lia. }
  repeat (apply andb_true_iff; split); try (apply Z.leb_le; lia).
Qed.

(* the exact safe region: the opening tx mined at least 5 blocks after the start *)
Lemma safe_region S C P f :
  c05_enforced_at S P f = true -> S + 5 <= C -> c05_full_at C P f = true.
Proof.
  unfold c05_enforced_at, c05_full_at. intros H HC.
  destruct (cln_delta f) as [dc|]; [|rewrite andb_false_r in H; discriminate].
  destruct (lnd_delta f) as [dl|]; [|rewrite andb_false_r in H; discriminate].
  repeat (apply andb_true_iff in H; destruct H as [H ?]).
  repeat match goal with X : (_ <=? _) = true |- _ => apply Z.leb_le in X end.
  apply andb_true_iff; split; apply Z.ltb_lt; lia.
Qed.

(* ... and it is exact: for every start there are accepted values with the tx mined at start+4
   (3 confirmations at payment time) for which the full statement fails *)
Lemma unsafe_region S : 0 <= S -> S + 504 < 2 ^ 32 ->
  exists C P f, c05_enforced_at S P f = true /\ C = S + 4 /\ C + 2 <= P /\ c05_full_at C P f = false.
Proof.
  intros H1 H2. exists (S + 4), (S + 504), 504. split; [|split; [reflexivity|split; [lia|]]].
  - apply enforced_from_guard; try lia. unfold u32_sub, u32, two32.
    replace (S + 504 - S) with 504 by lia. reflexivity.
  - unfold c05_full_at. rewrite (cln_delta_val 504), (lnd_delta_val 504) by lia.
    apply andb_false_iff. right. apply Z.ltb_ge. lia.
Qed.

(* ---- every Bitcoin payment of every allowed history ---- *)
Lemma spec_pay_cltv dec t lp y payreq scid mx tip res :
  c01_spec_pb dec t lp y (EPayClaim payreq scid mx tip res) = true ->
  String.eqb (get_chain lp) btc_chain = true ->
  exists f, invoice_cltv_of dec payreq = Some f /\ f <= 504.
Proof.
  cbn [c01_spec_pb]. destruct (d_otb lp) as [o|]; [|discriminate].
  intros H Hb. repeat (apply andb_true_iff in H; destruct H as [H ?]).
  match goal with X : c01_spec_invoice _ _ _ = true |- _ => unfold c01_spec_invoice in X; rename X into Hi end.
  unfold invoice_cltv_of. destruct (dec payreq) as [[[h ms] f]|]; [|discriminate].
  destruct (get_claim_amount lp); [|discriminate]. rewrite Hb in Hi.
  repeat (apply andb_true_iff in Hi; destruct Hi as [Hi ?]).
  exists f. split; [reflexivity|]. apply Z.leb_le. assumption.
Qed.

Theorem c05_enforced dec t terminal m0 its :
  (forall p h m c, dec p = Some (h, m, c) -> h <> EmptyString) ->
  (forall p h m c, dec p = Some (h, m, c) -> 0 <= c) ->
  c01_table_ok t = true -> m_cur m0 = EmptyString ->
  hist_ok tl_consts_gen dec t terminal (init_hstate m0) its = true ->
  forall pre post payreq scid mx tip res,
    hs_trace (run_hist tl_consts_gen dec t terminal (init_hstate m0) its) = (pre ++ EPayClaim payreq scid mx tip res :: post)%list ->
    let lp := lp_end (m_data m0) pre in
    get_chain lp = btc_chain ->
    0 <= d_start_height lp -> d_start_height lp + 504 < 2 ^ 32 -> 0 <= tip < 2 ^ 32 ->
    exists f, invoice_cltv_of dec payreq = Some f /\
      c05_enforced_at (d_start_height lp) tip f = true /\
      (forall C, d_start_height lp + 5 <= C -> c05_full_at C tip f = true).
Proof.
  intros Hh Hc Ht H0 Hok pre post payreq scid mx tip res Htr lp Hb HS HS2 HP.
  pose proof (c01_every_payment dec t terminal m0 its Hh Ht H0 Hok pre post payreq scid mx tip res Htr) as H1.
  assert (Hbe : String.eqb (get_chain lp) btc_chain = true) by (apply String.eqb_eq; exact Hb).
  destruct (spec_pay_cltv _ _ _ _ _ _ _ _ _ H1 Hbe) as (f & Hf & Hle).
  assert (H0f : 0 <= f).
  { unfold invoice_cltv_of in Hf. destruct (dec payreq) as [[[h ms] f']|] eqn:Hd; [|discriminate].
    inversion Hf; subst. eapply Hc; eauto. }
  pose proof (hist_spec05 dec t terminal m0 its) as H2. rewrite Htr in H2.
  apply trace_okb_ok in H2. apply trace_ok_app in H2. destruct H2 as [_ H2]. cbn in H2. destruct H2 as [H2 _].
  fold lp in H2. rewrite Hbe in H2. apply Z.leb_le in H2.
  assert (He : c05_enforced_at (d_start_height lp) tip f = true) by (apply enforced_from_guard; auto; lia).
  exists f. split; [exact Hf|]. split; [exact He|]. intros C HC. eapply safe_region; eauto.
Qed.
