(* C22: retransmissions stop when the swap moves on; never two retransmitters per swap. *)
From Coq Require Import String ZArith Bool List Lia.
From RecordUpdate Require Import RecordSet.
From PS Require Import Base.Wrap Model.Data Model.Actions Model.Fsm Model.History Model.FsmCorr Model.C22Corr
  Gen.ConstsSwap Gen.Tables
  Proofs.Monad Proofs.ExecRule Proofs.MTac Proofs.Engine Proofs.HistRule.
Import ListNotations RecordSetNotations.
Open Scope Z_scope.
Open Scope list_scope.

Strategy opaque [event_loop exec loop_fuel action_fuel pay_loop].

(* ---------- effect lists ---------- *)
Definition is_start (e : effect) : bool := match e with ERetransStart => true | _ => false end.
Definition is_stop (e : effect) : bool := match e with ERetransStop => true | _ => false end.
Definition no_start (es : list effect) : Prop := existsb is_start es = false.

Lemma live_fold_app b a c : live_fold b (a ++ c) = live_fold (live_fold b a) c.
Proof. unfold live_fold. apply fold_left_app. Qed.

Lemma starts_ok_app b a c : starts_ok b (a ++ c) = starts_ok b a && starts_ok (live_fold b a) c.
Proof.
  revert b. induction a as [|e r IH]; intros b; cbn; [reflexivity|].
  rewrite IH, andb_assoc. reflexivity.
Qed.

Lemma no_start_app a c : no_start (a ++ c) <-> no_start a /\ no_start c.
Proof. unfold no_start. rewrite existsb_app, orb_false_iff. tauto. Qed.

(* without a start the retransmitter can only go from live to stopped *)
Lemma live_fold_no_start b es : no_start es -> live_fold b es = true -> b = true.
Proof.
  revert b. induction es as [|e r IH]; intros b Hn H; [exact H|].
  unfold no_start in Hn. cbn in Hn. apply orb_false_iff in Hn. destruct Hn as [He Hr].
  cbn in H. specialize (IH _ Hr H). destruct e; cbn in *; auto; discriminate.
Qed.

Lemma starts_ok_no_start b es : no_start es -> starts_ok b es = true.
Proof.
  revert b. induction es as [|e r IH]; intros b Hn; [reflexivity|].
  unfold no_start in Hn. cbn in Hn. apply orb_false_iff in Hn. destruct Hn as [He Hr].
  cbn. rewrite (IH _ Hr). destruct e; cbn in *; auto; discriminate.
Qed.

(* a stop and no start: stopped, whatever was before *)
Lemma live_fold_stop b es : no_start es -> existsb is_stop es = true -> live_fold b es = false.
Proof.
  revert b. induction es as [|e r IH]; intros b Hn Hs; [discriminate|].
  unfold no_start in Hn. cbn in Hn. apply orb_false_iff in Hn. destruct Hn as [He Hr].
  cbn in Hs. cbn. destruct (is_stop e) eqn:Es.
  - destruct e; try discriminate. change (live_fold false r = false).
    destruct (live_fold false r) eqn:E; [|reflexivity]. apply live_fold_no_start in E; auto.
  - cbn in Hs. apply IH; auto.
Qed.

Lemma starts_ok_firstn b es k : starts_ok b es = true -> starts_ok b (firstn k es) = true.
Proof.
  revert b k. induction es as [|e r IH]; intros b [|k] H; cbn; auto.
  cbn in H. apply andb_true_iff in H. destruct H as [H1 H2]. rewrite H1. cbn. auto.
Qed.

(* ---------- what an execution of an action tree does ---------- *)
Section Exec.
Variable tc : tl_consts.
Variable dec : string -> option (string * Z * Z).

(* a leaf starts at most one retransmitter *)
Definition leaf_fx (es : list effect) : Prop := starts_ok false es = true.

Lemma pay_loop_no_start n : forall csvh pol payreq d w r w' es,
  pay_loop n csvh pol payreq d w = (r, w', es) -> no_start es.
Proof.
  induction n as [|n IH]; intros csvh pol payreq d w r w' es H.
  - rewrite pay_loop_O in H. msym. reflexivity.
  - rewrite pay_loop_S in H. msym; list_simpl; try reflexivity.
    apply IH in H. unfold no_start in *. cbn. exact H.
Qed.

Lemma leaf_fx_holds name f : In (name, f) (leaf_actions tc dec) ->
  forall d w r w' es, f d w = (r, w', es) ->
  leaf_fx es /\ (String.eqb name retry_leaf = false -> no_start es).
Proof.
  intros Hin d w r w' es H. leaf_cases Hin.
  all: autounfold with actions in H; msym; list_simpl.
  all: try (split; [reflexivity|intros _; reflexivity]).
  all: try (split; [reflexivity|intros X; discriminate X]).
  all: match goal with X : pay_loop _ _ _ _ _ _ = _ |- _ => apply pay_loop_no_start in X end.
  all: split; [apply starts_ok_no_start|intros _]; unfold no_start in *; cbn; assumption.
Qed.

(* the whole tree: the wrappers add no start; whatever precedes the leaf has no start *)
Definition tree_q (d : swap_data) (r : string * swap_data) (es : list effect) : Prop :=
  exists pre post, es = (pre ++ post)%list /\ no_start pre /\ leaf_fx post.

Lemma tree_q_cons e d r es : is_start e = false -> tree_q d r es -> tree_q d r (e :: es).
Proof.
  intros He (pre & post & -> & Hn & Hl). exists (e :: pre), post. split; [reflexivity|]. split; [|exact Hl].
  unfold no_start in *. cbn. rewrite He. exact Hn.
Qed.

Theorem exec_tree_q fuel a d w r w' es : exec tc dec fuel a d w = (r, w', es) -> tree_q d r es.
Proof.
  apply (exec_rule tc dec tree_q).
  - intros name f Hin d0 w0 r0 w1 es0 H. exists [], es0. split; [reflexivity|]. split; [reflexivity|].
    eapply leaf_fx_holds; eauto.
  - intros d0. exists [], []. repeat split.
  - intros d0. exists [], [ERequestedSwapLog]. repeat split.
  - intros d0. exists [], []. repeat split.
  - intros d0 k r0 es0 _ H. exact H.
  - intros d0 r0 es0 H. apply tree_q_cons; auto.
  - intros d0 _. exists [], []. repeat split.
  - intros d0 r0 es0 _ H. exact H.
  - intros d0 r0 es0 H. apply tree_q_cons; auto.
Qed.

(* started from "stopped", a tree starts at most one retransmitter *)
Lemma exec_starts_ok fuel a d w r w' es : exec tc dec fuel a d w = (r, w', es) -> starts_ok false es = true.
Proof.
  intros H. apply exec_tree_q in H. destruct H as (pre & post & -> & Hn & Hl).
  rewrite starts_ok_app, (starts_ok_no_start _ _ Hn). cbn.
  destruct (live_fold false pre) eqn:E; [apply live_fold_no_start in E; [discriminate|exact Hn]|exact Hl].
Qed.

(* F1: a tree without the retry leaf starts nothing *)
Lemma exec_no_start fuel : forall a d w r w' es,
  tree_may_start a = false -> exec tc dec fuel a d w = (r, w', es) -> no_start es.
Proof.
  induction fuel as [|fuel IH]; intros [name ch] d w r w' es Hm H.
  - rewrite exec_O in H. msym. reflexivity.
  - rewrite exec_S in H. cbv zeta in H. cbn [tree_may_start] in Hm. apply orb_false_iff in Hm. destruct Hm as [Hname Hch].
    assert (Next : forall d' w1 r1 w2 e1,
              (match first_child ch with Some c => exec tc dec fuel c d' | None => ret (Ev_Unknown, d') end) w1
              = (r1, w2, e1) -> no_start e1).
    { intros d' w1 r1 w2 e1 Hn. destruct ch as [|c ch']; cbn [first_child] in Hn.
      - apply ret_inv in Hn. destruct Hn as (_ & _ & ->). reflexivity.
      - cbn [existsb] in Hch. apply orb_false_iff in Hch. destruct Hch as [Hc _]. eapply IH; eauto. }
    destruct (String.eqb name "CheckRequestWrapperAction").
    { apply bind_inv in H. destruct H as (cr & w1 & e1 & e2 & Hc & H & ->).
      apply check_request_no_effects in Hc. subst e1. cbn [app].
      destruct cr as [[|]|]; [eapply Next; eauto| |]; unfold log_rejected in H; msym; reflexivity. }
    destruct (String.eqb name "SetBlindingKeyActionWrapper").
    { destruct (String.eqb (get_chain d) lbtc_chain); [|eapply Next; eauto].
      apply bind_inv in H. destruct H as (k & w1 & e1 & e2 & Hp & H & ->). apply pop_inv in Hp. subst e1.
      cbn [app]. eapply Next; eauto. }
    destruct (String.eqb name "StopSendMessageWithRetryWrapperAction").
    { apply bind_inv in H. destruct H as (u & w1 & e1 & e2 & He & H & ->). apply emit_inv in He. destruct He as (-> & ->).
      apply Next in H. unfold no_start in *. cbn. exact H. }
    destruct (String.eqb name "CheckPremiumAmount").
    { destruct (check_premium d) as [[|]|]; [eapply Next; eauto| |]; msym; reflexivity. }
    destruct (String.eqb name "AddSuspiciousPeerAction").
    { apply bind_inv in H. destruct H as (ok & w1 & e1 & e2 & Hp & H & ->). apply pop_inv in Hp. subst e1.
      apply bind_inv in H. destruct H as (u & w2 & e3 & e4 & He & H & ->). apply emit_inv in He. destruct He as (-> & ->).
      apply Next in H. unfold no_start in *. cbn. exact H. }
    destruct (assoc_str name (leaf_actions tc dec)) as [f|] eqn:Ef.
    + apply assoc_str_in in Ef. eapply leaf_fx_holds; eauto.
    + msym. reflexivity.
Qed.

(* F2: a stopping tree stops on every path *)
Lemma exec_stops fuel : forall a d w r w' es,
  tree_stops fuel a = true -> exec tc dec fuel a d w = (r, w', es) -> existsb is_stop es = true.
Proof.
  induction fuel as [|fuel IH]; intros [name ch] d w r w' es Hs H; [discriminate Hs|].
  rewrite exec_S in H. cbv zeta in H. cbn [tree_stops] in Hs.
  destruct (String.eqb name "CheckRequestWrapperAction"); [discriminate Hs|].
  destruct (String.eqb name "SetBlindingKeyActionWrapper").
  { destruct (first_child ch) as [c|]; [|discriminate Hs].
    destruct (String.eqb (get_chain d) lbtc_chain); [|eapply IH; eauto].
    apply bind_inv in H. destruct H as (k & w1 & e1 & e2 & Hp & H & ->). apply pop_inv in Hp. subst e1.
    cbn [app]. eapply IH; eauto. }
  destruct (String.eqb name "StopSendMessageWithRetryWrapperAction").
  { apply bind_inv in H. destruct H as (u & w1 & e1 & e2 & He & H & ->). apply emit_inv in He. destruct He as (-> & ->).
    reflexivity. }
  destruct (String.eqb name "CheckPremiumAmount"); [discriminate Hs|].
  destruct (String.eqb name "AddSuspiciousPeerAction").
  { destruct (first_child ch) as [c|]; [|discriminate Hs].
    apply bind_inv in H. destruct H as (ok & w1 & e1 & e2 & Hp & H & ->). apply pop_inv in Hp. subst e1.
    apply bind_inv in H. destruct H as (u & w2 & e3 & e4 & He & H & ->). apply emit_inv in He. destruct He as (-> & ->).
    cbn. eapply IH; eauto. }
  apply String.eqb_eq in Hs. subst name. cbn in H. inversion H; subst. reflexivity.
Qed.

End Exec.

(* ---------- the engine ---------- *)
Section Engine.
Variable tc : tl_consts.
Variable dec : string -> option (string * Z * Z).
Variable t : table.
Variable terminal : list string.
Hypothesis Hok : c22_table_ok t = true.

Definition inv (b : bool) (s : string) : Prop := b = true -> str_mem s (live_states t) = true.

Lemma edge_in s ev s' : next_state t s ev = Some s' -> In (s, ev, s') (edges t).
Proof.
  unfold next_state, lookup_state. destruct (assoc_str s t) as [sd|] eqn:E; [|discriminate].
  intros H. apply assoc_str_in in E. apply assoc_str_in in H.
  unfold edges. apply in_flat_map. exists (s, sd). split; [exact E|].
  cbn. apply in_map_iff. exists (ev, s'). split; [reflexivity|exact H].
Qed.

Lemma edge_ok s ev s' : next_state t s ev = Some s' -> c22_edge_ok t (s, ev, s') = true.
Proof. intros H. unfold c22_table_ok in Hok. rewrite forallb_forall in Hok. apply Hok. apply edge_in. exact H. Qed.

Lemma announce_in s sd : lookup_state t s = Some sd -> state_may_start t s = true -> str_mem s (live_states t) = true.
Proof.
  intros Hl Hm. unfold str_mem, live_states. rewrite existsb_app. apply orb_true_iff. left.
  apply existsb_exists. exists s. split; [|apply String.eqb_refl].
  unfold announce_states. apply in_map_iff. exists (s, sd). split; [reflexivity|].
  apply filter_In. split; [apply assoc_str_in; exact Hl|exact Hm].
Qed.

(* one transition: the action of the next state runs *)
Lemma transition_fx b s ev nxt sd act d w r w' e1 :
  inv b s -> next_state t s ev = Some nxt -> lookup_state t nxt = Some sd -> st_action sd = Some act ->
  exec tc dec action_fuel act d w = (r, w', e1) ->
  starts_ok b e1 = true /\ inv (live_fold b e1) nxt.
Proof.
  intros Hi Hn Hl Ha Hex. pose proof (edge_ok _ _ _ Hn) as He. unfold c22_edge_ok in He.
  apply andb_true_iff in He. destruct He as [He1 He2].
  assert (Ht : state_tree t nxt = Some act) by (unfold state_tree; rewrite Hl; exact Ha).
  unfold state_may_start, state_stops in *. rewrite Ht in *.
  destruct (tree_may_start act) eqn:Hm.
  - (* an announcing state: entered stopped *)
    apply negb_true_iff in He1.
    assert (Hb : b = false) by (destruct b; [rewrite (Hi eq_refl) in He1; discriminate|reflexivity]). subst b.
    split; [eapply exec_starts_ok; eauto|].
    intros _. eapply announce_in; eauto. unfold state_may_start, state_tree. rewrite Hl, Ha. exact Hm.
  - pose proof (exec_no_start tc dec _ _ _ _ _ _ _ Hm Hex) as Hns.
    split; [apply starts_ok_no_start; exact Hns|].
    intros Hlive. pose proof (live_fold_no_start _ _ Hns Hlive) as Hb. specialize (Hi Hb).
    rewrite Hi in He2. cbn [andb] in He2.
    destruct (str_mem nxt (live_states t)) eqn:Hin; [reflexivity|]. cbn [negb] in He2.
    pose proof (exec_stops tc dec _ _ _ _ _ _ _ He2 Hex) as Hst.
    rewrite (live_fold_stop _ _ Hns Hst) in Hlive. discriminate.
Qed.

Lemma persist_fx m w ok w' es b : persist m w = (ok, w', es) -> starts_ok b es = true /\ live_fold b es = b.
Proof. intros H. apply persist_inv in H. subst. cbn. auto. Qed.

Lemma event_loop_fx fuel : forall b m ev w m' res w' es,
  inv b (m_cur m) -> event_loop tc dec t fuel m ev w = ((m', res), w', es) ->
  starts_ok b es = true /\ inv (live_fold b es) (m_cur m').
Proof.
  induction fuel as [|fuel IH]; intros b m ev w m' res w' es Hi H.
  - rewrite event_loop_O in H. apply ret_inv in H. destruct H as (H & _ & ->). inversion H; subst. auto.
  - rewrite event_loop_S in H.
    destruct (next_state t (m_cur m) ev) as [nxt|] eqn:Hn.
    2:{ apply ret_inv in H. destruct H as (H & _ & ->). inversion H; subst. auto. }
    destruct (lookup_state t nxt) as [sd|] eqn:Hl.
    2:{ apply ret_inv in H. destruct H as (H & _ & ->). inversion H; subst. auto. }
    destruct (st_action sd) as [act|] eqn:Ha.
    2:{ apply ret_inv in H. destruct H as (H & _ & ->). inversion H; subst. auto. }
    cbv zeta in H.
    apply bind_inv in H. destruct H as ([ev' d'] & w1 & e1 & e2 & Hex & H & ->).
    destruct (transition_fx _ _ _ _ _ _ _ _ _ _ _ Hi Hn Hl Ha Hex) as [S1 I1].
    set (m2 := (m <| m_prev := m_cur m |> <| m_cur := nxt |> <| m_data := (m_data m) <| d_fsm_state := nxt |> |>) <| m_data := d' |>) in *.
    destruct (String.eqb ev' Ev_Panic).
    { apply ret_inv in H. destruct H as (H & _ & ->). inversion H; subst. rewrite app_nil_r. auto. }
    apply bind_inv in H. destruct H as (ok & w2 & e3 & e4 & Hp & H & ->).
    destruct (persist_fx _ _ _ _ _ (live_fold b e1) Hp) as [S3 L3].
    assert (Hfin : forall mm, m_cur mm = nxt ->
              starts_ok b (e1 ++ e3 ++ []) = true /\ inv (live_fold b (e1 ++ e3 ++ [])) (m_cur mm)).
    { intros mm Hmm. rewrite app_nil_r, starts_ok_app, live_fold_app, S1, S3, L3, Hmm. auto. }
    assert (Hrec : forall mm evx wx mx rx wy ey, m_cur mm = nxt ->
              event_loop tc dec t fuel mm evx wx = ((mx, rx), wy, ey) ->
              starts_ok b (e1 ++ e3 ++ ey) = true /\ inv (live_fold b (e1 ++ e3 ++ ey)) (m_cur mx)).
    { intros mm evx wx mx rx wy ey Hmm Hl'. rewrite <- Hmm in I1. rewrite <- L3 in I1.
      apply (IH (live_fold (live_fold b e1) e3)) in Hl'; [|exact I1]. destruct Hl' as [S4 I4].
      rewrite !starts_ok_app, !live_fold_app, S1, S3, S4. auto. }
    destruct ok; cbn [negb] in H.
    2:{ apply ret_inv in H. destruct H as (H & _ & ->). inversion H; subst. apply Hfin. reflexivity. }
    destruct (String.eqb ev' Ev_Done).
    { apply ret_inv in H. destruct H as (H & _ & ->). inversion H; subst. apply Hfin. reflexivity. }
    destruct (String.eqb ev' Ev_NoOp).
    { apply ret_inv in H. destruct H as (H & _ & ->). inversion H; subst. apply Hfin. reflexivity. }
    destruct (String.eqb ev' Ev_Retry).
    + cbv zeta in H.
      match type of H with (if ?c then _ else _) _ = _ => destruct c end.
      * apply ret_inv in H. destruct H as (H & _ & ->). inversion H; subst. apply Hfin. reflexivity.
      * eapply Hrec; [|exact H]. reflexivity.
    + eapply Hrec; [|exact H]. reflexivity.
Qed.

Lemma ptl_fx b m ev w m' res w' es :
  inv b (m_cur m) -> persist_then_loop tc dec t m ev w = ((m', res), w', es) ->
  starts_ok b es = true /\ inv (live_fold b es) (m_cur m').
Proof.
  intros Hi H. unfold persist_then_loop in H.
  apply bind_inv in H. destruct H as (ok & w1 & e1 & e2 & Hp & H & ->).
  destruct (persist_fx _ _ _ _ _ b Hp) as [S1 L1].
  destruct ok; cbn [negb] in H.
  - rewrite <- L1 in Hi. apply event_loop_fx with (b := live_fold b e1) in H; [|exact Hi]. destruct H as [S2 I2].
    rewrite starts_ok_app, live_fold_app, S1, S2. auto.
  - apply ret_inv in H. destruct H as (H & _ & ->). inversion H; subst. rewrite app_nil_r, S1, L1. auto.
Qed.

Lemma send_event_fx b m ev ctx w m' res w' es :
  inv b (m_cur m) -> send_event tc dec t m ev ctx w = ((m', res), w', es) ->
  starts_ok b es = true /\ inv (live_fold b es) (m_cur m').
Proof.
  intros Hi H. unfold send_event in H.
  destruct (String.eqb ev Ev_Done).
  { apply ret_inv in H. destruct H as (H & _ & ->). inversion H; subst. auto. }
  destruct (next_state t (m_cur m) ev).
  2:{ apply ret_inv in H. destruct H as (H & _ & ->). inversion H; subst. auto. }
  destruct ctx as [c|].
  - destruct (validate_ctx (m_data m) c); cbn [negb] in H.
    + destruct (apply_ctx (m_data m) c) as [d'|].
      * eapply ptl_fx; [|exact H]. exact Hi.
      * apply ret_inv in H. destruct H as (H & _ & ->). inversion H; subst. auto.
    + unfold accepted_then_loop in H. destruct (next_state t (m_cur m) Ev_Invalid).
      * eapply ptl_fx; eauto.
      * apply ret_inv in H. destruct H as (H & _ & ->). inversion H; subst. auto.
  - eapply ptl_fx; eauto.
Qed.

Lemma recover_fx m w m' res w' es :
  recover tc dec t m w = ((m', res), w', es) ->
  starts_ok false es = true /\ inv (live_fold false es) (m_cur m').
Proof.
  intros H. unfold recover in H.
  assert (I0 : inv false (m_cur m)) by (intros X; discriminate X).
  destruct (lookup_state t (m_cur m)) as [sd|] eqn:Hl.
  2:{ apply ret_inv in H. destruct H as (H & _ & ->). inversion H; subst. auto. }
  destruct (st_action sd) as [act|] eqn:Ha.
  2:{ apply ret_inv in H. destruct H as (H & _ & ->). inversion H; subst. auto. }
  destruct (st_fail_on_recover sd).
  { eapply send_event_fx; eauto. }
  apply bind_inv in H. destruct H as ([ev' d'] & w1 & e1 & e2 & Hex & H & ->).
  pose proof (exec_starts_ok tc dec _ _ _ _ _ _ _ Hex) as S1.
  assert (I1 : inv (live_fold false e1) (m_cur m)).
  { intros Hlive. destruct (tree_may_start act) eqn:Hm.
    - eapply announce_in; eauto. unfold state_may_start, state_tree. rewrite Hl, Ha. exact Hm.
    - pose proof (exec_no_start tc dec _ _ _ _ _ _ _ Hm Hex) as Hns.
      apply live_fold_no_start in Hlive; [discriminate|exact Hns]. }
  destruct (String.eqb ev' Ev_Panic).
  { apply ret_inv in H. destruct H as (H & _ & ->). inversion H; subst. rewrite app_nil_r. auto. }
  apply bind_inv in H. destruct H as (ok & w2 & e3 & e4 & Hp & H & ->).
  destruct (persist_fx _ _ _ _ _ (live_fold false e1) Hp) as [S3 L3].
  destruct ok; cbn [negb] in H.
  2:{ apply ret_inv in H. destruct H as (H & _ & ->). inversion H; subst.
      rewrite app_nil_r, starts_ok_app, live_fold_app, S1, S3, L3. auto. }
  destruct (String.eqb ev' Ev_NoOp).
  { apply ret_inv in H. destruct H as (H & _ & ->). inversion H; subst.
    rewrite app_nil_r, starts_ok_app, live_fold_app, S1, S3, L3. auto. }
  rewrite <- L3 in I1.
  apply send_event_fx with (b := live_fold (live_fold false e1) e3) in H; [|exact I1].
  destruct H as [S4 I4]. rewrite !starts_ok_app, !live_fold_app, S1, S3, S4. auto.
Qed.

(* every entry point of the service *)
Theorem step_fx b m i w o w' es :
  inv b (m_cur m) -> (i = InRecover -> b = false) ->
  step tc dec t terminal m i w = (o, w', es) ->
  starts_ok b es = true /\ inv (live_fold b es) (m_cur (o_machine o)).
Proof.
  intros Hi Hb H. destruct i as [ev ctx|rq|hex err| | |]; unfold step in H.
  - apply bind_inv in H. destruct H as ([m1 res] & w1 & e1 & e2 & Hs & H & ->).
    apply ret_inv in H. destruct H as (-> & _ & ->). rewrite app_nil_r. eapply send_event_fx; eauto.
  - apply bind_inv in H. destruct H as ([m1 res] & w1 & e1 & e2 & Hs & H & ->).
    apply ret_inv in H. destruct H as (-> & _ & ->). rewrite app_nil_r. eapply send_event_fx; eauto.
  - apply bind_inv in H. destruct H as ([m0 rem0] & w1 & e1 & e2 & H0 & H & ->).
    assert (Pre : starts_ok b e1 = true /\ inv (live_fold b e1) (m_cur m0)).
    { destruct err.
      - apply bind_inv in H0. destruct H0 as ([mx rx] & wx & ex & ey & Hs & H0 & ->).
        apply ret_inv in H0. destruct H0 as (H0 & _ & ->). inversion H0; subst. rewrite app_nil_r.
        eapply send_event_fx; eauto.
      - apply ret_inv in H0. destruct H0 as (H0 & _ & ->). inversion H0; subst. auto. }
    destruct Pre as [S1 I1].
    apply bind_inv in H. destruct H as ([m1 res] & w2 & e3 & e4 & Hs & H & ->).
    apply ret_inv in H. destruct H as (-> & _ & ->). rewrite app_nil_r.
    apply send_event_fx with (b := live_fold b e1) in Hs; [|exact I1].
    destruct Hs as [S2 I2]. cbn [o_machine]. rewrite starts_ok_app, live_fold_app, S1, S2. auto.
  - apply bind_inv in H. destruct H as ([m1 res] & w1 & e1 & e2 & Hs & H & ->).
    apply ret_inv in H. destruct H as (-> & _ & ->). rewrite app_nil_r. eapply send_event_fx; eauto.
  - apply bind_inv in H. destruct H as ([m1 res] & w1 & e1 & e2 & Hs & H & ->).
    apply ret_inv in H. destruct H as (-> & _ & ->). rewrite app_nil_r. eapply send_event_fx; eauto.
  - rewrite (Hb eq_refl) in *.
    destruct (is_finished terminal (m_cur m)).
    { apply ret_inv in H. destruct H as (-> & _ & ->). cbn. split; auto. }
    apply bind_inv in H. destruct H as ([m1 res] & w1 & e1 & e2 & Hs & H & ->).
    apply ret_inv in H. destruct H as (-> & _ & ->). rewrite app_nil_r. eapply recover_fx; eauto.
Qed.

(* ---------- all histories, with crashes and restarts ---------- *)
Definition hist_inv (st : hstate * bool * bool) : Prop :=
  let '(h, b, ok) := st in
  ok = true /\ (b = true -> exists m, hs_machine h = Some m /\ str_mem (m_cur m) (live_states t) = true).

Lemma live_hist_step_inv st it : hist_inv st -> hist_inv (live_hist_step tc dec t terminal st it).
Proof.
  destruct st as [[h b] ok]. intros [Hok' Hb]. unfold live_hist_step, hist_step.
  destruct (hs_machine h) as [m0|] eqn:Hm.
  2:{ cbn. rewrite Hm. split; auto. }
  assert (I0 : inv b (m_cur m0)).
  { intros X. destruct (Hb X) as (m & Hx & Hin). inversion Hx; subst. exact Hin. }
  destruct (is_recover (item_input it)) eqn:Hrec.
  - destruct (restore m0 (hs_trace h)) as [mr|] eqn:Hr.
    2:{ cbn. split; auto. discriminate. }
    destruct it as [i w|i w k]; cbn [item_input] in Hrec; destruct i; try discriminate Hrec.
    + destruct (run_step tc dec t terminal mr InRecover w) as [[o w'] es] eqn:Hs.
      assert (I1 : inv false (m_cur mr)) by (intros X; discriminate X).
      destruct (step_fx false mr InRecover w o w' es I1 (fun _ => eq_refl) Hs) as [S1 I2].
      cbn. rewrite Hok', S1. split; auto. intros X. exists (o_machine o). split; [reflexivity|]. exact (I2 X).
    + destruct (run_step tc dec t terminal mr InRecover w) as [[o w'] es] eqn:Hs.
      assert (I1 : inv false (m_cur mr)) by (intros X; discriminate X).
      destruct (step_fx false mr InRecover w o w' es I1 (fun _ => eq_refl) Hs) as [S1 I2].
      cbn. rewrite Hok', (starts_ok_firstn _ _ k S1). split; auto. discriminate.
  - destruct it as [i w|i w k]; cbn [item_input] in Hrec.
    + destruct (run_step tc dec t terminal m0 i w) as [[o w'] es] eqn:Hs.
      assert (Hi : i = InRecover -> b = false) by (intros ->; discriminate Hrec).
      destruct (step_fx b m0 i w o w' es I0 Hi Hs) as [S1 I2].
      cbn. rewrite Hok', S1. split; auto. intros X. exists (o_machine o). split; [reflexivity|]. exact (I2 X).
    + destruct (run_step tc dec t terminal m0 i w) as [[o w'] es] eqn:Hs.
      assert (Hi : i = InRecover -> b = false) by (intros ->; discriminate Hrec).
      destruct (step_fx b m0 i w o w' es I0 Hi Hs) as [S1 I2].
      cbn. rewrite Hok', (starts_ok_firstn _ _ k S1). split; auto. discriminate.
Qed.

Theorem live_hist_inv m0 its : hist_inv (live_hist tc dec t terminal m0 its).
Proof.
  unfold live_hist.
  assert (G : forall its st, hist_inv st -> hist_inv (fold_left (live_hist_step tc dec t terminal) its st)).
  { clear its. induction its as [|it r IH]; intros st Hst; [exact Hst|]. cbn. apply IH. apply live_hist_step_inv. exact Hst. }
  apply G. cbn. split; auto. discriminate.
Qed.

(* live_hist tracks the same history state as run_hist *)
Lemma live_hist_fst m0 its : fst (fst (live_hist tc dec t terminal m0 its)) = run_hist tc dec t terminal (init_hstate m0) its.
Proof.
  unfold live_hist, run_hist.
  assert (G : forall its h b ok, fst (fst (fold_left (live_hist_step tc dec t terminal) its (h, b, ok))) =
                                 fold_left (hist_step tc dec t terminal) its h).
  { clear its. induction its as [|it r IH]; intros h b ok; [reflexivity|]. cbn [fold_left].
    destruct (live_hist_step tc dec t terminal (h, b, ok) it) as [[h' b'] ok'] eqn:E.
    rewrite IH. f_equal. unfold live_hist_step in E.
    destruct (hs_machine h); [|inversion E; reflexivity].
    destruct (if is_recover (item_input it) then restore m (hs_trace h) else Some m); [|inversion E; reflexivity].
    destruct it; destruct (run_step tc dec t terminal m1 i w) as [[? ?] ?]; inversion E; reflexivity. }
  apply G.
Qed.

End Engine.

(* ---------- the generated tables ---------- *)
Lemma gen_tables_ok :
  c22_table_ok table_swap_out_sender = true /\ c22_table_ok table_swap_out_receiver = true /\
  c22_table_ok table_swap_in_sender = true /\ c22_table_ok table_swap_in_receiver = true.
Proof. vm_compute. repeat split; reflexivity. Qed.

(* the live states of the code's tables are the announcement and the wait for the taker's reaction;
   the takers never retransmit *)
Lemma gen_live_states :
  live_states table_swap_out_receiver =
    ["State_SwapOutReceiver_SendTxBroadcastedMessage"; "State_SwapOutReceiver_AwaitClaimInvoicePayment"]%string /\
  live_states table_swap_in_sender =
    ["State_SwapInSender_SendTxBroadcastedMessage"; "State_SwapInSender_AwaitClaimPayment"]%string /\
  live_states table_swap_out_sender = [] /\ live_states table_swap_in_receiver = [].
Proof. vm_compute. repeat split; reflexivity. Qed.

Theorem all_histories tc dec t terminal : c22_table_ok t = true ->
  forall m0 its,
    let '(h, live, never_two) := live_hist tc dec t terminal m0 its in
    h = run_hist tc dec t terminal (init_hstate m0) its /\
    never_two = true /\
    (live = true -> exists m, hs_machine h = Some m /\ str_mem (m_cur m) (live_states t) = true).
Proof.
  intros Hok m0 its.
  pose proof (live_hist_inv tc dec t terminal Hok m0 its) as H.
  pose proof (live_hist_fst tc dec t terminal m0 its) as F.
  destruct (live_hist tc dec t terminal m0 its) as [[h b] ok]. cbn in *. tauto.
Qed.

Theorem action_trees tc dec fuel a d w r w' es :
  exec tc dec fuel a d w = (r, w', es) ->
  (tree_stops fuel a = true -> existsb (fun e => match e with ERetransStop => true | _ => false end) es = true) /\
  (tree_may_start a = false -> existsb (fun e => match e with ERetransStart => true | _ => false end) es = false) /\
  starts_ok false es = true.
Proof.
  intros H. split; [|split].
  - intros Hs. exact (exec_stops tc dec fuel a d w r w' es Hs H).
  - intros Hm. exact (exec_no_start tc dec fuel a d w r w' es Hm H).
  - exact (exec_starts_ok tc dec fuel a d w r w' es H).
Qed.

Lemma generated_tables :
  (c22_table_ok table_swap_out_sender = true /\ c22_table_ok table_swap_out_receiver = true /\
   c22_table_ok table_swap_in_sender = true /\ c22_table_ok table_swap_in_receiver = true) /\
  (live_states table_swap_out_receiver =
     ["State_SwapOutReceiver_SendTxBroadcastedMessage"; "State_SwapOutReceiver_AwaitClaimInvoicePayment"]%string /\
   live_states table_swap_in_sender =
     ["State_SwapInSender_SendTxBroadcastedMessage"; "State_SwapInSender_AwaitClaimPayment"]%string /\
   live_states table_swap_out_sender = [] /\ live_states table_swap_in_receiver = []).
Proof. exact (conj gen_tables_ok gen_live_states). Qed.

Lemma example_folds :
  live_fold false [ERetransStart; ESend "peer" (MCancel (mkCancel "" ""))] = true /\
  live_fold true [ERetransStop; EBroadcastSpend SKCsv (Some "tx"%string)] = false /\
  starts_ok true [ERetransStart] = false /\ starts_ok true [ERetransStop; ERetransStart] = true.
Proof. repeat split; reflexivity. Qed.

(* ---------- which message is retransmitted ---------- *)
(* SendMessageWithRetryAction hands NextMessage to the new retransmitter and sends it at once *)
Lemma retry_sends_next_msg d w r w' es :
  act_send_message_retry d w = (r, w', es) -> existsb is_start es = true ->
  exists m, d_next_msg d = Some m /\ es = [ERetransStart; ESend (d_peer d) m] /\ r = (Ev_Succeeded, d).
Proof.
  intros H Hs. unfold act_send_message_retry in H. msym; list_simpl; try discriminate Hs.
  eexists. split; [reflexivity|]. split; reflexivity.
Qed.

(* when CreateAndBroadcastOpeningTransaction really builds the opening transaction (no
   opening_tx_broadcasted message is in the swap data yet) and succeeds, NextMessage is the
   opening_tx_broadcasted message it stores *)
Lemma opening_sets_next_msg tc d w d' w' es :
  act_create_and_broadcast_opening tc d w = ((Ev_Succeeded, d'), w', es) -> d_otb d = None ->
  exists o, d_otb d' = Some o /\ d_next_msg d' = Some (MOtb o) /\
            existsb (fun e => match e with EBroadcastOpening _ _ _ _ _ _ (Some _) => true | _ => false end) es = true.
Proof.
  intros H Hn. autounfold with actions in H. rewrite Hn in H. msym; list_simpl; try discriminate.
  eexists. split; [reflexivity|]. split; [reflexivity|]. cbn. rewrite ?orb_true_r. reflexivity.
Qed.

Theorem announcement_message_partial (tc : tl_consts) :
  (forall d w r w' es, act_send_message_retry d w = (r, w', es) -> existsb is_start es = true ->
     exists m, d_next_msg d = Some m /\ es = [ERetransStart; ESend (d_peer d) m] /\ r = (Ev_Succeeded, d)) /\
  (forall d w d' w' es, act_create_and_broadcast_opening tc d w = ((Ev_Succeeded, d'), w', es) -> d_otb d = None ->
     exists o, d_otb d' = Some o /\ d_next_msg d' = Some (MOtb o) /\
               existsb (fun e => match e with EBroadcastOpening _ _ _ _ _ _ (Some _) => true | _ => false end) es = true).
Proof. split; [apply retry_sends_next_msg|apply opening_sets_next_msg]. Qed.
