(* C19: in a skeleton that passes the lockset check, two different threads are never simultaneously about to
   perform conflicting accesses (same field class, at least one write) - except pairs the check was told to excuse. *)
From Coq Require Import Arith NArith Bool Lia List.
Import ListNotations.
From PS Require Import Model.Skel Proofs.Skel.
Open Scope N_scope.

Section Lockset.
Variable p : prog.
Variable E : fname -> list lock.
Variable roots : list fname.
Variable exc : excuse.
Hypothesis Hcheck : lockset_check p E roots exc = true.

Lemma ls_parts : wb_prog p = true /\ must_ok p E roots = true /\ pairs_ok p E exc = true.
Proof.
  unfold lockset_check in Hcheck. apply andb_true_iff in Hcheck. destruct Hcheck as [H H3].
  apply andb_true_iff in H. tauto.
Qed.

Lemma ls_wb : wb_facts p.
Proof. apply wb_prog_facts. apply ls_parts. Qed.

Lemma ls_must : forall g done o rest, body p g = done ++ o :: rest -> must_point E g (lrun [] done) o = true.
Proof.
  destruct ls_parts as [_ [H _]]. unfold must_ok in H. apply andb_true_iff in H. destruct H as [H _].
  exact (prog_points p (must_point E) H).
Qed.

Lemma ls_roots : forall g, In g roots -> E g = [].
Proof.
  destruct ls_parts as [_ [H _]]. unfold must_ok in H. apply andb_true_iff in H. destruct H as [_ H].
  rewrite forallb_forall in H. intros g Hg. apply is_nil_true. auto.
Qed.

Lemma ls_spawn : spawn_facts p E.
Proof.
  intros g done h t Hb. pose proof (ls_must _ _ _ _ Hb) as H. simpl in H. apply is_nil_true. exact H.
Qed.

(* the locks every caller holds are recorded in the frames below *)
Lemma stack_must : forall st callee x, linked p E callee st -> In x (E callee) -> In x (locks_of st).
Proof.
  induction st as [|fr r IH]; intros callee x Hlk Hx.
  - simpl in Hlk. rewrite Hlk in Hx. destruct Hx.
  - simpl in Hlk. destruct Hlk as [[done [Hb HL]] Hlk]. simpl.
    pose proof (ls_must _ _ _ _ Hb) as Hm. simpl in Hm.
    pose proof (subset_In _ _ Hm x Hx) as Hin. apply in_app_or in Hin. apply in_or_app.
    destruct Hin as [Hin|Hin].
    + right. eapply IH; eauto.
    + left. rewrite HL. exact Hin.
Qed.

Lemma sites_from_in (g : fname) (f : field) (w : bool) : forall (b : list op) (L : list lock) (done rest : list op),
  b = done ++ (if w then Wr f else Rd f) :: rest ->
  In (mkSite g f w (E g ++ lrun L done)) (sites_from E g L b).
Proof.
  induction b as [|o r IH]; intros L done rest Hb.
  - destruct done; discriminate.
  - destruct done as [|d done']; simpl in Hb; inversion Hb; subst.
    + simpl. destruct w; simpl; left; reflexivity.
    + simpl. apply in_or_app. right. unfold lrun. simpl. apply (IH _ done' rest eq_refl).
Qed.

Lemma site_in (g : fname) (f : field) (w : bool) (done rest : list op) :
  body p g = done ++ (if w then Wr f else Rd f) :: rest ->
  In (mkSite g f w (E g ++ lrun [] done)) (sites p E).
Proof.
  intros Hb. destruct (body_spec p g) as [He|Hin].
  - rewrite He in Hb. destruct done; discriminate.
  - unfold sites. apply in_flat_map. exists (g, body p g). split; auto. simpl.
    eapply sites_from_in; eauto.
Qed.

(* what a thread that is about to access a field owns: at least the lockset of a recorded site *)
Lemma access_site c i g f w :
  inv p E c -> accessing c i = Some (g, f, w) ->
  exists s, In s (sites p E) /\ s_fn s = g /\ s_field s = f /\ s_write s = w /\
            forall x, In x (s_locks s) -> owner c x = Some i.
Proof.
  intros [Hok Hown Hnd Hbd] Hacc. unfold accessing in Hacc.
  destruct (nth_error (threads c) i) as [t|] eqn:Hi; [|discriminate].
  destruct t as [|[g0 L todo] st]; [discriminate|].
  destruct todo as [|o todo]; [discriminate|].
  pose proof (Hok _ _ Hi) as [[done [Hb HL]] Hlk]. simpl in Hb, HL, Hlk.
  assert (Hlocks : forall x, In x (E g0 ++ lrun [] done) -> owner c x = Some i).
  { intros x Hx. apply (Hown _ _ x Hi). simpl. apply in_or_app. apply in_app_or in Hx. destruct Hx as [Hx|Hx].
    - right. eapply stack_must; eauto.
    - left. rewrite HL. exact Hx. }
  destruct o; try discriminate; inversion Hacc; subst.
  - exists (mkSite g f false (E g ++ lrun [] done)). simpl. repeat split; auto.
    apply (site_in g f false done todo Hb).
  - exists (mkSite g f true (E g ++ lrun [] done)). simpl. repeat split; auto.
    apply (site_in g f true done todo Hb).
Qed.

Lemma no_race_inv c i j g1 g2 f w1 w2 :
  inv p E c -> i <> j ->
  accessing c i = Some (g1, f, w1) -> accessing c j = Some (g2, f, w2) ->
  w1 || w2 = true ->
  exc f g1 g2 = true \/ exc f g2 g1 = true.
Proof.
  intros Hinv Hij H1 H2 Hw.
  destruct (access_site c i g1 f w1 Hinv H1) as [s1 [Hs1 [Hg1 [Hf1 [Hw1 Hl1]]]]].
  destruct (access_site c j g2 f w2 Hinv H2) as [s2 [Hs2 [Hg2 [Hf2 [Hw2 Hl2]]]]].
  destruct ls_parts as [_ [_ Hp]]. unfold pairs_ok in Hp.
  rewrite forallb_forall in Hp. specialize (Hp _ Hs1). rewrite forallb_forall in Hp. specialize (Hp _ Hs2).
  unfold pair_ok in Hp. rewrite Hf1, Hf2, Hg1, Hg2, Hw1, Hw2 in Hp.
  rewrite N.eqb_refl in Hp. rewrite Hw in Hp.
  destruct (share (s_locks s1) (s_locks s2)) eqn:Hsh.
  2:{ destruct (exc f g1 g2) eqn:He1; [left; reflexivity|]. right. exact Hp. }
  clear Hp. rename Hsh into Hp.
  exfalso. apply share_In in Hp. destruct Hp as [x [Hx1 Hx2]].
  apply Hl1 in Hx1. apply Hl2 in Hx2. congruence.
Qed.

Theorem lockset_sound_prog : forall ts c, incl ts roots -> reach p (init p ts) c ->
  forall i j g1 g2 f w1 w2, i <> j ->
    accessing c i = Some (g1, f, w1) -> accessing c j = Some (g2, f, w2) -> w1 || w2 = true ->
    exc f g1 g2 = true \/ exc f g2 g1 = true.
Proof.
  intros ts c Hts Hr i j g1 g2 f w1 w2. apply no_race_inv.
  eapply (inv_reach p E ls_wb ls_spawn ts c); eauto.
  intros g Hg. apply ls_roots. apply Hts. exact Hg.
Qed.

End Lockset.

Theorem lockset_sound_skel : forall (sk : skeleton) (E : fname -> list lock) (exc : excuse),
  lockset_check (prog_of sk) E (sk_roots sk) exc = true ->
  forall ts c, incl ts (sk_roots sk) -> reach (prog_of sk) (init (prog_of sk) ts) c ->
  forall i j g1 g2 f w1 w2, i <> j ->
    accessing c i = Some (g1, f, w1) -> accessing c j = Some (g2, f, w2) -> w1 || w2 = true ->
    exc f g1 g2 = true \/ exc f g2 g1 = true.
Proof. intros sk E exc H. apply (lockset_sound_prog (prog_of sk) E (sk_roots sk) exc H). Qed.

(* with no exclusion: no two threads are ever simultaneously about to perform conflicting accesses *)
Theorem lockset_sound_strict : forall (sk : skeleton) (E : fname -> list lock),
  lockset_check (prog_of sk) E (sk_roots sk) (fun _ _ _ => false) = true ->
  forall ts c, incl ts (sk_roots sk) -> reach (prog_of sk) (init (prog_of sk) ts) c ->
  forall i j g1 g2 f w1 w2, i <> j ->
    accessing c i = Some (g1, f, w1) -> accessing c j = Some (g2, f, w2) -> w1 || w2 = false.
Proof.
  intros sk E H ts c Hts Hr i j g1 g2 f w1 w2 Hij H1 H2.
  destruct (w1 || w2) eqn:Hw; [|reflexivity]. exfalso.
  destruct (lockset_sound_skel sk E _ H ts c Hts Hr i j g1 g2 f w1 w2 Hij H1 H2 Hw); discriminate.
Qed.

(* ---------- the skeleton of the code as it is now ---------- *)
From PS Require Import Gen.Skel Model.C19Corr.

Lemma c19_skeleton_ok_now : c19_skeleton_ok = true.
Proof. vm_compute. reflexivity. Qed.

Lemma c19_current_races_excused :
  forall ts c, incl ts skel_roots -> reach c19_prog (init c19_prog ts) c ->
  forall i j g1 g2 f w1 w2, i <> j ->
    accessing c i = Some (g1, f, w1) -> accessing c j = Some (g2, f, w2) -> w1 || w2 = true ->
    c19_excuse f g1 g2 = true \/ c19_excuse f g2 g1 = true.
Proof.
  assert (H : lockset_check c19_prog (lookupL c19_must) skel_roots c19_excuse = true).
  { pose proof c19_skeleton_ok_now as H. unfold c19_skeleton_ok in H.
    apply andb_true_iff in H. destruct H as [_ H]. exact H. }
  exact (lockset_sound_prog c19_prog (lookupL c19_must) skel_roots c19_excuse H).
Qed.

(* the hypotheses of lockset_sound are satisfiable by a skeleton with a lock taken by the caller, a goroutine and
   conflicting accesses:  f0: lock 0 { call f1 }; spawn f2     f1: write field 0     f2: lock 0 { read field 0 } *)
Example lockset_example :
  exists (sk : skeleton) E,
    lockset_check (prog_of sk) E (sk_roots sk) (fun _ _ _ => false) = true /\
    exists c, reach (prog_of sk) (init (prog_of sk) [0%N; 0%N]) c /\ accessing c 0 = Some (1%N, 0%N, true).
Proof.
  exists (mkSkeleton [(0, [(0,0); (2,0); (5,1); (7,2)]); (1, [(4,0)]); (2, [(0,0); (3,0); (1,0)])]%N [] [] [0]%N).
  exists (lookupL [(0, []); (1, [0]); (2, [])]%N).
  split; [vm_compute; reflexivity|].
  eexists. split.
  - eapply run_reach_init with (sched := [0; 0]%nat). vm_compute. reflexivity.
  - vm_compute. reflexivity.
Qed.
