(* Lemmas for C29: SafeUpgrade changes the stored version only when every swap is terminal. *)
From Coq Require Import String ZArith Bool Lia List.
From PS Require Import Base.Corr Model.VersionDb Gen.SwapStatesC29 Model.C29Corr.
Import ListNotations.

(* ---------- the terminal set, from the code ---------- *)
Lemma gen_terminal_states :
  map fst (filter snd swap_is_finished_table) =
  ["State_ClaimedCoop"; "State_ClaimedCsv"; "State_ClaimedPreimage"; "State_SwapCanceled"]%string.
Proof. reflexivity. Qed.

(* on every state of the four tables, IsFinished holds exactly for the states that accept no event *)
Lemma gen_finished_iff_no_events :
  forallb (fun r => Bool.eqb (code_is_finished (snd (fst r))) (Nat.eqb (snd r) 0)) swap_state_tables = true.
Proof. vm_compute. reflexivity. Qed.

Lemma gen_finished_table_covers_tables :
  forallb (fun r => existsb (fun e => String.eqb (fst e) (snd (fst r))) swap_is_finished_table) swap_state_tables = true.
Proof. vm_compute. reflexivity. Qed.

Lemma finished_iff_named s :
  code_is_finished s = true <->
  In s ["State_ClaimedCoop"; "State_ClaimedCsv"; "State_ClaimedPreimage"; "State_SwapCanceled"]%string.
Proof.
  rewrite <- gen_terminal_states. unfold code_is_finished, is_finished.
  rewrite existsb_exists, in_map_iff. split.
  - intros ([k b] & Hin & H). apply andb_true_iff in H. destruct H as [Hk Hb].
    cbn [fst snd] in Hk, Hb. apply String.eqb_eq in Hk. subst k. exists (s, b). split; [reflexivity|].
    apply filter_In. split; assumption.
  - intros ([k b] & Hk & Hin). apply filter_In in Hin. destruct Hin as [Hin Hb].
    cbn [fst snd] in Hk, Hb. subst k.
    exists (s, b). split; [assumption|]. cbn [fst snd]. rewrite String.eqb_refl. exact Hb.
Qed.

Lemma table_state_finished_iff_no_events t s n :
  In (t, s, n) swap_state_tables -> (code_is_finished s = true <-> n = 0%nat).
Proof.
  intros H. pose proof gen_finished_iff_no_events as G. rewrite forallb_forall in G.
  specialize (G _ H). simpl in G. apply eqb_prop in G. rewrite G. apply Nat.eqb_eq.
Qed.

(* ---------- SafeUpgrade, for any finished-table and any binary version ---------- *)
Section Any.
  Variable tbl : list (string * bool).

  (* every persisted swap decodes and is in a terminal state *)
  Definition all_terminal (l : list swap_rec) : Prop :=
    forall r, In r l -> exists s, r = SwState s /\ is_finished tbl s = true.

  Lemma list_all_some l ss : list_all l = Some ss -> l = map SwState ss.
  Proof.
    revert ss. induction l as [|[s|] r IH]; intros ss H; simpl in *.
    - inversion H. reflexivity.
    - destruct (list_all r) as [ss'|]; [|discriminate]. inversion H; subst. simpl. f_equal. now apply IH.
    - discriminate.
  Qed.

  Lemma list_all_none l : list_all l = None -> In SwCorrupt l.
  Proof.
    induction l as [|[s|] r IH]; intros H; simpl in *; try discriminate.
    - destruct (list_all r); [discriminate|]. right. now apply IH.
    - now left.
  Qed.

  Lemma has_active_false_iff l : has_active_swaps tbl l = Some false <-> all_terminal l.
  Proof.
    unfold has_active_swaps, all_terminal. split.
    - destruct (list_all l) as [ss|] eqn:E; [|discriminate]. intros H. inversion H as [H1].
      apply list_all_some in E. subst l. intros r Hin. apply in_map_iff in Hin.
      destruct Hin as (s & <- & Hs). exists s. split; [reflexivity|].
      destruct (is_finished tbl s) eqn:F; [reflexivity|].
      assert (X : existsb (fun s => negb (is_finished tbl s)) ss = true).
      { apply existsb_exists. exists s. split; [assumption|]. now rewrite F. }
      rewrite X in H1. discriminate.
    - intros H. destruct (list_all l) as [ss|] eqn:E.
      + f_equal. apply not_true_iff_false. intros X. apply existsb_exists in X.
        destruct X as (s & Hs & Hn). apply list_all_some in E. subst l.
        destruct (H (SwState s)) as (s' & Es & Fs); [now apply in_map|].
        inversion Es; subst. rewrite Fs in Hn. discriminate.
      + apply list_all_none in E. destruct (H _ E) as (s & Es & _). discriminate.
  Qed.

  Variable cur : string.
  Notation up := (safe_upgrade tbl cur).

  Lemma upgrade_swaps_untouched d : db_swaps (fst (up d)) = db_swaps d.
  Proof.
    unfold safe_upgrade. destruct (db_version d) as [v|]; [destruct (String.eqb v cur)|];
      try reflexivity; destruct (has_active_swaps tbl (db_swaps d)) as [[|]|]; reflexivity.
  Qed.

  Lemma upgrade_failure_changes_nothing d : snd (up d) <> UOk -> fst (up d) = d.
  Proof.
    unfold safe_upgrade. destruct (db_version d) as [v|]; [destruct (String.eqb v cur)|];
      try reflexivity; destruct (has_active_swaps tbl (db_swaps d)) as [[|]|]; simpl; try reflexivity;
      intros H; now elim H.
  Qed.

  Lemma upgrade_change_only_if_terminal d :
    db_version (fst (up d)) <> db_version d ->
    all_terminal (db_swaps d) /\ db_version (fst (up d)) = Some cur /\ snd (up d) = UOk /\
    db_version d <> Some cur.
  Proof.
    unfold safe_upgrade. destruct d as [ver swaps]. simpl.
    destruct ver as [v|].
    - destruct (String.eqb_spec v cur) as [->|NE]; simpl; [intros H; now elim H|].
      destruct (has_active_swaps tbl swaps) as [[|]|] eqn:E; simpl; try (intros H; now elim H).
      intros _. repeat split; auto. now apply has_active_false_iff. congruence.
    - destruct (has_active_swaps tbl swaps) as [[|]|] eqn:E; simpl; try (intros H; now elim H).
      intros _. repeat split; auto. now apply has_active_false_iff. discriminate.
  Qed.

  (* a replacement is due and some swap is active or unreadable: startup fails, nothing changes *)
  Lemma upgrade_blocked d :
    db_version d <> Some cur -> ~ all_terminal (db_swaps d) ->
    snd (up d) <> UOk /\ fst (up d) = d.
  Proof.
    intros Hv Hn. unfold safe_upgrade. destruct d as [ver swaps]. simpl in *.
    assert (X : has_active_swaps tbl swaps <> Some false) by (intros E; apply Hn; now apply has_active_false_iff).
    destruct ver as [v|].
    - destruct (String.eqb_spec v cur) as [->|NE]; [now elim Hv|].
      destruct (has_active_swaps tbl swaps) as [[|]|]; simpl; try (split; [discriminate | reflexivity]). now elim X.
    - destruct (has_active_swaps tbl swaps) as [[|]|]; simpl; try (split; [discriminate | reflexivity]). now elim X.
  Qed.

  (* which error: ActiveSwapsError exactly when the store is readable and holds a non-terminal swap *)
  Lemma upgrade_active_error d :
    snd (up d) = UActive <-> db_version d <> Some cur /\ has_active_swaps tbl (db_swaps d) = Some true.
  Proof.
    unfold safe_upgrade. destruct d as [ver swaps]. simpl. destruct ver as [v|].
    - destruct (String.eqb_spec v cur) as [->|NE]; simpl.
      + split; [discriminate | intros [H _]; now elim H].
      + destruct (has_active_swaps tbl swaps) as [[|]|]; simpl; split; try discriminate; try (intros [_ H]; discriminate); auto.
        intros _. split; [congruence | reflexivity].
    - destruct (has_active_swaps tbl swaps) as [[|]|]; simpl; split; try discriminate; try (intros [_ H]; discriminate); auto.
      intros _. split; [discriminate | reflexivity].
  Qed.

  Lemma upgrade_result_iff d :
    db_version (fst (up d)) = Some cur <-> db_version d = Some cur \/ all_terminal (db_swaps d).
  Proof.
    unfold safe_upgrade. destruct d as [ver swaps]. simpl. destruct ver as [v|].
    - destruct (String.eqb_spec v cur) as [->|NE]; simpl; [tauto|].
      destruct (has_active_swaps tbl swaps) as [[|]|] eqn:E; simpl.
      + split; [intros H; inversion H; contradiction|]. intros [H|H]; [inversion H; contradiction|].
        apply has_active_false_iff in H. congruence.
      + split; [intros _; right; now apply has_active_false_iff | reflexivity].
      + split; [intros H; inversion H; contradiction|]. intros [H|H]; [inversion H; contradiction|].
        apply has_active_false_iff in H. congruence.
    - destruct (has_active_swaps tbl swaps) as [[|]|] eqn:E; simpl.
      + split; [discriminate|]. intros [H|H]; [discriminate|]. apply has_active_false_iff in H. congruence.
      + split; [intros _; right; now apply has_active_false_iff | reflexivity].
      + split; [discriminate|]. intros [H|H]; [discriminate|]. apply has_active_false_iff in H. congruence.
  Qed.

  Lemma upgrade_success_iff d :
    snd (up d) = UOk <-> db_version d = Some cur \/ all_terminal (db_swaps d).
  Proof.
    unfold safe_upgrade. destruct d as [ver swaps]. simpl. destruct ver as [v|].
    - destruct (String.eqb_spec v cur) as [->|NE]; simpl; [tauto|].
      destruct (has_active_swaps tbl swaps) as [[|]|] eqn:E; simpl.
      + split; [discriminate|]. intros [H|H]; [inversion H; contradiction|].
        apply has_active_false_iff in H. congruence.
      + split; [intros _; right; now apply has_active_false_iff | reflexivity].
      + split; [discriminate|]. intros [H|H]; [inversion H; contradiction|].
        apply has_active_false_iff in H. congruence.
    - destruct (has_active_swaps tbl swaps) as [[|]|] eqn:E; simpl.
      + split; [discriminate|]. intros [H|H]; [discriminate|]. apply has_active_false_iff in H. congruence.
      + split; [intros _; right; now apply has_active_false_iff | reflexivity].
      + split; [discriminate|]. intros [H|H]; [discriminate|]. apply has_active_false_iff in H. congruence.
  Qed.

  Lemma upgrade_same_version_noop swaps : up (mkDb (Some cur) swaps) = (mkDb (Some cur) swaps, UOk).
  Proof. unfold safe_upgrade. simpl. now rewrite String.eqb_refl. Qed.

  Lemma upgrade_idempotent d : snd (up d) = UOk -> up (fst (up d)) = (fst (up d), UOk).
  Proof.
    intros H. assert (V : db_version (fst (up d)) = Some cur).
    { apply upgrade_result_iff. now apply upgrade_success_iff. }
    destruct (fst (up d)) as [ver swaps]. simpl in V. subst. apply upgrade_same_version_noop.
  Qed.
End Any.

(* ---------- histories: starts of any binaries interleaved with arbitrary swap activity ---------- *)
Definition transition_ok (tbl : list (string * bool)) (t : db * ev * db) : Prop :=
  let '(d, e, d') := t in
  db_version d' <> db_version d ->
  exists cur, e = EStart cur /\ all_terminal tbl (db_swaps d) /\ db_version d' = Some cur.

Lemma histories_ok tbl es : forall d, Forall (transition_ok tbl) (transitions tbl d es).
Proof.
  induction es as [|e es IH]; intros d; simpl; constructor; [|apply IH].
  unfold transition_ok. destruct e as [cur | l]; simpl.
  - intros H. exists cur. destruct (upgrade_change_only_if_terminal tbl cur d H) as (A & B & _ & _). auto.
  - intros H. now elim H.
Qed.

(* a start never alters the swaps, so between two ESwaps events the bucket is constant *)
Lemma start_keeps_swaps tbl cur d : db_swaps (step tbl d (EStart cur)) = db_swaps d.
Proof. apply upgrade_swaps_untouched. Qed.

(* ---------- examples (non-vacuity) ---------- *)
Example ex_blocked :
  code_safe_upgrade (mkDb (Some "v0.1"%string) [SwState "State_ClaimedCoop"; SwState "State_SwapInSender_AwaitClaimPayment"])
  = (mkDb (Some "v0.1"%string) [SwState "State_ClaimedCoop"; SwState "State_SwapInSender_AwaitClaimPayment"], UActive).
Proof. reflexivity. Qed.
Example ex_upgraded :
  code_safe_upgrade (mkDb (Some "v0.1"%string) [SwState "State_ClaimedCoop"; SwState "State_SwapCanceled"])
  = (mkDb (Some db_version_current) [SwState "State_ClaimedCoop"; SwState "State_SwapCanceled"], UOk).
Proof. reflexivity. Qed.
Example ex_fresh : code_safe_upgrade (mkDb None []) = (mkDb (Some "v0.2"%string) [], UOk).
Proof. reflexivity. Qed.
Example ex_unreadable : snd (code_safe_upgrade (mkDb None [SwCorrupt])) = UOther.
Proof. reflexivity. Qed.
Example ex_all_terminal : all_terminal swap_is_finished_table [SwState "State_ClaimedCoop"; SwState "State_SwapCanceled"].
Proof.
  intros r [<-|[<-|[]]]; eexists; split; reflexivity.
Qed.
(* a history: fresh install by v0.2, a swap starts, a v0.3 binary is refused, the swap ends, v0.3 upgrades *)
Example ex_history :
  map (fun t => (db_version (snd t)))
      (transitions swap_is_finished_table (mkDb None [])
         [EStart "v0.2"; ESwaps [SwState "State_SwapInSender_AwaitClaimPayment"]; EStart "v0.3";
          ESwaps [SwState "State_ClaimedPreimage"]; EStart "v0.3"])
  = [Some "v0.2"; Some "v0.2"; Some "v0.2"; Some "v0.2"; Some "v0.3"]%string.
Proof. reflexivity. Qed.
