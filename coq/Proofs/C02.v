(* Lemmas for C02: the opening script is satisfiable exactly by the three
   intended witness shapes. *)
From Coq Require Import ZArith NArith Bool List Lia.
From PS Require Import Base.Corr Base.ScriptOps Model.ScriptInterp Model.OpeningScript
  Gen.Script Model.C02Corr.
Import ListNotations.
Open Scope Z_scope.

(* ---------- byte strings ---------- *)
Lemma bytes_eqb_eq (a b : bytes) : bytes_eqb a b = true <-> a = b.
Proof.
  unfold bytes_eqb. revert b; induction a as [|x a IH]; intros [|y b]; simpl; split; try easy.
  - intros H. apply andb_prop in H as [H1 H2]. apply N.eqb_eq in H1. apply IH in H2. congruence.
  - intros H. inversion H; subst. rewrite N.eqb_refl. simpl. apply IH. reflexivity.
Qed.

(* ---------- OP_SIZE / 0x20 ---------- *)
Lemma le_bytes_nonempty f n : 0 < n -> le_bytes (S f) n <> [].
Proof. intros H. simpl. destruct (n <=? 0) eqn:E; [lia|discriminate]. Qed.

Lemma scriptnum_encode_32 (n : nat) :
  scriptnum_encode (Z.of_nat n) = [32%N] <-> n = 32%nat.
Proof.
  split; [|intros ->; reflexivity].
  unfold scriptnum_encode. destruct (Z.of_nat n =? 0) eqn:E0; [discriminate|].
  apply Z.eqb_neq in E0.
  assert (Hpos : 0 < Z.of_nat n) by lia.
  replace (Z.of_nat n <? 0) with false by (symmetry; apply Z.ltb_ge; lia).
  rewrite Z.abs_eq by lia.
  set (m := Z.of_nat n) in *.
  change (le_bytes 9 m) with (if m <=? 0 then [] else Z.to_N (m mod 256) :: le_bytes 8 (m / 256)).
  destruct (m <=? 0) eqn:E1; [lia|].
  destruct (Z_lt_le_dec 0 (m / 256)) as [Hd|Hd].
  - (* at least two bytes: cannot be [32] *)
    pose proof (le_bytes_nonempty 7 (m / 256) Hd) as Hne.
    destruct (le_bytes 8 (m / 256)) as [|b r] eqn:Er; [congruence|].
    intros H.
    destruct (N.leb 128 (last (Z.to_N (m mod 256) :: b :: r) 0%N)).
    + apply (f_equal (@length N)) in H. rewrite app_length in H. simpl in H. lia.
    + discriminate.
  - assert (Hz : m / 256 = 0).
    { pose proof (Z.div_pos m 256). lia. }
    rewrite Hz. simpl le_bytes. simpl last.
    assert (Hm : m mod 256 = m).
    { apply Z.mod_small. apply Z.div_small_iff in Hz; lia. }
    rewrite Hm.
    destruct (N.leb 128 (Z.to_N m)); simpl; intros H; [discriminate|].
    inversion H as [H1]. unfold m in *. lia.
Qed.

(* ---------- conditionals on CHECKSIG results ---------- *)
Lemma pop_if_true fl r : pop_if_bool fl (from_bool true :: r) = Some (true, r).
Proof. unfold pop_if_bool. destruct (f_minimalif fl); reflexivity. Qed.
Lemma pop_if_false fl r : pop_if_bool fl (from_bool false :: r) = Some (false, r).
Proof. unfold pop_if_bool. destruct (f_minimalif fl); reflexivity. Qed.

Section Paths.
  Variable checksig : bytes -> bytes -> sigres.
  Variable sha256 : bytes -> bytes.
  Variable fl : flags.
  Variable txver sq : Z.

  Notation sigr := (sig_result checksig).
  Notation step' := (step checksig sha256 fl txver sq).
  Notation exec' := (exec checksig sha256 fl txver sq).
  Notation run' := (run_witness checksig sha256 fl txver sq).

  (* the stack limit can only turn an accepting run into a failing one *)
  Lemma exec_limit_mono n ops : forall c st r,
    exec' (Some n) ops c st = Some r -> exec' None ops c st = Some r.
  Proof.
    induction ops as [|o ops IH]; intros c st r; simpl; [easy|].
    destruct (step' o c st) as [[c' st']|]; [|easy].
    destruct (Nat.ltb n (length st')); [easy|]. apply IH.
  Qed.

  Lemma run_limit_mono n ops w : run' (Some n) ops w = true -> run' None ops w = true.
  Proof.
    unfold run_witness. intros H. apply andb_prop in H as [H1 H2]. rewrite H1. simpl.
    destruct (exec' (Some n) ops [] (rev w)) as [r|] eqn:E; [|discriminate].
    rewrite (exec_limit_mono _ _ _ _ _ E). exact H2.
  Qed.

  Definition item_sizes_ok (w : list bytes) : Prop := Forall (fun i => (length i <= 520)%nat) w.

  Lemma item_sizes_forallb w :
    forallb (fun i => Nat.leb (length i) max_element_size) w = true <-> item_sizes_ok w.
  Proof.
    unfold item_sizes_ok. rewrite forallb_forall, Forall_forall.
    split; intros H x Hx; specialize (H x Hx); [apply Nat.leb_le in H|apply Nat.leb_le]; exact H.
  Qed.

  (* The three ways to satisfy the script.  [w] is the witness below the
     witness script, first item first; [csvb] the number pushed before
     OP_CHECKSEQUENCEVERIFY. *)
  Definition preimage_path (taker maker h : bytes) (w : list bytes) : Prop :=
    exists st pre y x, w = [st; pre; y; x] /\
      sigr taker st = SigOk /\ length pre = 32%nat /\ sha256 pre = h /\
      sigr maker y = SigFalse /\ sigr maker x = SigFalse.
  Definition coop_path (taker maker : bytes) (w : list bytes) : Prop :=
    exists st sm x, w = [st; sm; x] /\
      sigr taker st = SigOk /\ sigr maker sm = SigOk /\ sigr maker x = SigFalse.
  Definition csv_path_raw (maker csvb : bytes) (w : list bytes) : Prop :=
    exists sm, w = [sm] /\ sigr maker sm = SigOk /\
      check_sequence fl csvb txver sq = true /\ as_bool csvb = true.

  Definition allowed_raw (taker maker h csvb : bytes) (w : list bytes) : Prop :=
    item_sizes_ok w /\
    (preimage_path taker maker h w \/ coop_path taker maker w \/ csv_path_raw maker csvb w).

  Lemma exec_none_cons o r c st :
    exec' None (o :: r) c st =
    match step' o c st with None => None | Some (c', st') => exec' None r c' st' end.
  Proof. simpl. destruct (step' o c st) as [[? ?]|]; reflexivity. Qed.
  Lemma exec_nil lim c st : exec' lim [] c st = Some (c, st).
  Proof. reflexivity. Qed.

  Lemma rev_eq_1 (w : list bytes) a : rev w = [a] -> w = [a].
  Proof. intros H. rewrite <- (rev_involutive w), H. reflexivity. Qed.
  Lemma rev_eq_3 (w : list bytes) a b c : rev w = [a; b; c] -> w = [c; b; a].
  Proof. intros H. rewrite <- (rev_involutive w), H. reflexivity. Qed.
  Lemma rev_eq_4 (w : list bytes) a b c d : rev w = [a; b; c; d] -> w = [d; c; b; a].
  Proof. intros H. rewrite <- (rev_involutive w), H. reflexivity. Qed.

  (* symbolic execution of one opcode at a time, splitting on whatever blocks *)
  Ltac sym_run H :=
    repeat first
      [ discriminate H
      | rewrite exec_none_cons in H; cbn [step executing negb] in H;
        rewrite ?pop_if_true, ?pop_if_false in H; cbn [negb] in H
      | rewrite exec_nil in H
      | match type of H with
        | context [match ?s with [] => _ | _ :: _ => _ end] => is_var s; destruct s
        end
      | match type of H with
        | context [match sig_result ?a ?b ?c with _ => _ end] =>
            let E := fresh "Sg" in destruct (sig_result a b c) eqn:E
        end
      | match type of H with
        | context [if ?b then _ else _] => let E := fresh "Eb" in destruct b eqn:E
        end ].

  (* soundness: nothing else satisfies the script (no stack limit needed) *)
  Lemma only_allowed taker maker h csvb w :
    run' None (opening_ops taker maker h csvb) w = true -> allowed_raw taker maker h csvb w.
  Proof.
    unfold run_witness. intros H. apply andb_prop in H as [Hsz H].
    apply item_sizes_forallb in Hsz. split; [exact Hsz|]. clear Hsz.
    remember (rev w) as s eqn:Hs. symmetry in Hs.
    unfold opening_ops in H.
    sym_run H.
    all: repeat match goal with
         | E : bytes_eqb _ _ = true |- _ => apply bytes_eqb_eq in E
         end.
    - right; right. apply rev_eq_1 in Hs. eexists. repeat split; eauto.
    - right; left. apply rev_eq_3 in Hs. do 3 eexists. repeat split; eauto.
    - left. apply rev_eq_4 in Hs.
      match goal with E : [32%N] = scriptnum_encode _ |- _ =>
        symmetry in E; apply scriptnum_encode_32 in E end.
      do 4 eexists. repeat split; eauto.
  Qed.

  Lemma exec_some_cons n o r c st :
    exec' (Some n) (o :: r) c st =
    match step' o c st with
    | None => None
    | Some (c', st') => if Nat.ltb n (length st') then None else exec' (Some n) r c' st'
    end.
  Proof. simpl. destruct (step' o c st) as [[? ?]|]; reflexivity. Qed.

  Lemma small_stack (st : list bytes) :
    (length st <= 10)%nat -> Nat.ltb max_stack_size (length st) = false.
  Proof. intros H. apply Nat.ltb_ge. unfold max_stack_size. lia. Qed.

  Lemma elem_ok (d : bytes) : (length d <= 520)%nat -> Nat.ltb max_element_size (length d) = false.
  Proof. intros H. apply Nat.ltb_ge. unfold max_element_size. lia. Qed.

  (* completeness: each of the three shapes satisfies the script (stack limit on) *)
  Lemma allowed_accepts taker maker h csvb w :
    (length taker <= 520)%nat -> (length maker <= 520)%nat -> (length h <= 520)%nat ->
    (length csvb <= 520)%nat ->
    allowed_raw taker maker h csvb w ->
    run' (Some max_stack_size) (opening_ops taker maker h csvb) w = true.
  Proof.
    intros Lt Lm Lh Lc [Hsz Hp].
    apply item_sizes_forallb in Hsz. unfold run_witness. rewrite Hsz. clear Hsz.
    apply elem_ok in Lt, Lm, Lh, Lc.
    assert (L32 : Nat.ltb max_element_size (length [32%N]) = false) by reflexivity.
    cbn [andb]. unfold opening_ops.
    destruct Hp as [(st & pre & y & x & -> & St & Lp & Hh & Sy & Sx)
                   |[(st & sm & x & -> & St & Sm & Sx)
                   |(sm & -> & Sm & Cs & Ab)]]; cbn [rev app].
    - assert (E1 : bytes_eqb [32%N] (scriptnum_encode (Z.of_nat (length pre))) = true).
      { apply bytes_eqb_eq. symmetry. apply scriptnum_encode_32. exact Lp. }
      assert (E2 : bytes_eqb h (sha256 pre) = true) by (apply bytes_eqb_eq; auto).
      repeat (rewrite exec_some_cons; cbn [step executing negb];
              rewrite ?Lt, ?Lm, ?Lh, ?Lc, ?L32, ?St, ?Sy, ?Sx, ?E1, ?E2, ?pop_if_true, ?pop_if_false;
              cbn [negb]; rewrite ?small_stack by (cbn [length]; lia)).
      reflexivity.
    - repeat (rewrite exec_some_cons; cbn [step executing negb];
              rewrite ?Lt, ?Lm, ?Lh, ?Lc, ?L32, ?St, ?Sm, ?Sx, ?pop_if_true, ?pop_if_false;
              cbn [negb]; rewrite ?small_stack by (cbn [length]; lia)).
      reflexivity.
    - repeat (rewrite exec_some_cons; cbn [step executing negb];
              rewrite ?Lt, ?Lm, ?Lh, ?Lc, ?L32, ?Sm, ?Cs, ?pop_if_true, ?pop_if_false;
              cbn [negb]; rewrite ?small_stack by (cbn [length]; lia)).
      rewrite exec_nil. exact Ab.
  Qed.
End Paths.

(* ---------- BIP 68 / BIP 112 ---------- *)

Lemma land_pow2 a n : 0 <= n -> Z.land a (2 ^ n) = if Z.testbit a n then 2 ^ n else 0.
Proof.
  intros Hn. apply Z.bits_inj'. intros m Hm.
  rewrite Z.land_spec, Z.pow2_bits_eqb by lia.
  destruct (Z.eqb_spec n m) as [->|Hne].
  - destruct (Z.testbit a m); [rewrite Z.pow2_bits_true by lia|rewrite Z.bits_0]; reflexivity.
  - rewrite andb_false_r. destruct (Z.testbit a n); [rewrite Z.pow2_bits_false by lia|rewrite Z.bits_0]; reflexivity.
Qed.

Lemma land_mask a :
  Z.land a 4259839 = (if Z.testbit a 22 then 4194304 else 0) + a mod 65536.
Proof.
  change 4259839 with (Z.lor (2 ^ 22) (Z.ones 16)).
  rewrite Z.land_lor_distr_r, Z.land_ones by lia.
  rewrite land_pow2 by lia.
  assert (Hr : 0 <= a mod 2 ^ 16 < 2 ^ 16) by (apply Z.mod_pos_bound; lia).
  change (2 ^ 16) with 65536 in *. change (2 ^ 22) with 4194304.
  destruct (Z.testbit a 22).
  - rewrite <- Z.lxor_lor, <- Z.add_nocarry_lxor; try reflexivity.
    all: change 4194304 with (2 ^ 22); rewrite Z.land_comm, land_pow2 by lia.
    all: replace (Z.testbit (a mod 65536) 22) with false; try reflexivity.
    all: symmetry; apply Z.testbit_false; try lia.
    all: rewrite Z.div_small by lia; reflexivity.
  - rewrite Z.lor_0_l. reflexivity.
Qed.

Lemma testbit_small c m : 0 <= c < 65536 -> 16 <= m -> Z.testbit c m = false.
Proof.
  intros Hc Hm. apply Z.testbit_false; [lia|].
  rewrite Z.div_small; [reflexivity|].
  split; [lia|]. apply Z.lt_le_trans with (2 ^ 16); [change (2 ^ 16) with 65536; lia|].
  apply Z.pow_le_mono_r; lia.
Qed.

(* "the input commits to a relative lock of at least csv blocks": transaction
   version (as uint32) at least 2, disable flag (bit 31) clear, block based
   (bit 22 clear), and the low 16 bits of the sequence are at least csv *)
Definition csv_ok (csv sq txver : Z) : Prop :=
  2 <= txver mod 4294967296 /\ Z.testbit sq 31 = false /\ Z.testbit sq 22 = false /\
  csv <= sq mod 65536.

Lemma check_sequence_spec fl csvb c txver sq :
  scriptnum_decode (f_minimaldata fl) 5 csvb = Some c ->
  0 <= c < 65536 ->
  (check_sequence fl csvb txver sq = true <-> csv_ok c sq txver).
Proof.
  intros Hd Hc. unfold check_sequence, csv_ok. rewrite Hd.
  replace (c <? 0) with false by (symmetry; apply Z.ltb_ge; lia).
  unfold seq_disabled, lock_time_mask, seq_is_seconds.
  change 2147483648 with (2 ^ 31). rewrite !land_pow2 by lia.
  rewrite (testbit_small c 31) by lia. cbn [negb Z.eqb].
  rewrite !land_mask. rewrite (testbit_small c 22) by lia.
  rewrite (Z.mod_small c) by lia. cbn [Z.add].
  assert (Hr : 0 <= sq mod 65536 < 65536) by (apply Z.mod_pos_bound; lia).
  unfold verify_lock_time.
  destruct (Z.ltb_spec (txver mod 4294967296) 2);
  destruct (Z.testbit sq 31); destruct (Z.testbit sq 22); cbn [negb Z.eqb Z.pow Z.pow_pos Pos.iter Z.mul Pos.mul];
  repeat match goal with
  | |- context [Z.ltb ?a ?b] => destruct (Z.ltb_spec a b)
  | |- context [Z.leb ?a ?b] => destruct (Z.leb_spec a b)
  end; cbn [andb orb negb]; split; intros; try discriminate; try lia; try reflexivity;
  repeat match goal with H : _ /\ _ |- _ => destruct H end; try discriminate; try lia.
Qed.

(* ---------- the property's statement ---------- *)
Definition csv_path (checksig : bytes -> bytes -> sigres) (maker : bytes) (csv : Z)
  (w : list bytes) (sq txver : Z) : Prop :=
  exists sm, w = [sm] /\ sig_result checksig maker sm = SigOk /\ csv_ok csv sq txver.

(* (a) taker signature + 32-byte preimage of the payment hash (the two upper items
       make the maker's check yield false), (b) taker + maker signatures (one item
       failing the maker's check on top), (c) maker signature alone with a sequence
       committing to at least [csv]; every witness item at most 520 bytes. *)
Definition allowed_spend (checksig : bytes -> bytes -> sigres) (sha256 : bytes -> bytes)
  (taker maker h : bytes) (csv : Z) (w : list bytes) (sq txver : Z) : Prop :=
  item_sizes_ok w /\
  (preimage_path checksig sha256 taker maker h w \/
   coop_path checksig taker maker w \/
   csv_path checksig maker csv w sq txver).

Lemma opening_ops_only checksig sha256 fl taker maker h csvb c w sq txver :
  scriptnum_decode (f_minimaldata fl) 5 csvb = Some c -> 0 <= c < 65536 ->
  eval_witness checksig sha256 fl txver sq (opening_ops taker maker h csvb) w = true ->
  allowed_spend checksig sha256 taker maker h c w sq txver.
Proof.
  intros Hd Hc H. apply run_limit_mono in H. apply only_allowed in H.
  destruct H as [Hs [Hp|[Hp|(sm & Hw & Sm & Cs & _)]]]; (split; [exact Hs|]).
  - left; exact Hp.
  - right; left; exact Hp.
  - right; right. exists sm. split; [exact Hw|]. split; [exact Sm|].
    apply (check_sequence_spec fl csvb c txver sq Hd Hc). exact Cs.
Qed.

Lemma opening_ops_iff checksig sha256 fl taker maker h csvb c w sq txver :
  (length taker <= 520)%nat -> (length maker <= 520)%nat -> (length h <= 520)%nat ->
  (length csvb <= 520)%nat -> as_bool csvb = true ->
  scriptnum_decode (f_minimaldata fl) 5 csvb = Some c -> 0 <= c < 65536 ->
  (eval_witness checksig sha256 fl txver sq (opening_ops taker maker h csvb) w = true <->
   allowed_spend checksig sha256 taker maker h c w sq txver).
Proof.
  intros Lt Lm Lh Lc Ab Hd Hc. split; [apply opening_ops_only; assumption|].
  intros [Hs Hp]. apply allowed_accepts; try assumption. split; [exact Hs|].
  destruct Hp as [Hp|[Hp|(sm & Hw & Sm & Cs)]].
  - left; exact Hp.
  - right; left; exact Hp.
  - right; right. exists sm. split; [exact Hw|]. split; [exact Sm|]. split; [|exact Ab].
    apply (check_sequence_spec fl csvb c txver sq Hd Hc). exact Cs.
Qed.

(* ---------- the scripts and constants generated from the running code ---------- *)
Lemma gen_csv_values :
  gen_csv_bitcoin = 1008 /\ gen_csv_liquid = 10080 /\ gen_csv_liquid_legacy = 60 /\
  gen_csv_bitcoin_legacy = 1008.
Proof. repeat split; reflexivity. Qed.

(* the CSV the timelock policy hands to the wallet is the one in the script *)
Lemma gen_policy_csv_is_script_csv :
  gen_policy_csv_bitcoin = gen_csv_bitcoin /\ gen_policy_csv_liquid = gen_csv_liquid /\
  gen_policy_csv_liquid_legacy = gen_csv_liquid_legacy /\
  gen_policy_csv_bitcoin_legacy = gen_csv_bitcoin_legacy /\
  gen_onchain_bitcoin_csv = gen_csv_bitcoin.
Proof. repeat split; reflexivity. Qed.

(* the generated (disassembled) scripts are the model's opcode list *)
Lemma gen_scripts_are_model t m h :
  gen_script_bitcoin t m h = opening_ops t m h (int_push 1008) /\
  gen_script_liquid t m h = opening_ops t m h (int_push 10080) /\
  gen_script_liquid_legacy t m h = opening_ops t m h (int_push 60) /\
  gen_script_bitcoin_legacy t m h = opening_ops t m h (int_push 1008).
Proof. repeat split; reflexivity. Qed.

(* the Coq tokenizer reads the generated bytes as the generated opcode list, and
   the byte-level builder model produces exactly the generated bytes *)
Lemma gen_bytes_disassemble :
  disassemble gen_script_bytes_bitcoin = Some (gen_script_bitcoin marker_taker marker_maker marker_hash) /\
  disassemble gen_script_bytes_liquid = Some (gen_script_liquid marker_taker marker_maker marker_hash) /\
  disassemble gen_script_bytes_liquid_legacy = Some (gen_script_liquid_legacy marker_taker marker_maker marker_hash) /\
  disassemble gen_script_bytes_bitcoin_legacy = Some (gen_script_bitcoin_legacy marker_taker marker_maker marker_hash).
Proof. repeat split; vm_compute; reflexivity. Qed.

Lemma gen_bytes_are_model :
  get_opening_tx_script marker_taker marker_maker marker_hash 1008 = mk_sb gen_script_bytes_bitcoin false /\
  get_opening_tx_script marker_taker marker_maker marker_hash 10080 = mk_sb gen_script_bytes_liquid false /\
  get_opening_tx_script marker_taker marker_maker marker_hash 60 = mk_sb gen_script_bytes_liquid_legacy false /\
  gen_liquid_uses_same_builder = true.
Proof. repeat split; vm_compute; reflexivity. Qed.

Definition node_scripts : list ((bytes -> bytes -> bytes -> list op) * Z) :=
  [ (gen_script_bitcoin, 1008); (gen_script_liquid, 10080);
    (gen_script_liquid_legacy, 60); (gen_script_bitcoin_legacy, 1008) ].

Lemma node_script_cases sc csv :
  In (sc, csv) node_scripts ->
  exists csvb, (forall t m h, sc t m h = opening_ops t m h csvb) /\
    (length csvb <= 520)%nat /\ as_bool csvb = true /\
    (forall b, scriptnum_decode b 5 csvb = Some csv) /\ 0 <= csv < 65536.
Proof.
  unfold node_scripts. intros [H|[H|[H|[H|[]]]]]; inversion H; subst.
  - exists (int_push 1008). repeat split; try reflexivity; try (simpl; lia). intros []; reflexivity.
  - exists (int_push 10080). repeat split; try reflexivity; try (simpl; lia). intros []; reflexivity.
  - exists (int_push 60). repeat split; try reflexivity; try (simpl; lia). intros []; reflexivity.
  - exists (int_push 1008). repeat split; try reflexivity; try (simpl; lia). intros []; reflexivity.
Qed.

(* MAIN: for each chain / protocol version, every key pair, payment hash, witness
   stack of any length, sequence, transaction version and flag combination *)
Lemma node_scripts_iff sc csv :
  In (sc, csv) node_scripts ->
  forall checksig sha256 fl taker maker h w sq txver,
  (length taker <= 520)%nat -> (length maker <= 520)%nat -> (length h <= 520)%nat ->
  (eval_witness checksig sha256 fl txver sq (sc taker maker h) w = true <->
   allowed_spend checksig sha256 taker maker h csv w sq txver).
Proof.
  intros Hin. destruct (node_script_cases sc csv Hin) as (csvb & Hsc & Lc & Ab & Hd & Hc).
  intros. rewrite Hsc. apply opening_ops_iff; auto.
Qed.

Lemma node_scripts_only sc csv :
  In (sc, csv) node_scripts ->
  forall checksig sha256 fl taker maker h w sq txver,
  eval_witness checksig sha256 fl txver sq (sc taker maker h) w = true ->
  allowed_spend checksig sha256 taker maker h csv w sq txver.
Proof.
  intros Hin. destruct (node_script_cases sc csv Hin) as (csvb & Hsc & Lc & Ab & Hd & Hc).
  intros. rewrite Hsc in *. eapply opening_ops_only; eauto.
Qed.

Lemma bitcoin_iff : forall checksig sha256 fl taker maker h w sq txver,
  (length taker <= 520)%nat -> (length maker <= 520)%nat -> (length h <= 520)%nat ->
  (eval_witness checksig sha256 fl txver sq (gen_script_bitcoin taker maker h) w = true <->
   allowed_spend checksig sha256 taker maker h 1008 w sq txver).
Proof. apply (node_scripts_iff gen_script_bitcoin 1008). simpl; auto. Qed.
Lemma liquid_iff : forall checksig sha256 fl taker maker h w sq txver,
  (length taker <= 520)%nat -> (length maker <= 520)%nat -> (length h <= 520)%nat ->
  (eval_witness checksig sha256 fl txver sq (gen_script_liquid taker maker h) w = true <->
   allowed_spend checksig sha256 taker maker h 10080 w sq txver).
Proof. apply (node_scripts_iff gen_script_liquid 10080). simpl; auto. Qed.
Lemma liquid_legacy_iff : forall checksig sha256 fl taker maker h w sq txver,
  (length taker <= 520)%nat -> (length maker <= 520)%nat -> (length h <= 520)%nat ->
  (eval_witness checksig sha256 fl txver sq (gen_script_liquid_legacy taker maker h) w = true <->
   allowed_spend checksig sha256 taker maker h 60 w sq txver).
Proof. apply (node_scripts_iff gen_script_liquid_legacy 60). simpl; auto. Qed.
Lemma bitcoin_legacy_iff : forall checksig sha256 fl taker maker h w sq txver,
  (length taker <= 520)%nat -> (length maker <= 520)%nat -> (length h <= 520)%nat ->
  (eval_witness checksig sha256 fl txver sq (gen_script_bitcoin_legacy taker maker h) w = true <->
   allowed_spend checksig sha256 taker maker h 1008 w sq txver).
Proof. apply (node_scripts_iff gen_script_bitcoin_legacy 1008). simpl; auto. Qed.

(* ---------- corollaries in the property's words ---------- *)
Definition sig_valid (checksig : bytes -> bytes -> sigres) (pk s : bytes) : Prop :=
  sig_result checksig pk s = SigOk.

(* whoever holds neither key cannot spend *)
Lemma needs_a_key sc csv : In (sc, csv) node_scripts ->
  forall checksig sha256 fl taker maker h w sq txver,
  eval_witness checksig sha256 fl txver sq (sc taker maker h) w = true ->
  exists s, In s w /\ (sig_valid checksig taker s \/ sig_valid checksig maker s).
Proof.
  intros Hin * H. apply (node_scripts_only sc csv Hin) in H.
  destruct H as [_ [(st & pre & y & x & -> & St & _)|[(st & sm & x & -> & St & _)|(sm & -> & Sm & _)]]].
  - exists st. simpl; auto.
  - exists st. simpl; auto.
  - exists sm. simpl; auto.
Qed.

(* without a taker signature only the maker can spend, alone, and only with a
   sequence that commits to at least the CSV *)
Lemma maker_alone_needs_csv sc csv : In (sc, csv) node_scripts ->
  forall checksig sha256 fl taker maker h w sq txver,
  eval_witness checksig sha256 fl txver sq (sc taker maker h) w = true ->
  (forall s, In s w -> ~ sig_valid checksig taker s) ->
  csv_ok csv sq txver /\ exists sm, w = [sm] /\ sig_valid checksig maker sm.
Proof.
  intros Hin * H Hno. apply (node_scripts_only sc csv Hin) in H.
  destruct H as [_ [(st & pre & y & x & -> & St & _)|[(st & sm & x & -> & St & _)|(sm & -> & Sm & Hc)]]].
  - exfalso. apply (Hno st); simpl; auto.
  - exfalso. apply (Hno st); simpl; auto.
  - split; [exact Hc|]. exists sm; auto.
Qed.

(* without a maker signature the taker needs a 32-byte preimage of the payment hash *)
Lemma taker_alone_needs_preimage sc csv : In (sc, csv) node_scripts ->
  forall checksig sha256 fl taker maker h w sq txver,
  eval_witness checksig sha256 fl txver sq (sc taker maker h) w = true ->
  (forall s, In s w -> ~ sig_valid checksig maker s) ->
  exists st pre, In st w /\ In pre w /\ sig_valid checksig taker st /\
                 length pre = 32%nat /\ sha256 pre = h.
Proof.
  intros Hin * H Hno. apply (node_scripts_only sc csv Hin) in H.
  destruct H as [_ [(st & pre & y & x & -> & St & Lp & Hh & _)|[(st & sm & x & -> & St & Sm & _)|(sm & -> & Sm & Hc)]]].
  - exists st, pre. simpl. repeat split; auto.
  - exfalso. apply (Hno sm); simpl; auto.
  - exfalso. apply (Hno sm); simpl; auto.
Qed.

(* a sequence below the CSV (or time-based, or disabled, or tx version < 2) never
   lets the maker spend alone *)
Lemma csv_ok_bound csv sq txver : csv_ok csv sq txver -> 0 <= sq < 4294967296 -> csv <= sq.
Proof.
  intros (_ & _ & _ & H) Hr.
  pose proof (Z.mod_le sq 65536). lia.
Qed.

(* ---------- non-vacuity: each shape is inhabited and accepted (tag oracle of C02Corr) ---------- *)
Example ex_preimage_path :
  allowed_spend (tag_checksig true 0) tag_sha256 (key_taker 0) key_maker (tag_hash 0) 1008
    (map tag_item [0;5;3;3]%N) 0 1 /\
  model_accept 0 0 0 0 0 1 [0;5;3;3]%N = true.
Proof.
  split; [|vm_compute; reflexivity].
  split; [unfold item_sizes_ok; repeat constructor; simpl; lia|].
  left. exists (tag_item 0), (tag_item 5), (tag_item 3), (tag_item 3).
  repeat split; reflexivity.
Qed.
Example ex_coop_path :
  allowed_spend (tag_checksig true 0) tag_sha256 (key_taker 0) key_maker (tag_hash 0) 10080
    (map tag_item [0;1;3]%N) 4294967295 2 /\
  model_accept 1 0 0 0 4294967295 2 [0;1;3]%N = true.
Proof.
  split; [|vm_compute; reflexivity].
  split; [unfold item_sizes_ok; repeat constructor; simpl; lia|].
  right; left. exists (tag_item 0), (tag_item 1), (tag_item 3). repeat split; reflexivity.
Qed.
Example ex_csv_path :
  allowed_spend (tag_checksig true 0) tag_sha256 (key_taker 0) key_maker (tag_hash 0) 60
    (map tag_item [1]%N) 60 2 /\
  model_accept 2 0 0 0 60 2 [1]%N = true /\ model_accept 2 0 0 0 59 2 [1]%N = false /\
  model_accept 2 0 0 0 60 1 [1]%N = false /\ model_accept 2 0 0 0 (60 + 4194304) 2 [1]%N = false.
Proof.
  split; [|repeat split; vm_compute; reflexivity].
  split; [unfold item_sizes_ok; repeat constructor; simpl; lia|].
  right; right. exists (tag_item 1). repeat split; try reflexivity; try (vm_compute; discriminate).
Qed.
