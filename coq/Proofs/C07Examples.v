(* C07: concrete histories of the generated swap-in-sender table: non-vacuity of the theorems'
   hypotheses, and the history used by Findings/F_C07_2.v. *)
From Coq Require Import String ZArith Bool List.
From PS Require Import Model.Data Model.Actions Model.Fsm Model.History Model.FsmCorr Model.C07Corr Model.C07Table
  Gen.ConstsSwap Gen.Tables Proofs.EngineAcc Proofs.C07Exec Proofs.C07.
Import ListNotations.
Open Scope Z_scope.
Open Scope string_scope.

Definition ex_pk : string := "02532c57ff738f03f0f50dc860c298f6dd48262d76e7cb631efda2a76527de9861".
Definition ex_req : req := mkReq 7 "swap1" "regtest" "" "718022x977x3" 2451596 ex_pk 9186.
Definition ex_agr : in_agr := mkInAgr 7 "swap1" ex_pk 100.
Definition ex_open : opening_result := mkOpening "0200aa" "c7c7" 1.

Definition ex_w0 : world :=
  mkWorld true true true 100000000 true false "" "regtest" (Some 0) ex_pk []
          [] [] [] [] [] [] [] [] [] [] [] [] [] [] [] [] [] [] [] false.

Definition ex_w_start : world :=
  mkWorld true true true 100000000 true false "" "regtest" (Some 0) ex_pk []
          [] [true] [true; true; true; true] [] [] [] [] [] [] [] [] [] [] [] [] [] [] [] [] false.

Definition ex_w_agr : world :=
  mkWorld true true true 100000000 true false "" "regtest" (Some 0) ex_pk [("pre", "hash")]
          [Some 100] [true] [true; true; true; true] [] [] [] [Some "lninv1"] [] [] [] []
          [Some ex_open] [] [true] [] [true] [] [("pre", "hash")] [] false.

Definition ex_w_csv : world :=
  mkWorld true true true 100000000 true false "" "regtest" (Some 0) ex_pk []
          [] [] [true; true; true] [] [] [] [] [] [] [] [] [] [Some "refundtx"] [] [] [] [true] [] [] false.

Definition ex_dec : string -> option (string * Z * Z) := fun _ => None.
Definition ex_h0 : hstate := init_hstate (fresh_machine "swap1" 1 1 "peer" "me" "key").

Definition ex_start : hitem := HStep (InEvent "Event_SwapInSender_OnSwapInRequested" (Some (MInReq ex_req))) ex_w_start.
Definition ex_agreement : input := InEvent "Event_SwapInSender_OnAgreementReceived" (Some (MInAgr ex_agr)).

(* the normal flow: request, agreement (opening transaction broadcast), CSV matures, refund *)
Definition ex_its_ok : list hitem := [ex_start; HStep ex_agreement ex_w_agr; HStep InCsvPassed ex_w_csv].
(* the process dies right after the wallet call (3 effects: store write, invoice, broadcast), then restarts *)
Definition ex_its_crash : list hitem := [ex_start; HCrash ex_agreement ex_w_agr 3; HStep InRecover ex_w0].

Definition ex_run (its : list hitem) : hstate :=
  run_hist tl_consts_gen ex_dec table_swap_in_sender terminal_states ex_h0 its.

Example ex_ok_history :
  hist_ok tl_consts_gen ex_dec table_swap_in_sender terminal_states ex_h0 ex_its_ok = true /\
  no_orphan tl_consts_gen ex_dec table_swap_in_sender terminal_states ex_h0 ex_its_ok = true /\
  bcs (hs_trace (ex_run ex_its_ok)) = [ex_open] /\
  spent_in (hs_trace (ex_run ex_its_ok)) = true /\
  option_map m_cur (hs_machine (ex_run ex_its_ok)) = Some "State_ClaimedCsv" /\
  option_map m_cur (hs_machine (ex_run [ex_start; HStep ex_agreement ex_w_agr])) = Some "State_SwapInSender_AwaitClaimPayment".
Proof. vm_compute. repeat split; reflexivity. Qed.

Example ex_crash_history :
  hist_ok tl_consts_gen ex_dec table_swap_in_sender terminal_states ex_h0 ex_its_crash = true /\
  no_orphan tl_consts_gen ex_dec table_swap_in_sender terminal_states ex_h0 ex_its_crash = false /\
  bcs (hs_trace (ex_run ex_its_crash)) = [ex_open] /\
  match last_persist (hs_trace (ex_run ex_its_crash)) with
  | Some (s, d) => s = "State_SwapCanceled" /\ d_otb d = None /\ otb_matches d ex_open = false
  | None => False
  end.
Proof. vm_compute. repeat split; reflexivity. Qed.

Lemma bcs_split tr o : bcs tr = [o] -> exists pre e post, tr = (pre ++ e :: post)%list /\ bc_of e = Some o.
Proof.
  induction tr as [|e r IH]; cbn; [discriminate|]. destruct (bc_of e) as [o'|] eqn:Eb.
  - intros H. inversion H; subst. exists [], e, r. auto.
  - intros H. destruct (IH H) as (pre & e' & post & -> & Hb). exists (e :: pre), e', post. auto.
Qed.

(* the hypotheses of the CSV theorems (Props/C07.v c1, c2) are satisfiable: the machine of the normal flow rests
   in a waiting state after the broadcast, with a record, a known chain and policy, and no spend recorded *)
Example ex_waiting_state :
  match hs_machine (ex_run [ex_start; HStep ex_agreement ex_w_agr]) with
  | Some m =>
      mem (m_cur m) (post_states table_swap_in_sender) = true /\
      waiting_state table_swap_in_sender (m_cur m) = true /\
      is_fin terminal_states (m_cur m) = false /\
      chain_known (m_data m) = true /\ str_nonempty (d_claim_txid (m_data m)) = false /\
      otb_matches (m_data m) ex_open = true /\
      option_map p_csv (timelock_policy tl_consts_gen (m_data m)) = Some 1008
  | None => False
  end.
Proof. vm_compute. repeat split; reflexivity. Qed.
