(* Lemmas for C20 — chain watchers report confirmation / CSV maturity only when true. *)
From Coq Require Import ZArith Bool Lia ZifyBool List.
From PS Require Import Model.RpcWatcher Model.ElectrumWatcher Gen.ConstsWatcher.
Import ListNotations.
Open Scope Z_scope.

(* ------------------------------------------------------------------ constants *)

Lemma gen_c20_constants :
  bitcoin_min_confs = 3 /\ liquid_confs = 2 /\ bitcoin_csv = 1008 /\ liquid_csv = 60.
Proof. vm_compute. repeat split; reflexivity. Qed.

(* ------------------------------------------------------------------ uint32 facts *)

Lemma two32_pos : 0 < two32. Proof. reflexivity. Qed.

Lemma u32_range z : 0 <= u32 z < two32.
Proof. unfold u32. apply Z.mod_pos_bound. reflexivity. Qed.

Lemma u32_small z : 0 <= z < two32 -> u32 z = z.
Proof. intros H. unfold u32. apply Z.mod_small; exact H. Qed.

Lemma u32_le z : 0 <= z -> u32 z <= z.
Proof. intros H. unfold u32. apply Z.mod_le; [exact H | reflexivity]. Qed.

(* current - (first - 1) in uint32 is (current - first + 1) mod 2^32 *)
Lemma sub32_sub32 c f : sub32 c (sub32 f 1) = u32 (c - f + 1).
Proof.
  unfold sub32, u32. rewrite Zminus_mod_idemp_r. f_equal. lia.
Qed.

Lemma add32_le a b : 0 <= a -> 0 <= b -> add32 a b <= a + b.
Proof. intros. unfold add32. apply u32_le. lia. Qed.

(* ------------------------------------------------------------------ RPC watcher: one step *)

Lemma confirm_decision_ok req start limit current raw first raw' :
  confirm_decision req start limit current raw first = SCbOk raw' ->
  raw' = raw /\ first <= add32 start limit /\ first <= current /\ req <= current - first + 1.
Proof.
  unfold confirm_decision. intros H.
  destruct (add32 start limit <? first) eqn:E1; [discriminate|].
  destruct (current <? first) eqn:E2; [discriminate|].
  destruct (req <=? sub32 current (sub32 first 1)) eqn:E3; [|discriminate].
  inversion H; subst. rewrite sub32_sub32 in E3.
  assert (Hle : u32 (current - first + 1) <= current - first + 1) by (apply u32_le; lia).
  repeat split; lia.
Qed.

Lemma observation_step_ok req start limit last height v last' raw :
  observation_step req start limit last height v = (last', SCbOk raw) ->
  last < height /\ last' = height /\ height < add32 start limit /\
  exists first, is_tx_in_mempool_or_range v start = LFound raw first /\
                first <= add32 start limit /\ first <= height /\ req <= height - first + 1.
Proof.
  unfold observation_step. intros H.
  destruct (height <=? last) eqn:E0; [inversion H|].
  destruct (add32 start limit <=? height) eqn:E1; [inversion H|].
  destruct (is_tx_in_mempool_or_range v start) as [r f| | | |] eqn:EL; try (inversion H; fail).
  inversion H as [[Hl Hd]]. apply confirm_decision_ok in Hd.
  destruct Hd as (-> & H1 & H2 & H3).
  repeat split; try lia. exists f. repeat split; auto.
Qed.

(* where the located block lies in the node's own answers *)
Lemma range_scan_found v fuel i raw first :
  range_scan v fuel i = LFound raw first ->
  i <= first < i + Z.of_nat fuel /\ raw <> 0 /\
  exists bh, hash_at v first = Some bh /\ raw_at v bh = RawStr raw.
Proof.
  revert i. induction fuel as [|f IH]; intros i H; simpl in H; [discriminate|].
  destruct (hash_at v i) as [h|] eqn:EH; [|discriminate].
  destruct (raw_at v h) as [|r] eqn:ER.
  - apply IH in H. destruct H as (H1 & H2 & H3). repeat split; auto; lia.
  - destruct (r =? 0) eqn:E0.
    + apply IH in H. destruct H as (H1 & H2 & H3). repeat split; auto; lia.
    + inversion H; subst. repeat split; try lia. exists h. auto.
Qed.

(* The lookup's answer describes a block of the node's own chain view: the block at height
   [first] (<= the node's height) holds the transaction; on the gettxout path [first] is the
   node's height + 1 - confirmations. *)
Lemma lookup_found v start raw first :
  is_tx_in_mempool_or_range v start = LFound raw first ->
  exists ct, v_height v = Some ct /\
    (exists bh, hash_at v first = Some bh /\ raw_at v bh = RawStr raw) /\
    match v_txout v with
    | TxoSome best conf =>
        hash_at v (u32 ct) = Some best /\ conf <> 0 /\
        first = (if conf =? 1 then u32 ct else sub32 (add32 (u32 ct) 1) conf)
    | TxoNil => start <= first <= u32 ct
    | TxoErr => False
    end.
Proof.
  unfold is_tx_in_mempool_or_range. intros H.
  destruct (v_height v) as [ct|]; [|discriminate]. exists ct. split; [reflexivity|].
  destruct (hash_at v (u32 ct)) as [bh|] eqn:EH; [|discriminate].
  destruct (v_txout v) as [| |best conf]; [discriminate| |].
  - unfold is_tx_in_range in H.
    destruct (u32 ct <? start) eqn:E; [discriminate|].
    apply range_scan_found in H. destruct H as (H1 & _ & H3).
    split; [exact H3|]. rewrite Z2Nat.id in H1 by lia. lia.
  - destruct (best =? bh) eqn:EB; simpl in H; [|discriminate].
    assert (best = bh) by lia. subst bh.
    destruct (conf =? 0) eqn:E0; [discriminate|].
    destruct (conf =? 1) eqn:E1.
    + destruct (raw_at v best) as [|r] eqn:ER; [discriminate|]. inversion H; subst.
      split; [exists best; auto|]. repeat split; auto; lia.
    + destruct (hash_at v (sub32 (add32 (u32 ct) 1) conf)) as [th|] eqn:ET; [|discriminate].
      destruct (raw_at v th) as [|r] eqn:ER; [discriminate|]. inversion H; subst.
      split; [exists th; auto|]. repeat split; auto; lia.
Qed.

(* gettxout path: the code's first-seen height never overstates the depth *)
Lemma first_seen_depth H conf first height req :
  0 <= H < two32 -> 0 < conf < two32 ->
  first = (if conf =? 1 then H else sub32 (add32 H 1) conf) ->
  first <= height -> height <= H -> req <= height - first + 1 ->
  req <= conf /\ first = H + 1 - conf.
Proof.
  intros HH Hc Hf Hfh HhH Hreq.
  destruct (conf =? 1) eqn:E1.
  - assert (conf = 1) by lia. subst. lia.
  - unfold sub32, add32 in Hf. unfold u32 in Hf.
    rewrite Zminus_mod_idemp_l in Hf.
    destruct (Z_lt_le_dec (H + 1 - conf) 0) as [Hneg|Hpos].
    + (* would wrap: first = H + 1 - conf + 2^32 > H *)
      assert (Hw : (H + 1 - conf) mod two32 = H + 1 - conf + two32).
      { symmetry. apply Zmod_unique with (q := -1); unfold two32 in *; lia. }
      rewrite Hw in Hf. unfold two32 in *. lia.
    + assert (Hs : (H + 1 - conf) mod two32 = H + 1 - conf).
      { apply Z.mod_small. unfold two32 in *. lia. }
      rewrite Hs in Hf. lia.
Qed.

Lemma observation_step_depth req start limit last height v last' raw ct :
  observation_step req start limit last height v = (last', SCbOk raw) ->
  v_height v = Some ct -> height <= u32 ct ->
  exists first,
    (exists bh, hash_at v first = Some bh /\ raw_at v bh = RawStr raw) /\
    first <= u32 ct /\ req <= u32 ct - first + 1 /\
    (forall best conf, v_txout v = TxoSome best conf -> 0 <= conf < two32 ->
       hash_at v (u32 ct) = Some best /\ req <= conf).
Proof.
  intros Hs Hct Hle.
  apply observation_step_ok in Hs. destruct Hs as (_ & _ & _ & first & HL & _ & Hfh & Hreq).
  apply lookup_found in HL. destruct HL as (ct' & Hct' & Hblk & Htx).
  rewrite Hct in Hct'. inversion Hct'; subst ct'.
  exists first. split; [exact Hblk|]. split; [lia|]. split; [lia|].
  intros best conf Ho Hc. rewrite Ho in Htx. destruct Htx as (Hb & Hnz & Hf).
  split; [exact Hb|].
  pose proof (u32_range ct) as Hr.
  destruct (first_seen_depth (u32 ct) conf first height req Hr ltac:(lia) Hf Hfh Hle Hreq). assumption.
Qed.

Lemma observation_step_window_closed req start limit last height v :
  last < height -> add32 start limit <= height ->
  observation_step req start limit last height v = (height, SCbErr).
Proof.
  intros H1 H2. unfold observation_step.
  destruct (height <=? last) eqn:E0; [lia|].
  destruct (add32 start limit <=? height) eqn:E1; [reflexivity|lia].
Qed.

Lemma observation_step_old_height req start limit last height v :
  height <= last -> observation_step req start limit last height v = (last, SContinue).
Proof.
  intros H. unfold observation_step. destruct (height <=? last) eqn:E; [reflexivity|lia].
Qed.

(* ------------------------------------------------------------------ RPC watcher: the loop *)

Definition count_cb (l : list step_out) : nat := List.length (filter is_cb l).

Lemma run_loop_cb_last req start limit steps : forall last pre o post,
  run_loop req start limit last steps = pre ++ o :: post -> is_cb o = true -> post = [].
Proof.
  induction steps as [|[h v] r IH]; intros last pre o post H Ho; simpl in H.
  - destruct pre; discriminate.
  - destruct (observation_step req start limit last h v) as [last' o'] eqn:E.
    destruct (is_cb o') eqn:Eo.
    + destruct pre as [|p pre]; simpl in H.
      * inversion H; reflexivity.
      * inversion H as [[H1 H2]]. destruct pre; discriminate.
    + destruct pre as [|p pre]; simpl in H.
      * inversion H; subst. congruence.
      * inversion H as [[H1 H2]]. eapply IH; eauto.
Qed.

Lemma run_loop_once req start limit steps : forall last,
  (count_cb (run_loop req start limit last steps) <= 1)%nat.
Proof.
  induction steps as [|[h v] r IH]; intros last; simpl; [unfold count_cb; simpl; lia|].
  destruct (observation_step req start limit last h v) as [last' o'] eqn:E.
  destruct (is_cb o') eqn:Eo.
  - unfold count_cb. simpl. rewrite Eo. simpl. lia.
  - unfold count_cb. simpl. rewrite Eo. apply IH.
Qed.

(* every report of the loop is the report of one step on that step's view *)
Lemma run_loop_from_step req start limit steps : forall last o,
  In o (run_loop req start limit last steps) -> is_cb o = true ->
  exists l h v l', In (h, v) steps /\ observation_step req start limit l h v = (l', o).
Proof.
  induction steps as [|[h v] r IH]; intros last o Hin Ho; simpl in Hin; [contradiction|].
  destruct (observation_step req start limit last h v) as [last' o'] eqn:E.
  destruct (is_cb o') eqn:Eo.
  - destruct Hin as [<-|[]]. exists last, h, v, last'. split; [left; reflexivity|exact E].
  - destruct Hin as [<-|Hin]; [congruence|].
    destruct (IH _ _ Hin Ho) as (l & h1 & v1 & l' & Hi & Hs).
    exists l, h1, v1, l'. split; [right; exact Hi|exact Hs].
Qed.

(* the heights at which the loop looks at the chain strictly increase *)
Lemma observation_step_last req start limit last height v last' o :
  observation_step req start limit last height v = (last', o) ->
  last' = Z.max last height.
Proof.
  unfold observation_step. intros H.
  destruct (height <=? last) eqn:E0; [inversion H; lia|].
  destruct (add32 start limit <=? height); [inversion H; lia|].
  destruct (is_tx_in_mempool_or_range v start); inversion H; lia.
Qed.

(* ------------------------------------------------------------------ RPC watcher: CSV *)

Definition csv_just (csv : Z) (a : txout_ans) (o : bool * bool) : Prop :=
  fst o = true -> exists best conf, a = TxoSome best conf /\ csv <= conf.

Lemma add_wait_for_csv_sound csv a f : csv_just csv a (add_wait_for_csv csv a f).
Proof.
  unfold csv_just, add_wait_for_csv, above_csv. destruct a as [| |best conf]; simpl; try discriminate.
  destruct (csv <=? conf) eqn:E; simpl; [|discriminate].
  intros _. exists best, conf. split; [reflexivity|lia].
Qed.

Lemma handle_csv_entry_sound csv a f : csv_just csv a (handle_csv_entry csv a f).
Proof.
  unfold csv_just, handle_csv_entry. destruct a as [| |best conf]; simpl; try discriminate.
  destruct (conf <? csv) eqn:E; simpl; [discriminate|].
  intros _. exists best, conf. split; [reflexivity|lia].
Qed.

Lemma csv_blocks_sound csv : forall steps reg,
  Forall2 (csv_just csv) (map fst steps) (csv_blocks csv reg steps).
Proof.
  induction steps as [|[a f] r IH]; intros reg; simpl; [constructor|].
  destruct reg.
  - destruct (handle_csv_entry csv a f) as [cb reg'] eqn:E. constructor; [|apply IH].
    rewrite <- E. apply handle_csv_entry_sound.
  - constructor; [|apply IH]. unfold csv_just; simpl; discriminate.
Qed.

Lemma csv_run_sound csv a0 f0 steps :
  Forall2 (csv_just csv) (a0 :: map fst steps) (csv_run csv a0 f0 steps).
Proof.
  unfold csv_run. destruct (add_wait_for_csv csv a0 f0) as [cb reg] eqn:E.
  constructor; [rewrite <- E; apply add_wait_for_csv_sound | apply csv_blocks_sound].
Qed.

(* an acknowledged report: callback issued and the entry left the watch list *)
Definition csv_acked (o : bool * bool) : bool := fst o && negb (snd o).
Definition count_acked (l : list (bool * bool)) : nat := List.length (filter csv_acked l).

Lemma csv_blocks_unregistered csv steps :
  Forall (fun o => o = (false, false)) (csv_blocks csv false steps).
Proof. induction steps as [|[a f] r IH]; simpl; constructor; auto. Qed.

Lemma count_acked_unregistered csv steps : count_acked (csv_blocks csv false steps) = O.
Proof. induction steps as [|[a f] r IH]; simpl; auto. Qed.

Lemma handle_csv_entry_shape csv a f cb reg :
  handle_csv_entry csv a f = (cb, reg) -> reg = true \/ (cb = true /\ reg = false /\ f = false).
Proof.
  unfold handle_csv_entry. destruct a as [| |b c]; try (intros H; inversion H; auto; fail).
  destruct (c <? csv); [intros H; inversion H; auto|].
  destruct f; intros H; inversion H; auto.
Qed.

Lemma csv_blocks_once csv : forall steps reg, (count_acked (csv_blocks csv reg steps) <= 1)%nat.
Proof.
  induction steps as [|[a f] r IH]; intros reg; simpl; [unfold count_acked; simpl; lia|].
  destruct reg.
  - destruct (handle_csv_entry csv a f) as [cb reg'] eqn:E.
    destruct (handle_csv_entry_shape _ _ _ _ _ E) as [->|(-> & -> & ->)].
    + unfold count_acked in *. simpl. unfold csv_acked at 1. simpl. rewrite andb_false_r. apply IH.
    + unfold count_acked. simpl. fold (count_acked (csv_blocks csv false r)).
      rewrite count_acked_unregistered. lia.
  - unfold count_acked in *. simpl. apply IH.
Qed.

Lemma csv_run_once csv a0 f0 steps : (count_acked (csv_run csv a0 f0 steps) <= 1)%nat.
Proof.
  unfold csv_run. destruct (add_wait_for_csv csv a0 f0) as [cb reg] eqn:E.
  unfold add_wait_for_csv in E. destruct (above_csv csv a0); [destruct f0|]; inversion E; subst.
  - unfold count_acked. simpl. apply csv_blocks_once.
  - unfold count_acked. simpl. fold (count_acked (csv_blocks csv false steps)).
    rewrite count_acked_unregistered. lia.
  - unfold count_acked. simpl. apply csv_blocks_once.
Qed.

(* after an acknowledged report nothing more is reported *)
Lemma csv_run_acked_last csv a0 f0 steps pre o post :
  csv_run csv a0 f0 steps = pre ++ o :: post -> csv_acked o = true ->
  Forall (fun x => fst x = false) post.
Proof.
  unfold csv_run. destruct (add_wait_for_csv csv a0 f0) as [cb reg] eqn:E.
  assert (G : forall steps reg pre o post,
             csv_blocks csv reg steps = pre ++ o :: post -> csv_acked o = true ->
             Forall (fun x => fst x = false) post).
  { clear. induction steps as [|[a f] r IH]; intros reg pre o post H Ho; simpl in H.
    - destruct pre; discriminate.
    - destruct reg.
      + destruct (handle_csv_entry csv a f) as [cb reg'] eqn:E.
        destruct pre as [|p pre]; simpl in H; inversion H; subst.
        * unfold csv_acked in Ho. simpl in Ho. assert (reg' = false) by (destruct reg'; simpl in Ho; [lia|reflexivity]).
          subst. eapply Forall_impl; [|apply csv_blocks_unregistered]. intros x ->. reflexivity.
        * eapply IH; eauto.
      + destruct pre as [|p pre]; simpl in H; inversion H; subst.
        * discriminate.
        * eapply IH; eauto. }
  intros H Ho. destruct pre as [|p pre]; simpl in H; inversion H; subst.
  - unfold csv_acked in Ho. simpl in Ho. assert (reg = false) by (destruct reg; simpl in Ho; [lia|reflexivity]).
    subst. eapply Forall_impl; [|apply csv_blocks_unregistered]. intros x ->. reflexivity.
  - eapply G; eauto.
Qed.

(* ------------------------------------------------------------------ electrum observers *)

Lemma get_height_in l h : get_height l = Some h -> In (HMatch h) l.
Proof.
  induction l as [|e r IH]; simpl; [discriminate|].
  destruct e; intros H; try (right; auto; fail). inversion H; left; reflexivity.
Qed.

Lemma has_confirmations_true tx tip req :
  has_confirmations tx tip req = Some true -> 0 < tx <= tip /\ req <= tip - tx + 1.
Proof.
  unfold has_confirmations.
  destruct (tip <=? 0) eqn:E1; [discriminate|].
  destruct (tx <=? 0) eqn:E2; [discriminate|].
  destruct (tip <? tx) eqn:E3; [discriminate|].
  intros H. inversion H. lia.
Qed.

Lemma opening_callback_sound confs swap start window tip a called e evs s r :
  opening_callback confs swap start window tip a = (called, e, evs) ->
  In (EvConfOk s r) evs ->
  s = swap /\ 0 < tip /\ start <= tip < start + window /\
  exists l h, ea_hist a = HistList l /\ get_height l = Some h /\
              0 < h <= tip /\ confs <= tip - h + 1 /\ ea_raw a = RawStr r.
Proof.
  unfold opening_callback. intros H Hin.
  destruct (tip <=? 0) eqn:E0; [inversion H; subst; contradiction|].
  destruct ((tip <? start) || (start + window <=? tip)) eqn:EW.
  { inversion H; subst. destruct Hin as [Hin|[]]. discriminate. }
  destruct (ea_hist a) as [|l] eqn:EH; [inversion H; subst; contradiction|].
  destruct (get_height l) as [h|] eqn:EG; [|inversion H; subst; contradiction].
  destruct (has_confirmations h tip confs) as [[|]|] eqn:EC; try (inversion H; subst; contradiction).
  destruct (ea_raw a) as [|r0] eqn:ER; [inversion H; subst; contradiction|].
  inversion H; subst. destruct Hin as [Hin|[]]. inversion Hin; subst.
  apply has_confirmations_true in EC.
  repeat split; try lia. exists l, h. repeat split; auto; lia.
Qed.

Lemma opening_callback_closed confs swap start window tip a :
  0 < tip -> start + window <= tip ->
  opening_callback confs swap start window tip a = (true, err_of_cb (ea_cb a), [EvConfErr swap]).
Proof.
  intros H1 H2. unfold opening_callback.
  destruct (tip <=? 0) eqn:E0; [lia|].
  destruct ((tip <? start) || (start + window <=? tip)) eqn:EW; [reflexivity|lia].
Qed.

(* a failure report is issued only outside [start, start+window) *)
Lemma opening_callback_failure confs swap start window tip a called e evs s :
  opening_callback confs swap start window tip a = (called, e, evs) ->
  In (EvConfErr s) evs -> s = swap /\ 0 < tip /\ (tip < start \/ start + window <= tip).
Proof.
  unfold opening_callback. intros H Hin.
  destruct (tip <=? 0) eqn:E0; [inversion H; subst; contradiction|].
  destruct ((tip <? start) || (start + window <=? tip)) eqn:EW.
  { inversion H; subst. destruct Hin as [Hin|[]]. inversion Hin. repeat split; lia. }
  destruct (ea_hist a) as [|l]; [inversion H; subst; contradiction|].
  destruct (get_height l) as [h|]; [|inversion H; subst; contradiction].
  destruct (has_confirmations h tip confs) as [[|]|]; try (inversion H; subst; contradiction).
  destruct (ea_raw a) as [|r0]; [inversion H; subst; contradiction|].
  inversion H; subst. destruct Hin as [Hin|[]]. discriminate.
Qed.

Lemma csv_callback_sound swap csv tip a called e evs s :
  csv_callback swap csv tip a = (called, e, evs) -> In (EvCsv s) evs ->
  s = swap /\ exists l h, ea_hist a = HistList l /\ get_height l = Some h /\
                          0 < h <= tip /\ csv <= tip - h + 1.
Proof.
  unfold csv_callback. intros H Hin.
  destruct (ea_hist a) as [|l] eqn:EH; [inversion H; subst; contradiction|].
  destruct (get_height l) as [h|] eqn:EG; [|inversion H; subst; contradiction].
  destruct (has_confirmations h tip csv) as [[|]|] eqn:EC; try (inversion H; subst; contradiction).
  inversion H; subst. destruct Hin as [Hin|[]]. inversion Hin; subst.
  apply has_confirmations_true in EC. split; [reflexivity|]. exists l, h. repeat split; auto; lia.
Qed.

(* events never cross kinds: an opening observer emits no EvCsv, a csv observer no EvConf* *)
Lemma opening_callback_kinds confs swap start window tip a called e evs s :
  opening_callback confs swap start window tip a = (called, e, evs) -> ~ In (EvCsv s) evs.
Proof.
  unfold opening_callback. intros H Hin.
  destruct (tip <=? 0); [inversion H; subst; contradiction|].
  destruct ((tip <? start) || (start + window <=? tip)).
  { inversion H; subst. destruct Hin as [Hin|[]]. discriminate. }
  destruct (ea_hist a) as [|l]; [inversion H; subst; contradiction|].
  destruct (get_height l) as [h|]; [|inversion H; subst; contradiction].
  destruct (has_confirmations h tip confs) as [[|]|]; try (inversion H; subst; contradiction).
  destruct (ea_raw a) as [|r0]; [inversion H; subst; contradiction|].
  inversion H; subst. destruct Hin as [Hin|[]]. discriminate.
Qed.

(* ------------------------------------------------------------------ header acceptance *)

Lemma accept_changed bh t hdr h bh' :
  accept_block_height bh t hdr = Some (h, true, bh') ->
  t = false /\ hdr = Some h /\ bh' = h /\ 0 < h /\ (0 < bh -> bh < h).
Proof.
  unfold accept_block_height. destruct hdr as [x|]; [|discriminate].
  destruct (x <=? 0) eqn:E0; [discriminate|].
  destruct t; [discriminate|].
  destruct ((0 <? bh) && (x <=? bh)) eqn:E1; intros H; inversion H; subst.
  repeat split; auto; lia.
Qed.

Lemma accept_unchanged bh t hdr h bh' :
  accept_block_height bh t hdr = Some (h, false, bh') -> bh' = bh /\ 0 < h <= bh.
Proof.
  unfold accept_block_height. destruct hdr as [x|]; [|discriminate].
  destruct (x <=? 0) eqn:E0; [discriminate|].
  destruct t; [discriminate|].
  destruct ((0 <? bh) && (x <=? bh)) eqn:E1; intros H; inversion H; subst. lia.
Qed.

(* ------------------------------------------------------------------ subscriber rounds *)

Section Round.
  Variable confs tip : Z.
  Variable answers : list eans.

  Definition obs_result (o : obs) := observer_callback confs (snd o) tip (nth (fst o) answers default_ans).
  Definition obs_events (o : obs) : list eev := snd (obs_result o).
  Definition obs_acked (o : obs) : bool :=
    fst (fst (obs_result o)) &&
    match snd (fst (obs_result o)) with ENone | ENoSwap => true | EOther => false end.

  Lemma update_round_events : forall snap cur,
    snd (update_round confs tip answers snap cur) = flat_map obs_events snap.
  Proof.
    induction snap as [|[i r] rest IH]; intros cur; simpl; [reflexivity|].
    unfold obs_events at 1, obs_result. simpl.
    destruct (observer_callback confs r tip (nth i answers default_ans)) as [[called e] evs].
    match goal with |- context [update_round confs tip answers rest ?c] =>
      specialize (IH c); destruct (update_round confs tip answers rest c) as [fin evs'] end.
    simpl in *. rewrite IH. reflexivity.
  Qed.

  Lemma deregister_subset swap l o : In o (deregister swap l) -> In o l.
  Proof. unfold deregister. intros H. apply filter_In in H. tauto. Qed.

  Lemma update_round_subset : forall snap cur o,
    In o (fst (update_round confs tip answers snap cur)) -> In o cur.
  Proof.
    induction snap as [|[i r] rest IH]; intros cur o; simpl; [auto|].
    destruct (observer_callback confs r tip (nth i answers default_ans)) as [[called e] evs].
    match goal with |- context [update_round confs tip answers rest ?c] =>
      specialize (IH c o); destruct (update_round confs tip answers rest c) as [fin evs'] eqn:EU end.
    simpl in *. intros H. apply IH in H.
    destruct (called && match e with ENone | ENoSwap => true | EOther => false end).
    - eapply deregister_subset; eauto.
    - exact H.
  Qed.

  Lemma update_round_removes : forall snap cur o,
    In o snap -> obs_acked o = true ->
    ~ In o (fst (update_round confs tip answers snap cur)).
  Proof.
    induction snap as [|[i r] rest IH]; intros cur o Hin Hack; simpl; [contradiction|].
    destruct Hin as [<-|Hin].
    - unfold obs_acked, obs_result in Hack. simpl in Hack.
      destruct (observer_callback confs r tip (nth i answers default_ans)) as [[called e] evs].
      simpl in Hack. rewrite Hack.
      destruct (update_round confs tip answers rest (deregister (reg_swap r) cur)) as [fin evs'] eqn:EU.
      simpl. intros H.
      assert (H' : In (i, r) (fst (update_round confs tip answers rest (deregister (reg_swap r) cur))))
        by (rewrite EU; exact H).
      apply update_round_subset in H'. unfold deregister in H'. apply filter_In in H'.
      destruct H' as [_ H']. simpl in H'. rewrite Z.eqb_refl in H'. discriminate.
    - destruct (observer_callback confs r tip (nth i answers default_ans)) as [[called e] evs].
      match goal with |- context [update_round confs tip answers rest ?c] =>
        specialize (IH c o Hin Hack); destruct (update_round confs tip answers rest c) as [fin evs'] end.
      simpl in *. exact IH.
  Qed.

  Lemma update_round_nodup : forall snap cur,
    NoDup (map fst cur) -> NoDup (map fst (fst (update_round confs tip answers snap cur))).
  Proof.
    assert (F : forall swap l, NoDup (map (@fst nat ereg) l) -> NoDup (map fst (deregister swap l))).
    { intros swap l. unfold deregister. induction l as [|x l IHl]; simpl; intros H; [constructor|].
      inversion H; subst. destruct (negb (reg_swap (snd x) =? swap)); simpl; auto.
      constructor; auto. intros Hc. apply H2. apply in_map_iff in Hc. destruct Hc as (y & Hy & Hin).
      apply filter_In in Hin. apply in_map_iff. exists y. tauto. }
    induction snap as [|[i r] rest IH]; intros cur H; simpl; [exact H|].
    destruct (observer_callback confs r tip (nth i answers default_ans)) as [[called e] evs].
    match goal with |- context [update_round confs tip answers rest ?c] =>
      specialize (IH c); destruct (update_round confs tip answers rest c) as [fin evs'] end.
    simpl in *. apply IH.
    destruct (called && match e with ENone | ENoSwap => true | EOther => false end); auto.
  Qed.
End Round.

(* ------------------------------------------------------------------ the lwk watcher over time *)

Definition ew_wf (s : ew_state) : Prop :=
  NoDup (map fst (ew_observers s)) /\
  forall o, In o (ew_observers s) -> (fst o < ew_next s)%nat.

Fixpoint ew_run (confs : Z) (s : ew_state) (steps : list estep) : ew_state :=
  match steps with
  | [] => s
  | st :: r => ew_run confs (fst (ew_step confs s st)) r
  end.

(* a header step either leaves the state alone, stops the watcher, or runs exactly one round
   at a strictly higher accepted height *)
Lemma ew_header_cases confs s hdr answers :
  let '(s', evs) := ew_header confs s hdr answers in
  (evs = [] /\ ew_observers s' = ew_observers s /\ ew_next s' = ew_next s /\ ew_height s' = ew_height s) \/
  (exists h, ew_running s = true /\ ew_terminal s = false /\ hdr = Some h /\ 0 < h /\
             (0 < ew_height s -> ew_height s < h) /\ ew_height s' = h /\ ew_next s' = ew_next s /\
             ew_observers s' = fst (update_round confs h answers (ew_observers s) (ew_observers s)) /\
             evs = flat_map (obs_events confs h answers) (ew_observers s)).
Proof.
  unfold ew_header. destruct (ew_running s) eqn:ER; simpl; [|left; auto].
  destruct (accept_block_height (ew_height s) (ew_terminal s) hdr) as [[[h ch] bh']|] eqn:EA;
    [|left; simpl; auto].
  destruct ch; [|left; auto].
  apply accept_changed in EA. destruct EA as (Ht & Hh & Hb & Hp & Hm). subst bh'.
  pose proof (update_round_events confs h answers (ew_observers s) (ew_observers s)) as HE.
  destruct (update_round confs h answers (ew_observers s) (ew_observers s)) as [l evs] eqn:EU.
  right. exists h. simpl in *. repeat split; auto.
  rewrite EU. reflexivity.
Qed.

Lemma NoDup_app_single {A} (l : list A) (x : A) : NoDup l -> ~ In x l -> NoDup (l ++ [x]).
Proof.
  induction l as [|a l IH]; simpl; intros Hn Hx; [constructor; [intros []|constructor]|].
  inversion Hn; subst. constructor.
  - intros Hc. apply in_app_or in Hc. destruct Hc as [Hc|[Hc|[]]]; [auto|subst; apply Hx; left; reflexivity].
  - apply IH; auto.
Qed.

Lemma ew_step_wf confs s st : ew_wf s -> ew_wf (fst (ew_step confs s st)).
Proof.
  intros [Hnd Hlt]. destruct st as [hdr answers|r]; simpl.
  - pose proof (ew_header_cases confs s hdr answers) as HC.
    destruct (ew_header confs s hdr answers) as [s' evs]. simpl.
    destruct HC as [(_ & Ho & Hn & _)|(h & _ & _ & _ & _ & _ & _ & Hn & Ho & _)].
    + split; rewrite Ho; [exact Hnd|]. rewrite Hn. exact Hlt.
    + split; rewrite Ho.
      * apply update_round_nodup. exact Hnd.
      * intros o Hin. apply update_round_subset in Hin. rewrite Hn. auto.
  - unfold ew_register, ew_wf. simpl. split.
    + rewrite map_app. simpl. apply NoDup_app_single; [exact Hnd|].
      intros Hc. apply in_map_iff in Hc. destruct Hc as (o & Ho & Hin). apply Hlt in Hin. lia.
    + intros o Hin. apply in_app_or in Hin. destruct Hin as [Hin|[<-|[]]]; [apply Hlt in Hin; lia|simpl; lia].
Qed.

Lemma ew_step_gone confs s st o :
  ew_wf s -> (fst o < ew_next s)%nat -> ~ In o (ew_observers s) ->
  ~ In o (ew_observers (fst (ew_step confs s st))) /\ (fst o < ew_next (fst (ew_step confs s st)))%nat.
Proof.
  intros [Hnd Hlt] Hi Hn. destruct st as [hdr answers|r]; simpl.
  - pose proof (ew_header_cases confs s hdr answers) as HC.
    destruct (ew_header confs s hdr answers) as [s' evs]. simpl.
    destruct HC as [(_ & Ho & Hx & _)|(h & _ & _ & _ & _ & _ & _ & Hx & Ho & _)]; rewrite Ho, Hx.
    + auto.
    + split; [|exact Hi]. intros Hc. apply update_round_subset in Hc. auto.
  - split; [|lia]. intros Hc. apply in_app_or in Hc. destruct Hc as [Hc|[Hc|[]]]; [auto|].
    subst o. simpl in Hi. lia.
Qed.

Lemma ew_run_gone confs : forall steps s o,
  ew_wf s -> (fst o < ew_next s)%nat -> ~ In o (ew_observers s) ->
  ~ In o (ew_observers (ew_run confs s steps)).
Proof.
  induction steps as [|st r IH]; intros s o Hwf Hi Hn; simpl; [exact Hn|].
  destruct (ew_step_gone confs s st o Hwf Hi Hn) as [H1 H2].
  apply IH; auto. apply ew_step_wf. exact Hwf.
Qed.

(* An observer whose report was acknowledged in a round is never consulted again: it has left
   the subscriber's list and stays out, whatever headers and registrations follow. *)
Lemma el_acked_never_again confs s hdr answers h o later :
  ew_wf s -> ew_running s = true ->
  accept_block_height (ew_height s) (ew_terminal s) hdr = Some (h, true, h) ->
  In o (ew_observers s) -> obs_acked confs h answers o = true ->
  ~ In o (ew_observers (ew_run confs (fst (ew_step confs s (EHeader hdr answers))) later)).
Proof.
  intros Hwf Hrun Hacc Hin Hack.
  assert (Hwf' : ew_wf (fst (ew_step confs s (EHeader hdr answers)))) by (apply ew_step_wf; exact Hwf).
  apply ew_run_gone; auto.
  - simpl. unfold ew_header. rewrite Hrun, Hacc. simpl.
    destruct (update_round confs h answers (ew_observers s) (ew_observers s)) as [l evs]. simpl.
    destruct Hwf as [_ Hlt]. apply Hlt. exact Hin.
  - simpl. unfold ew_header. rewrite Hrun, Hacc. simpl.
    pose proof (update_round_removes confs h answers (ew_observers s) (ew_observers s) o Hin Hack) as HR.
    destruct (update_round confs h answers (ew_observers s) (ew_observers s)) as [l evs]. simpl in *. exact HR.
Qed.

Lemma register_all_wf : forall regs s, ew_wf s -> ew_wf (register_all s regs).
Proof.
  induction regs as [|r rest IH]; intros s H; simpl; [exact H|].
  apply IH. exact (ew_step_wf 0 s (ERegister r) H).
Qed.

Lemma ew_start_wf confs regs hdr answers :
  ew_wf (snd (fst (ew_start confs regs hdr answers))).
Proof.
  unfold ew_start.
  set (s0 := register_all (mkEw 0 false false [] O) regs).
  assert (H0 : ew_wf s0).
  { apply register_all_wf. split; simpl; [constructor|intros o []]. }
  destruct (accept_block_height 0 false hdr) as [[[h ch] bh']|]; simpl; [|exact H0].
  destruct H0 as [Hnd Hlt].
  pose proof (update_round_nodup confs h answers (ew_observers s0) (ew_observers s0) Hnd) as HN.
  pose proof (update_round_subset confs h answers (ew_observers s0) (ew_observers s0)) as HS.
  destruct (update_round confs h answers (ew_observers s0) (ew_observers s0)) as [l evs].
  simpl in *. split; simpl; auto.
Qed.

(* every event of a header step is an event of one observer of the list, judged at the
   accepted header height, which is above every height accepted before *)
Lemma ew_header_event confs s hdr answers s' evs e :
  ew_header confs s hdr answers = (s', evs) -> In e evs ->
  exists h o, hdr = Some h /\ 0 < h /\ (0 < ew_height s -> ew_height s < h) /\ ew_height s' = h /\
              In o (ew_observers s) /\ In e (obs_events confs h answers o).
Proof.
  intros H Hin. pose proof (ew_header_cases confs s hdr answers) as HC. rewrite H in HC.
  destruct HC as [(-> & _)|(h & _ & _ & Hh & Hp & Hm & Hs & _ & _ & ->)]; [contradiction|].
  apply in_flat_map in Hin. destruct Hin as (o & Ho & He).
  exists h, o. repeat split; auto.
Qed.

Lemma el_header_confirmed_sound confs s hdr answers s' evs swap raw :
  ew_header confs s hdr answers = (s', evs) -> In (EvConfOk swap raw) evs ->
  exists h i start window,
    hdr = Some h /\ 0 < h /\ (0 < ew_height s -> ew_height s < h) /\
    In (i, RegOpen swap start window) (ew_observers s) /\
    start <= h < start + window /\
    exists l txh, ea_hist (nth i answers default_ans) = HistList l /\ get_height l = Some txh /\
                  0 < txh <= h /\ confs <= h - txh + 1 /\
                  ea_raw (nth i answers default_ans) = RawStr raw.
Proof.
  intros H Hin. destruct (ew_header_event _ _ _ _ _ _ _ H Hin) as (h & [i r] & Hh & Hp & Hm & _ & Ho & He).
  unfold obs_events, obs_result in He. simpl in He.
  destruct r as [sw st w|sw c]; simpl in He.
  - destruct (opening_callback confs sw st w h (nth i answers default_ans)) as [[called e] ev] eqn:EO.
    simpl in He. destruct (opening_callback_sound _ _ _ _ _ _ _ _ _ _ _ EO He) as (-> & _ & Hw & l & txh & H1 & H2 & H3 & H4 & H5).
    exists h, i, st, w. repeat split; auto; try lia. exists l, txh. repeat split; auto; lia.
  - exfalso. unfold csv_callback in He.
    destruct (ea_hist (nth i answers default_ans)) as [|l]; [simpl in He; contradiction|].
    destruct (get_height l) as [x|]; [|simpl in He; contradiction].
    destruct (has_confirmations x h c) as [[|]|]; simpl in He; try contradiction.
    destruct He as [He|[]]; discriminate.
Qed.

Lemma el_header_csv_sound confs s hdr answers s' evs swap :
  ew_header confs s hdr answers = (s', evs) -> In (EvCsv swap) evs ->
  exists h i csv,
    hdr = Some h /\ 0 < h /\ (0 < ew_height s -> ew_height s < h) /\
    In (i, RegCsv swap csv) (ew_observers s) /\
    exists l txh, ea_hist (nth i answers default_ans) = HistList l /\ get_height l = Some txh /\
                  0 < txh <= h /\ csv <= h - txh + 1.
Proof.
  intros H Hin. destruct (ew_header_event _ _ _ _ _ _ _ H Hin) as (h & [i r] & Hh & Hp & Hm & _ & Ho & He).
  unfold obs_events, obs_result in He. simpl in He.
  destruct r as [sw st w|sw c]; simpl in He.
  - exfalso. destruct (opening_callback confs sw st w h (nth i answers default_ans)) as [[called e] ev] eqn:EO.
    simpl in He. eapply opening_callback_kinds; eauto.
  - destruct (csv_callback sw c h (nth i answers default_ans)) as [[called e] ev] eqn:EC.
    simpl in He. destruct (csv_callback_sound _ _ _ _ _ _ _ _ EC He) as (-> & l & txh & H1 & H2 & H3 & H4).
    exists h, i, c. repeat split; auto. exists l, txh. repeat split; auto; lia.
Qed.

(* an opening observer that is consulted at or after its deadline reports the failure *)
Lemma el_header_failure_when_closed confs s hdr answers h i swap start window :
  ew_running s = true ->
  accept_block_height (ew_height s) (ew_terminal s) hdr = Some (h, true, h) ->
  In (i, RegOpen swap start window) (ew_observers s) -> start + window <= h ->
  In (EvConfErr swap) (snd (ew_header confs s hdr answers)).
Proof.
  intros Hrun Hacc Hin Hw.
  pose proof (update_round_events confs h answers (ew_observers s) (ew_observers s)) as HE.
  unfold ew_header. rewrite Hrun, Hacc. simpl.
  apply accept_changed in Hacc. destruct Hacc as (_ & _ & _ & Hp & _).
  destruct (update_round confs h answers (ew_observers s) (ew_observers s)) as [l evs]. simpl in *.
  subst evs. apply in_flat_map. exists (i, RegOpen swap start window). split; [exact Hin|].
  unfold obs_events, obs_result. simpl. rewrite opening_callback_closed by lia. simpl. left. reflexivity.
Qed.

(* ------------------------------------------------------------------ statements used by Props *)

Lemma observation_step_window_closed_nowrap req start limit last height v :
  0 <= start -> 0 <= limit -> start + limit < two32 ->
  last < height -> start + limit <= height ->
  observation_step req start limit last height v = (height, SCbErr).
Proof.
  intros H1 H2 H3 H4 H5. apply observation_step_window_closed; [exact H4|].
  unfold add32. rewrite u32_small by lia. exact H5.
Qed.

(* confirmed => the window is open, also as plain integers *)
Lemma observation_step_ok_window req start limit last height v last' raw :
  0 <= start -> 0 <= limit ->
  observation_step req start limit last height v = (last', SCbOk raw) ->
  last < height /\ height < start + limit.
Proof.
  intros H1 H2 H. apply observation_step_ok in H. destruct H as (Ha & _ & Hb & _).
  pose proof (add32_le start limit H1 H2). lia.
Qed.

Lemma observation_step_conf_depth req start limit last height v last' raw ct best conf :
  observation_step req start limit last height v = (last', SCbOk raw) ->
  v_height v = Some ct -> v_txout v = TxoSome best conf -> 0 <= conf < two32 ->
  height <= u32 ct ->
  req <= conf.
Proof.
  intros Hs Hct Ho Hc Hle.
  destruct (observation_step_depth _ _ _ _ _ _ _ _ _ Hs Hct Hle) as (first & _ & _ & _ & Hall).
  destruct (Hall best conf Ho Hc) as [_ H]. exact H.
Qed.

Lemma ew_header_round confs s hdr answers :
  ew_wf s ->
  let '(s', evs) := ew_header confs s hdr answers in
  ew_wf s' /\
  ((evs = [] /\ ew_observers s' = ew_observers s) \/
   (exists h, hdr = Some h /\ 0 < h /\ (0 < ew_height s -> ew_height s < h) /\ ew_height s' = h /\
              NoDup (map fst (ew_observers s)) /\
              evs = flat_map (obs_events confs h answers) (ew_observers s))).
Proof.
  intros Hwf. pose proof (ew_step_wf confs s (EHeader hdr answers) Hwf) as Hwf'. simpl in Hwf'.
  pose proof (ew_header_cases confs s hdr answers) as HC.
  destruct (ew_header confs s hdr answers) as [s' evs]. simpl in Hwf'. split; [exact Hwf'|].
  destruct HC as [(H1 & H2 & _)|(h & _ & _ & H3 & H4 & H5 & H6 & _ & _ & H7)]; [left; auto|].
  right. exists h. destruct Hwf as [Hnd _]. repeat split; auto.
Qed.
