(* C07, action level: what any action (any tree) can do to the maker's record of
   the opening transaction, and which trees can broadcast / watch / spend. *)
From Coq Require Import String ZArith Bool List Lia.
From RecordUpdate Require Import RecordSet.
From PS Require Import Base.Wrap Model.Data Model.Actions Model.Fsm Model.History Model.FsmCorr Model.C07Corr Model.C07Table
  Proofs.Monad Proofs.ExecRule Proofs.MTac Proofs.Frame Proofs.Engine Proofs.ExecRuleTree.
Import ListNotations RecordSetNotations.
Open Scope Z_scope.

Strategy opaque [event_loop exec loop_fuel action_fuel pay_loop].

(* ---------- observations on effect lists ---------- *)
Definition bc_of (e : effect) : option opening_result :=
  match e with EBroadcastOpening _ _ _ _ _ _ (Some o) => Some o | _ => None end.

Fixpoint bcs (es : list effect) : list opening_result :=
  match es with
  | [] => []
  | e :: r => match bc_of e with Some o => o :: bcs r | None => bcs r end
  end.

Definition spend_ok (e : effect) : bool := match e with EBroadcastSpend _ (Some _) => true | _ => false end.
Definition spent_in (es : list effect) : bool := existsb spend_ok es.

Lemma bcs_app a b : bcs (a ++ b) = (bcs a ++ bcs b)%list.
Proof. induction a as [|e r IH]; cbn; auto. destruct (bc_of e); cbn; congruence. Qed.

Lemma spent_in_app a b : spent_in (a ++ b) = spent_in a || spent_in b.
Proof. unfold spent_in. apply existsb_app. Qed.

Definition internal_events : list string :=
  [Ev_Succeeded; Ev_Failed; Ev_Done; Ev_NoOp; Ev_Retry; Ev_TxConfirmed; Ev_Panic; Ev_Unknown].
Definition internal_ev (ev : string) : bool := existsb (String.eqb ev) internal_events.

(* ---------- the tree-independent part ---------- *)
Definition QL (d : swap_data) (r : string * swap_data) (es : list effect) : Prop :=
  Forall not_persist es /\
  internal_ev (fst r) = true /\
  (str_nonempty (d_claim_txid (snd r)) = true -> str_nonempty (d_claim_txid d) = true \/ spent_in es = true) /\
  (d_otb d <> None -> d_otb (snd r) = d_otb d /\ d_opening_hex (snd r) = d_opening_hex d /\ bcs es = []) /\
  (bcs es = [] \/
   exists o, bcs es = [o] /\ fst r = Ev_Succeeded /\ otb_matches (snd r) o = true /\ chain_known d = true /\ d_otb d = None).

Lemma QL_same d ev es :
  Forall not_persist es -> internal_ev ev = true -> bcs es = [] -> QL d (ev, d) es.
Proof.
  intros F Hi Hb. unfold QL. cbn [fst snd]. repeat split; auto.
Qed.

Ltac np := repeat constructor.

Ltac ql_tac :=
  unfold QL; cbn [fst snd];
  split; [np|];
  split; [reflexivity|];
  split; [cbn; first [ intros Hc; left; exact Hc | intros _; right; reflexivity ]|];
  split; [cbn; first [ intros _; repeat split; reflexivity | intros Hn; congruence ]|];
  first [ left; reflexivity | idtac ].

Lemma pay_loop_QL n : forall csvh pol payreq d w r w' es,
  pay_loop n csvh pol payreq d w = (r, w', es) ->
  QL d r es /\ bcs es = [] /\ existsb is_watch_conf es = false.
Proof.
  induction n as [|n IH]; intros csvh pol payreq d w r w' es H.
  - rewrite pay_loop_O in H. msym. split; [ql_tac|split; reflexivity].
  - rewrite pay_loop_S in H. msym; list_simpl; try solve [split; [ql_tac|split; reflexivity]].
    apply IH in H. destruct H as ((F & Hi & Hc & Ho & Hb) & Hbc & Hwc).
    split; [|split; [cbn [bcs bc_of]; exact Hbc|cbn; exact Hwc]].
    unfold QL. split; [constructor; [exact Logic.I|exact F]|]. split; [exact Hi|].
    split; [intros Hx; destruct (Hc Hx) as [Hl|Hr]; [left; exact Hl|right; cbn; exact Hr]|].
    split; [intros Hn; destruct (Ho Hn) as (A & B & C); repeat split; auto|].
    cbn [bcs bc_of]. exact Hb.
Qed.

Section Leaves.
Variable tc : tl_consts.
Variable dec : string -> option (string * Z * Z).

Lemma leaf_QL name f : In (name, f) (leaf_actions tc dec) ->
  forall d w r w' es, f d w = (r, w', es) ->
  QL d r es /\
  (bcs es <> [] -> name = L_broadcast) /\
  (existsb is_watch_conf es = true -> name = L_await_conf).
Proof.
  intros Hin d w r w' es H. leaf_cases Hin.
  all: autounfold with actions in H; msym; list_simpl.
  all: try (split; [|split; [cbn; first [congruence | reflexivity | intros _; reflexivity]
                            |cbn; first [discriminate | reflexivity | intros _; reflexivity]]]).
  all: try solve [ql_tac].
  - (* the opening transaction was broadcast: the record is set in the same action *)
    unfold QL; cbn [fst snd]. split; [np|]. split; [reflexivity|].
    split; [cbn; intros Hc; left; exact Hc|].
    split; [intros Hn; congruence|]. right. exists o. split; [reflexivity|]. split; [reflexivity|].
    split; [unfold otb_matches; cbn; rewrite !String.eqb_refl, Z.eqb_refl; reflexivity|].
    split; [apply negb_false_iff in Eif; exact Eif|exact Eif0].
  - (* the payment loop *)
    apply pay_loop_QL in H. destruct H as ((F & Hi & Hc & Ho & Hb) & Hbc & Hwc).
    split; [|split; [cbn [bcs bc_of]; rewrite Hbc; congruence|cbn; rewrite Hwc; discriminate]].
    unfold QL. split; [constructor; [exact Logic.I|exact F]|]. split; [exact Hi|].
    split; [intros Hx; destruct (Hc Hx) as [Hl|Hr]; [left; exact Hl|right; cbn; exact Hr]|].
    split; [intros Hn; destruct (Ho Hn) as (A & B & C); repeat split; auto|].
    cbn [bcs bc_of]. exact Hb.
Qed.

End Leaves.

(* ---------- any tree ---------- *)
Definition QT (a : action_tree) (d : swap_data) (r : string * swap_data) (es : list effect) : Prop :=
  QL d r es /\
  (bcs es <> [] -> tree_has L_broadcast a = true) /\
  (existsb is_watch_conf es = true -> tree_has L_await_conf a = true).

Lemma tree_has_self name ch : tree_has name (ANode name ch) = true.
Proof. cbn. rewrite String.eqb_refl. reflexivity. Qed.

Lemma tree_has_child L name c ch : tree_has L c = true -> tree_has L (ANode name (c :: ch)) = true.
Proof. intros H. cbn. rewrite H. cbn. apply orb_true_r. Qed.

Lemma QL_blind d k r es : QL (d <| d_blinding_hex := k |>) r es -> QL d r es.
Proof. destruct d. unfold QL, chain_known, get_chain, get_asset, get_network, get_request. cbn. tauto. Qed.

Lemma QL_cons e d r es :
  not_persist e -> bc_of e = None -> QL d r es -> QL d r (e :: es).
Proof.
  intros Hn Hb (F & Hi & Hc & Ho & Hbc). unfold QL. split; [constructor; auto|]. split; [exact Hi|].
  split; [intros Hx; destruct (Hc Hx) as [Hl|Hr]; [left; exact Hl|right; unfold spent_in in *; cbn; rewrite Hr; apply orb_true_r]|].
  cbn [bcs]. rewrite Hb. split; [exact Ho|exact Hbc].
Qed.

Ltac qt_base := split; [apply QL_same; [constructor|reflexivity|reflexivity]|split; [cbn; congruence|cbn; discriminate]].

Section Trees.
Variable tc : tl_consts.
Variable dec : string -> option (string * Z * Z).

Theorem exec_QT fuel a d w r w' es :
  exec tc dec fuel a d w = (r, w', es) -> QT a d r es.
Proof.
  apply (exec_rule_tree tc dec QT).
  - intros name ch f Hw Hin d0 w0 r0 w1 es0 H.
    destruct (leaf_QL tc dec name f Hin d0 w0 r0 w1 es0 H) as (HQ & Hb & Hc).
    split; [exact HQ|]. split.
    + intros Hne. rewrite (Hb Hne). apply tree_has_self.
    + intros Hne. rewrite (Hc Hne). apply tree_has_self.
  - intros a0 d0. qt_base.
  - intros a0 d0 k. split; [|split; [cbn; congruence|cbn; discriminate]].
    apply QL_blind with (k := k). destruct d0. apply QL_same; [constructor|reflexivity|reflexivity].
  - intros a0 d0. split; [apply QL_same; [np|reflexivity|reflexivity]|split; [cbn; congruence|cbn; discriminate]].
  - intros a0 d0. split; [apply QL_same; [np|reflexivity|reflexivity]|split; [cbn; congruence|cbn; discriminate]].
  - intros a0 d0. split; [apply QL_same; [np|reflexivity|reflexivity]|split; [cbn; congruence|cbn; discriminate]].
  - intros a0 d0. qt_base.
  - intros a0 d0. qt_base.
  - intros name c ch d0 r0 es0 _ (HQ & Hb & Hc). split; [exact HQ|]. split; intros Hx; apply tree_has_child; auto.
  - intros name c ch d0 k r0 es0 _ (HQ & Hb & Hc). split; [eapply QL_blind; eauto|]. split; intros Hx; apply tree_has_child; auto.
  - intros name c ch d0 r0 es0 _ (HQ & Hb & Hc). split; [exact HQ|]. split; intros Hx; apply tree_has_child; auto.
  - intros name c ch d0 r0 es0 _ (HQ & Hb & Hc). split; [apply QL_cons; [exact Logic.I|reflexivity|exact HQ]|].
    split; intros Hx; apply tree_has_child; auto.
  - intros name c ch d0 r0 es0 _ _ (HQ & Hb & Hc). split; [exact HQ|]. split; intros Hx; apply tree_has_child; auto.
  - intros name c ch d0 r0 es0 _ (HQ & Hb & Hc). split; [apply QL_cons; [exact Logic.I|reflexivity|exact HQ]|].
    split; intros Hx; apply tree_has_child; auto.
Qed.

(* ---------- particular tree shapes (explicit unfolding) ---------- *)
Lemma tree_eqb_leaf_eq a L : tree_eqb_leaf a L = true -> a = ANode L [].
Proof. destruct a as [n [|c r]]; cbn; [|discriminate]. intros H. apply String.eqb_eq in H. subst. reflexivity. Qed.

Lemma tree_eqb_wrap_eq a W L : tree_eqb_wrap a W L = true -> a = ANode W [ANode L []].
Proof.
  destruct a as [n [|c [|c2 r]]]; cbn; try discriminate. intros H. apply andb_true_iff in H. destruct H as [H1 H2].
  apply String.eqb_eq in H1. apply tree_eqb_leaf_eq in H2. subst. reflexivity.
Qed.

Lemma exec_stop fuel c d :
  exec tc dec (S fuel) (ANode L_stop [c]) d = (emit ERetransStop ;;; exec tc dec fuel c d).
Proof. rewrite exec_S. reflexivity. Qed.

Lemma exec_premium fuel c d :
  exec tc dec (S fuel) (ANode L_premium [c]) d =
    match check_premium d with
    | None => panic d
    | Some true => exec tc dec fuel c d
    | Some false => fail d
    end.
Proof. rewrite exec_S. reflexivity. Qed.

Lemma exec_leaf_broadcast fuel ch d :
  exec tc dec (S fuel) (ANode L_broadcast ch) d = act_create_and_broadcast_opening tc d.
Proof. rewrite exec_S. reflexivity. Qed.
Lemma exec_leaf_claim_csv fuel ch d :
  exec tc dec (S fuel) (ANode L_claim_csv ch) d = act_claim_csv d.
Proof. rewrite exec_S. reflexivity. Qed.
Lemma exec_leaf_claim_coop fuel ch d :
  exec tc dec (S fuel) (ANode L_claim_coop ch) d = act_claim_coop d.
Proof. rewrite exec_S. reflexivity. Qed.
Lemma exec_leaf_await_pay_or_csv fuel ch d :
  exec tc dec (S fuel) (ANode L_await_pay_or_csv ch) d = act_await_payment_or_csv tc d.
Proof. rewrite exec_S. reflexivity. Qed.
Lemma exec_leaf_await_csv fuel ch d :
  exec tc dec (S fuel) (ANode L_await_csv ch) d = watch_csv tc d.
Proof. rewrite exec_S. reflexivity. Qed.

Lemma action_fuel_S : action_fuel = S 7.
Proof. reflexivity. Qed.

(* the four shapes of a spending state's action *)
Definition spend_tree (a : action_tree) : bool :=
  tree_eqb_leaf a L_claim_csv || tree_eqb_wrap a L_stop L_claim_csv ||
  tree_eqb_leaf a L_claim_coop || tree_eqb_wrap a L_stop L_claim_coop.

Lemma spend_tree_success a d w ev' d' w' es :
  spend_tree a = true ->
  exec tc dec action_fuel a d w = ((ev', d'), w', es) ->
  ev' = Ev_Succeeded -> str_nonempty (d_claim_txid d) = true \/ spent_in es = true.
Proof.
  unfold spend_tree. rewrite action_fuel_S. intros Hs H Hev.
  repeat (apply orb_true_iff in Hs; destruct Hs as [Hs|Hs]).
  - apply tree_eqb_leaf_eq in Hs. subst a. rewrite exec_leaf_claim_csv in H.
    autounfold with actions in H. msym; try discriminate; auto.
  - apply tree_eqb_wrap_eq in Hs. subst a. rewrite exec_stop, exec_leaf_claim_csv in H.
    autounfold with actions in H. msym; try discriminate; auto.
  - apply tree_eqb_leaf_eq in Hs. subst a. rewrite exec_leaf_claim_coop in H.
    autounfold with actions in H. msym; try discriminate; auto.
  - apply tree_eqb_wrap_eq in Hs. subst a. rewrite exec_stop, exec_leaf_claim_coop in H.
    autounfold with actions in H. msym; try discriminate; auto.
Qed.

(* the two shapes of a broadcasting state's action *)
Definition bc_tree (a : action_tree) : bool :=
  tree_eqb_leaf a L_broadcast || tree_eqb_wrap a L_premium L_broadcast.

Lemma check_premium_frame d d' :
  d_in_req d' = d_in_req d -> d_in_agr d' = d_in_agr d -> d_out_req d' = d_out_req d -> d_out_agr d' = d_out_agr d ->
  check_premium d' = check_premium d.
Proof. intros A B C D. unfold check_premium. rewrite A, B, C, D. reflexivity. Qed.

Lemma broadcast_leaf_facts d w ev' d' w' es :
  act_create_and_broadcast_opening tc d w = ((ev', d'), w', es) ->
  d_in_agr d' = d_in_agr d /\ check_premium d' = check_premium d /\
  (d_otb d <> None -> chain_known d = true -> ev' = Ev_Succeeded).
Proof.
  intros H. autounfold with actions in H. msym.
  all: split; [reflexivity|split; [apply check_premium_frame; reflexivity|]].
  all: try (intros Ho Hc; first [reflexivity | congruence | (rewrite Hc in *; discriminate)]).
Qed.

Lemma bc_tree_facts a d w ev' d' w' es :
  bc_tree a = true ->
  exec tc dec action_fuel a d w = ((ev', d'), w', es) ->
  d_in_agr d' = d_in_agr d /\ check_premium d' = check_premium d /\
  (tree_eqb_wrap a L_premium L_broadcast = true -> bcs es <> [] -> check_premium d = Some true) /\
  (d_otb d <> None -> chain_known d = true ->
   (tree_eqb_wrap a L_premium L_broadcast = true -> check_premium d = Some true) -> ev' = Ev_Succeeded).
Proof.
  unfold bc_tree. rewrite action_fuel_S. intros Hs H.
  apply orb_true_iff in Hs; destruct Hs as [Hs|Hs].
  - apply tree_eqb_leaf_eq in Hs. subst a. rewrite exec_leaf_broadcast in H.
    apply broadcast_leaf_facts in H. destruct H as (A & B & C).
    split; [exact A|]. split; [exact B|]. split; [cbn; discriminate|]. intros Ho Hc _. auto.
  - apply tree_eqb_wrap_eq in Hs. subst a. rewrite exec_premium in H.
    destruct (check_premium d) as [[|]|] eqn:Ep.
    + rewrite exec_leaf_broadcast in H. apply broadcast_leaf_facts in H. destruct H as (A & B & C).
      split; [exact A|]. split; [rewrite B; exact Ep|]. split; [reflexivity|]. intros Ho Hc _. auto.
    + msym. split; [reflexivity|]. split; [exact Ep|]. split; [cbn; congruence|].
      intros _ _ Hp. specialize (Hp eq_refl). discriminate.
    + msym. split; [reflexivity|]. split; [exact Ep|]. split; [cbn; congruence|].
      intros _ _ Hp. specialize (Hp eq_refl). discriminate.
Qed.

End Trees.
