(* C07, action level: what any action (any tree) can do to the maker's record of
   the opening transaction, and which trees can broadcast / watch / spend. *)
From Coq Require Import String ZArith Bool List Lia.
From RecordUpdate Require Import RecordSet.
From PS Require Import Base.Wrap Model.Data Model.Actions Model.Fsm Model.History Model.FsmCorr Model.C07Corr Model.C07Table
  Proofs.Monad Proofs.ExecRule Proofs.MTac Proofs.Frame Proofs.Engine Proofs.ExecRuleTree.
Import ListNotations RecordSetNotations.
Open Scope Z_scope.

Strategy opaque [event_loop exec loop_fuel action_fuel pay_loop].

(* ---------- observations on effect lists ---------- *)
Definition bc_of (e : effect) : option opening_result :=
  match e with EBroadcastOpening _ _ _ _ _ _ (Some o) => Some o | _ => None end.

Fixpoint bcs (es : list effect) : list opening_result :=
  match es with
  | [] => []
  | e :: r => match bc_of e with Some o => o :: bcs r | None => bcs r end
  end.

Definition spend_ok (e : effect) : bool := match e with EBroadcastSpend _ (Some _) => true | _ => false end.
Definition spent_in (es : list effect) : bool := existsb spend_ok es.

Lemma bcs_app a b : bcs (a ++ b) = (bcs a ++ bcs b)%list.
Proof. induction a as [|e r IH]; cbn; auto. destruct (bc_of e); cbn; congruence. Qed.

Lemma spent_in_app a b : spent_in (a ++ b) = spent_in a || spent_in b.
Proof. unfold spent_in. apply existsb_app. Qed.

Definition internal_events : list string :=
  [Ev_Succeeded; Ev_Failed; Ev_Done; Ev_NoOp; Ev_Retry; Ev_TxConfirmed; Ev_Panic; Ev_Unknown].
Definition internal_ev (ev : string) : bool := existsb (String.eqb ev) internal_events.

(* ---------- the tree-independent part ---------- *)
Definition QL (d : swap_data) (r : string * swap_data) (es : list effect) : Prop :=
  Forall not_persist es /\
  internal_ev (fst r) = true /\
  (str_nonempty (d_claim_txid (snd r)) = true -> str_nonempty (d_claim_txid d) = true \/ spent_in es = true) /\
  (d_otb d <> None -> d_otb (snd r) = d_otb d /\ d_opening_hex (snd r) = d_opening_hex d /\ bcs es = []) /\
  (bcs es = [] \/
   exists o, bcs es = [o] /\ fst r = Ev_Succeeded /\ otb_matches (snd r) o = true /\ chain_known d = true /\ d_otb d = None).

Lemma QL_same d ev es :
  Forall not_persist es -> internal_ev ev = true -> bcs es = [] -> QL d (ev, d) es.
Proof.
  intros F Hi Hb. unfold QL. cbn [fst snd]. repeat split; auto.
Qed.

Ltac np := repeat constructor.

Ltac ql_tac :=
  unfold QL; cbn [fst snd];
  split; [np|];
  split; [reflexivity|];
  split; [cbn; first [ intros Hc; left; exact Hc | intros _; right; reflexivity ]|];
  split; [cbn; first [ intros _; repeat split; reflexivity | intros Hn; congruence ]|];
  first [ left; reflexivity | idtac ].

Lemma pay_loop_QL n : forall csvh pol payreq d w r w' es,
  pay_loop n csvh pol payreq d w = (r, w', es) ->
  QL d r es /\ bcs es = [] /\ existsb is_watch_conf es = false.
Proof.
  induction n as [|n IH]; intros csvh pol payreq d w r w' es H.
  - rewrite pay_loop_O in H. msym. split; [ql_tac|split; reflexivity].
  - rewrite pay_loop_S in H. msym; list_simpl; try solve [split; [ql_tac|split; reflexivity]].
    apply IH in H. destruct H as ((F & Hi & Hc & Ho & Hb) & Hbc & Hwc).
    split; [|split; [cbn [bcs bc_of]; exact Hbc|cbn; exact Hwc]].
    unfold QL. split; [constructor; [exact Logic.I|exact F]|]. split; [exact Hi|].
    split; [intros Hx; destruct (Hc Hx) as [Hl|Hr]; [left; exact Hl|right; cbn; exact Hr]|].
    split; [intros Hn; destruct (Ho Hn) as (A & B & C); repeat split; auto|].
    cbn [bcs bc_of]. exact Hb.
Qed.

Section Leaves.
Variable tc : tl_consts.
Variable dec : string -> option (string * Z * Z).

Lemma leaf_QL name f : In (name, f) (leaf_actions tc dec) ->
  forall d w r w' es, f d w = (r, w', es) ->
  QL d r es /\
  (bcs es <> [] -> name = L_broadcast) /\
  (existsb is_watch_conf es = true -> name = L_await_conf).
Proof.
  intros Hin d w r w' es H. leaf_cases Hin.
  all: autounfold with actions in H; msym; list_simpl.
  all: try (split; [|split; [cbn; first [congruence | reflexivity | intros _; reflexivity]
                            |cbn; first [discriminate | reflexivity | intros _; reflexivity]]]).
  all: try solve [ql_tac].
  - (* the opening transaction was broadcast: the record is set in the same action *)
    unfold QL; cbn [fst snd]. split; [np|]. split; [reflexivity|].
    split; [cbn; intros Hc; left; exact Hc|].
    split; [intros Hn; congruence|]. right. exists o. split; [reflexivity|]. split; [reflexivity|].
    split; [unfold otb_matches; cbn; rewrite !String.eqb_refl, Z.eqb_refl; reflexivity|].
    split; [apply negb_false_iff in Eif; exact Eif|exact Eif0].
  - (* the payment loop *)
    apply pay_loop_QL in H. destruct H as ((F & Hi & Hc & Ho & Hb) & Hbc & Hwc).
    split; [|split; [cbn [bcs bc_of]; rewrite Hbc; congruence|cbn; rewrite Hwc; discriminate]].
    unfold QL. split; [constructor; [exact Logic.I|exact F]|]. split; [exact Hi|].
    split; [intros Hx; destruct (Hc Hx) as [Hl|Hr]; [left; exact Hl|right; cbn; exact Hr]|].
    split; [intros Hn; destruct (Ho Hn) as (A & B & C); repeat split; auto|].
    cbn [bcs bc_of]. exact Hb.
Qed.

End Leaves.
