(* C17: negotiation waits are bounded by timeouts, also after restarts. *)
From Coq Require Import String ZArith Bool List Lia.
From RecordUpdate Require Import RecordSet.
From PS Require Import Base.Wrap Model.Data Model.Actions Model.Fsm Model.History Model.FsmCorr Model.C17Corr
  Gen.ConstsSwap Gen.Tables
  Proofs.Monad Proofs.ExecRule Proofs.MTac Proofs.WorldSym Proofs.Engine Proofs.HistRule.
Import ListNotations RecordSetNotations.
Open Scope Z_scope.

Strategy opaque [event_loop exec loop_fuel action_fuel pay_loop].

Lemma action_fuel_eq : action_fuel = 8%nat.
Proof. reflexivity. Qed.
Lemma loop_fuel_eq : loop_fuel = 64%nat.
Proof. reflexivity. Qed.

(* the numbers of the property text *)
Lemma c17_constants : c17_timeout_s = 10 * 60.
Proof. reflexivity. Qed.

Lemma last_persist_lastp es : last_persist es = lastp None es.
Proof. reflexivity. Qed.

Lemma lastp_app acc a b : lastp acc (a ++ b) = lastp (lastp acc a) b.
Proof. unfold lastp. apply fold_left_app. Qed.

(* ---------- store writes succeed ---------- *)
Lemma stores_pop_other {A} get put (dflt : A) w a w' :
  Popped get put dflt w a w' -> (forall r w0, q_store (put r w0) = q_store w0) ->
  stores_ok w = true -> stores_ok w' = true.
Proof.
  unfold stores_ok. intros [(r & _ & ->)|(_ & _ & ->)] Hput H.
  - rewrite Hput. exact H.
  - destruct w; exact H.
Qed.

Lemma persist_stores m w ok w' es :
  stores_ok w = true -> persist m w = (ok, w', es) ->
  ok = true /\ es = [EPersist (m_cur m) (m_data m) true] /\ stores_ok w' = true.
Proof.
  unfold persist, stores_ok. intros S H. wsym.
  match goal with P : Popped q_store _ _ _ _ _ |- _ => destruct P as [(r & Hq & ->)|(Hq & -> & ->)] end.
  - rewrite Hq in S. cbn [forallb] in S. apply andb_true_iff in S. destruct S as [-> S].
    split; [reflexivity|]. split; [reflexivity|]. destruct w; exact S.
  - split; [reflexivity|]. split; [reflexivity|]. destruct w; exact S.
Qed.

Section C17.
Variable tc : tl_consts.
Variable dec : string -> option (string * Z * Z).
Variable t : table.
Variable terminal : list string.

Lemma exec_send_cancel f d : exec tc dec (S f) (ANode "SendCancelAction" []) d = act_send_cancel d.
Proof. rewrite exec_S. reflexivity. Qed.

Lemma exec_cancel_action f d : exec tc dec (S f) (ANode "CancelAction" []) d = ret (Ev_Done, d).
Proof. rewrite exec_S. reflexivity. Qed.

Lemma is_action_inv s name : is_action t s name = true ->
  exists sd, lookup_state t s = Some sd /\ st_action sd = Some (ANode name []).
Proof.
  unfold is_action. destruct (lookup_state t s) as [sd|]; [|discriminate].
  destruct (st_action sd) as [[n [|c ch]]|] eqn:Ea; intros H; try discriminate H.
  apply String.eqb_eq in H. subst. eauto.
Qed.

Notation cancelled := (cancelled terminal).

Ltac ev_eqb H :=
  repeat match type of H with
  | context [String.eqb ?a ?b] =>
      let v := eval vm_compute in (String.eqb a b) in change (String.eqb a b) with v in H
  end.

Lemma cancel_path_run fuel m ev w m' res w' es :
  cancel_path t terminal (m_cur m) ev = true -> stores_ok w = true ->
  event_loop tc dec t (S (S fuel)) m ev w = ((m', res), w', es) ->
  cancelled m m' res es.
Proof.
  unfold cancel_path. intros Hc S H.
  destruct (next_state t (m_cur m) ev) as [c|] eqn:Hn; [|discriminate].
  apply andb_true_iff in Hc. destruct Hc as [Hac Hc].
  destruct (next_state t c Ev_Succeeded) as [x|] eqn:Hx; [|discriminate].
  destruct (next_state t c Ev_Failed) as [y|] eqn:Hy; [|discriminate].
  repeat (apply andb_true_iff in Hc; destruct Hc as [Hc ?]).
  apply is_action_inv in Hac. destruct Hac as (sdc & Hlc & Hactc).
  apply is_action_inv in Hc. destruct Hc as (sdx & Hlx & Hactx).
  match goal with X : is_action t y _ = true |- _ => apply is_action_inv in X; destruct X as (sdy & Hly & Hacty) end.
  rewrite event_loop_S in H. rewrite Hn, Hlc, Hactc in H. cbv zeta in H.
  rewrite action_fuel_eq in H. rewrite exec_send_cancel in H.
  apply bind_inv in H. destruct H as ([ev1 d1] & w1 & e1 & e2 & Hex & H & ->).
  unfold act_send_cancel in Hex.
  apply bind_inv in Hex. destruct Hex as (ok & wa & ea & eb & Hp & Hex & ->).
  apply pop_inv_w in Hp. destruct Hp as (-> & Hp).
  assert (S1 : stores_ok wa = true).
  { eapply stores_pop_other; [exact Hp| |exact S]. intros r w0. destruct w0; reflexivity. }
  apply bind_inv in Hex. destruct Hex as (u & wb & ec & ed & Hem & Hex & ->).
  apply emit_inv in Hem. destruct Hem as (-> & ->).
  (* both answers of the messenger lead to a finished state *)
  assert (Hboth : exists z sdz, (ev1 = Ev_Succeeded \/ ev1 = Ev_Failed) /\ d1 = (m_data m) <| d_fsm_state := c |> /\ w1 = wa /\
                   next_state t c ev1 = Some z /\ lookup_state t z = Some sdz /\
                   st_action sdz = Some (ANode "CancelAction" []) /\ is_finished terminal z = true).
  { destruct ok; apply ret_inv in Hex; destruct Hex as (Hr & -> & _); inversion Hr; subst.
    - exists x, sdx. repeat split; auto.
    - exists y, sdy. repeat split; auto. }
  destruct Hboth as (z & sdz & Hev & -> & -> & Hnz & Hlz & Hactz & Hfz).
  assert (Hex2 : ed = []) by (destruct ok; apply ret_inv in Hex; tauto). subst ed.
  assert (Hne : String.eqb ev1 Ev_Panic = false /\ String.eqb ev1 Ev_Done = false /\
                String.eqb ev1 Ev_NoOp = false /\ String.eqb ev1 Ev_Retry = false)
    by (destruct Hev as [-> | ->]; repeat split; reflexivity).
  destruct Hne as (N1 & N2 & N3 & N4). rewrite N1 in H.
  apply bind_inv in H. destruct H as (ok1 & w2 & e3 & e4 & Hp1 & H & ->).
  destruct (persist_stores _ _ _ _ _ S1 Hp1) as (-> & -> & S2). cbn [negb] in H.
  rewrite N2, N3, N4 in H.
  (* second transition: CancelAction *)
  rewrite event_loop_S in H. cbn [m_cur] in H.
  match type of H with context [next_state t ?cc ev1] => change cc with c in H end.
  rewrite Hnz, Hlz, Hactz in H. cbv zeta in H. rewrite action_fuel_eq, exec_cancel_action in H.
  apply bind_inv in H. destruct H as ([ev2 d2] & w3 & e5 & e6 & Hex3 & H & ->).
  apply ret_inv in Hex3. destruct Hex3 as (Hr & -> & ->). inversion Hr; subst ev2 d2; clear Hr.
  ev_eqb H. cbv iota in H.
  apply bind_inv in H. destruct H as (ok2 & w4 & e7 & e8 & Hp2 & H & ->).
  destruct (persist_stores _ _ _ _ _ S2 Hp2) as (-> & -> & S3). cbn [negb] in H.
  apply ret_inv in H. destruct H as (Hr & -> & ->). inversion Hr; subst m' res; clear Hr.
  unfold cancelled. split; [reflexivity|]. split; [exact Hfz|]. split; [|split].
  - cbn. rewrite String.eqb_refl. reflexivity.
  - intros acc. cbn. reflexivity.
  - reflexivity.
Qed.

Lemma ptl_cancel m ev w m' res w' es :
  cancel_path t terminal (m_cur m) ev = true -> stores_ok w = true ->
  persist_then_loop tc dec t m ev w = ((m', res), w', es) -> cancelled m m' res es.
Proof.
  intros Hc S H. unfold persist_then_loop in H.
  apply bind_inv in H. destruct H as (ok & w1 & e1 & e2 & Hp & H & ->).
  destruct (persist_stores _ _ _ _ _ S Hp) as (-> & -> & S1). cbn [negb] in H.
  rewrite loop_fuel_eq in H.
  destruct (cancel_path_run _ _ _ _ _ _ _ _ Hc S1 H) as (A & B & C & D & E).
  unfold cancelled. split; [exact A|]. split; [exact B|]. split; [|split].
  - cbn. exact C.
  - intros acc. rewrite lastp_app. apply D.
  - cbn. exact E.
Qed.

(* the timer fires in a negotiation wait *)
Theorem timeout_cancels m w o w' es :
  c17_wait_ok t terminal (m_cur m) = true -> stores_ok w = true ->
  step tc dec t terminal m InTimeout w = (o, w', es) ->
  o_removed o = true /\ cancelled m (o_machine o) (o_result o) es.
Proof.
  unfold c17_wait_ok. intros Hc S H. repeat (apply andb_true_iff in Hc; destruct Hc as [Hc ?]).
  unfold step in H. apply bind_inv in H. destruct H as ([m1 res] & w1 & e1 & e2 & Hs & H & ->).
  apply ret_inv in H. destruct H as (-> & _ & ->). rewrite app_nil_r. cbn [o_removed o_machine o_result].
  unfold send_event in Hs. change (String.eqb Ev_Timeout Ev_Done) with false in Hs. cbv iota in Hs.
  destruct (next_state t (m_cur m) Ev_Timeout) eqn:Hnx; [|unfold cancel_path in Hc; rewrite Hnx in Hc; discriminate Hc].
  pose proof (ptl_cancel _ _ _ _ _ _ _ Hc S Hs) as Hcan. split; [|exact Hcan].
  destruct Hcan as (-> & _). reflexivity.
Qed.

(* the node restarts in a negotiation wait *)
Theorem restart_cancels m w o w' es :
  c17_wait_ok t terminal (m_cur m) = true -> is_finished terminal (m_cur m) = false -> stores_ok w = true ->
  step tc dec t terminal m InRecover w = (o, w', es) ->
  o_removed o = true /\ cancelled m (o_machine o) (o_result o) es.
Proof.
  unfold c17_wait_ok. intros Hc Hnf S H. repeat (apply andb_true_iff in Hc; destruct Hc as [Hc ?]).
  unfold step in H. rewrite Hnf in H.
  apply bind_inv in H. destruct H as ([m1 res] & w1 & e1 & e2 & Hs & H & ->).
  apply ret_inv in H. destruct H as (-> & _ & ->). rewrite app_nil_r. cbn [o_removed o_machine o_result].
  unfold recover in Hs.
  match goal with X : has_action t _ = true |- _ => unfold has_action in X end.
  match goal with X : fails_on_recover t _ = true |- _ => unfold fails_on_recover in X end.
  destruct (lookup_state t (m_cur m)) as [sd|]; [|discriminate].
  destruct (st_action sd) as [act|]; [|discriminate].
  match goal with X : st_fail_on_recover sd = true |- _ => rewrite X in Hs end.
  unfold send_event in Hs. change (String.eqb Ev_Failed Ev_Done) with false in Hs. cbv iota in Hs.
  destruct (next_state t (m_cur m) Ev_Failed) eqn:Hnx;
    [|match goal with X : cancel_path t terminal (m_cur m) Ev_Failed = true |- _ =>
        unfold cancel_path in X; rewrite Hnx in X; discriminate X end].
  match goal with X : cancel_path t terminal (m_cur m) Ev_Failed = true |- _ =>
    pose proof (ptl_cancel _ _ _ _ _ _ _ X S Hs) as Hcan end.
  split; [|exact Hcan]. destruct Hcan as (-> & _). reflexivity.
Qed.

(* ---------- the timers are armed where the waits begin ---------- *)
Lemma request_arms_timer d w d' w' es :
  act_create_swap_request tc d w = ((Ev_Succeeded, d'), w', es) -> In EArmTimer es.
Proof.
  intros H. autounfold with actions in H. msym; list_simpl; cbn; auto; discriminate.
Qed.

Lemma fee_invoice_arms_timer d w d' w' es :
  act_create_swap_out_from_request tc d w = ((Ev_Succeeded, d'), w', es) ->
  In EArmTimer es /\ exists msat pre, In (EMkInvoice PKFee msat pre c17_timeout_s 0) es.
Proof.
  intros H. autounfold with actions in H. msym; list_simpl; try discriminate.
  split; [cbn; auto|]. eexists; eexists. cbn. left. reflexivity.
Qed.

End C17.

(* ---------- the generated tables ---------- *)
Lemma gen_waits_ok :
  forallb (fun p => c17_wait_ok (fst p) terminal_states (snd p) && negb (is_finished terminal_states (snd p))) c17_wait_tables = true.
Proof. vm_compute. reflexivity. Qed.

Lemma gen_wait_ok t s : In (t, s) c17_wait_tables ->
  c17_wait_ok t terminal_states s = true /\ is_finished terminal_states s = false.
Proof.
  intros Hin. pose proof gen_waits_ok as H. rewrite forallb_forall in H. specialize (H _ Hin). cbn [fst snd] in H.
  apply andb_true_iff in H. destruct H as [H1 H2]. apply negb_true_iff in H2. auto.
Qed.

Theorem c17_full_holds :
  (forall t s, In (t, s) c17_wait_tables ->
     forall dec m w o w' es, m_cur m = s -> stores_ok w = true ->
       (step tl_consts_gen dec t terminal_states m InTimeout w = (o, w', es) \/
        step tl_consts_gen dec t terminal_states m InRecover w = (o, w', es)) ->
       o_removed o = true /\ cancelled terminal_states m (o_machine o) (o_result o) es) /\
  (forall d w d' w' es, act_create_swap_request tl_consts_gen d w = ((Ev_Succeeded, d'), w', es) -> In EArmTimer es) /\
  (forall d w d' w' es, act_create_swap_out_from_request tl_consts_gen d w = ((Ev_Succeeded, d'), w', es) ->
     In EArmTimer es /\ exists msat pre, In (EMkInvoice PKFee msat pre c17_timeout_s 0) es) /\
  c17_timeout_s = 10 * 60.
Proof.
  split; [|split; [|split]].
  - intros t s Hin dec m w o w' es Hs S [H|H]; destruct (gen_wait_ok _ _ Hin) as [Hok Hnf]; rewrite <- Hs in Hok, Hnf.
    + eapply timeout_cancels; eauto.
    + eapply restart_cancels; eauto.
  - apply request_arms_timer.
  - apply fee_invoice_arms_timer.
  - reflexivity.
Qed.

Theorem c17_hist : forall t s, In (t, s) c17_wait_tables ->
  forall dec m0 its i w,
    let h := run_hist tl_consts_gen dec t terminal_states (init_hstate m0) its in
    (i = InTimeout \/ i = InRecover) -> stores_ok w = true ->
    forall m, (if is_recover i then match hs_machine h with Some mh => restore mh (hs_trace h) | None => None end
               else hs_machine h) = Some m -> m_cur m = s ->
    let h' := hist_step tl_consts_gen dec t terminal_states h (HStep i w) in
    exists m' es, hs_machine h' = Some m' /\ hs_trace h' = (hs_trace h ++ es)%list /\
                  is_finished terminal_states (m_cur m') = true /\
                  existsb (is_cancel_to (d_peer (m_data m))) es = true.
Proof.
  intros t s Hin dec m0 its i w h Hi S m Hm Hs h'.
  destruct (gen_wait_ok _ _ Hin) as [Hok Hnf]. rewrite <- Hs in Hok, Hnf.
  subst h'. unfold hist_step.
  destruct (hs_machine h) as [mh|] eqn:Hmh.
  2:{ destruct Hi as [-> | ->]; cbn in Hm; discriminate. }
  destruct Hi as [-> | ->]; cbn [is_recover item_input] in *.
  - inversion Hm; subst mh.
    destruct (run_step tl_consts_gen dec t terminal_states m InTimeout w) as [[o w'] es] eqn:Hst.
    destruct (timeout_cancels _ _ _ _ _ _ _ _ _ Hok S Hst) as (_ & _ & B & C & _).
    exists (o_machine o), es. cbn. auto.
  - rewrite Hm.
    destruct (run_step tl_consts_gen dec t terminal_states m InRecover w) as [[o w'] es] eqn:Hst.
    destruct (restart_cancels _ _ _ _ _ _ _ _ _ Hok Hnf S Hst) as (_ & _ & B & C & _).
    exists (o_machine o), es. cbn. auto.
Qed.

(* non-vacuity: a swap-out requester without an answer, a world whose store works *)
Example ex_timeout :
  let rq := mkReq 7 "id" "regtest" "" "1x2x3" 100000 "03aa" 1000 in
  let d := mkData None None (Some rq) None None None None "peer" "me" "key" "" 0 "" 0 false "" "" "" "" (Some (MOutReq rq))
                  "State_SwapOutSender_AwaitAgreement" in
  let m := mkMachine "id" 2 1 "State_SwapOutSender_AwaitAgreement" "" d 0 in
  let w := mkWorld true true true 0 true false "" "regtest" None "" [] [] [true] [true; true; true] [] [] [] [] [] [] [] [] [] [] [] [] [] [] [] [] false in
  let '(o, _, es) := run_step tl_consts_gen (fun _ => None) table_swap_out_sender terminal_states m InTimeout w in
  m_cur (o_machine o) = "State_SwapCanceled"%string /\ o_removed o = true /\
  existsb (is_cancel_to "peer") es = true /\ stores_ok w = true.
Proof. vm_compute. auto. Qed.
