(* Lemmas for C25: the file edits of policy.go refine an abstract policy machine
   on canonical files; the file always parses back to the policy in memory. *)
From Coq Require Import String Ascii ZArith NArith Bool Lia ZifyBool ZifyNat ZifyN List.
From PS Require Import Base.Strs Base.Corr Model.Ini Model.Policy Gen.ConstsPolicy Model.C25Corr.
Import ListNotations.
Open Scope string_scope.

(* ---------- constants the property names are the ones in the code ---------- *)
Lemma gen_policy_constants :
  line_allow_prefix = "allowlisted_peers=" /\ line_susp_prefix = "suspicious_peers=" /\
  file_after_disable = add_line "" line_swaps_false /\
  file_after_disable_enable = add_line "" line_swaps_true /\
  pubkey_lengths = [66%nat] /\ pubkey_alphabet = "0123456789abcdef" /\
  lookup_key "allowlisted_peers" = KField FAllow /\ lookup_key "suspicious_peers" = KField FSusp /\
  lookup_key "allow_new_swaps" = KField FAllowNew /\
  default_policy_allow = [] /\ default_policy_susp = [] /\ default_policy_allow_new = true.
Proof. repeat split; reflexivity. Qed.

(* ---------- strings and lines ---------- *)
Lemma app_assoc_s (a b c : string) : (a ++ b) ++ c = a ++ (b ++ c).
Proof. induction a as [|x a IH]; simpl; [reflexivity | now rewrite IH]. Qed.

Lemma ends_nl_cons2 a c r : ends_nl (String a (String c r)) = ends_nl (String c r).
Proof. reflexivity. Qed.

Lemma lines_nil_inv s : lines s = [] -> s = "".
Proof.
  destruct s as [|a s]; simpl; [reflexivity|].
  destruct (Ascii.eqb a nl); [discriminate|]. destruct (lines s); discriminate.
Qed.

Lemma lines_cons_eq a s :
  lines (String a s) =
  if Ascii.eqb a nl then "" :: lines s
  else match lines s with [] => [String a ""] | t :: ts => String a t :: ts end.
Proof. reflexivity. Qed.

Lemma lines_app f g : ends_nl f = true -> lines (f ++ g) = (lines f ++ lines g)%list.
Proof.
  induction f as [|a f IH]; intros H; [reflexivity|].
  destruct f as [|c f'].
  - simpl in H. simpl append. rewrite !lines_cons_eq. rewrite H. reflexivity.
  - rewrite ends_nl_cons2 in H. specialize (IH H).
    change (String a (String c f') ++ g) with (String a (String c f' ++ g)).
    rewrite (lines_cons_eq a (String c f' ++ g)), (lines_cons_eq a (String c f')). rewrite IH.
    destruct (Ascii.eqb a nl); [reflexivity|].
    destruct (lines (String c f')) eqn:E; [apply lines_nil_inv in E; discriminate|]. reflexivity.
Qed.

Lemma lines_cons t s : contains_char nl t = false -> lines (t ++ String nl s) = t :: lines s.
Proof.
  induction t as [|a t IH]; intros H.
  - simpl append. rewrite lines_cons_eq. reflexivity.
  - simpl in H. apply orb_false_iff in H. destruct H as [Ha Ht].
    simpl append. rewrite lines_cons_eq, Ha, (IH Ht). reflexivity.
Qed.

Lemma lines_unlines ts :
  Forall (fun t => contains_char nl t = false) ts -> lines (unlines ts) = ts.
Proof.
  induction 1 as [|t ts Ht _ IH]; [reflexivity|]. simpl unlines. rewrite lines_cons by exact Ht. now rewrite IH.
Qed.

Lemma lines_no_nl f : Forall (fun t => contains_char nl t = false) (lines f).
Proof.
  induction f as [|a f IH]; [constructor|]. rewrite lines_cons_eq.
  destruct (Ascii.eqb a nl) eqn:E.
  - constructor; [reflexivity | exact IH].
  - destruct (lines f) as [|t ts]; constructor; simpl; try rewrite E; try reflexivity.
    + constructor.
    + inversion IH; subst; assumption.
    + inversion IH; subst; assumption.
Qed.

Lemma drop_cr_cons2 a c r : drop_cr (String a (String c r)) = String a (drop_cr (String c r)).
Proof. reflexivity. Qed.

Lemma drop_cr_no_nl t : contains_char nl t = false -> contains_char nl (drop_cr t) = false.
Proof.
  induction t as [|a t IH]; intros H; [reflexivity|].
  destruct t as [|c t'].
  - simpl. destruct (Ascii.eqb a cr); [reflexivity | exact H].
  - rewrite drop_cr_cons2. simpl in H. apply orb_false_iff in H. destruct H as [Ha Ht].
    simpl. rewrite Ha. apply IH. exact Ht.
Qed.

Lemma ends_nl_app_char t c s : ends_nl (t ++ String c s) = ends_nl (String c s).
Proof.
  induction t as [|a t IH]; [reflexivity|]. simpl append.
  destruct (t ++ String c s) eqn:E; [destruct t; discriminate|]. rewrite ends_nl_cons2. exact IH.
Qed.

Lemma ends_nl_add_line f l : ends_nl (add_line f l) = true.
Proof.
  unfold add_line. rewrite <- !app_assoc_s. rewrite ends_nl_app_char. reflexivity.
Qed.

Lemma lines_app_nl f g : ends_nl f = false -> lines (f ++ String nl g) = (lines f ++ lines g)%list.
Proof.
  induction f as [|a f IH]; intros H; [discriminate|].
  destruct f as [|c f'].
  - simpl in H. simpl append. rewrite (lines_cons_eq a (String nl g)), H.
    rewrite (lines_cons_eq nl g). simpl. rewrite H. reflexivity.
  - rewrite ends_nl_cons2 in H. specialize (IH H).
    change (String a (String c f') ++ String nl g) with (String a (String c f' ++ String nl g)).
    rewrite (lines_cons_eq a (String c f' ++ String nl g)), (lines_cons_eq a (String c f')). rewrite IH.
    destruct (Ascii.eqb a nl); [reflexivity|].
    destruct (lines (String c f')) eqn:E; [apply lines_nil_inv in E; discriminate|]. reflexivity.
Qed.

Lemma ends_nl_unlines ts : ends_nl (unlines ts) = true.
Proof.
  induction ts as [|t ts IH]; [reflexivity|]. simpl unlines. rewrite ends_nl_app_char.
  destruct (unlines ts) eqn:E; [reflexivity|]. rewrite ends_nl_cons2. exact IH.
Qed.

(* F1: addLineToFile adds exactly that line, whether or not the file ended in a newline *)
Lemma lines_add_line f l :
  contains_char nl l = false -> lines (add_line f l) = (lines f ++ [l])%list.
Proof.
  intros Hl. unfold add_line. destruct (ends_nl f) eqn:Hf.
  - simpl append. rewrite lines_app by exact Hf. rewrite (lines_cons l "" Hl). reflexivity.
  - change (String nl "" ++ l ++ String nl "") with (String nl (l ++ String nl "")).
    rewrite lines_app_nl by exact Hf. rewrite (lines_cons l "" Hl). reflexivity.
Qed.

(* F2: removeLineFromFile keeps exactly the scanner tokens different from the line *)
Lemma lines_remove_line f l :
  lines (remove_line f l) = filter (fun t => negb (String.eqb t l)) (map drop_cr (lines f)).
Proof.
  unfold remove_line, scan_lines. apply lines_unlines.
  assert (H : Forall (fun t => contains_char nl t = false) (map drop_cr (lines f))).
  { pose proof (lines_no_nl f) as H. induction H; simpl; constructor; auto using drop_cr_no_nl. }
  induction H as [|t ts Ht _ IH]; simpl; [constructor|].
  destruct (negb (t =? l)%string); [constructor; assumption | assumption].
Qed.

(* ---------- trimming ---------- *)
Lemma trim_right_cons a r :
  trim_right (String a r) =
  match trim_right r with
  | EmptyString => if is_space a then EmptyString else String a EmptyString
  | r' => String a r'
  end.
Proof. reflexivity. Qed.

Lemma trim_left_cons a r : trim_left (String a r) = if is_space a then trim_left r else String a r.
Proof. reflexivity. Qed.

Lemma trim_right_drop_cr s : trim_right (drop_cr s) = trim_right s.
Proof.
  induction s as [|a s IH]; [reflexivity|].
  destruct s as [|c s'].
  - simpl. destruct (Ascii.eqb a cr) eqn:E; [|reflexivity].
    apply Ascii.eqb_eq in E. subst a. reflexivity.
  - rewrite drop_cr_cons2. rewrite (trim_right_cons a (drop_cr (String c s'))), IH.
    rewrite (trim_right_cons a (String c s')). reflexivity.
Qed.

Lemma trim_left_drop_cr s : trim_left (drop_cr s) = drop_cr (trim_left s).
Proof.
  induction s as [|a s IH]; [reflexivity|].
  destruct s as [|c s'].
  - simpl. destruct (Ascii.eqb a cr) eqn:E.
    + apply Ascii.eqb_eq in E. subst a. reflexivity.
    + simpl. destruct (is_space a); [reflexivity|]. simpl. rewrite E. reflexivity.
  - rewrite drop_cr_cons2. rewrite (trim_left_cons a (drop_cr (String c s'))), (trim_left_cons a (String c s')).
    destruct (is_space a); [exact IH|]. rewrite drop_cr_cons2. reflexivity.
Qed.

Lemma trim_drop_cr s : trim (drop_cr s) = trim s.
Proof. unfold trim. rewrite trim_left_drop_cr, trim_right_drop_cr. reflexivity. Qed.

Lemma parse_line_drop_cr t : parse_line (drop_cr t) = parse_line t.
Proof. unfold parse_line. rewrite trim_drop_cr. reflexivity. Qed.

Definition nospace (s : string) : bool := forallb (fun c => negb (is_space c)) (chars s).

Lemma trim_right_nospace s : nospace s = true -> trim_right s = s.
Proof.
  unfold nospace. induction s as [|a s IH]; [reflexivity|]. simpl. intros H.
  apply andb_true_iff in H. destruct H as [Ha Hs]. rewrite (IH Hs).
  destruct s; [|reflexivity]. apply negb_true_iff in Ha. rewrite Ha. reflexivity.
Qed.

Lemma trim_right_app a s : trim_right s = s -> s <> "" -> trim_right (a ++ s) = a ++ s.
Proof.
  intros Hs Hne. induction a as [|x a IH]; [exact Hs|]. simpl. rewrite IH.
  destruct (a ++ s) eqn:E; [destruct a; simpl in E; [contradiction | discriminate]|]. reflexivity.
Qed.

Lemma trim_right_fix_drop_cr s : trim_right s = s -> drop_cr s = s.
Proof.
  induction s as [|a s IH]; [reflexivity|]. intros H.
  destruct s as [|c s'].
  - simpl in H. simpl. destruct (Ascii.eqb a cr) eqn:E; [|reflexivity].
    apply Ascii.eqb_eq in E. subst a. discriminate.
  - rewrite drop_cr_cons2. f_equal. apply IH.
    rewrite trim_right_cons in H. destruct (trim_right (String c s')) eqn:E.
    + destruct (is_space a); discriminate.
    + inversion H. reflexivity.
Qed.

Lemma hex_not_space c : is_hex_lower c = true -> is_space c = false.
Proof. unfold is_hex_lower, is_space. generalize (N_of_ascii c). intros n. lia. Qed.

Lemma hex_not_special c : is_hex_lower c = true ->
  Ascii.eqb c ch_quote = false /\ Ascii.eqb c nl = false /\ Ascii.eqb c cr = false.
Proof.
  intros H. repeat split; apply Ascii.eqb_neq; intros ->; discriminate.
Qed.

Lemma valid_pubkey_facts pk : valid_pubkey pk = true ->
  exists c r, pk = String c r /\ is_hex_lower c = true /\ nospace pk = true /\ contains_char nl pk = false.
Proof.
  unfold valid_pubkey. intros H. apply andb_true_iff in H. destruct H as [Hl Hh].
  destruct pk as [|c r]; [discriminate|]. exists c, r. split; [reflexivity|].
  assert (G : forall s, forallb is_hex_lower (chars s) = true -> nospace s = true /\ contains_char nl s = false).
  { clear. unfold nospace. induction s as [|a s IH]; simpl; [auto|]. intros H.
    apply andb_true_iff in H. destruct H as [Ha Hs]. destruct (IH Hs) as [I1 I2].
    rewrite I1, I2, (hex_not_space _ Ha). destruct (hex_not_special _ Ha) as (_ & -> & _). auto. }
  simpl in Hh. apply andb_true_iff in Hh. destruct Hh as [Hc Hr].
  split; [exact Hc|]. apply G. simpl. now rewrite Hc, Hr.
Qed.

(* ---------- the lines the operations write parse to what they mean ---------- *)
Lemma trim_written P pk : (* P a concrete prefix handled by computation at use sites *)
  valid_pubkey pk = true -> trim_right (P ++ pk) = P ++ pk.
Proof.
  intros H. destruct (valid_pubkey_facts pk H) as (c & r & -> & _ & Hns & _).
  apply trim_right_app; [apply trim_right_nospace; exact Hns | discriminate].
Qed.

Lemma parse_line_allow pk : valid_pubkey pk = true ->
  parse_line (line_allow pk) = LKV "allowlisted_peers" pk.
Proof.
  intros H. pose proof (trim_written "allowlisted_peers=" pk H) as T.
  destruct (valid_pubkey_facts pk H) as (c & r & E & Hc & Hns & _).
  unfold parse_line, trim, line_allow. change line_allow_prefix with "allowlisted_peers=".
  change (trim_left ("allowlisted_peers=" ++ pk)) with ("allowlisted_peers=" ++ pk). rewrite T.
  change (split_eq ("allowlisted_peers=" ++ pk)) with (Some ("allowlisted_peers", pk)).
  cbn beta iota delta [append Ascii.eqb ch_semi ch_hash ch_lbr Bool.eqb orb].
  assert (Tp : trim_right (trim_left pk) = pk).
  { subst pk. rewrite trim_left_cons, (hex_not_space _ Hc). apply trim_right_nospace; exact Hns. }
  rewrite Tp. subst pk. destruct (hex_not_special _ Hc) as (-> & _ & _). reflexivity.
Qed.

Lemma parse_line_susp pk : valid_pubkey pk = true ->
  parse_line (line_susp pk) = LKV "suspicious_peers" pk.
Proof.
  intros H. pose proof (trim_written "suspicious_peers=" pk H) as T.
  destruct (valid_pubkey_facts pk H) as (c & r & E & Hc & Hns & _).
  unfold parse_line, trim, line_susp. change line_susp_prefix with "suspicious_peers=".
  change (trim_left ("suspicious_peers=" ++ pk)) with ("suspicious_peers=" ++ pk). rewrite T.
  change (split_eq ("suspicious_peers=" ++ pk)) with (Some ("suspicious_peers", pk)).
  cbn beta iota delta [append Ascii.eqb ch_semi ch_hash ch_lbr Bool.eqb orb].
  assert (Tp : trim_right (trim_left pk) = pk).
  { subst pk. rewrite trim_left_cons, (hex_not_space _ Hc). apply trim_right_nospace; exact Hns. }
  rewrite Tp. subst pk. destruct (hex_not_special _ Hc) as (-> & _ & _). reflexivity.
Qed.

Lemma drop_cr_line_allow pk : valid_pubkey pk = true -> drop_cr (line_allow pk) = line_allow pk.
Proof. intros H. apply trim_right_fix_drop_cr. apply (trim_written "allowlisted_peers=" pk H). Qed.
Lemma drop_cr_line_susp pk : valid_pubkey pk = true -> drop_cr (line_susp pk) = line_susp pk.
Proof. intros H. apply trim_right_fix_drop_cr. apply (trim_written "suspicious_peers=" pk H). Qed.

Lemma no_nl_line_allow pk : valid_pubkey pk = true -> contains_char nl (line_allow pk) = false.
Proof.
  intros H. destruct (valid_pubkey_facts pk H) as (c & r & _ & _ & _ & Hn).
  unfold line_allow. change line_allow_prefix with "allowlisted_peers=". simpl. exact Hn.
Qed.
Lemma no_nl_line_susp pk : valid_pubkey pk = true -> contains_char nl (line_susp pk) = false.
Proof.
  intros H. destruct (valid_pubkey_facts pk H) as (c & r & _ & _ & _ & Hn).
  unfold line_susp. change line_susp_prefix with "suspicious_peers=". simpl. exact Hn.
Qed.

(* ---------- canonical files: everything outside the known defect patterns ---------- *)
Definition line_ok (t : string) : bool :=
  match parse_line t with
  | LHeader _ => false           (* known finding: appended lines fall into the section *)
  | LUnsup => false              (* outside the modelled INI subset *)
  | LKV k v =>
      match lookup_key k with
      | KField FAllow =>           (* known finding: removal compares text *)
          String.eqb (drop_cr t) (line_allow v) && String.eqb (drop_cr (line_allow v)) (line_allow v)
      | KField FSusp =>
          String.eqb (drop_cr t) (line_susp v) && String.eqb (drop_cr (line_susp v)) (line_susp v)
      | KUnsup => false
      | _ => true
      end
  | _ => true
  end.

Definition canonical (f : string) : bool := forallb line_ok (lines f).

Lemma lk_allow : lookup_key "allowlisted_peers" = KField FAllow. Proof. reflexivity. Qed.
Lemma lk_susp : lookup_key "suspicious_peers" = KField FSusp. Proof. reflexivity. Qed.
Lemma lk_new : lookup_key "allow_new_swaps" = KField FAllowNew. Proof. reflexivity. Qed.

Lemma line_ok_drop_cr t : line_ok t = true -> line_ok (drop_cr t) = true.
Proof.
  unfold line_ok. rewrite parse_line_drop_cr.
  destruct (parse_line t) as [|n|k v| |]; auto. destruct (lookup_key k) as [|f|]; auto.
  destruct f; auto; intros H; apply andb_true_iff in H; destruct H as [H1 H2];
    apply String.eqb_eq in H1; apply String.eqb_eq in H2; rewrite H1, H2, String.eqb_refl; reflexivity.
Qed.

Lemma line_ok_filter g ls :
  forallb line_ok ls = true -> forallb line_ok (filter g (map drop_cr ls)) = true.
Proof.
  induction ls as [|t r IH]; intros H; [reflexivity|]. simpl in H. apply andb_true_iff in H.
  destruct H as [Ht Hr]. simpl. destruct (g (drop_cr t)); simpl; [rewrite (line_ok_drop_cr _ Ht)|]; auto.
Qed.

Lemma line_ok_allow pk : valid_pubkey pk = true -> line_ok (line_allow pk) = true.
Proof.
  intros H. unfold line_ok. rewrite (parse_line_allow pk H), lk_allow.
  rewrite (drop_cr_line_allow pk H), String.eqb_refl. reflexivity.
Qed.
Lemma line_ok_susp pk : valid_pubkey pk = true -> line_ok (line_susp pk) = true.
Proof.
  intros H. unfold line_ok. rewrite (parse_line_susp pk H), lk_susp.
  rewrite (drop_cr_line_susp pk H), String.eqb_refl. reflexivity.
Qed.

Lemma parse_lines_app p ls ls' : forallb line_ok ls = true ->
  parse_lines true p (ls ++ ls')%list =
  match parse_lines true p ls with POk q => parse_lines true q ls' | r => r end.
Proof.
  revert p. induction ls as [|t r IH]; intros p H; [reflexivity|].
  simpl in H. apply andb_true_iff in H. destruct H as [Ht Hr]. simpl.
  unfold line_ok in Ht. destruct (parse_line t) as [|n|k v| |]; try discriminate; auto.
  destruct (lookup_key k) as [|f|]; try discriminate; auto.
  destruct (set_field f v p); auto.
Qed.

(* ---------- removing a peer line = removing the peer from the parsed list ---------- *)
Definition get_l (w : bool) (p : policy) : list string := if w then p_allow p else p_susp p.
Definition upd_l (w : bool) (p : policy) (l : list string) : policy := if w then with_allow p l else with_susp p l.
Definition line_w (w : bool) (pk : string) : string := if w then line_allow pk else line_susp pk.
Definition rem_l (w : bool) (pk : string) (p : policy) : policy := upd_l w p (without pk (get_l w p)).

Lemma without_app_same pk l : without pk (l ++ [pk])%list = without pk l.
Proof. unfold without. rewrite filter_app. simpl. rewrite String.eqb_refl. simpl. apply app_nil_r. Qed.

Lemma without_app_other pk v l : v <> pk -> without pk (l ++ [v])%list = (without pk l ++ [v])%list.
Proof.
  intros H. unfold without. rewrite filter_app. simpl.
  destruct (String.eqb v pk) eqn:E; [apply String.eqb_eq in E; contradiction | reflexivity].
Qed.

Lemma parse_remove w pk : valid_pubkey pk = true ->
  forall ls, forallb line_ok ls = true ->
  forall p q, parse_lines true p ls = POk q ->
  parse_lines true (rem_l w pk p)
    (filter (fun t => negb (String.eqb t (line_w w pk))) (map drop_cr ls)) = POk (rem_l w pk q).
Proof.
  intros Hv. induction ls as [|t r IH]; intros Hok p q H.
  - simpl in *. inversion H. reflexivity.
  - simpl in Hok. apply andb_true_iff in Hok. destruct Hok as [Ht Hr].
    simpl map. simpl filter. simpl in H.
    destruct (String.eqb (drop_cr t) (line_w w pk)) eqn:E; simpl negb; cbv iota.
    + apply String.eqb_eq in E.
      assert (PL : parse_line t = LKV (if w then "allowlisted_peers" else "suspicious_peers") pk).
      { rewrite <- parse_line_drop_cr, E. destruct w; [apply parse_line_allow | apply parse_line_susp]; exact Hv. }
      rewrite PL in H. destruct w.
      * rewrite lk_allow in H. simpl in H. apply (IH Hr) in H. rewrite <- H. f_equal.
        unfold rem_l, upd_l, get_l, with_allow. simpl. rewrite without_app_same. reflexivity.
      * rewrite lk_susp in H. simpl in H. apply (IH Hr) in H. rewrite <- H. f_equal.
        unfold rem_l, upd_l, get_l, with_susp. simpl. rewrite without_app_same. reflexivity.
    + simpl parse_lines. rewrite parse_line_drop_cr. unfold line_ok in Ht.
      destruct (parse_line t) as [|n|k v| |] eqn:PL; try discriminate.
      * apply IH; assumption.
      * destruct (lookup_key k) as [|f|] eqn:LK; try discriminate.
        -- apply IH; assumption.
        -- destruct (set_field f v p) as [p'|] eqn:SF; [|discriminate].
           assert (S' : set_field f v (rem_l w pk p) = Some (rem_l w pk p')).
           { destruct f, w; simpl in SF;
               try (destruct (parse_u64 v) eqn:PU; [|discriminate]); try (destruct (parse_bool v) eqn:PB; [|discriminate]);
               inversion SF; subst p'; unfold rem_l, upd_l, get_l, with_allow, with_susp; simpl;
               try rewrite PB; try rewrite PU; try reflexivity.
             - apply andb_true_iff in Ht. destruct Ht as [H1 _]. apply String.eqb_eq in H1.
               rewrite without_app_other; [reflexivity|]. intros ->. simpl in E. rewrite H1, String.eqb_refl in E. discriminate.
             - apply andb_true_iff in Ht. destruct Ht as [H1 _]. apply String.eqb_eq in H1.
               rewrite without_app_other; [reflexivity|]. intros ->. simpl in E. rewrite H1, String.eqb_refl in E. discriminate. }
           rewrite S'. apply IH; assumption.
Qed.

(* ---------- removing allow_new_swaps lines only affects that flag ---------- *)
Lemma parse_remove_flag line :
  (exists v b, parse_line line = LKV "allow_new_swaps" v /\ parse_bool v = Some b) ->
  forall ls, forallb line_ok ls = true ->
  forall p q, parse_lines true p ls = POk q ->
  forall b1, exists b2,
    parse_lines true (with_new p b1) (filter (fun t => negb (String.eqb t line)) (map drop_cr ls)) = POk (with_new q b2).
Proof.
  intros (lv & lb & HL & HB). induction ls as [|t r IH]; intros Hok p q H b1.
  - simpl in *. inversion H. exists b1. reflexivity.
  - simpl in Hok. apply andb_true_iff in Hok. destruct Hok as [Ht Hr].
    simpl map. simpl filter. simpl in H.
    destruct (String.eqb (drop_cr t) line) eqn:E; simpl negb; cbv iota.
    + apply String.eqb_eq in E.
      assert (PL : parse_line t = LKV "allow_new_swaps" lv) by (rewrite <- parse_line_drop_cr, E; exact HL).
      rewrite PL, lk_new in H. simpl in H. rewrite HB in H.
      destruct (IH Hr _ _ H b1) as (b2 & G). exists b2. exact G.
    + simpl parse_lines. rewrite parse_line_drop_cr. unfold line_ok in Ht.
      destruct (parse_line t) as [|n|k v| |] eqn:PL; try discriminate.
      * apply IH; assumption.
      * destruct (lookup_key k) as [|f|] eqn:LK; try discriminate.
        -- apply IH; assumption.
        -- destruct (set_field f v p) as [p'|] eqn:SF; [|discriminate].
           assert (S' : exists b1', set_field f v (with_new p b1) = Some (with_new p' b1')).
           { destruct f; simpl in SF;
               try (destruct (parse_u64 v) eqn:PU; [|discriminate]); try (destruct (parse_bool v) eqn:PB; [|discriminate]);
               inversion SF; subst p'; unfold with_new; simpl; try rewrite PB; try rewrite PU; eexists; reflexivity. }
           destruct S' as (b1' & S'). rewrite S'. apply IH; assumption.
Qed.

(* ---------- the operations on canonical files ---------- *)
Definition Inv (s : st) : Prop :=
  canonical (s_file s) = true /\ parse_file (s_file s) = POk (s_mem s).

Lemma hex_spec c :
  is_hex_lower c =
  str_in (String c "") ["0";"1";"2";"3";"4";"5";"6";"7";"8";"9";"a";"b";"c";"d";"e";"f"].
Proof. destruct c as [[] [] [] [] [] [] [] []]; reflexivity. Qed.

Lemma valid_spec s : valid_pubkey s = spec_valid_pubkey s.
Proof.
  unfold valid_pubkey, spec_valid_pubkey. f_equal.
  induction (chars s) as [|c r IH]; [reflexivity|]. simpl forallb. rewrite IH, hex_spec. reflexivity.
Qed.

Lemma canonical_split f : canonical f = true -> forallb line_ok (lines f) = true.
Proof. unfold canonical. intros H. exact H. Qed.

Lemma reload_ok f m p : parse_file f = POk p -> reload f m = (false, mkSt f p).
Proof. unfold reload. intros ->. reflexivity. Qed.

Lemma add_refines w f m pk :
  canonical f = true -> parse_file f = POk m -> valid_pubkey pk = true ->
  let f' := add_line f (line_w w pk) in
  canonical f' = true /\ parse_file f' = POk (upd_l w m (get_l w m ++ [pk])%list).
Proof.
  intros Hc Hp Hv f'. pose proof (canonical_split _ Hc) as Hl.
  assert (Hn : contains_char nl (line_w w pk) = false) by (destruct w; [apply no_nl_line_allow | apply no_nl_line_susp]; exact Hv).
  assert (Hk : line_ok (line_w w pk) = true) by (destruct w; [apply line_ok_allow | apply line_ok_susp]; exact Hv).
  assert (L : lines f' = (lines f ++ [line_w w pk])%list) by (apply lines_add_line; assumption).
  split.
  - unfold canonical. rewrite L, forallb_app, Hl. simpl. rewrite Hk. reflexivity.
  - unfold parse_file in *. rewrite L, parse_lines_app by exact Hl. rewrite Hp.
    destruct w; simpl line_w; simpl parse_lines.
    + rewrite (parse_line_allow pk Hv), lk_allow. reflexivity.
    + rewrite (parse_line_susp pk Hv), lk_susp. reflexivity.
Qed.

Lemma rem_l_start w pk : rem_l w pk start_policy = start_policy.
Proof. destruct w; reflexivity. Qed.

Lemma remove_refines w f m pk :
  canonical f = true -> parse_file f = POk m -> valid_pubkey pk = true ->
  let f' := remove_line f (line_w w pk) in
  canonical f' = true /\ parse_file f' = POk (rem_l w pk m).
Proof.
  intros Hc Hp Hv f'. pose proof (canonical_split _ Hc) as Hl.
  pose proof (lines_remove_line f (line_w w pk)) as L. fold f' in L.
  split.
  - unfold canonical. rewrite L. apply line_ok_filter. exact Hl.
  - unfold parse_file in *. rewrite L. rewrite <- (rem_l_start w pk). apply parse_remove; assumption.
Qed.

Lemma flag_refines (b : bool) f m :
  canonical f = true -> parse_file f = POk m ->
  let f' := add_line (remove_line f (if b then line_swaps_false else line_swaps_true))
                     (if b then line_swaps_true else line_swaps_false) in
  canonical f' = true /\ parse_file f' = POk (with_new m b).
Proof.
  intros Hc Hp f'. pose proof (canonical_split _ Hc) as Hl.
  set (lr := if b then line_swaps_false else line_swaps_true) in *.
  set (la := if b then line_swaps_true else line_swaps_false) in *.
  assert (Hla : contains_char nl la = false /\ line_ok la = true /\
                parse_line la = LKV "allow_new_swaps" (if b then "true" else "false")) by (destruct b; repeat split; reflexivity).
  destruct Hla as (Hn & Hk & Hpl).
  assert (Hlr : exists v b', parse_line lr = LKV "allow_new_swaps" v /\ parse_bool v = Some b').
  { destruct b; [exists "false", false | exists "true", true]; split; reflexivity. }
  pose proof (lines_remove_line f lr) as L1.
  assert (L : lines f' = (filter (fun t => negb (String.eqb t lr)) (map drop_cr (lines f)) ++ [la])%list).
  { unfold f'. rewrite lines_add_line; [rewrite L1; reflexivity | exact Hn]. }
  assert (Hf : forallb line_ok (filter (fun t => negb (String.eqb t lr)) (map drop_cr (lines f))) = true)
    by (apply line_ok_filter; exact Hl).
  split.
  - unfold canonical. rewrite L, forallb_app, Hf. simpl. rewrite Hk. reflexivity.
  - unfold parse_file in *. rewrite L, parse_lines_app by exact Hf.
    destruct (parse_remove_flag lr Hlr (lines f) Hl start_policy m Hp (p_allow_new start_policy)) as (b2 & G).
    change (with_new start_policy (p_allow_new start_policy)) with start_policy in G. rewrite G.
    simpl parse_lines. rewrite Hpl, lk_new. destruct b; reflexivity.
Qed.

Lemma str_in_without pk l : str_in pk l = false -> without pk l = l.
Proof.
  unfold str_in, without. induction l as [|x l IH]; [reflexivity|]. simpl. intros H.
  apply orb_false_iff in H. destruct H as [H1 H2]. rewrite String.eqb_sym, H1. simpl. now rewrite IH.
Qed.

Lemma policy_eta p : mkPolicy (p_reserve p) (p_allow p) (p_susp p) (p_accept_all p) (p_min_swap p) (p_allow_new p) = p.
Proof. destruct p; reflexivity. Qed.

(* one step from a state whose canonical file parses to the memory: the
   operation does to the policy exactly what the abstract machine says, the new
   file is canonical and parses to the new memory, a rejection changes nothing *)
Lemma step_refines s o : Inv s -> is_ext o = false ->
  (fst (step s o), s_mem (snd (step s o))) = spec_step (s_mem s) o /\
  Inv (snd (step s o)) /\
  (fst (step s o) = true -> snd (step s o) = s).
Proof.
  intros [Hc Hp] Hx. destruct s as [f m]. simpl in Hc, Hp. unfold step, spec_step. simpl s_file. simpl s_mem.
  destruct o as [pk|pk|pk|pk| | | | |c]; try discriminate Hx.
  - (* AddAllow *)
    rewrite <- valid_spec. destruct (str_in pk (p_allow m)) eqn:D; simpl; [repeat split; auto|].
    destruct (valid_pubkey pk) eqn:V; simpl; [|repeat split; auto].
    destruct (add_refines true f m pk Hc Hp V) as [C' P']. simpl in C', P'.
    rewrite (reload_ok _ m _ P'). simpl. repeat split; auto. discriminate.
  - (* RemAllow *)
    rewrite <- valid_spec. destruct (valid_pubkey pk) eqn:V; simpl; [|rewrite orb_true_r; repeat split; auto].
    destruct (str_in pk (p_allow m)) eqn:D; simpl; [|repeat split; auto].
    destruct (remove_refines true f m pk Hc Hp V) as [C' P']. simpl in C', P'.
    rewrite (reload_ok _ m _ P'). simpl. repeat split; auto. discriminate.
  - (* AddSusp *)
    rewrite <- valid_spec. destruct (str_in pk (p_susp m)) eqn:D; simpl; [repeat split; auto|].
    destruct (valid_pubkey pk) eqn:V; simpl; [|repeat split; auto].
    destruct (add_refines false f m pk Hc Hp V) as [C' P']. simpl in C', P'.
    rewrite (reload_ok _ m _ P'). simpl. repeat split; auto. discriminate.
  - (* RemSusp *)
    rewrite <- valid_spec. destruct (valid_pubkey pk) eqn:V; simpl; [|rewrite orb_true_r; repeat split; auto].
    destruct (str_in pk (p_susp m)) eqn:D; simpl; [|repeat split; auto].
    destruct (remove_refines false f m pk Hc Hp V) as [C' P']. simpl in C', P'.
    rewrite (reload_ok _ m _ P'). simpl. repeat split; auto. discriminate.
  - (* Disable *)
    destruct (p_allow_new m) eqn:A; simpl.
    + destruct (flag_refines false f m Hc Hp) as [C' P']. simpl in C', P'.
      rewrite (reload_ok _ m _ P'). simpl. repeat split; auto. discriminate.
    + repeat split; auto. unfold with_new. rewrite <- A. now rewrite policy_eta.
  - (* Enable *)
    destruct (p_allow_new m) eqn:A; simpl.
    + repeat split; auto. unfold with_new. rewrite <- A. now rewrite policy_eta.
    + destruct (flag_refines true f m Hc Hp) as [C' P']. simpl in C', P'.
      rewrite (reload_ok _ m _ P'). simpl. repeat split; auto. discriminate.
  - rewrite (reload_ok _ m _ Hp). simpl. repeat split; auto.
  - rewrite (reload_ok _ m _ Hp). simpl. repeat split; auto.
Qed.

(* ---------- whole operation sequences ---------- *)
Fixpoint run_trace (s : st) (ops : list op) : list (bool * policy) :=
  match ops with
  | [] => []
  | o :: r => (fst (step s o), s_mem (snd (step s o))) :: run_trace (snd (step s o)) r
  end.

Fixpoint spec_trace (p : policy) (ops : list op) : list (bool * policy) :=
  match ops with
  | [] => []
  | o :: r => spec_step p o :: spec_trace (snd (spec_step p o)) r
  end.

Definition no_ext (ops : list op) : bool := forallb (fun o => negb (is_ext o)) ops.

(* the file reloads to the policy in memory *)
Definition synced (s : st) : Prop := parse_file (s_file s) = POk (s_mem s).

Lemma run_refines ops : forall s, Inv s -> no_ext ops = true ->
  run_trace s ops = spec_trace (s_mem s) ops /\ Inv (run s ops).
Proof.
  induction ops as [|o r IH]; intros s HI Hn; [split; [reflexivity | exact HI]|].
  simpl in Hn. apply andb_true_iff in Hn. destruct Hn as [Ho Hr]. apply negb_true_iff in Ho.
  destruct (step_refines s o HI Ho) as (E & HI' & _).
  destruct (IH _ HI' Hr) as [T I]. simpl. split; [|exact I].
  rewrite E. f_equal. rewrite T. rewrite <- E. reflexivity.
Qed.

Lemma no_ext_app a b : no_ext (a ++ b) = true -> no_ext a = true.
Proof. unfold no_ext. rewrite forallb_app. intros H. apply andb_true_iff in H. tauto. Qed.

Lemma sequences_refine f0 p0 ops :
  canonical f0 = true -> parse_file f0 = POk p0 -> no_ext ops = true ->
  run_trace (mkSt f0 p0) ops = spec_trace p0 ops /\
  (forall pre post, ops = (pre ++ post)%list -> synced (run (mkSt f0 p0) pre)).
Proof.
  intros Hc Hp Hn. assert (HI : Inv (mkSt f0 p0)) by (split; assumption).
  split; [apply (run_refines ops _ HI Hn)|].
  intros pre post ->. apply (run_refines pre _ HI (no_ext_app _ _ Hn)).
Qed.

(* rejections never change anything, whatever the file looks like *)
Lemma rejected_unchanged s o : fst (spec_step (s_mem s) o) = true -> step s o = (true, s).
Proof.
  destruct s as [f m]. unfold spec_step, step. simpl s_mem. simpl s_file.
  destruct o as [pk|pk|pk|pk| | | | |c]; simpl; try discriminate; rewrite <- valid_spec.
  - destruct (str_in pk (p_allow m)); simpl; [reflexivity|]. destruct (valid_pubkey pk); simpl; [discriminate | reflexivity].
  - destruct (valid_pubkey pk); simpl; [|reflexivity]. destruct (str_in pk (p_allow m)); simpl; [discriminate | reflexivity].
  - destruct (str_in pk (p_susp m)); simpl; [reflexivity|]. destruct (valid_pubkey pk); simpl; [discriminate | reflexivity].
  - destruct (valid_pubkey pk); simpl; [|reflexivity]. destruct (str_in pk (p_susp m)); simpl; [discriminate | reflexivity].
Qed.

(* a reload / restart adopts the file as it is (also after an operator edit), or changes nothing *)
Lemma reload_adopts s o : o = OReload \/ o = ORestart ->
  (fst (step s o) = false -> synced (snd (step s o)) /\ s_file (snd (step s o)) = s_file s) /\
  (fst (step s o) = true -> snd (step s o) = s).
Proof.
  destruct s as [f m]. intros [-> | ->]; unfold step, reload, synced; simpl s_file; simpl s_mem;
    destruct (parse_file f) eqn:E; simpl; split; try discriminate; auto.
Qed.

Lemma str_in_app_last pk l : str_in pk (l ++ [pk])%list = true.
Proof. unfold str_in. rewrite existsb_app. simpl. rewrite String.eqb_refl. apply orb_true_iff. right. reflexivity. Qed.

Lemma str_in_without_same pk l : str_in pk (without pk l) = false.
Proof.
  unfold str_in, without. induction l as [|x l IH]; [reflexivity|]. simpl.
  destruct (String.eqb x pk) eqn:E; simpl; [exact IH|]. rewrite String.eqb_sym, E. exact IH.
Qed.

(* the next request sees the change *)
Lemma next_request s o : Inv s -> fst (step s o) = false ->
  let m' := s_mem (snd (step s o)) in
  match o with
  | OAddAllow pk => is_peer_allowed m' pk = true
  | ORemAllow pk => str_in pk (p_allow m') = false /\ is_peer_allowed m' pk = p_accept_all (s_mem s)
  | OAddSusp pk => is_peer_suspicious m' pk = true
  | ORemSusp pk => is_peer_suspicious m' pk = false
  | ODisable => new_swaps_allowed m' = false
  | OEnable => new_swaps_allowed m' = true
  | _ => True
  end.
Proof.
  intros HI He m'. unfold m'. destruct o as [pk|pk|pk|pk| | | | |c]; try exact I;
    match goal with |- context [step s ?o] => destruct (step_refines s o HI eq_refl) as (E & _ & _) end;
    rewrite He in E; unfold spec_step in E.
  - destruct (str_in pk (p_allow (s_mem s)) || negb (spec_valid_pubkey pk)); [discriminate E|]; pose proof (f_equal snd E) as E'; cbn [snd] in E'; rewrite E'.
    unfold is_peer_allowed. simpl. rewrite str_in_app_last. apply orb_true_r.
  - destruct (negb (str_in pk (p_allow (s_mem s))) || negb (spec_valid_pubkey pk)); [discriminate E|]; pose proof (f_equal snd E) as E'; cbn [snd] in E'; rewrite E'.
    unfold is_peer_allowed. simpl. rewrite str_in_without_same. split; [reflexivity | apply orb_false_r].
  - destruct (str_in pk (p_susp (s_mem s)) || negb (spec_valid_pubkey pk)); [discriminate E|]; pose proof (f_equal snd E) as E'; cbn [snd] in E'; rewrite E'.
    unfold is_peer_suspicious. simpl. apply str_in_app_last.
  - destruct (negb (str_in pk (p_susp (s_mem s))) || negb (spec_valid_pubkey pk)); [discriminate E|]; pose proof (f_equal snd E) as E'; cbn [snd] in E'; rewrite E'.
    unfold is_peer_suspicious. simpl. apply str_in_without_same.
  - pose proof (f_equal snd E) as E'; cbn [snd] in E'; rewrite E'. reflexivity.
  - pose proof (f_equal snd E) as E'; cbn [snd] in E'; rewrite E'. reflexivity.
Qed.

(* ---------- the hypotheses are satisfiable; the theorems say something ---------- *)
Definition ex_pk1 : string := "02aaaaaaaaaaaaaaaaaaaaaaaaaaaaaaaaaaaaaaaaaaaaaaaaaaaaaaaaaaaaaaaa".
Definition ex_pk2 : string := "03bbbbbbbbbbbbbbbbbbbbbbbbbbbbbbbbbbbbbbbbbbbbbbbbbbbbbbbbbbbbbbbb".
Definition ex_file : string :=
  "# peers" ++ String cr (String nl "") ++ "allowlisted_peers=" ++ ex_pk1 ++ String cr (String nl "") ++
  "Allow_New_Swaps = whatever" ++ String nl "" ++ " accept_all_peers = 0 " ++ String nl "" ++
  "min_swap_amount_msat=5".  (* no final newline *)

Example ex_file_canonical : canonical ex_file = true. Proof. vm_compute. reflexivity. Qed.
Example ex_file_parses :
  parse_file ex_file = POk (mkPolicy 0 [ex_pk1] [] false 5 true). Proof. vm_compute. reflexivity. Qed.
Example ex_sequence :
  let ops := [ORemAllow ex_pk1; OAddAllow ex_pk2; OAddAllow ex_pk2; OAddAllow "xyz"; ODisable; OAddSusp ex_pk1; ORestart] in
  no_ext ops = true /\
  run_trace (mkSt ex_file (mkPolicy 0 [ex_pk1] [] false 5 true)) ops =
    [(false, mkPolicy 0 [] [] false 5 true); (false, mkPolicy 0 [ex_pk2] [] false 5 true);
     (true, mkPolicy 0 [ex_pk2] [] false 5 true); (true, mkPolicy 0 [ex_pk2] [] false 5 true);
     (false, mkPolicy 0 [ex_pk2] [] false 5 false); (false, mkPolicy 0 [ex_pk2] [ex_pk1] false 5 false);
     (false, mkPolicy 0 [ex_pk2] [ex_pk1] false 5 false)].
Proof. vm_compute. split; reflexivity. Qed.
