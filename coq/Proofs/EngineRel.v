(* Relational variant of the generic engine rule (Proofs/Engine.v).

   Engine.step_rule asks that a store write satisfies P for ANY last durable
   record (P_persist), so P cannot relate a record to its predecessor.  Here a
   preorder R on swap data is carried along: every action execution and every
   event context relates the loop-head data (= the last durable record) to the
   data it produces, and a store write may use "R lp (data written)".  With
   R := fun _ _ => True this is exactly Engine.step_rule.  Proved once, for ANY
   table; no model definition is touched. *)
From Coq Require Import String ZArith Bool List Lia.
From RecordUpdate Require Import RecordSet.
From PS Require Import Base.Wrap Model.Data Model.Actions Model.Fsm Model.History
  Proofs.Monad Proofs.Engine Proofs.HistRule.
Import ListNotations RecordSetNotations.
Open Scope Z_scope.

Strategy opaque [event_loop exec loop_fuel action_fuel pay_loop].

Lemma lp_end_persist_last lp e1 s d :
  Forall not_persist e1 -> lp_end lp (e1 ++ [EPersist s d true]) = d.
Proof. intros F. rewrite lp_end_app, (lp_end_no_persist lp e1 F). reflexivity. Qed.

Lemma lp_end_persist_failed lp e1 s d :
  Forall not_persist e1 -> lp_end lp (e1 ++ [EPersist s d false]) = lp.
Proof. intros F. rewrite lp_end_app, (lp_end_no_persist lp e1 F). reflexivity. Qed.

(* the last durable record of a trace satisfies what P says about store writes *)
Lemma trace_ok_last_persist P : forall tr lp s d,
  trace_ok P lp tr -> last_persist tr = Some (s, d) -> exists lp', P lp' (EPersist s d true).
Proof.
  unfold last_persist.
  assert (G : forall tr lp acc s d, trace_ok P lp tr ->
            (match acc with Some (s0, d0) => exists lp', P lp' (EPersist s0 d0 true) | None => True end) ->
            fold_left (fun acc e => match e with EPersist s d true => Some (s, d) | _ => acc end) tr acc = Some (s, d) ->
            exists lp', P lp' (EPersist s d true)).
  { induction tr as [|e r IH]; intros lp acc s d T Hacc H; simpl in H.
    - subst acc. exact Hacc.
    - destruct T as [Pe T]. eapply IH; [exact T| |exact H].
      destruct e; try exact Hacc. destruct ok; [|exact Hacc]. exists lp. exact Pe. }
  intros tr lp s d T H. eapply G; eauto. exact Logic.I.
Qed.

Section RuleRel.
Variable tc : tl_consts.
Variable decode : string -> option (string * Z * Z).
Variable t : table.
Variable terminal : list string.

Variable I : machine -> Prop.                 (* holds at every loop head and at rest *)
Variable R : swap_data -> swap_data -> Prop.  (* last durable record -> data derived from it *)
Variable P : swap_data -> effect -> Prop.     (* every effect, relative to the last durable record *)
Variable E : machine -> string -> Prop.       (* event provenance *)

Hypothesis R_refl : forall d, R d d.
Hypothesis R_trans : forall a b c, R a b -> R b c -> R a c.
Hypothesis I_retries : forall m r, I m -> I (m <| m_retries := r |>).
Hypothesis E_retries : forall m r ev, E m ev -> E (m <| m_retries := r |>) ev.
Hypothesis P_persist : forall m lp ok, I m -> R lp (m_data m) -> P lp (EPersist (m_cur m) (m_data m) ok).

Hypothesis act_rule :
  forall m ev nxt sd act, I m -> E m ev ->
    next_state t (m_cur m) ev = Some nxt -> lookup_state t nxt = Some sd -> st_action sd = Some act ->
    forall w ev' d' w' es,
      exec tc decode action_fuel act (m_data (enter m nxt)) w = ((ev', d'), w', es) ->
      Forall (fun e => P (m_data m) e /\ not_persist e) es /\
      I ((enter m nxt) <| m_data := d' |>) /\ E ((enter m nxt) <| m_data := d' |>) ev' /\
      R (m_data m) d'.

Lemma event_loop_rule_rel fuel : forall m ev w m' res w' es,
  I m -> E m ev ->
  event_loop tc decode t fuel m ev w = ((m', res), w', es) ->
  trace_ok P (m_data m) es /\ I m' /\ R (lp_end (m_data m) es) (m_data m').
Proof.
  induction fuel as [|fuel IH]; intros m ev w m' res w' es HI HE H.
  - rewrite event_loop_O in H. apply ret_inv in H. destruct H as (H & _ & ->). inversion H; subst. simpl. auto.
  - rewrite event_loop_S in H.
    destruct (next_state t (m_cur m) ev) as [nxt|] eqn:Hn.
    2:{ apply ret_inv in H. destruct H as (H & _ & ->). inversion H; subst. simpl. auto. }
    destruct (lookup_state t nxt) as [sd|] eqn:Hl.
    2:{ apply ret_inv in H. destruct H as (H & _ & ->). inversion H; subst. simpl. auto. }
    destruct (st_action sd) as [act|] eqn:Ha.
    2:{ apply ret_inv in H. destruct H as (H & _ & ->). inversion H; subst. simpl. auto. }
    cbv zeta in H.
    apply bind_inv in H. destruct H as ([ev' d'] & w1 & e1 & e2 & Hex & H & ->).
    destruct (act_rule m ev nxt sd act HI HE Hn Hl Ha _ _ _ _ _ Hex) as (F1 & HI2 & HE2 & HR).
    assert (T1 : trace_ok P (m_data m) e1) by (apply trace_ok_no_persist; exact F1).
    assert (N1 : Forall not_persist e1).
    { eapply Forall_impl; [|exact F1]. intros e [_ Hn']. exact Hn'. }
    assert (L1 : lp_end (m_data m) e1 = m_data m) by (apply lp_end_no_persist; exact N1).
    set (m2 := (enter m nxt) <| m_data := d' |>) in *.
    assert (HR2 : R (m_data m) (m_data m2)) by exact HR.
    destruct (String.eqb ev' Ev_Panic).
    { apply ret_inv in H. destruct H as (H & _ & ->). inversion H; subst.
      rewrite app_nil_r. rewrite L1. auto. }
    apply bind_inv in H. destruct H as (ok & w2 & e3 & e4 & Hp & H & ->).
    apply persist_inv in Hp. subst e3.
    assert (T3 : forall ok0, P (m_data m) (EPersist (m_cur m2) (m_data m2) ok0)).
    { intros ok0. exact (P_persist m2 (m_data m) ok0 HI2 HR2). }
    destruct ok; cbn [negb] in H.
    2:{ apply ret_inv in H. destruct H as (H & _ & ->). inversion H; subst.
        rewrite app_nil_r. repeat split; auto.
        - apply trace_ok_app. rewrite L1. split; auto. cbn [trace_ok]. auto.
        - rewrite lp_end_persist_failed by exact N1. exact HR2. }
    assert (Hfin : forall mm, I mm -> m_data mm = m_data m2 ->
              trace_ok P (m_data m) (e1 ++ [EPersist (m_cur m2) (m_data m2) true] ++ []) /\ I mm /\
              R (lp_end (m_data m) (e1 ++ [EPersist (m_cur m2) (m_data m2) true] ++ [])) (m_data mm)).
    { intros mm Hmm Hd. rewrite app_nil_r. repeat split; auto.
      - apply trace_ok_app. rewrite L1. split; auto. cbn [trace_ok]. auto.
      - rewrite lp_end_persist_last by exact N1. rewrite Hd. apply R_refl. }
    assert (Hrec : forall mm evx wx mx rx wy ey, I mm -> E mm evx -> m_data mm = m_data m2 ->
              event_loop tc decode t fuel mm evx wx = ((mx, rx), wy, ey) ->
              trace_ok P (m_data m) (e1 ++ [EPersist (m_cur m2) (m_data m2) true] ++ ey) /\ I mx /\
              R (lp_end (m_data m) (e1 ++ [EPersist (m_cur m2) (m_data m2) true] ++ ey)) (m_data mx)).
    { intros mm evx wx mx rx wy ey Hmm HEm Hd Hl'. apply IH in Hl'; auto. destruct Hl' as (T4 & HIx & HRx).
      repeat split; auto.
      - apply trace_ok_app. rewrite L1. split; auto.
        cbn [app trace_ok lp_step]. split; [apply T3|]. rewrite <- Hd. exact T4.
      - rewrite app_assoc, lp_end_app, lp_end_persist_last by exact N1. rewrite <- Hd. exact HRx. }
    destruct (String.eqb ev' Ev_Done).
    { apply ret_inv in H. destruct H as (H & _ & ->). inversion H; subst. apply Hfin; auto. }
    destruct (String.eqb ev' Ev_NoOp).
    { apply ret_inv in H. destruct H as (H & _ & ->). inversion H; subst. apply Hfin; auto. }
    destruct (String.eqb ev' Ev_Retry).
    + cbv zeta in H.
      match type of H with (if ?c then _ else _) _ = _ => destruct c end.
      * apply ret_inv in H. destruct H as (H & _ & ->). inversion H; subst.
        apply Hfin; [apply I_retries; apply I_retries; auto | reflexivity].
      * apply (Hrec (m2 <| m_retries := m_retries m2 + 1 |>) ev' w2 m' res w' e4); auto.
    + apply (Hrec m2 ev' w2 m' res w' e4); auto.
Qed.

(* what the caller has to know about the event context of a SendEvent *)
Definition ctx_ok_rel (m : machine) (ev : string) (ctx : option wire_msg) : Prop :=
  match ctx with
  | None => E m ev
  | Some c =>
      E m Ev_Invalid /\
      (forall d', validate_ctx (m_data m) c = true -> apply_ctx (m_data m) c = Some d' ->
                  I (m <| m_data := d' |>) /\ E (m <| m_data := d' |>) ev /\ R (m_data m) d')
  end.

Lemma persist_then_loop_rule_rel mm evx lp wx m' res w' es :
  I mm -> E mm evx -> R lp (m_data mm) ->
  persist_then_loop tc decode t mm evx wx = ((m', res), w', es) ->
  trace_ok P lp es /\ I m' /\ R (lp_end lp es) (m_data m').
Proof.
  intros Hmm HEm HR Hk. unfold persist_then_loop in Hk.
  apply bind_inv in Hk. destruct Hk as (ok & w1 & e1 & e2 & Hp & Hk & ->).
  apply persist_inv in Hp. subst e1.
  destruct ok; cbn [negb] in Hk.
  - apply event_loop_rule_rel in Hk; auto. destruct Hk as (T2 & HI' & HR'). split; [|split].
    + cbn [app trace_ok lp_step]. split; [apply P_persist; assumption|exact T2].
    + exact HI'.
    + exact HR'.
  - apply ret_inv in Hk. destruct Hk as (Hk & _ & ->). inversion Hk; subst.
    split; [|split].
    + cbn [app trace_ok]. split; [apply P_persist; assumption|exact Logic.I].
    + assumption.
    + exact HR.
Qed.

Lemma send_event_rule_rel m ev ctx lp w m' res w' es :
  I m -> R lp (m_data m) -> ctx_ok_rel m ev ctx ->
  send_event tc decode t m ev ctx w = ((m', res), w', es) ->
  trace_ok P lp es /\ I m' /\ R (lp_end lp es) (m_data m').
Proof.
  intros HI HR HC H. unfold send_event in H.
  destruct (String.eqb ev Ev_Done).
  { apply ret_inv in H. destruct H as (H & _ & ->). inversion H; subst. simpl. auto. }
  destruct (next_state t (m_cur m) ev).
  2:{ apply ret_inv in H. destruct H as (H & _ & ->). inversion H; subst. simpl. auto. }
  destruct ctx as [c|]; cbn [ctx_ok_rel] in HC.
  - destruct HC as [HEinv HC].
    destruct (validate_ctx (m_data m) c) eqn:Hv; cbn [negb] in H.
    + destruct (apply_ctx (m_data m) c) as [d'|] eqn:Hap.
      * destruct (HC d' eq_refl eq_refl) as (HI1 & HE1 & HR1).
        refine (persist_then_loop_rule_rel _ _ lp _ _ _ _ _ HI1 HE1 _ H).
        cbn. eapply R_trans; eauto.
      * apply ret_inv in H. destruct H as (H & _ & ->). inversion H; subst. simpl. auto.
    + unfold accepted_then_loop in H. destruct (next_state t (m_cur m) Ev_Invalid).
      * exact (persist_then_loop_rule_rel _ _ lp _ _ _ _ _ HI HEinv HR H).
      * apply ret_inv in H. destruct H as (H & _ & ->). inversion H; subst. simpl. auto.
  - exact (persist_then_loop_rule_rel _ _ lp _ _ _ _ _ HI HC HR H).
Qed.

(* Recover(): the action of the CURRENT state runs on the machine as restored *)
Hypothesis recover_rule :
  forall m sd act, I m -> lookup_state t (m_cur m) = Some sd -> st_action sd = Some act ->
    (st_fail_on_recover sd = true -> E m Ev_Failed) /\
    (st_fail_on_recover sd = false ->
     forall w ev' d' w' es,
       exec tc decode action_fuel act (m_data m) w = ((ev', d'), w', es) ->
       Forall (fun e => P (m_data m) e /\ not_persist e) es /\
       I (m <| m_data := d' |>) /\ E (m <| m_data := d' |>) ev' /\ R (m_data m) d').

Lemma recover_rule_rel m w m' res w' es :
  I m -> recover tc decode t m w = ((m', res), w', es) ->
  trace_ok P (m_data m) es /\ I m' /\ R (lp_end (m_data m) es) (m_data m').
Proof.
  intros HI H. unfold recover in H.
  destruct (lookup_state t (m_cur m)) as [sd|] eqn:Hl.
  2:{ apply ret_inv in H. destruct H as (H & _ & ->). inversion H; subst. simpl. auto. }
  destruct (st_action sd) as [act|] eqn:Ha.
  2:{ apply ret_inv in H. destruct H as (H & _ & ->). inversion H; subst. simpl. auto. }
  destruct (recover_rule m sd act HI Hl Ha) as [Rf Rn].
  destruct (st_fail_on_recover sd) eqn:Hf.
  - assert (Hc : ctx_ok_rel m Ev_Failed None) by (simpl; auto).
    apply (send_event_rule_rel m Ev_Failed None (m_data m)) in H; auto.
  - apply bind_inv in H. destruct H as ([ev' d'] & w1 & e1 & e2 & Hex & H & ->).
    destruct (Rn eq_refl _ _ _ _ _ Hex) as (F1 & HI1 & HE1 & HR1).
    assert (T1 : trace_ok P (m_data m) e1) by (apply trace_ok_no_persist; exact F1).
    assert (N1 : Forall not_persist e1).
    { eapply Forall_impl; [|exact F1]. intros e [_ Hn']. exact Hn'. }
    assert (L1 : lp_end (m_data m) e1 = m_data m) by (apply lp_end_no_persist; exact N1).
    set (m1 := m <| m_data := d' |>) in *.
    assert (HR2 : R (m_data m) (m_data m1)) by exact HR1.
    destruct (String.eqb ev' Ev_Panic).
    { apply ret_inv in H. destruct H as (H & _ & ->). inversion H; subst.
      rewrite app_nil_r. rewrite L1. auto. }
    apply bind_inv in H. destruct H as (ok & w2 & e3 & e4 & Hp & H & ->).
    apply persist_inv in Hp. subst e3.
    assert (T3 : forall ok0, P (m_data m) (EPersist (m_cur m1) (m_data m1) ok0)).
    { intros ok0. exact (P_persist m1 (m_data m) ok0 HI1 HR2). }
    destruct ok; cbn [negb] in H.
    2:{ apply ret_inv in H. destruct H as (H & _ & ->). inversion H; subst.
        rewrite app_nil_r. repeat split; auto.
        - apply trace_ok_app. rewrite L1. split; auto. cbn [trace_ok]. auto.
        - rewrite lp_end_persist_failed by exact N1. exact HR2. }
    destruct (String.eqb ev' Ev_NoOp).
    { apply ret_inv in H. destruct H as (H & _ & ->). inversion H; subst.
      rewrite app_nil_r. repeat split; auto.
      - apply trace_ok_app. rewrite L1. split; auto. cbn [trace_ok]. auto.
      - rewrite lp_end_persist_last by exact N1. apply R_refl. }
    assert (Hc : ctx_ok_rel m1 ev' None) by (simpl; auto).
    apply (send_event_rule_rel _ ev' None (m_data m1)) in H; auto.
    destruct H as (T4 & HI' & HR'). repeat split; auto.
    + apply trace_ok_app. rewrite L1. split; auto.
      cbn [app trace_ok lp_step]. split; [apply T3|exact T4].
    + rewrite app_assoc, lp_end_app, lp_end_persist_last by exact N1. exact HR'.
Qed.

(* admissible inputs of a step, as seen by the invariant *)
Definition input_ok_rel (m : machine) (i : input) : Prop :=
  match i with
  | InEvent ev ctx => ctx_ok_rel m ev ctx
  | InRequestIn rq => ctx_ok_rel m "Event_SwapInReceiver_OnRequestReceived" (Some (MInReq rq))
  | InTxConfirmed hex err =>
      (err = true -> E m Ev_Failed) /\
      (forall m0, I m0 -> (err = false -> m0 = m) ->
         I (m0 <| m_data := (m_data m0) <| d_opening_hex := hex |> |>) /\
         E (m0 <| m_data := (m_data m0) <| d_opening_hex := hex |> |>) Ev_TxConfirmed /\
         R (m_data m0) ((m_data m0) <| d_opening_hex := hex |>))
  | InCsvPassed => E m "Event_OnCsvPassed"
  | InTimeout => E m Ev_Timeout
  | InRecover => True
  end.

(* [lp] is the last durable record when the entry point is called; the machine in
   memory is R-related to it; RecoverSwaps works on exactly that record *)
Theorem step_rule_rel m i lp w o w' es :
  I m -> input_ok_rel m i -> R lp (m_data m) -> (i = InRecover -> lp = m_data m) ->
  step tc decode t terminal m i w = (o, w', es) ->
  trace_ok P lp es /\ I (o_machine o) /\ R (lp_end lp es) (m_data (o_machine o)).
Proof.
  intros HI HIn HR Hlp H. destruct i as [ev ctx|rq|hex err| | |]; unfold step in H; cbn [input_ok_rel] in HIn.
  - apply bind_inv in H. destruct H as ([m1 res] & w1 & e1 & e2 & Hs & H & ->).
    apply ret_inv in H. destruct H as (-> & _ & ->). rewrite app_nil_r.
    apply (send_event_rule_rel m ev ctx lp) in Hs; auto.
  - apply bind_inv in H. destruct H as ([m1 res] & w1 & e1 & e2 & Hs & H & ->).
    apply ret_inv in H. destruct H as (-> & _ & ->). rewrite app_nil_r.
    apply (send_event_rule_rel m _ _ lp) in Hs; auto.
  - destruct HIn as [HEf Hhex].
    apply bind_inv in H. destruct H as ([m0 rem0] & w1 & e1 & e2 & H0 & H & ->).
    assert (Pre : trace_ok P lp e1 /\ I m0 /\ (err = false -> m0 = m) /\ R (lp_end lp e1) (m_data m0)).
    { destruct err.
      - apply bind_inv in H0. destruct H0 as ([mx rx] & wx & ex & ey & Hs & H0 & ->).
        apply ret_inv in H0. destruct H0 as (H0 & _ & ->). inversion H0; subst.
        rewrite app_nil_r.
        assert (Hc : ctx_ok_rel m Ev_Failed None) by (simpl; auto).
        apply (send_event_rule_rel m Ev_Failed None lp) in Hs; auto.
        destruct Hs as (? & ? & ?). repeat split; auto. discriminate.
      - apply ret_inv in H0. destruct H0 as (H0 & _ & ->). inversion H0; subst. simpl. auto. }
    destruct Pre as (F1 & HI0 & Hm0 & HR0).
    destruct (Hhex m0 HI0 Hm0) as (HI1 & HE1 & HR1).
    apply bind_inv in H. destruct H as ([m1 res] & w2 & e3 & e4 & Hs & H & ->).
    apply ret_inv in H. destruct H as (-> & _ & ->). rewrite app_nil_r.
    match type of Hs with send_event _ _ _ ?mm _ _ _ = _ =>
      assert (Hc : ctx_ok_rel mm Ev_TxConfirmed None) by (simpl; auto);
      apply (send_event_rule_rel mm Ev_TxConfirmed None (lp_end lp e1)) in Hs; auto end.
    2:{ cbn. eapply R_trans; eauto. }
    destruct Hs as (F3 & HI' & HR'). simpl. repeat split; auto.
    + apply trace_ok_app; auto.
    + rewrite lp_end_app. exact HR'.
  - apply bind_inv in H. destruct H as ([m1 res] & w1 & e1 & e2 & Hs & H & ->).
    apply ret_inv in H. destruct H as (-> & _ & ->). rewrite app_nil_r.
    assert (Hc : ctx_ok_rel m "Event_OnCsvPassed" None) by (simpl; auto).
    apply (send_event_rule_rel m _ None lp) in Hs; auto.
  - apply bind_inv in H. destruct H as ([m1 res] & w1 & e1 & e2 & Hs & H & ->).
    apply ret_inv in H. destruct H as (-> & _ & ->). rewrite app_nil_r.
    assert (Hc : ctx_ok_rel m Ev_Timeout None) by (simpl; auto).
    apply (send_event_rule_rel m _ None lp) in Hs; auto.
  - destruct (is_finished terminal (m_cur m)).
    { apply ret_inv in H. destruct H as (-> & _ & ->). simpl. auto. }
    apply bind_inv in H. destruct H as ([m1 res] & w1 & e1 & e2 & Hs & H & ->).
    apply ret_inv in H. destruct H as (-> & _ & ->). rewrite app_nil_r.
    rewrite (Hlp eq_refl). apply recover_rule_rel in Hs; auto.
Qed.

(* ---------- whole histories, with crashes and restarts ---------- *)

(* the environment's admissible inputs (History.input_allowed) give what the invariant needs *)
Hypothesis allowed_ok : forall h m i, I m -> input_allowed h m i = true -> input_ok_rel m i.
(* a machine rebuilt from a durable record satisfies the invariant *)
Hypothesis restore_ok : forall m s d lp, P lp (EPersist s d true) ->
  I (m <| m_cur := s |> <| m_prev := EmptyString |> <| m_data := d |> <| m_retries := 0 |>).

Definition hist_inv (lp0 : swap_data) (h : hstate) : Prop :=
  trace_ok P lp0 (hs_trace h) /\
  match hs_machine h with
  | Some m => I m /\ R (lp_end lp0 (hs_trace h)) (m_data m)
  | None => True
  end.

Lemma restore_inv lp0 m tr mr :
  trace_ok P lp0 tr -> restore m tr = Some mr -> I mr /\ m_data mr = lp_end lp0 tr.
Proof.
  intros T Hr. split; [|eapply restore_data; eauto].
  unfold restore in Hr. destruct (last_persist tr) as [[s d]|] eqn:El; [|discriminate].
  inversion Hr; subst. destruct (trace_ok_last_persist P tr lp0 s d T El) as [lp' Hp].
  eapply restore_ok; eauto.
Qed.

Lemma hist_step_inv lp0 h it :
  hist_inv lp0 h ->
  (forall m, hs_machine h = Some m -> input_allowed h m (item_input it) = true) ->
  hist_inv lp0 (hist_step tc decode t terminal h it).
Proof.
  intros [T Hm] Hal. unfold hist_step.
  destruct (hs_machine h) as [mh|] eqn:Emh; [|split; [exact T|rewrite Emh; exact Logic.I]].
  destruct Hm as [HI HR]. specialize (Hal mh eq_refl).
  destruct (is_recover (item_input it)) eqn:Hrec.
  - destruct (restore mh (hs_trace h)) as [mr|] eqn:Hr.
    2:{ split; [exact T|exact Logic.I]. }
    destruct (restore_inv lp0 mh (hs_trace h) mr T Hr) as [HIr Hdr].
    assert (Hin : item_input it = InRecover).
    { destruct (item_input it); try discriminate. reflexivity. }
    destruct it as [i w|i w k]; cbn [item_input] in *; subst i;
      destruct (run_step tc decode t terminal mr InRecover w) as [[o w'] es] eqn:Hs;
      unfold run_step in Hs;
      apply (step_rule_rel mr InRecover (lp_end lp0 (hs_trace h))) in Hs;
      try exact HIr; try exact Logic.I; try (rewrite Hdr; apply R_refl); try (intros _; symmetry; exact Hdr);
      destruct Hs as (T2 & HI2 & HR2).
    + split; cbn [hs_trace hs_machine].
      * apply trace_ok_app. split; assumption.
      * split; [exact HI2|]. rewrite lp_end_app. exact HR2.
    + assert (T3 : trace_ok P lp0 (hs_trace h ++ firstn k es)).
      { apply trace_ok_app. split; [assumption|]. apply trace_ok_firstn. exact T2. }
      split; cbn [hs_trace hs_machine]; [exact T3|].
      destruct (restore mr (hs_trace h ++ firstn k es)) as [m2|] eqn:Hr2; [|exact Logic.I].
      destruct (restore_inv lp0 mr _ m2 T3 Hr2) as [HI3 Hd3]. split; [exact HI3|].
      rewrite Hd3. apply R_refl.
  - assert (Hnr : item_input it = InRecover -> lp_end lp0 (hs_trace h) = m_data mh).
    { intros Hx. rewrite Hx in Hrec. discriminate. }
    pose proof (allowed_ok h mh (item_input it) HI Hal) as Hok.
    destruct it as [i w|i w k]; cbn [item_input] in *;
      destruct (run_step tc decode t terminal mh i w) as [[o w'] es] eqn:Hs;
      unfold run_step in Hs;
      apply (step_rule_rel mh i (lp_end lp0 (hs_trace h))) in Hs; auto;
      destruct Hs as (T2 & HI2 & HR2).
    + split; cbn [hs_trace hs_machine].
      * apply trace_ok_app. split; assumption.
      * split; [exact HI2|]. rewrite lp_end_app. exact HR2.
    + assert (T3 : trace_ok P lp0 (hs_trace h ++ firstn k es)).
      { apply trace_ok_app. split; [assumption|]. apply trace_ok_firstn. exact T2. }
      split; cbn [hs_trace hs_machine]; [exact T3|].
      destruct (restore mh (hs_trace h ++ firstn k es)) as [m2|] eqn:Hr2; [|exact Logic.I].
      destruct (restore_inv lp0 mh _ m2 T3 Hr2) as [HI3 Hd3]. split; [exact HI3|].
      rewrite Hd3. apply R_refl.
Qed.

(* every history the environment can produce (hist_ok), with crashes after any
   effect and restarts from the last durable record *)
Theorem hist_rel m0 its :
  I m0 -> hist_ok tc decode t terminal (init_hstate m0) its = true ->
  trace_ok P (m_data m0) (hs_trace (run_hist tc decode t terminal (init_hstate m0) its)).
Proof.
  intros HI0 Hok. unfold run_hist.
  assert (Gen : forall its h, hist_inv (m_data m0) h -> hist_ok tc decode t terminal h its = true ->
            hist_inv (m_data m0) (fold_left (hist_step tc decode t terminal) its h)).
  { clear its Hok. induction its as [|it r IH]; intros h Hh Hok; [exact Hh|].
    cbn [fold_left]. cbn [hist_ok] in Hok.
    destruct (hs_machine h) as [mh|] eqn:Emh.
    - apply andb_true_iff in Hok. destruct Hok as [Ha Hr].
      apply IH; [|exact Hr]. apply hist_step_inv; [exact Hh|].
      intros m Hm. rewrite Emh in Hm. inversion Hm; subst. exact Ha.
    - (* no record of the swap: nothing happens any more *)
      assert (Hx : forall x, hist_step tc decode t terminal h x = h).
      { intros x. unfold hist_step. rewrite Emh. reflexivity. }
      assert (Hst : forall l, fold_left (hist_step tc decode t terminal) l h = h).
      { induction l as [|x l IHl]; [reflexivity|]. cbn [fold_left]. rewrite Hx. exact IHl. }
      rewrite Hx, Hst. exact Hh. }
  apply Gen; [|exact Hok]. split; cbn; [exact Logic.I|]. split; [exact HI0|apply R_refl].
Qed.

End RuleRel.
