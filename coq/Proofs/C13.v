(* C13: the Liquid payment-window anchor is durable before the taker's pubkey leaves,
   never changes afterwards (crashes and restarts included), no payment without it. *)
From Coq Require Import String ZArith Bool List Lia.
From RecordUpdate Require Import RecordSet.
From PS Require Import Base.Wrap Model.Data Model.Actions Model.Fsm Model.History Model.FsmCorr
  Model.C04Corr Model.C13Corr Gen.ConstsSwap Gen.Tables
  Proofs.Monad Proofs.ExecRule Proofs.MTac Proofs.Frame Proofs.Engine Proofs.HistRule Proofs.EngineRel Proofs.C04.
Import ListNotations RecordSetNotations.
Open Scope Z_scope.

Strategy opaque [event_loop exec loop_fuel action_fuel pay_loop].

(* ---------- which actions write the anchor fields ---------- *)
Definition is_writer (name : string) : bool :=
  existsb (String.eqb name)
    ["CreateSwapRequestAction"; "SwapInReceiverInitAction"; "CreateAndBroadcastOpeningTransaction"]%string.

(* exec only ever descends into the first child *)
Fixpoint no_writer (a : action_tree) : bool :=
  match a with
  | ANode name ch => negb (is_writer name) && match ch with c :: _ => no_writer c | [] => true end
  end.

(* ---------- reflective table check ---------- *)
Definition act_no_writer (sd : state_def) : bool :=
  match st_action sd with Some a => no_writer a | None => true end.

Definition target_ok (t : table) (from nxt : string) : bool :=
  negb (String.eqb nxt "") &&
  (String.eqb from "" || match lookup_state t nxt with Some sd => act_no_writer sd | None => true end).

(* - the default state "" has no action and is never a transition target;
   - a state whose action tree contains an anchor writer is entered only from "" and
     fails on recovery (its action is not re-run after a restart) *)
Definition tbl_ok (t : table) : bool :=
  match lookup_state t "" with
  | Some sd => match st_action sd with None => true | Some _ => false end
  | None => true
  end &&
  forallb (fun x : string * state_def =>
     forallb (fun y : string * string => target_ok t (fst x) (snd y)) (st_events (snd x)) &&
     (act_no_writer (snd x) || st_fail_on_recover (snd x))) t.

Lemma tbl_next t cur ev nxt sd act :
  tbl_ok t = true -> next_state t cur ev = Some nxt -> lookup_state t nxt = Some sd -> st_action sd = Some act ->
  nxt <> EmptyString /\ (cur <> EmptyString -> no_writer act = true).
Proof.
  intros Hok Hn Hl Ha. unfold tbl_ok in Hok. apply andb_true_iff in Hok. destruct Hok as [_ Hall].
  unfold next_state in Hn. destruct (lookup_state t cur) as [sdc|] eqn:Hc; [|discriminate].
  apply assoc_str_in in Hc. apply assoc_str_in in Hn.
  rewrite forallb_forall in Hall. specialize (Hall _ Hc). cbn [fst snd] in Hall.
  apply andb_true_iff in Hall. destruct Hall as [Hev _].
  rewrite forallb_forall in Hev. specialize (Hev _ Hn). cbn [fst snd] in Hev.
  unfold target_ok in Hev. apply andb_true_iff in Hev. destruct Hev as [Hne Hw]. split.
  - intros ->. discriminate.
  - intros Hcur. apply orb_true_iff in Hw. destruct Hw as [Hw|Hw].
    + apply String.eqb_eq in Hw. contradiction.
    + rewrite Hl in Hw. unfold act_no_writer in Hw. rewrite Ha in Hw. exact Hw.
Qed.

Lemma tbl_recover t cur sd act :
  tbl_ok t = true -> lookup_state t cur = Some sd -> st_action sd = Some act ->
  cur <> EmptyString /\ (st_fail_on_recover sd = false -> no_writer act = true).
Proof.
  intros Hok Hl Ha. unfold tbl_ok in Hok. apply andb_true_iff in Hok. destruct Hok as [Hd Hall]. split.
  - intros ->. rewrite Hl, Ha in Hd. discriminate.
  - intros Hf. apply assoc_str_in in Hl. rewrite forallb_forall in Hall. specialize (Hall _ Hl).
    cbn [fst snd] in Hall. apply andb_true_iff in Hall. destruct Hall as [_ Hw].
    rewrite Hf, orb_false_r in Hw. unfold act_no_writer in Hw. rewrite Ha in Hw. exact Hw.
Qed.

Section C13.
Variable tc : tl_consts.
Variable dec : string -> option (string * Z * Z).

(* ---------- the swap's chain/version are functions of its request ---------- *)
Lemma lbtc_v7_same_req d' d :
  d_in_req d' = d_in_req d -> d_out_req d' = d_out_req d -> is_lbtc_v7 tc d' = is_lbtc_v7 tc d.
Proof.
  intros Hi Ho. unfold is_lbtc_v7, get_chain, get_asset, get_network, get_request, get_version.
  rewrite Hi, Ho. destruct (d_in_req d); [reflexivity|]. destruct (d_out_req d); reflexivity.
Qed.

Lemma lbtc_v7_core d d' : same_core d d' -> is_lbtc_v7 tc d' = is_lbtc_v7 tc d.
Proof. intros (Hi & Ho & _). apply lbtc_v7_same_req; assumption. Qed.

(* the anchor of a Liquid protocol-7 swap is left alone *)
Definition keeps (d d' : swap_data) : Prop :=
  is_lbtc_v7 tc d = true -> d_start_set d' = d_start_set d /\ d_start_height d' = d_start_height d.

Lemma keeps_refl d : keeps d d.
Proof. intros _. auto. Qed.

Lemma pay_loop_keeps n : forall csvh pol payreq d w r w' es,
  pay_loop n csvh pol payreq d w = (r, w', es) -> keeps d (snd r).
Proof.
  induction n as [|n IH]; intros csvh pol payreq d w r w' es H.
  - rewrite pay_loop_O in H. msym. apply keeps_refl.
  - rewrite pay_loop_S in H. msym; try apply keeps_refl; try (intros _; cbn; split; reflexivity).
    eapply IH; eauto.
Qed.

Lemma leaf_keeps name f : In (name, f) (leaf_actions tc dec) -> is_writer name = false ->
  forall d w r w' es, f d w = (r, w', es) -> keeps d (snd r).
Proof.
  intros Hin Hw d w r w' es H. leaf_cases Hin; try discriminate Hw.
  all: autounfold with actions in H; msym.
  all: try apply keeps_refl.
  all: try (intros _; cbn; split; reflexivity).
  all: try (eapply pay_loop_keeps; eauto; fail).
  all: intros Hl; cbn; rewrite Hl in *; discriminate.
Qed.

Lemma lbtc_v7_blinding d k : is_lbtc_v7 tc (d <| d_blinding_hex := k |>) = is_lbtc_v7 tc d.
Proof. destruct d; reflexivity. Qed.
Lemma lbtc_v7_fsm_state d s : is_lbtc_v7 tc (d <| d_fsm_state := s |>) = is_lbtc_v7 tc d.
Proof. destruct d; reflexivity. Qed.
Lemma lbtc_v7_opening_hex d s : is_lbtc_v7 tc (d <| d_opening_hex := s |>) = is_lbtc_v7 tc d.
Proof. destruct d; reflexivity. Qed.

(* an action tree without an anchor writer leaves the anchor alone: by the unfolding
   equation of exec, because this fact depends on the NAMES in the tree *)
Lemma exec_keeps fuel : forall a d w r w' es,
  no_writer a = true -> exec tc dec fuel a d w = (r, w', es) -> keeps d (snd r).
Proof.
  induction fuel as [|fuel IH]; intros [name ch] d w r w' es Hnw H.
  - rewrite exec_O in H. msym. apply keeps_refl.
  - rewrite exec_S in H. cbv zeta in H. cbn [no_writer] in Hnw. apply andb_true_iff in Hnw.
    destruct Hnw as [Hname Hch]. apply negb_true_iff in Hname.
    assert (Next : forall d' w1 r1 w2 e1,
              (match first_child ch with Some c => exec tc dec fuel c d' | None => ret (Ev_Unknown, d') end) w1
              = (r1, w2, e1) -> keeps d' (snd r1)).
    { clear H. intros d' w1 r1 w2 e1 Hn. destruct ch as [|c ch']; cbn [first_child] in Hn.
      - apply ret_inv in Hn. destruct Hn as (-> & _ & _). apply keeps_refl.
      - eapply IH; eauto. }
    destruct (String.eqb name "CheckRequestWrapperAction").
    { apply bind_inv in H. destruct H as (cr & w1 & e1 & e2 & Hc & H & ->).
      destruct cr as [[|]|].
      - eapply Next; eauto.
      - unfold log_rejected in H. msym. apply keeps_refl.
      - msym. apply keeps_refl. }
    destruct (String.eqb name "SetBlindingKeyActionWrapper").
    { destruct (String.eqb (get_chain d) lbtc_chain) eqn:El.
      - apply bind_inv in H. destruct H as (k & w1 & e1 & e2 & Hp & H & ->).
        apply Next in H. intros Hl. rewrite <- (lbtc_v7_blinding d k) in Hl. destruct (H Hl) as [A B].
        split; [rewrite A|rewrite B]; destruct d; reflexivity.
      - eapply Next; eauto. }
    destruct (String.eqb name "StopSendMessageWithRetryWrapperAction").
    { apply bind_inv in H. destruct H as (u & w1 & e1 & e2 & He & H & ->). eapply Next; eauto. }
    destruct (String.eqb name "CheckPremiumAmount").
    { destruct (check_premium d) as [[|]|].
      - eapply Next; eauto.
      - msym. apply keeps_refl.
      - msym. apply keeps_refl. }
    destruct (String.eqb name "AddSuspiciousPeerAction").
    { apply bind_inv in H. destruct H as (ok & w1 & e1 & e2 & Hp & H & ->).
      apply bind_inv in H. destruct H as (u & w2 & e3 & e4 & He & H & ->). eapply Next; eauto. }
    destruct (assoc_str name (leaf_actions tc dec)) as [f|] eqn:Ef.
    + apply assoc_str_in in Ef. eapply leaf_keeps; eauto.
    + msym. apply keeps_refl.
Qed.

(* ---------- facts that hold of every action tree (generic exec rule) ---------- *)

(* a pubkey-revealing message is only ever sent from the pending-message slot *)
Definition send_ok (d : swap_data) (e : effect) : Prop :=
  match e with ESend _ msg => pubkey_msg msg = true -> d_next_msg d = Some msg | _ => True end.

(* a pending pubkey-revealing message of a Liquid v7 swap comes with the anchor *)
Definition pend_ok (d : swap_data) : Prop :=
  forall msg, d_next_msg d = Some msg -> pubkey_msg msg = true -> is_lbtc_v7 tc d = true -> d_start_set d = true.

Definition Q1 (d : swap_data) (r : string * swap_data) (es : list effect) : Prop :=
  Forall (send_ok d) es /\ (pend_ok d -> pend_ok (snd r)).

Lemma Q1_same d ev : Q1 d (ev, d) [].
Proof. split; [constructor|auto]. Qed.

Lemma pay_loop_Q1 n : forall csvh pol payreq d w r w' es,
  pay_loop n csvh pol payreq d w = (r, w', es) -> Q1 d r es.
Proof.
  induction n as [|n IH]; intros csvh pol payreq d w r w' es H.
  - rewrite pay_loop_O in H. msym. apply Q1_same.
  - rewrite pay_loop_S in H. msym; list_simpl; try apply Q1_same.
    + split; [repeat constructor|]. intros Hp msg. cbn. intros Hm Hk Hl.
      rewrite (lbtc_v7_same_req _ d) in Hl by reflexivity. eauto.
    + destruct (IH _ _ _ _ _ _ _ _ H) as [F Hp]. split; [|exact Hp]. constructor; [exact Logic.I|exact F].
Qed.

Ltac pend_tac d :=
  let Hp := fresh "Hp" in let msg := fresh "msg" in let Hm := fresh "Hm" in
  let Hk := fresh "Hk" in let Hl := fresh "Hl" in
  intros Hp msg Hm Hk Hl; cbn in Hm;
  rewrite (lbtc_v7_same_req _ d) in Hl by reflexivity; cbn;
  try (inversion Hm; subst; cbn in Hk; discriminate);
  try (eapply Hp; eauto; fail).

Lemma leaf_Q1 name f : In (name, f) (leaf_actions tc dec) ->
  forall d w r w' es, f d w = (r, w', es) -> Q1 d r es.
Proof.
  intros Hin d w r w' es H. leaf_cases Hin.
  all: autounfold with actions in H; msym; list_simpl.
  all: try apply Q1_same.
  all: try (eapply pay_loop_Q1; eauto; fail).
  all: try (match goal with Hpl : pay_loop _ _ _ _ _ _ = _ |- _ =>
              apply pay_loop_Q1 in Hpl; destruct Hpl as [Fp Hpp]; split;
              [constructor; [exact Logic.I|exact Fp]|exact Hpp] end).
  all: split; [repeat constructor; cbn; auto; try discriminate|].
  all: try (pend_tac d; fail).
  all: try (pend_tac d; apply negb_false_iff in Eif; rewrite Eif in *; try discriminate; reflexivity).
  all: pend_tac d.
  all: try (apply negb_true_iff in Eif; rewrite Eif in Hl; discriminate).
Qed.

Lemma pend_ok_blinding d k : pend_ok (d <| d_blinding_hex := k |>) <-> pend_ok d.
Proof.
  unfold pend_ok. rewrite lbtc_v7_blinding. destruct d; cbn. tauto.
Qed.

Theorem exec_Q1 fuel a d w r w' es : exec tc dec fuel a d w = (r, w', es) -> Q1 d r es.
Proof.
  apply (exec_rule tc dec Q1).
  - intros. eapply leaf_Q1; eauto.
  - intros. apply Q1_same.
  - intros. split; [repeat constructor|auto].
  - intros. apply Q1_same.
  - intros d0 k r0 es0 _ [F Hp]. split.
    + eapply Forall_impl; [|exact F]. intros e He. destruct e; try exact Logic.I. destruct d0; exact He.
    + intros H0. apply Hp. apply pend_ok_blinding. exact H0.
  - intros d0 r0 es0 [F Hp]. split; [constructor; [exact Logic.I|exact F]|exact Hp].
  - intros. apply Q1_same.
  - auto.
  - intros d0 r0 es0 [F Hp]. split; [constructor; [exact Logic.I|exact F]|exact Hp].
Qed.

(* a claim payment of a Liquid swap is attempted only with the anchor set (from C04's guard) *)
Lemma c04_guard_set d p s mx tip r :
  c04_guard tc d (EPayClaim p s mx tip r) = true ->
  String.eqb (get_chain d) lbtc_chain = true -> d_start_set d = true.
Proof.
  unfold c04_guard. destruct (timelock_policy tc d) as [pol|]; [|discriminate].
  intros H Hc. rewrite Hc in H. apply andb_true_iff in H. destruct H as [_ H].
  unfold check_payment_window in H. apply andb_true_iff in H. destruct H as [H _].
  apply andb_true_iff in H. destruct H as [H _]. exact H.
Qed.

(* ---------- invariant, relation, effect predicate ---------- *)
Definition rec_inv (s : string) (d : swap_data) : Prop :=
  (s = EmptyString -> d_start_set d = false /\ d_next_msg d = None) /\ pend_ok d.

Definition Inv (m : machine) : Prop := rec_inv (m_cur m) (m_data m).

Definition Rel (lp d : swap_data) : Prop :=
  is_lbtc_v7 tc lp = true -> d_start_set lp = true ->
  is_lbtc_v7 tc d = true /\ d_start_set d = true /\ d_start_height d = d_start_height lp.

Definition Pg (lp : swap_data) (e : effect) : Prop :=
  c13_guard tc lp e = true /\ match e with EPersist s d _ => rec_inv s d | _ => True end.

Lemma Rel_refl d : Rel d d.
Proof. intros A B. auto. Qed.

Lemma Rel_trans a b c : Rel a b -> Rel b c -> Rel a c.
Proof.
  intros H1 H2 A B. destruct (H1 A B) as (A' & B' & C'). destruct (H2 A' B') as (A2 & B2 & C2).
  repeat split; auto. congruence.
Qed.

Lemma pend_ok_fsm_state d s : pend_ok (d <| d_fsm_state := s |>) <-> pend_ok d.
Proof. unfold pend_ok. rewrite lbtc_v7_fsm_state. destruct d; cbn. tauto. Qed.

Lemma guard_fsm_state d s e : c13_guard tc (d <| d_fsm_state := s |>) e = c13_guard tc d e.
Proof.
  destruct e; try reflexivity; cbn [c13_guard]; rewrite ?lbtc_v7_fsm_state; destruct d; reflexivity.
Qed.

(* what one action execution on data d0 gives, for the three parts of the rule *)
Lemma exec_effects fuel a d0 w ev' d' w' es :
  pend_ok d0 -> exec tc dec fuel a d0 w = ((ev', d'), w', es) ->
  Forall (fun e => Pg d0 e /\ not_persist e) es /\ pend_ok d' /\ is_lbtc_v7 tc d' = is_lbtc_v7 tc d0.
Proof.
  intros Hp H.
  pose proof (exec_Q1 _ _ _ _ _ _ _ H) as [Fs Hp'].
  pose proof (exec_guard tc dec _ _ _ _ _ _ _ H) as Fg.
  pose proof (exec_core tc dec _ _ _ _ _ _ _ H) as Hc. cbn [snd] in *.
  split; [|split; [auto|apply lbtc_v7_core; exact Hc]].
  rewrite Forall_forall in *. intros e Hin. specialize (Fs e Hin). destruct (Fg e Hin) as [Hg Hn].
  split; [|exact Hn]. split; [|destruct e; try exact Logic.I; contradiction].
  destruct e; try reflexivity; cbn [c13_guard].
  - contradiction.
  - cbn [send_ok] in Fs. destruct (pubkey_msg m) eqn:Hk; [|reflexivity].
    destruct (is_lbtc_v7 tc d0) eqn:Hl; [|reflexivity]. cbn [andb]. eapply Hp; eauto.
  - destruct (String.eqb (get_chain d0) lbtc_chain) eqn:Hch; [|reflexivity].
    eapply c04_guard_set; eauto.
Qed.

Section Table.
Variable t : table.
Variable terminal : list string.
Hypothesis Htbl : tbl_ok t = true.

Lemma Rel_exec fuel a (m : machine) d0 w ev' d' w' es :
  Inv m -> d_start_set d0 = d_start_set (m_data m) -> d_start_height d0 = d_start_height (m_data m) ->
  is_lbtc_v7 tc d0 = is_lbtc_v7 tc (m_data m) ->
  (m_cur m <> EmptyString -> no_writer a = true) ->
  exec tc dec fuel a d0 w = ((ev', d'), w', es) -> is_lbtc_v7 tc d' = is_lbtc_v7 tc d0 ->
  Rel (m_data m) d'.
Proof.
  intros [Hfresh _] Hs Hh Hl Hnw H Hl' A B.
  destruct (String.eqb (m_cur m) EmptyString) eqn:Hc.
  - apply String.eqb_eq in Hc. destruct (Hfresh Hc) as [Hu _]. congruence.
  - assert (Hne : m_cur m <> EmptyString) by (intros Hx; rewrite Hx in Hc; discriminate).
    pose proof (exec_keeps _ _ _ _ _ _ _ (Hnw Hne) H) as Hk. cbn [snd] in Hk. unfold keeps in Hk.
    rewrite Hl in Hk. destruct (Hk A) as [K1 K2]. repeat split; congruence.
Qed.

Lemma c13_persist (m1 : machine) lp1 ok : Inv m1 -> Rel lp1 (m_data m1) ->
  Pg lp1 (EPersist (m_cur m1) (m_data m1) ok).
Proof.
  intros HI HR. split; [|exact HI]. cbn [c13_guard].
  destruct (is_lbtc_v7 tc lp1) eqn:A; [|reflexivity]. destruct (d_start_set lp1) eqn:B; [|reflexivity].
  destruct (HR A B) as (A' & B' & C'). cbn [andb]. rewrite A', B', C', Z.eqb_refl. reflexivity.
Qed.

Lemma c13_act_rule :
  forall m1 ev nxt sd act, Inv m1 -> True ->
    next_state t (m_cur m1) ev = Some nxt -> lookup_state t nxt = Some sd -> st_action sd = Some act ->
    forall w1 ev' d' w2 es1,
      exec tc dec action_fuel act (m_data (enter m1 nxt)) w1 = ((ev', d'), w2, es1) ->
      Forall (fun e => Pg (m_data m1) e /\ not_persist e) es1 /\
      Inv ((enter m1 nxt) <| m_data := d' |>) /\ True /\ Rel (m_data m1) d'.
Proof.
  intros m1 ev nxt sd act HI _ Hn Hl Ha w1 ev' d' w2 es1 Hex.
  destruct (tbl_next _ _ _ _ _ _ Htbl Hn Hl Ha) as [Hne Hnw].
  assert (Hp0 : pend_ok (m_data (enter m1 nxt))).
  { cbn. apply pend_ok_fsm_state. exact (proj2 HI). }
  destruct (exec_effects _ _ _ _ _ _ _ _ Hp0 Hex) as (F & Hp' & Hl').
  split; [|split; [|split; [exact Logic.I|]]].
  - eapply Forall_impl; [|exact F]. cbn. intros e [[Hg Hr] Hnp]. split; [|exact Hnp]. split.
    + rewrite <- Hg. symmetry. apply guard_fsm_state.
    + destruct e; try exact Logic.I. contradiction.
  - split; [|exact Hp']. cbn. intros Hx. contradiction.
  - eapply (Rel_exec _ act m1); try exact Hex; auto; try (cbn; destruct (m_data m1); reflexivity).
Qed.

Lemma c13_recover_rule :
  forall m1 sd act, Inv m1 -> lookup_state t (m_cur m1) = Some sd -> st_action sd = Some act ->
    (st_fail_on_recover sd = true -> True) /\
    (st_fail_on_recover sd = false ->
     forall w1 ev' d' w2 es1,
       exec tc dec action_fuel act (m_data m1) w1 = ((ev', d'), w2, es1) ->
       Forall (fun e => Pg (m_data m1) e /\ not_persist e) es1 /\
       Inv (m1 <| m_data := d' |>) /\ True /\ Rel (m_data m1) d').
Proof.
  intros m1 sd act HI Hl Ha. split; [auto|]. intros Hf w1 ev' d' w2 es1 Hex.
  destruct (tbl_recover _ _ _ _ Htbl Hl Ha) as [Hne Hnw].
  destruct (exec_effects _ _ _ _ _ _ _ _ (proj2 HI) Hex) as (F & Hp' & Hl').
  split; [exact F|split; [|split; [exact Logic.I|]]].
  - split; [|exact Hp']. cbn. intros Hx. contradiction.
  - eapply (Rel_exec _ act m1); try exact Hex; auto.
Qed.

(* requests reach only machines that do not exist yet *)
Lemma allowed_ok h m i : Inv m -> input_allowed h m i = true -> input_ok_rel Inv Rel (fun _ _ => True) m i.
Proof.
  intros [Hfresh Hp] Hal. unfold input_allowed in Hal.
  destruct (hs_down h).
  { destruct i; try discriminate. exact Logic.I. }
  assert (Hreq : String.eqb (m_cur m) EmptyString = true ->
            forall d', (d_start_set d' = d_start_set (m_data m)) -> d_next_msg d' = d_next_msg (m_data m) ->
            Inv (m <| m_data := d' |>) /\ True /\ Rel (m_data m) d').
  { intros Hc d' Hs Hm. apply String.eqb_eq in Hc. destruct (Hfresh Hc) as [Hu Hn].
    split; [split|split; [exact Logic.I|]].
    - cbn. intros _. split; congruence.
    - cbn. intros msg Hx. rewrite Hm, Hn in Hx. discriminate.
    - intros _ B. congruence. }
  assert (Hoth : forall d', d_in_req d' = d_in_req (m_data m) -> d_out_req d' = d_out_req (m_data m) ->
            d_start_set d' = d_start_set (m_data m) -> d_start_height d' = d_start_height (m_data m) ->
            d_next_msg d' = d_next_msg (m_data m) ->
            Inv (m <| m_data := d' |>) /\ True /\ Rel (m_data m) d').
  { intros d' Hi Ho Hs Hh Hm. pose proof (lbtc_v7_same_req d' (m_data m) Hi Ho) as Hl.
    split; [split|split; [exact Logic.I|]].
    - cbn. intros Hc. rewrite Hs, Hm. auto.
    - cbn. intros msg Hx Hk Hl2. rewrite Hs. rewrite Hm in Hx. rewrite Hl in Hl2. eauto.
    - intros A B. split; [|split]; congruence. }
  destruct i as [ev ctx|rq|hex err| | |]; cbn [input_ok_rel]; auto.
  - destruct ctx as [c|]; cbn [ctx_ok_rel]; [|exact Logic.I]. split; [exact Logic.I|].
    intros d' _ Hap. unfold service_event in Hal.
    destruct c; cbn [apply_ctx] in Hap;
      match type of Hap with
      | match ?x with Some _ => None | None => _ end = _ => destruct x; [discriminate|]
      | _ => idtac
      end; inversion Hap; subst d'.
    all: try (apply andb_true_iff in Hal; destruct Hal as [Hc _]).
    1,2: apply Hreq; [exact Hc|destruct (m_data m); reflexivity|destruct (m_data m); reflexivity].
    all: apply Hoth; destruct (m_data m); reflexivity.
  - cbn [ctx_ok_rel]. split; [exact Logic.I|]. intros d' _ Hap. cbn [apply_ctx] in Hap.
    destruct (d_in_req (m_data m)); [discriminate|]. inversion Hap; subst d'.
    apply Hreq; [exact Hal|destruct (m_data m); reflexivity|destruct (m_data m); reflexivity].
  - split; [auto|]. intros m0 [Hf0 Hp0] _. split; [split|split; [exact Logic.I|]].
    + cbn. intros Hc. destruct (Hf0 Hc) as [A B]. destruct (m_data m0); cbn in *. auto.
    + cbn. intros msg Hx Hk Hl. rewrite lbtc_v7_opening_hex in Hl.
      assert (Hx' : d_next_msg (m_data m0) = Some msg) by (destruct (m_data m0); exact Hx).
      specialize (Hp0 msg Hx' Hk Hl). destruct (m_data m0); exact Hp0.
    + intros A B. rewrite lbtc_v7_opening_hex. destruct (m_data m0); cbn in *. auto.
Qed.

Lemma restore_ok (m : machine) s d lp : Pg lp (EPersist s d true) ->
  Inv (m <| m_cur := s |> <| m_prev := EmptyString |> <| m_data := d |> <| m_retries := 0 |>).
Proof. intros [_ H]. exact H. Qed.

Lemma trace_ok_impl (P1 P2 : swap_data -> effect -> Prop) :
  (forall lp e, P1 lp e -> P2 lp e) -> forall es lp, trace_ok P1 lp es -> trace_ok P2 lp es.
Proof. intros Hi. induction es as [|e r IH]; intros lp; cbn; auto. intros [A B]. auto. Qed.

(* every admissible history over a table that passes the check *)
Theorem hist_c13 m0 its :
  Inv m0 -> hist_ok tc dec t terminal (init_hstate m0) its = true ->
  trace_okb (c13_guard tc) (m_data m0) (hs_trace (run_hist tc dec t terminal (init_hstate m0) its)) = true.
Proof.
  intros HI Hok. apply trace_okb_ok. apply (trace_ok_impl Pg); [intros lp e [H _]; exact H|].
  apply (hist_rel tc dec t terminal Inv Rel Pg (fun _ _ => True)); auto.
  - apply Rel_refl.
  - apply Rel_trans.
  - apply c13_persist.
  - apply c13_act_rule.
  - apply c13_recover_rule.
  - apply allowed_ok.
  - apply restore_ok.
Qed.

End Table.
End C13.

(* ---------- for the constants and tables of the code ---------- *)
Lemma guard_gen_is_spec lp e : c13_guard tl_consts_gen lp e = c13_spec_guard lp e.
Proof. destruct e; reflexivity. Qed.

Lemma taker_tables_ok : tbl_ok table_swap_out_sender = true /\ tbl_ok table_swap_in_receiver = true.
Proof. split; vm_compute; reflexivity. Qed.

(* the check is not vacuous: the maker tables (whose opening action re-anchors) do not pass it *)
Lemma maker_tables_fail : tbl_ok table_swap_in_sender = false /\ tbl_ok table_swap_out_receiver = false.
Proof. split; vm_compute; reflexivity. Qed.

Lemma fresh_inv tc id ty role peer init priv : Inv tc (fresh_machine id ty role peer init priv).
Proof. split; cbn; [auto|]. intros msg H. discriminate. Qed.

Definition taker_table (t : table) : Prop := t = table_swap_out_sender \/ t = table_swap_in_receiver.

Theorem hist_c13_any_table dec t terminal m0 its :
  tbl_ok t = true -> Inv tl_consts_gen m0 ->
  hist_ok tl_consts_gen dec t terminal (init_hstate m0) its = true ->
  trace_okb c13_spec_guard (m_data m0) (hs_trace (run_hist tl_consts_gen dec t terminal (init_hstate m0) its)) = true.
Proof.
  intros Ht HI Hok. pose proof (hist_c13 tl_consts_gen dec t terminal Ht m0 its HI Hok) as H.
  rewrite <- H. clear H. generalize (hs_trace (run_hist tl_consts_gen dec t terminal (init_hstate m0) its)).
  generalize (m_data m0). intros lp l. revert lp. induction l as [|e r IH]; intros lp; cbn; [reflexivity|].
  rewrite <- guard_gen_is_spec, IH. reflexivity.
Qed.

Theorem hist_c13_spec dec t terminal id ty role peer init priv its :
  taker_table t ->
  let m0 := fresh_machine id ty role peer init priv in
  hist_ok tl_consts_gen dec t terminal (init_hstate m0) its = true ->
  trace_okb c13_spec_guard (m_data m0) (hs_trace (run_hist tl_consts_gen dec t terminal (init_hstate m0) its)) = true.
Proof.
  intros Ht m0 Hok. apply hist_c13_any_table; auto.
  - destruct Ht as [-> | ->]; apply taker_tables_ok.
  - apply fresh_inv.
Qed.

(* ---------- the three clauses in plain words ---------- *)
Definition spec_ok (lp : swap_data) (e : effect) : Prop := c13_spec_guard lp e = true.

Lemma lp_end_cases es : forall lp,
  lp_end lp es = lp \/ exists s pre post, es = (pre ++ EPersist s (lp_end lp es) true :: post)%list.
Proof.
  induction es as [|e l IH] using rev_ind; intros lp; [left; reflexivity|].
  rewrite lp_end_app. cbn [lp_end fold_left].
  assert (Hkeep : lp_step (fold_left lp_step l lp) e = fold_left lp_step l lp ->
            lp_step (fold_left lp_step l lp) e = lp \/
            exists s pre post, (l ++ [e])%list = (pre ++ EPersist s (lp_step (fold_left lp_step l lp) e) true :: post)%list).
  { intros Hk. rewrite Hk. destruct (IH lp) as [H|(s & pre & post & H)]; [left; exact H|right].
    exists s, pre, (post ++ [e])%list. unfold lp_end in H.
    transitivity ((pre ++ EPersist s (fold_left lp_step l lp) true :: post) ++ [e])%list.
    - f_equal. exact H.
    - rewrite <- app_assoc. reflexivity. }
  destruct e; try (apply Hkeep; reflexivity).
  destruct ok; [|apply Hkeep; reflexivity].
  right. exists state, l, []. reflexivity.
Qed.

(* (1) when swap_out_request / swap_in_agreement of a Liquid protocol-7 swap is handed to the
   messenger, the last DURABLE record has the anchor; that record was written by an earlier,
   successful store write of this trace *)
Theorem sent_after_stored d0 tr pre p m post :
  trace_okb c13_spec_guard d0 tr = true -> tr = (pre ++ ESend p m :: post)%list ->
  pubkey_msg m = true -> liquid7 (lp_end d0 pre) = true ->
  d_start_set (lp_end d0 pre) = true /\
  (liquid7 d0 = false -> exists s pre1 pre2, pre = (pre1 ++ EPersist s (lp_end d0 pre) true :: pre2)%list).
Proof.
  intros H -> Hk Hl. apply trace_okb_ok in H. apply trace_ok_app in H. destruct H as [_ H].
  cbn in H. destruct H as [H _]. rewrite Hk, Hl in H. split; [exact H|].
  intros H0. destruct (lp_end_cases pre d0) as [E|E]; [|exact E]. rewrite E in Hl. congruence.
Qed.

(* (2) once a durable record of a Liquid protocol-7 swap carries an anchor, every later store
   write (durable or not) carries the same anchor *)
Lemma stable_suffix : forall es lp,
  trace_ok spec_ok lp es -> liquid7 lp = true -> d_start_set lp = true ->
  forall pre s d ok post, es = (pre ++ EPersist s d ok :: post)%list ->
  d_start_set d = true /\ d_start_height d = d_start_height lp.
Proof.
  induction es as [|e r IH]; intros lp T Hl Hs pre s d ok post E.
  - destruct pre; discriminate.
  - destruct T as [He T]. destruct pre as [|e' pre]; cbn in E; inversion E; subst.
    + unfold spec_ok in He. cbn in He. rewrite Hl, Hs in He. cbn in He.
      apply andb_true_iff in He. destruct He as [He _]. apply andb_true_iff in He. destruct He as [A B].
      apply Z.eqb_eq in B. auto.
    + destruct e'; cbn [lp_step] in T; try (eapply IH; eauto; fail).
      destruct ok0; [|eapply IH; eauto].
      unfold spec_ok in He. cbn in He. rewrite Hl, Hs in He. cbn in He.
      apply andb_true_iff in He. destruct He as [He C]. apply andb_true_iff in He. destruct He as [A B].
      apply Z.eqb_eq in B. destruct (IH d0 T C A pre s d ok post eq_refl) as [X Y]. split; congruence.
Qed.

Theorem anchor_never_changes d0 tr a s1 d1 b s2 d2 ok c :
  trace_okb c13_spec_guard d0 tr = true ->
  tr = (a ++ EPersist s1 d1 true :: b ++ EPersist s2 d2 ok :: c)%list ->
  liquid7 d1 = true -> d_start_set d1 = true ->
  d_start_set d2 = true /\ d_start_height d2 = d_start_height d1.
Proof.
  intros H -> Hl Hs. apply trace_okb_ok in H. apply trace_ok_app in H. destruct H as [_ H].
  cbn [trace_ok lp_step] in H. destruct H as [_ H].
  eapply (stable_suffix _ d1 H Hl Hs b); reflexivity.
Qed.

(* (3) a claim payment of a Liquid swap is attempted only when the durable record has the anchor *)
Theorem no_payment_without_anchor d0 tr pre payreq scid mx tip res post :
  trace_okb c13_spec_guard d0 tr = true -> tr = (pre ++ EPayClaim payreq scid mx tip res :: post)%list ->
  get_chain (lp_end d0 pre) = lbtc_chain -> d_start_set (lp_end d0 pre) = true.
Proof.
  intros H -> Hc. apply trace_okb_ok in H. apply trace_ok_app in H. destruct H as [_ H].
  cbn in H. destruct H as [H _]. rewrite Hc in H. exact H.
Qed.

(* ---------- non-vacuity: a Liquid protocol-7 swap-out whose request leaves after the anchor
   (height 1000) is durable; then the process dies and restarts ---------- *)
Definition ex_pk : string := "020000000000000000000000000000000000000000000000000000000000000001".
Definition ex_asset : string := "5ac9f65c0efcc4775e0baec4ec03abdde22473cd3cf33c0419ca290e0751b225aa".
Definition ex_req : req := mkReq 7 "id" "" ex_asset "1x2x3" 100000 ex_pk 1000.
Definition ex_world (heights : list (option Z)) : world :=
  mkWorld true true true 0 true false ex_asset "" (Some 0) ex_pk [] heights [true] [true; true; true; true]
    [] [] [] [] [] [] [] [] [] [] [] [] [] [] [] [] false.
Definition ex_m0 : machine := fresh_machine "id" 2 1 "peer" "me" "key".
Definition ex_hist : list hitem :=
  [HStep (InEvent "Event_OnSwapOutStarted" (Some (MOutReq ex_req))) (ex_world [Some 1000]);
   HCrash InTimeout (ex_world []) 1; HStep InRecover (ex_world [])].

Example ex_history_ok :
  let h := run_hist tl_consts_gen (fun _ => None) table_swap_out_sender terminal_states (init_hstate ex_m0) ex_hist in
  hist_ok tl_consts_gen (fun _ => None) table_swap_out_sender terminal_states (init_hstate ex_m0) ex_hist = true /\
  existsb (fun e => match e with ESend _ (MOutReq _) => true | _ => false end) (hs_trace h) = true /\
  liquid7 (lp_end (m_data ex_m0) (hs_trace h)) = true /\
  d_start_set (lp_end (m_data ex_m0) (hs_trace h)) = true /\
  d_start_height (lp_end (m_data ex_m0) (hs_trace h)) = 1000.
Proof. vm_compute. repeat split; reflexivity. Qed.
