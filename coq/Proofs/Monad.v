(* Reasoning principles for the step monad M (world-threading writer). *)
From Coq Require Import String ZArith Bool List.
From PS Require Import Model.Data Model.Actions.
Import ListNotations.

Lemma bind_inv {A B} (m : M A) (f : A -> M B) w b w2 es :
  bind m f w = (b, w2, es) ->
  exists a w1 e1 e2, m w = (a, w1, e1) /\ f a w1 = (b, w2, e2) /\ es = e1 ++ e2.
Proof.
  unfold bind. destruct (m w) as [[a w1] e1] eqn:Hm.
  destruct (f a w1) as [[b' w2'] e2] eqn:Hf. intros H. inversion H; subst.
  exists a, w1, e1, e2. auto.
Qed.

Lemma ret_inv {A} (a : A) w b w' es : ret a w = (b, w', es) -> b = a /\ w' = w /\ es = [].
Proof. unfold ret. intros H. inversion H. auto. Qed.

Lemma emit_inv e w u w' es : emit e w = (u, w', es) -> w' = w /\ es = [e].
Proof. unfold emit. intros H. inversion H. auto. Qed.

Lemma ask_inv {A} (f : world -> A) w a w' es : ask f w = (a, w', es) -> a = f w /\ w' = w /\ es = [].
Proof. unfold ask. intros H. inversion H. auto. Qed.

Lemma pop_inv {A} get put (dflt : A) w a w' es :
  pop get put dflt w = (a, w', es) -> es = [].
Proof. unfold pop. destruct (get w); intros H; inversion H; auto. Qed.

(* [emits P m]: every effect m can emit satisfies P *)
Definition emits {A} (P : effect -> Prop) (m : M A) : Prop :=
  forall w a w' es, m w = (a, w', es) -> Forall P es.

Lemma emits_ret {A} (P : effect -> Prop) (a : A) : emits P (ret a).
Proof. intros w b w' es H. apply ret_inv in H. destruct H as (_ & _ & ->). constructor. Qed.

Lemma emits_emit (P : effect -> Prop) e : P e -> emits P (emit e).
Proof. intros HP w u w' es H. apply emit_inv in H. destruct H as (_ & ->). auto. Qed.

Lemma emits_ask {A} (P : effect -> Prop) (f : world -> A) : emits P (ask f).
Proof. intros w a w' es H. apply ask_inv in H. destruct H as (_ & _ & ->). constructor. Qed.

Lemma emits_pop {A} (P : effect -> Prop) get put (dflt : A) : emits P (pop get put dflt).
Proof. intros w a w' es H. apply pop_inv in H. subst. constructor. Qed.

Lemma emits_bind {A B} (P : effect -> Prop) (m : M A) (f : A -> M B) :
  emits P m -> (forall a, emits P (f a)) -> emits P (bind m f).
Proof.
  intros Hm Hf w b w2 es H. apply bind_inv in H.
  destruct H as (a & w1 & e1 & e2 & H1 & H2 & ->).
  apply Forall_app. split; [eapply Hm; eauto | eapply Hf; eauto].
Qed.

Lemma emits_weaken {A} (P Q : effect -> Prop) (m : M A) :
  (forall e, P e -> Q e) -> emits P m -> emits Q m.
Proof. intros HPQ Hm w a w' es H. eapply Forall_impl; [exact HPQ | eapply Hm; eauto]. Qed.

(* [yields R m]: every result of m satisfies R *)
Definition yields {A} (R : A -> Prop) (m : M A) : Prop :=
  forall w a w' es, m w = (a, w', es) -> R a.

Lemma yields_ret {A} (R : A -> Prop) (a : A) : R a -> yields R (ret a).
Proof. intros HR w b w' es H. apply ret_inv in H. destruct H as (-> & _). auto. Qed.

Lemma yields_bind {A B} (R : B -> Prop) (m : M A) (f : A -> M B) :
  (forall a, yields R (f a)) -> yields R (bind m f).
Proof.
  intros Hf w b w2 es H. apply bind_inv in H.
  destruct H as (a & w1 & e1 & e2 & H1 & H2 & _). eapply Hf; eauto.
Qed.

(* both at once: the usual shape of an action lemma *)
Definition spec {A} (P : effect -> Prop) (R : A -> Prop) (m : M A) : Prop :=
  forall w a w' es, m w = (a, w', es) -> Forall P es /\ R a.

Lemma spec_intro {A} (P : effect -> Prop) (R : A -> Prop) m : emits P m -> yields R m -> spec P R m.
Proof. intros H1 H2 w a w' es H. split; [eapply H1 | eapply H2]; eauto. Qed.

Lemma spec_ret {A} (P : effect -> Prop) (R : A -> Prop) (a : A) : R a -> spec P R (ret a).
Proof. intros HR w b w' es H. apply ret_inv in H. destruct H as (-> & _ & ->). auto. Qed.

Lemma spec_bind {A B} (P : effect -> Prop) (R : B -> Prop) (m : M A) (f : A -> M B) :
  emits P m -> (forall a, spec P R (f a)) -> spec P R (bind m f).
Proof.
  intros Hm Hf w b w2 es H. apply bind_inv in H.
  destruct H as (a & w1 & e1 & e2 & H1 & H2 & ->).
  destruct (Hf a _ _ _ _ H2) as [F2 HR]. split; auto.
  apply Forall_app. split; auto. eapply Hm; eauto.
Qed.

(* a bind whose continuation may use what the first computation returned *)
Lemma spec_bind_dep {A B} (P : effect -> Prop) (Q : A -> Prop) (R : B -> Prop) (m : M A) (f : A -> M B) :
  spec P Q m -> (forall a, Q a -> spec P R (f a)) -> spec P R (bind m f).
Proof.
  intros Hm Hf w b w2 es H. apply bind_inv in H.
  destruct H as (a & w1 & e1 & e2 & H1 & H2 & ->).
  destruct (Hm _ _ _ _ H1) as [F1 HQ].
  destruct (Hf a HQ _ _ _ _ H2) as [F2 HR]. split; auto.
  apply Forall_app. split; auto.
Qed.

Lemma spec_weaken {A} (P P' : effect -> Prop) (R R' : A -> Prop) (m : M A) :
  (forall e, P e -> P' e) -> (forall a, R a -> R' a) -> spec P R m -> spec P' R' m.
Proof.
  intros HP HR Hm w a w' es H. destruct (Hm _ _ _ _ H) as [F Ha]. split; auto.
  eapply Forall_impl; eauto.
Qed.

Lemma spec_emits {A} (P : effect -> Prop) (R : A -> Prop) m : spec P R m -> emits P m.
Proof. intros H w a w' es E. apply (H _ _ _ _ E). Qed.

Lemma spec_pop {A} (P : effect -> Prop) (R : A -> Prop) get put (dflt : A) :
  (forall a, R a) -> spec P R (pop get put dflt).
Proof. intros HR w a w' es H. split; [|apply HR]. apply pop_inv in H. subst. constructor. Qed.

Lemma spec_ask {A} (P : effect -> Prop) (R : A -> Prop) (f : world -> A) :
  (forall w, R (f w)) -> spec P R (ask f).
Proof. intros HR w a w' es H. apply ask_inv in H. destruct H as (-> & _ & ->). split; [constructor|apply HR]. Qed.

Lemma spec_emit (P : effect -> Prop) (R : unit -> Prop) e : P e -> R tt -> spec P R (emit e).
Proof. intros HP HR w u w' es H. apply emit_inv in H. destruct H as (_ & ->). destruct u. auto. Qed.
