(* C16: soundness of the abstract "good late round" semantics of Model/C16Corr.v
   for ARBITRARY state tables, and the termination theorem it gives. *)
From Coq Require Import String ZArith Bool List Lia.
From RecordUpdate Require Import RecordSet.
From PS Require Import Base.Wrap Model.Data Model.Actions Model.Fsm Model.History Model.FsmCorr Model.C16Corr
  Gen.ConstsSwap Gen.Tables
  Proofs.Monad Proofs.ExecRule Proofs.MTac Proofs.WorldSym Proofs.Frame Proofs.Engine Proofs.HistRule.
Import ListNotations RecordSetNotations.
Open Scope Z_scope.

Strategy opaque [event_loop exec loop_fuel action_fuel pay_loop].

(* ---------- the constrained part of the world ---------- *)
Section Env.
Variable tc : tl_consts.

(* what is known about the answers still to come: [n] good spend/script answers are
   left, and (when kl) every height is late for data d *)
Definition env_ok (n : nat) (kl : bool) (d : swap_data) (w : world) : Prop :=
  good_world n w = true /\ (kl = true -> late_world tc d w = true).

Lemma good_world_core n w w' : wcore w' = wcore w -> good_world n w' = good_world n w.
Proof. unfold wcore, good_world. intros H. inversion H. congruence. Qed.

Lemma late_world_core d w w' : wcore w' = wcore w -> late_world tc d w' = late_world tc d w.
Proof. unfold wcore, late_world. intros H. inversion H. congruence. Qed.

Lemma env_core n kl d w w' : wcore w' = wcore w -> env_ok n kl d w -> env_ok n kl d w'.
Proof.
  intros H [G L]. split; [rewrite (good_world_core _ _ _ H); exact G|].
  intros Hk. rewrite (late_world_core _ _ _ H). auto.
Qed.

Lemma good_world_spec n w :
  good_world n w = true <->
  forallb (fun b => b) (q_store w) = true /\ forallb (@is_some string) (q_spend w) = true /\
  (n <= List.length (q_spend w))%nat /\ forallb (fun b => b) (q_script w) = true /\
  (n <= List.length (q_script w))%nat.
Proof.
  unfold good_world. rewrite !andb_true_iff, !Nat.leb_le. tauto.
Qed.

Lemma good_world_le n n' w : (n' <= n)%nat -> good_world n w = true -> good_world n' w = true.
Proof.
  rewrite !good_world_spec. intros Hle (H1 & H2 & H3 & H4 & H5). repeat split; auto; lia.
Qed.

Lemma env_le n n' kl d w : (n' <= n)%nat -> env_ok n kl d w -> env_ok n' kl d w.
Proof. intros Hle [G L]. split; auto. eapply good_world_le; eauto. Qed.

Lemma env_nolate n kl d d' w : env_ok n kl d w -> env_ok n false d' w.
Proof. intros [G _]. split; auto. discriminate. Qed.

Lemma env_pop_other {A} get put (dflt : A) n kl d w a w' :
  Popped get put dflt w a w' -> (forall r w0, wcore (put r w0) = wcore w0) ->
  env_ok n kl d w -> env_ok n kl d w'.
Proof. intros P Hput E. eapply env_core; [|exact E]. eapply popped_other; eauto. Qed.

Lemma env_pop_store n kl d w a w' :
  Popped q_store (fun r w => w <| q_store := r |>) true w a w' ->
  env_ok n kl d w -> a = true /\ env_ok n kl d w'.
Proof.
  intros [(r & Hq & ->)|(Hq & -> & ->)] [G L].
  - apply good_world_spec in G. destruct G as (G1 & G2 & G3 & G4 & G5).
    rewrite Hq in G1. cbn [forallb] in G1. apply andb_true_iff in G1. destruct G1 as [Ga G1].
    split; [assumption|]. split.
    + apply good_world_spec. destruct w; cbn in *. auto.
    + intros Hk. specialize (L Hk). unfold late_world in *. destruct w; cbn in *. exact L.
  - split; auto. eapply env_core; [apply wcore_overrun|]. split; auto.
Qed.

Lemma env_pop_spend n kl d w a w' :
  Popped q_spend (fun r w => w <| q_spend := r |>) None w a w' ->
  env_ok (S n) kl d w -> (exists x, a = Some x) /\ env_ok n kl d w'.
Proof.
  intros [(r & Hq & ->)|(Hq & -> & ->)] [G L]; apply good_world_spec in G; destruct G as (G1 & G2 & G3 & G4 & G5).
  - rewrite Hq in G2, G3. cbn [forallb List.length] in G2, G3. apply andb_true_iff in G2. destruct G2 as [Ga G2].
    split; [destruct a; [eauto|discriminate]|]. split.
    + apply good_world_spec. destruct w; cbn in *. repeat split; auto; lia.
    + intros Hk. specialize (L Hk). unfold late_world in *. destruct w; cbn in *. exact L.
  - exfalso. rewrite Hq in G3. cbn in G3. lia.
Qed.

Lemma env_pop_script n kl d w a w' :
  Popped q_script (fun r w => w <| q_script := r |>) false w a w' ->
  env_ok (S n) kl d w -> a = true /\ env_ok n kl d w'.
Proof.
  intros [(r & Hq & ->)|(Hq & -> & ->)] [G L]; apply good_world_spec in G; destruct G as (G1 & G2 & G3 & G4 & G5).
  - rewrite Hq in G4, G5. cbn [forallb List.length] in G4, G5. apply andb_true_iff in G4. destruct G4 as [Ga G4].
    split; [assumption|]. split.
    + apply good_world_spec. destruct w; cbn in *. repeat split; auto; lia.
    + intros Hk. specialize (L Hk). unfold late_world in *. destruct w; cbn in *. exact L.
  - exfalso. rewrite Hq in G5. cbn in G5. lia.
Qed.

Lemma env_pop_height n kl d w a w' :
  Popped q_height (fun r w => w <| q_height := r |>) None w a w' ->
  env_ok n kl d w ->
  env_ok n kl d w' /\ (kl = true -> a = None \/ exists h, a = Some h /\ late tc d h = true).
Proof.
  intros [(r & Hq & ->)|(Hq & -> & ->)] [G L].
  - split.
    + split.
      * apply good_world_spec in G. apply good_world_spec. destruct w; cbn in *. exact G.
      * intros Hk. specialize (L Hk). unfold late_world in *. rewrite Hq in L. cbn [forallb] in L.
        apply andb_true_iff in L. destruct L as [_ L]. destruct w; cbn in *. exact L.
    + intros Hk. specialize (L Hk). unfold late_world in L. rewrite Hq in L. cbn [forallb] in L.
      apply andb_true_iff in L. destruct L as [L _]. destruct a as [h|]; [right; eauto|left; reflexivity].
  - split; [|intros _; left; reflexivity]. eapply env_core; [apply wcore_overrun|]. split; auto.
Qed.

(* lateness only reads the anchor, the requests and the agreements *)
Definition same_anchor (d d' : swap_data) : Prop :=
  d_start_height d' = d_start_height d /\ d_start_set d' = d_start_set d /\
  d_in_req d' = d_in_req d /\ d_out_req d' = d_out_req d /\
  d_in_agr d' = d_in_agr d /\ d_out_agr d' = d_out_agr d.

Lemma late_same_anchor d d' h : same_anchor d d' -> late tc d' h = late tc d h.
Proof.
  intros (H1 & H2 & H3 & H4 & H5 & H6).
  unfold late, csv_height, timelock_policy, get_chain, get_version, get_asset, get_network, get_request,
    check_payment_window.
  rewrite H1, H2, H3, H4, H5, H6. reflexivity.
Qed.

Lemma env_weak n n' kl kl' d d' w :
  env_ok n kl d w -> (n' <= n)%nat -> (kl' = true -> kl = true /\ same_anchor d d') -> env_ok n' kl' d' w.
Proof.
  intros [G L] Hle Hk. split; [eapply good_world_le; eauto|].
  intros Hk'. destruct (Hk Hk') as [Hkl Ha]. specialize (L Hkl). unfold late_world in *.
  rewrite forallb_forall in *. intros oh Hin. specialize (L oh Hin).
  destruct oh as [h|]; cbn in *; [|exact L]. rewrite (late_same_anchor d d' h Ha). exact L.
Qed.

Lemma env_same_anchor n kl d d' w : same_anchor d d' -> env_ok n kl d w -> env_ok n kl d' w.
Proof.
  intros Ha [G L]. split; auto. intros Hk. specialize (L Hk). unfold late_world in *.
  rewrite forallb_forall in *. intros oh Hin. specialize (L oh Hin).
  destruct oh as [h|]; cbn in *; [|exact L]. rewrite (late_same_anchor d d' h Ha). exact L.
Qed.

End Env.

(* ---------- facts ---------- *)
Section Leaf.
Variable tc : tl_consts.
Variable dec : string -> option (string * Z * Z).

Lemma implb_true a b : implb a b = true <-> (a = true -> b = true).
Proof. destruct a, b; cbn; intuition congruence. Qed.

Lemma holds_spec k d :
  holds tc k d = true <->
  (k_chain k = true -> fk tc d = true) /\ (k_otb k = true -> is_some (d_otb d) = true) /\
  (k_outagr k = true -> is_some (d_out_agr d) = true) /\
  (k_openamt k = true -> is_some (get_opening_amount d) = true) /\
  (k_started k = true -> negb (d_start_height d =? 0) = true) /\
  (k_coop k = true -> is_some (d_coop d) = true) /\
  (k_claimamt k = true -> is_some (get_claim_amount d) = true) /\
  (k_blind k = true -> fblind d = true) /\
  (k_premium k = true -> is_some (check_premium d) = true).
Proof. unfold holds. rewrite !andb_true_iff, !implb_true. tauto. Qed.

Lemma fk_frame d d' :
  d_in_req d' = d_in_req d -> d_out_req d' = d_out_req d -> d_in_agr d' = d_in_agr d -> d_out_agr d' = d_out_agr d ->
  fk tc d' = fk tc d.
Proof.
  intros H1 H2 H3 H4.
  unfold fk, chain_known, timelock_policy, get_chain, get_version, get_asset, get_network, get_request.
  rewrite H1, H2, H3, H4. reflexivity.
Qed.

(* what every supported action leaves alone *)
Definition kframe (d d' : swap_data) : Prop :=
  d_in_req d' = d_in_req d /\ d_out_req d' = d_out_req d /\ d_in_agr d' = d_in_agr d /\ d_out_agr d' = d_out_agr d /\
  (is_some (d_otb d) = true -> is_some (d_otb d') = true).

Lemma holds_after_anchor k d d' : holds tc k d = true -> kframe d d' -> holds tc (after_anchor k) d' = true.
Proof.
  rewrite !holds_spec. intros (H1 & H2 & H3 & H4 & H5 & H6 & H7 & H8 & H9) (F1 & F2 & F3 & F4 & F5).
  cbn. repeat split; try discriminate.
  - intros Hk. rewrite (fk_frame d d'); auto.
  - auto.
  - intros Hk. rewrite F4. auto.
  - intros Hk. unfold get_opening_amount. rewrite F1, F2, F3. apply H4. exact Hk.
Qed.

Lemma holds_after k d d' : holds tc k d = true -> kframe d d' -> d_start_height d' = d_start_height d ->
  holds tc (after k) d' = true.
Proof.
  rewrite !holds_spec. intros (H1 & H2 & H3 & H4 & H5 & H6 & H7 & H8 & H9) (F1 & F2 & F3 & F4 & F5) Fs.
  cbn. repeat split; try discriminate.
  - intros Hk. rewrite (fk_frame d d'); auto.
  - auto.
  - intros Hk. rewrite F4. auto.
  - intros Hk. unfold get_opening_amount. rewrite F1, F2, F3. apply H4. exact Hk.
  - intros Hk. rewrite Fs. auto.
Qed.

Lemma kframe_refl d : kframe d d.
Proof. unfold kframe. tauto. Qed.

Lemma same_anchor_refl d : same_anchor d d.
Proof. unfold same_anchor. tauto. Qed.

(* result of one action in a good late round *)
Definition leaf_post (r : string * swap_data) (w' : world) (es : list effect) (outs : list aout) (n : nat) : Prop :=
  exists k' cw, In (fst r, k', cw) outs /\ holds tc k' (snd r) = true /\ env_ok tc n (k_late k') (snd r) w'
    /\ existsb is_watch_csv es = cw /\ Forall not_persist es.

Ltac other_put := let r0 := fresh "r" in let w1 := fresh "w" in intros r0 w1; destruct w1; reflexivity.

Ltac env_step :=
  match goal with
  | E : env_ok _ _ _ _ ?w, P : Popped q_store _ _ ?w _ _ |- _ =>
      let h := fresh "Hst" in let e := fresh "Env" in
      destruct (env_pop_store _ _ _ _ _ _ _ P E) as [h e]; clear P; try subst
  | E : env_ok _ (S _) _ _ ?w, P : Popped q_spend _ _ ?w _ _ |- _ =>
      let h := fresh "Hsp" in let e := fresh "Env" in let x := fresh "txid" in
      destruct (env_pop_spend _ _ _ _ _ _ _ P E) as [[x h] e]; clear P; try subst
  | E : env_ok _ (S _) _ _ ?w, P : Popped q_script _ _ ?w _ _ |- _ =>
      let h := fresh "Hsc" in let e := fresh "Env" in
      destruct (env_pop_script _ _ _ _ _ _ _ P E) as [h e]; clear P; try subst
  | E : env_ok _ _ _ _ ?w, P : Popped q_height _ _ ?w _ _ |- _ =>
      let h := fresh "Hh" in let e := fresh "Env" in
      destruct (env_pop_height _ _ _ _ _ _ _ P E) as [e h]; clear P
  | E : env_ok ?tc0 ?n0 ?kl0 ?d0 ?w, P : Popped _ _ _ ?w _ ?w1 |- _ =>
      let e := fresh "Env" in
      assert (e : env_ok tc0 n0 kl0 d0 w1) by (eapply env_pop_other; [exact P | other_put | exact E]); clear P
  end.

Ltac pick_out := cbn [In]; first [left; reflexivity | right; left; reflexivity | right; right; left; reflexivity].

Ltac env_goal :=
  eapply env_weak; [eassumption | lia |
    cbn [k_late after after_anchor with_otb with_started with_late];
    first [ let X := fresh in intros X; discriminate X
          | let X := fresh in intros X; split; [first [exact X | reflexivity | assumption] | unfold same_anchor; cbn; tauto] ] ].

Lemma holds_with_otb k d : holds tc k d = true -> is_some (d_otb d) = true -> holds tc (with_otb k) d = true.
Proof. rewrite !holds_spec. cbn. tauto. Qed.

Lemma holds_with_started k d : holds tc k d = true -> negb (d_start_height d =? 0) = true -> holds tc (with_started k) d = true.
Proof. rewrite !holds_spec. cbn. tauto. Qed.

Ltac holds_goal Hh :=
  first [ eapply holds_after; [exact Hh | unfold kframe; cbn; tauto | reflexivity]
        | eapply holds_after_anchor; [exact Hh | unfold kframe; cbn; tauto]
        | eapply holds_with_otb; [eapply holds_after_anchor; [exact Hh | unfold kframe; cbn; tauto] | cbn; first [reflexivity | assumption | match goal with X : d_otb _ = Some _ |- _ => rewrite X; reflexivity end]] ].

Ltac finish_leaf Hh :=
  unfold leaf_post; cbn [fst snd]; eexists; eexists; split; [pick_out|];
  split; [holds_goal Hh|]; split; [env_goal|];
  split; [reflexivity | repeat constructor].

Ltac contra :=
  try solve [ exfalso;
    repeat match goal with
    | H : negb _ = true |- _ => apply negb_true_iff in H
    | H : negb _ = false |- _ => apply negb_false_iff in H
    | H : _ && _ = true |- _ => apply andb_true_iff in H; destruct H
    end; congruence ].

(* turn the facts granted by [aleaf] and [holds] into equations *)
Ltac split_ands Ha :=
  repeat match type of Ha with
  | _ && _ = true => let h := fresh "Hk" in apply andb_true_iff in Ha; destruct Ha as [Ha h]
  end.

Ltac leaf_start Ha Hh :=
  cbn in Ha;
  repeat match type of Ha with
  | (if ?c then _ else _) = Some _ => let e := fresh "Hk" in destruct c eqn:e; [|discriminate Ha]
  end;
  inversion Ha; subst; clear Ha;
  repeat match goal with
  | H : _ && _ = true |- _ => apply andb_true_iff in H; destruct H
  end;
  pose proof (proj1 (holds_spec _ _) Hh) as (Fchain & Fotb & Foutagr & Fopen & Fstart & Fcoop & Fclaim & Fblind & Fprem).

Ltac use_fact F := match goal with Hk : _ = true |- _ => specialize (F Hk) end.

Lemma fk_split d : fk tc d = true -> chain_known d = true /\ exists pol, timelock_policy tc d = Some pol.
Proof.
  unfold fk. intros H. apply andb_true_iff in H. destruct H as [H1 H2]. split; auto.
  destruct (timelock_policy tc d) as [pol|]; [eauto|discriminate].
Qed.

Lemma is_some_ex {A} (o : option A) : is_some o = true -> exists x, o = Some x.
Proof. destruct o; [eauto|discriminate]. Qed.

(* leaves that need nothing from the data *)
Lemma leaf_simple name f : In (name, f) (leaf_actions tc dec) ->
  In name ["SendMessageAction"; "SendMessageWithRetryAction"; "SendCancelAction"; "TakerSendPrivkeyAction";
           "NoOpAction"; "NoOpDoneAction"; "CancelAction"]%string ->
  forall k outs n d w r w' es,
  aleaf name k = Some outs -> holds tc k d = true -> env_ok tc (S n) (k_late k) d w ->
  f d w = (r, w', es) -> leaf_post r w' es outs n.
Proof.
  intros Hin Hn k outs n d w r w' es Ha Hh E H.
  cbn [In] in Hn. repeat (destruct Hn as [<-|Hn]; [leaf_cases Hin; leaf_start Ha Hh|]); try contradiction.
  all: autounfold with actions in H; wsym; repeat env_step.
  all: finish_leaf Hh.
Qed.

Lemma leaf_data name f : In (name, f) (leaf_actions tc dec) ->
  In name ["AwaitFeeInvoicePayment"; "AwaitPaymentOrCsvAction"; "AwaitCsvAction";
           "ClaimSwapTransactionWithPreimageAction"; "ClaimSwapTransactionWithCsv"; "ClaimSwapTransactionCoop"]%string ->
  forall k outs n d w r w' es,
  aleaf name k = Some outs -> holds tc k d = true -> env_ok tc (S n) (k_late k) d w ->
  f d w = (r, w', es) -> leaf_post r w' es outs n.
Proof.
  intros Hin Hn k outs n d w r w' es Ha Hh E H.
  cbn [In] in Hn. repeat (destruct Hn as [<-|Hn]; [leaf_cases Hin; leaf_start Ha Hh|]); try contradiction.
  all: repeat match goal with
       | Hk : k_chain _ = true |- _ => apply Fchain in Hk; apply fk_split in Hk; destruct Hk as [Hck [pol Hpol]]
       | Hk : k_otb _ = true |- _ => apply Fotb in Hk; apply is_some_ex in Hk; destruct Hk as [o Ho]
       | Hk : k_outagr _ = true |- _ => apply Foutagr in Hk; apply is_some_ex in Hk; destruct Hk as [oa Hoa]
       | Hk : k_coop _ = true |- _ => apply Fcoop in Hk; apply is_some_ex in Hk; destruct Hk as [co Hco]
       end.
  all: autounfold with actions in H; wsym; repeat env_step; contra.
  all: finish_leaf Hh.
Qed.

Lemma upd_claim d x : get_claim_amount (d <| d_claim_preimage := x |>) = get_claim_amount d. Proof. reflexivity. Qed.
Lemma upd_open d x : get_opening_amount (d <| d_claim_preimage := x |>) = get_opening_amount d. Proof. reflexivity. Qed.
Lemma upd_blind d x : blinding_of (d <| d_claim_preimage := x |>) = blinding_of d. Proof. reflexivity. Qed.
Lemma upd_chain d x : get_chain (d <| d_claim_preimage := x |>) = get_chain d. Proof. reflexivity. Qed.

Lemma leaf_opening k outs n d w r w' es :
  aleaf "CreateAndBroadcastOpeningTransaction" k = Some outs -> holds tc k d = true -> env_ok tc (S n) (k_late k) d w ->
  act_create_and_broadcast_opening tc d w = (r, w', es) -> leaf_post r w' es outs n.
Proof.
  intros Ha Hh E H. leaf_start Ha Hh.
  all: repeat match goal with
       | Hk : k_claimamt _ = true |- _ => apply Fclaim in Hk; apply is_some_ex in Hk; destruct Hk as [ca Hca]
       | Hk : k_openamt _ = true |- _ => apply Fopen in Hk; apply is_some_ex in Hk; destruct Hk as [oa Hoa]
       | Hk : k_blind _ = true |- _ => apply Fblind in Hk
       end.
  all: autounfold with actions in H; wsym; repeat env_step; rewrite ?upd_claim, ?upd_open, ?upd_blind, ?upd_chain in *; contra.
  all: try solve [finish_leaf Hh].

  exfalso. unfold fblind in H1. 
  match goal with X : _ && negb _ = true |- _ => apply andb_true_iff in X; destruct X as [X1 X2] end.
  rewrite X1 in H1. apply negb_true_iff in X2. rewrite X2 in H1. discriminate.
Qed.

Lemma late_split d h : late tc d h = true ->
  (h <? u32_add (d_start_height d) (csv_height tc d / 2)) = false /\
  (csv_height tc d / 2 <? u32_sub h (d_start_height d)) = true /\ (h =? 0) = false /\
  (forall pol, timelock_policy tc d = Some pol -> check_payment_window d h pol = false).
Proof.
  unfold late. intros H. repeat (apply andb_true_iff in H; destruct H as [H ?]).
  apply negb_true_iff in H. apply negb_true_iff in H1. repeat split; auto.
  intros pol Hp. rewrite Hp in H0. apply negb_true_iff in H0. exact H0.
Qed.

Ltac use_late :=
  match goal with
  | X : _ = true -> _ \/ _ |- _ =>
      specialize (X ltac:(first [reflexivity|assumption]));
      let h := fresh "h" in let L := fresh "L" in
      destruct X as [X|[h [X L]]]; [try discriminate X | inversion X; subst; apply late_split in L; destruct L as (L1 & L2 & L3 & L4)]
  end.

Lemma leaf_set_start k outs n d w r w' es :
  aleaf "SetStartingBlockHeightAction" k = Some outs -> holds tc k d = true -> env_ok tc (S n) (k_late k) d w ->
  act_set_starting_height tc d w = (r, w', es) -> leaf_post r w' es outs n.
Proof.
  intros Ha Hh E H. leaf_start Ha Hh.
  autounfold with actions in H; wsym; repeat env_step.
  all: try use_late.
  all: try solve [finish_leaf Hh].

  - exfalso. rewrite (L4 _ Ematch0) in Eif1. discriminate.
  - (* start height was 0: it is recorded now *)
    destruct (k_started k) eqn:Ks.
    + exfalso. specialize (Fstart eq_refl). apply negb_true_iff in Fstart. congruence.
    + unfold leaf_post; cbn [fst snd]. eexists; eexists. split; [cbn [In]; right; left; reflexivity|].
      split; [|split; [env_goal|split; [reflexivity|repeat constructor]]].
      apply holds_with_started; [holds_goal Hh|]. cbn. rewrite L3. reflexivity.
  - exfalso. apply negb_false_iff in Eif2. congruence.
Qed.

Lemma leaf_await_conf k outs n d w r w' es :
  aleaf "AwaitTxConfirmationAction" k = Some outs -> holds tc k d = true -> env_ok tc (S n) (k_late k) d w ->
  act_await_tx_confirmation tc dec d w = (r, w', es) -> leaf_post r w' es outs n.
Proof.
  intros Ha Hh E H. leaf_start Ha Hh.
  all: repeat match goal with
       | Hk : k_claimamt _ = true |- _ => apply Fclaim in Hk; apply is_some_ex in Hk; destruct Hk as [ca Hca]
       | Hk : k_otb _ = true |- _ => apply Fotb in Hk; apply is_some_ex in Hk; destruct Hk as [o Ho]
       end.
  autounfold with actions in H; wsym; repeat env_step; contra.
  all: try use_late.
  all: try solve [finish_leaf Hh].

  exfalso. apply negb_false_iff in Eif2.
  change (get_chain (d <| d_claim_hash := s |>)) with (get_chain d) in Eif2.
  change (d_start_height (d <| d_claim_hash := s |>)) with (d_start_height d) in Eif2.
  change (check_payment_window (d <| d_claim_hash := s |>) h t) with (check_payment_window d h t) in Eif2.
  rewrite L1, (L4 _ Ematch), andb_false_r in Eif2. destruct (get_chain d =? btc_chain)%string; discriminate.
Qed.

Lemma pay_loop_late n0 : forall n pol payreq d w r w' es,
  env_ok tc n true d w -> timelock_policy tc d = Some pol -> chain_known d = true ->
  pay_loop n0 (csv_height tc d) pol payreq d w = (r, w', es) ->
  r = (Ev_Failed, d) /\ es = [] /\ env_ok tc n true d w'.
Proof.
  destruct n0 as [|n0]; intros n pol payreq d w r w' es E Hp Hc H.
  - rewrite pay_loop_O in H. wsym. auto.
  - rewrite pay_loop_S in H. wsym; repeat env_step.
    all: try use_late.
    all: try solve [split; [reflexivity|split; [reflexivity|assumption]]].
    all: exfalso; rewrite L2, andb_true_r in Eif0; rewrite (L4 _ Hp) in Eif1; cbn [negb] in Eif1; rewrite andb_true_r in Eif1;
      unfold chain_known in Hc; rewrite Eif0, Eif1 in Hc; discriminate.
Qed.

Lemma leaf_validate_pay k outs n d w r w' es :
  aleaf "ValidateTxAndPayClaimInvoiceAction" k = Some outs -> holds tc k d = true -> env_ok tc (S n) (k_late k) d w ->
  act_validate_and_pay tc d w = (r, w', es) -> leaf_post r w' es outs n.
Proof.
  intros Ha Hh E H. leaf_start Ha Hh.
  all: repeat match goal with
       | Hk : k_openamt _ = true |- _ => apply Fopen in Hk; apply is_some_ex in Hk; destruct Hk as [oa Hoa]
       | Hk : k_otb _ = true |- _ => apply Fotb in Hk; apply is_some_ex in Hk; destruct Hk as [o Ho]
       end.
  autounfold with actions in H; wsym; repeat env_step; contra.
  all: try solve [finish_leaf Hh].
  - rewrite H1 in Env. apply negb_false_iff in Eif.
    destruct (pay_loop_late _ _ _ _ _ _ _ _ _ Env Ematch Eif H) as (-> & -> & Env2).
    rewrite <- H1 in Env2. finish_leaf Hh.
  - exfalso. match goal with X : get_opening_params _ _ _ = None |- _ => unfold get_opening_params in X; rewrite Hoa in X; discriminate X end.
Qed.

Lemma leaf_sound name f : In (name, f) (leaf_actions tc dec) ->
  forall k outs n d w r w' es,
  aleaf name k = Some outs -> holds tc k d = true -> env_ok tc (S n) (k_late k) d w ->
  f d w = (r, w', es) -> leaf_post r w' es outs n.
Proof.
  intros Hin k outs n d w r w' es Ha Hh E H.
  pose proof Hin as Hin'. leaf_cases Hin'.
  all: first [ solve [eapply (leaf_simple _ _ Hin); [cbn; tauto | eassumption ..]]
             | solve [eapply (leaf_data _ _ Hin); [cbn; tauto | eassumption ..]]
             | solve [eapply leaf_opening; eassumption]
             | solve [eapply leaf_set_start; eassumption]
             | solve [eapply leaf_await_conf; eassumption]
             | solve [eapply leaf_validate_pay; eassumption]
             | (cbn in Ha; discriminate Ha) ].
Qed.

Lemma aleaf_known name k outs : aleaf name k = Some outs -> exists f, assoc_str name (leaf_actions tc dec) = Some f.
Proof.
  unfold aleaf. intros H.
  repeat match type of H with
  | context [String.eqb name ?x] =>
      let E := fresh "E" in destruct (String.eqb name x) eqn:E;
      [apply String.eqb_eq in E; subst; cbn; eauto | cbn [orb] in H]
  end.
  discriminate H.
Qed.

Lemma leaf_post_cons r w' es o outs n : leaf_post r w' es outs n -> leaf_post r w' es (o :: outs) n.
Proof. intros (k' & cw & Hi & Hr). exists k', cw. split; [right; exact Hi|exact Hr]. Qed.

Lemma aexec_sound fuel : forall a k outs n d w r w' es,
  aexec fuel a k = Some outs -> holds tc k d = true -> env_ok tc (S n) (k_late k) d w ->
  exec tc dec fuel a d w = (r, w', es) -> leaf_post r w' es outs n.
Proof.
  induction fuel as [|fuel IH]; intros [name ch] k outs n d w r w' es Ha Hh E H; [discriminate Ha|].
  rewrite exec_S in H. cbn [aexec] in Ha. cbv zeta in H.
  destruct (String.eqb name "CheckRequestWrapperAction"); [discriminate Ha|].
  destruct (String.eqb name "SetBlindingKeyActionWrapper"); [discriminate Ha|].
  destruct (String.eqb name "StopSendMessageWithRetryWrapperAction").
  { destruct (first_child ch) as [c|]; [|discriminate Ha].
    wsym. specialize (IH _ _ _ _ _ _ _ _ _ Ha Hh E H).
    destruct IH as (k' & cw & Hi & Hk & He & Hc & Hf). exists k', cw. split; [exact Hi|]. split; [exact Hk|]. split; [exact He|].
    split; [cbn; exact Hc|]. cbn. constructor; [exact Logic.I|exact Hf]. }
  destruct (String.eqb name "CheckPremiumAmount").
  { destruct (k_premium k) eqn:Kp; [|discriminate Ha].
    destruct (first_child ch) as [c|]; [|discriminate Ha].
    destruct (aexec fuel c k) as [l|] eqn:Hl; [|discriminate Ha]. inversion Ha; subst; clear Ha.
    pose proof (proj1 (holds_spec _ _) Hh) as (_ & _ & _ & _ & _ & _ & _ & _ & Fprem).
    specialize (Fprem Kp). destruct (check_premium d) as [[|]|] eqn:Ep; [| |discriminate Fprem].
    - apply leaf_post_cons. eapply IH; eauto.
    - wsym. finish_leaf Hh. }
  destruct (String.eqb name "AddSuspiciousPeerAction").
  { destruct (first_child ch) as [c|]; [|discriminate Ha].
    wsym. repeat env_step. specialize (IH _ _ _ _ _ _ _ _ _ Ha Hh Env H).
    destruct IH as (k' & cw & Hi & Hk & He & Hc & Hf). exists k', cw. split; [exact Hi|]. split; [exact Hk|]. split; [exact He|].
    split; [cbn; exact Hc|]. cbn. constructor; [exact Logic.I|exact Hf]. }
  destruct (aleaf_known _ _ _ Ha) as [f Hf]. rewrite Hf in H.
  eapply leaf_sound; eauto. apply assoc_str_in. exact Hf.
Qed.

End Leaf.

(* ---------- the engine ---------- *)
Ltac splits := repeat match goal with |- _ /\ _ => split end.

Definition lp_acc (acc : option (string * swap_data)) (e : effect) : option (string * swap_data) :=
  match e with EPersist s d true => Some (s, d) | _ => acc end.
Definition lastp (acc : option (string * swap_data)) (es : list effect) := fold_left lp_acc es acc.

Lemma last_persist_lastp es : last_persist es = lastp None es.
Proof. reflexivity. Qed.

Lemma lastp_app acc a b : lastp acc (a ++ b) = lastp (lastp acc a) b.
Proof. unfold lastp. apply fold_left_app. Qed.

Lemma lastp_no_persist acc es : Forall not_persist es -> lastp acc es = acc.
Proof.
  intros F. revert acc. induction F as [|e r He _ IH]; intros acc; [reflexivity|].
  cbn. rewrite <- (IH acc) at 2. destruct e; cbn in *; try reflexivity. contradiction.
Qed.

Lemma existsb_no_csv_persist s d ok : is_watch_csv (EPersist s d ok) = false.
Proof. reflexivity. Qed.

Section EngineSound.
Variable tc : tl_consts.
Variable dec : string -> option (string * Z * Z).
Variable t : table.
Variable terminal : list string.

Definition end_ok (o : aend) (m m' : machine) (res : result) (w' : world) (es : list effect) (n : nat) : Prop :=
  match o with
  | AFin s1 => m_cur m' = s1 /\ res = mkResult true ErrNone /\
               lastp (Some (m_cur m, m_data m)) es = Some (m_cur m', m_data m')
  | ARest s1 k1 cw => m_cur m' = s1 /\ r_done res = false /\ holds tc k1 (m_data m') = true /\
                      env_ok tc n (k_late k1) (m_data m') w' /\ existsb is_watch_csv es = cw /\
                      lastp (Some (m_cur m, m_data m)) es = Some (m_cur m', m_data m')
  | ABad => True
  end.

Lemma holds_fsm_state k d s : holds tc k (d <| d_fsm_state := s |>) = holds tc k d.
Proof. reflexivity. Qed.

Lemma env_fsm_state n kl d s w : env_ok tc n kl d w -> env_ok tc n kl (d <| d_fsm_state := s |>) w.
Proof. intros E. eapply env_weak; [exact E|lia|]. intros Hk. split; auto. unfold same_anchor. cbn. tauto. Qed.

Lemma persist_good m n kl d w ok w' es :
  persist m w = (ok, w', es) -> env_ok tc n kl d w ->
  ok = true /\ es = [EPersist (m_cur m) (m_data m) true] /\ env_ok tc n kl d w'.
Proof.
  unfold persist. intros H E. wsym.
  match goal with P : Popped q_store _ _ _ _ _ |- _ => destruct (env_pop_store _ _ _ _ _ _ _ P E) as [-> E2] end.
  auto.
Qed.

Lemma aloop_sound fuel : forall s ev k m w m' res w' es n,
  m_cur m = s -> holds tc k (m_data m) = true -> env_ok tc (fuel + n) (k_late k) (m_data m) w ->
  event_loop tc dec t fuel m ev w = ((m', res), w', es) ->
  exists o, In o (aloop t fuel s ev k) /\ end_ok o m m' res w' es n.
Proof.
  induction fuel as [|fuel IH]; intros s ev k m w m' res w' es n Hs Hh E H.
  - exists ABad. split; [left; reflexivity|exact Logic.I].
  - rewrite event_loop_S in H. cbn [aloop]. rewrite <- Hs.
    destruct (next_state t (m_cur m) ev) as [nxt|] eqn:Hn.
    2:{ wsym. exists (ARest (m_cur m) k false). split; [left; reflexivity|].
        cbn. splits; auto. eapply env_le; [|exact E]. lia. }
    destruct (lookup_state t nxt) as [sd|] eqn:Hl; [|exists ABad; split; [left; reflexivity|exact Logic.I]].
    destruct (st_action sd) as [act|] eqn:Hact; [|exists ABad; split; [left; reflexivity|exact Logic.I]].
    destruct (aexec action_fuel act k) as [outs|] eqn:Hout; [|exists ABad; split; [left; reflexivity|exact Logic.I]].
    cbv zeta in H.
    apply bind_inv in H. destruct H as ([ev' d'] & w1 & e1 & e2 & Hex & H & ->).
    change (m_data (m <| m_prev := m_cur m |> <| m_cur := nxt |> <| m_data := m_data m <| d_fsm_state := nxt |> |>))
      with ((m_data m) <| d_fsm_state := nxt |>) in Hex.
    assert (E1 : env_ok tc (S (fuel + n)) (k_late k) ((m_data m) <| d_fsm_state := nxt |>) w) by (apply env_fsm_state; exact E).
    assert (Hh1 : holds tc k ((m_data m) <| d_fsm_state := nxt |>) = true) by (rewrite holds_fsm_state; exact Hh).
    destruct (aexec_sound tc dec _ _ _ _ _ _ _ _ _ _ Hout Hh1 E1 Hex) as (k' & cw & Hi & Hk' & E2 & Hcw & Hnp).
    cbn [fst snd] in Hi, Hk', E2.
    assert (Hin : forall o, In o (let '(ev0, k0, cw0) := (ev', k', cw) in
                      if String.eqb ev0 Ev_Panic then [ABad]
                      else if String.eqb ev0 Ev_Done then [AFin nxt]
                      else if String.eqb ev0 Ev_NoOp then [ARest nxt k0 cw0]
                      else if String.eqb ev0 Ev_Retry then [ABad]
                      else if cw0 then [ABad]
                      else aloop t fuel nxt ev0 k0) ->
                 In o (flat_map (fun o : aout =>
                      let '(ev0, k0, cw0) := o in
                      if String.eqb ev0 Ev_Panic then [ABad]
                      else if String.eqb ev0 Ev_Done then [AFin nxt]
                      else if String.eqb ev0 Ev_NoOp then [ARest nxt k0 cw0]
                      else if String.eqb ev0 Ev_Retry then [ABad]
                      else if cw0 then [ABad]
                      else aloop t fuel nxt ev0 k0) outs)).
    { intros o Ho. apply in_flat_map. exists (ev', k', cw). split; [exact Hi|exact Ho]. }
    cbv beta iota in Hin.
    destruct (String.eqb ev' Ev_Panic).
    { exists ABad. split; [apply Hin; left; reflexivity|exact Logic.I]. }
    apply bind_inv in H. destruct H as (ok & w2 & e3 & e4 & Hp & H & ->).
    destruct (persist_good _ _ _ _ _ _ _ _ Hp E2) as (-> & -> & E3). cbn [negb] in H.
    set (m2 := (m <| m_prev := m_cur m |> <| m_cur := nxt |> <| m_data := (m_data m) <| d_fsm_state := nxt |> |>) <| m_data := d' |>) in *.
    assert (L1 : lastp (Some (m_cur m, m_data m)) (e1 ++ [EPersist (m_cur m2) (m_data m2) true]) = Some (m_cur m2, m_data m2)).
    { rewrite lastp_app, (lastp_no_persist _ _ Hnp). reflexivity. }
    destruct (String.eqb ev' Ev_Done).
    { apply ret_inv in H. destruct H as (Hr & -> & ->). inversion Hr; subst m' res; clear Hr. exists (AFin nxt). split; [apply Hin; left; reflexivity|]. cbn [end_ok]. rewrite app_nil_r. auto. }
    destruct (String.eqb ev' Ev_NoOp).
    { apply ret_inv in H. destruct H as (Hr & -> & ->). inversion Hr; subst m' res; clear Hr. exists (ARest nxt k' cw). split; [apply Hin; left; reflexivity|]. cbn [end_ok]. rewrite app_nil_r.
      splits; auto.
      - eapply env_le; [|exact E3]. lia.
      - rewrite existsb_app. cbn. rewrite Hcw. apply orb_false_r. }
    destruct (String.eqb ev' Ev_Retry).
    { exists ABad. split; [apply Hin; left; reflexivity|exact Logic.I]. }
    destruct cw.
    { exists ABad. split; [apply Hin; left; reflexivity|exact Logic.I]. }
    destruct (IH nxt ev' k' m2 w2 m' res w' e4 n eq_refl Hk' E3 H) as (o & Ho & Hend).
    exists o. split; [apply Hin; exact Ho|].
    destruct o as [s1|s1 k1 cw1|]; cbn [end_ok] in *; auto.
    + destruct Hend as (A & B & C). splits; auto.
      rewrite app_assoc, lastp_app, L1. exact C.
    + destruct Hend as (A & B & C & D & F & G). splits; auto.
      * rewrite !existsb_app, Hcw. cbn. exact F.
      * rewrite app_assoc, lastp_app, L1. exact G.
Qed.

End EngineSound.

Section RoundSound.
Variable tc : tl_consts.
Variable dec : string -> option (string * Z * Z).
Variable t : table.
Variable terminal : list string.

Lemma loop_fuel_S : exists f, loop_fuel = S f.
Proof. exists 63%nat. reflexivity. Qed.

(* an event the current state does not accept: nothing happens *)
Lemma aloop_rejected s ev k : next_state t s ev = None -> In (ARest s k false) (aloop t loop_fuel s ev k).
Proof. intros H. destruct loop_fuel_S as [f ->]. cbn [aloop]. rewrite H. left. reflexivity. Qed.

Lemma end_ok_rejected k m w n kl :
  env_ok tc n kl (m_data m) w -> holds tc k (m_data m) = true -> kl = k_late k ->
  end_ok tc (ARest (m_cur m) k false) m m (mkResult false ErrRejected) w [] 0.
Proof.
  intros E Hh ->. cbn [end_ok]. splits; auto. eapply env_le; [|exact E]. lia.
Qed.

Lemma ptl_sound s ev k m w m' res w' es n :
  m_cur m = s -> holds tc k (m_data m) = true -> env_ok tc (loop_fuel + n) (k_late k) (m_data m) w ->
  persist_then_loop tc dec t m ev w = ((m', res), w', es) ->
  exists o, In o (aloop t loop_fuel s ev k) /\ end_ok tc o m m' res w' es n.
Proof.
  intros Hs Hh E H. unfold persist_then_loop in H.
  apply bind_inv in H. destruct H as (ok & w1 & e1 & e2 & Hp & H & ->).
  destruct (persist_good tc _ _ _ _ _ _ _ _ Hp E) as (-> & -> & E1). cbn [negb] in H.
  destruct (aloop_sound tc dec t _ _ _ _ _ _ _ _ _ _ n Hs Hh E1 H) as (o & Ho & Hend).
  exists o. split; [exact Ho|].
  destruct o as [s1|s1 k1 cw|]; cbn [end_ok] in *; auto.
Qed.

Lemma send_event_none_sound s ev k m w m' res w' es :
  String.eqb ev Ev_Done = false ->
  m_cur m = s -> holds tc k (m_data m) = true -> env_ok tc (loop_fuel + 0) (k_late k) (m_data m) w ->
  send_event tc dec t m ev None w = ((m', res), w', es) ->
  exists o, In o (aloop t loop_fuel s ev k) /\ end_ok tc o m m' res w' es 0.
Proof.
  intros Hd Hs Hh E H. unfold send_event in H. rewrite Hd in H.
  destruct (next_state t (m_cur m) ev) eqn:Hn.
  - eapply ptl_sound; eauto.
  - apply ret_inv in H. destruct H as (H & -> & ->). inversion H; subst m' res. rewrite <- Hs.
    exists (ARest (m_cur m) k false). split; [apply aloop_rejected; exact Hn|].
    eapply end_ok_rejected; eauto.
Qed.

Lemma recover_sound s k m w m' res w' es :
  m_cur m = s -> holds tc k (m_data m) = true -> env_ok tc (S (loop_fuel + 0)) (k_late k) (m_data m) w ->
  recover tc dec t m w = ((m', res), w', es) ->
  exists o, In o (arecover t s k) /\ end_ok tc o m m' res w' es 0.
Proof.
  intros Hs Hh E H. unfold recover in H. unfold arecover. rewrite <- Hs.
  destruct (lookup_state t (m_cur m)) as [sd|]; [|exists ABad; split; [left; reflexivity|exact Logic.I]].
  destruct (st_action sd) as [act|]; [|exists ABad; split; [left; reflexivity|exact Logic.I]].
  destruct (st_fail_on_recover sd).
  { eapply send_event_none_sound; eauto. eapply env_le; [|exact E]. lia. }
  destruct (aexec action_fuel act k) as [outs|] eqn:Hout; [|exists ABad; split; [left; reflexivity|exact Logic.I]].
  apply bind_inv in H. destruct H as ([ev' d'] & w1 & e1 & e2 & Hex & H & ->).
  destruct (aexec_sound tc dec _ _ _ _ _ _ _ _ _ _ Hout Hh E Hex) as (k' & cw & Hi & Hk' & E2 & Hcw & Hnp).
  cbn [fst snd] in Hi, Hk', E2.
  assert (Hin : forall o, In o (if String.eqb ev' Ev_Panic then [ABad]
                                else if String.eqb ev' Ev_NoOp then [ARest (m_cur m) k' cw]
                                else if cw then [ABad]
                                else if String.eqb ev' Ev_Done then [AFin (m_cur m)]
                                else aloop t loop_fuel (m_cur m) ev' k') ->
               In o (flat_map (fun o : aout =>
                    let '(ev0, k0, cw0) := o in
                    if String.eqb ev0 Ev_Panic then [ABad]
                    else if String.eqb ev0 Ev_NoOp then [ARest (m_cur m) k0 cw0]
                    else if cw0 then [ABad]
                    else if String.eqb ev0 Ev_Done then [AFin (m_cur m)]
                    else aloop t loop_fuel (m_cur m) ev0 k0) outs)).
  { intros o Ho. apply in_flat_map. exists (ev', k', cw). split; [exact Hi|exact Ho]. }
  cbv zeta in H.
  destruct (String.eqb ev' Ev_Panic).
  { exists ABad. split; [apply Hin; left; reflexivity|exact Logic.I]. }
  apply bind_inv in H. destruct H as (ok & w2 & e3 & e4 & Hp & H & ->).
  destruct (persist_good tc _ _ _ _ _ _ _ _ Hp E2) as (-> & -> & E3). cbn [negb] in H.
  set (m1 := m <| m_data := d' |>) in *.
  assert (L1 : forall acc, lastp acc (e1 ++ [EPersist (m_cur m1) (m_data m1) true]) = Some (m_cur m1, m_data m1)).
  { intros acc. rewrite lastp_app, (lastp_no_persist _ _ Hnp). reflexivity. }
  destruct (String.eqb ev' Ev_NoOp).
  { apply ret_inv in H. destruct H as (Hr & -> & ->). inversion Hr; subst m' res; clear Hr.
    exists (ARest (m_cur m) k' cw). split; [apply Hin; left; reflexivity|]. cbn [end_ok]. rewrite app_nil_r.
    splits; auto.
    - eapply env_le; [|exact E3]. lia.
    - rewrite existsb_app. cbn. rewrite Hcw. apply orb_false_r. }
  destruct cw.
  { exists ABad. split; [apply Hin; left; reflexivity|exact Logic.I]. }
  assert (E4 : env_ok tc (loop_fuel + 0) (k_late k') (m_data m1) w2) by exact E3.
  destruct (String.eqb ev' Ev_Done) eqn:Hdone.
  { unfold send_event in H. rewrite Hdone in H.
    apply ret_inv in H. destruct H as (Hr & -> & ->). inversion Hr; subst m' res; clear Hr.
    exists (AFin (m_cur m)). split; [apply Hin; left; reflexivity|]. cbn [end_ok]. rewrite app_nil_r. auto. }
  destruct (send_event_none_sound (m_cur m) ev' k' m1 w2 m' res w' e4 Hdone eq_refl Hk' E4 H) as (o & Ho & Hend).
  exists o. split; [apply Hin; exact Ho|].
  destruct o as [s1|s1 k1 cw1|]; cbn [end_ok] in *; auto.
  - destruct Hend as (A & B & C). splits; auto. rewrite app_assoc, lastp_app, L1. exact C.
  - destruct Hend as (A & B & C & D & F & G). splits; auto.
    + rewrite !existsb_app, Hcw. cbn. exact F.
    + rewrite app_assoc, lastp_app, L1. exact G.
Qed.

Lemma holds_with_late b k d : holds tc (with_late b k) d = holds tc k d.
Proof. reflexivity. Qed.

Lemma env_of_worlds n d w kl :
  good_world n w = true -> (kl = true -> late_world tc d w = true) -> env_ok tc n kl d w.
Proof. intros G L. split; auto. Qed.

(* a list of effects either has no successful store write or determines the durable record *)
Lemma lastp_cons acc e r : lastp acc (e :: r) = lastp (lp_acc acc e) r.
Proof. reflexivity. Qed.

Lemma lastp_cases es : (forall acc, lastp acc es = acc) \/ (forall acc acc', lastp acc es = lastp acc' es).
Proof.
  induction es as [|e r IH]; [left; reflexivity|].
  destruct IH as [IH|IH].
  - destruct e; try (left; intros acc; rewrite lastp_cons; cbn [lp_acc]; apply IH).
    destruct ok.
    + right. intros acc acc'. rewrite !lastp_cons. reflexivity.
    + left. intros acc. rewrite lastp_cons. cbn [lp_acc]. apply IH.
  - right. intros acc acc'. rewrite !lastp_cons. apply IH.
Qed.

(* the stored record after a round that started from the stored record m0 *)
Lemma next_record_spec (m0 m' : machine) es :
  lastp (Some (m_cur m0, m_data m0)) es = Some (m_cur m', m_data m') ->
  m_cur (next_record m0 m' es) = m_cur m' /\ m_data (next_record m0 m' es) = m_data m'.
Proof.
  intros H. unfold next_record, restore. rewrite last_persist_lastp.
  destruct (lastp_cases es) as [Hc|Hc].
  - rewrite Hc. rewrite Hc in H. inversion H. auto.
  - rewrite (Hc None (Some (m_cur m0, m_data m0))), H. cbn. auto.
Qed.

Theorem asettle_sound n : forall m k,
  asettle t terminal n (m_cur m) k = true -> k_late k = true -> holds tc k (m_data m) = true ->
  settles tc dec t terminal n m.
Proof.
  induction n as [|n IH]; intros m k Ha Hl Hh; [discriminate Ha|].
  cbn [settles]. intros w1 G1 L1.
  destruct (run_step tc dec t terminal m InRecover w1) as [[o1 w1'] es1] eqn:Hs1.
  unfold run_step, step in Hs1.
  destruct (is_finished terminal (m_cur m)) eqn:Hfin.
  { apply ret_inv in Hs1. destruct Hs1 as (-> & _ & _). left. cbn. auto. }
  apply bind_inv in Hs1. destruct Hs1 as ([m' res] & wx & e1 & e2 & Hrec & Hs1 & ->).
  apply ret_inv in Hs1. destruct Hs1 as (-> & _ & ->). rewrite app_nil_r. cbn [o_removed o_machine].
  assert (E : env_ok tc (S (loop_fuel + 0)) (k_late k) (m_data m) w1).
  { apply env_of_worlds; [eapply good_world_le; [|exact G1]; unfold c16_budget; lia|intros _; exact L1]. }
  destruct (recover_sound (m_cur m) k m w1 m' res wx e1 eq_refl Hh E Hrec) as (o & Ho & Hend).
  cbn [asettle] in Ha. rewrite forallb_forall in Ha. specialize (Ha o Ho).
  destruct o as [s1|s1 k1 cw|]; cbn [end_ok] in Hend; [| |discriminate Ha].
  - destruct Hend as (A & -> & C). left. cbn. split; [reflexivity|]. rewrite A. exact Ha.
  - destruct Hend as (A & B & C & D & F & G). right. rewrite B, andb_false_r. split; [reflexivity|].
    rewrite F. destruct cw.
    + intros w2 G2.
      destruct (run_step tc dec t terminal m' InCsvPassed w2) as [[o2 w2'] es2] eqn:Hs2.
      unfold run_step, step in Hs2.
      apply bind_inv in Hs2. destruct Hs2 as ([m2 res2] & wy & e3 & e4 & Hse & Hs2 & ->).
      apply ret_inv in Hs2. destruct Hs2 as (-> & _ & ->). rewrite app_nil_r. cbn [o_removed o_machine].
      assert (E2 : env_ok tc (loop_fuel + 0) (k_late (with_late false k1)) (m_data m') w2).
      { apply env_of_worlds; [eapply good_world_le; [|exact G2]; unfold c16_budget; lia|discriminate]. }
      destruct (send_event_none_sound s1 Ev_CsvPassed (with_late false k1) m' w2 m2 res2 wy e3 eq_refl A C E2 Hse)
        as (o2 & Ho2 & Hend2).
      rewrite forallb_forall in Ha. specialize (Ha o2 Ho2).
      destruct o2 as [s2|s2 k2 cw2|]; cbn [end_ok] in Hend2; [| |discriminate Ha].
      * destruct Hend2 as (A2 & -> & C2). left. cbn. split; [reflexivity|]. rewrite A2. exact Ha.
      * destruct Hend2 as (A2 & B2 & C2 & D2 & F2 & G2'). right. rewrite B2, andb_false_r. split; [reflexivity|].
        destruct (next_record_spec m m2 (e1 ++ e3)) as (Rc & Rd).
        { rewrite lastp_app, G. exact G2'. }
        apply (IH _ (with_late true k2)).
        -- rewrite Rc, A2. exact Ha.
        -- reflexivity.
        -- rewrite Rd, holds_with_late. exact C2.
    + destruct (next_record_spec m m' e1 G) as (Rc & Rd).
      apply (IH _ (with_late true k1)).
      * rewrite Rc, A. exact Ha.
      * reflexivity.
      * rewrite Rd, holds_with_late. exact C.
Qed.

(* the reflective check is sound: for EVERY table *)
Theorem c16_state_sound need n m :
  c16_state_ok t terminal need (S n) (m_cur m) = true ->
  holds tc (need (m_cur m)) (m_data m) = true ->
  settles tc dec t terminal (S n) m.
Proof.
  unfold c16_state_ok. intros H Hh. apply orb_true_iff in H. destruct H as [Hf|Ha].
  - cbn [settles]. intros w1 _ _. unfold run_step, step, fin_ok in *. rewrite Hf. cbn. left. auto.
  - eapply asettle_sound; eauto.
Qed.

End RoundSound.

(* ---------- tables ---------- *)
Theorem c16_table_sound tc dec t terminal need n except :
  c16_table_ok t terminal need (S n) except = true ->
  forall m sd, lookup_state t (m_cur m) = Some sd -> ~ In (m_cur m) except ->
  holds tc (need (m_cur m)) (m_data m) = true ->
  settles tc dec t terminal (S n) m.
Proof.
  unfold c16_table_ok. intros H m sd Hl Hex Hh.
  rewrite forallb_forall in H. unfold lookup_state in Hl. apply assoc_str_in in Hl.
  specialize (H _ Hl). cbn [fst] in H. apply orb_true_iff in H. destruct H as [H|H].
  - exfalso. apply Hex. apply existsb_exists in H. destruct H as (x & Hx & He).
    apply String.eqb_eq in He. subst. exact Hx.
  - eapply c16_state_sound; eauto.
Qed.

(* the tables generated from the code: every state except the initial one *)
Lemma gen_tables_ok :
  c16_table_ok table_swap_out_sender terminal_states c16_need c16_rounds [""%string] = true /\
  c16_table_ok table_swap_out_receiver terminal_states c16_need c16_rounds [""%string] = true /\
  c16_table_ok table_swap_in_sender terminal_states c16_need c16_rounds [""%string] = true /\
  c16_table_ok table_swap_in_receiver terminal_states c16_need c16_rounds [""%string] = true.
Proof. vm_compute. repeat split; reflexivity. Qed.

Theorem c16_except_known dec t m sd :
  In t swap_tables_c16 -> lookup_state t (m_cur m) = Some sd -> m_cur m <> ""%string ->
  holds tl_consts_gen (c16_need (m_cur m)) (m_data m) = true ->
  settles tl_consts_gen dec t terminal_states c16_rounds m.
Proof.
  intros Ht Hl Hne Hh. destruct gen_tables_ok as (H1 & H2 & H3 & H4).
  assert (Hex : ~ In (m_cur m) [""%string]) by (intros [E|[]]; congruence).
  unfold swap_tables_c16 in Ht. cbn [In] in Ht.
  destruct Ht as [<-|[<-|[<-|[<-|[]]]]].
  - exact (c16_table_sound _ dec _ _ _ 1%nat _ H1 m sd Hl Hex Hh).
  - exact (c16_table_sound _ dec _ _ _ 1%nat _ H2 m sd Hl Hex Hh).
  - exact (c16_table_sound _ dec _ _ _ 1%nat _ H3 m sd Hl Hex Hh).
  - exact (c16_table_sound _ dec _ _ _ 1%nat _ H4 m sd Hl Hex Hh).
Qed.

(* ---------- non-vacuity ---------- *)
(* a maker (swap-out responder, Bitcoin) whose peer went silent after the opening transaction was announced *)
Definition ex_req : req := mkReq 7 "id" "regtest" "" "1x2x3" 100000 "03aa" 1000.
Definition ex_data : swap_data :=
  mkData None None (Some ex_req) (Some (mkOutAgr 7 "id" "02bb" "lnfee" 0)) (Some (mkOtb "id" "lnclaim" "aa" 0 "")) None None
         "peer" "peer" "key" "" 0 "0200" 1000 false "" "" "pre" "" None "State_SwapOutReceiver_AwaitClaimInvoicePayment".
Definition ex_machine : machine :=
  mkMachine "id" 2 2 "State_SwapOutReceiver_AwaitClaimInvoicePayment" "" ex_data 0.
Definition ex_world (h : Z) : world :=
  mkWorld true true true 0 true false "" "regtest" None "02bb" []
    [Some h] [] (repeat true 8) [] [] [] [] [] [] [] [] [] (repeat (Some "tx"%string) 70) (repeat true 70) [] [] [true] [] [] false.

Example ex_world_good :
  good_world c16_budget (ex_world 30000) = true /\ late_world tl_consts_gen ex_data (ex_world 30000) = true /\
  holds tl_consts_gen (c16_need (m_cur ex_machine)) (m_data ex_machine) = true.
Proof. vm_compute. auto. Qed.

(* ... is refunded by CSV in one round: restart, CSV watch registered, CSV callback, ClaimedCsv, removed *)
Example ex_round :
  let '(o1, _, es1) := run_step tl_consts_gen (fun _ => None) table_swap_out_receiver terminal_states ex_machine InRecover (ex_world 30000) in
  let '(o2, _, es2) := run_step tl_consts_gen (fun _ => None) table_swap_out_receiver terminal_states (o_machine o1) InCsvPassed (ex_world 30000) in
  o_removed o1 = false /\ existsb is_watch_csv es1 = true /\
  m_cur (o_machine o2) = "State_ClaimedCsv"%string /\ o_removed o2 = true.
Proof. vm_compute. auto. Qed.

Example ex_settles : settles tl_consts_gen (fun _ => None) table_swap_out_receiver terminal_states c16_rounds ex_machine.
Proof.
  eapply c16_except_known.
  - right. left. reflexivity.
  - vm_compute. reflexivity.
  - discriminate.
  - vm_compute. reflexivity.
Qed.

(* how a refutation looks: one good late round that changes nothing can be repeated for ever *)
Lemma settles_stuck tc dec t terminal m :
  (exists w1, good_world c16_budget w1 = true /\ late_world tc (m_data m) w1 = true /\
     let '(o1, _, es1) := run_step tc dec t terminal m InRecover w1 in
     o_removed o1 = false /\ existsb is_watch_csv es1 = false /\ next_record m (o_machine o1) es1 = m) ->
  forall n, ~ settles tc dec t terminal n m.
Proof.
  intros (w1 & G & L & Hr) n. induction n as [|n IH]; [exact (fun x => x)|].
  intros H. cbn [settles] in H. specialize (H w1 G L).
  destruct (run_step tc dec t terminal m InRecover w1) as [[o1 w'] es1].
  destruct Hr as (A & B & C). destruct H as [[H _]|[_ H]]; [congruence|].
  rewrite B, C in H. exact (IH H).
Qed.
