(* C06: once the claim payment has succeeded the taker only claims with the preimage. *)
From Coq Require Import String ZArith Bool List Lia.
From RecordUpdate Require Import RecordSet.
From PS Require Import Base.Wrap Model.Data Model.Actions Model.Fsm Model.History Model.FsmCorr Model.CrashCorr Model.C06Corr
  Proofs.Monad Proofs.ExecRule Proofs.MTac Proofs.Engine Proofs.HistRule.
Import ListNotations RecordSetNotations.
Open Scope Z_scope.

Strategy opaque [event_loop exec loop_fuel action_fuel pay_loop].

(* ================= list facts ================= *)
Lemma after_pay_app es1 es2 :
  after_pay (es1 ++ es2) = match after_pay es1 with Some p => Some (p ++ es2) | None => after_pay es2 end.
Proof.
  induction es1 as [|e r IH]; cbn [app after_pay]; [reflexivity|].
  destruct (pay_ok e); [reflexivity|exact IH].
Qed.

Lemma after_pay_none es : existsb pay_ok es = false <-> after_pay es = None.
Proof.
  induction es as [|e r IH]; cbn [existsb after_pay]; [tauto|].
  destruct (pay_ok e); cbn [orb]; [split; discriminate|exact IH].
Qed.

Lemma after_pay_some es : existsb pay_ok es = true -> exists post, after_pay es = Some post.
Proof.
  intros H. destruct (after_pay es) as [p|] eqn:E; [eauto|].
  apply after_pay_none in E. congruence.
Qed.

Lemma mem_str_in s l : mem_str s l = true <-> In s l.
Proof.
  unfold mem_str. rewrite existsb_exists. split.
  - intros (x & Hx & He). apply String.eqb_eq in He. subst. exact Hx.
  - intros H. exists s. split; [exact H|apply String.eqb_refl].
Qed.

Lemma mem_str_cons x y l : mem_str x (y :: l) = String.eqb x y || mem_str x l.
Proof. reflexivity. Qed.

Lemma mem_str_app_l s l1 l2 : mem_str s l1 = true -> mem_str s (l1 ++ l2) = true.
Proof. rewrite !mem_str_in, in_app_iff. tauto. Qed.

Lemma claim_only_mono zs1 zs2 e :
  (forall s, mem_str s zs1 = true -> mem_str s zs2 = true) -> claim_only zs1 e = true -> claim_only zs2 e = true.
Proof. intros H. destruct e; cbn; auto. Qed.

(* ================= the payment loop and the actions ================= *)
(* whenever an action's effects contain a successful claim payment, it is the LAST effect and the action succeeded *)
Definition pay_last (r : string * swap_data) (es : list effect) : Prop :=
  forall post, after_pay es = Some post -> post = [] /\ fst r = Ev_Succeeded.

Lemma pay_last_nil r : pay_last r [].
Proof. intros post H. discriminate. Qed.

Lemma pay_loop_last n : forall csvh pol payreq d w r w' es,
  pay_loop n csvh pol payreq d w = (r, w', es) -> pay_last r es.
Proof.
  induction n as [|n IH]; intros csvh pol payreq d w r w' es H.
  - rewrite pay_loop_O in H. msym. apply pay_last_nil.
  - rewrite pay_loop_S in H. msym; list_simpl; try apply pay_last_nil.
    + intros post Hp. cbn in Hp. inversion Hp; subst. split; reflexivity.
    + intros post Hp. cbn [after_pay pay_ok] in Hp. eapply IH; eauto.
Qed.

Section Actions.
Variable tc : tl_consts.
Variable dec : string -> option (string * Z * Z).

Lemma leaf_pay_last name f : In (name, f) (leaf_actions tc dec) ->
  forall d w r w' es, f d w = (r, w', es) -> pay_last r es.
Proof.
  intros Hin d w r w' es H. leaf_cases Hin.
  all: autounfold with actions in H; msym; list_simpl.
  all: try (intros post Hp; cbn in Hp; discriminate).
  all: intros post Hp; cbn [after_pay pay_ok] in Hp; eapply pay_loop_last; eauto.
Qed.

Theorem exec_pay_last fuel a d w r w' es :
  exec tc dec fuel a d w = (r, w', es) -> pay_last r es.
Proof.
  apply (exec_rule tc dec (fun _ r es => pay_last r es)).
  - intros. eapply leaf_pay_last; eauto.
  - intros. apply pay_last_nil.
  - intros d0 post Hp. cbn in Hp. discriminate.
  - intros. apply pay_last_nil.
  - auto.
  - intros d0 r0 es0 H post Hp. cbn [after_pay pay_ok] in Hp. auto.
  - intros. apply pay_last_nil.
  - auto.
  - intros d0 r0 es0 H post Hp. cbn [after_pay pay_ok] in Hp. auto.
Qed.

(* only the pay action pays *)
Lemma leaf_pay_name name f : In (name, f) (leaf_actions tc dec) ->
  forall d w r w' es, f d w = (r, w', es) -> existsb pay_ok es = true -> name = pay_action.
Proof.
  intros Hin d w r w' es H Hp. leaf_cases Hin.
  all: try reflexivity.
  all: autounfold with actions in H; msym; list_simpl.
  all: cbn in Hp; discriminate.
Qed.

Lemma exec_pay_named fuel : forall a d w r w' es,
  exec tc dec fuel a d w = (r, w', es) -> existsb pay_ok es = true ->
  mem_str pay_action (tree_names fuel a) = true.
Proof.
  induction fuel as [|fuel IH]; intros [name ch] d w r w' es H Hp.
  - rewrite exec_O in H. apply ret_inv in H. destruct H as (_ & _ & ->). discriminate.
  - rewrite exec_S in H. cbv zeta in H. cbn [tree_names]. rewrite mem_str_cons. apply orb_true_iff.
    assert (Next : forall d' w1 r1 w2 e1,
              (match first_child ch with Some c => exec tc dec fuel c d' | None => ret (Ev_Unknown, d') end) w1
              = (r1, w2, e1) -> existsb pay_ok e1 = true ->
              mem_str pay_action (match first_child ch with Some c => tree_names fuel c | None => [] end) = true).
    { intros d' w1 r1 w2 e1 Hn Hp1. destruct (first_child ch) as [c|].
      - eapply IH; eauto.
      - apply ret_inv in Hn. destruct Hn as (_ & _ & ->). discriminate. }
    destruct (String.eqb name "CheckRequestWrapperAction").
    { apply bind_inv in H. destruct H as (cr & w1 & e1 & e2 & Hc & H & ->).
      apply check_request_no_effects in Hc. subst e1. cbn [app] in Hp.
      destruct cr as [[|]|].
      - right. eapply Next; eauto.
      - unfold log_rejected in H. msym. discriminate.
      - msym. discriminate. }
    destruct (String.eqb name "SetBlindingKeyActionWrapper").
    { destruct (String.eqb (get_chain d) lbtc_chain).
      - apply bind_inv in H. destruct H as (k & w1 & e1 & e2 & Hpp & H & ->).
        apply pop_inv in Hpp. subst e1. cbn [app] in Hp. right. eapply Next; eauto.
      - right. eapply Next; eauto. }
    destruct (String.eqb name "StopSendMessageWithRetryWrapperAction").
    { apply bind_inv in H. destruct H as (u & w1 & e1 & e2 & He & H & ->).
      apply emit_inv in He. destruct He as (-> & ->). cbn in Hp. right. eapply Next; eauto. }
    destruct (String.eqb name "CheckPremiumAmount").
    { destruct (check_premium d) as [[|]|].
      - right. eapply Next; eauto.
      - msym. discriminate.
      - msym. discriminate. }
    destruct (String.eqb name "AddSuspiciousPeerAction").
    { apply bind_inv in H. destruct H as (ok & w1 & e1 & e2 & Hpp & H & ->).
      apply pop_inv in Hpp. subst e1.
      apply bind_inv in H. destruct H as (u & w2 & e3 & e4 & He & H & ->).
      apply emit_inv in He. destruct He as (-> & ->). cbn in Hp. right. eapply Next; eauto. }
    destruct (assoc_str name (leaf_actions tc dec)) as [f|] eqn:Ef.
    + apply assoc_str_in in Ef. left. rewrite (leaf_pay_name name f Ef _ _ _ _ _ H Hp). apply String.eqb_refl.
    + apply ret_inv in H. destruct H as (_ & _ & ->). discriminate.
Qed.

(* the actions of the claim zone: only preimage-spend attempts / end of retransmission, never a panic *)
Definition zone_effect (e : effect) : bool :=
  match e with EBroadcastSpend SKPreimage _ => true | ERetransStop => true | _ => false end.

Lemma exec_safe a d w ev d' w' es :
  safe_tree a = true ->
  exec tc dec action_fuel a d w = ((ev, d'), w', es) ->
  forallb zone_effect es = true /\ String.eqb ev Ev_Panic = false.
Proof.
  destruct a as [name ch]. intros Hs H. with_strategy transparent [action_fuel] unfold action_fuel in H. rewrite exec_S in H. cbv zeta in H.
  unfold safe_tree, safe_actions in Hs. rewrite !mem_str_cons in Hs. cbn [mem_str existsb] in Hs.
  rewrite orb_false_r in Hs. apply orb_true_iff in Hs.
  destruct Hs as [Hs|Hs]; apply String.eqb_eq in Hs; subst name;
    cbn [String.eqb Ascii.eqb Bool.eqb andb] in H; cbn [assoc_str leaf_actions String.eqb Ascii.eqb Bool.eqb andb] in H.
  - autounfold with actions in H. msym; list_simpl; split; reflexivity.
  - msym. split; reflexivity.
Qed.

End Actions.

(* ================= more list facts ================= *)
Lemma after_pay_exists es p : after_pay es = Some p -> existsb pay_ok es = true.
Proof.
  intros H. destruct (existsb pay_ok es) eqn:E; [reflexivity|].
  apply after_pay_none in E. congruence.
Qed.

Lemma count_persist_app a b : count_persist (a ++ b) = (count_persist a + count_persist b)%nat.
Proof. unfold count_persist. rewrite filter_app, app_length. reflexivity. Qed.

Lemma zone_effect_claim zs e : zone_effect e = true -> claim_only zs e = true /\ not_persist e.
Proof. destruct e; cbn; try discriminate; auto. Qed.

Lemma zone_effects_claim zs es : forallb zone_effect es = true -> forallb (claim_only zs) es = true.
Proof.
  rewrite !forallb_forall. intros H e He. apply (zone_effect_claim zs e). auto.
Qed.

Lemma zone_effects_guard (P : swap_data -> effect -> Prop) zs lp es :
  (forall e, claim_only zs e = true -> P lp e) ->
  forallb zone_effect es = true -> Forall (fun e => P lp e /\ not_persist e) es.
Proof.
  intros HP H. rewrite forallb_forall in H. apply Forall_forall. intros e He.
  destruct (zone_effect_claim zs e (H e He)). auto.
Qed.

Lemma tail_ok_zone zs ps post :
  forallb (claim_only zs) post = true -> existsb (durable_in zs) post = true -> tail_ok zs ps post = true.
Proof. intros H1 H2. destruct post; cbn [tail_ok]; rewrite H1, H2; reflexivity. Qed.

Lemma tail_ok_cons zs ps s d r :
  mem_str s ps = true -> tail_ok zs ps r = true -> tail_ok zs ps (EPersist s d true :: r) = true.
Proof. intros H1 H2. cbn [tail_ok]. rewrite H1, H2. apply orb_true_r. Qed.

Lemma tail_ok_app zs ps post new :
  tail_ok zs ps post = true -> forallb (claim_only zs) new = true -> tail_ok zs ps (post ++ new) = true.
Proof.
  induction post as [|e r IH]; intros H Hn.
  - cbn in H. discriminate.
  - cbn [tail_ok] in H. apply orb_true_iff in H. destruct H as [H|H].
    + apply andb_true_iff in H. destruct H as [H1 H2]. apply tail_ok_zone.
      * rewrite forallb_app, H1, Hn. reflexivity.
      * rewrite existsb_app, H2. reflexivity.
    + destruct e; try discriminate. destruct ok; try discriminate.
      apply andb_true_iff in H. destruct H as [H1 H2]. cbn [app]. apply tail_ok_cons; auto.
Qed.

(* the last durable record of a trace whose tail is ok is a record of the zone *)
Definition lp_fold (acc : option (string * swap_data)) (e : effect) : option (string * swap_data) :=
  match e with EPersist s d true => Some (s, d) | _ => acc end.

Lemma lp_fold_acc b : forall acc,
  fold_left lp_fold b acc = match fold_left lp_fold b None with Some x => Some x | None => acc end.
Proof.
  induction b as [|e r IH]; intros acc; cbn [fold_left]; [reflexivity|].
  rewrite (IH (lp_fold acc e)), (IH (lp_fold None e)).
  destruct (fold_left lp_fold r None); [reflexivity|].
  destruct e; try reflexivity. destruct ok; reflexivity.
Qed.

Lemma last_persist_app a b :
  last_persist (a ++ b) = match last_persist b with Some x => Some x | None => last_persist a end.
Proof.
  unfold last_persist. change (fun acc e => match e with EPersist s d true => Some (s, d) | _ => acc end) with lp_fold.
  rewrite fold_left_app. apply lp_fold_acc.
Qed.

Lemma last_persist_zone zs es :
  forallb (claim_only zs) es = true -> existsb (durable_in zs) es = true ->
  exists s d, last_persist es = Some (s, d) /\ mem_str s zs = true.
Proof.
  induction es as [|e r IH] using rev_ind; intros H1 H2; [discriminate|].
  rewrite forallb_app in H1. apply andb_true_iff in H1. destruct H1 as [H1 He]. cbn in He. rewrite andb_true_r in He.
  rewrite last_persist_app. rewrite existsb_app in H2.
  destruct e; cbn [last_persist fold_left];
    try (cbn in H2; rewrite orb_false_r in H2; exact (IH H1 H2)).
  destruct ok.
  - exists state, d. split; [reflexivity|exact He].
  - cbn in H2. rewrite orb_false_r in H2. exact (IH H1 H2).
Qed.

Lemma tail_ok_last zs ps pre post :
  tail_ok zs ps post = true -> exists s d, last_persist (pre ++ post) = Some (s, d) /\ mem_str s zs = true.
Proof.
  revert pre. induction post as [|e r IH]; intros pre H; [discriminate|].
  cbn [tail_ok] in H. apply orb_true_iff in H. destruct H as [H|H].
  - apply andb_true_iff in H. destruct H as [H1 H2].
    destruct (last_persist_zone zs _ H1 H2) as (s & d & Hl & Hs). exists s, d. rewrite last_persist_app, Hl. auto.
  - destruct e; try discriminate. destruct ok; try discriminate.
    apply andb_true_iff in H. destruct H as [_ H].
    replace (pre ++ EPersist state d true :: r) with ((pre ++ [EPersist state d true]) ++ r)
      by (rewrite <- app_assoc; reflexivity).
    apply IH. exact H.
Qed.

Lemma tail_ok_all zs ps post :
  tail_ok zs ps post = true -> forallb (claim_only (zs ++ ps)) post = true.
Proof.
  induction post as [|e r IH]; intros H; [reflexivity|].
  cbn [tail_ok] in H. apply orb_true_iff in H. destruct H as [H|H].
  - apply andb_true_iff in H. destruct H as [H _]. rewrite forallb_forall in *. intros x Hx.
    eapply claim_only_mono; [|exact (H x Hx)]. intros s. apply mem_str_app_l.
  - destruct e; try discriminate. destruct ok; try discriminate.
    apply andb_true_iff in H. destruct H as [H1 H2]. cbn [forallb claim_only]. rewrite (IH H2), andb_true_r.
    apply mem_str_in. apply in_app_iff. right. apply mem_str_in. exact H1.
Qed.

(* ================= the claim zone ================= *)
Section Zone.
Variable tc : tl_consts.
Variable dec : string -> option (string * Z * Z).
Variable t : table.
Variable terminal : list string.
Variable zs : list string.
Hypothesis Hz : zone_closed t zs = true.
Hypothesis Hpz : pay_enters_zone t zs = true.

Definition IZ (m : machine) : Prop := mem_str (m_cur m) zs = true.
Definition PZ (lp : swap_data) (e : effect) : Prop := claim_only zs e = true.
Definition EZ (m : machine) (ev : string) : Prop := True.

Lemma trace_ok_PZ lp es : trace_ok PZ lp es <-> forallb (claim_only zs) es = true.
Proof.
  revert lp. induction es as [|e r IH]; intros lp; cbn [trace_ok forallb]; [tauto|].
  rewrite andb_true_iff, IH. unfold PZ. tauto.
Qed.

Lemma zone_state s : mem_str s zs = true ->
  exists sd a, lookup_state t s = Some sd /\ st_action sd = Some a /\ safe_tree a = true /\
    forall ev nx, assoc_str ev (st_events sd) = Some nx -> mem_str nx zs = true.
Proof.
  intros Hs. apply mem_str_in in Hs. unfold zone_closed in Hz. rewrite forallb_forall in Hz. specialize (Hz s Hs).
  destruct (lookup_state t s) as [sd|]; [|discriminate].
  destruct (st_action sd) as [a|] eqn:Ea; [|discriminate].
  apply andb_true_iff in Hz. destruct Hz as [Ha He]. exists sd, a. repeat split; auto.
  intros ev nx Hev. apply assoc_str_in in Hev. rewrite forallb_forall in He. exact (He (ev, nx) Hev).
Qed.

Lemma zone_next m ev nxt : IZ m -> next_state t (m_cur m) ev = Some nxt -> mem_str nxt zs = true.
Proof.
  intros HI Hn. destruct (zone_state _ HI) as (sd & a & Hl & _ & _ & He).
  unfold next_state in Hn. rewrite Hl in Hn. eauto.
Qed.

Lemma zone_exec s sd act d w ev' d' w' es :
  mem_str s zs = true -> lookup_state t s = Some sd -> st_action sd = Some act ->
  exec tc dec action_fuel act d w = ((ev', d'), w', es) ->
  forallb zone_effect es = true /\ String.eqb ev' Ev_Panic = false.
Proof.
  intros Hs Hl Ha Hex. destruct (zone_state _ Hs) as (sd0 & a0 & Hl0 & Ha0 & Hsafe & _).
  rewrite Hl in Hl0. inversion Hl0; subst sd0. rewrite Ha in Ha0. inversion Ha0; subst a0.
  eapply exec_safe; eauto.
Qed.

Lemma zone_I_retries : forall m r, IZ m -> IZ (m <| m_retries := r |>).
Proof. intros m r H. exact H. Qed.
Lemma zone_E_retries : forall m r ev, EZ m ev -> EZ (m <| m_retries := r |>) ev.
Proof. intros. exact Logic.I. Qed.
Lemma zone_P_persist : forall m lp ok, IZ m -> PZ lp (EPersist (m_cur m) (m_data m) ok).
Proof. intros m lp ok H. exact H. Qed.

Lemma zone_act : forall m ev nxt sd act, IZ m -> EZ m ev ->
  next_state t (m_cur m) ev = Some nxt -> lookup_state t nxt = Some sd -> st_action sd = Some act ->
  forall w ev' d' w' es,
    exec tc dec action_fuel act (m_data (enter m nxt)) w = ((ev', d'), w', es) ->
    Forall (fun e => PZ (m_data m) e /\ not_persist e) es /\
    IZ ((enter m nxt) <| m_data := d' |>) /\ EZ ((enter m nxt) <| m_data := d' |>) ev'.
Proof.
  intros m ev nxt sd act HI _ Hn Hl Ha w ev' d' w' es Hex.
  pose proof (zone_next _ _ _ HI Hn) as Hnx.
  destruct (zone_exec _ _ _ _ _ _ _ _ _ Hnx Hl Ha Hex) as [Hes _].
  split; [|split; [exact Hnx|exact Logic.I]].
  eapply zone_effects_guard; [|exact Hes]. intros e He. exact He.
Qed.

Lemma zone_recover : forall m sd act, IZ m -> lookup_state t (m_cur m) = Some sd -> st_action sd = Some act ->
  (st_fail_on_recover sd = true -> EZ m Ev_Failed) /\
  (st_fail_on_recover sd = false ->
   forall w ev' d' w' es,
     exec tc dec action_fuel act (m_data m) w = ((ev', d'), w', es) ->
     Forall (fun e => PZ (m_data m) e /\ not_persist e) es /\
     IZ (m <| m_data := d' |>) /\ EZ (m <| m_data := d' |>) ev').
Proof.
  intros m sd act HI Hl Ha. split; [intros; exact Logic.I|].
  intros _ w ev' d' w' es Hex.
  destruct (zone_exec _ _ _ _ _ _ _ _ _ HI Hl Ha Hex) as [Hes _].
  split; [|split; [exact HI|exact Logic.I]].
  eapply zone_effects_guard; [|exact Hes]. intros e He. exact He.
Qed.

Lemma zone_loop fuel m ev w m' res w' es :
  IZ m -> event_loop tc dec t fuel m ev w = ((m', res), w', es) ->
  forallb (claim_only zs) es = true /\ IZ m'.
Proof.
  intros HI H.
  destruct (event_loop_rule tc dec t IZ PZ EZ zone_I_retries zone_E_retries zone_P_persist zone_act
              fuel m ev w m' res w' es HI Logic.I H) as [T HI'].
  split; [apply (trace_ok_PZ (m_data m)); exact T|exact HI'].
Qed.

Lemma zone_step m i w o w' es :
  IZ m -> step tc dec t terminal m i w = (o, w', es) ->
  forallb (claim_only zs) es = true /\ IZ (o_machine o).
Proof.
  intros HI H.
  destruct (step_rule tc dec t terminal IZ PZ EZ zone_I_retries zone_E_retries zone_P_persist zone_act zone_recover
              m i (m_data m) w o w' es HI) as [T HI']; auto.
  - destruct i as [ev [c|]| | | | |]; cbn; unfold EZ, IZ in *; repeat split; intros; cbn; auto.
  - split; [apply (trace_ok_PZ (m_data m)); exact T|exact HI'].
Qed.

(* ---- a paying state: its success edge leads into the zone ---- *)
Lemma pay_edge s sd act :
  lookup_state t s = Some sd -> st_action sd = Some act -> may_pay act = true ->
  exists nx, next_state t s Ev_Succeeded = Some nx /\ mem_str nx zs = true.
Proof.
  intros Hl Ha Hm. unfold lookup_state in Hl. pose proof (assoc_str_in _ _ _ Hl) as Hin.
  unfold pay_enters_zone in Hpz. rewrite forallb_forall in Hpz. specialize (Hpz (s, sd) Hin).
  cbn [snd] in Hpz. rewrite Ha, Hm in Hpz.
  destruct (assoc_str Ev_Succeeded (st_events sd)) as [nx|] eqn:E; [|discriminate].
  exists nx. split; [|exact Hpz]. unfold next_state, lookup_state. rewrite Hl. exact E.
Qed.

Lemma pay_state_mem s sd act :
  lookup_state t s = Some sd -> st_action sd = Some act -> may_pay act = true -> mem_str s (pay_states t) = true.
Proof.
  intros Hl Ha Hm. unfold lookup_state in Hl. pose proof (assoc_str_in _ _ _ Hl) as Hin.
  apply mem_str_in. unfold pay_states. apply in_flat_map. exists (s, sd). split; [exact Hin|].
  cbn [snd fst]. rewrite Ha, Hm. left. reflexivity.
Qed.

Lemma persist_ok_app a b : forallb persist_ok (a ++ b) = true -> forallb persist_ok a = true /\ forallb persist_ok b = true.
Proof. rewrite forallb_app. apply andb_true_iff. Qed.

(* the loop continues with the success event of a paying state: it enters the zone, stores it, and stays *)
Lemma loop_from_paid fuel m w m' res w' es sd act :
  lookup_state t (m_cur m) = Some sd -> st_action sd = Some act -> may_pay act = true ->
  event_loop tc dec t (S fuel) m Ev_Succeeded w = ((m', res), w', es) ->
  forallb persist_ok es = true ->
  forallb (claim_only zs) es = true /\ existsb (durable_in zs) es = true /\ IZ m'.
Proof.
  intros Hl Ha Hm H Hok.
  destruct (pay_edge _ _ _ Hl Ha Hm) as (nx & Hn & Hnx).
  destruct (zone_state _ Hnx) as (sdx & ax & Hlx & Hax & Hsafe & _).
  rewrite event_loop_S in H. rewrite Hn, Hlx, Hax in H. cbv zeta in H.
  apply bind_inv in H. destruct H as ([ev' d'] & w1 & e1 & e2 & Hex & H & ->).
  destruct (exec_safe tc dec _ _ _ _ _ _ _ Hsafe Hex) as [He1 Hnp].
  rewrite Hnp in H.
  apply bind_inv in H. destruct H as (ok & w2 & e3 & e4 & Hp & H & ->).
  apply persist_inv in Hp. subst e3.
  apply persist_ok_app in Hok. destruct Hok as [_ Hok]. apply persist_ok_app in Hok. destruct Hok as [Hok3 Hok4].
  match type of Hok3 with forallb _ [EPersist ?s ?d _] = _ => remember s as ps eqn:Eps; remember d as pd eqn:Epd end.
  assert (Hps : mem_str ps zs = true) by (subst ps; exact Hnx).
  clear Eps Epd.
  destruct ok; [|cbn in Hok3; discriminate]. cbn [negb] in H.
  assert (Fin : forall e4', forallb (claim_only zs) e4' = true ->
            forallb (claim_only zs) (e1 ++ [EPersist ps pd true] ++ e4') = true /\
            existsb (durable_in zs) (e1 ++ [EPersist ps pd true] ++ e4') = true).
  { intros e4' H4. split.
    - rewrite !forallb_app, (zone_effects_claim zs _ He1), H4. cbn [forallb claim_only andb]. rewrite Hps. reflexivity.
    - rewrite !existsb_app. cbn [existsb durable_in orb]. rewrite Hps. cbn. apply orb_true_r. }
  destruct (String.eqb ev' Ev_Done).
  { apply ret_inv in H. destruct H as (H & _ & ->). inversion H; subst.
    destruct (Fin [] eq_refl) as [F1 F2]. repeat split; auto. }
  destruct (String.eqb ev' Ev_NoOp).
  { apply ret_inv in H. destruct H as (H & _ & ->). inversion H; subst.
    destruct (Fin [] eq_refl) as [F1 F2]. repeat split; auto. }
  destruct (String.eqb ev' Ev_Retry).
  - cbv zeta in H.
    match type of H with (if ?c then _ else _) _ = _ => destruct c end.
    + apply ret_inv in H. destruct H as (H & _ & ->). inversion H; subst.
      destruct (Fin [] eq_refl) as [F1 F2]. repeat split; auto.
    + apply zone_loop in H; [|exact Hnx]. destruct H as [H4 HI'].
      destruct (Fin e4 H4) as [F1 F2]. repeat split; auto.
  - apply zone_loop in H; [|exact Hnx]. destruct H as [H4 HI'].
    destruct (Fin e4 H4) as [F1 F2]. repeat split; auto.
Qed.

(* the event loop in which the payment succeeds *)
Lemma loop_paying fuel : forall m ev w m' res w' es post,
  event_loop tc dec t fuel m ev w = ((m', res), w', es) ->
  forallb persist_ok es = true -> (count_persist es < fuel)%nat ->
  after_pay es = Some post ->
  tail_ok zs (pay_states t) post = true /\ IZ m'.
Proof.
  induction fuel as [|fuel IH]; intros m ev w m' res w' es post H Hok Hc Hap.
  - rewrite event_loop_O in H. apply ret_inv in H. destruct H as (_ & _ & ->). discriminate.
  - rewrite event_loop_S in H.
    destruct (next_state t (m_cur m) ev) as [nxt|] eqn:Hn.
    2:{ apply ret_inv in H. destruct H as (_ & _ & ->). discriminate. }
    destruct (lookup_state t nxt) as [sd|] eqn:Hl.
    2:{ apply ret_inv in H. destruct H as (_ & _ & ->). discriminate. }
    destruct (st_action sd) as [act|] eqn:Ha.
    2:{ apply ret_inv in H. destruct H as (_ & _ & ->). discriminate. }
    cbv zeta in H.
    apply bind_inv in H. destruct H as ([ev' d'] & w1 & e1 & e2 & Hex & H & ->).
    rewrite after_pay_app in Hap.
    apply persist_ok_app in Hok. destruct Hok as [Hok1 Hok2].
    rewrite count_persist_app in Hc.
    destruct (after_pay e1) as [p1|] eqn:Hap1.
    + (* the payment succeeds in this action *)
      destruct (exec_pay_last tc dec _ _ _ _ _ _ _ Hex p1 Hap1) as [-> Hev]. cbn [fst] in Hev. subst ev'.
      assert (Hm : may_pay act = true).
      { unfold may_pay. eapply exec_pay_named; [exact Hex|]. eapply after_pay_exists; eauto. }
      cbn [app] in Hap. inversion Hap; subst post. clear Hap.
      change (String.eqb Ev_Succeeded Ev_Panic) with false in H. cbv iota in H.
      apply bind_inv in H. destruct H as (ok & w2 & e3 & e4 & Hp & H & ->).
      apply persist_inv in Hp. subst e3.
      apply persist_ok_app in Hok2. destruct Hok2 as [Hok3 Hok4].
      rewrite count_persist_app in Hc.
      destruct ok; [|cbn in Hok3; discriminate]. cbn [negb] in H.
      change (String.eqb Ev_Succeeded Ev_Done) with false in H.
      change (String.eqb Ev_Succeeded Ev_NoOp) with false in H.
      change (String.eqb Ev_Succeeded Ev_Retry) with false in H. cbv iota in H.
      destruct fuel as [|fuel].
      { exfalso. cbn in Hc. lia. }
      match type of H with event_loop _ _ _ _ ?m2 _ _ = _ =>
        assert (Hl2 : lookup_state t (m_cur m2) = Some sd) by exact Hl;
        destruct (loop_from_paid fuel m2 w2 m' res w' e4 sd act Hl2 Ha Hm H Hok4) as (F1 & F2 & HI')
      end.
      split; [|exact HI'].
      cbn [app]. apply tail_ok_cons.
      * eapply pay_state_mem; eauto.
      * apply tail_ok_zone; auto.
    + (* no payment in this action: it happens later in the loop *)
      destruct (String.eqb ev' Ev_Panic).
      { apply ret_inv in H. destruct H as (_ & _ & ->). discriminate. }
      apply bind_inv in H. destruct H as (ok & w2 & e3 & e4 & Hp & H & ->).
      apply persist_inv in Hp. subst e3.
      apply persist_ok_app in Hok2. destruct Hok2 as [Hok3 Hok4].
      rewrite count_persist_app in Hc. cbn [app after_pay pay_ok] in Hap.
      assert (Hc4 : (count_persist e4 < fuel)%nat) by (cbn in Hc; lia).
      destruct ok; cbn [negb] in H.
      2:{ apply ret_inv in H. destruct H as (_ & _ & ->). discriminate. }
      destruct (String.eqb ev' Ev_Done).
      { apply ret_inv in H. destruct H as (_ & _ & ->). discriminate. }
      destruct (String.eqb ev' Ev_NoOp).
      { apply ret_inv in H. destruct H as (_ & _ & ->). discriminate. }
      destruct (String.eqb ev' Ev_Retry).
      * cbv zeta in H.
        match type of H with (if ?c then _ else _) _ = _ => destruct c end.
        -- apply ret_inv in H. destruct H as (_ & _ & ->). discriminate.
        -- eapply IH; eauto.
      * eapply IH; eauto.
Qed.


Lemma ptl_paying mm ev w m' res w' es post :
  persist_then_loop tc dec t mm ev w = ((m', res), w', es) ->
  forallb persist_ok es = true -> (count_persist es < loop_fuel)%nat ->
  after_pay es = Some post ->
  tail_ok zs (pay_states t) post = true /\ IZ m'.
Proof.
  intros H Hok Hc Hap. unfold persist_then_loop in H.
  apply bind_inv in H. destruct H as (ok & w1 & e1 & e2 & Hp & H & ->).
  apply persist_inv in Hp. subst e1.
  apply persist_ok_app in Hok. destruct Hok as [Hok1 Hok2].
  rewrite count_persist_app in Hc. cbn [app after_pay pay_ok] in Hap.
  destruct ok; cbn [negb] in H.
  - eapply loop_paying; eauto. cbn in Hc. lia.
  - apply ret_inv in H. destruct H as (_ & _ & ->). discriminate.
Qed.

Lemma send_paying m ev ctx w m' res w' es post :
  send_event tc dec t m ev ctx w = ((m', res), w', es) ->
  forallb persist_ok es = true -> (count_persist es < loop_fuel)%nat ->
  after_pay es = Some post ->
  tail_ok zs (pay_states t) post = true /\ IZ m'.
Proof.
  intros H Hok Hc Hap. unfold send_event in H.
  destruct (String.eqb ev Ev_Done).
  { apply ret_inv in H. destruct H as (_ & _ & ->). discriminate. }
  destruct (next_state t (m_cur m) ev).
  2:{ apply ret_inv in H. destruct H as (_ & _ & ->). discriminate. }
  destruct ctx as [c|].
  - destruct (validate_ctx (m_data m) c); cbn [negb] in H.
    + destruct (apply_ctx (m_data m) c) as [d'|].
      * eapply ptl_paying; eauto.
      * apply ret_inv in H. destruct H as (_ & _ & ->). discriminate.
    + unfold accepted_then_loop in H. destruct (next_state t (m_cur m) Ev_Invalid).
      * eapply ptl_paying; eauto.
      * apply ret_inv in H. destruct H as (_ & _ & ->). discriminate.
  - eapply ptl_paying; eauto.
Qed.

Lemma zone_send m ev ctx w m' res w' es :
  IZ m -> send_event tc dec t m ev ctx w = ((m', res), w', es) ->
  forallb (claim_only zs) es = true /\ IZ m'.
Proof.
  intros HI H.
  destruct (send_event_rule tc dec t IZ PZ EZ zone_I_retries zone_E_retries zone_P_persist zone_act
              m ev ctx (m_data m) w m' res w' es HI) as [T HI']; auto.
  - destruct ctx as [c|]; cbn; unfold EZ, IZ in *; repeat split; intros; cbn; auto.
  - split; [apply (trace_ok_PZ (m_data m)); exact T|exact HI'].
Qed.

Lemma recover_paying m w m' res w' es post :
  recover tc dec t m w = ((m', res), w', es) ->
  forallb persist_ok es = true -> (count_persist es < loop_fuel)%nat ->
  after_pay es = Some post ->
  tail_ok zs (pay_states t) post = true /\ IZ m'.
Proof.
  intros H Hok Hc Hap. unfold recover in H.
  destruct (lookup_state t (m_cur m)) as [sd|] eqn:Hl.
  2:{ apply ret_inv in H. destruct H as (_ & _ & ->). discriminate. }
  destruct (st_action sd) as [act|] eqn:Ha.
  2:{ apply ret_inv in H. destruct H as (_ & _ & ->). discriminate. }
  destruct (st_fail_on_recover sd).
  { eapply send_paying; eauto. }
  apply bind_inv in H. destruct H as ([ev' d'] & w1 & e1 & e2 & Hex & H & ->).
  rewrite after_pay_app in Hap.
  apply persist_ok_app in Hok. destruct Hok as [Hok1 Hok2].
  rewrite count_persist_app in Hc.
  destruct (after_pay e1) as [p1|] eqn:Hap1.
  - (* the payment succeeds in the re-executed action *)
    destruct (exec_pay_last tc dec _ _ _ _ _ _ _ Hex p1 Hap1) as [-> Hev]. cbn [fst] in Hev. subst ev'.
    assert (Hm : may_pay act = true).
    { unfold may_pay. eapply exec_pay_named; [exact Hex|]. eapply after_pay_exists; eauto. }
    cbn [app] in Hap. inversion Hap; subst post. clear Hap.
    change (String.eqb Ev_Succeeded Ev_Panic) with false in H. cbv iota in H.
    apply bind_inv in H. destruct H as (ok & w2 & e3 & e4 & Hp & H & ->).
    apply persist_inv in Hp. subst e3.
    apply persist_ok_app in Hok2. destruct Hok2 as [Hok3 Hok4].
    destruct ok; [|cbn in Hok3; discriminate]. cbn [negb] in H.
    change (String.eqb Ev_Succeeded Ev_NoOp) with false in H. cbv iota in H.
    unfold send_event in H. change (String.eqb Ev_Succeeded Ev_Done) with false in H. cbv iota in H.
    destruct (pay_edge _ _ _ Hl Ha Hm) as (nx0 & Hn0 & _).
    match type of H with context [next_state t (m_cur ?mm) Ev_Succeeded] =>
      change (next_state t (m_cur mm) Ev_Succeeded) with (next_state t (m_cur m) Ev_Succeeded) in H end.
    rewrite Hn0 in H. clear nx0 Hn0.
    unfold persist_then_loop in H.
    apply bind_inv in H. destruct H as (ok & w3 & e5 & e6 & Hp & H & ->).
    apply persist_inv in Hp. subst e5.
    apply persist_ok_app in Hok4. destruct Hok4 as [Hok5 Hok6].
    destruct ok; [|cbn in Hok5; discriminate]. cbn [negb] in H.
    assert (Hps : mem_str (m_cur m) (pay_states t) = true) by (eapply pay_state_mem; eauto).
    with_strategy transparent [loop_fuel] unfold loop_fuel in H.
    match type of H with event_loop _ _ _ _ ?m2 _ _ = _ =>
      assert (Hl2 : lookup_state t (m_cur m2) = Some sd) by exact Hl;
      destruct (loop_from_paid _ m2 w3 m' res w' e6 sd act Hl2 Ha Hm H Hok6) as (F1 & F2 & HI')
    end.
    split; [|exact HI'].
    cbn [app]. apply tail_ok_cons; [exact Hps|]. apply tail_ok_cons; [exact Hps|]. apply tail_ok_zone; auto.
  - destruct (String.eqb ev' Ev_Panic).
    { apply ret_inv in H. destruct H as (_ & _ & ->). discriminate. }
    apply bind_inv in H. destruct H as (ok & w2 & e3 & e4 & Hp & H & ->).
    apply persist_inv in Hp. subst e3.
    apply persist_ok_app in Hok2. destruct Hok2 as [Hok3 Hok4].
    rewrite count_persist_app in Hc. cbn [app after_pay pay_ok] in Hap.
    destruct ok; cbn [negb] in H.
    2:{ apply ret_inv in H. destruct H as (_ & _ & ->). discriminate. }
    destruct (String.eqb ev' Ev_NoOp).
    { apply ret_inv in H. destruct H as (_ & _ & ->). discriminate. }
    eapply send_paying; eauto. cbn in Hc. lia.
Qed.

(* the entry point in which the payment succeeds *)
Lemma step_paying m i w o w' es post :
  step tc dec t terminal m i w = (o, w', es) ->
  forallb persist_ok es = true -> (count_persist es < loop_fuel)%nat ->
  after_pay es = Some post ->
  tail_ok zs (pay_states t) post = true /\ IZ (o_machine o).
Proof.
  intros H Hok Hc Hap. destruct i as [ev ctx|rq|hex err| | |]; unfold step in H.
  - apply bind_inv in H. destruct H as ([m1 res] & w1 & e1 & e2 & Hs & H & ->).
    apply ret_inv in H. destruct H as (-> & _ & ->). rewrite app_nil_r in *. eapply send_paying; eauto.
  - apply bind_inv in H. destruct H as ([m1 res] & w1 & e1 & e2 & Hs & H & ->).
    apply ret_inv in H. destruct H as (-> & _ & ->). rewrite app_nil_r in *. eapply send_paying; eauto.
  - apply bind_inv in H. destruct H as ([m0 rem0] & w1 & e1 & e2 & H0 & H & ->).
    apply bind_inv in H. destruct H as ([m1 res] & w2 & e3 & e4 & Hs & H & ->).
    apply ret_inv in H. destruct H as (-> & _ & ->). rewrite app_nil_r in *. cbn [o_machine].
    apply persist_ok_app in Hok. destruct Hok as [Hok1 Hok3].
    rewrite count_persist_app in Hc. rewrite after_pay_app in Hap.
    destruct (after_pay e1) as [p1|] eqn:Hap1.
    + (* paid in the first SendEvent (ActionFailed); the second one runs in the zone *)
      inversion Hap; subst post. clear Hap.
      destruct err.
      * apply bind_inv in H0. destruct H0 as ([mx rx] & wx & ex & ey & Hs0 & H0 & ->).
        apply ret_inv in H0. destruct H0 as (H0 & _ & ->). inversion H0; subst. rewrite app_nil_r in *.
        destruct (send_paying _ _ _ _ _ _ _ _ _ Hs0 Hok1 ltac:(lia) Hap1) as [T1 HI0].
        apply zone_send in Hs; [|exact HI0]. destruct Hs as [T3 HI1].
        split; [|exact HI1]. apply tail_ok_app; auto.
      * apply ret_inv in H0. destruct H0 as (_ & _ & ->). discriminate.
    + eapply send_paying; eauto. lia.
  - apply bind_inv in H. destruct H as ([m1 res] & w1 & e1 & e2 & Hs & H & ->).
    apply ret_inv in H. destruct H as (-> & _ & ->). rewrite app_nil_r in *. eapply send_paying; eauto.
  - apply bind_inv in H. destruct H as ([m1 res] & w1 & e1 & e2 & Hs & H & ->).
    apply ret_inv in H. destruct H as (-> & _ & ->). rewrite app_nil_r in *. eapply send_paying; eauto.
  - destruct (is_finished terminal (m_cur m)).
    { apply ret_inv in H. destruct H as (_ & _ & ->). discriminate. }
    apply bind_inv in H. destruct H as ([m1 res] & w1 & e1 & e2 & Hs & H & ->).
    apply ret_inv in H. destruct H as (-> & _ & ->). rewrite app_nil_r in *. eapply recover_paying; eauto.
Qed.


(* ================= histories ================= *)
Lemma skipn_length_app {A} (a b : list A) : skipn (List.length a) (a ++ b) = b.
Proof. induction a as [|x r IH]; cbn; auto. Qed.

Lemma after_pay_split es post : after_pay es = Some post ->
  exists pre, es = (pre ++ post)%list /\ existsb pay_ok pre = true.
Proof.
  revert post. induction es as [|e r IH]; intros post H; [discriminate|].
  cbn [after_pay] in H. destruct (pay_ok e) eqn:E.
  - inversion H; subst. exists [e]. split; [reflexivity|]. cbn. rewrite E. reflexivity.
  - destruct (IH _ H) as (pre & -> & Hp). exists (e :: pre). split; [reflexivity|]. cbn. rewrite E. exact Hp.
Qed.

Lemma forallb_firstn {A} (f : A -> bool) l k : forallb f l = true -> forallb f (firstn k l) = true.
Proof.
  revert k. induction l as [|x r IH]; intros [|k] H; cbn in *; auto.
  apply andb_true_iff in H. destruct H as [H1 H2]. rewrite H1, IH; auto.
Qed.

(* what holds of a history state once the claim payment has succeeded *)
Definition JH (h : hstate) : Prop :=
  forall post, after_pay (hs_trace h) = Some post ->
    tail_ok zs (pay_states t) post = true /\ (forall m, hs_machine h = Some m -> IZ m).

Lemma restore_zone m tr mr post :
  after_pay tr = Some post -> tail_ok zs (pay_states t) post = true -> restore m tr = Some mr -> IZ mr.
Proof.
  intros Hap Ht Hr. destruct (after_pay_split _ _ Hap) as (pre & -> & _).
  destruct (tail_ok_last zs (pay_states t) pre post Ht) as (s & d & Hl & Hs).
  destruct (restore_cur _ _ _ Hr) as (s' & d' & Hl' & Hc & _).
  rewrite Hl in Hl'. injection Hl' as <- <-. unfold IZ. rewrite Hc. exact Hs.
Qed.

Lemma hist_step_JH h it :
  JH h ->
  calm_item (hs_trace h) (hs_trace (hist_step tc dec t terminal h it)) (is_crash_item it) = true ->
  JH (hist_step tc dec t terminal h it).
Proof.
  intros HJ Hcalm. unfold hist_step in *.
  destruct (hs_machine h) as [mh|] eqn:Hmh; [|exact HJ].
  set (restartp := is_recover (item_input it)) in *.
  destruct (if restartp then restore mh (hs_trace h) else Some mh) as [m|] eqn:Hm.
  2:{ intros post Hap. cbn [hs_trace hs_machine] in *. destruct (HJ post Hap) as [T _]. split; [exact T|discriminate]. }
  assert (Hzone : forall post, after_pay (hs_trace h) = Some post -> IZ m).
  { intros post Hap. destruct (HJ post Hap) as [T HM]. destruct restartp.
    - eapply restore_zone; eauto.
    - inversion Hm; subst. apply HM. exact Hmh. }
  destruct it as [i w|i w k]; cbn [is_crash_item] in Hcalm;
    destruct (run_step tc dec t terminal m i w) as [[o w'] es] eqn:Hs; cbn [hs_trace hs_machine] in *;
    unfold calm_item in Hcalm; rewrite skipn_length_app in Hcalm.
  - (* the entry point runs to completion *)
    intros post Hap. cbn [hs_trace hs_machine] in Hap |- *. rewrite after_pay_app in Hap.
    destruct (after_pay (hs_trace h)) as [p0|] eqn:Hap0.
    + inversion Hap; subst post. destruct (HJ p0 Hap0) as [T _].
      destruct (zone_step m i w o w' es (Hzone p0 eq_refl) Hs) as [Tes HI].
      split; [apply tail_ok_app; auto|]. intros m2 Hm2. inversion Hm2; subst. exact HI.
    + apply after_pay_none in Hap0. rewrite Hap0, (after_pay_exists _ _ Hap) in Hcalm. cbn in Hcalm.
      apply andb_true_iff in Hcalm. destruct Hcalm as [Hok Hc]. apply Nat.ltb_lt in Hc.
      destruct (step_paying m i w o w' es post Hs Hok Hc Hap) as [T HI].
      split; [exact T|]. intros m2 Hm2. inversion Hm2; subst. exact HI.
  - (* the process dies after k effects *)
    intros post Hap. cbn [hs_trace hs_machine] in Hap |- *. rewrite after_pay_app in Hap.
    destruct (after_pay (hs_trace h)) as [p0|] eqn:Hap0.
    + inversion Hap; subst post. destruct (HJ p0 Hap0) as [T _].
      destruct (zone_step m i w o w' es (Hzone p0 eq_refl) Hs) as [Tes HI].
      assert (T' : tail_ok zs (pay_states t) (p0 ++ firstn k es) = true)
        by (apply tail_ok_app; auto; apply forallb_firstn; exact Tes).
      split; [exact T'|]. intros m2 Hm2.
      eapply (restore_zone m (hs_trace h ++ firstn k es) m2 (p0 ++ firstn k es)); eauto.
      rewrite after_pay_app, Hap0. reflexivity.
    + apply after_pay_none in Hap0. rewrite Hap0, (after_pay_exists _ _ Hap) in Hcalm. cbn in Hcalm. discriminate.
Qed.

Theorem hist_JH its : forall h, JH h -> c06_calm tc dec t terminal h its = true ->
  JH (fold_left (hist_step tc dec t terminal) its h).
Proof.
  induction its as [|it r IH]; intros h HJ Hc; [exact HJ|].
  cbn [fold_left]. cbn [c06_calm] in Hc. apply andb_true_iff in Hc. destruct Hc as [Hc1 Hc2].
  apply IH; [|exact Hc2]. apply hist_step_JH; auto.
Qed.

Theorem hist_after_pay m0 its :
  c06_calm tc dec t terminal (init_hstate m0) its = true ->
  JH (run_hist tc dec t terminal (init_hstate m0) its).
Proof.
  intros Hc. apply hist_JH; [|exact Hc]. intros post Hap. discriminate.
Qed.

End Zone.

(* ================= the theorems in the property's words ================= *)
Lemma after_pay_mem pre e post : existsb pay_ok pre = true ->
  exists p, after_pay (pre ++ e :: post) = Some p /\ In e p.
Proof.
  intros H. destruct (after_pay_some _ H) as (p0 & Hp0).
  exists (p0 ++ e :: post). rewrite after_pay_app, Hp0. split; [reflexivity|].
  apply in_app_iff. right. left. reflexivity.
Qed.

Lemma claim_only_no_send zs e : claim_only zs e = true -> coop_send e = false.
Proof. destruct e; cbn; try discriminate; auto. Qed.

(* once RebalancePayment has returned the preimage (in a calm step), every later effect in every history is a
   store write of the paying / claiming states, a preimage-spend attempt or the end of retransmission: in particular
   no message at all leaves the node, so coop_close (the swap key) is never sent *)
Theorem paid_then_claim_only tc dec t terminal zs m0 its :
  c06_table_ok t zs = true ->
  c06_calm tc dec t terminal (init_hstate m0) its = true ->
  forall pre e post,
    hs_trace (run_hist tc dec t terminal (init_hstate m0) its) = (pre ++ e :: post)%list ->
    existsb pay_ok pre = true ->
    claim_only (zs ++ pay_states t) e = true /\ coop_send e = false.
Proof.
  intros Hok Hc pre e post Htr Hp. unfold c06_table_ok in Hok. apply andb_true_iff in Hok. destruct Hok as [Hz Hpz].
  destruct (after_pay_mem pre e post Hp) as (p & Hap & Hin). rewrite <- Htr in Hap.
  destruct (hist_after_pay tc dec t terminal zs Hz Hpz m0 its Hc p Hap) as [T _].
  apply tail_ok_all in T. rewrite forallb_forall in T. pose proof (T e Hin) as He.
  split; [exact He|]. eapply claim_only_no_send; eauto.
Qed.

(* ... and the swap never leaves the claiming zone again: the machine (in memory or as restored after any crash) is in
   a state whose action is the preimage claim (or the final ClaimedPreimage) *)
Theorem paid_then_in_zone tc dec t terminal zs m0 its :
  c06_table_ok t zs = true ->
  c06_calm tc dec t terminal (init_hstate m0) its = true ->
  existsb pay_ok (hs_trace (run_hist tc dec t terminal (init_hstate m0) its)) = true ->
  forall m, hs_machine (run_hist tc dec t terminal (init_hstate m0) its) = Some m ->
    mem_str (m_cur m) zs = true /\
    exists sd a, lookup_state t (m_cur m) = Some sd /\ st_action sd = Some a /\ safe_tree a = true.
Proof.
  intros Hok Hc Hp m Hm. unfold c06_table_ok in Hok. apply andb_true_iff in Hok. destruct Hok as [Hz Hpz].
  destruct (after_pay_some _ Hp) as (p & Hap).
  destruct (hist_after_pay tc dec t terminal zs Hz Hpz m0 its Hc p Hap) as [_ HM].
  pose proof (HM m Hm) as HI. split; [exact HI|].
  destruct (zone_state t zs Hz _ HI) as (sd & a & Hl & Ha & Hs & _). eauto.
Qed.

(* with no failed attempt labelled "still in flight", the first sentence of the property is the statement above *)
Lemma no_coop_from_split es : forall pre i,
  (forall p e q, (pre ++ es)%list = (p ++ e :: q)%list -> existsb pay_ok p = true -> coop_send e = false) ->
  no_coop_once_out (existsb pay_ok pre) (label_from (fun _ => false) i es) = true.
Proof.
  induction es as [|e r IH]; intros pre i H; [reflexivity|].
  cbn [label_from no_coop_once_out]. apply andb_true_iff. split.
  - destruct (existsb pay_ok pre) eqn:E; [|reflexivity]. cbn [andb]. rewrite (H pre e r eq_refl E). reflexivity.
  - unfold may_be_out. rewrite andb_false_r, orb_false_r.
    replace (existsb pay_ok pre || pay_ok e) with (existsb pay_ok (pre ++ [e])).
    2:{ rewrite existsb_app. cbn. rewrite orb_false_r. reflexivity. }
    apply IH. intros p e' q Heq. apply (H p e' q). rewrite <- Heq, <- app_assoc. reflexivity.
Qed.

Lemma after_pay_all_intro (Q : effect -> bool) es :
  (forall pre e post, es = (pre ++ e :: post)%list -> existsb pay_ok pre = true -> Q e = true) ->
  after_pay_all Q es = true.
Proof.
  intros H. unfold after_pay_all. destruct (after_pay es) as [p|] eqn:Hap; [|reflexivity].
  apply forallb_forall. intros e He.
  destruct (after_pay_split _ _ Hap) as (pre & -> & Hpre).
  apply in_split in He. destruct He as (l1 & l2 & ->).
  apply (H (pre ++ l1)%list e l2).
  - rewrite <- app_assoc. reflexivity.
  - rewrite existsb_app, Hpre. reflexivity.
Qed.

(* ================= recovery keeps claiming ================= *)
Lemma recovery_claims tc dec t terminal zs m w o w' es :
  zone_recovers t terminal zs = true -> mem_str (m_cur m) zs = true ->
  chain_known (m_data m) = true -> d_claim_txid (m_data m) = EmptyString ->
  step tc dec t terminal m InRecover w = (o, w', es) ->
  is_finished terminal (m_cur m) = true \/ exists r rest, es = EBroadcastSpend SKPreimage r :: rest.
Proof.
  intros Hzr Hs Hck Htx H. unfold zone_recovers in Hzr. rewrite forallb_forall in Hzr.
  apply mem_str_in in Hs. specialize (Hzr _ Hs). apply orb_true_iff in Hzr. destruct Hzr as [Hf|Hr].
  { left. exact Hf. }
  destruct (is_finished terminal (m_cur m)) eqn:Hfin; [left; reflexivity|right].
  unfold step in H. rewrite Hfin in H.
  apply bind_inv in H. destruct H as ([m1 res] & w1 & e1 & e2 & Hrec & H & ->).
  apply ret_inv in H. destruct H as (_ & _ & ->). rewrite app_nil_r.
  unfold recover in Hrec.
  destruct (lookup_state t (m_cur m)) as [sd|]; [|discriminate].
  apply andb_true_iff in Hr. destruct Hr as [Hnf Ha]. apply negb_true_iff in Hnf. rewrite Hnf in Hrec.
  destruct (st_action sd) as [[n ch]|]; [|discriminate]. apply String.eqb_eq in Ha. subst n.
  apply bind_inv in Hrec. destruct Hrec as ([ev' d'] & w2 & e3 & e4 & Hex & Hrec & ->).
  with_strategy transparent [action_fuel] unfold action_fuel in Hex. rewrite exec_S in Hex. cbv zeta in Hex.
  unfold claim_action in Hex.
  cbn [String.eqb Ascii.eqb Bool.eqb andb] in Hex.
  cbn [assoc_str leaf_actions String.eqb Ascii.eqb Bool.eqb andb] in Hex.
  unfold act_claim_preimage, spend in Hex. rewrite Hck, Htx in Hex. cbn [negb str_nonempty String.eqb] in Hex.
  msym; list_simpl; eauto.
Qed.

(* ================= the generated taker tables ================= *)
From PS Require Import Gen.Tables Gen.ConstsSwap.

Lemma tables_checked :
  claim_zone table_swap_out_sender = ["State_SwapOutSender_ClaimSwap"; "State_ClaimedPreimage"]%string /\
  pay_states table_swap_out_sender = ["State_SwapOutSender_ValidateTxAndPayClaimInvoice"]%string /\
  claim_zone table_swap_in_receiver = ["State_SwapInReceiver_ClaimSwap"; "State_ClaimedPreimage"]%string /\
  pay_states table_swap_in_receiver = ["State_SwapInReceiver_ValidateTxAndPayClaimInvoice"]%string /\
  forallb (fun t => c06_table_ok t (claim_zone t) && zone_recovers t terminal_states (claim_zone t)) taker_tables = true.
Proof. vm_compute. repeat split; reflexivity. Qed.

Lemma taker_table_ok t : In t taker_tables ->
  c06_table_ok t (claim_zone t) = true /\ zone_recovers t terminal_states (claim_zone t) = true.
Proof.
  intros Hin. destruct tables_checked as (_ & _ & _ & _ & H). rewrite forallb_forall in H.
  apply andb_true_iff. exact (H t Hin).
Qed.

Theorem except_known : forall t, In t taker_tables -> forall tc dec terminal m0 its,
  c06_calm tc dec t terminal (init_hstate m0) its = true ->
  let h := run_hist tc dec t terminal (init_hstate m0) its in
  no_coop_once_out false (label_from (fun _ => false) O (hs_trace h)) = true /\
  after_pay_all (claim_only (claim_zone t ++ pay_states t)) (hs_trace h) = true /\
  (existsb pay_ok (hs_trace h) = true ->
   forall m, hs_machine h = Some m -> mem_str (m_cur m) (claim_zone t) = true).
Proof.
  intros t Hin tc dec terminal m0 its Hc h. destruct (taker_table_ok t Hin) as [Hok _].
  pose proof (paid_then_claim_only tc dec t terminal (claim_zone t) m0 its Hok Hc) as P. fold h in P.
  split; [|split].
  - apply (no_coop_from_split (hs_trace h) [] O). intros p e q Heq Hp. cbn [app] in Heq.
    destruct (P p e q Heq Hp) as [_ G]. exact G.
  - apply after_pay_all_intro. intros pre e post Heq Hp. destruct (P pre e post Heq Hp) as [G _]. exact G.
  - intros Hp m Hm.
    destruct (paid_then_in_zone tc dec t terminal (claim_zone t) m0 its Hok Hc Hp m Hm) as [G _]. exact G.
Qed.

Theorem recovery_claims_taker : forall t, In t taker_tables -> forall tc dec m w o w' es,
  mem_str (m_cur m) (claim_zone t) = true ->
  chain_known (m_data m) = true -> d_claim_txid (m_data m) = EmptyString ->
  step tc dec t terminal_states m InRecover w = (o, w', es) ->
  is_finished terminal_states (m_cur m) = true \/ exists r rest, es = EBroadcastSpend SKPreimage r :: rest.
Proof.
  intros t Hin tc dec m w o w' es. destruct (taker_table_ok t Hin) as [_ Hr].
  eapply recovery_claims; eauto.
Qed.
