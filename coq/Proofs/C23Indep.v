(* C23, message-building sites: which leaf actions write the pending-message slot, what they
   put there, and that what they put there does not depend on the secret fields of the swap
   data (swap private key, claim preimage, fee preimage) nor on the preimages the node draws
   (two runs that differ only in those produce the same pending message).  The one exception
   is TakerSendPrivkeyAction, whose message is (swap id, "", the swap private key). *)
From Coq Require Import String ZArith Bool List Lia.
From RecordUpdate Require Import RecordSet.
From PS Require Import Base.Wrap Model.Data Model.Actions Model.C23Corr
  Proofs.Monad Proofs.ExecRule Proofs.MTac.
Import ListNotations RecordSetNotations.
Open Scope Z_scope.

Strategy opaque [exec pay_loop].

Definition secrets_set (d : swap_data) (x y z : string) : swap_data :=
  d <| d_privkey := x |> <| d_claim_preimage := y |> <| d_fee_preimage := z |>.
(* the preimages the node generates (first components; the hashes are public) *)
Definition preimages_map (g : string -> string) (w : world) : world :=
  w <| q_preimage := map (fun p => (g (fst p), snd p)) (q_preimage w) |>.
Definition pending_of {A} (r : (string * swap_data) * world * A) : option wire_msg :=
  d_next_msg (snd (fst (fst r))).

Ltac crunch :=
  repeat (cbn; match goal with
  | |- context [if ?c then _ else _] =>
      lazymatch c with context [if _ then _ else _] => fail | context [match _ with _ => _ end] => fail | _ => destruct c end
  | |- context [match ?x with _ => _ end] => is_var x; destruct x
  | |- context [match ?x with _ => _ end] =>
      lazymatch x with context [if _ then _ else _] => fail | context [match _ with _ => _ end] => fail | (_, _) => fail | _ => destruct x end
  end); try reflexivity.

(* swap_in_agreement *)
Lemma in_agr_indep tc d w x y z g :
  pending_of (act_swap_in_receiver_init tc (secrets_set d x y z) (preimages_map g w)) =
  pending_of (act_swap_in_receiver_init tc d w).
Proof.
  unfold pending_of, act_swap_in_receiver_init, set_anchor, secrets_set, preimages_map, bind, ret, emit, ask, fail, succeed,
    pop_height, pop_premium, pop, overrun.
  destruct d, w. cbn. unfold is_lbtc_v7, get_chain, get_version, get_asset, get_network, get_request, get_id. cbn.
  crunch.
Qed.

(* swap_out_agreement (the fee preimage is drawn here) *)
Lemma out_agr_indep tc d w x y z g :
  pending_of (act_create_swap_out_from_request tc (secrets_set d x y z) (preimages_map g w)) =
  pending_of (act_create_swap_out_from_request tc d w).
Proof.
  unfold pending_of, act_create_swap_out_from_request, secrets_set, preimages_map, bind, ret, emit, ask, fail, succeed,
    pop_fee_est, pop_balance, pop_preimage, pop_mkinvoice, pop_premium, pop, overrun.
  destruct d, w. cbn. unfold chain_known, get_amount, get_chain, get_asset, get_network, get_request, get_id. cbn.
  crunch.
Qed.

(* swap_in_request / swap_out_request *)
Lemma req_indep tc d w x y z g :
  pending_of (act_create_swap_request tc (secrets_set d x y z) (preimages_map g w)) =
  pending_of (act_create_swap_request tc d w).
Proof.
  unfold pending_of, act_create_swap_request, set_anchor, secrets_set, preimages_map, bind, ret, emit, ask, fail, succeed, panic,
    pop_height, pop, overrun.
  destruct d, w. cbn. unfold is_lbtc_v7, get_chain, get_version, get_asset, get_network, get_request, get_id. cbn.
  crunch.
Qed.

(* coop_close: exactly (swap id, "", swap private key) *)
Lemma coop_site d w :
  pending_of (act_taker_send_privkey d w) = Some (MCoop (mkCoop (sid d) EmptyString (d_privkey d))).
Proof. destruct d; reflexivity. Qed.

(* opening_tx_broadcasted (the claim preimage is drawn here): the message written is the stored
   opening message; its id is the swap id and its blinding key the record's blinding key on
   Liquid (intended), "" otherwise; payreq / txid / vout are answers of the Lightning node and
   the wallet *)
Lemma otb_site tc d w ev d' w' es :
  act_create_and_broadcast_opening tc d w = ((ev, d'), w', es) ->
  d_next_msg d' = d_next_msg d \/
  exists o, d_next_msg d' = Some (MOtb o) /\ d_otb d' = Some o /\ ob_id o = sid d /\
            ob_blinding o = (if String.eqb (get_chain d) lbtc_chain then blinding_of d else EmptyString).
Proof.
  intros H. autounfold with actions in H. msym; try (left; reflexivity).
  right. eexists. cbn. split; [reflexivity|]. split; [reflexivity|]. split.
  - unfold sid, get_id. destruct d; cbn. reflexivity.
  - unfold get_chain, get_asset, get_network, get_request, blinding_of. destruct d; cbn. reflexivity.
Qed.

(* every other leaf action leaves the pending-message slot alone *)
Definition builder (name : string) : bool :=
  existsb (String.eqb name)
    ["CreateSwapRequestAction"; "SwapInReceiverInitAction"; "CreateSwapOutFromRequestAction";
     "CreateAndBroadcastOpeningTransaction"; "TakerSendPrivkeyAction"]%string.

Lemma pay_loop_pending n : forall csvh pol payreq d w r w' es,
  pay_loop n csvh pol payreq d w = (r, w', es) -> d_next_msg (snd r) = d_next_msg d.
Proof.
  induction n as [|n IH]; intros csvh pol payreq d w r w' es H.
  - rewrite pay_loop_O in H. msym. reflexivity.
  - rewrite pay_loop_S in H. msym; try reflexivity. eapply IH; eauto.
Qed.

Lemma only_builders_write_pending tc dec name f : In (name, f) (leaf_actions tc dec) -> builder name = false ->
  forall d w r w' es, f d w = (r, w', es) -> d_next_msg (snd r) = d_next_msg d.
Proof.
  intros Hin Hb d w r w' es H. leaf_cases Hin; try discriminate Hb.
  all: autounfold with actions in H; msym; try (cbn; congruence).
  all: match goal with Hpl : pay_loop _ _ _ _ _ _ = _ |- _ => apply pay_loop_pending in Hpl; cbn in *; congruence end.
Qed.
