(* A variant of the exec rule (Proofs/ExecRule.v) for facts that depend on WHICH leaf
   actions occur in an action tree: the tree is checked by a boolean predicate on the Go
   type names along the first-child chain (the only path exec follows), and the leaf
   obligation is asked only for names that pass it.  Needed to connect reflective checks
   on the generated tables with the behaviour of exec. *)
From Coq Require Import String ZArith Bool List Lia.
From RecordUpdate Require Import RecordSet.
From PS Require Import Base.Wrap Model.Data Model.Actions Proofs.Monad Proofs.ExecRule.
Import ListNotations RecordSetNotations.
Open Scope Z_scope.

Strategy opaque [exec pay_loop].

Section Named.
Variable ok_name : string -> bool.

Fixpoint tree_ok (a : action_tree) : bool :=
  match a with
  | ANode name ch => ok_name name && match ch with c :: _ => tree_ok c | [] => true end
  end.

Variable tc : tl_consts.
Variable dec : string -> option (string * Z * Z).
Variable Q : swap_data -> string * swap_data -> list effect -> Prop.

Hypothesis Q_leaf : forall name f, In (name, f) (leaf_actions tc dec) -> ok_name name = true ->
  forall d w r w' es, f d w = (r, w', es) -> Q d r es.
Hypothesis Q_unknown : forall d, Q d (Ev_Unknown, d) [].
Hypothesis Q_reject_logged : forall d, Q d (Ev_Failed, d) [ERequestedSwapLog].
Hypothesis Q_fail : forall d, Q d (Ev_Failed, d) [].
Hypothesis Q_blinding : forall d k r es,
  String.eqb (get_chain d) lbtc_chain = true -> Q (d <| d_blinding_hex := k |>) r es -> Q d r es.
Hypothesis Q_stop : forall d r es, Q d r es -> Q d r (ERetransStop :: es).
Hypothesis Q_panic : forall d, check_premium d = None -> Q d (Ev_Panic, d) [].
Hypothesis Q_suspicious : forall d r es, Q d r es -> Q d r (ESuspicious (d_peer d) :: es).

Theorem exec_rule_named fuel : forall a d w r w' es,
  tree_ok a = true -> exec tc dec fuel a d w = (r, w', es) -> Q d r es.
Proof.
  induction fuel as [|fuel IH]; intros [name ch] d w r w' es Hok H.
  - rewrite exec_O in H. apply ret_inv in H. destruct H as (-> & _ & ->). apply Q_unknown.
  - rewrite exec_S in H. cbv zeta in H. cbn [tree_ok] in Hok. apply andb_true_iff in Hok.
    destruct Hok as [Hname Hch].
    assert (Next : forall d' w1 r1 w2 e1,
              (match first_child ch with Some c => exec tc dec fuel c d' | None => ret (Ev_Unknown, d') end) w1
              = (r1, w2, e1) -> Q d' r1 e1).
    { clear H. intros d' w1 r1 w2 e1 Hn. destruct ch as [|c ch']; cbn [first_child] in Hn.
      - apply ret_inv in Hn. destruct Hn as (-> & _ & ->). apply Q_unknown.
      - eapply IH; eauto. }
    destruct (String.eqb name "CheckRequestWrapperAction").
    { apply bind_inv in H. destruct H as (cr & w1 & e1 & e2 & Hc & H & ->).
      apply check_request_no_effects in Hc. subst e1. simpl.
      destruct cr as [[|]|].
      - eapply Next; eauto.
      - unfold log_rejected in H. apply bind_inv in H. destruct H as (u & w2 & e3 & e4 & He & H & ->).
        apply emit_inv in He. destruct He as (-> & ->).
        apply ret_inv in H. destruct H as (-> & _ & ->). apply Q_reject_logged.
      - apply ret_inv in H. destruct H as (-> & _ & ->). apply Q_fail. }
    destruct (String.eqb name "SetBlindingKeyActionWrapper").
    { destruct (String.eqb (get_chain d) lbtc_chain) eqn:El.
      - apply bind_inv in H. destruct H as (k & w1 & e1 & e2 & Hp & H & ->).
        apply pop_inv in Hp. subst e1. simpl. eapply Q_blinding; eauto.
      - eapply Next; eauto. }
    destruct (String.eqb name "StopSendMessageWithRetryWrapperAction").
    { apply bind_inv in H. destruct H as (u & w1 & e1 & e2 & He & H & ->).
      apply emit_inv in He. destruct He as (-> & ->). simpl. apply Q_stop. eapply Next; eauto. }
    destruct (String.eqb name "CheckPremiumAmount").
    { destruct (check_premium d) as [[|]|] eqn:Ep.
      - eapply Next; eauto.
      - apply ret_inv in H. destruct H as (-> & _ & ->). apply Q_fail.
      - apply ret_inv in H. destruct H as (-> & _ & ->). apply Q_panic; auto. }
    destruct (String.eqb name "AddSuspiciousPeerAction").
    { apply bind_inv in H. destruct H as (ok & w1 & e1 & e2 & Hp & H & ->).
      apply pop_inv in Hp. subst e1.
      apply bind_inv in H. destruct H as (u & w2 & e3 & e4 & He & H & ->).
      apply emit_inv in He. destruct He as (-> & ->). simpl. apply Q_suspicious. eapply Next; eauto. }
    destruct (assoc_str name (leaf_actions tc dec)) as [f|] eqn:Ef.
    + apply assoc_str_in in Ef. eapply Q_leaf; eauto.
    + apply ret_inv in H. destruct H as (-> & _ & ->). apply Q_unknown.
Qed.

End Named.
